import RV.Proofs.SyncSaba
import RV.Proofs.SyncPhys
/-
  C09 for SABA, physics part: unsafe mode + synchronize = safe mode for all 18 types.
-/
set_option linter.unusedVariables false
set_option linter.unusedSimpArgs false
set_option linter.unusedSectionVars false
namespace RV.Sync
variable {T PJ X V A : Type}

def SabaConfig.mode (c : SabaConfig) (safe keep : Bool) : SabaConfig := { c with safe := safe, keep := keep }

@[simp] theorem sabaDrift_mode (c : SabaConfig) (a b i : Bool) : sabaDrift (c.mode a b) i = sabaDrift c i := rfl
@[simp] theorem sabaTail_mode (c : SabaConfig) (a b : Bool) : sabaTail (c.mode a b) = sabaTail c := rfl
@[simp] theorem sabaSyncMid_mode (c : SabaConfig) (a b : Bool) : sabaSyncMid (c.mode a b) = sabaSyncMid c := rfl
@[simp] theorem saba_mode_safe (c : SabaConfig) (a b : Bool) : (c.mode a b).safe = a := rfl
@[simp] theorem saba_mode_keep (c : SabaConfig) (a b : Bool) : (c.mode a b).keep = b := rfl
@[simp] theorem saba_mode_type (c : SabaConfig) (a b : Bool) : (c.mode a b).type = c.type := rfl

/-- group laws of the primitives SABA's deferred synchronisation relies on (exact arithmetic) -/
structure SabaLaws [AddCommGroup T] (S : Sem T PJ X V A) (c : SabaConfig) : Prop where
  kepler_add : ∀ a b p, S.kepler a (S.kepler b p) = S.kepler (a + b) p
  com_add : ∀ a b p, S.com a (S.com b p) = S.com (a + b) p
  kepler_com : ∀ a b p, S.kepler a (S.com b p) = S.com b (S.kepler a p)
  from_to : ∀ p, S.fromI (S.toIpos p) (S.toIvel p) p = p
  /-- `c₀·dt + c₀·dt = 2·c₀·dt` -/
  ev_double : S.ev (.sabaC (c.type % 0x100) 0 1) + S.ev (.sabaC (c.type % 0x100) 0 1) =
    S.ev (.sabaC (c.type % 0x100) 0 2)
  /-- **the merge law of the corrector step** (types `0x1nn`, `0x2nn`): two corrector steps with
      coefficient `cc` act on the internal coordinates like one with `2·cc`.  For the modified-kick
      corrector this is additivity of a kick at fixed positions (`c09_saba_modified_kick_merge`);
      for the lazy corrector it holds because its kick only depends on positions and leaves them
      where they were. -/
  corr_merge : c.type ≥ 0x100 → ∀ s : St PJ X V A,
    (exec S (sabaCorrOps c.type 1 ++ sabaCorrOps c.type 1) s).pj = (exec S (sabaCorrOps c.type 2) s).pj

variable [AddCommGroup T]

theorem sabaSyncMid_pos (S : Sem T PJ X V A) (c : SabaConfig) (s : St PJ X V A) :
    (exec S (sabaSyncMid c) s).pos = S.toIpos (exec S (sabaSyncMid c) s).pj ∧
    (exec S (sabaSyncMid c) s).vel = S.toIvel (exec S (sabaSyncMid c) s).pj := by
  unfold sabaSyncMid
  rw [exec_append]
  simp [exec, denote]

/-- last drift / corrector of synchronize followed by the first drift / corrector of the next
    part1 = the merged drift / corrector of unsafe mode -/
theorem saba_merge {S : Sem T PJ X V A} {c : SabaConfig} (L : SabaLaws S c)
    (u w : St PJ X V A) (hw : w.pj = (exec S (sabaSyncMid c) u).pj) :
    (exec S (sabaDrift c true) w).pj = (exec S (sabaDrift c false) u).pj := by
  unfold sabaSyncMid at hw
  unfold sabaDrift
  by_cases hc : c.type ≥ 0x100
  · simp only [hc, if_true, exec_append] at hw ⊢
    have hw2 : w.pj = (exec S (sabaCorrOps c.type 1) u).pj := by rw [hw]; simp [exec, denote]
    have h1 : (exec S (sabaCorrOps c.type 1) w).pj = (exec S (sabaCorrOps c.type 2) u).pj := by
      rw [closed_pj_congr S (closed_sabaCorr c.type 1) hw2, ← exec_append]
      exact L.corr_merge hc u
    simp only [exec, denote, h1, Bool.false_eq_true, if_false]
  · simp only [hc, if_false, exec_append] at hw ⊢
    have hw2 : w.pj = S.com (S.ev (.sabaC (c.type % 0x100) 0 1)) (S.kepler (S.ev (.sabaC (c.type % 0x100) 0 1)) u.pj) := by
      rw [hw]; simp [exec, denote]
    simp only [exec, denote, if_true, Bool.false_eq_true, if_false]
    rw [hw2, L.kepler_com, L.kepler_add, L.com_add, L.ev_double]

/-- shape of a safe-mode step from a synchronised state -/
theorem sabaStepOps_safe (c : SabaConfig) (r : Bool) :
    sabaStepOps (c.mode true false) ⟨true, r, true⟩ =
      ([.sabaInit (c.type ≥ 0x100), .init, .fromInertial] ++ sabaDrift c true ++ sabaTail c ++ sabaSyncMid c ++
        [.advT (.frac 1 1)], ⟨true, false, true⟩) := by
  cases r <;>
    simp [sabaStepOps, sabaPart1Ops, sabaPart2Ops, sabaSyncOps, initF, sabaDrift, sabaTail, sabaSyncMid,
      List.append_assoc, SabaConfig.mode]

theorem sabaStepOps_unsafe' (c : SabaConfig) (g : Flags) (hg : g.allocated = true)
    (hr : g.isSync = false → g.recalc = false) :
    sabaStepOps (c.mode false false) g =
      ([.sabaInit (c.type ≥ 0x100), .init] ++ (if g.recalc then [Prim.fromInertial] else []) ++
        sabaDrift c g.isSync ++ sabaTail c ++ [.advT (.frac 1 1)],
       { isSync := false, recalc := false, allocated := true }) := by
  have := sabaStepOps_unsafe (c.mode false false) rfl g hg hr
  have e : (g.isSync || g.recalc && (c.mode false false).p1fix) = g.isSync := by
    cases hi : g.isSync
    · simp [hr hi]
    · simp
  rw [e] at this
  simpa using this

theorem sabaSyncOps_unsafe_unsync (c : SabaConfig) (r a : Bool) :
    sabaSyncOps (c.mode false false) ⟨false, r, a⟩ = (sabaSyncMid c, ⟨true, r, a⟩) := by
  simp [sabaSyncOps, sabaSyncMid, SabaConfig.mode]

theorem sabaSyncOps_unsafe_sync (c : SabaConfig) (f : Flags) (h : f.isSync = true) :
    sabaSyncOps (c.mode false false) f = ([], f) := by
  simp [sabaSyncOps, h, SabaConfig.mode]

inductive SInv (S : Sem T PJ X V A) (c : SabaConfig) :
    Flags × St PJ X V A → Flags × St PJ X V A → Prop
  | fresh (u v) : u.2 = v.2 → initF u.1 = ⟨true, true, true⟩ → initF v.1 = ⟨true, true, true⟩ → SInv S c u v
  | unsync (u v) : u.1 = ⟨false, false, true⟩ → v.1 = ⟨true, false, true⟩ →
      v.2.pj = (exec S (sabaSyncMid c) u.2).pj → v.2.pos = S.toIpos v.2.pj → v.2.vel = S.toIvel v.2.pj →
      SInv S c u v
  | synced (u v) : u.1 = ⟨true, false, true⟩ → v.1 = ⟨true, false, true⟩ →
      u.2.pj = v.2.pj → u.2.pos = v.2.pos → u.2.vel = v.2.vel →
      v.2.pos = S.toIpos v.2.pj → v.2.vel = S.toIvel v.2.pj → SInv S c u v

theorem saba_step_join (S : Sem T PJ X V A) (c : SabaConfig) (a b : St PJ X V A) (h : a.pj = b.pj) :
    let u' := exec S (sabaTail c ++ [.advT (.frac 1 1)]) a
    let v' := exec S (sabaTail c ++ sabaSyncMid c ++ [.advT (.frac 1 1)]) b
    v'.pj = (exec S (sabaSyncMid c) u').pj ∧ v'.pos = S.toIpos v'.pj ∧ v'.vel = S.toIvel v'.pj := by
  intro u' v'
  have e1 : u' = exec S (sabaTail c) a := by
    show exec S (sabaTail c ++ [.advT (.frac 1 1)]) a = _
    rw [exec_append]; rfl
  have e2 : v' = exec S (sabaSyncMid c) (exec S (sabaTail c) b) := by
    show exec S (sabaTail c ++ sabaSyncMid c ++ [.advT (.frac 1 1)]) b = _
    rw [exec_append, exec_append]; rfl
  rw [e1, e2]
  refine ⟨?_, (sabaSyncMid_pos S c _).1, (sabaSyncMid_pos S c _).2⟩
  exact closed_pj_congr S (closed_sabaSyncMid c) (closed_pj_congr S (closed_sabaTail c) h).symm

theorem sabaApply_step (S : Sem T PJ X V A) (c : SabaConfig) (x : Flags × St PJ X V A) :
    sabaApply S c .step x = ((sabaStepOps c x.1).2, exec S (sabaStepOps c x.1).1 x.2) := rfl
theorem sabaApply_sync (S : Sem T PJ X V A) (c : SabaConfig) (x : Flags × St PJ X V A) :
    sabaApply S c .synchronize x = ((sabaSyncOps c x.1).2, exec S (sabaSyncOps c x.1).1 x.2) := rfl

theorem sinv_step {S : Sem T PJ X V A} {c : SabaConfig} (L : SabaLaws S c)
    {u v : Flags × St PJ X V A} (h : SInv S c u v) :
    SInv S c (sabaApply S (c.mode false false) .step u) (sabaApply S (c.mode true false) .step v) := by
  rw [sabaApply_step, sabaApply_step]
  cases h with
  | fresh h1 h2 h3 =>
    rw [← sabaStepOps_initF _ u.1, ← sabaStepOps_initF _ v.1, h2, h3, sabaStepOps_unsafe' c _ rfl (by simp),
      sabaStepOps_safe]
    have hj := saba_step_join S c (exec S ([.sabaInit (c.type ≥ 0x100), .init, .fromInertial] ++ sabaDrift c true) u.2)
      (exec S ([.sabaInit (c.type ≥ 0x100), .init, .fromInertial] ++ sabaDrift c true) v.2) (by rw [h1])
    refine SInv.unsync _ _ rfl rfl ?_ ?_ ?_ <;>
      simp only [List.append_assoc, exec_append, if_true] at hj ⊢
    · exact hj.1
    · exact hj.2.1
    · exact hj.2.2
  | unsync h1 h2 h3 h4 h5 =>
    rw [h1, h2, sabaStepOps_unsafe' c _ rfl (by simp), sabaStepOps_safe]
    have hw : (exec S [.sabaInit (c.type ≥ 0x100), .init, .fromInertial] v.2).pj = (exec S (sabaSyncMid c) u.2).pj := by
      simp only [exec, denote]; rw [h4, h5, L.from_to, h3]
    have hd := saba_merge L u.2 _ hw
    have hj := saba_step_join S c (exec S ([.sabaInit (c.type ≥ 0x100), .init] ++ sabaDrift c false) u.2)
      (exec S ([.sabaInit (c.type ≥ 0x100), .init, .fromInertial] ++ sabaDrift c true) v.2)
      (by rw [exec_append, exec_append]; exact hd.symm)
    refine SInv.unsync _ _ rfl rfl ?_ ?_ ?_ <;>
      simp only [List.append_assoc, exec_append, if_false, Bool.false_eq_true, List.append_nil] at hj ⊢
    · exact hj.1
    · exact hj.2.1
    · exact hj.2.2
  | synced h1 h2 h3 h4 h5 h6 h7 =>
    rw [h1, h2, sabaStepOps_unsafe' c _ rfl (by simp), sabaStepOps_safe]
    have hw : (exec S [.sabaInit (c.type ≥ 0x100), .init, .fromInertial] v.2).pj =
        (exec S [.sabaInit (c.type ≥ 0x100), .init] u.2).pj := by
      simp only [exec, denote]; rw [h6, h7, L.from_to, h3]
    have hj := saba_step_join S c (exec S ([.sabaInit (c.type ≥ 0x100), .init] ++ sabaDrift c true) u.2)
      (exec S ([.sabaInit (c.type ≥ 0x100), .init, .fromInertial] ++ sabaDrift c true) v.2)
      (by rw [exec_append, exec_append]; exact (closed_pj_congr S (closed_sabaDrift c true) hw).symm)
    refine SInv.unsync _ _ rfl rfl ?_ ?_ ?_ <;>
      simp only [List.append_assoc, exec_append, if_false, Bool.false_eq_true, List.append_nil] at hj ⊢
    · exact hj.1
    · exact hj.2.1
    · exact hj.2.2

theorem sinv_sync (S : Sem T PJ X V A) (c : SabaConfig) {u v : Flags × St PJ X V A} (h : SInv S c u v) :
    SInv S c (sabaApply S (c.mode false false) .synchronize u) v := by
  rw [sabaApply_sync]
  cases h with
  | fresh h1 h2 h3 =>
    have hs : u.1.isSync = true := by
      have := congrArg Flags.isSync h2; rwa [initF_isSync] at this
    rw [sabaSyncOps_unsafe_sync _ _ hs]
    exact SInv.fresh _ _ h1 h2 h3
  | unsync h1 h2 h3 h4 h5 =>
    rw [h1, sabaSyncOps_unsafe_unsync]
    refine SInv.synced _ _ rfl h2 ?_ ?_ ?_ h4 h5
    · exact h3.symm
    · show (exec S (sabaSyncMid c) u.2).pos = _
      rw [(sabaSyncMid_pos S c _).1, ← h3, h4]
    · show (exec S (sabaSyncMid c) u.2).vel = _
      rw [(sabaSyncMid_pos S c _).2, ← h3, h5]
  | synced h1 h2 h3 h4 h5 h6 h7 =>
    rw [sabaSyncOps_unsafe_sync _ _ (by rw [h1]), h1]
    exact SInv.synced _ _ rfl h2 h3 h4 h5 h6 h7

theorem sinv_run {S : Sem T PJ X V A} {c : SabaConfig} (L : SabaLaws S c)
    (σ : List (Op (X × V))) (hσ : ∀ o ∈ σ, o.benign = true) (u v : Flags × St PJ X V A)
    (h : SInv S c u v) :
    SInv S c (sabaRun S (c.mode false false) σ u) (sabaRun S (c.mode true false) (σ.filter Op.isStep) v) := by
  induction σ generalizing u v with
  | nil => exact h
  | cons o os ih =>
    have hos : ∀ o ∈ os, o.benign = true := fun o ho => hσ o (List.mem_cons_of_mem _ ho)
    have ho := hσ o List.mem_cons_self
    cases o with
    | step =>
      simp only [List.filter, Op.isStep, sabaRun]
      exact ih hos _ _ (sinv_step L h)
    | synchronize =>
      simp only [List.filter, Op.isStep, sabaRun]
      exact ih hos _ _ (sinv_sync S c h)
    | read =>
      simp only [List.filter, Op.isStep, sabaRun]
      exact ih hos _ _ h
    | setRecalc => simp [Op.benign] at ho
    | poke v => simp [Op.benign] at ho

theorem sinv_final (S : Sem T PJ X V A) (c : SabaConfig) {u v : Flags × St PJ X V A} (h : SInv S c u v) :
    (sabaApply S (c.mode false false) .synchronize u).2.pj = v.2.pj ∧
    (sabaApply S (c.mode false false) .synchronize u).2.pos = v.2.pos ∧
    (sabaApply S (c.mode false false) .synchronize u).2.vel = v.2.vel := by
  have := sinv_sync S c h
  cases this with
  | fresh h1 h2 h3 => rw [h1]; exact ⟨rfl, rfl, rfl⟩
  | unsync h1 h2 h3 h4 h5 =>
    exfalso
    have : (sabaApply S (c.mode false false) .synchronize u).1.isSync = true := by
      rw [sabaApply_sync]
      cases hs : u.1.isSync
      · have : u.1 = ⟨false, u.1.recalc, u.1.allocated⟩ := by rw [← hs]
        rw [this, sabaSyncOps_unsafe_unsync]
      · rw [sabaSyncOps_unsafe_sync _ _ hs]; exact hs
    rw [h1] at this; cases this
  | synced h1 h2 h3 h4 h5 h6 h7 => exact ⟨h3, h4, h5⟩

/-! ### the merge law of the modified-kick corrector from laws of its factors -/

/-- laws of the factors of `reb_saba_corrector_step`, modified-kick variant (types `0x1nn`) -/
structure ModKickLaws (S : Sem T PJ X V A) (row : Nat) : Prop where
  inter_add : ∀ a b acc p, S.inter a acc (S.inter b acc p) = S.inter (a + b) acc p
  /-- kick and jerk do not move the positions -/
  posJ_inter : ∀ b acc p, S.posJ (S.inter b acc p) = S.posJ p
  posJ_jerk : ∀ x a p, S.posJ (S.jerk x a p) = S.posJ p
  /-- the jerk buffer (acceleration members of `p_jh`) is overwritten, independently of the kick -/
  jerk_inter : ∀ x a t b p, S.jerk x a (S.inter t b p) = S.inter t b (S.jerk x a p)
  jerk_idem : ∀ x a p, S.jerk x a (S.jerk x a p) = S.jerk x a p
  /-- the folded acceleration only reads the jerk buffer -/
  fold_inter : ∀ t b p, S.sabaFold (S.inter t b p) = S.sabaFold p
  ev_cc_double : S.ev (.sabaCC row 1) + S.ev (.sabaCC row 1) = S.ev (.sabaCC row 2)

theorem saba_modified_kick_merge {S : Sem T PJ X V A} (t : Nat) (ht : t / 0x100 = 1)
    (L : ModKickLaws S (t % 0x100)) (s : St PJ X V A) :
    (exec S (sabaCorrOps t 1 ++ sabaCorrOps t 1) s).pj = (exec S (sabaCorrOps t 2) s).pj := by
  simp only [sabaCorrOps, ht, exec, denote, List.append, List.cons_append, List.nil_append,
    L.posJ_inter, L.posJ_jerk, L.jerk_inter, L.jerk_idem, L.fold_inter, L.inter_add, L.ev_cc_double]

end RV.Sync
