import RV.Proofs.Compare4
/-
  copy == source
-/
set_option linter.unusedVariables false
set_option linter.unusedSimpArgs false
namespace RV.Persist

/-- **a simulation compares equal to its own copy** (reb_simulation_copy = save, then load into a fresh
    simulation incl. the post-load fix-ups at a new address `self`), for every table satisfying the decidable side
    conditions, under three explicit hypotheses about the source:
    `hvar`   – it has no variational configuration (finding F5: that payload embeds a pointer and is memcmp'd),
    `hclean` – no emitted payload differs from itself (finding C17-N1: fails for a NaN in a member-wise compared double),
    `hfp`    – the payload of the function-pointer flag does not differ from itself (true when that row is memcmp'd). -/
theorem copy_equal (psz : Nat) (sp : Special) (specs : List CmpSpec) (tbl : List Desc) (pl vl : ElemLayout)
    (pSim vSim self : Nat) (init s : Sim) (fp : Bool)
    (ok : TableOK psz sp tbl) (fok : FixOK psz sp specs tbl pl pSim) (hwf : WF psz tbl s)
    (hie : InitEmpty tbl init)
    (hvar : ∀ d ∈ live tbl, (d.dtype = .pointer ∨ d.dtype = .pointerAligned) → d.mem = sp.varCfgMem → fieldSize s d = 0)
    (hclean : ∀ d ∈ live tbl, ∀ p, encodeField psz s d = [(d.id, p)] →
      payloadDiffer specs (descForType tbl d.id) p p = false ∨ wallOf tbl d.id = true)
    (hfp : ∀ p, payloadDiffer specs (descForType tbl sp.fpIdWritten) p p = false ∨ wallOf tbl sp.fpIdWritten = true) :
    compare sp specs tbl (encode psz sp tbl s fp)
      (encode psz sp tbl (copy psz sp tbl pl vl pSim vSim self init s fp).1 fp) = false := by
  unfold copy load
  simp only
  rw [decode_encode ok s init fp hwf]
  simp only
  unfold encode
  have hx : ∀ d ∈ live tbl, encodeField psz (restore psz tbl init s) d = encodeField psz s d :=
    fun d hd => encodeField_restore init s hie d hd
  apply compare_of_rows sp specs tbl (live tbl) _ _ _ ok.nodup ok.endFresh
  · -- the function-pointer field is not END
    show sp.fpIdWritten ≠ sp.endId
    rw [ok.fpEq]; exact ok.fpNotEnd
  · -- a row with the id of the function-pointer flag emits nothing
    intro d hd hid
    have hid' : d.id = sp.fpId := by rw [← ok.fpEq]; exact hid
    have hdt := ok.fpRow d hd hid'
    exact ⟨encodeField_none _ d (by simp [hdt]), encodeField_none _ d (by simp [hdt])⟩
  · exact hfp _
  · intro d hd
    have hr := finish_rows psz sp specs tbl pl vl pSim vSim self (restore psz tbl init s) fok
      (by
        intro d' hd' hdt hV
        have hz := hvar d' hd' hdt hV
        have he := hx d' hd'
        rw [encodeField_pointer _ d' hdt, encodeField_pointer _ d' hdt] at he
        by_cases h0 : fieldSize (restore psz tbl init s) d' = 0
        · exact h0
        · simp [h0, hz] at he)
      (by
        intro d' hd' p hp
        rw [hx d' hd'] at hp
        exact hclean d' hd' p hp)
      d hd
    unfold RowRel at hr ⊢
    rw [hx d hd] at hr
    exact hr

end RV.Persist
