import RV.Proofs.WHDH
import RV.Model.WHJump
/-
  The executable model of `reb_whfast_jump_step` (democratic heliocentric) and `reb_whfast_com_step`
  on the array `p_jh` IS the declarative jump / com step of RV/Proofs/WHDH.lean; hence it conserves
  L and P.
-/
set_option linter.unusedTactic false
set_option linter.unreachableTactic false
set_option linter.unnecessarySeqFocus false
set_option linter.unusedVariables false
set_option linter.unusedSimpArgs false
set_option linter.unusedSectionVars false
namespace RV.WHJump
open RV RV.Gravity RV.Diag RV.WH
variable {K : Type} [Field K]

/-- the array `p_jh` (with the masses of the particle array) that holds a DH state -/
def dsArr (N : Nat) (m : Nat → K) (s : DS K) : Array (Part K) :=
  (Array.range N).map fun i => if i = 0 then ⟨m 0, s.R, s.V⟩ else ⟨m i, s.Q i, s.W i⟩

@[simp] theorem dsArr_size (N : Nat) (m : Nat → K) (s : DS K) : (dsArr N m s).size = N := by simp [dsArr]

theorem dsArr_get (N : Nat) (m : Nat → K) (s : DS K) {i : Nat} (h : i < N) :
    (dsArr N m s)[i]? = some (if i = 0 then ⟨m 0, s.R, s.V⟩ else ⟨m i, s.Q i, s.W i⟩) := by
  simp [dsArr, h]

theorem dsArr_get_none (N : Nat) (m : Nat → K) (s : DS K) {i : Nat} (h : N ≤ i) :
    (dsArr N m s)[i]? = none := by
  simp [dsArr, h]

theorem dhMom_eq (N nAct : Nat) (hA : nAct ≤ N) (m : Nat → K) (s : DS K) :
    dhMom nAct (dsArr N m s) = ∑ k ∈ Finset.Ico 1 nAct, m k • s.W k := by
  unfold dhMom
  rw [forRange_add 1 nAct _ (fun k => m k • s.W k)]
  · simp
  · intro L i h1 h2
    have hi : i < N := by omega
    have h0 : i ≠ 0 := by omega
    rw [dsArr_get N m s hi]
    simp only [h0, if_false]
    ext <;> simp

/-- **the model of the DH jump step in closed form**, for every `N_active ≤ N_real ≤ N`: slot 0 (centre of
    mass), all masses and all velocities are untouched; every slot `1 ≤ i < N_real` (massive or test
    particle) is displaced by `(dt/m_0) Σ_{1≤k<N_active} m_k W_k`. -/
theorem jumpDH_model (N nAct nReal : Nat) (hN : 1 ≤ N) (hA : nAct ≤ N) (m : Nat → K) (τ : K) (s : DS K) :
    RV.WHJump.jumpDH τ nAct nReal (dsArr N m s)
      = dsArr N m { s with Q := fun i => if i < nReal then s.Q i + (τ / m 0) • ∑ k ∈ Finset.Ico 1 nAct, m k • s.W k
                                           else s.Q i } := by
  apply Array.ext_getElem?
  intro i
  unfold RV.WHJump.jumpDH
  simp only [Array.getElem?_mapIdx, dhMom_eq N nAct hA, dsArr_get N m s (show 0 < N by omega), if_true]
  by_cases hi : i < N
  · rw [dsArr_get N m s hi, dsArr_get N m _ hi]
    by_cases h0 : i = 0
    · subst h0; simp
    · have h1 : 1 ≤ i := by omega
      by_cases hr : i < nReal
      · simp only [h0, if_false, Option.map_some, h1, hr, and_self, if_true]
        congr 1
        simp only [Part.mk.injEq, true_and, and_true]
        ext <;> simp <;> ring
      · simp [h0, hr]
  · rw [dsArr_get_none N m s (by omega), dsArr_get_none N m _ (by omega)]
    simp

theorem dsArr_congr (N : Nat) (m : Nat → K) (s s' : DS K) (hR : s.R = s'.R) (hV : s.V = s'.V)
    (hQ : ∀ i, 1 ≤ i → i < N → s.Q i = s'.Q i) (hW : ∀ i, 1 ≤ i → i < N → s.W i = s'.W i) :
    dsArr N m s = dsArr N m s' := by
  apply Array.ext_getElem?
  intro i
  by_cases hi : i < N
  · rw [dsArr_get N m s hi, dsArr_get N m s' hi]
    by_cases h0 : i = 0
    · simp [h0, hR, hV]
    · simp [h0, hQ i (by omega) hi, hW i (by omega) hi]
  · rw [dsArr_get_none N m s (by omega), dsArr_get_none N m s' (by omega)]

/-- all particles active: the model is the declarative `RV.WH.jumpDH` -/
theorem jumpDH_model_active (N : Nat) (hN : 1 ≤ N) (m : Nat → K) (τ : K) (s : DS K) :
    RV.WHJump.jumpDH τ N N (dsArr N m s) = dsArr N m (RV.WH.jumpDH N m τ s) := by
  rw [jumpDH_model N N N hN (le_refl N) m τ s]
  apply dsArr_congr
  · rfl
  · rfl
  · intro i _ hi; simp [RV.WH.jumpDH, hi]
  · intro i _ _; rfl

/-- `reb_whfast_com_step` on the array = `R += dt·V` on the state -/
theorem comStep_model (N : Nat) (hN : 1 ≤ N) (m : Nat → K) (τ : K) (s : DS K) :
    RV.WHJump.comStep τ (dsArr N m s) = dsArr N m { s with R := s.R + τ • s.V } := by
  apply Array.ext_getElem?
  intro i
  unfold RV.WHJump.comStep
  by_cases hi : i < N
  · rw [Array.getElem?_modify, dsArr_get N m s hi, dsArr_get N m _ hi]
    by_cases h0 : i = 0
    · subst h0
      simp only [if_true, Option.map_some]
      congr 1
    · have : ¬ 0 = i := by omega
      simp [h0, this]
  · rw [Array.getElem?_modify, dsArr_get_none N m s (by omega), dsArr_get_none N m _ (by omega)]
    simp

theorem whdsMom_eq (N nAct : Nat) (hA : nAct ≤ N) (m : Nat → K) (s : DS K) :
    whdsMom nAct (dsArr N m s) (m 0) = ∑ k ∈ Finset.Ico 1 nAct, (m k / (m 0 + m k)) • s.W k := by
  unfold whdsMom
  rw [forRange_add 1 nAct _ (fun k => (m k / (m 0 + m k)) • s.W k)]
  · simp
  · intro L i h1 h2
    have hi : i < N := by omega
    have h0 : i ≠ 0 := by omega
    rw [dsArr_get N m s hi]
    simp only [h0, if_false]
    ext <;> simp <;> ring

/-- displaced positions of the WHDS jump step -/
def whdsQ (nAct nReal : Nat) (m : Nat → K) (τ : K) (s : DS K) (i : Nat) : V3 K :=
  let p : V3 K := ∑ k ∈ Finset.Ico 1 nAct, (m k / (m 0 + m k)) • s.W k
  if i < nAct then s.Q i + τ • (p - (m i / (m 0 + m i)) • s.W i)
  else (if i < nReal then s.Q i + τ • p else s.Q i)

/-- **the model of the WHDS jump step in closed form**: with `p = Σ_{1≤k<N_active} m_k/(m_0+m_k) W_k`, a massive
    body `1 ≤ i < N_active` is displaced by `dt (p − m_i/(m_0+m_i) W_i)`, a test particle
    `N_active ≤ i < N_real` by `dt p`; slot 0, masses and velocities are untouched. -/
theorem jumpWHDS_model (N nAct nReal : Nat) (hN : 1 ≤ N) (hA1 : 1 ≤ nAct) (hA : nAct ≤ N) (m : Nat → K) (τ : K) (s : DS K) :
    RV.WHJump.jumpWHDS τ nAct nReal (dsArr N m s) = dsArr N m { s with Q := whdsQ nAct nReal m τ s } := by
  apply Array.ext_getElem?
  intro i
  unfold RV.WHJump.jumpWHDS whdsQ
  simp only [Array.getElem?_mapIdx, dsArr_get N m s (show 0 < N by omega), if_true, whdsMom_eq N nAct hA]
  by_cases hi : i < N
  · rw [dsArr_get N m s hi, dsArr_get N m _ hi]
    by_cases h0 : i = 0
    · subst h0
      have : ¬ nAct ≤ 0 := by omega
      simp [this]
    · have h1 : 1 ≤ i := by omega
      by_cases ha : i < nAct
      · simp only [h0, if_false, Option.map_some, h1, ha, and_self, if_true]
        congr 1
        simp only [Part.mk.injEq, true_and, and_true]
        ext <;> simp only [V3.add_x, V3.add_y, V3.add_z, V3.smul_x, V3.smul_y, V3.smul_z, V3.sub_x, V3.sub_y, V3.sub_z, sc_hadd, sc_hmul, sc_hsub, sc_hdiv] <;> ring
      · by_cases hr : i < nReal
        · have : nAct ≤ i := by omega
          simp only [h0, if_false, Option.map_some, h1, ha, hr, this, and_self, and_false, true_and, if_true]
          congr 1
        · simp [h0, ha, hr]
  · rw [dsArr_get_none N m s (by omega), dsArr_get_none N m _ (by omega)]
    simp

end RV.WHJump
