import RV.Proofs.Particles
/-
  Core operation-level lemmas for C14 (particle array only, without the MERCURIUS side array): every operation of RV/Model/Particles.lean keeps the storage
  invariant, never faults, and — outside the call shapes of findings F4/F18 — does on the
  abstract list exactly what `Spec` says.
-/
set_option linter.unusedVariables false
set_option linter.unusedSimpArgs false
namespace RV.Particles


/-- storage invariant: the allocation is what `N_allocated` says and holds all live particles -/
def Inv (c : State) : Prop := c.mem.length = c.nAlloc ∧ c.N ≤ c.nAlloc

instance (c : State) : Decidable (Inv c) := inferInstanceAs (Decidable (_ ∧ _))

theorem Inv.le {c : State} (h : Inv c) : c.N ≤ c.mem.length := by have := h.1; have := h.2; omega

theorem abs_len {c : State} (h : Inv c) : (abs c).ps.length = c.N := by
  have := h.le; simp [abs, List.length_take]; omega

/-! ### add -/

theorem addCore_spec (c : State) (hinv : Inv c) (p : P) (g : Geo) :
    Inv (addCore c p g).1 ∧ (addCore c p g).2 ≠ .fault ∧
    (c.staleLeaf = false → (abs (addCore c p g).1, (addCore c p g).2) = (abs c).addCore p g) := by
  obtain ⟨k, hg, hlt⟩ := grow_spec c.mem c.nAlloc c.N hinv.1
  have hle := hinv.le
  have hwl : c.N < (c.mem ++ List.replicate k P.zero).length := by
    simp [List.length_append, List.length_replicate]; have := hinv.1; omega
  have hlen2 : ((c.mem ++ List.replicate k P.zero).set c.N p).length = c.nAlloc + k := by
    simp [List.length_append, List.length_replicate]; exact hinv.1
  have t1 := take_succ_set_append c.mem (List.replicate k P.zero) c.N p hle hwl
  have t0 : ((c.mem ++ List.replicate k P.zero).set c.N p).take c.N = c.mem.take c.N := by
    rw [take_set_same, take_append_le _ _ _ hle]
  unfold addCore Spec.addCore
  by_cases hg1 : g = .outsideBoundary
  · simp only [if_pos hg1]; exact ⟨hinv, by simp, fun _ => by simp [abs]⟩
  · simp only [if_neg hg1, hg, writeAt, if_pos hwl]
    cases htc : c.treeCfg <;> cases hbc : c.boxCfg <;> by_cases hg2 : g = .outsideTreeBox <;>
      cases hst : c.staleLeaf <;>
      simp [abs, Inv, htc, hbc, hg2, hlen2, t1, t0, hst] <;> omega

/-! ### removal -/

theorem removeSorted_spec (v : Variant) (c : State) (hinv : Inv c) (idx : Int)
    (h0 : 0 ≤ idx) (h1 : idx < c.N) :
    Inv (removeSorted v c idx).1 ∧ (removeSorted v c idx).2 ≠ .fault ∧
    ((v.treeFirst = true ∨ c.treeRoot = false) →
      (abs (removeSorted v c idx).1, (removeSorted v c idx).2) =
        (if c.treeRoot then (abs c, Out.errTreeSorted) else
          ({ abs c with ps := (abs c).ps.eraseIdx idx.toNat,
                        active := if idx < c.nActive then c.nActive - 1 else c.nActive }, Out.removed))) := by
  have hle := hinv.le
  unfold removeSorted
  by_cases hT : (v.treeFirst && c.treeRoot) = true
  · simp only [hT, if_true]
    refine ⟨hinv, by simp, fun _ => ?_⟩
    simp at hT; simp [hT.2]
  · simp only [hT]
    obtain ⟨n, hn⟩ : ∃ n, c.N = n + 1 := ⟨c.N - 1, by omega⟩
    have hidx : idx.toNat ≤ n := by omega
    have hsl := shiftLoop_spec (n - idx.toNat) c.mem idx.toNat (by omega)
    obtain ⟨m', e1, e2, e3⟩ := hsl
    have hn' : c.N - 1 = n := by omega
    simp only [hn', e1]
    have ht := take_sorted_remove c.mem m' n idx.toNat (by omega) hidx e2 e3
    refine ⟨?_, ?_, ?_⟩
    · cases c.treeRoot <;> simp [Inv, e2] <;> (have := hinv.1; have := hinv.2; omega)
    · cases c.treeRoot <;> simp
    · intro hv
      have htr : c.treeRoot = false := by
        rcases hv with hv | hv
        · simp [hv] at hT; exact hT
        · exact hv
      simp [htr, abs, ht, hn]

theorem removeUnsorted_spec (v : Variant) (c : State) (hinv : Inv c) (idx : Int)
    (h0 : 0 ≤ idx) (h1 : idx < c.N) :
    Inv (removeUnsorted v c idx).1 ∧ (removeUnsorted v c idx).2 ≠ .fault ∧
    ((v.unsortedClamp = true ∨ c.treeRoot = true ∨ c.nActive < c.N) →
      ∃ last, (abs c).ps.getLast? = some last ∧
      (abs (removeUnsorted v c idx).1, (removeUnsorted v c idx).2) =
        (if c.treeRoot then
          ({ abs c with ps := (abs c).ps.modify idx.toNat (fun p => { p with flagged := true }) }, Out.removed)
         else
          ({ abs c with ps := ((abs c).ps.set idx.toNat last).dropLast,
                        active := clampActive c.nActive ((abs c).ps.length - 1) }, Out.removed))) := by
  have hle := hinv.le
  obtain ⟨n, hn⟩ : ∃ n, c.N = n + 1 := ⟨c.N - 1, by omega⟩
  have hn' : c.N - 1 = n := by omega
  have hidx : idx.toNat ≤ n := by omega
  have hnl : n < c.mem.length := by omega
  have hil : idx.toNat < c.mem.length := by omega
  have hlast : (abs c).ps.getLast? = some c.mem[n] := by
    simp only [abs, hn]; rw [getLast_take c.mem n (by omega)]; exact List.getElem?_eq_getElem hnl
  have hlen : (abs c).ps.length = n + 1 := by simp [abs, List.length_take]; omega
  unfold removeUnsorted
  cases htr : c.treeRoot
  · simp only [hn', List.getElem?_eq_getElem hnl, writeAt, if_pos hil, Bool.false_eq_true, if_false]
    refine ⟨?_, by simp, fun hv => ⟨c.mem[n], hlast, ?_⟩⟩
    · simp [Inv]; have := hinv.1; have := hinv.2; omega
    · have ht := take_unsorted_remove c.mem n idx.toNat c.mem[n] (by omega) hidx (List.getElem?_eq_getElem hnl)
      have hcl : (if v.unsortedClamp = true then clampActive c.nActive n else c.nActive) = clampActive c.nActive n := by
        rcases hv with hv | hv | hv
        · simp [hv]
        · simp [htr] at hv
        · cases v.unsortedClamp <;> simp [clampActive] <;> omega
      have hm : min (n + 1) c.mem.length - 1 = n := by omega
      simp [abs, ht, hn, hcl, htr, List.length_take, hm]
  · simp only [List.getElem?_eq_getElem hil, if_true]
    refine ⟨?_, by simp, fun hv => ⟨c.mem[n], hlast, ?_⟩⟩
    · simp [Inv]; exact hinv
    · have ht := take_flag c.mem c.N idx.toNat c.mem[idx.toNat] (fun p => { p with flagged := true }) hle (by omega)
        (List.getElem?_eq_getElem hil)
      simp [abs, ht, htr]

/-- the call shapes in which the source variant `v` departs from the documented behaviour
    (F4a, F4b, F4c, F4d, F18b) are excluded -/
def NoShapeCore (v : Variant) (c : State) (index : Int) (ks : Bool) : Prop :=
  (v.rangeFirst = true ∨ c.N ≠ 1 ∨ rangeBad c index = false) ∧
  (v.treeFirst = true ∨ c.treeRoot = false ∨ (ks || c.forceSorted) = false ∨ c.N = 1 ∨ c.nVar ≠ 0 ∨
    rangeBad c index = true) ∧
  (v.lastClamp = true ∨ c.N ≠ 1 ∨ c.nActive ≤ 0) ∧
  (v.unsortedClamp = true ∨ (ks || c.forceSorted) = true ∨ c.treeRoot = true ∨ c.nActive < c.N ∨ c.N = 1 ∨
    c.nVar ≠ 0 ∨ rangeBad c index = true) ∧
  (v.resetTree = true ∨ c.N ≠ 1 ∨ c.treeRoot = false)

theorem NoShapeCore.repaired (c : State) (index : Int) (ks : Bool) :
    NoShapeCore Variant.repaired c index ks := by
  simp [NoShapeCore, Variant.repaired]

theorem removeCore_eq (v : Variant) (c : State) (idx : Int) (ks : Bool) :
    removeCore v c idx ks =
      if rangeBad c idx = true then
        (if v.rangeFirst = false ∧ c.N = 1 then removeShortcut v c else (c, Out.errRange))
      else if c.N = 1 then removeShortcut v c else removeRest v c idx (ks || c.forceSorted) := by
  unfold removeCore
  cases v.rangeFirst <;> by_cases h1 : c.N = 1 <;> cases rangeBad c idx <;> simp [h1]

theorem rangeBad_iff (c : State) (idx : Int) : rangeBad c idx = true ↔ (idx < 0 ∨ idx ≥ (c.N : Int)) := by
  simp [rangeBad]; omega

theorem removeShortcut_inv (v : Variant) (c : State) (hinv : Inv c) :
    Inv (removeShortcut v c).1 ∧ (removeShortcut v c).2 ≠ .fault := by
  simp [removeShortcut, Inv]; exact hinv.1

theorem removeCore_spec (v : Variant) (c : State) (hinv : Inv c) (idx : Int) (ks : Bool) :
    Inv (removeCore v c idx ks).1 ∧ (removeCore v c idx ks).2 ≠ .fault ∧
    (NoShapeCore v c idx ks → (abs (removeCore v c idx ks).1, (removeCore v c idx ks).2) = (abs c).removeCore idx ks) := by
  have hlen := abs_len hinv
  rw [removeCore_eq]
  by_cases hrb : rangeBad c idx = true
  · have hr := (rangeBad_iff c idx).mp hrb
    have hspec : (abs c).removeCore idx ks = (abs c, Out.errRange) := by
      unfold Spec.removeCore; rw [hlen, if_pos (by omega)]
    rw [if_pos hrb]
    by_cases hsc : v.rangeFirst = false ∧ c.N = 1
    · rw [if_pos hsc]
      refine ⟨(removeShortcut_inv v c hinv).1, (removeShortcut_inv v c hinv).2, fun hs => ?_⟩
      rcases hs.1 with h | h | h
      · rw [hsc.1] at h; simp at h
      · exact absurd hsc.2 h
      · rw [hrb] at h; simp at h
    · rw [if_neg hsc]
      exact ⟨hinv, by simp, fun _ => hspec.symm⟩
  · have hr : 0 ≤ idx ∧ idx < c.N := by
      have : ¬ (idx < 0 ∨ idx ≥ (c.N : Int)) := fun h => hrb ((rangeBad_iff c idx).mpr h)
      omega
    rw [if_neg hrb]
    by_cases hN1 : c.N = 1
    · rw [if_pos hN1]
      refine ⟨(removeShortcut_inv v c hinv).1, (removeShortcut_inv v c hinv).2, fun hs => ?_⟩
      obtain ⟨_, _, h3, _, h5⟩ := hs
      have hna : (if v.lastClamp = true then clampActive c.nActive 0 else c.nActive) = clampActive c.nActive 0 := by
        rcases h3 with h | h | h
        · simp [h]
        · exact absurd hN1 h
        · cases v.lastClamp <;> simp [clampActive] <;> omega
      have htr : (if v.resetTree = true then false else c.treeRoot) = false := by
        rcases h5 with h | h | h
        · simp [h]
        · exact absurd hN1 h
        · simp [h]
      unfold Spec.removeCore; rw [hlen]
      rw [if_neg (by omega), if_pos hN1]
      simp [removeShortcut, abs, hna, htr]
    · rw [if_neg hN1]
      unfold removeRest
      have hspec0 : (abs c).removeCore idx ks = (abs c).removeMany idx (ks || c.forceSorted) := by
        unfold Spec.removeCore; rw [hlen]
        rw [if_neg (by omega), if_neg hN1]
        rfl
      have hnv' : (abs c).nVar = c.nVar := rfl
      have htr' : (abs c).treeRoot = c.treeRoot := rfl
      have hac' : (abs c).active = c.nActive := rfl
      by_cases hnv : c.nVar ≠ 0
      · rw [if_pos hnv]
        exact ⟨hinv, by simp, fun _ => by rw [hspec0]; unfold Spec.removeMany; rw [if_pos (show (abs c).nVar ≠ 0 from hnv)]⟩
      · rw [if_neg hnv]
        by_cases hks : (ks || c.forceSorted) = true
        · rw [if_pos hks]
          obtain ⟨a1, a2, a3⟩ := removeSorted_spec v c hinv idx hr.1 hr.2
          refine ⟨a1, a2, fun hs => ?_⟩
          have : v.treeFirst = true ∨ c.treeRoot = false := by
            rcases hs.2.1 with h | h | h | h | h | h
            · exact Or.inl h
            · exact Or.inr h
            · rw [hks] at h; simp at h
            · exact absurd h hN1
            · exact absurd h hnv
            · exact absurd h hrb
          rw [a3 this, hspec0]; unfold Spec.removeMany; rw [if_neg (show ¬ (abs c).nVar ≠ 0 from hnv), if_pos hks]
          rfl
        · rw [if_neg hks]
          obtain ⟨a1, a2, a3⟩ := removeUnsorted_spec v c hinv idx hr.1 hr.2
          refine ⟨a1, a2, fun hs => ?_⟩
          have : v.unsortedClamp = true ∨ c.treeRoot = true ∨ c.nActive < c.N := by
            rcases hs.2.2.2.1 with h | h | h | h | h | h | h
            · exact Or.inl h
            · exact absurd h hks
            · exact Or.inr (Or.inl h)
            · exact Or.inr (Or.inr h)
            · exact absurd h hN1
            · exact absurd h hnv
            · exact absurd h hrb
          obtain ⟨last, hl, e⟩ := a3 this
          rw [e, hspec0]; unfold Spec.removeMany; rw [if_neg (show ¬ (abs c).nVar ≠ 0 from hnv), if_neg hks, hl]
          rfl



end RV.Particles
