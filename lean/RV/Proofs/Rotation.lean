import RV.Proofs.Field
import RV.Model.Rotation
import Mathlib.Algebra.Order.Field.Basic
import Mathlib.Algebra.Order.AbsoluteValue.Basic
import Mathlib.Tactic.Linarith
import Mathlib.Tactic.Positivity
import Mathlib.Tactic.NormNum
/- helper lemmas for the rotation part of RV/Props/C20.lean -/
set_option linter.unusedTactic false
set_option linter.unreachableTactic false
set_option linter.unnecessarySeqFocus false
set_option linter.unusedVariables false
set_option linter.unusedSimpArgs false
set_option linter.unusedSectionVars false
namespace RV.Rot
open RV

/-- the transcendental / root functions of the exact model, kept abstract: theorems state
    exactly which of their properties they use -/
class RealFns (K : Type) where
  sqrt : K → K
  sin : K → K
  cos : K → K
  acos : K → K

section
variable {K : Type} [Field K] [LinearOrder K] [RealFns K]

/-- the exact-arithmetic instance of the operation class of the rotation model: a linearly
    ordered field; comparisons are the order, `fabs` is `|·|`, `isnormal x` is `x ≠ 0`
    (in exact arithmetic `0 * (1/0) = 0`, so the normalised zero vector has squared length
    `0`, which is what sends `reb_rotation_init_from_to` into its antiparallel branch; in
    IEEE arithmetic the same quantity is NaN, equally not `isnormal`) -/
instance exactR : ScalarR K where
  toScalar := fieldScalar
  lt a b := decide (a < b)
  le a b := decide (a ≤ b)
  sqrt := RealFns.sqrt
  sin := RealFns.sin
  cos := RealFns.cos
  fabs a := |a|
  acos := RealFns.acos
  isnormal a := decide (a ≠ 0)

@[simp] theorem r_lt (a b : K) : ScalarR.lt a b = decide (a < b) := rfl
@[simp] theorem r_le (a b : K) : ScalarR.le a b = decide (a ≤ b) := rfl
@[simp] theorem r_sqrt (a : K) : ScalarR.sqrt a = RealFns.sqrt a := rfl
@[simp] theorem r_sin (a : K) : ScalarR.sin a = RealFns.sin a := rfl
@[simp] theorem r_cos (a : K) : ScalarR.cos a = RealFns.cos a := rfl
@[simp] theorem r_fabs (a : K) : ScalarR.fabs a = |a| := rfl
@[simp] theorem r_isnormal (a : K) : ScalarR.isnormal a = decide (a ≠ 0) := rfl
end

section Algebra
variable {K : Type} [Field K]

@[simp] theorem two_eq : (two : K) = 2 := by simp [two]

@[ext] theorem V3.ext' {a b : V3 K} (hx : a.x = b.x) (hy : a.y = b.y) (hz : a.z = b.z) : a = b := by
  cases a; cases b; simp_all

@[ext] theorem Quat.ext' {a b : Quat K} (h1 : a.ix = b.ix) (h2 : a.iy = b.iy) (h3 : a.iz = b.iz)
    (h4 : a.r = b.r) : a = b := by
  cases a; cases b; simp_all

/-- exact value of the dot product of two rotated vectors, for **any** quaternion -/
theorem rotate_dot_general (v w : V3 K) (q : Quat K) :
    dot (rotate v q) (rotate w q) =
      dot v w + 4 * (qlen2 q - 1) * dot (cross (imag q) v) (cross (imag q) w) := by
  simp only [rotate, dot, cross, vadd, vmul, imag, qlen2, two_eq, sc_hadd, sc_hsub, sc_hmul]
  ring

theorem qlen2_mul (p q : Quat K) : qlen2 (qmul p q) = qlen2 p * qlen2 q := by
  simp only [qlen2, qmul, sc_hadd, sc_hsub, sc_hmul]
  ring


/-- the quaternion sandwich `q v q̄` written out: `(r² − |u|²) v + 2 r (u × v) + 2 (u·v) u` -/
def sand (q : Quat K) (v : V3 K) : V3 K :=
  let u := imag q
  let a := q.r * q.r - dot u u
  let c := cross u v
  let d := dot u v
  ⟨a * v.x + 2 * q.r * c.x + 2 * d * u.x, a * v.y + 2 * q.r * c.y + 2 * d * u.y,
   a * v.z + 2 * q.r * c.z + 2 * d * u.z⟩

/-- what `reb_vec3d_irotate` computes, for **any** quaternion: `q v q̄ + (1 − |q|²) v` -/
theorem rotate_eq_sand (v : V3 K) (q : Quat K) :
    rotate v q = vadd (sand q v) (vmul v (1 - qlen2 q)) := by
  ext <;> simp only [rotate, sand, dot, cross, vadd, vmul, imag, qlen2, two_eq, sc_hadd, sc_hsub, sc_hmul] <;> ring

theorem rotate_unit (v : V3 K) (q : Quat K) (h : qlen2 q = 1) : rotate v q = sand q v := by
  rw [rotate_eq_sand, h]
  ext <;> simp [vadd, vmul]

/-- the sandwich is a homomorphism (associativity of the quaternion product) -/
theorem sand_mul (p q : Quat K) (v : V3 K) : sand (qmul p q) v = sand p (sand q v) := by
  ext <;> simp only [sand, qmul, dot, cross, imag, sc_hadd, sc_hsub, sc_hmul] <;> ring

theorem sand_cross (q : Quat K) (v w : V3 K) :
    cross (sand q v) (sand q w) = vmul (sand q (cross v w)) (qlen2 q) := by
  ext <;> simp only [sand, qlen2, dot, cross, vmul, imag, sc_hadd, sc_hsub, sc_hmul] <;> ring

theorem rotate_mul (p q : Quat K) (v : V3 K) (hp : qlen2 p = 1) (hq : qlen2 q = 1) :
    rotate v (qmul p q) = rotate (rotate v q) p := by
  have hpq : qlen2 (qmul p q) = 1 := by rw [qlen2_mul, hp, hq, one_mul]
  rw [rotate_unit _ _ hpq, rotate_unit _ _ hq, rotate_unit _ _ hp, sand_mul]

theorem rotate_cross (q : Quat K) (v w : V3 K) (hq : qlen2 q = 1) :
    rotate (cross v w) q = cross (rotate v q) (rotate w q) := by
  rw [rotate_unit _ _ hq, rotate_unit _ _ hq, rotate_unit _ _ hq, sand_cross, hq]
  ext <;> simp [vmul]

theorem rotate_add (q : Quat K) (v w : V3 K) :
    rotate (vadd v w) q = vadd (rotate v q) (rotate w q) := by
  ext <;> simp only [rotate, cross, vadd, vmul, imag, two_eq, sc_hadd, sc_hsub, sc_hmul] <;> ring

theorem rotate_smul (q : Quat K) (v : V3 K) (s : K) :
    rotate (vmul v s) q = vmul (rotate v q) s := by
  ext <;> simp only [rotate, cross, vadd, vmul, imag, two_eq, sc_hadd, sc_hsub, sc_hmul] <;> ring

theorem rotate_sub (q : Quat K) (v w : V3 K) :
    rotate (V3.sub v w) q = V3.sub (rotate v q) (rotate w q) := by
  ext <;> simp only [rotate, cross, vadd, vmul, imag, V3.sub, two_eq, sc_hadd, sc_hsub, sc_hmul] <;> ring

theorem rotate_id (v : V3 K) : rotate v (qid : Quat K) = v := by
  ext <;> simp [rotate, cross, vadd, vmul, imag, qid]

theorem qmul_inverse (q : Quat K) (h : qlen2 q ≠ 0) : qmul q (inverse q) = qid := by
  have h' : q.r * q.r + q.ix * q.ix + q.iy * q.iy + q.iz * q.iz ≠ 0 := by
    simpa only [qlen2, sc_hadd, sc_hmul] using h
  have h2 : q.r ^ 2 + q.ix ^ 2 + q.iy ^ 2 + q.iz ^ 2 ≠ 0 := by simpa only [sq] using h'
  ext <;> simp only [qmul, inverse, conj, qid, qlen2, sc_hadd, sc_hsub, sc_hmul, sc_hdiv, sc_one, sc_zero, sc_hneg] <;>
    field_simp <;> ring

theorem inverse_qmul (q : Quat K) (h : qlen2 q ≠ 0) : qmul (inverse q) q = qid := by
  have h' : q.r * q.r + q.ix * q.ix + q.iy * q.iy + q.iz * q.iz ≠ 0 := by
    simpa only [qlen2, sc_hadd, sc_hmul] using h
  have h2 : q.r ^ 2 + q.ix ^ 2 + q.iy ^ 2 + q.iz ^ 2 ≠ 0 := by simpa only [sq] using h'
  ext <;> simp only [qmul, inverse, conj, qid, qlen2, sc_hadd, sc_hsub, sc_hmul, sc_hdiv, sc_one, sc_zero, sc_hneg] <;>
    field_simp <;> ring

theorem qlen2_inverse (q : Quat K) (h : qlen2 q ≠ 0) : qlen2 (inverse q) = 1 / qlen2 q := by
  have h' : q.r * q.r + q.ix * q.ix + q.iy * q.iy + q.iz * q.iz ≠ 0 := by
    simpa only [qlen2, sc_hadd, sc_hmul] using h
  simp only [inverse, conj, qlen2, sc_hadd, sc_hsub, sc_hmul, sc_hdiv, sc_one, sc_hneg]
  field_simp

theorem inverse_unit (q : Quat K) (h : qlen2 q = 1) : inverse q = conj q := by
  ext <;> simp [inverse, h]

theorem rotate_inverse (q : Quat K) (v : V3 K) (h : qlen2 q = 1) :
    rotate (rotate v q) (inverse q) = v := by
  have hn : qlen2 q ≠ 0 := by rw [h]; exact one_ne_zero
  have hi : qlen2 (inverse q) = 1 := by rw [qlen2_inverse q hn, h]; simp
  rw [← rotate_mul _ _ _ hi h, inverse_qmul q hn, rotate_id]

end Algebra

section Ordered
variable {K : Type} [Field K] [LinearOrder K] [IsStrictOrderedRing K] [RealFns K]

/-- the only property of `sqrt` the theorems use: on non-negative arguments it returns a
    non-negative square root (true of `Real.sqrt`; the IEEE `sqrt` satisfies it to half an ulp) -/
def SqrtSpec (K : Type) [Field K] [LinearOrder K] [RealFns K] : Prop :=
  ∀ x : K, 0 ≤ x → 0 ≤ RealFns.sqrt x ∧ RealFns.sqrt x * RealFns.sqrt x = x

/-- the only property of `sin`, `cos` the theorems use -/
def TrigSpec (K : Type) [Field K] [RealFns K] : Prop :=
  ∀ a : K, RealFns.sin a * RealFns.sin a + RealFns.cos a * RealFns.cos a = 1

theorem len2_nonneg (v : V3 K) : 0 ≤ len2 v := by
  simp only [len2, dot, sc_hadd, sc_hmul]
  nlinarith [mul_self_nonneg v.x, mul_self_nonneg v.y, mul_self_nonneg v.z]

theorem len2_eq_zero {v : V3 K} (h : len2 v = 0) : v.x = 0 ∧ v.y = 0 ∧ v.z = 0 := by
  simp only [len2, dot, sc_hadd, sc_hmul] at h
  have hx := mul_self_nonneg v.x
  have hy := mul_self_nonneg v.y
  have hz := mul_self_nonneg v.z
  refine ⟨?_, ?_, ?_⟩ <;> apply mul_self_eq_zero.mp <;> linarith

theorem sqrt_ne_zero (hs : SqrtSpec K) {x : K} (hx : 0 ≤ x) (h : x ≠ 0) : RealFns.sqrt x ≠ 0 := by
  intro h0
  have := (hs x hx).2
  rw [h0, mul_zero] at this
  exact h this.symm

theorem sqrt_one (hs : SqrtSpec K) : RealFns.sqrt (1 : K) = 1 := by
  obtain ⟨h0, h1⟩ := hs 1 zero_le_one
  have : (RealFns.sqrt (1:K) - 1) * (RealFns.sqrt (1:K) + 1) = 0 := by linear_combination h1
  rcases mul_eq_zero.mp this with h | h
  · linarith
  · linarith

theorem normalize_def (v : V3 K) :
    normalize v = ⟨1 / RealFns.sqrt (len2 v) * v.x, 1 / RealFns.sqrt (len2 v) * v.y,
      1 / RealFns.sqrt (len2 v) * v.z⟩ := by
  simp only [normalize, vmul, r_sqrt, sc_hmul, sc_hdiv, sc_one]

/-- a non-zero vector is normalised to unit length -/
theorem normalize_unit (hs : SqrtSpec K) (v : V3 K) (h : len2 v ≠ 0) : len2 (normalize v) = 1 := by
  obtain ⟨h0, h1⟩ := hs (len2 v) (len2_nonneg v)
  have hne := sqrt_ne_zero hs (len2_nonneg v) h
  rw [normalize_def]
  generalize RealFns.sqrt (len2 v) = s at *
  simp only [len2, dot, sc_hadd, sc_hmul] at h1 ⊢
  field_simp
  linear_combination -h1

/-- the zero vector is "normalised" to the zero vector (`0 * (1/0) = 0` in a field) -/
theorem normalize_zero (v : V3 K) (h : len2 v = 0) : len2 (normalize v) = 0 := by
  obtain ⟨hx, hy, hz⟩ := len2_eq_zero h
  rw [normalize_def]
  simp [len2, dot, hx, hy, hz]


/-! ### the from-to constructor -/

/-- `reb_rotation_init_from_to_reduced` with the normalised half vector made explicit -/
def redq (f h : V3 K) : Quat K := ⟨(cross f h).x, (cross f h).y, (cross f h).z, dot f h⟩

theorem fromToReduced_def (f t : V3 K) : fromToReduced f t = redq f (normalize (vadd f t)) := rfl

/-- Lagrange's identity: the reduced quaternion of two unit vectors is unit -/
theorem redq_unit (f h : V3 K) (hf : len2 f = 1) (hh : len2 h = 1) : qlen2 (redq f h) = 1 := by
  simp only [len2, dot, sc_hadd, sc_hmul] at hf hh
  simp only [redq, qlen2, cross, dot, sc_hadd, sc_hsub, sc_hmul]
  linear_combination (h.x * h.x + h.y * h.y + h.z * h.z) * hf + hh

/-- it reflects `f` across `h` -/
theorem redq_maps (f h : V3 K) (hf : len2 f = 1) (hh : len2 h = 1) :
    rotate f (redq f h) = ⟨2 * dot f h * h.x - f.x, 2 * dot f h * h.y - f.y, 2 * dot f h * h.z - f.z⟩ := by
  rw [rotate_unit _ _ (redq_unit f h hf hh)]
  simp only [len2, dot, sc_hadd, sc_hmul] at hf hh
  ext <;> simp only [sand, redq, imag, cross, dot, sc_hadd, sc_hsub, sc_hmul]
  · linear_combination (-f.x * (h.x * h.x + h.y * h.y + h.z * h.z) + 2 * (f.x * h.x + f.y * h.y + f.z * h.z) * h.x) * hf + (-f.x) * hh
  · linear_combination (-f.y * (h.x * h.x + h.y * h.y + h.z * h.z) + 2 * (f.x * h.x + f.y * h.y + f.z * h.z) * h.y) * hf + (-f.y) * hh
  · linear_combination (-f.z * (h.x * h.x + h.y * h.y + h.z * h.z) + 2 * (f.x * h.x + f.y * h.y + f.z * h.z) * h.z) * hf + (-f.z) * hh

/-- the reduced constructor on two unit vectors that are not antiparallel: unit, maps `f ↦ t` -/
theorem reduced_spec (hs : SqrtSpec K) (f t : V3 K) (hf : len2 f = 1) (ht : len2 t = 1)
    (hne : len2 (vadd f t) ≠ 0) :
    qlen2 (fromToReduced f t) = 1 ∧ rotate f (fromToReduced f t) = t := by
  have hh := normalize_unit hs (vadd f t) hne
  rw [fromToReduced_def]
  refine ⟨redq_unit f _ hf hh, ?_⟩
  rw [redq_maps f _ hf hh]
  obtain ⟨h0, h1⟩ := hs (len2 (vadd f t)) (len2_nonneg _)
  have hsne := sqrt_ne_zero hs (len2_nonneg _) hne
  rw [normalize_def]
  generalize RealFns.sqrt (len2 (vadd f t)) = s at *
  simp only [len2, dot, vadd, sc_hadd, sc_hmul] at hf ht h1 ⊢
  ext <;> simp only <;> field_simp
  · linear_combination (f.x + t.x) * hf - (f.x + t.x) * ht - (f.x + t.x) * h1
  · linear_combination (f.y + t.y) * hf - (f.y + t.y) * ht - (f.y + t.y) * h1
  · linear_combination (f.z + t.z) * hf - (f.z + t.z) * ht - (f.z + t.z) * h1


theorem len2_vadd (f t : V3 K) : len2 (vadd f t) = len2 f + 2 * dot f t + len2 t := by
  simp only [len2, dot, vadd, sc_hadd, sc_hmul]; ring

/-- facts about the bisector `half = normalize (f + t)` of two unit vectors -/
theorem half_props (hs : SqrtSpec K) (f t : V3 K) (hf : len2 f = 1) (ht : len2 t = 1)
    (hne : len2 (vadd f t) ≠ 0) :
    len2 (normalize (vadd f t)) = 1 ∧
    dot f (normalize (vadd f t)) = dot (normalize (vadd f t)) t ∧
    0 ≤ dot f (normalize (vadd f t)) ∧
    cross f (normalize (vadd f t)) = cross (normalize (vadd f t)) t := by
  refine ⟨normalize_unit hs _ hne, ?_, ?_, ?_⟩
  · rw [normalize_def]
    generalize RealFns.sqrt (len2 (vadd f t)) = s
    simp only [len2, dot, vadd, sc_hadd, sc_hmul] at hf ht ⊢
    linear_combination (1 / s) * (hf - ht)
  · obtain ⟨h0, h1⟩ := hs (len2 (vadd f t)) (len2_nonneg _)
    have hsne := sqrt_ne_zero hs (len2_nonneg _) hne
    have hpos : 0 < RealFns.sqrt (len2 (vadd f t)) := lt_of_le_of_ne h0 (Ne.symm hsne)
    rw [normalize_def]
    have key : dot f ⟨1 / RealFns.sqrt (len2 (vadd f t)) * (vadd f t).x,
        1 / RealFns.sqrt (len2 (vadd f t)) * (vadd f t).y,
        1 / RealFns.sqrt (len2 (vadd f t)) * (vadd f t).z⟩ = RealFns.sqrt (len2 (vadd f t)) / 2 := by
      generalize RealFns.sqrt (len2 (vadd f t)) = s at *
      rw [len2_vadd, hf, ht] at h1
      simp only [len2, dot, vadd, sc_hadd, sc_hmul] at hf ht h1 ⊢
      field_simp
      linear_combination 2 * hf - h1
    rw [key]; positivity
  · rw [normalize_def]
    ext <;> simp only [cross, vadd, sc_hadd, sc_hsub, sc_hmul] <;> ring

/-- in exact arithmetic the two half-angle rotations of the two-stage branch coincide -/
theorem two_stage_eq (hs : SqrtSpec K) (f h t : V3 K) (hf : len2 f = 1) (hh : len2 h = 1)
    (ht : len2 t = 1) (hd : dot f h = dot h t) (hc : cross f h = cross h t) :
    fromToReduced f h = fromToReduced h t := by
  have hL : len2 (vadd f h) = len2 (vadd h t) := by
    rw [len2_vadd, len2_vadd, hf, hh, ht, hd]
  rw [fromToReduced_def, fromToReduced_def, normalize_def, normalize_def, hL]
  generalize 1 / RealFns.sqrt (len2 (vadd h t)) = c
  have hcx : (cross f h).x = (cross h t).x := by rw [hc]
  have hcy : (cross f h).y = (cross h t).y := by rw [hc]
  have hcz : (cross f h).z = (cross h t).z := by rw [hc]
  simp only [len2, dot, cross, vadd, sc_hadd, sc_hsub, sc_hmul] at hf hh ht hd hcx hcy hcz
  ext <;> simp only [redq, cross, dot, vadd, sc_hadd, sc_hsub, sc_hmul]
  · linear_combination c * hcx
  · linear_combination c * hcy
  · linear_combination c * hcz
  · linear_combination c * hf - c * hh + c * hd


theorem fromToUnit_acute (anti : V3 K → Quat K) (f t : V3 K) (hd : 0 ≤ dot f t) :
    fromToUnit anti f t = fromToReduced f t := by
  have : ScalarR.le (Scalar.zero : K) (dot f t) = true := by simpa using hd
  simp only [fromToUnit, this, if_true]

theorem fromToUnit_two_stage (anti : V3 K → Quat K) (f t : V3 K) (hd : dot f t < 0)
    (hn : len2 (normalize (vadd f t)) ≠ 0) :
    fromToUnit anti f t =
      qmul (fromToReduced f (normalize (vadd f t))) (fromToReduced (normalize (vadd f t)) t) := by
  have h1 : ScalarR.le (Scalar.zero : K) (dot f t) = false := by simpa using hd
  have h2 : ScalarR.isnormal (len2 (normalize (vadd f t))) = true := by simpa using hn
  have h2' : ScalarR.isnormal (len2 (normalize (⟨f.x + t.x, f.y + t.y, f.z + t.z⟩ : V3 K))) = true := h2
  simp only [fromToUnit, h1, h2']
  rfl

theorem fromToUnit_anti (anti : V3 K → Quat K) (f t : V3 K) (hd : dot f t < 0)
    (hn : len2 (normalize (vadd f t)) = 0) :
    fromToUnit anti f t = anti f := by
  have h1 : ScalarR.le (Scalar.zero : K) (dot f t) = false := by simpa using hd
  have h2 : ScalarR.isnormal (len2 (normalize (vadd f t))) = false := by simpa using hn
  have h2' : ScalarR.isnormal (len2 (normalize (⟨f.x + t.x, f.y + t.y, f.z + t.z⟩ : V3 K))) = false := h2
  simp only [fromToUnit, h1, h2']
  rfl

/-- every non-antiparallel case of `reb_rotation_init_from_to` on unit vectors -/
theorem fromToUnit_spec (hs : SqrtSpec K) (anti : V3 K → Quat K) (f t : V3 K)
    (hf : len2 f = 1) (ht : len2 t = 1) (hne : len2 (vadd f t) ≠ 0) :
    qlen2 (fromToUnit anti f t) = 1 ∧ rotate f (fromToUnit anti f t) = t := by
  rcases le_or_gt 0 (dot f t) with hd | hd
  · rw [fromToUnit_acute anti f t hd]
    exact reduced_spec hs f t hf ht hne
  · obtain ⟨hh, hdd, hpos, hcc⟩ := half_props hs f t hf ht hne
    have hn : len2 (normalize (vadd f t)) ≠ 0 := by rw [hh]; exact one_ne_zero
    rw [fromToUnit_two_stage anti f t hd hn]
    set h := normalize (vadd f t) with hdef
    have hfh : len2 (vadd f h) ≠ 0 := by
      rw [len2_vadd, hf, hh]
      intro h0; linarith
    have hht : len2 (vadd h t) ≠ 0 := by
      rw [len2_vadd, hh, ht, ← hdd]
      intro h0; linarith
    obtain ⟨a1, a2⟩ := reduced_spec hs f h hf hh hfh
    obtain ⟨b1, b2⟩ := reduced_spec hs h t hh ht hht
    have hAB := two_stage_eq hs f h t hf hh ht hdd hcc
    refine ⟨by rw [qlen2_mul, a1, b1, one_mul], ?_⟩
    rw [rotate_mul _ _ _ a1 b1, ← hAB, a2, hAB, b2]


/-! ### the antiparallel branch (rotations.c:189-210) -/

/-- the coordinate axis picked by the three sub-branches: one of the unit vectors, and the
    component of `f` along it is the smallest in absolute value -/
theorem smallestAxis_spec (f : V3 K) :
    (smallestAxis f = ex ∨ smallestAxis f = ey ∨ smallestAxis f = ez) ∧
    dot f (smallestAxis f) * dot f (smallestAxis f) ≤ f.x * f.x ∧
    dot f (smallestAxis f) * dot f (smallestAxis f) ≤ f.y * f.y ∧
    dot f (smallestAxis f) * dot f (smallestAxis f) ≤ f.z * f.z := by
  have sq : ∀ a b : K, |a| ≤ |b| → a * a ≤ b * b := fun a b h => by
    have := sq_le_sq.mpr h; simpa [sq] using this
  unfold smallestAxis
  simp only [r_fabs, r_le, Bool.and_eq_true, decide_eq_true_eq]
  by_cases h1 : |f.x| ≤ |f.y| ∧ |f.x| ≤ |f.z|
  · rw [if_pos h1]
    refine ⟨Or.inl rfl, ?_⟩
    have e : dot f (ex : V3 K) = f.x := by simp [dot, ex]
    rw [e]
    exact ⟨le_refl _, sq _ _ h1.1, sq _ _ h1.2⟩
  · rw [if_neg h1]
    by_cases h2 : |f.y| ≤ |f.z|
    · rw [if_pos h2]
      refine ⟨Or.inr (Or.inl rfl), ?_⟩
      have e : dot f (ey : V3 K) = f.y := by simp [dot, ey]
      rw [e]
      have hyx : |f.y| ≤ |f.x| := by
        by_contra hc
        push Not at hc
        exact h1 ⟨le_of_lt hc, le_trans (le_of_lt hc) h2⟩
      exact ⟨sq _ _ hyx, le_refl _, sq _ _ h2⟩
    · rw [if_neg h2]
      refine ⟨Or.inr (Or.inr rfl), ?_⟩
      have e : dot f (ez : V3 K) = f.z := by simp [dot, ez]
      rw [e]
      push Not at h2
      have hzx : |f.z| ≤ |f.x| := by
        by_contra hc
        push Not at hc
        exact h1 ⟨le_trans (le_of_lt hc) (le_of_lt h2) |> fun h => by
          exact le_of_lt (lt_trans hc h2), le_of_lt hc⟩
      exact ⟨sq _ _ hzx, sq _ _ (le_of_lt h2), le_refl _⟩

theorem smallestAxis_unit (f : V3 K) : len2 (smallestAxis f) = 1 := by
  rcases (smallestAxis_spec f).1 with h | h | h <;> rw [h] <;> simp [len2, dot, ex, ey, ez]

/-- for a unit vector the smallest component satisfies `3 m² ≤ 1` -/
theorem smallest_sq_le (f : V3 K) (hf : len2 f = 1) :
    3 * (dot f (smallestAxis f) * dot f (smallestAxis f)) ≤ 1 := by
  obtain ⟨_, hx, hy, hz⟩ := smallestAxis_spec f
  simp only [len2, dot, sc_hadd, sc_hmul] at hf
  have : dot f (smallestAxis f) * dot f (smallestAxis f) * 3 ≤ f.x * f.x + f.y * f.y + f.z * f.z := by
    linarith
  linarith

/-- the quaternion `(f × e, 0)` for unit `f`, `e`:  |q|² = 1 − (f·e)²  and
    `rotate f q = (2 (f·e)² − 1) f` -/
theorem axis_quat (f e : V3 K) (hf : len2 f = 1) (he : len2 e = 1) :
    qlen2 (⟨(cross f e).x, (cross f e).y, (cross f e).z, 0⟩ : Quat K) = 1 - dot f e * dot f e ∧
    rotate f (⟨(cross f e).x, (cross f e).y, (cross f e).z, 0⟩ : Quat K) =
      vmul f (2 * (dot f e * dot f e) - 1) := by
  simp only [len2, dot, sc_hadd, sc_hmul] at hf he
  constructor
  · simp only [qlen2, cross, dot, sc_hadd, sc_hsub, sc_hmul]
    linear_combination (e.x * e.x + e.y * e.y + e.z * e.z) * hf + he
  · ext <;> simp only [rotate, cross, dot, vadd, vmul, imag, two_eq, sc_hadd, sc_hsub, sc_hmul]
    · linear_combination (-2 * f.x * (e.x * e.x + e.y * e.y + e.z * e.z)) * hf + (-2 * f.x) * he
    · linear_combination (-2 * f.y * (e.x * e.x + e.y * e.y + e.z * e.z)) * hf + (-2 * f.y) * he
    · linear_combination (-2 * f.z * (e.x * e.x + e.y * e.y + e.z * e.z)) * hf + (-2 * f.z) * he

/-- a unit quaternion `(a, 0)` with `a ⟂ f` turns `f` into `−f` -/
theorem pi_rotation (f a : V3 K) (ha : len2 a = 1) (hd : dot a f = 0) :
    qlen2 (⟨a.x, a.y, a.z, 0⟩ : Quat K) = 1 ∧
    rotate f (⟨a.x, a.y, a.z, 0⟩ : Quat K) = vmul f (-1) := by
  simp only [len2, dot, sc_hadd, sc_hmul] at ha hd
  constructor
  · simp only [qlen2, sc_hadd, sc_hmul]; linear_combination ha
  · ext <;> simp only [rotate, cross, vadd, vmul, imag, two_eq, sc_hadd, sc_hsub, sc_hmul]
    · linear_combination (-2 * f.x) * ha + (2 * a.x) * hd
    · linear_combination (-2 * f.y) * ha + (2 * a.y) * hd
    · linear_combination (-2 * f.z) * ha + (2 * a.z) * hd


theorem len2_cross (f e : V3 K) : len2 (cross f e) = len2 f * len2 e - dot f e * dot f e := by
  simp only [len2, cross, dot, sc_hadd, sc_hsub, sc_hmul]; ring

/-- unit vectors whose sum vanishes are exactly antiparallel -/
theorem antiparallel_of_sum_zero (f t : V3 K) (hf : len2 f = 1) (h : len2 (vadd f t) = 0) :
    t = vmul f (-1) ∧ dot f t < 0 := by
  obtain ⟨hx, hy, hz⟩ := len2_eq_zero h
  simp only [vadd, sc_hadd] at hx hy hz
  have e : t = vmul f (-1) := by
    ext <;> simp only [vmul, sc_hmul] <;> linarith
  refine ⟨e, ?_⟩
  simp only [len2, dot, sc_hadd, sc_hmul] at hf ⊢
  have : f.x * t.x + f.y * t.y + f.z * t.z = -1 := by
    have e1 : t.x = -f.x := by linarith
    have e2 : t.y = -f.y := by linarith
    have e3 : t.z = -f.z := by linarith
    rw [e1, e2, e3]; linarith
  rw [this]; exact neg_one_lt_zero

/-- the antiparallel branch **as found**: for unit `f`, `t = −f`, with `m` the component of
    `f` of smallest absolute value:  |q|² = 1 − m²,  `rotate f q = (1 − 2m²) t`.
    It is a unit quaternion mapping `f ↦ t` iff `m = 0`. -/
theorem fromToUnit_asfound_anti (hs : SqrtSpec K) (f t : V3 K) (hf : len2 f = 1)
    (h0 : len2 (vadd f t) = 0) :
    qlen2 (fromToUnit antiparallelAsFound f t) =
        1 - dot f (smallestAxis f) * dot f (smallestAxis f) ∧
    rotate f (fromToUnit antiparallelAsFound f t) =
        vmul t (1 - 2 * (dot f (smallestAxis f) * dot f (smallestAxis f))) := by
  obtain ⟨et, hd⟩ := antiparallel_of_sum_zero f t hf h0
  rw [fromToUnit_anti _ f t hd (normalize_zero _ h0)]
  obtain ⟨a, b⟩ := axis_quat f (smallestAxis f) hf (smallestAxis_unit f)
  refine ⟨a, ?_⟩
  show rotate f (⟨(cross f (smallestAxis f)).x, (cross f (smallestAxis f)).y,
    (cross f (smallestAxis f)).z, 0⟩ : Quat K) = _
  rw [b, et]
  ext <;> simp only [vmul, sc_hmul] <;> ring

/-- the antiparallel branch **repaired** (axis normalised): unit, maps `f ↦ t` -/
theorem fromToUnit_fixed_anti (hs : SqrtSpec K) (f t : V3 K) (hf : len2 f = 1)
    (h0 : len2 (vadd f t) = 0) :
    qlen2 (fromToUnit antiparallelFixed f t) = 1 ∧
    rotate f (fromToUnit antiparallelFixed f t) = t := by
  obtain ⟨et, hd⟩ := antiparallel_of_sum_zero f t hf h0
  rw [fromToUnit_anti _ f t hd (normalize_zero _ h0)]
  have hm := smallest_sq_le f hf
  have hc : len2 (cross f (smallestAxis f)) ≠ 0 := by
    rw [len2_cross, hf, smallestAxis_unit]
    intro h; linarith
  have ha := normalize_unit hs _ hc
  have hperp : dot (normalize (cross f (smallestAxis f))) f = 0 := by
    rw [normalize_def]
    simp only [dot, cross, sc_hadd, sc_hsub, sc_hmul]; ring
  obtain ⟨a, b⟩ := pi_rotation f _ ha hperp
  refine ⟨a, ?_⟩
  show rotate f (⟨(normalize (cross f (smallestAxis f))).x, (normalize (cross f (smallestAxis f))).y,
    (normalize (cross f (smallestAxis f))).z, 0⟩ : Quat K) = _
  rw [b, et]

/-- `reb_rotation_init_from_to` with the repair, on unit vectors: all branches -/
theorem fromToUnit_fixed_spec (hs : SqrtSpec K) (f t : V3 K) (hf : len2 f = 1) (ht : len2 t = 1) :
    qlen2 (fromToUnit antiparallelFixed f t) = 1 ∧ rotate f (fromToUnit antiparallelFixed f t) = t := by
  by_cases h0 : len2 (vadd f t) = 0
  · exact fromToUnit_fixed_anti hs f t hf h0
  · exact fromToUnit_spec hs _ f t hf ht h0


/-! ### angle-axis and orbital constructors -/

/-- Rodrigues' formula for the quaternion `(s a, c)`, `|a| = 1`, `s² + c² = 1`, in terms of the
    double-angle quantities `C = c² − s²`, `S = 2 s c` -/
theorem rodrigues (a v : V3 K) (s c : K) (ha : len2 a = 1) (htr : s * s + c * c = 1) :
    qlen2 (⟨s * a.x, s * a.y, s * a.z, c⟩ : Quat K) = 1 ∧
    rotate v (⟨s * a.x, s * a.y, s * a.z, c⟩ : Quat K) =
      vadd (vadd (vmul v (c * c - s * s)) (vmul (cross a v) (2 * s * c)))
        (vmul a ((1 - (c * c - s * s)) * dot a v)) := by
  simp only [len2, dot, sc_hadd, sc_hmul] at ha
  constructor
  · simp only [qlen2, sc_hadd, sc_hmul]
    linear_combination (s * s) * ha + htr
  · ext <;> simp only [rotate, cross, dot, vadd, vmul, imag, two_eq, sc_hadd, sc_hsub, sc_hmul]
    · linear_combination (-2 * s * s * v.x) * ha + (-v.x + a.x * (a.x * v.x + a.y * v.y + a.z * v.z)) * htr
    · linear_combination (-2 * s * s * v.y) * ha + (-v.y + a.y * (a.x * v.x + a.y * v.y + a.z * v.z)) * htr
    · linear_combination (-2 * s * s * v.z) * ha + (-v.z + a.z * (a.x * v.x + a.y * v.y + a.z * v.z)) * htr

theorem angleAxis_def (angle : K) (axis : V3 K) :
    angleAxis angle axis =
      ⟨RealFns.sin (angle / 2) * (normalize axis).x, RealFns.sin (angle / 2) * (normalize axis).y,
       RealFns.sin (angle / 2) * (normalize axis).z, RealFns.cos (angle / 2)⟩ := by
  simp only [angleAxis, vmul, two_eq, r_sin, r_cos, sc_hmul, sc_hdiv]

theorem normalize_ez (hs : SqrtSpec K) : normalize (ez : V3 K) = ez := by
  rw [normalize_def]
  have : len2 (ez : V3 K) = 1 := by simp [len2, dot, ez]
  rw [this, sqrt_one hs]
  ext <;> simp [ez]

theorem normalize_ex (hs : SqrtSpec K) : normalize (ex : V3 K) = ex := by
  rw [normalize_def]
  have : len2 (ex : V3 K) = 1 := by simp [len2, dot, ex]
  rw [this, sqrt_one hs]
  ext <;> simp [ex]

theorem rotZ (v : V3 K) (s c : K) (h : s * s + c * c = 1) :
    qlen2 (⟨0, 0, s, c⟩ : Quat K) = 1 ∧
    rotate v (⟨0, 0, s, c⟩ : Quat K) =
      ⟨(c * c - s * s) * v.x - 2 * s * c * v.y, 2 * s * c * v.x + (c * c - s * s) * v.y, v.z⟩ := by
  constructor
  · simp only [qlen2, sc_hadd, sc_hmul]; linear_combination h
  · ext <;> simp only [rotate, cross, vadd, vmul, imag, two_eq, sc_hadd, sc_hsub, sc_hmul]
    · linear_combination (-v.x) * h
    · linear_combination (-v.y) * h
    · ring

theorem rotX (v : V3 K) (s c : K) (h : s * s + c * c = 1) :
    qlen2 (⟨s, 0, 0, c⟩ : Quat K) = 1 ∧
    rotate v (⟨s, 0, 0, c⟩ : Quat K) =
      ⟨v.x, (c * c - s * s) * v.y - 2 * s * c * v.z, 2 * s * c * v.y + (c * c - s * s) * v.z⟩ := by
  constructor
  · simp only [qlen2, sc_hadd, sc_hmul]; linear_combination h
  · ext <;> simp only [rotate, cross, vadd, vmul, imag, two_eq, sc_hadd, sc_hsub, sc_hmul]
    · ring
    · linear_combination (-v.y) * h
    · linear_combination (-v.z) * h

theorem orbit_def (hs : SqrtSpec K) (Om inc om : K) :
    orbit Om inc om =
      qmul (⟨0, 0, RealFns.sin (Om / 2), RealFns.cos (Om / 2)⟩ : Quat K)
        (qmul (⟨RealFns.sin (inc / 2), 0, 0, RealFns.cos (inc / 2)⟩ : Quat K)
              (⟨0, 0, RealFns.sin (om / 2), RealFns.cos (om / 2)⟩ : Quat K)) := by
  simp only [orbit, angleAxis_def, normalize_ez hs, normalize_ex hs]
  simp [ez, ex]


/-! ### to_new_axes -/

theorem normalize_of_unit (hs : SqrtSpec K) (v : V3 K) (h : len2 v = 1) : normalize v = v := by
  rw [normalize_def, h, sqrt_one hs]
  ext <;> simp

theorem dot_normalize_left (v w : V3 K) :
    dot (normalize v) w = 1 / RealFns.sqrt (len2 v) * dot v w := by
  rw [normalize_def]; simp only [dot, sc_hadd, sc_hmul]; ring

/-- normalisation commutes with a unit rotation -/
theorem normalize_rotate (v : V3 K) (q : Quat K) (hq : qlen2 q = 1) :
    normalize (rotate v q) = rotate (normalize v) q := by
  have hl : len2 (rotate v q) = len2 v := by
    have := rotate_dot_general v v q
    rw [hq] at this; simpa [len2] using this
  rw [normalize_def, normalize_def, hl]
  have : (⟨1 / RealFns.sqrt (len2 v) * v.x, 1 / RealFns.sqrt (len2 v) * v.y,
      1 / RealFns.sqrt (len2 v) * v.z⟩ : V3 K) = vmul v (1 / RealFns.sqrt (len2 v)) := by
    ext <;> simp [vmul]
  rw [this, rotate_smul]
  ext <;> simp [vmul]

/-- the reduced quaternion `(f × h, f · h)` fixes every vector orthogonal to `f` and `h` -/
theorem redq_fixes (f h w : V3 K) (hfw : dot f w = 0) (hhw : dot h w = 0) :
    rotate w (redq f h) = w := by
  simp only [dot, sc_hadd, sc_hmul] at hfw hhw
  ext <;> simp only [rotate, redq, cross, dot, vadd, vmul, imag, two_eq, sc_hadd, sc_hsub, sc_hmul]
  · linear_combination (2 * (f.x * h.x + f.y * h.y + f.z * h.z) * h.x + 2 * ((f.z * h.x - f.x * h.z) * h.z - (f.x * h.y - f.y * h.x) * h.y)) * hfw
      + (-2 * (f.x * h.x + f.y * h.y + f.z * h.z) * f.x - 2 * ((f.z * h.x - f.x * h.z) * f.z - (f.x * h.y - f.y * h.x) * f.y)) * hhw
  · linear_combination (2 * (f.x * h.x + f.y * h.y + f.z * h.z) * h.y + 2 * ((f.x * h.y - f.y * h.x) * h.x - (f.y * h.z - f.z * h.y) * h.z)) * hfw
      + (-2 * (f.x * h.x + f.y * h.y + f.z * h.z) * f.y - 2 * ((f.x * h.y - f.y * h.x) * f.x - (f.y * h.z - f.z * h.y) * f.z)) * hhw
  · linear_combination (2 * (f.x * h.x + f.y * h.y + f.z * h.z) * h.z + 2 * ((f.y * h.z - f.z * h.y) * h.y - (f.z * h.x - f.x * h.z) * h.x)) * hfw
      + (-2 * (f.x * h.x + f.y * h.y + f.z * h.z) * f.z - 2 * ((f.y * h.z - f.z * h.y) * f.y - (f.z * h.x - f.x * h.z) * f.x)) * hhw

theorem fromToReduced_fixes (f t w : V3 K) (hfw : dot f w = 0) (htw : dot t w = 0) :
    rotate w (fromToReduced f t) = w := by
  rw [fromToReduced_def]
  apply redq_fixes f _ w hfw
  rw [dot_normalize_left]
  have : dot (vadd f t) w = dot f w + dot t w := by
    simp only [dot, vadd, sc_hadd, sc_hmul]; ring
  rw [this, hfw, htw]; ring

/-- outside the antiparallel branch the from-to rotation fixes every vector orthogonal to both -/
theorem fromToUnit_fixes (hs : SqrtSpec K) (anti : V3 K → Quat K) (f t w : V3 K)
    (hf : len2 f = 1) (ht : len2 t = 1) (hne : len2 (vadd f t) ≠ 0)
    (hfw : dot f w = 0) (htw : dot t w = 0) :
    rotate w (fromToUnit anti f t) = w := by
  rcases le_or_gt 0 (dot f t) with hd | hd
  · rw [fromToUnit_acute anti f t hd]; exact fromToReduced_fixes f t w hfw htw
  · obtain ⟨hh, hdd, hpos, hcc⟩ := half_props hs f t hf ht hne
    have hn : len2 (normalize (vadd f t)) ≠ 0 := by rw [hh]; exact one_ne_zero
    rw [fromToUnit_two_stage anti f t hd hn]
    have hhw : dot (normalize (vadd f t)) w = 0 := by
      rw [dot_normalize_left]
      have : dot (vadd f t) w = dot f w + dot t w := by
        simp only [dot, vadd, sc_hadd, sc_hmul]; ring
      rw [this, hfw, htw]; ring
    set h := normalize (vadd f t) with hdef
    have hfh : len2 (vadd f h) ≠ 0 := by
      rw [len2_vadd, hf, hh]; intro h0; linarith
    have hht : len2 (vadd h t) ≠ 0 := by
      rw [len2_vadd, hh, ht, ← hdd]; intro h0; linarith
    obtain ⟨a1, _⟩ := reduced_spec hs f h hf hh hfh
    obtain ⟨b1, _⟩ := reduced_spec hs h t hh ht hht
    rw [rotate_mul _ _ _ a1 b1, fromToReduced_fixes h t w hhw htw, fromToReduced_fixes f h w hfw hhw]

end Ordered
end RV.Rot
