import RV.Model.Advertised
import RV.Gen.C01Eos
/- C01 / EOS: the nine splitting schemes, as outer scheme Φ0 (reb_integrator_eos_part2 + synchronize) and as inner
   scheme Φ1 with n sub-steps (reb_integrator_eos_drift_shell0) -/
namespace RV.C01.Eos
open RV.C01 RV.C01.Gen RV.C01.Adv

def partsOf (ty : Nat) : Option (List Op × List Op × List Op × List Op × List Op × List Op) := eosParts.lookup ty
def preLen (ty : Nat) : Nat := match partsOf ty with | some p => p.1.length | none => 0

theorem counts : eosCounts = [("types", 9), ("tables", 18), ("literals", 70)] ∧ eosOuter.map (·.1) = [0, 1, 2, 3, 4, 5, 6, 7, 8] ∧
    eosInner.length = 36 ∧ eosParts.length = 9 ∧ eosOuterTwoUnsync.length = 9 := by decide +kernel

theorem consistent : (∀ e ∈ eosOuter, Consistent e.2 tolEOS) ∧ (∀ e ∈ eosInner, Consistent e.2 tolEOS) := by decide +kernel

/-- every scheme is `pre ∘ K ∘ pre⁻¹` with a palindromic kernel (`pre` empty for the unprocessed ones) -/
theorem symmetric : ∀ e ∈ eosOuter, SplitSym e.2 (preLen e.1) := by decide +kernel

theorem fresh : (∀ e ∈ eosOuter, Fresh e.2) ∧ (∀ e ∈ eosInner, Fresh e.2) := by decide +kernel

theorem unsync : ∀ e ∈ eosOuter, ∀ two ∈ eosOuterTwoUnsync.lookup e.1, norm two = norm (e.2 ++ e.2) := by decide +kernel

/-- the `n`-loop of `drift_shell0` is `pre ; head ; (body ; merge)ⁿ⁻¹ ; body ; tail ; post` with all coefficients
    divided by `n`, for the unrolled `n = 1, 2, 3, 4` -/
theorem inner_loop_model : ∀ e ∈ eosInner, ∀ p ∈ partsOf e.1.1,
    innerSched p.1 p.2.1 p.2.2.1 p.2.2.2.1 p.2.2.2.2.1 p.2.2.2.2.2 e.1.2 = e.2 := by decide +kernel

/-- merging the sub-steps is exact: `merge = head + tail`; and as inner scheme with `n = 1` each type is the same
    scheme as when used as outer scheme -/
theorem inner_merge : (∀ e ∈ eosParts, norm e.2.2.2.2.1 = norm (e.2.2.2.2.2.1 ++ e.2.2.1)) ∧
    (∀ e ∈ eosOuter, ∀ i ∈ eosInner.lookup (e.1, 1), norm i = norm e.2) := by decide +kernel

/-- hypotheses of the all-`n` theorem (RV.Proofs.C01EosAllN), for every type: exact merging, cancelling processors, one
    sub-step consistent -/
theorem all_n_hypotheses : ∀ e ∈ eosParts,
    driftSum e.2.2.2.2.1 = driftSum e.2.2.1 + driftSum e.2.2.2.2.2.1 ∧ comSum e.2.2.2.2.1 = comSum e.2.2.1 + comSum e.2.2.2.2.2.1 ∧
    kickSum e.2.2.2.2.1 = kickSum e.2.2.1 + kickSum e.2.2.2.2.2.1 ∧
    driftSum e.2.1 + driftSum e.2.2.2.2.2.2 = 0 ∧ comSum e.2.1 + comSum e.2.2.2.2.2.2 = 0 ∧ kickSum e.2.1 + kickSum e.2.2.2.2.2.2 = 0 ∧
    Consistent (e.2.2.1 ++ e.2.2.2.1 ++ e.2.2.2.2.2.1) tolEOS := by decide +kernel

theorem advertised_known : ∀ e ∈ eosOuter, (eos.lookup e.1).isSome := by decide +kernel

/-- advertised (generalised) orders; jerk terms enter as `exp(b·B + κ·v·[B,[B,A]])`, κ = −1 -/
theorem order_small : ∀ ty ∈ [0, 1, 4, 5, 6, 7], ∀ s ∈ eosOuter.lookup ty, ∀ lim ∈ eos.lookup ty, WordOrder s lim κEOS tolEOS := by
  decide +kernel
end RV.C01.Eos
