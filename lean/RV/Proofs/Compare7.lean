import RV.Proofs.Compare6
/-
  Lemmas about `diffReport`: the field list reb_binary_diff writes with output_option 0 (the difference stream of
  archive snapshots), its relation to the return value `compare`, and to what is in force after reading
  stream 1 followed by the report.
-/
set_option linter.unusedVariables false
set_option linter.unusedSimpArgs false
namespace RV.Persist

theorem mem_reportFirst (specs : List CmpSpec) (tbl : List Desc) (fs2 : List Field) (f x : Field) :
    x ∈ reportFirst specs tbl fs2 f ↔
      (findField fs2 f.1 = none ∧ x = (f.1, [])) ∨
      (∃ p2, findField fs2 f.1 = some p2 ∧ payloadDiffer specs (descForType tbl f.1) f.2 p2 = true ∧ x = (f.1, p2)) := by
  unfold reportFirst
  cases h : findField fs2 f.1 with
  | none => simp
  | some p2 =>
    cases hp : payloadDiffer specs (descForType tbl f.1) f.2 p2 <;> simp [hp]

theorem reportFirst_fst (specs : List CmpSpec) (tbl : List Desc) (fs2 : List Field) (f x : Field)
    (h : x ∈ reportFirst specs tbl fs2 f) : x.1 = f.1 := by
  rcases (mem_reportFirst specs tbl fs2 f x).mp h with ⟨_, rfl⟩ | ⟨p2, _, _, rfl⟩ <;> rfl

/-- exact membership: the report holds precisely the vanished fields (empty payload), the fields present in both
    streams whose payloads differ (with the payload of stream 2) and the fields only stream 2 has -/
theorem diffReport_mem_iff (sp : Special) (specs : List CmpSpec) (tbl : List Desc) (fs1 fs2 : List Field) (id : Nat) (p : Bytes) :
    (id, p) ∈ diffReport sp specs tbl fs1 fs2 ↔
      (∃ p1, (id, p1) ∈ body sp fs1 ∧ findField (body sp fs2) id = none ∧ p = []) ∨
      (∃ p1, (id, p1) ∈ body sp fs1 ∧ findField (body sp fs2) id = some p ∧
          payloadDiffer specs (descForType tbl id) p1 p = true) ∨
      ((id, p) ∈ body sp fs2 ∧ findField (body sp fs1) id = none) := by
  unfold diffReport reportSecond
  simp only [List.mem_append, List.mem_flatMap, List.mem_filter, mem_reportFirst]
  constructor
  · rintro (⟨f, hf, h⟩ | ⟨hm, hn⟩)
    · rcases h with ⟨hnone, he⟩ | ⟨p2, hsome, hd, he⟩
      · cases he
        exact Or.inl ⟨f.2, hf, hnone, rfl⟩
      · cases he
        exact Or.inr (Or.inl ⟨f.2, hf, hsome, hd⟩)
    · refine Or.inr (Or.inr ⟨hm, ?_⟩)
      cases h : findField (body sp fs1) id <;> simp [h] at hn ⊢
  · rintro (⟨p1, hm, hnone, rfl⟩ | ⟨p1, hm, hsome, hd⟩ | ⟨hm, hnone⟩)
    · exact Or.inl ⟨(id, p1), hm, Or.inl ⟨hnone, rfl⟩⟩
    · exact Or.inl ⟨(id, p1), hm, Or.inr ⟨p, hsome, hd, rfl⟩⟩
    · exact Or.inr ⟨hm, by simp [hnone]⟩

/-- does an entry of the report count for the return value?  Everything except a walltime field present in both -/
def counts (sp : Special) (tbl : List Desc) (fs1 fs2 : List Field) (f : Field) : Bool :=
  !(wallOf tbl f.1 && (findField (body sp fs1) f.1).isSome && (findField (body sp fs2) f.1).isSome)

theorem mem_isSome (fs : List Field) (id : Nat) (p : Bytes) (h : (id, p) ∈ fs) : (findField fs id).isSome = true :=
  (findField_isSome_iff fs id).mpr (List.mem_map.mpr ⟨(id, p), h, rfl⟩)

/-- the return value is 1 exactly when the report holds an entry that counts -/
theorem compare_iff_report (sp : Special) (specs : List CmpSpec) (tbl : List Desc) (fs1 fs2 : List Field) :
    compare sp specs tbl fs1 fs2 = true ↔
      ∃ f ∈ diffReport sp specs tbl fs1 fs2, counts sp tbl fs1 fs2 f = true := by
  constructor
  · intro h
    unfold compare at h
    simp only [Bool.or_eq_true, List.any_eq_true] at h
    rcases h with ⟨f, hf, hd⟩ | ⟨f, hf, hn⟩
    · unfold fieldDiffers at hd
      cases hfind : findField (body sp fs2) f.1 with
      | none =>
        refine ⟨(f.1, []), (diffReport_mem_iff sp specs tbl fs1 fs2 f.1 []).mpr (Or.inl ⟨f.2, hf, hfind, rfl⟩), ?_⟩
        simp [counts, hfind]
      | some p2 =>
        simp only [hfind, Bool.and_eq_true, Bool.not_eq_true'] at hd
        refine ⟨(f.1, p2), (diffReport_mem_iff sp specs tbl fs1 fs2 f.1 p2).mpr (Or.inr (Or.inl ⟨f.2, hf, hfind, hd.1⟩)), ?_⟩
        have hw : wallOf tbl f.1 = false := by
          unfold wallOf
          exact hd.2
        simp [counts, hw]
    · have hnone : findField (body sp fs1) f.1 = none := by
        cases h : findField (body sp fs1) f.1 <;> simp [h] at hn ⊢
      refine ⟨f, (diffReport_mem_iff sp specs tbl fs1 fs2 f.1 f.2).mpr (Or.inr (Or.inr ⟨hf, hnone⟩)), ?_⟩
      simp [counts, hnone]
  · rintro ⟨⟨id, p⟩, hm, hc⟩
    unfold compare
    simp only [Bool.or_eq_true, List.any_eq_true]
    rcases (diffReport_mem_iff sp specs tbl fs1 fs2 id p).mp hm with ⟨p1, hm1, hnone, _⟩ | ⟨p1, hm1, hsome, hd⟩ | ⟨hm2, hnone⟩
    · refine Or.inl ⟨(id, p1), hm1, ?_⟩
      simp [fieldDiffers, hnone]
    · refine Or.inl ⟨(id, p1), hm1, ?_⟩
      have h1 := mem_isSome _ id p1 hm1
      have hw : wallOf tbl id = false := by
        cases hw : wallOf tbl id
        · rfl
        · simp [counts, hw, h1, hsome] at hc
      unfold wallOf at hw
      simp only [fieldDiffers, hsome, hd, Bool.true_and, Bool.not_eq_true']
      exact hw
    · exact Or.inr ⟨(id, p), hm2, by simp [hnone]⟩

/-- the report is empty exactly when every field of stream 1 has a partner with a non-differing payload and stream 2
    has no further field -/
theorem diffReport_nil_iff (sp : Special) (specs : List CmpSpec) (tbl : List Desc) (fs1 fs2 : List Field) :
    diffReport sp specs tbl fs1 fs2 = [] ↔
      (∀ f ∈ body sp fs1, ∃ p, findField (body sp fs2) f.1 = some p ∧
          payloadDiffer specs (descForType tbl f.1) f.2 p = false) ∧
      (∀ f ∈ body sp fs2, (findField (body sp fs1) f.1).isSome = true) := by
  rw [List.eq_nil_iff_forall_not_mem]
  constructor
  · intro h
    refine ⟨?_, ?_⟩
    · intro f hf
      cases hfind : findField (body sp fs2) f.1 with
      | none =>
        exact absurd ((diffReport_mem_iff sp specs tbl fs1 fs2 f.1 []).mpr (Or.inl ⟨f.2, hf, hfind, rfl⟩)) (h _)
      | some p =>
        refine ⟨p, rfl, ?_⟩
        cases hd : payloadDiffer specs (descForType tbl f.1) f.2 p
        · rfl
        · exact absurd ((diffReport_mem_iff sp specs tbl fs1 fs2 f.1 p).mpr (Or.inr (Or.inl ⟨f.2, hf, hfind, hd⟩))) (h _)
    · intro f hf
      cases hfind : findField (body sp fs1) f.1 with
      | some _ => rfl
      | none =>
        exact absurd ((diffReport_mem_iff sp specs tbl fs1 fs2 f.1 f.2).mpr (Or.inr (Or.inr ⟨hf, hfind⟩))) (h _)
  · rintro ⟨h1, h2⟩ ⟨id, p⟩ hm
    rcases (diffReport_mem_iff sp specs tbl fs1 fs2 id p).mp hm with ⟨p1, hm1, hnone, _⟩ | ⟨p1, hm1, hsome, hd⟩ | ⟨hm2, hnone⟩
    · obtain ⟨q, hq, _⟩ := h1 (id, p1) hm1
      simp [hnone] at hq
    · obtain ⟨q, hq, hf⟩ := h1 (id, p1) hm1
      simp only [hsome, Option.some.injEq] at hq
      subst hq
      simp [hd] at hf
    · have := h2 (id, p) hm2
      simp [hnone] at this

/-! ### what is in force after stream 1 followed by the report -/

theorem findField_nil (id : Nat) : findField [] id = none := rfl

theorem findField_cons (f : Field) (r : List Field) (id : Nat) :
    findField (f :: r) id = if f.1 = id then some f.2 else findField r id := by
  unfold findField
  by_cases h : f.1 = id
  · simp [List.find?_cons, h]
  · simp [List.find?_cons, h]

theorem findField_append (a b : List Field) (id : Nat) :
    findField (a ++ b) id = match findField a id with | some p => some p | none => findField b id := by
  induction a with
  | nil => simp [findField_nil]
  | cons f r ih =>
    rw [List.cons_append, findField_cons, findField_cons]
    by_cases h : f.1 = id
    · simp [h]
    · simp [h, ih]

theorem findField_none_of_fst (a : List Field) (id : Nat) (h : ∀ x ∈ a, x.1 ≠ id) : findField a id = none := by
  induction a with
  | nil => rfl
  | cons f r ih =>
    rw [findField_cons]
    have hf : f.1 ≠ id := h f (by simp)
    simp only [hf, if_false]
    exact ih (fun x hx => h x (by simp [hx]))

theorem findField_none_not_mem (a : List Field) (id : Nat) (h : findField a id = none) : ∀ x ∈ a, x.1 ≠ id := by
  intro x hx e
  have := (findField_isSome_iff a id).mpr (List.mem_map.mpr ⟨x, hx, e⟩)
  simp [h] at this

theorem findField_flatMap_report (specs : List CmpSpec) (tbl : List Desc) (fs2 l : List Field)
    (hn : (l.map (·.1)).Nodup) (id : Nat) :
    findField (l.flatMap (reportFirst specs tbl fs2)) id =
      match findField l id with
      | none => none
      | some p1 => findField (reportFirst specs tbl fs2 (id, p1)) id := by
  induction l with
  | nil => rfl
  | cons f r ih =>
    simp only [List.map_cons, List.nodup_cons] at hn
    rw [List.flatMap_cons, findField_append, findField_cons]
    by_cases h : f.1 = id
    · have hfe : f = (id, f.2) := by cases f; simp at h; simp [h]
      simp only [h, if_true]
      rw [← hfe]
      cases hg : findField (reportFirst specs tbl fs2 f) id with
      | some p => rfl
      | none =>
        simp only
        apply findField_none_of_fst
        intro x hx e
        obtain ⟨g, hgm, hxg⟩ := List.mem_flatMap.mp hx
        have := reportFirst_fst specs tbl fs2 g x hxg
        apply hn.1
        rw [h, ← e, this]
        exact List.mem_map_of_mem hgm
    · have hnone : findField (reportFirst specs tbl fs2 f) id = none :=
        findField_none_of_fst _ id (fun x hx e => h ((reportFirst_fst specs tbl fs2 f x hx).symm.trans e))
      simp only [hnone, h, if_false]
      exact ih hn.2

theorem findField_reportSecond (fs1 fs2 : List Field) (id : Nat) :
    findField (reportSecond fs1 fs2) id = if (findField fs1 id).isNone then findField fs2 id else none := by
  unfold reportSecond
  induction fs2 with
  | nil => simp [findField_nil]
  | cons f r ih =>
    rw [findField_cons]
    by_cases hk : (findField fs1 f.1).isNone = true
    · rw [List.filter_cons_of_pos (by simpa using hk), findField_cons]
      by_cases h : f.1 = id
      · subst h; simp [hk]
      · simp only [h, if_false]; exact ih
    · rw [List.filter_cons_of_neg (by simpa using hk)]
      by_cases h : f.1 = id
      · subst h
        simp only [if_true]
        rw [ih]
        simp [hk]
      · simp only [h, if_false]; exact ih

/-- **stream 1 followed by the report reproduces stream 2**, field by field: for every id that stream 2 holds, the payload
    in force afterwards is stream 2's payload, or stream 1's payload where the comparison found no difference;
    a field stream 2 does not hold is absent or in force with an empty payload -/
theorem inForce_report (sp : Special) (specs : List CmpSpec) (tbl : List Desc) (fs1 fs2 : List Field)
    (hn : ((body sp fs1).map (·.1)).Nodup) (id : Nat) :
    (∀ p2, findField (body sp fs2) id = some p2 →
      ∃ q, inForce (body sp fs1) (diffReport sp specs tbl fs1 fs2) id = some q ∧
        (q = p2 ∨ (findField (body sp fs1) id = some q ∧ payloadDiffer specs (descForType tbl id) q p2 = false))) ∧
    (findField (body sp fs2) id = none →
      inForce (body sp fs1) (diffReport sp specs tbl fs1 fs2) id =
        if (findField (body sp fs1) id).isSome then some [] else none) := by
  unfold inForce diffReport
  simp only
  rw [findField_append, findField_flatMap_report specs tbl _ _ hn, findField_reportSecond]
  cases h1 : findField (body sp fs1) id with
  | none =>
    simp only [Option.isNone_none, if_true, Option.isSome_none]
    constructor
    · intro p2 h2
      simp [h2]
    · intro h2
      simp [h2]
  | some p1 =>
    simp only [Option.isNone_some, Option.isSome_some, if_true]
    unfold reportFirst
    constructor
    · intro p2 h2
      simp only [h2]
      cases hd : payloadDiffer specs (descForType tbl id) p1 p2
      · simp [findField_nil, hd]
      · simp [findField_cons]
    · intro h2
      simp [h2, findField_cons]

end RV.Persist
