import RV.Proofs.PersistRT
/-
  Main round-trip theorems of the field-level codec (for every table with unique ids).
-/
set_option linter.unusedVariables false
set_option linter.unusedSimpArgs false
set_option linter.unusedSectionVars false
namespace RV.Persist

variable {psz : Nat} {sp : Special} {tbl : List Desc}

theorem setMem_mem (s : Sim) (m : Nat) (b : Bytes) (i : Nat) :
    (s.setMem m b).mem i = if i = m then b else s.mem i := rfl
theorem setMem_heap (s : Sim) (m : Nat) (b : Bytes) (i : Nat) : (s.setMem m b).heap i = s.heap i := rfl
theorem setHeap_mem (s : Sim) (m : Nat) (b : Option Bytes) (i : Nat) : (s.setHeap m b).mem i = s.mem i := rfl
theorem setHeap_heap (s : Sim) (m : Nat) (b : Option Bytes) (i : Nat) :
    (s.setHeap m b).heap i = if i = m then b else s.heap i := rfl


theorem encodeField_simple (s : Sim) (d : Desc) (sz : Nat) (hs : simpleSize psz d.dtype = some sz) :
    encodeField psz s d = [(d.id, (s.mem d.mem).take sz)] := by
  simp [encodeField, hs]

theorem encodeField_pointer (s : Sim) (d : Desc) (hd : d.dtype = .pointer ∨ d.dtype = .pointerAligned) :
    encodeField psz s d =
      if fieldSize s d = 0 then [] else [(d.id, (heapBytes s d.mem).take (fieldSize s d))] := by
  rcases hd with h | h <;> simp [encodeField, h, simpleSize, fieldSize]

theorem encodeField_fixed (s : Sim) (d : Desc) (hd : d.dtype = .pointerFixed) :
    encodeField psz s d = match s.heap d.mem with
      | some b => [(d.id, b.take d.elemSize)]
      | none => [] := by
  cases h : s.heap d.mem <;> simp [encodeField, hd, simpleSize, h]

theorem encodeField_dp7 (s : Sim) (d : Desc) (hd : d.dtype = .dp7) :
    encodeField psz s d =
      if fieldSize s d = 0 then [] else [(d.id, dp7Payload s d.mem (fieldSize s d / 7))] := by
  simp [encodeField, hd, simpleSize, fieldSize]

theorem encodeField_none (s : Sim) (d : Desc)
    (hd : d.dtype = .other ∨ d.dtype = .fieldEnd ∨ d.dtype = .notFound) : encodeField psz s d = [] := by
  rcases hd with h | h | h <;> simp [encodeField, h, simpleSize]

/-- reading back the field(s) emitted for row `d` sets `d`'s locations to the source's values and raises
    no warning -/
theorem apply_encodeField (s cur : Sim) (w : List Warning) (d : Desc)
    (hl : lookup tbl d.id = some d) (hwf : WFd psz s d) :
    applyAll psz sp tbl (cur, w) (encodeField psz s d) = (writeS psz s cur d, w) := by
  unfold WFd at hwf
  cases hs : simpleSize psz d.dtype with
  | some sz =>
    rw [hs] at hwf
    rw [encodeField_simple s d sz hs]
    simp only [applyAll, List.foldl_cons, List.foldl_nil]
    rw [applyField_simple cur w _ d sz hl hs]
    congr 1
    apply Sim.ext'
    · intro m
      simp only [setMem_mem, writeS, memWritten, hs, take_length_self _ sz hwf]
      by_cases h : m = d.mem <;> simp [h]
    · intro m
      simp [setMem_heap, writeS, heapWritten, hs]
  | none =>
    rw [hs] at hwf
    cases hd : d.dtype with
    | pointer | pointerAligned =>
      all_goals (
        rw [hd] at hwf
        simp only at hwf
        obtain ⟨he, h4, hlt, hheap⟩ := hwf
        rw [encodeField_pointer s d (by simp [hd])]
        by_cases hz : fieldSize s d = 0
        · simp only [hz, applyAll, List.foldl_nil, if_true]
          congr 1
          apply Sim.ext'
          · intro m; simp [writeS, memWritten, hd, simpleSize, hz]
          · intro m; simp [writeS, heapWritten, hd, simpleSize, hz]
        · obtain ⟨b, hb, hbl⟩ := hheap hz
          simp only [hz, applyAll, List.foldl_cons, List.foldl_nil, if_false]
          rw [applyField_pointer cur w _ d hl (by simp [hd])]
          have hpay : (heapBytes s d.mem).take (fieldSize s d) = b := by
            rw [heapBytes_some s _ b hb]; exact take_length_self _ _ hbl
          simp only [hpay]
          have hcnt : countOf b.length d.elemSize = counter s d := by
            rw [hbl]; exact countOf_mul _ _ he hlt
          have hmod : b.length % d.elemSize = 0 := by
            rw [hbl]; exact Nat.mul_mod_left _ _
          rw [hcnt, counter_back s d h4]
          simp only [hmod, ne_eq, not_true_eq_false, if_false]
          congr 1
          apply Sim.ext'
          · intro m
            simp only [setMem_mem, setHeap_mem, writeS, memWritten, hd, simpleSize]
            by_cases h : m = d.nMem <;> simp [h, hz]
          · intro m
            simp only [setMem_heap, setHeap_heap, writeS, heapWritten, hd, simpleSize]
            by_cases h : m = d.mem <;> simp [h, hz, hb])
    | pointerFixed =>
      rw [hd] at hwf
      simp only at hwf
      rw [encodeField_fixed s d hd]
      cases hh : s.heap d.mem with
      | none =>
        simp only [applyAll, List.foldl_nil]
        congr 1
        apply Sim.ext'
        · intro m; simp [writeS, memWritten, hd, simpleSize]
        · intro m; simp [writeS, heapWritten, hd, simpleSize, hh]
      | some b =>
        have hbl := hwf b hh
        simp only [applyAll, List.foldl_cons, List.foldl_nil]
        rw [applyField_fixed cur w _ d hl hd]
        simp only [take_length_self _ _ hbl, hbl, ne_eq, not_true_eq_false, if_false]
        congr 1
        apply Sim.ext'
        · intro m; simp [setHeap_mem, writeS, memWritten, hd, simpleSize]
        · intro m
          simp only [setHeap_heap, writeS, heapWritten, hd, simpleSize, hh]
          by_cases h : m = d.mem <;> simp [h, hh]
    | dp7 =>
      rw [hd] at hwf
      simp only at hwf
      obtain ⟨he, h7, h4, hlt, hheap⟩ := hwf
      rw [encodeField_dp7 s d hd]
      by_cases hz : fieldSize s d = 0
      · simp only [hz, applyAll, List.foldl_nil, if_true]
        congr 1
        apply Sim.ext'
        · intro m; simp [writeS, memWritten, hd, simpleSize, hz]
        · intro m; simp [writeS, heapWritten, hd, simpleSize, hz]
      · have hh := hheap hz
        let b : Nat → Bytes := fun k => heapBytes s (d.mem + k)
        have hb : ∀ k, k < 7 → s.heap (d.mem + k) = some (b k) ∧ (b k).length = fieldSize s d / 7 := by
          intro k hk
          obtain ⟨x, hx, hxl⟩ := hh k hk
          refine ⟨?_, ?_⟩
          · simp [b, heapBytes, hx]
          · simp [b, heapBytes, hx, hxl]
        simp only [hz, applyAll, List.foldl_cons, List.foldl_nil, if_false]
        rw [applyField_dp7 cur w _ d hl hd]
        have hpay := dp7Payload_eq s d.mem (fieldSize s d / 7) b hb
        rw [hpay]
        obtain ⟨pl, c0, c1, c2, c3, c4, c5, c6⟩ := dp7_chunks (fieldSize s d / 7) b (fun k hk => (hb k hk).2)
        have h7s : 7 * (fieldSize s d / 7) = fieldSize s d := by
          apply Nat.mul_div_cancel'
          exact Dvd.dvd.mul_left h7 _
        have hl7 : (7 * (fieldSize s d / 7)) / 7 = fieldSize s d / 7 := by omega
        simp only [pl, hl7]
        rw [c0, c1, c2, c3, c4, c5, c6, h7s]
        have hcnt : countOf (fieldSize s d) d.elemSize = counter s d := countOf_mul _ _ he hlt
        have hmod : fieldSize s d % d.elemSize = 0 := Nat.mul_mod_left _ _
        rw [hcnt, counter_back s d h4]
        simp only [hmod, ne_eq, not_true_eq_false, if_false]
        congr 1
        apply Sim.ext'
        · intro m
          simp only [setMem_mem, setHeap_mem, writeS, memWritten, hd, simpleSize]
          by_cases h : m = d.nMem <;> simp [h, hz]
        · intro m
          simp only [setMem_heap, setHeap_heap, writeS, heapWritten, hd, simpleSize]
          have e0 := (hb 0 (by omega)).1; have e1 := (hb 1 (by omega)).1; have e2 := (hb 2 (by omega)).1
          have e3 := (hb 3 (by omega)).1; have e4 := (hb 4 (by omega)).1; have e5 := (hb 5 (by omega)).1
          have e6 := (hb 6 (by omega)).1
          simp only [Nat.add_zero] at e0
          by_cases g6 : m = d.mem + 6
          · subst g6; simp [hz, e6]
          by_cases g5 : m = d.mem + 5
          · subst g5; simp [hz, e5]
          by_cases g4 : m = d.mem + 4
          · subst g4; simp [hz, e4]
          by_cases g3 : m = d.mem + 3
          · subst g3; simp [hz, e3]
          by_cases g2 : m = d.mem + 2
          · subst g2; simp [hz, e2]
          by_cases g1 : m = d.mem + 1
          · subst g1; simp [hz, e1]
          by_cases g0 : m = d.mem
          · subst g0; simp [hz, e0]
          have hout : ¬ (d.mem ≤ m ∧ m < d.mem + 7) := by omega
          simp [g0, g1, g2, g3, g4, g5, g6, hout]
    | double | int | uint | uint32 | int64 | uint64 | vec3d | particle | particle4 =>
      all_goals (rw [hd] at hs; simp [simpleSize] at hs)
    | other | fieldEnd | notFound =>
      all_goals (
        rw [encodeField_none s d (by simp [hd])]
        simp only [applyAll, List.foldl_nil]
        congr 1
        apply Sim.ext'
        · intro m; simp [writeS, memWritten, hd, simpleSize]
        · intro m; simp [writeS, heapWritten, hd, simpleSize])

end RV.Persist
