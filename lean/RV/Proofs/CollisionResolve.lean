import RV.Proofs.Collision
import RV.Proofs.CollisionFix
/-
  helper lemmas for RV/Props/C13.lean: the merge and hard-sphere resolvers in exact
  arithmetic (ordered field), and conservation sums over the particle array across
  merge + removal.
-/
set_option linter.unusedVariables false
set_option linter.unusedSimpArgs false
set_option linter.unusedSectionVars false
namespace RV.Collision
open RV
variable {K : Type} [Field K] [LinearOrder K] [IsStrictOrderedRing K]

/-! ## sums over the array under the two removal modes -/

theorem sum_set (l : List K) (i : Nat) (hi : i < l.length) (a : K) :
    (l.set i a).sum = l.sum - l[i] + a := by
  induction l generalizing i with
  | nil => simp at hi
  | cons x r ih =>
    cases i with
    | zero => simp; ring
    | succ i =>
      simp only [List.set_cons_succ, List.sum_cons, List.getElem_cons_succ]
      rw [ih i (by simpa using hi)]; ring

theorem sum_eraseIdx (l : List K) (i : Nat) (hi : i < l.length) :
    (l.eraseIdx i).sum = l.sum - l[i] := by
  induction l generalizing i with
  | nil => simp at hi
  | cons x r ih =>
    cases i with
    | zero => simp
    | succ i =>
      simp only [List.eraseIdx_cons_succ, List.sum_cons, List.getElem_cons_succ]
      rw [ih i (by simpa using hi)]; ring

theorem sum_rmList (ks : Bool) (l : List K) (i : Nat) (hi : i < l.length) :
    (rmList ks l i).sum = l.sum - l[i] := by
  unfold rmList
  cases ks
  · simp only [Bool.false_eq_true, if_false]
    have hne : l ≠ [] := by intro h; subst h; simp at hi
    rw [List.getLast?_eq_some_getLast hne]
    simp only
    have hd := List.dropLast_concat_getLast hne
    generalize l.getLast hne = z at *
    generalize l.dropLast = d at *
    subst hd
    by_cases hid : i < d.length
    · rw [List.set_append_left _ _ hid, List.dropLast_concat, sum_set d i hid]
      simp [List.getElem_append_left hid]; ring
    · have hlen : i = d.length := by simp at hi; omega
      subst hlen
      simp
  · simp only [if_true]; exact sum_eraseIdx l i hi

/-- total of an additive quantity over the particle array -/
def total (f : Part K → K) (ps : List (Part K)) : K := (ps.map f).sum

theorem total_set (f : Part K → K) (ps : List (Part K)) (i : Nat) (hi : i < ps.length) (p : Part K) :
    total f (ps.set i p) = total f ps - f ps[i] + f p := by
  unfold total
  rw [List.map_set, sum_set _ i (by simpa using hi)]; simp

theorem total_rmList (f : Part K → K) (ks : Bool) (ps : List (Part K)) (i : Nat) (hi : i < ps.length) :
    total f (rmList ks ps i) = total f ps - f ps[i] := by
  unfold total
  rw [rmList_map, sum_rmList ks _ i (by simpa using hi)]; simp

/-! ## merge -/

/-- the nine quantities whose array totals a merger has to conserve: mass, momentum (3),
    mass-weighted position (3) -/
def conservedQ : List (Part K → K) :=
  [fun p => p.m, fun p => p.m * p.vx, fun p => p.m * p.vy, fun p => p.m * p.vz,
   fun p => p.m * p.x, fun p => p.m * p.y, fun p => p.m * p.z]

theorem feq_iff (a b : K) : feq a b = true ↔ a = b := by
  unfold feq
  simp only [sco_le, Bool.and_eq_true, decide_eq_true_eq]
  exact ⟨fun ⟨h1, h2⟩ => le_antisymm h1 h2, fun h => by subst h; exact ⟨le_refl _, le_refl _⟩⟩

theorem mergePair_massive (mid : Bool) (cbrtF : K → K) (t : K) (pi pj : Part K) (hm : pi.m + pj.m ≠ 0) :
    mergePair mid cbrtF t pi pj = mergePair false cbrtF t pi pj := by
  have : feq (pi.m + pj.m) (0 : K) = false := by
    rw [Bool.eq_false_iff]; intro h; exact hm ((feq_iff _ _).mp h)
  unfold mergePair
  simp only [sc_hadd, sc_zero, this, Bool.and_false, Bool.false_eq_true, if_false, Bool.false_and]

theorem mergePair_additive (mid : Bool) (cbrtF : K → K) (t : K) (pi pj : Part K) (hm : pi.m + pj.m ≠ 0) :
    ∀ f ∈ (conservedQ : List (Part K → K)), f (mergePair mid cbrtF t pi pj) = f pi + f pj := by
  rw [mergePair_massive mid cbrtF t pi pj hm]
  intro f hf
  simp only [conservedQ, List.mem_cons, List.not_mem_nil, or_false] at hf
  rcases hf with rfl | rfl | rfl | rfl | rfl | rfl | rfl <;>
    simp only [mergePair, sc_hadd, sc_hmul, sc_hdiv, sc_one, Bool.false_and, Bool.false_eq_true, if_false] <;> field_simp

/-- what `reb_collision_resolve_merge` does on a valid entry whose two particles have not
    collided at this time: the lower index becomes the merged particle, the return value asks
    for the removal of the higher index -/
theorem merge_eval (mid : Bool) (cbrtF : K → K) (t : K) (s : Sim (Part K)) (c : Coll (GB K)) (n1 n2 : Nat)
    (hp1 : c.p1 = n1) (hp2 : c.p2 = n2) (h1 : n1 < s.ps.length) (h2 : n2 < s.ps.length)
    (hlc1 : s.ps[n1].lc ≠ t) (hlc2 : s.ps[n2].lc ≠ t) :
    merge mid cbrtF t s c =
      if n2 < n1 then ({ s with ps := s.ps.set n2 (mergePair mid cbrtF t s.ps[n2] s.ps[n1]) }, 1)
      else ({ s with ps := s.ps.set n1 (mergePair mid cbrtF t s.ps[n1] s.ps[n2]) }, 2) := by
  have l1 : lookup s c.p1 = some s.ps[n1] := by
    unfold lookup; rw [hp1]; simp [h1]
  have l2 : lookup s c.p2 = some s.ps[n2] := by
    unfold lookup; rw [hp2]; simp [h2]
  unfold merge
  simp only [l1, l2]
  have g1 : feq s.ps[n1].lc t = false := by
    rw [Bool.eq_false_iff]; intro h; exact hlc1 ((feq_iff _ _).mp h)
  have g2 : feq s.ps[n2].lc t = false := by
    rw [Bool.eq_false_iff]; intro h; exact hlc2 ((feq_iff _ _).mp h)
  simp only [g1, g2, Bool.or_false, Bool.false_eq_true, if_false, hp1, hp2]
  by_cases h : n2 < n1
  · have : ((n2 : Int) < (n1 : Int)) := by omega
    simp [h, this]
  · have : ¬ ((n2 : Int) < (n1 : Int)) := by omega
    simp [h, this]

/-- the `last_collision == t` guard: a particle that already collided at time `t` is not merged
    again at `t` — state unchanged, outcome 0 -/
theorem merge_guard (mid : Bool) (cbrtF : K → K) (t : K) (s : Sim (Part K)) (c : Coll (GB K)) (q1 q2 : Part K)
    (l1 : lookup s c.p1 = some q1) (l2 : lookup s c.p2 = some q2) (h : q1.lc = t ∨ q2.lc = t) :
    merge mid cbrtF t s c = (s, 0) := by
  unfold merge
  simp only [l1, l2]
  have : (feq q1.lc t || feq q2.lc t) = true := by
    rcases h with h | h
    · simp [(feq_iff _ _).mpr h]
    · simp [(feq_iff _ _).mpr h]
  simp [this]

theorem mergePair_id (mid : Bool) (cbrtF : K → K) (t : K) (pi pj : Part K) :
    (mergePair mid cbrtF t pi pj).id = pi.id ∧ (mergePair mid cbrtF t pi pj).lc = t := by
  unfold mergePair; split <;> exact ⟨rfl, rfl⟩

/-- merge never adds, removes or reorders particles itself -/
theorem merge_resOK (mid : Bool) (cbrtF : K → K) (t : K) :
    ResOK (fun p : Part K => p.id) (G := GB K) (merge mid cbrtF t) := by
  intro s c
  unfold merge
  split
  · rename_i q1 q2 l1 l2
    split
    · exact ⟨rfl, rfl, rfl, rfl⟩
    · refine ⟨?_, rfl, rfl, rfl⟩
      simp only [ids]
      apply List.ext_getElem?
      intro j
      simp only [List.getElem?_map, List.getElem?_set]
      -- the particle written at index i carries the identity of the one that was there
      have key : ∀ (p : Int) (q : Part K), lookup s p = some q →
          (List.map (fun p => p.id) (s.ps.set p.toNat (mergePair mid cbrtF t q (if c.p2 < c.p1 then q1 else q2))))[j]? =
          (List.map (fun p => p.id) s.ps)[j]? := by
        intro p q hl
        unfold lookup at hl
        split at hl
        · cases hl
        · simp only [List.getElem?_map, List.getElem?_set]
          by_cases hj : p.toNat = j
          · subst hj
            obtain ⟨hlt, hq⟩ := List.getElem?_eq_some_iff.mp hl
            simp [hlt, (mergePair_id mid cbrtF t _ _).1, ← hq]
          · simp [hj]
      by_cases hsw : c.p2 < c.p1
      · have := key c.p2 q2 l2
        simp only [hsw, if_true, List.getElem?_map, List.getElem?_set] at this ⊢
        exact this
      · have := key c.p1 q1 l1
        simp only [hsw, if_false, List.getElem?_map, List.getElem?_set] at this ⊢
        exact this
  · exact ⟨rfl, rfl, rfl, rfl⟩

/-! ## hard sphere -/

/-- axis of the impulse in the original frame: `(cosφ, sinφ cosθ, sinφ sinθ)` -/
def axisDot (st ct sp cp : K) (vx vy vz : K) : K := cp*vx + sp*(ct*vy + st*vz)

theorem hsVn_eq (st ct sp cp : K) (q : Rel K) :
    hsVn st ct sp cp q = axisDot st ct sp cp q.vx21 q.vy21 q.vz21 := by
  simp [hsVn, axisDot]

theorem hsMindv_zero (rr : K) (p1 p2 : Part K) : hsMindv 0 rr p1 p2 = 0 := by
  unfold hsMindv
  simp only [sc_hadd, sc_hsub, sc_hmul, sc_hdiv, sc_one, sco_lt, gt_iff', mul_zero, zero_mul,
    lt_self_iff_false, decide_false, Bool.false_eq_true, if_false]

/-- without a minimum collision velocity an approaching pair gets `dvx2 = −(1+ε)·vₙ` -/
theorem hsDvx2_unclamped (eps rr vn : K) (p1 p2 : Part K) (hvn : vn ≤ 0) (heps : 0 ≤ 1 + eps) :
    hsDvx2 eps 0 rr vn p1 p2 = -(1 + eps) * vn := by
  unfold hsDvx2
  simp only [hsMindv_zero, sc_hadd, sc_hmul, sc_hneg, sc_one, sco_lt, decide_eq_true_eq]
  have : ¬ (-(1 + eps) * vn < 0) := by
    apply not_lt.mpr
    have : 0 ≤ (1 + eps) * (-vn) := mul_nonneg heps (by linarith)
    linarith
  rw [if_neg this]

/-- the clamp only ever increases the impulse -/
theorem hsDvx2_ge (eps mcv rr vn : K) (p1 p2 : Part K) :
    -(1 + eps) * vn ≤ hsDvx2 eps mcv rr vn p1 p2 := by
  unfold hsDvx2
  simp only [sc_hadd, sc_hmul, sc_hneg, sc_one, sco_lt, decide_eq_true_eq]
  generalize hsMindv mcv rr p1 p2 = mindv
  by_cases h : -(1 + eps) * vn < mindv
  · rw [if_pos h]; exact h.le
  · rw [if_neg h]

theorem axis_unit (st ct sp cp : K) (hθ : st*st + ct*ct = 1) (hφ : sp*sp + cp*cp = 1) :
    cp*cp + (sp*ct)*(sp*ct) + (sp*st)*(sp*st) = 1 := by
  linear_combination (sp*sp) * hθ + hφ

/-- elastic exchange along a unit axis `u`: kinetic energy is unchanged (pure algebra) -/
theorem elastic_axis (M b ux uy uz ax ay az bx by' bz : K) (hM : M ≠ 0)
    (huu : ux*ux + uy*uy + uz*uz = 1) :
    let vn := ux*(ax - bx) + uy*(ay - by') + uz*(az - bz)
    let d := -(1 + 1) * vn
    (M*b) * ((ax + (1-b)*(ux*d))^2 + (ay + (1-b)*(uy*d))^2 + (az + (1-b)*(uz*d))^2) +
    (M*(1-b)) * ((bx - b*(ux*d))^2 + (by' - b*(uy*d))^2 + (bz - b*(uz*d))^2)
    = (M*b) * (ax^2 + ay^2 + az^2) + (M*(1-b)) * (bx^2 + by'^2 + bz^2) := by
  intro vn d
  linear_combination (4 * M * b * (1-b) * vn^2) * huu

/-- the pair after the bounce, in terms of mass fractions -/
theorem hsApply_fst (st ct sp cp dvx2 t : K) (p1 p2 : Part K) :
    let n := hsApply false st ct sp cp dvx2 t p1 p2 p1 p2
    n.1.vx = p1.vx + p2.m/(p1.m+p2.m)*(cp*dvx2) ∧
    n.1.vy = p1.vy + p2.m/(p1.m+p2.m)*(ct*(sp*dvx2)) ∧
    n.1.vz = p1.vz + p2.m/(p1.m+p2.m)*(st*(sp*dvx2)) ∧
    n.2.vx = p2.vx - p1.m/(p1.m+p2.m)*(cp*dvx2) ∧
    n.2.vy = p2.vy - p1.m/(p1.m+p2.m)*(ct*(sp*dvx2)) ∧
    n.2.vz = p2.vz - p1.m/(p1.m+p2.m)*(st*(sp*dvx2)) ∧
    n.1.m = p1.m ∧ n.2.m = p2.m ∧ n.1.x = p1.x ∧ n.1.y = p1.y ∧ n.1.z = p1.z ∧
    n.2.x = p2.x ∧ n.2.y = p2.y ∧ n.2.z = p2.z ∧ n.1.id = p1.id ∧ n.2.id = p2.id := by
  simp [hsApply]

theorem hsApply_massive (eqm : Bool) (st ct sp cp dvx2 t : K) (p1 p2 t1 t2 : Part K)
    (hM : p1.m + p2.m ≠ 0) :
    hsApply eqm st ct sp cp dvx2 t p1 p2 t1 t2 = hsApply false st ct sp cp dvx2 t p1 p2 t1 t2 := by
  have : feq (p1.m + p2.m) (0 : K) = false := by
    rw [Bool.eq_false_iff]; intro h; exact hM ((feq_iff _ _).mp h)
  unfold hsApply
  simp only [sc_hadd, sc_zero, this, Bool.and_false, Bool.false_eq_true, if_false, Bool.false_and]

/-- total array sum after a merge step: lower index replaced by the merged particle, higher
    index removed -/
theorem total_merge (f : Part K → K) (ks : Bool) (ps : List (Part K)) (i j : Nat) (hij : i ≠ j)
    (hi : i < ps.length) (hj : j < ps.length) (p : Part K) (hadd : f p = f ps[i] + f ps[j]) :
    total f (rmList ks (ps.set i p) j) = total f ps := by
  have hj' : j < (ps.set i p).length := by simpa using hj
  rw [total_rmList f ks _ j hj', total_set f ps i hi p, hadd]
  have : (ps.set i p)[j] = ps[j] := by
    rw [List.getElem_set]; simp [hij]
  rw [this]; ring

end RV.Collision
