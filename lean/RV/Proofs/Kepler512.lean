import RV.Proofs.Kepler
import RV.Model.Kepler512
/- WHFast512's Kepler step over a field (helper lemmas for RV/Props/C03.lean) -/
set_option linter.unusedTactic false
set_option linter.unusedVariables false
set_option linter.unusedSectionVars false
set_option linter.unusedSimpArgs false
namespace RV.Kepler
open RV
variable {K : Type} [Field K] [CharZero K]

theorem fact_vals2 : Nat.factorial 16 = 20922789888000 ∧ Nat.factorial 17 = 355687428096000 ∧
    Nat.factorial 18 = 6402373705728000 ∧ Nat.factorial 19 = 121645100408832000 := by decide +kernel

omit [CharZero K] in
/-- the vectorised f-g update is the scalar one -/
theorem fg512_eq (M r0i ri dt g1 g2 g3 : K) (p : P6 K) :
    fg512 M r0i ri dt g1 g2 g3 p = fgUpdate M r0i ri dt g1 g2 g3 p := by
  simp only [fg512, fgUpdate, fgApply, fgCoeffs, sc_hadd, sc_hsub, sc_hmul, sc_neg, P6.mk.injEq]
  refine ⟨?_, ?_, ?_, ?_, ?_, ?_⟩ <;> ring

/-- the Newton step is the scalar Newton step (lines 239-240 of integrator_whfast.c) on the same G's -/
theorem newton512_eq (r0 eta0 zeta0 beta dt X : K) :
    let g := gs13_512 beta X
    newton512 r0 eta0 zeta0 beta dt X =
      (1 / (r0 + (eta0 * g.1 + zeta0 * g.2.1)) * (X * (eta0 * g.1 + zeta0 * g.2.1) - eta0 * g.2.1 - zeta0 * g.2.2 + dt),
       1 / (r0 + (eta0 * g.1 + zeta0 * g.2.1))) := by
  simp only [newton512, sc_hadd, sc_hsub, sc_hmul, sc_hdiv, sc_one, Prod.mk.injEq]
  constructor
  · ring
  · ring

/-- series of `mm_stiefel_Gs13_avx512`: truncated Stumpff series (9 terms, up to z⁸/19! resp. z⁸/18!) at the
    FULL argument `z = β X²` (no halving), scaled by powers of X; `G1 = X − z·(c3 X)` -/
theorem gs13_512_eq (beta X : K) :
    let z := X * X * beta
    let c3 := 1/6 - z/120 + z^2/5040 - z^3/362880 + z^4/39916800 - z^5/6227020800 + z^6/1307674368000
                - z^7/355687428096000 + z^8/121645100408832000
    let c2 := 1/2 - z/24 + z^2/720 - z^3/40320 + z^4/3628800 - z^5/479001600 + z^6/87178291200
                - z^7/20922789888000 + z^8/6402373705728000
    gs13_512 beta X = (X - z * (c3 * X), c2 * (X * X), c3 * X * (X * X)) := by
  obtain ⟨f0, f1, f2, f3, f4, f5, f6, f7, f8, f9, f10, f11, f12, f13, f14, f15⟩ := fact_vals
  obtain ⟨f16, f17, f18, f19⟩ := fact_vals2
  simp only [gs13_512, horner512, invfact_eq, sc_hsub, sc_hmul, Fin.isValue, Prod.mk.injEq]
  refine ⟨?_, ?_, ?_⟩ <;>
  · norm_num [Nat.factorial, -mul_eq_mul_right_iff, -mul_eq_mul_left_iff]
    try ring1

end RV.Kepler
