/-
  The writer: `reb_simulation_save_to_file` on a well-formed archive (scan of the first blob, corruption
  test, write position, bytes written) produces exactly `pendingData`, hence `appends` builds `archOf`.
-/
import RV.Proofs.BinArch
set_option linter.unusedVariables false
set_option linter.unusedSimpArgs false
namespace RV.Bin

theorem scanFirst_enc (fs : List Field) (X : Bytes) (h : WFs fs) (fuel pos : Nat) (fld : Bytes)
    (hf : fs.length < fuel) :
    scanFirst fuel pos (encFs fs ++ (endBytes ++ X)) fld = (pos + blobLen fs, true, endBytes) := by
  induction fs generalizing fuel pos fld with
  | nil =>
    cases fuel with
    | zero => omega
    | succ n =>
      simp only [encFs, List.nil_append, scanFirst, readHdr_end, if_true, blobLen, List.length_nil]
      have : (endBytes ++ X).take 16 = endBytes := by
        rw [List.take_append_of_le_length (by simp)]; exact List.take_of_length_le (by simp)
      rw [this]
  | cons f fs ih =>
    cases fuel with
    | zero => omega
    | succ n =>
      obtain ⟨hw, hws⟩ := WFs_cons.mp h
      have hl : fs.length < n := by simp at hf; omega
      simp only [encFs, List.append_assoc, scanFirst]
      rw [readHdr_encF f _ hw]
      simp only [hw.ty_ne_end, if_false, hw.size_eq, List.drop_left]
      rw [ih hws n _ _ hl, blobLen_cons]
      have : pos + 16 + f.data.length + blobLen fs = pos + (16 + f.data.length + blobLen fs) := by omega
      rw [this]

theorem archI_concat (hdr : Bytes) (fs0 : List Field) (l : List (List Field)) (d : List Field) :
    archI hdr fs0 (l ++ [d]) = archPre hdr fs0 l ++ (trailerBytes l.length (lastPrev 0 l) (blobLen d) ++
      (encFs d ++ (endBytes ++ finIntact (l.length + 1) (blobLen d)))) := by
  rw [← append_shape, archI_length]
  simp only [overwrite, Nat.add_sub_cancel]
  rw [archI, archG_split, List.take_left]
  have hl : (archPre hdr fs0 l ++ finIntact l.length (lastPrev 0 l)).length ≤ (archPre hdr fs0 l).length + (pendingData l d).length := by
    simp [finIntact, pendingData_length]
  rw [List.drop_eq_nil_of_le hl]
  simp [pendingData, finIntact, List.append_assoc]

theorem lastPrev_concat (p : Nat) (l : List (List Field)) (d : List Field) : lastPrev p (l ++ [d]) = blobLen d := by
  induction l generalizing p with
  | nil => simp [lastPrev]
  | cons x r ih => simp only [List.cons_append, lastPrev]; exact ih _

/-- the corruption test passes on every well-formed archive -/
theorem fileCorrupt_archI (hdr : Bytes) (hh : HdrOK hdr) (fs0 : List Field) (ds : List (List Field))
    (hds : ChainOK ds) (fld : Bytes) :
    (fileCorrupt (archI hdr fs0 ds) (decide (ds ≠ [])) fld).1 = false ∧
    ((fileCorrupt (archI hdr fs0 ds) (decide (ds ≠ [])) fld).2 = fld ∨
     (fileCorrupt (archI hdr fs0 ds) (decide (ds ≠ [])) fld).2 = endBytes) := by
  have hlen := archI_length hdr fs0 ds
  have hT : (archI hdr fs0 ds).drop ((archI hdr fs0 ds).length - 12) = finIntact ds.length (lastPrev 0 ds) := by
    rw [hlen, Nat.add_sub_cancel, archI, archG_split, List.drop_left]
  have hp := lastPrev_lt ds hds
  unfold fileCorrupt
  have h12 : ¬ ((archI hdr fs0 ds).length < 12) := by omega
  simp only [h12, if_false, hT, finIntact]
  rw [trailer_prev _ _ _ (by omega), trailer_next _ _ _ (by omega), sgn32_small _ hp, sgn32_small 0 (by omega)]
  rcases List.eq_nil_or_concat ds with rfl | ⟨l, d, rfl⟩
  · simp
  · rw [List.concat_eq_append] at *
    have hd := hds d (by simp)
    have hge := blobLen_ge d
    have hne : (l ++ [d]) ≠ [] := by simp
    rw [lastPrev_concat]
    have hpos : ¬ ((blobLen d : Int) ≤ 0) := by omega
    simp only [hne, ne_eq, not_false_eq_true, decide_true, Bool.true_and, hpos, decide_false, Bool.false_or,
      Int.natCast_zero, not_true_eq_false, Bool.not_true, Bool.false_eq_true, if_false]
    -- layout of the tail of the file
    have hcat := archI_concat hdr fs0 l d
    have hlen2 : (archI hdr fs0 (l ++ [d])).length = (archPre hdr fs0 l).length + 12 + blobLen d + 12 := by
      rw [hcat]; simp [blobLen, finIntact]; omega
    have h28 : ¬ ((archI hdr fs0 (l ++ [d])).length < 28) := by omega
    simp only [h28, if_false]
    have hsrc : (archI hdr fs0 (l ++ [d])).drop ((archI hdr fs0 (l ++ [d])).length - 28)
        = endBytes ++ finIntact (l.length + 1) (blobLen d) := by
      have e : (archI hdr fs0 (l ++ [d])).length - 28
          = (archPre hdr fs0 l ++ (trailerBytes l.length (lastPrev 0 l) (blobLen d) ++ encFs d)).length := by
        rw [hlen2]; simp [blobLen]; omega
      rw [e, hcat]
      have : archPre hdr fs0 l ++ (trailerBytes l.length (lastPrev 0 l) (blobLen d) ++
          (encFs d ++ (endBytes ++ finIntact (l.length + 1) (blobLen d))))
          = (archPre hdr fs0 l ++ (trailerBytes l.length (lastPrev 0 l) (blobLen d) ++ encFs d)) ++
            (endBytes ++ finIntact (l.length + 1) (blobLen d)) := by simp
      rw [this, List.drop_left]
    rw [hsrc, readHdr_end]
    have hp2 : ((archI hdr fs0 (l ++ [d])).length : Int) - 12 - (blobLen d : Int) - 12 = ((archPre hdr fs0 l).length : Int) := by
      rw [hlen2]; omega
    have htb2 : ((archI hdr fs0 (l ++ [d])).drop (archPre hdr fs0 l).length).take 12
        = trailerBytes l.length (lastPrev 0 l) (blobLen d) := by
      rw [hcat, List.drop_left, trailer_take]
    simp only [hp2, Int.toNat_natCast, htb2, trailerBytes_length, Nat.lt_irrefl, if_false]
    rw [trailer_next _ _ _ (by omega), sgn32_small _ hd.2]
    have hnn : ¬ (((archPre hdr fs0 l).length : Int) < 0) := by omega
    simp only [hnn, if_false, ne_eq, not_true_eq_false, decide_false, Bool.or_false, or_self]
    refine ⟨trivial, Or.inr ?_⟩
    rw [List.take_append_of_le_length (by simp)]; exact List.take_of_length_le (by simp)

end RV.Bin

namespace RV.Bin

theorem trailer_idx (a b c : Nat) (ha : a < 4294967296) : de ((trailerBytes a b c).take 4) = a := by
  have := de_le32 a ha
  simp only [de, le32] at this
  simp only [trailerBytes, le32, List.cons_append, List.nil_append, List.take_succ_cons, List.take_zero, de]
  exact this

def firstNext : List (List Field) → Nat
  | [] => 0
  | d :: _ => blobLen d

theorem endHdr_eq : le32 END ++ (endBytes.drop 4).take 4 ++ le64 0 = endBytes := by decide

/-- **the writer on a well-formed archive**: it is not "corrupt", the write starts at the last trailer and
    the bytes written are the patched trailer, the delta, END and the new trailer -/
theorem appendPlan_archI (v : Variant) (cmp : Nat → Bytes → Bytes → Bool) (hdr : Bytes) (fs0 : List Field)
    (ds : List (List Field)) (h : ArchOK hdr fs0 ds) (h2 t2 : Bytes) (b : List Field) (hh2 : h2.length = 64)
    (hb : WFs b) (hL : blobLen (diffF v cmp fs0 b) < 2147483648) (hn : ds.length + 1 < 4294967296) :
    appendPlan v cmp (archI hdr fs0 ds) (h2 ++ (encFs b ++ (endBytes ++ t2)))
      = .plan ⟨(archI hdr fs0 ds).length - 12, pendingData ds (diffF v cmp fs0 b), false⟩ := by
  have hl0 := encFs_length_ge fs0
  have hfile : archI hdr fs0 ds = hdr ++ (encFs fs0 ++ (endBytes ++ chainG finIntact 0 0 ds)) := rfl
  have hdrop64 : (archI hdr fs0 ds).drop 64 = encFs fs0 ++ (endBytes ++ chainG finIntact 0 0 ds) := by
    rw [hfile, ← h.hdr.len]; exact List.drop_left
  have hscan : scanFirst ((archI hdr fs0 ds).length + 1) 64 ((archI hdr fs0 ds).drop 64) (List.replicate 16 0)
      = (64 + blobLen fs0, true, endBytes) := by
    rw [hdrop64]
    exact scanFirst_enc fs0 _ h.b0.wf _ 64 _ (by rw [hfile]; simp; omega)
  have hdropS : (archI hdr fs0 ds).drop (64 + blobLen fs0) = chainG finIntact 0 0 ds := by
    have : 64 + blobLen fs0 = (hdr ++ (encFs fs0 ++ endBytes)).length := by simp [blobLen, h.hdr.len]
    rw [this, hfile]
    have : hdr ++ (encFs fs0 ++ (endBytes ++ chainG finIntact 0 0 ds)) = (hdr ++ (encFs fs0 ++ endBytes)) ++ chainG finIntact 0 0 ds := by simp
    rw [this, List.drop_left]
  have htakeS : (archI hdr fs0 ds).take (64 + blobLen fs0) = hdr ++ (encFs fs0 ++ endBytes) := by
    have : 64 + blobLen fs0 = (hdr ++ (encFs fs0 ++ endBytes)).length := by simp [blobLen, h.hdr.len]
    rw [this, hfile]
    have : hdr ++ (encFs fs0 ++ (endBytes ++ chainG finIntact 0 0 ds)) = (hdr ++ (encFs fs0 ++ endBytes)) ++ chainG finIntact 0 0 ds := by simp
    rw [this, List.take_left]
  -- first trailer: is there more than one blob?
  have htb0 : ((archI hdr fs0 ds).drop (64 + blobLen fs0)).take 12 =
      trailerBytes 0 0 (firstNext ds) := by
    rw [hdropS]
    cases ds with
    | nil => simp [chainG, finIntact, trailerBytes, le32, firstNext]
    | cons d r => simp only [chainG, trailer_take, firstNext]
  have hmore : decide (sgn32 (de (((trailerBytes 0 0 (firstNext ds)).drop 8).take 4)) > 0)
      = decide (ds ≠ []) := by
    cases ds with
    | nil => rw [trailer_next _ _ _ (by simp [firstNext])]; simp [sgn32, firstNext]
    | cons d r =>
      have hd := h.ds d (List.mem_cons_self ..)
      have := blobLen_ge d
      rw [trailer_next _ _ _ (by simp only [firstNext]; omega), sgn32_small _ (by simp only [firstNext]; exact hd.2)]
      simp only [firstNext]; simp; omega
  have hdiff := diffRaw_enc v cmp hdr h2 t2 fs0 b h.hdr.len hh2 h.b0.wf hb
  obtain ⟨hc1, hc2⟩ := fileCorrupt_archI hdr h.hdr fs0 ds h.ds endBytes
  have hfld : (fileCorrupt (archI hdr fs0 ds) (decide (ds ≠ [])) endBytes).2 = endBytes := by
    rcases hc2 with e | e <;> exact e
  have hlen := archI_length hdr fs0 ds
  have hT : ((archI hdr fs0 ds).drop ((archI hdr fs0 ds).length - 12)).take 12 = trailerBytes ds.length (lastPrev 0 ds) 0 := by
    rw [hlen, Nat.add_sub_cancel, archI, archG_split, List.drop_left]
    simp [finIntact, trailerBytes, le32]
  have hp := lastPrev_lt ds h.ds
  unfold appendPlan
  rw [hscan]
  simp only [Bool.not_true, Bool.false_eq_true, if_false, htb0, trailerBytes_length, Nat.lt_irrefl, hmore, htakeS, hdiff]
  cases hfc : fileCorrupt (archI hdr fs0 ds) (decide (ds ≠ [])) endBytes with
  | mk cor fld =>
    rw [hfc] at hc1 hfld
    simp only at hc1 hfld
    subst hc1; subst hfld
    simp only [Bool.false_eq_true, if_false, hT]
    rw [trailer_idx _ _ _ (by omega), trailer_prev _ _ _ (by omega), endHdr_eq]
    have e1 : ((encFs (diffF v cmp fs0 b)).length + 16) % 4294967296 = blobLen (diffF v cmp fs0 b) := by
      simp only [blobLen] at hL ⊢; exact Nat.mod_eq_of_lt (by omega)
    have e2 : (ds.length + 1) % 4294967296 = ds.length + 1 := Nat.mod_eq_of_lt hn
    rw [e1, e2]
    simp [pendingData, List.append_assoc]

/-- one real append on a well-formed archive = the archive with one more delta -/
theorem append_archI (v : Variant) (cmp : Nat → Bytes → Bytes → Bool) (hdr : Bytes) (fs0 : List Field)
    (ds : List (List Field)) (h : ArchOK hdr fs0 ds) (h2 t2 : Bytes) (b : List Field) (hh2 : h2.length = 64)
    (hb : WFs b) (hL : blobLen (diffF v cmp fs0 b) < 2147483648) (hn : ds.length + 1 < 4294967296) :
    append v cmp (archI hdr fs0 ds) (h2 ++ (encFs b ++ (endBytes ++ t2)))
      = some (archI hdr fs0 (ds ++ [diffF v cmp fs0 b])) := by
  unfold append
  rw [appendPlan_archI v cmp hdr fs0 ds h h2 t2 b hh2 hb hL hn]
  simp only [append_shape]

end RV.Bin

namespace RV.Bin

/-- a serialisation as the writer receives it: 64-byte header, fields, END, trailer bytes -/
def streamOf (s : Bytes × List Field × Bytes) : Bytes := s.1 ++ (encFs s.2.1 ++ (endBytes ++ s.2.2))

theorem appends_archI (v : Variant) (cmp : Nat → Bytes → Bytes → Bool) (hdr : Bytes) (fs0 : List Field)
    (strm : List (Bytes × List Field × Bytes)) (ds : List (List Field)) (h : ArchOK hdr fs0 ds)
    (hs : ∀ s ∈ strm, s.1.length = 64 ∧ WFs s.2.1 ∧ BlobOK (diffF v cmp fs0 s.2.1) ∧
        blobLen (diffF v cmp fs0 s.2.1) < 2147483648)
    (hn : ds.length + strm.length < 4294967296) :
    appends v cmp (archI hdr fs0 ds) (strm.map streamOf)
      = some (archI hdr fs0 (ds ++ strm.map (fun s => diffF v cmp fs0 s.2.1))) := by
  induction strm generalizing ds with
  | nil => simp [appends]
  | cons s r ih =>
    obtain ⟨h64, hwf, hbo, hbl⟩ := hs s (List.mem_cons_self ..)
    simp only [List.map_cons, appends, streamOf]
    rw [append_archI v cmp hdr fs0 ds h s.1 s.2.2 s.2.1 h64 hwf hbl (by simp at hn; omega)]
    simp only
    have h' : ArchOK hdr fs0 (ds ++ [diffF v cmp fs0 s.2.1]) := ⟨h.hdr, h.b0, h.s0, h.ver, fun x hx => by
      rcases List.mem_append.mp hx with hx | hx
      · exact h.ds x hx
      · simp only [List.mem_singleton] at hx; subst hx; exact ⟨hbo, hbl⟩⟩
    have := ih (ds ++ [diffF v cmp fs0 s.2.1]) h' (fun x hx => hs x (List.mem_cons_of_mem _ hx))
      (by simp at hn ⊢; omega)
    rw [this]
    simp [List.append_assoc]

/-- **archive = result of the real write protocol**: saving `fs0` to a fresh file and appending the
    serialisations `strm` one after the other (scan of the first blob, corruption test, patch of the
    previous trailer, delta, END, new trailer) yields the well-formed archive of the history -/
theorem appends_archOf (v : Variant) (cmp : Nat → Bytes → Bytes → Bool) (hdr : Bytes) (fs0 : List Field)
    (strm : List (Bytes × List Field × Bytes))
    (h : HistOK v cmp hdr fs0 (strm.map (·.2.1)))
    (hv : v.f1 = true ∨ ∀ b ∈ strm.map (·.2.1), ¬ Vanishes fs0 b)
    (h64 : ∀ s ∈ strm, s.1.length = 64) (hn : strm.length < 4294967296) :
    appends v cmp (encStream hdr fs0) (strm.map streamOf)
      = some (archOf v cmp hdr fs0 (strm.map (·.2.1))) := by
  have h0 : encStream hdr fs0 = archI hdr fs0 [] := by
    simp [encStream, archI, archG, chainG, finIntact, List.append_assoc]
  have hA0 : ArchOK hdr fs0 [] := ⟨h.hdr, h.b0, h.s0, h.ver, fun x hx => by cases hx⟩
  rw [h0, appends_archI v cmp hdr fs0 strm [] hA0 ?_ (by simpa using hn)]
  · simp [archOf, deltas, List.map_map, Function.comp_def]
  · intro s hs
    have hb : s.2.1 ∈ strm.map (·.2.1) := List.mem_map_of_mem hs
    obtain ⟨hbo, hbu, hbt, hbl⟩ := h.each _ hb
    refine ⟨h64 s hs, hbo.wf, diffF_BlobOK v cmp fs0 _ h.b0 hbo hbu ?_ hbt, hbl⟩
    rcases hv with hv | hv
    · exact Or.inl hv
    · exact Or.inr (hv _ hb)

end RV.Bin
