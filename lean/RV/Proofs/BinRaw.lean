/-
  The byte-level delta encoder `diffRaw` (positions pos1/pos2 in two buffers) computes,
  on encodings of well-formed field lists, the encoding of the field-level `diffF`:
  every position the C code uses is a field boundary.
-/
import RV.Proofs.Bin
set_option linter.unusedVariables false
set_option linter.unusedSimpArgs false
namespace RV.Bin

theorem findF_mem (ty : Nat) (b : List Field) (g : Field) (r : List Field)
    (h : findF ty b = some (g, r)) : g ∈ b ∧ g.ty = ty := by
  induction b with
  | nil => simp [findF] at h
  | cons x xs ih =>
    simp only [findF] at h
    by_cases hx : x.ty = ty
    · simp [hx] at h
      rw [← h.1]; exact ⟨List.mem_cons_self .., hx⟩
    · simp [hx] at h
      exact ⟨List.mem_cons_of_mem _ (ih h).1, (ih h).2⟩

theorem WFs_suffix {r b : List Field} (hs : r <:+ b) (hb : WFs b) : WFs r :=
  fun f hf => hb f (hs.subset hf)

theorem searchRaw_enc (ty : Nat) (b : List Field) (t : Bytes) (hb : WFs b) (fuel : Nat)
    (hf : b.length < fuel) :
    searchRaw ty fuel (encFs b ++ (endBytes ++ t)) =
      (findF ty b).map (fun p => (p.1.size, p.1.data ++ (encFs p.2 ++ (endBytes ++ t)))) := by
  induction b generalizing fuel with
  | nil =>
    cases fuel with
    | zero => omega
    | succ n => simp [searchRaw, encFs, readHdr_end, findF]
  | cons g r ih =>
    cases fuel with
    | zero => omega
    | succ n =>
      obtain ⟨hw, hws⟩ := WFs_cons.mp hb
      have hl : r.length < n := by simp at hf; omega
      simp only [encFs, List.append_assoc, searchRaw, findF]
      rw [readHdr_encF g _ hw]
      simp only [hw.ty_ne_end, if_false]
      by_cases hty : g.ty = ty
      · simp [hty]
      · simp only [hty, if_false, hw.size_eq, List.drop_left]
        exact ih hws n hl

theorem enc_len16 (fs : List Field) (t : Bytes) : ¬ ((encFs fs ++ (endBytes ++ t)).length < 16) := by
  simp; omega

/-- what the C code picks as `field2` for a field of type `ty` -/
theorem target_enc (ty : Nat) (b r2 : List Field) (t2 : Bytes) (hb : WFs b) (hr2 : WFs r2)
    (hne : ty ≠ END) :
    (match readHdr (encFs r2 ++ (endBytes ++ t2)) with
     | none => none
     | some (ty2, sz2, p2) =>
        some (if ty = ty2 then some (sz2, p2)
              else searchRaw ty ((encFs b ++ (endBytes ++ t2)).length + 1) (encFs b ++ (endBytes ++ t2))))
    = some ((locate ty b r2).map
        (fun p => (p.1.size, p.1.data ++ (encFs p.2 ++ (endBytes ++ t2))))) := by
  have hs : ∀ ty, searchRaw ty ((encFs b ++ (endBytes ++ t2)).length + 1) (encFs b ++ (endBytes ++ t2))
      = (findF ty b).map (fun p => (p.1.size, p.1.data ++ (encFs p.2 ++ (endBytes ++ t2)))) := by
    intro ty
    apply searchRaw_enc ty b t2 hb
    have := encFs_length_ge b
    simp; omega
  cases r2 with
  | nil =>
    simp only [encFs, List.nil_append, readHdr_end, locate]
    simp only [hne, if_false, hs]
  | cons g r2' =>
    obtain ⟨hw, hws⟩ := WFs_cons.mp hr2
    simp only [encFs, List.append_assoc, locate]
    rw [readHdr_encF g _ hw]
    simp only
    by_cases hty : g.ty = ty
    · simp [hty]
    · have : ¬ ty = g.ty := fun e => hty e.symm
      simp only [this, hty, if_false, hs]

theorem locate_props (ty : Nat) (b r2 : List Field) (hs : r2 <:+ b) (g : Field) (r : List Field)
    (h : locate ty b r2 = some (g, r)) : g ∈ b ∧ g.ty = ty ∧ r <:+ b := by
  cases r2 with
  | nil =>
    simp only [locate] at h
    exact ⟨(findF_mem ty b g r h).1, (findF_mem ty b g r h).2, findF_suffix ty b g r h⟩
  | cons x r2' =>
    simp only [locate] at h
    by_cases hx : x.ty = ty
    · simp [hx] at h
      refine ⟨?_, ?_, ?_⟩
      · rw [← h.1]; exact hs.subset (List.mem_cons_self ..)
      · rw [← h.1]; exact hx
      · rw [← h.2]; exact (List.suffix_cons x r2').trans hs
    · simp [hx] at h
      exact ⟨(findF_mem ty b g r h).1, (findF_mem ty b g r h).2, findF_suffix ty b g r h⟩

theorem loop1Raw_enc (v : Variant) (cmp : Nat → Bytes → Bytes → Bool) (b : List Field)
    (t1 t2 : Bytes) (hb : WFs b) (a r2 : List Field) (ha : WFs a) (hs : r2 <:+ b)
    (fuel : Nat) (hf : a.length < fuel) :
    loop1Raw v cmp (encFs b ++ (endBytes ++ t2)) fuel (encFs a ++ (endBytes ++ t1))
        (encFs r2 ++ (endBytes ++ t2)) = some (encFs (loop1F v cmp b a r2)) := by
  induction a generalizing r2 fuel with
  | nil =>
    cases fuel with
    | zero => omega
    | succ n => simp [loop1Raw, encFs, readHdr_end, loop1F]
  | cons f a' ih =>
    cases fuel with
    | zero => omega
    | succ n =>
      obtain ⟨hw, hws⟩ := WFs_cons.mp ha
      have hl : a'.length < n := by simp at hf; omega
      have hr2 : WFs r2 := WFs_suffix hs hb
      have htgt := target_enc f.ty b r2 t2 hb hr2 hw.ty_ne_end
      simp only [encFs, List.append_assoc, loop1Raw, loop1F]
      rw [readHdr_encF f _ hw]
      simp only [hw.ty_ne_end, if_false, shorter_eq, enc_len16 r2 t2, decide_false,
        Bool.false_eq_true]
      cases hrd : readHdr (encFs r2 ++ (endBytes ++ t2)) with
      | none => rw [hrd] at htgt; simp at htgt
      | some q =>
        obtain ⟨ty2, sz2, p2⟩ := q
        rw [hrd] at htgt
        simp only [Option.some.injEq] at htgt
        simp only [List.append_assoc] at htgt ⊢
        rw [htgt]
        cases hloc : locate f.ty b r2 with
        | none =>
          simp only [Option.map_none, hw.size_eq, List.drop_left]
          rw [ih b hws (List.suffix_refl b) n hl]
          simp [encFs, encF, vanished, hw.size_eq]
        | some q =>
          obtain ⟨g, r2'⟩ := q
          obtain ⟨hgb, hgty, hsuf⟩ := locate_props f.ty b r2 hs g r2' hloc
          have hgw : g.WF := hb g hgb
          simp only [Option.map_some, hw.size_eq, hgw.size_eq, List.drop_left, List.take_left]
          have h1 : ¬ ((f.data ++ (encFs a' ++ (endBytes ++ t1))).length < f.data.length) := by simp
          have h2 : ¬ ((g.data ++ (encFs r2' ++ (endBytes ++ t2))).length < g.data.length) := by simp
          simp only [h1, h2, decide_false, Bool.false_eq_true, or_self, if_false]
          rw [ih r2' hws hsuf n hl]
          simp only [Option.map_some, encFs_append, sameF, hw.size_eq, hgw.size_eq]
          congr 1
          by_cases hsm : (f.data.length == g.data.length && cmp f.ty f.data g.data) = true
          · simp [hsm, encFs]
          · simp only [hsm, Bool.false_eq_true, if_false, encFs, encF, ← hgty, hgw.size_eq]
            simp only [Bool.and_eq_true, beq_iff_eq, ← hgty] at hsm
            simp [hsm, encFs, encF, hgw.size_eq]

theorem aligned_enc (ty : Nat) (r1 : List Field) (hr1 : WFs r1) (t1 : Bytes) (hne : ty ≠ END) :
    (match readHdr (encFs r1 ++ (endBytes ++ t1)) with
     | none => none
     | some (ty1, sz1, p1) => some (if ty1 = ty then some (p1.drop sz1) else none))
    = some ((aligned ty r1).map (fun r => encFs r ++ (endBytes ++ t1))) := by
  cases r1 with
  | nil =>
    simp only [encFs, List.nil_append, readHdr_end, aligned]
    have : ¬ END = ty := fun e => hne e.symm
    simp [this]
  | cons f r1' =>
    obtain ⟨hw, hws⟩ := WFs_cons.mp hr1
    simp only [encFs, List.append_assoc, aligned]
    rw [readHdr_encF f _ hw]
    by_cases hty : f.ty = ty
    · simp [hty, hw.size_eq]
    · simp [hty]

theorem loop2Raw_enc (a : List Field) (t1 t2 : Bytes) (ha : WFs a) (b r1 : List Field)
    (hb : WFs b) (hs : r1 <:+ a) (fuel : Nat) (hf : b.length < fuel) :
    loop2Raw (encFs a ++ (endBytes ++ t1)) fuel (encFs b ++ (endBytes ++ t2))
        (encFs r1 ++ (endBytes ++ t1)) = some (encFs (loop2F a b r1)) := by
  induction b generalizing r1 fuel with
  | nil =>
    cases fuel with
    | zero => omega
    | succ n => simp [loop2Raw, encFs, readHdr_end, loop2F]
  | cons g b' ih =>
    cases fuel with
    | zero => omega
    | succ n =>
      obtain ⟨hw, hws⟩ := WFs_cons.mp hb
      have hl : b'.length < n := by simp at hf; omega
      have hr1 : WFs r1 := WFs_suffix hs ha
      have hal := aligned_enc g.ty r1 hr1 t1 hw.ty_ne_end
      simp only [encFs, List.append_assoc, loop2Raw, loop2F]
      rw [readHdr_encF g _ hw]
      simp only [hw.ty_ne_end, if_false, shorter_eq, enc_len16 r1 t1, decide_false,
        Bool.false_eq_true]
      cases hrd : readHdr (encFs r1 ++ (endBytes ++ t1)) with
      | none => rw [hrd] at hal; simp at hal
      | some q =>
        obtain ⟨ty1, sz1, p1⟩ := q
        rw [hrd] at hal
        simp only [Option.some.injEq] at hal
        simp only [hw.size_eq, List.drop_left, List.take_left]
        by_cases hty : ty1 = g.ty
        · simp only [hty, if_true] at hal ⊢
          cases hali : aligned g.ty r1 with
          | none => rw [hali] at hal; simp at hal
          | some r1' =>
            rw [hali] at hal
            simp only [Option.map_some, Option.some.injEq] at hal
            rw [hal]
            have hsuf : r1' <:+ a := by
              cases r1 with
              | nil => simp [aligned] at hali
              | cons x xs =>
                simp only [aligned] at hali
                by_cases hx : x.ty = g.ty
                · simp [hx] at hali; rw [← hali]; exact (List.suffix_cons x xs).trans hs
                · simp [hx] at hali
            exact ih r1' hws hsuf n hl
        · simp only [hty, if_false] at hal ⊢
          cases hali : aligned g.ty r1 with
          | some r1' => rw [hali] at hal; simp at hal
          | none =>
            have hsr := searchRaw_enc g.ty a t1 ha ((encFs a ++ (endBytes ++ t1)).length + 1)
              (by have := encFs_length_ge a; simp; omega)
            simp only [List.append_assoc] at hsr ⊢
            rw [hsr]
            cases hfa : findF g.ty a with
            | some q =>
              simp only [Option.map_some, Option.isSome_some, if_true, List.nil_append]
              exact ih a hws (List.suffix_refl a) n hl
            | none =>
              have h2 : ¬ ((g.data ++ (encFs b' ++ (endBytes ++ t2))).length < g.data.length) := by simp
              simp only [Option.map_none, Option.isSome_none, Bool.false_eq_true, if_false, h2,
                decide_false]
              rw [ih a hws (List.suffix_refl a) n hl]
              simp [encFs, encF, hw.size_eq]

/-- **raw/field link**: on encodings of well-formed field lists the byte-level encoder with its
    pos1/pos2 logic produces exactly the encoding of the field-level delta. `h1`,`h2` are the two
    64-byte headers; the old buffer ends with its END field, the new one carries its trailer. -/
theorem diffRaw_enc (v : Variant) (cmp : Nat → Bytes → Bytes → Bool) (h1 h2 t2 : Bytes)
    (a b : List Field) (hh1 : h1.length = 64) (hh2 : h2.length = 64) (ha : WFs a) (hb : WFs b) :
    diffRaw v cmp (h1 ++ (encFs a ++ endBytes)) (h2 ++ (encFs b ++ (endBytes ++ t2)))
      = some (encFs (diffF v cmp a b)) := by
  unfold diffRaw
  have e1 : (h1 ++ (encFs a ++ endBytes)).drop 64 = encFs a ++ (endBytes ++ []) := by
    rw [← hh1]; simp
  have e2 : (h2 ++ (encFs b ++ (endBytes ++ t2))).drop 64 = encFs b ++ (endBytes ++ t2) := by
    rw [← hh2]; simp
  have l1 : ¬ ((h1 ++ (encFs a ++ endBytes)).length < 64) := by simp [hh1]
  have l2 : ¬ ((h2 ++ (encFs b ++ (endBytes ++ t2))).length < 64) := by simp [hh2]
  simp only [l1, l2, or_self, if_false, e1, e2]
  rw [loop1Raw_enc v cmp b [] t2 hb a b ha (List.suffix_refl b) _
        (by have := encFs_length_ge a; simp; omega),
      loop2Raw_enc a [] t2 ha b a hb (List.suffix_refl a) _
        (by have := encFs_length_ge b; simp; omega)]
  simp [diffF, encFs_append]


/-! ### the delta-codec law on bytes -/
/-- Full statement of the delta-codec law for source variant `v`: for all well-formed
    serialisations `a`, `b` (unique ids, fields that may be absent are empty in a fresh
    simulation) the encoder produces a delta, and loading `a` then the delta gives, id by id,
    what loading `b` gives. -/
def DeltaLaw (v : Variant) : Prop :=
  ∀ (cmp : Nat → Bytes → Bytes → Bool), CmpExact cmp →
  ∀ (init : State) (h1 h2 t1 t2 rest : Bytes) (a b : List Field),
    h1.length = 64 → h2.length = 64 → WFs a → WFs b → NoHeader a → NoHeader b →
    (ids a).Nodup → (ids b).Nodup →
    (∀ f ∈ a, (∀ g ∈ b, g.ty ≠ f.ty) → init.val f.ty = []) →
    ∃ delta, diffRaw v cmp (h1 ++ (encFs a ++ endBytes)) (h2 ++ (encFs b ++ (endBytes ++ t2))) = some delta ∧
      ∀ k, (applyB (applyB init (encFs a ++ (endBytes ++ t1))) (delta ++ (endBytes ++ rest))).val k
            = (applyB init (encFs b ++ (endBytes ++ t2))).val k

theorem delta_law_bytes (v : Variant) (cmp : Nat → Bytes → Bytes → Bool) (hc : CmpExact cmp)
    (init : State) (h1 h2 t1 t2 rest : Bytes) (a b : List Field)
    (hh1 : h1.length = 64) (hh2 : h2.length = 64) (ha : WFs a) (hb : WFs b)
    (hna : NoHeader a) (hnb : NoHeader b) (ua : (ids a).Nodup) (ub : (ids b).Nodup)
    (hinit : ∀ f ∈ a, (∀ g ∈ b, g.ty ≠ f.ty) → init.val f.ty = [])
    (hv : v.f1 = true ∨ ¬ Vanishes a b) :
    ∃ delta, diffRaw v cmp (h1 ++ (encFs a ++ endBytes)) (h2 ++ (encFs b ++ (endBytes ++ t2))) = some delta ∧
      ∀ k, (applyB (applyB init (encFs a ++ (endBytes ++ t1))) (delta ++ (endBytes ++ rest))).val k
            = (applyB init (encFs b ++ (endBytes ++ t2))).val k := by
  refine ⟨_, diffRaw_enc v cmp h1 h2 t2 a b hh1 hh2 ha hb, ?_⟩
  intro k
  have hD : WFs (diffF v cmp a b) := by
    rw [diffF_eq_spec v cmp a b ub]; exact diffSpec_WF v cmp a b ha hb hv
  have hDn : NoHeader (diffF v cmp a b) := by
    rw [diffF_eq_spec v cmp a b ub]; exact diffSpec_NoHeader v cmp a b hna hnb
  rw [applyB_enc a t1 init ha hna, applyB_enc b t2 init hb hnb, applyB_enc _ rest _ hD hDn]
  exact delta_law_fields v cmp hc init a b ua ub hinit k

theorem deltaLaw_fixed : DeltaLaw Variant.fixed := by
  intro cmp hc init h1 h2 t1 t2 rest a b hh1 hh2 ha hb hna hnb ua ub hinit
  exact delta_law_bytes _ cmp hc init h1 h2 t1 t2 rest a b hh1 hh2 ha hb hna hnb ua ub hinit (Or.inl rfl)

/-- F1: the law is false of the code as it is.  Snapshot `a` holds one 4-byte array (id 104,
    `ri_whfast.p_jh`), `b` holds none: the delta is the bare header "id 104, size 4", and the
    reader takes the first four bytes of the END marker as its payload. -/
theorem deltaLaw_current_false : ¬ DeltaLaw Variant.current := by
  intro h
  have hw : WFs [⟨104, 4, [1, 2, 3, 4]⟩] := by
    intro f hf
    simp only [List.mem_singleton] at hf
    subst hf
    exact ⟨rfl, by decide, by decide, by decide⟩
  obtain ⟨delta, hd, hk⟩ := h (fun _ p q => p == q) (fun _ p q e => by simpa using e) []
    (List.replicate 64 0) (List.replicate 64 0) [] [] [] [⟨104, 4, [1, 2, 3, 4]⟩] []
    rfl rfl hw (by intro f hf; cases hf)
    (by intro f hf; simp only [List.mem_singleton] at hf; subst hf; decide)
    (by intro f hf; cases hf) (by decide) (by decide) (by intro f hf _; rfl)
  rw [diffRaw_enc _ _ _ _ _ _ _ rfl rfl hw (by intro f hf; cases hf)] at hd
  have hd' := (Option.some.inj hd).symm
  subst hd'
  have := hk 104
  revert this
  decide

end RV.Bin
