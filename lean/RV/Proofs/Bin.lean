/-
  Lemmas about the byte-level model `RV/Model/Bin.lean`:
  little-endian integers, field headers, strict parser, delta encoder (position logic =
  look-up specification), payload-level reader.
-/
import RV.Model.Bin
set_option linter.unusedVariables false
set_option linter.unusedSimpArgs false
namespace RV.Bin

/-! ### basic list / integer facts -/
theorem shorter_eq (r : Bytes) (n : Nat) : shorter r n = decide (r.length < n) := by
  induction r generalizing n with
  | nil => cases n <;> simp [shorter]
  | cons a r ih => cases n <;> simp [shorter, ih]

theorem de_le32 (n : Nat) (h : n < 4294967296) : de (le32 n) = n := by
  simp only [de, le32]; omega

theorem de_le64 (n : Nat) (h : n < 18446744073709551616) : de (le64 n) = n := by
  simp only [de, le64]; omega

@[simp] theorem le32_length (n : Nat) : (le32 n).length = 4 := rfl
@[simp] theorem le64_length (n : Nat) : (le64 n).length = 8 := rfl
@[simp] theorem hdrBytes_length (ty sz : Nat) : (hdrBytes ty sz).length = 16 := rfl
@[simp] theorem endBytes_length : endBytes.length = 16 := rfl
@[simp] theorem trailerBytes_length (a b c : Nat) : (trailerBytes a b c).length = 12 := rfl

theorem readHdr_short (r : Bytes) (h : r.length < 16) : readHdr r = none := by
  simp [readHdr, shorter_eq, h]

theorem readHdr_hdr (ty sz : Nat) (r : Bytes) (h1 : ty < 4294967296)
    (h2 : sz < 18446744073709551616) : readHdr (hdrBytes ty sz ++ r) = some (ty, sz, r) := by
  have e1 := de_le32 ty h1
  have e2 := de_le64 sz h2
  simp only [de, le32] at e1
  simp only [de, le64] at e2
  simp only [readHdr, shorter_eq, hdrBytes, le32, le64, List.cons_append, List.nil_append,
    List.length_cons, List.take_succ_cons, List.take_zero, List.drop_succ_cons, List.drop_zero, de]
  simp only [e1, e2]
  have : ¬ (r.length + 1 + 1 + 1 + 1 + 1 + 1 + 1 + 1 + 1 + 1 + 1 + 1 + 1 + 1 + 1 + 1 < 16) := by omega
  simp [this]

/-! ### well-formed fields -/
structure Field.WF (f : Field) : Prop where
  size_eq : f.size = f.data.length
  ty_lt : f.ty < 4294967296
  size_lt : f.size < 18446744073709551616
  ty_ne_end : f.ty ≠ END

def WFs (fs : List Field) : Prop := ∀ f ∈ fs, f.WF

theorem WFs_cons {f : Field} {fs : List Field} : WFs (f :: fs) ↔ f.WF ∧ WFs fs := by
  simp [WFs]

theorem encFs_append (a b : List Field) : encFs (a ++ b) = encFs a ++ encFs b := by
  induction a with
  | nil => rfl
  | cons f a ih => simp [encFs, ih]

theorem encF_length (f : Field) : (encF f).length = 16 + f.data.length := by
  simp [encF]

theorem encFs_length_ge (fs : List Field) : 16 * fs.length ≤ (encFs fs).length := by
  induction fs with
  | nil => simp [encFs]
  | cons f fs ih => simp [encFs, encF_length]; omega

theorem readHdr_encF (f : Field) (r : Bytes) (h : f.WF) :
    readHdr (encF f ++ r) = some (f.ty, f.size, f.data ++ r) := by
  simp only [encF, List.append_assoc]
  exact readHdr_hdr _ _ _ h.ty_lt h.size_lt

theorem readHdr_end (r : Bytes) : readHdr (endBytes ++ r) = some (END, 0, r) := by
  exact readHdr_hdr END 0 r (by decide) (by decide)

/-! ### strict parser: `parse (enc fs) = some fs` -/
theorem parseFs_enc (fs : List Field) (rest : Bytes) (h : WFs fs) (fuel : Nat)
    (hf : fs.length < fuel) :
    parseFs fuel (encFs fs ++ endBytes ++ rest) = some (fs, rest) := by
  induction fs generalizing fuel with
  | nil =>
    cases fuel with
    | zero => omega
    | succ n => simp [parseFs, encFs, readHdr_end]
  | cons f fs ih =>
    cases fuel with
    | zero => omega
    | succ n =>
      obtain ⟨hw, hws⟩ := WFs_cons.mp h
      have hl : fs.length < n := by simp at hf; omega
      simp only [encFs, List.append_assoc, parseFs]
      rw [readHdr_encF f _ hw]
      simp only [hw.ty_ne_end, if_false, shorter_eq]
      have : ¬ ((f.data ++ (encFs fs ++ (endBytes ++ rest))).length < f.size) := by
        simp [hw.size_eq]
      simp only [this, decide_false, Bool.false_eq_true, if_false, hw.size_eq,
        List.drop_left, List.take_left]
      have := ih hws n hl
      simp only [List.append_assoc] at this
      rw [this]
      have := hw.size_eq
      cases f; simp_all

theorem parse_enc (fs : List Field) (rest : Bytes) (h : WFs fs) :
    parse (encFs fs ++ endBytes ++ rest) = some fs := by
  have hl := encFs_length_ge fs
  unfold parse
  rw [parseFs_enc fs rest h]
  · rfl
  · simp; omega


/-! ### payload-level reader -/
def ids (l : List Field) : List Nat := l.map (·.ty)

theorem get_cons (st : State) (k k' : Nat) (d : Bytes) :
    State.get ((k', d) :: st) k = if k = k' then some d else State.get st k := by
  unfold State.get
  rw [List.lookup_cons]
  by_cases h : k = k'
  · simp [h]
  · have : (k == k') = false := by simp [h]
    simp [this, h]

theorem get_applyF_not_mem (st : State) (fs : List Field) (k : Nat)
    (h : ∀ f ∈ fs, f.ty ≠ k) : (applyF st fs).get k = st.get k := by
  induction fs generalizing st with
  | nil => rfl
  | cons g r ih =>
    simp only [applyF]
    rw [ih _ (fun f hf => h f (List.mem_cons_of_mem _ hf)), get_cons]
    have := h g (List.mem_cons_self ..)
    simp [Ne.symm this]

theorem get_applyF_mem (st : State) (fs : List Field) (k : Nat) (d : Bytes)
    (hex : ∃ f ∈ fs, f.ty = k) (hu : ∀ f ∈ fs, f.ty = k → f.data = d) :
    (applyF st fs).get k = some d := by
  induction fs generalizing st with
  | nil => obtain ⟨f, hf, _⟩ := hex; cases hf
  | cons g r ih =>
    simp only [applyF]
    by_cases hr : ∃ f' ∈ r, f'.ty = k
    · exact ih _ hr (fun f hf e => hu f (List.mem_cons_of_mem _ hf) e)
    · have hno : ∀ f' ∈ r, f'.ty ≠ k := fun f' h' e => hr ⟨f', h', e⟩
      rw [get_applyF_not_mem _ _ _ hno, get_cons]
      obtain ⟨f, hf, hty⟩ := hex
      rcases List.mem_cons.mp hf with rfl | hfr
      · simp [hty, ← hu f (List.mem_cons_self ..) hty]
      · exact absurd hty (hno f hfr)

/-! ### delta encoder: position logic = look-up specification -/
theorem findF_fst (ty : Nat) (b : List Field) :
    (findF ty b).map (·.1) = b.find? (fun g => decide (g.ty = ty)) := by
  induction b with
  | nil => rfl
  | cons g r ih =>
    simp only [findF, List.find?_cons]
    by_cases h : g.ty = ty
    · simp [h]
    · simp [h, ih]

theorem findF_suffix (ty : Nat) (b : List Field) (g : Field) (r : List Field)
    (h : findF ty b = some (g, r)) : r <:+ b := by
  induction b with
  | nil => simp [findF] at h
  | cons x xs ih =>
    simp only [findF] at h
    by_cases hx : x.ty = ty
    · simp [hx] at h
      rw [← h.2]; exact List.suffix_cons _ _
    · simp [hx] at h
      exact (ih h).trans (List.suffix_cons _ _)

theorem find_of_mem_nodup (b : List Field) (g : Field) (hn : (ids b).Nodup) (hg : g ∈ b) :
    b.find? (fun x => decide (x.ty = g.ty)) = some g := by
  induction b with
  | nil => cases hg
  | cons x xs ih =>
    simp only [ids, List.map_cons, List.nodup_cons] at hn
    rcases List.mem_cons.mp hg with rfl | hgx
    · simp
    · have hne : x.ty ≠ g.ty := by
        intro e
        apply hn.1
        rw [e]
        exact List.mem_map_of_mem hgx
      simp only [List.find?_cons, hne, decide_false]
      exact ih hn.2 hgx

theorem locate_spec (ty : Nat) (b r2 : List Field) (hn : (ids b).Nodup) (hs : r2 <:+ b) :
    (locate ty b r2).map (·.1) = b.find? (fun g => decide (g.ty = ty)) ∧
    ∀ g r, locate ty b r2 = some (g, r) → r <:+ b := by
  cases r2 with
  | nil => exact ⟨findF_fst ty b, fun g r h => findF_suffix ty b g r h⟩
  | cons g r2' =>
    simp only [locate]
    by_cases h : g.ty = ty
    · simp only [h, if_true, Option.map_some]
      have hg : g ∈ b := hs.subset (List.mem_cons_self ..)
      refine ⟨?_, ?_⟩
      · rw [← h]; exact (find_of_mem_nodup b g hn hg).symm
      · intro g' r' e
        simp at e
        rw [← e.2]
        exact (List.suffix_cons g r2').trans hs
    · simp only [h, if_false]
      exact ⟨findF_fst ty b, fun g r h => findF_suffix ty b g r h⟩

theorem loop1F_spec (v : Variant) (cmp : Nat → Bytes → Bytes → Bool) (a b r2 : List Field)
    (hn : (ids b).Nodup) (hs : r2 <:+ b) :
    loop1F v cmp b a r2 =
      a.flatMap (fun f => match b.find? (fun g => decide (g.ty = f.ty)) with
                      | none => [vanished v f]
                      | some g => if sameF cmp f g then [] else [g]) := by
  induction a generalizing r2 with
  | nil => rfl
  | cons f a' ih =>
    obtain ⟨h1, h2⟩ := locate_spec f.ty b r2 hn hs
    simp only [loop1F, List.flatMap_cons]
    cases hl : locate f.ty b r2 with
    | none =>
      rw [hl] at h1
      simp only [Option.map_none] at h1
      rw [← h1]
      simp only [List.cons_append, List.nil_append]
      rw [ih b (List.suffix_refl b)]
    | some p =>
      obtain ⟨g, r2'⟩ := p
      rw [hl] at h1
      simp only [Option.map_some] at h1
      rw [← h1]
      simp only
      rw [ih r2' (h2 g r2' hl)]

theorem findF_isSome (ty : Nat) (a : List Field) :
    (findF ty a).isSome = a.any (fun f => decide (f.ty = ty)) := by
  induction a with
  | nil => rfl
  | cons x xs ih =>
    simp only [findF, List.any_cons]
    by_cases h : x.ty = ty
    · simp [h]
    · simp [h, ih]

theorem loop2F_spec (a b r1 : List Field) (hs : r1 <:+ a) :
    loop2F a b r1 = b.filter (fun g => !(a.any (fun f => decide (f.ty = g.ty)))) := by
  induction b generalizing r1 with
  | nil => rfl
  | cons g b' ih =>
    simp only [loop2F, List.filter_cons]
    cases hal : aligned g.ty r1 with
    | some r1' =>
      cases r1 with
      | nil => simp [aligned] at hal
      | cons f r1'' =>
        simp only [aligned] at hal
        by_cases hty : f.ty = g.ty
        · simp only [hty, if_true, Option.some.injEq] at hal
          have hf : f ∈ a := hs.subset (List.mem_cons_self ..)
          have hany : a.any (fun f => decide (f.ty = g.ty)) = true := by
            rw [List.any_eq_true]; exact ⟨f, hf, by simp [hty]⟩
          simp only [hany, Bool.not_true, Bool.false_eq_true, if_false]
          rw [← hal]
          exact ih r1'' ((List.suffix_cons f r1'').trans hs)
        · simp [hty] at hal
    | none =>
      simp only
      rw [ih a (List.suffix_refl a), findF_isSome]
      cases a.any (fun f => decide (f.ty = g.ty)) <;> simp

/-- with unique ids in `b`, "field at the aligned position, else scan from the start" is a look-up -/
theorem diffF_eq_spec (v : Variant) (cmp : Nat → Bytes → Bytes → Bool) (a b : List Field)
    (hn : (ids b).Nodup) : diffF v cmp a b = diffSpec v cmp a b := by
  unfold diffF diffSpec
  rw [loop1F_spec v cmp a b b hn (List.suffix_refl b), loop2F_spec a b a (List.suffix_refl a)]
  rfl


/-! ### delta-codec law on field lists -/
/-- the comparison only calls two payloads "same" when they are equal -/
def CmpExact (cmp : Nat → Bytes → Bytes → Bool) : Prop := ∀ ty p q, cmp ty p q = true → p = q

theorem unique_of_nodup (b : List Field) (hn : (ids b).Nodup) (g g' : Field) (hg : g ∈ b)
    (hg' : g' ∈ b) (e : g'.ty = g.ty) : g' = g := by
  have h1 := find_of_mem_nodup b g hn hg
  have h2 := find_of_mem_nodup b g' hn hg'
  rw [e, h1] at h2
  exact (Option.some.inj h2).symm

theorem mem_diffSpec_cases (v : Variant) (cmp : Nat → Bytes → Bytes → Bool) (a b : List Field)
    (e : Field) (h : e ∈ diffSpec v cmp a b) :
    (∃ f ∈ a, e = vanished v f ∧ ∀ g ∈ b, g.ty ≠ f.ty) ∨
    (∃ f ∈ a, e ∈ b ∧ e.ty = f.ty ∧ sameF cmp f e = false) ∨
    (e ∈ b ∧ ∀ f ∈ a, f.ty ≠ e.ty) := by
  unfold diffSpec at h
  rcases List.mem_append.mp h with h | h
  · obtain ⟨f, hf, he⟩ := List.mem_flatMap.mp h
    cases hfind : b.find? (fun g => decide (g.ty = f.ty)) with
    | none =>
      rw [hfind] at he
      simp only [List.mem_singleton] at he
      left
      refine ⟨f, hf, he, ?_⟩
      intro g hg
      have := List.find?_eq_none.mp hfind g hg
      simpa using this
    | some g =>
      rw [hfind] at he
      simp only at he
      by_cases hs : sameF cmp f g = true
      · simp [hs] at he
      · simp only [hs, if_false, List.mem_singleton, Bool.false_eq_true] at he
        right; left
        have hm := List.mem_of_find?_eq_some hfind
        have ht := List.find?_some hfind
        subst he
        exact ⟨f, hf, hm, by simpa using ht, by simpa using hs⟩
  · right; right
    have := List.mem_filter.mp h
    refine ⟨this.1, ?_⟩
    intro f hf hty
    have h2 := this.2
    simp only [Bool.not_eq_true', List.any_eq_false] at h2
    have := h2 f hf
    simp [hty] at this

theorem vanished_mem (v : Variant) (cmp : Nat → Bytes → Bytes → Bool) (a b : List Field)
    (f : Field) (hf : f ∈ a) (hno : ∀ g ∈ b, g.ty ≠ f.ty) : vanished v f ∈ diffSpec v cmp a b := by
  unfold diffSpec
  apply List.mem_append_left
  apply List.mem_flatMap.mpr
  refine ⟨f, hf, ?_⟩
  have : b.find? (fun g => decide (g.ty = f.ty)) = none := by
    apply List.find?_eq_none.mpr
    intro g hg; simpa using hno g hg
  rw [this]; simp

theorem changed_mem (v : Variant) (cmp : Nat → Bytes → Bytes → Bool) (a b : List Field)
    (hn : (ids b).Nodup) (f g : Field) (hf : f ∈ a) (hg : g ∈ b) (hty : g.ty = f.ty)
    (hs : sameF cmp f g = false) : g ∈ diffSpec v cmp a b := by
  unfold diffSpec
  apply List.mem_append_left
  apply List.mem_flatMap.mpr
  refine ⟨f, hf, ?_⟩
  have := find_of_mem_nodup b g hn hg
  rw [hty] at this
  rw [this]; simp [hs]

theorem new_mem (v : Variant) (cmp : Nat → Bytes → Bytes → Bool) (a b : List Field)
    (g : Field) (hg : g ∈ b) (hno : ∀ f ∈ a, f.ty ≠ g.ty) : g ∈ diffSpec v cmp a b := by
  unfold diffSpec
  apply List.mem_append_right
  apply List.mem_filter.mpr
  refine ⟨hg, ?_⟩
  simp only [Bool.not_eq_true', List.any_eq_false]
  intro f hf; simpa using hno f hf

theorem val_def (st : State) (k : Nat) : st.val k = (st.get k).getD [] := rfl

/-- **Delta-codec law** (field level): loading `a`, then the delta `diff a b`, gives — id by id,
    "absent" and "empty" identified — what loading `b` gives. -/
theorem delta_law_fields_gen (v : Variant) (cmp : Nat → Bytes → Bytes → Bool)
    (init : State) (a b : List Field) (ha : (ids a).Nodup) (hb : (ids b).Nodup)
    (hinit : ∀ f ∈ a, (∀ g ∈ b, g.ty ≠ f.ty) → init.val f.ty = [])
    (k : Nat) :
    (applyF (applyF init a) (diffF v cmp a b)).val k = (applyF init b).val k ∨
    ∃ f ∈ a, ∃ g ∈ b, f.ty = k ∧ g.ty = k ∧ sameF cmp f g = true ∧
      (applyF (applyF init a) (diffF v cmp a b)).val k = f.data ∧ (applyF init b).val k = g.data := by
  rw [diffF_eq_spec v cmp a b hb, val_def, val_def]
  by_cases hkb : ∃ g ∈ b, g.ty = k
  · obtain ⟨g, hg, hgk⟩ := hkb
    have hR : (applyF init b).get k = some g.data :=
      get_applyF_mem init b k g.data ⟨g, hg, hgk⟩
        (fun g' hg' e => by rw [unique_of_nodup b hb g g' hg hg' (e.trans hgk.symm)])
    rw [hR]
    -- every entry of the delta with id k carries g.data
    have hD : ∀ e ∈ diffSpec v cmp a b, e.ty = k → e.data = g.data := by
      intro e he hek
      rcases mem_diffSpec_cases v cmp a b e he with ⟨f, hf, rfl, hno⟩ | ⟨f, hf, heb, _, _⟩ | ⟨heb, _⟩
      · exact absurd (hgk.trans hek.symm) (hno g hg)
      · rw [unique_of_nodup b hb g e hg heb (hek.trans hgk.symm)]
      · rw [unique_of_nodup b hb g e hg heb (hek.trans hgk.symm)]
    by_cases hka : ∃ f ∈ a, f.ty = k
    · obtain ⟨f, hf, hfk⟩ := hka
      cases hs : sameF cmp f g with
      | false =>
        have hm := changed_mem v cmp a b hb f g hf hg (hgk.trans hfk.symm) hs
        left
        rw [get_applyF_mem _ _ k g.data ⟨g, hm, hgk⟩ hD]
      | true =>
        have hno : ∀ e ∈ diffSpec v cmp a b, e.ty ≠ k := by
          intro e he hek
          rcases mem_diffSpec_cases v cmp a b e he with ⟨f', hf', rfl, hno⟩ | ⟨f', hf', heb, hty, hsf⟩ | ⟨heb, hno⟩
          · exact absurd (hgk.trans hek.symm) (hno g hg)
          · have e1 := unique_of_nodup b hb g e hg heb (hek.trans hgk.symm)
            have e2 := unique_of_nodup a ha f f' hf hf' ((hty.symm.trans hek).trans hfk.symm)
            subst e1; subst e2
            rw [hs] at hsf; cases hsf
          · exact absurd (hfk.trans hek.symm) (hno f hf)
        rw [get_applyF_not_mem _ _ _ hno]
        rw [get_applyF_mem init a k f.data ⟨f, hf, hfk⟩
          (fun f' hf' e => by rw [unique_of_nodup a ha f f' hf hf' (e.trans hfk.symm)])]
        right
        exact ⟨f, hf, g, hg, hfk, hgk, hs, rfl, rfl⟩
    · have hnoa : ∀ f ∈ a, f.ty ≠ g.ty := fun f hf e => hka ⟨f, hf, e.trans hgk⟩
      have hm := new_mem v cmp a b g hg hnoa
      left
      rw [get_applyF_mem _ _ k g.data ⟨g, hm, hgk⟩ hD]
  · have hnob : ∀ g ∈ b, g.ty ≠ k := fun g hg e => hkb ⟨g, hg, e⟩
    left
    rw [get_applyF_not_mem init b k hnob]
    by_cases hka : ∃ f ∈ a, f.ty = k
    · obtain ⟨f, hf, hfk⟩ := hka
      have hnob' : ∀ g ∈ b, g.ty ≠ f.ty := fun g hg e => hnob g hg (e.trans hfk)
      have hm := vanished_mem v cmp a b f hf hnob'
      have hD : ∀ e ∈ diffSpec v cmp a b, e.ty = k → e.data = [] := by
        intro e he hek
        rcases mem_diffSpec_cases v cmp a b e he with ⟨f', hf', rfl, _⟩ | ⟨f', hf', heb, _, _⟩ | ⟨heb, _⟩
        · rfl
        · exact absurd hek (hnob e heb)
        · exact absurd hek (hnob e heb)
      have hvk : (vanished v f).ty = k := hfk
      rw [get_applyF_mem _ _ k [] ⟨vanished v f, hm, hvk⟩ hD]
      have := hinit f hf hnob'
      rw [val_def, hfk] at this
      simp [this]
    · have hnoa : ∀ f ∈ a, f.ty ≠ k := fun f hf e => hka ⟨f, hf, e⟩
      have hno : ∀ e ∈ diffSpec v cmp a b, e.ty ≠ k := by
        intro e he hek
        rcases mem_diffSpec_cases v cmp a b e he with ⟨f', hf', rfl, _⟩ | ⟨f', hf', heb, _, _⟩ | ⟨heb, _⟩
        · exact hnoa f' hf' hek
        · exact hnob e heb hek
        · exact hnob e heb hek
      rw [get_applyF_not_mem _ _ _ hno, get_applyF_not_mem _ _ _ hnoa]

/-- **Delta-codec law** (field level) for an exact comparison. -/
theorem delta_law_fields (v : Variant) (cmp : Nat → Bytes → Bytes → Bool) (hc : CmpExact cmp)
    (init : State) (a b : List Field) (ha : (ids a).Nodup) (hb : (ids b).Nodup)
    (hinit : ∀ f ∈ a, (∀ g ∈ b, g.ty ≠ f.ty) → init.val f.ty = [])
    (k : Nat) :
    (applyF (applyF init a) (diffF v cmp a b)).val k = (applyF init b).val k := by
  rcases delta_law_fields_gen v cmp init a b ha hb hinit k with h | ⟨f, _, g, _, _, _, hs, e1, e2⟩
  · exact h
  · simp only [sameF, Bool.and_eq_true] at hs
    rw [e1, e2, hc _ _ _ hs.2]


/-! ### reader on encoded bytes -/
def NoHeader (fs : List Field) : Prop := ∀ f ∈ fs, f.ty ≠ HEADER

theorem inputFields_enc (fs : List Field) (rest : Bytes) (st : State) (h : WFs fs)
    (hh : NoHeader fs) (fuel : Nat) (hf : fs.length < fuel) :
    inputFields fuel (encFs fs ++ (endBytes ++ rest)) st = applyF st fs := by
  induction fs generalizing fuel st with
  | nil =>
    cases fuel with
    | zero => omega
    | succ n => simp [inputFields, encFs, readHdr_end, applyF]
  | cons f fs ih =>
    cases fuel with
    | zero => omega
    | succ n =>
      obtain ⟨hw, hws⟩ := WFs_cons.mp h
      have hl : fs.length < n := by simp at hf; omega
      have hnh : f.ty ≠ HEADER := hh f (List.mem_cons_self ..)
      simp only [encFs, List.append_assoc, inputFields]
      rw [readHdr_encF f _ hw]
      simp only [hw.ty_ne_end, hnh, if_false, hw.size_eq, List.drop_left, List.take_left, applyF]
      exact ih _ hws (fun g hg => hh g (List.mem_cons_of_mem _ hg)) n hl

theorem applyB_enc (fs : List Field) (rest : Bytes) (st : State) (h : WFs fs) (hh : NoHeader fs) :
    applyB st (encFs fs ++ (endBytes ++ rest)) = applyF st fs := by
  unfold applyB
  apply inputFields_enc fs rest st h hh
  have := encFs_length_ge fs
  simp; omega

/-- a field of `a` with a non-empty payload has no counterpart in `b` -/
def Vanishes (a b : List Field) : Prop := ∃ f ∈ a, f.size ≠ 0 ∧ ∀ g ∈ b, g.ty ≠ f.ty

theorem vanished_WF (v : Variant) (f : Field) (hw : f.WF) (h : v.f1 = true ∨ f.size = 0) :
    (vanished v f).WF := by
  rcases h with h | h
  · exact ⟨by simp [vanished, h], hw.ty_lt, by simp [vanished, h], hw.ty_ne_end⟩
  · exact ⟨by simp [vanished, h], hw.ty_lt, by simp [vanished, h], hw.ty_ne_end⟩

theorem diffSpec_WF (v : Variant) (cmp : Nat → Bytes → Bytes → Bool) (a b : List Field)
    (ha : WFs a) (hb : WFs b) (hv : v.f1 = true ∨ ¬ Vanishes a b) : WFs (diffSpec v cmp a b) := by
  intro e he
  rcases mem_diffSpec_cases v cmp a b e he with ⟨f, hf, rfl, hno⟩ | ⟨f, hf, heb, _, _⟩ | ⟨heb, _⟩
  · apply vanished_WF v f (ha f hf)
    rcases hv with hv | hv
    · exact Or.inl hv
    · right
      apply Classical.byContradiction
      intro hne
      exact hv ⟨f, hf, hne, hno⟩
  · exact hb e heb
  · exact hb e heb

theorem diffSpec_NoHeader (v : Variant) (cmp : Nat → Bytes → Bytes → Bool) (a b : List Field)
    (ha : NoHeader a) (hb : NoHeader b) : NoHeader (diffSpec v cmp a b) := by
  intro e he
  rcases mem_diffSpec_cases v cmp a b e he with ⟨f, hf, rfl, hno⟩ | ⟨f, hf, heb, _, _⟩ | ⟨heb, _⟩
  · exact ha f hf
  · exact hb e heb
  · exact hb e heb

end RV.Bin
