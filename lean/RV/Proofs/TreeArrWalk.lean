import RV.Proofs.TreeArr
set_option linter.unusedSectionVars false
set_option linter.unusedVariables false
set_option linter.unusedSimpArgs false
namespace RV.C15
open RV RV.Tree RV.Boundary RV.TreeArr

variable {K : Type} [Field K] [LinearOrder K] [IsStrictOrderedRing K] {α : Type}

/-- the pure sweep with an arbitrary keep test (index, cell) -/
def sweepP (keep : Nat → Cell K → Bool) : T K → T K × List Nat
  | .nil => (.nil, [])
  | .leaf c g q => if keep q c then (.leaf c g q, []) else (.nil, [q])
  | .node c g _ ch =>
      (rebuild c g (fun o => (sweepP keep (ch o)).1), (List.finRange 8).flatMap fun o => (sweepP keep (ch o)).2)

theorem flatMap_sublist {ι β : Type} (a b : ι → List β) (h : ∀ o, List.Sublist (a o) (b o)) : ∀ l : List ι,
    List.Sublist (l.flatMap a) (l.flatMap b) := by
  intro l
  induction l with
  | nil => simp
  | cons o l ih => simp only [List.flatMap_cons]; exact (h o).append ih

theorem sweepP_sublist (keep : Nat → Cell K → Bool) : ∀ t : T K, List.Sublist (sweepP keep t).2 (leaves t) := by
  intro t
  induction t with
  | nil => simp [sweepP, leaves]
  | leaf c g q => by_cases h : keep q c = true <;> simp [sweepP, leaves, h]
  | node c g n ch ih => simp only [sweepP, leaves]; exact flatMap_sublist _ _ ih _

theorem sweepP_spec (ps : Nat → Pt K) (keep : Nat → Cell K → Bool) (hk : ∀ q c, keep q c = true → In (ps q) c) :
    ∀ (t : T K) (c : Cell K), Geo c t →
    WF ps false c (sweepP keep t).1 ∧ List.Perm (leaves (sweepP keep t).1 ++ (sweepP keep t).2) (leaves t) := by
  intro t
  induction t with
  | nil => intro c _; simp [sweepP, leaves, WF]
  | leaf c0 g q =>
    intro c h
    simp only [Geo] at h
    subst h
    by_cases hi : keep q c0 = true
    · simp only [sweepP, hi, if_true]
      exact ⟨⟨rfl, hk _ _ hi⟩, by simp [leaves]⟩
    · simp only [sweepP, hi]
      exact ⟨trivial, by simp [leaves]⟩
  | node c0 g n0 ch ih =>
    intro c h
    obtain ⟨hc, hgeo⟩ := h
    subst hc
    have IH := fun o => ih o _ (hgeo o)
    obtain ⟨hwf, hp⟩ := rebuild_spec ps c0 g (fun o => (sweepP keep (ch o)).1) (fun o => (IH o).1)
    simp only [sweepP]
    refine ⟨hwf, ?_⟩
    refine (List.Perm.append_right _ hp).trans ?_
    refine (flatMap_append_perm _ _ _).symm.trans ?_
    exact flatMap_perm_congr _ _ (fun o => (IH o).2) _

/-- sequential map: if every element, started in the state reached so far, returns `g o` and advances the state by `e o` -/
theorem mapStL_spec {ι σ β : Type} (f : ι → σ → Option (β × σ)) (S : List Nat → σ) (g : ι → β) (e : ι → List Nat) :
    ∀ (l : List ι) (E : List Nat),
    (∀ l1 o l2, l = l1 ++ o :: l2 → f o (S (E ++ l1.flatMap e)) = some (g o, S (E ++ l1.flatMap e ++ e o))) →
    mapStL f l (S E) = some (l.map g, S (E ++ l.flatMap e)) := by
  intro l
  induction l with
  | nil => intro E _; simp [mapStL]
  | cons o l ih =>
    intro E h
    have h0 := h [] o l rfl
    simp only [List.flatMap_nil, List.append_nil] at h0
    have ht := ih (E ++ e o) (by
      intro l1 o' l2 hl
      have := h (o :: l1) o' l2 (by rw [hl]; rfl)
      simpa [List.flatMap_cons, List.append_assoc] using this)
    simp only [mapStL, h0, ht, List.map_cons, List.flatMap_cons, List.append_assoc]


/-- the walk's leaf test, in terms of the particle the leaf held when the walk began -/
def keepOf (pos : α → Pt K) (flagged : α → Bool) (arr0 : List α) (q : Nat) (c : Cell K) : Bool :=
  match arr0[q]? with
  | some p => inside (pos p) c && !flagged p
  | none => false

theorem getD_map_finRange {β : Type} (g : Fin 8 → β) (d : β) (o : Fin 8) :
    ((List.finRange 8).map g).getD o.val d = g o := by
  simp [List.getD_eq_getElem?_getD]

/-- the stateful walk over the array = the pure sweep, with the array/log/buffer obtained by evicting the swept-out
    indices in pre-order -/
theorem walkA_eq (pos : α → Pt K) (flagged : α → Bool) (arr0 : List α) : ∀ (t : T K) (E : List Nat),
    (E ++ leaves t).Nodup → (∀ x ∈ E ++ leaves t, x < arr0.length) →
    walkA pos flagged t (evState flagged arr0 E) =
      some ((sweepP (keepOf pos flagged arr0) t).1,
            evState flagged arr0 (E ++ (sweepP (keepOf pos flagged arr0) t).2)) := by
  intro t
  induction t with
  | nil => intro E _ _; simp [walkA, sweepP]
  | leaf c g p0 =>
    intro E hn hb
    have hnE := (List.nodup_append.mp hn).1
    have hp0 : p0 ∉ E := by
      intro hm
      exact (List.nodup_append.mp hn).2.2 p0 hm p0 (by simp [leaves]) rfl
    have hp0b : p0 < arr0.length := hb p0 (by simp [leaves])
    have inv := ArrInv_evState flagged arr0 E hnE (fun e he => hb e (by simp [he]))
    obtain ⟨_, hget⟩ := inv.get p0 hp0b hp0
    have hp : arr0[p0]? = some arr0[p0] := List.getElem?_eq_getElem hp0b
    rw [hp] at hget
    simp only [walkA, hget, sweepP, keepOf, hp]
    by_cases hk : (inside (pos arr0[p0]) c && !flagged arr0[p0]) = true
    · simp [hk]
    · have hk' : (inside (pos arr0[p0]) c && !flagged arr0[p0]) = false := by
        cases h : (inside (pos arr0[p0]) c && !flagged arr0[p0]) <;> simp_all
      simp only [hk', Bool.false_eq_true, if_false]
      rw [evState_snoc]
      simp [evStep, hget]
  | node c g n ch ih =>
    intro E hn hb
    set keep := keepOf pos flagged arr0 with hkeep
    have hspec := mapStL_spec (fun o s => walkA pos flagged (ch o) s) (evState flagged arr0)
      (fun o => (sweepP keep (ch o)).1) (fun o => (sweepP keep (ch o)).2) (List.finRange 8) E (by
        intro l1 o l2 hl
        have hsub : List.Sublist (E ++ l1.flatMap (fun o => (sweepP keep (ch o)).2) ++ leaves (ch o))
            (E ++ leaves (.node c g n ch)) := by
          simp only [leaves, hl, List.flatMap_append, List.flatMap_cons, List.append_assoc]
          apply List.Sublist.append (List.Sublist.refl _)
          apply List.Sublist.append (flatMap_sublist _ _ (fun o => sweepP_sublist keep (ch o)) _)
          exact List.sublist_append_left _ _
        have := ih o (E ++ l1.flatMap (fun o => (sweepP keep (ch o)).2)) (hn.sublist hsub)
          (fun x hx => hb x (hsub.subset hx))
        simpa [List.append_assoc] using this)
    simp only [walkA, hspec, sweepP]
    have hfun : (fun o : Fin 8 => (List.map (fun o => (sweepP keep (ch o)).1) (List.finRange 8)).getD o.val T.nil) =
        fun o => (sweepP keep (ch o)).1 := by
      funext o
      exact getD_map_finRange _ _ o
    rw [hfun]

end RV.C15
