import RV.Model.Integrate
import RV.Proofs.Field
import Mathlib.Algebra.Order.Field.Basic
import Mathlib.Algebra.Order.AbsoluteValue.Basic
import Mathlib.Tactic.Linarith
import Mathlib.Tactic.NormNum
import Mathlib.Algebra.Order.Floor.Ring
/-
  Exact-arithmetic instance of RV/Model/Integrate.lean (any linearly ordered field) and the
  lemmas behind RV/Props/C08.lean.
-/
set_option linter.unusedSectionVars false
set_option linter.unusedVariables false
set_option linter.unusedSimpArgs false
set_option linter.unnecessarySimpa false
namespace RV.Integrate
open RV
variable {K : Type} [Field K] [LinearOrder K] [IsStrictOrderedRing K]

instance fieldScalarO : ScalarO K :=
  { toScalar := fieldScalar, lt := fun a b => decide (a < b), le := fun a b => decide (a ≤ b) }

/-- in a field there is no negative zero: `signbit x ↔ x < 0`; `fabs` is `|·|`; the two literals
    are the rationals they denote -/
instance fieldScalarS : ScalarS K :=
  { toScalarO := fieldScalarO, signbit := fun x => decide (x < 0), fabs := fun x => |x|,
    c1em12 := 1 / 10 ^ 12, c1em200 := 1 / 10 ^ 200 }

@[simp] theorem feq_iff (a b : K) : feq a b = decide (a = b) := by
  simp only [feq, ScalarO.le]
  by_cases h : a = b
  · simp [h]
  · simp [h]
    intro h1
    exact lt_of_le_of_ne h1 h
@[simp] theorem fne_iff (a b : K) : fne a b = decide (a ≠ b) := by simp [fne]
@[simp] theorem fge_iff (a b : K) : fge a b = decide (b ≤ a) := rfl
@[simp] theorem fgt_iff (a b : K) : fgt a b = decide (b < a) := rfl
@[simp] theorem slt_iff (a b : K) : ScalarO.lt a b = decide (a < b) := rfl
@[simp] theorem sle_iff (a b : K) : ScalarO.le a b = decide (a ≤ b) := rfl
@[simp] theorem sfabs (a : K) : ScalarS.fabs a = |a| := rfl
@[simp] theorem sc12 : (ScalarS.c1em12 : K) = 1 / 10 ^ 12 := rfl
@[simp] theorem sc200 : (ScalarS.c1em200 : K) = 1 / 10 ^ 200 := rfl

theorem copysign_def (a b : K) : copysign a b = if (a < 0 ↔ b < 0) then a else -a := by
  simp only [copysign, ScalarS.signbit]
  by_cases ha : a < 0 <;> by_cases hb : b < 0 <;> simp [ha, hb]

theorem copysign_pos (a : K) : copysign a 1 = |a| := by
  rw [copysign_def]
  by_cases ha : a < 0
  · simp [ha, abs_of_neg ha]
  · simp [ha, abs_of_nonneg (not_lt.mp ha)]

theorem copysign_neg (a : K) : copysign a (-1) = -|a| := by
  rw [copysign_def]
  by_cases ha : a < 0
  · simp [ha, abs_of_neg ha]
  · simp [ha, abs_of_nonneg (not_lt.mp ha)]

/-- `copysign(1., dt)` is the direction `sg` whenever `dt` points in direction `sg` -/
theorem copysign_one_dir {d sg : K} (hsg : sg = 1 ∨ sg = -1) (hd : 0 < d * sg) :
    copysign 1 d = sg := by
  rw [copysign_def]
  rcases hsg with rfl | rfl
  · have : 0 < d := by simpa using hd
    simp [not_lt.mpr this.le]
  · have : d < 0 := by linarith
    simp [this]

/-- direction of integration as a number: `+1` forward, `-1` backward -/
def dirOf (t tmax : K) : K := if t < tmax then 1 else -1

theorem dirOf_cases (t tmax : K) : dirOf t tmax = 1 ∨ dirOf t tmax = -1 := by
  unfold dirOf; split_ifs <;> simp

theorem dirOf_mul_self (t tmax : K) : dirOf t tmax * dirOf t tmax = 1 := by
  rcases dirOf_cases t tmax with h | h <;> simp [h]

theorem dirOf_mul_pos {t tmax : K} (h : tmax ≠ t) : 0 < (tmax - t) * dirOf t tmax := by
  unfold dirOf
  split_ifs with h1
  · linarith
  · have : tmax < t := lt_of_le_of_ne (not_lt.mp h1) h
    linarith

theorem dirOf_abs {t tmax : K} (h : tmax ≠ t) : (tmax - t) * dirOf t tmax = |tmax - t| := by
  unfold dirOf
  split_ifs with h1
  · rw [abs_of_pos (by linarith)]; ring
  · have : tmax < t := lt_of_le_of_ne (not_lt.mp h1) h
    rw [abs_of_neg (by linarith)]; ring

/-- the threshold of rebound.c:685-688 -/
def tscale (tmax : K) : K :=
  if 1 / 10 ^ 12 * |tmax| < 1 / 10 ^ 200 then 1 / 10 ^ 12 else 1 / 10 ^ 12 * |tmax|

/-! ### flags -/

/-- no exit condition at this boundary and at least one particle -/
def Flags.Clear (f : Flags) : Prop :=
  (f.collision = false ∧ f.user = false ∧ f.escape = false ∧ f.encounter = false ∧
   f.sigint = false ∧ f.errMsg = false ∧ f.n ≠ 0) ∧ f.stepError = false

theorem runHeartbeat_clear (s : Sim K) (f : Flags) (h : f.Clear) : runHeartbeat s f = s := by
  obtain ⟨⟨h1, h2, h3, h4, h5, h6, h7⟩, h8⟩ := h
  simp [runHeartbeat, h2, h3, h4]

/-- one step whose boundary has no exit condition -/
def stepped (step : StepFn K) (k : Nat) (s : Sim K) : Sim K :=
  { s with t := (step k s.t s.dt s.dtLastDone).t, dt := (step k s.t s.dt s.dtLastDone).dt,
           dtLastDone := (step k s.t s.dt s.dtLastDone).dld, stepsDone := s.stepsDone + 1,
           hist := ⟨s.t, s.dt, (step k s.t s.dt s.dtLastDone).t, (step k s.t s.dt s.dtLastDone).dt,
                    (step k s.t s.dt s.dtLastDone).dld, s.status⟩ :: s.hist }

@[simp] theorem stepped_t (step : StepFn K) (k : Nat) (s : Sim K) :
    (stepped step k s).t = (step k s.t s.dt s.dtLastDone).t := rfl
@[simp] theorem stepped_dt (step : StepFn K) (k : Nat) (s : Sim K) :
    (stepped step k s).dt = (step k s.t s.dt s.dtLastDone).dt := rfl
@[simp] theorem stepped_dld (step : StepFn K) (k : Nat) (s : Sim K) :
    (stepped step k s).dtLastDone = (step k s.t s.dt s.dtLastDone).dld := rfl
@[simp] theorem stepped_status (step : StepFn K) (k : Nat) (s : Sim K) :
    (stepped step k s).status = s.status := rfl
@[simp] theorem stepped_exact (step : StepFn K) (k : Nat) (s : Sim K) :
    (stepped step k s).exactFinish = s.exactFinish := rfl
@[simp] theorem stepped_steps (step : StepFn K) (k : Nat) (s : Sim K) :
    (stepped step k s).stepsDone = s.stepsDone + 1 := rfl
@[simp] theorem stepped_syncs (step : StepFn K) (k : Nat) (s : Sim K) :
    (stepped step k s).syncs = s.syncs := rfl
@[simp] theorem stepped_nOdes (step : StepFn K) (k : Nat) (s : Sim K) :
    (stepped step k s).nOdes = s.nOdes := rfl
@[simp] theorem stepped_isBS (step : StepFn K) (k : Nat) (s : Sim K) :
    (stepped step k s).isBS = s.isBS := rfl
@[simp] theorem stepped_hist (step : StepFn K) (k : Nat) (s : Sim K) :
    (stepped step k s).hist =
      ⟨s.t, s.dt, (step k s.t s.dt s.dtLastDone).t, (step k s.t s.dt s.dtLastDone).dt,
        (step k s.t s.dt s.dtLastDone).dld, s.status⟩ :: s.hist := rfl

theorem stepAndBeat_clear (step : StepFn K) (k : Nat) (s : Sim K) (f : Flags) (h : f.Clear) :
    stepAndBeat step k s f = stepped step k s := by
  obtain ⟨⟨h1, h2, h3, h4, h5, h6, h7⟩, h8⟩ := h
  simp [stepAndBeat, runHeartbeat, h1, h2, h3, h4, h5, h8, stepped]

/-! ### reb_check_exit, normal form while RUNNING / LAST_STEP -/

theorem checkExit_run (s : Sim K) (tmax lf : K) (f : Flags)
    (hs : s.status = -1 ∨ s.status = -2) (he : f.errMsg = false) (hn : f.n ≠ 0) :
    checkExit s tmax false lf f =
      (if s.exactFinish = 1 then
        if tmax * copysign 1 s.dt ≤ (s.t + s.dt) * copysign 1 s.dt then
          if s.t = tmax then CE.ret { s with status := 0 } lf
          else if s.status = -2 then
            if |s.t - tmax| < tscale tmax then CE.ret { s with status := 0 } lf
            else CE.ret { s with syncs := s.syncs + 1, dt := tmax - s.t } lf
          else CE.ret { s with status := -2, syncs := s.syncs + 1, dt := tmax - s.t }
                 (if s.dtLastDone ≠ 0 then s.dtLastDone else lf)
        else if s.status = -2 then CE.ret { s with status := -1 } lf else CE.ret s lf
      else if tmax * copysign 1 s.dt ≤ s.t * copysign 1 s.dt then CE.ret { s with status := 0 } lf
        else CE.ret s lf) := by
  rcases hs with hs | hs
  · simp [checkExit, checkExitCore, exitCountdown, exitTime, exitNoParticles, hs, he, hn, Status.code]
    split_ifs <;> rfl
  · simp [checkExit, checkExitCore, exitCountdown, exitTime, exitNoParticles, hs, he, hn, Status.code, tscale]
    split_ifs <;> rfl

/-! ### fixed-step integrators -/

/-- what the state machine needs to know about a fixed-step integrator: time advances by `dt`,
    `dt` is not touched, `dt_last_done` is set to `dt` or not written at all (JANUS) -/
def IsFixed (step : StepFn K) : Prop :=
  ∀ k t dt dld, (step k t dt dld).t = t + dt ∧ (step k t dt dld).dt = dt ∧
    ((step k t dt dld).dld = dt ∨ (step k t dt dld).dld = dld)

theorem isFixed_once : IsFixed (stepOnce : StepFn K) := by
  intro k t dt dld; simp [stepOnce]

theorem isFixed_halves : IsFixed (stepHalves : StepFn K) := by
  intro k t dt dld
  refine ⟨?_, rfl, Or.inl rfl⟩
  simp only [stepHalves, sc_hadd, sc_hdiv, sc_ofNat]
  push_cast
  linarith [add_halves dt]

theorem isFixed_janus : IsFixed (stepJanus : StepFn K) := by
  intro k t dt dld; simp [stepJanus]

/-- the sequence of step calls recorded in the ghost history: (time before, dt used, time after),
    newest first -/
def stepSeq (s : Sim K) : List (K × K × K) := s.hist.map (fun b => (b.t0, b.dt0, b.t1))

/-- `n` consecutive steps of size `d` starting at `t`, newest first -/
def seqOf (t d : K) : Nat → List (K × K × K)
  | 0 => []
  | n + 1 => seqOf (t + d) d n ++ [(t, d, t + d)]

theorem seqOf_length (t d : K) (n : Nat) : (seqOf t d n).length = n := by
  induction n generalizing t with
  | zero => rfl
  | succ n ih => simp [seqOf, ih]

theorem seqOf_add (t d : K) (a b : Nat) :
    seqOf t d (a + b) = seqOf (t + a * d) d b ++ seqOf t d a := by
  induction a generalizing t with
  | zero => simp [seqOf]
  | succ a ih =>
    have : a + 1 + b = (a + b) + 1 := by omega
    have e : t + d + (a : K) * d = t + ((a + 1 : ℕ) : K) * d := by push_cast; ring
    rw [this, seqOf, ih (t + d), seqOf, ← List.append_assoc, e]

theorem seqOf_mem (t d : K) (n : Nat) (e : K × K × K) (h : e ∈ seqOf t d n) :
    e.2.1 = d ∧ e.2.2 = e.1 + d := by
  induction n generalizing t with
  | zero => simp [seqOf] at h
  | succ n ih =>
    simp only [seqOf, List.mem_append, List.mem_singleton] at h
    rcases h with h | h
    · exact ih _ h
    · subst h; simp

theorem loop_succ (step : StepFn K) (env : Nat → Flags) (tmax : K) (inf : Bool) (fuel k : Nat)
    (s : Sim K) (lf : K) :
    loop step env tmax inf (fuel + 1) k s lf =
      match checkExit s tmax inf lf (env k) with
      | .blocked s' => (.blocked s', lf)
      | .ret s' lf' =>
        if s'.status < 0 then
          loop step env tmax inf fuel (k + 1) (stepAndBeat step k s' (env (k + 1))) lf'
        else (.done s', lf') := rfl

theorem loop_of_ret_neg (step : StepFn K) (env : Nat → Flags) (tmax : K) (inf : Bool) (fuel k : Nat)
    (s s' : Sim K) (lf lf' : K) (h : checkExit s tmax inf lf (env k) = .ret s' lf')
    (hneg : s'.status < 0) :
    loop step env tmax inf (fuel + 1) k s lf =
      loop step env tmax inf fuel (k + 1) (stepAndBeat step k s' (env (k + 1))) lf' := by
  rw [loop_succ, h]; simp [hneg]

theorem loop_of_ret_done (step : StepFn K) (env : Nat → Flags) (tmax : K) (inf : Bool) (fuel k : Nat)
    (s s' : Sim K) (lf lf' : K) (h : checkExit s tmax inf lf (env k) = .ret s' lf')
    (hpos : ¬ s'.status < 0) :
    loop step env tmax inf (fuel + 1) k s lf = (.done s', lf') := by
  rw [loop_succ, h]; simp [hpos]

/-- exact_finish_time ≠ 1, fixed step: the loop stops at the first boundary at or past `tmax` -/
theorem loop_nonexact (step : StepFn K) (hfix : IsFixed step) (env : Nat → Flags)
    (henv : ∀ k, (env k).Clear) (tmax d sg : K) (hsg : sg = 1 ∨ sg = -1) (hd : 0 < d * sg) :
    ∀ (n : Nat) (s : Sim K) (k : Nat) (lf : K), s.status = -1 → s.exactFinish ≠ 1 → s.dt = d →
      (∀ j : Nat, j < n → (s.t + j * d) * sg < tmax * sg) → tmax * sg ≤ (s.t + n * d) * sg →
      ∀ fuel, n + 1 ≤ fuel → ∃ s', loop step env tmax false fuel k s lf = (.done s', lf) ∧
        s'.t = s.t + n * d ∧ s'.dt = d ∧ s'.status = 0 ∧ s'.stepsDone = s.stepsDone + n ∧
        s'.exactFinish = s.exactFinish ∧ s'.syncs = s.syncs ∧
        stepSeq s' = seqOf s.t d n ++ stepSeq s := by
  intro n
  induction n with
  | zero =>
    intro s k lf hst hex hdt hfirst hpast fuel hfuel
    obtain ⟨f, rfl⟩ : ∃ f, fuel = f + 1 := ⟨fuel - 1, by omega⟩
    have hc := copysign_one_dir hsg (by rw [← hdt] at hd; exact hd)
    have hp : tmax * sg ≤ s.t * sg := by simpa using hpast
    rw [loop_succ, checkExit_run s tmax lf (env k) (Or.inl hst) (henv k).1.2.2.2.2.2.1 (henv k).1.2.2.2.2.2.2]
    simp [hex, hc, hp]
    simp [seqOf, hdt, stepSeq]
  | succ n ih =>
    intro s k lf hst hex hdt hfirst hpast fuel hfuel
    obtain ⟨f, rfl⟩ : ∃ f, fuel = f + 1 := ⟨fuel - 1, by omega⟩
    have hc := copysign_one_dir hsg (by rw [← hdt] at hd; exact hd)
    have h0 : ¬ (tmax * sg ≤ s.t * sg) := by
      have := hfirst 0 (by omega)
      simp at this
      exact not_le.mpr this
    rw [loop_succ, checkExit_run s tmax lf (env k) (Or.inl hst) (henv k).1.2.2.2.2.2.1 (henv k).1.2.2.2.2.2.2]
    simp only [hex, if_false, hc, h0]
    simp only [hst]
    rw [if_pos (by norm_num)]
    obtain ⟨e1, e2, e3⟩ := hfix k s.t s.dt s.dtLastDone
    rw [stepAndBeat_clear step k s (env (k + 1)) (henv (k + 1))]
    have t1 : (stepped step k s).t = s.t + d := by rw [stepped_t, e1, hdt]
    have d1 : (stepped step k s).dt = d := by rw [stepped_dt, e2, hdt]
    have := ih (stepped step k s) (k + 1) lf (by simpa using hst) (by simpa using hex) d1
               (by
                 intro j hj
                 have := hfirst (j + 1) (by omega)
                 push_cast at this
                 have e : s.t + d + (j : K) * d = s.t + ((j : K) + 1) * d := by ring
                 rw [t1, e]; exact this)
               (by
                 push_cast at hpast
                 have e : s.t + d + (n : K) * d = s.t + ((n : K) + 1) * d := by ring
                 rw [t1, e]; exact hpast)
               f (by omega)
    obtain ⟨s', h1, h2, h3, h4, h5, h6, h7, h8⟩ := this
    refine ⟨s', h1, ?_, h3, h4, ?_, h6, h7, ?_⟩
    · rw [h2, t1]; push_cast; ring
    · rw [h5]; simp; omega
    · rw [h8, t1]
      have e1' := e1
      rw [hdt] at e1'
      simp only [stepSeq, seqOf, stepped_hist, List.map_cons, List.append_assoc, List.singleton_append,
        hdt, e1']

/-- what a step recorded in the ghost history must look like in a well-behaved run towards `tmax`
    in direction `sg` with user step `d`: it advances time by the step size it was called with, in
    the direction of integration, by no more than `|d|`, and does not pass `tmax` -/
def GoodBeat (tmax d sg : K) (b : Beat K) : Prop :=
  b.t1 = b.t0 + b.dt0 ∧ 0 < b.dt0 * sg ∧ b.dt0 * sg ≤ d * sg ∧ b.t1 * sg ≤ tmax * sg

/-- exact_finish_time = 1, fixed step, `n·|d| < |tmax − t| ≤ (n+1)·|d|`: exactly `n+1` more steps,
    the last one shrunk to `tmax − t`, ending at `t = tmax` exactly with status SUCCESS and
    `last_full_dt = d` -/
theorem loop_exact (step : StepFn K) (hfix : IsFixed step) (env : Nat → Flags)
    (henv : ∀ k, (env k).Clear) (tmax d sg : K) (hsg : sg = 1 ∨ sg = -1) (hd : 0 < d * sg) :
    ∀ (n : Nat) (s : Sim K) (k : Nat), s.status = -1 → s.exactFinish = 1 → s.dt = d →
      (s.dtLastDone = 0 ∨ s.dtLastDone = d) →
      (n : K) * (d * sg) < (tmax - s.t) * sg → (tmax - s.t) * sg ≤ ((n : K) + 1) * (d * sg) →
      ∀ fuel, n + 2 ≤ fuel → ∃ s', loop step env tmax false fuel k s d = (.done s', d) ∧
        s'.t = tmax ∧ s'.status = 0 ∧ s'.stepsDone = s.stepsDone + (n + 1) ∧ s'.exactFinish = 1 ∧
        s'.hist.length = s.hist.length + (n + 1) ∧
        (∀ b ∈ s'.hist, b ∈ s.hist ∨ GoodBeat tmax d sg b) := by
  intro n
  induction n with
  | zero =>
    intro s k hst hex hdt hdld hlo hhi fuel hfuel
    obtain ⟨f, rfl⟩ : ∃ f, fuel = f + 2 := ⟨fuel - 2, by omega⟩
    have hc := copysign_one_dir hsg (by rw [← hdt] at hd; exact hd)
    simp only [Nat.cast_zero, zero_mul, zero_add, one_mul] at hlo hhi
    have hne : s.t ≠ tmax := by
      intro h; rw [h] at hlo; simp at hlo
    have hnear : tmax * sg ≤ (s.t + s.dt) * sg := by rw [hdt]; nlinarith
    have hlf : (if s.dtLastDone ≠ 0 then s.dtLastDone else d) = d := by
      rcases hdld with h | h <;> simp [h]
    have hce : checkExit s tmax false d (env k) =
        .ret { s with status := -2, syncs := s.syncs + 1, dt := tmax - s.t } d := by
      rw [checkExit_run s tmax d (env k) (Or.inl hst) (henv k).1.2.2.2.2.2.1 (henv k).1.2.2.2.2.2.2]
      simp only [hex, if_true, hc, hnear, hne, if_false, hst, hlf]
      simp
    rw [loop_of_ret_neg step env tmax false (f + 1) k s _ d d hce (by norm_num)]
    rw [stepAndBeat_clear step k _ (env (k + 1)) (henv (k + 1))]
    obtain ⟨e1, e2, e3⟩ := hfix k s.t (tmax - s.t) s.dtLastDone
    have t2 : (step k s.t (tmax - s.t) s.dtLastDone).t = tmax := by rw [e1]; ring
    have hc2 : copysign 1 (tmax - s.t) = sg := copysign_one_dir hsg hlo
    have hnear2 : tmax * sg ≤ (tmax + (tmax - s.t)) * sg := by nlinarith
    have hce2 : checkExit (stepped step k { s with status := -2, syncs := s.syncs + 1, dt := tmax - s.t })
        tmax false d (env (k + 1)) =
        .ret { stepped step k { s with status := -2, syncs := s.syncs + 1, dt := tmax - s.t } with status := 0 } d := by
      rw [checkExit_run _ tmax d (env (k + 1)) (Or.inr (by simp)) (henv (k + 1)).1.2.2.2.2.2.1
        (henv (k + 1)).1.2.2.2.2.2.2]
      simp only [stepped_exact, stepped_t, stepped_dt, stepped_status, hex, if_true, e2, hc2, t2, hnear2]
    rw [loop_of_ret_done step env tmax false f (k + 1) _ _ d d hce2 (by norm_num)]
    refine ⟨_, rfl, t2, rfl, ?_, hex, ?_, ?_⟩
    · simp
    · simp
    · intro b hb
      simp only [stepped_hist, List.mem_cons] at hb
      rcases hb with hb | hb
      · right
        subst hb
        refine ⟨?_, ?_, ?_, ?_⟩
        · simp [t2]
        · simpa using hlo
        · simpa using hhi
        · simp [t2]
      · left; exact hb
  | succ n ih =>
    intro s k hst hex hdt hdld hlo hhi fuel hfuel
    obtain ⟨f, rfl⟩ : ∃ f, fuel = f + 1 := ⟨fuel - 1, by omega⟩
    have hc := copysign_one_dir hsg (by rw [← hdt] at hd; exact hd)
    have hn0 : (0 : K) ≤ n := Nat.cast_nonneg n
    push_cast at hlo hhi
    have hfar : ¬ (tmax * sg ≤ (s.t + s.dt) * sg) := by
      rw [hdt, not_le]; nlinarith
    have hce : checkExit s tmax false d (env k) = .ret s d := by
      rw [checkExit_run s tmax d (env k) (Or.inl hst) (henv k).1.2.2.2.2.2.1 (henv k).1.2.2.2.2.2.2]
      simp only [hex, if_true, hc, hfar, if_false, hst]
      simp
    rw [loop_of_ret_neg step env tmax false f k s s d d hce (by rw [hst]; norm_num)]
    rw [stepAndBeat_clear step k s (env (k + 1)) (henv (k + 1))]
    obtain ⟨e1, e2, e3⟩ := hfix k s.t s.dt s.dtLastDone
    have t1 : (stepped step k s).t = s.t + d := by rw [stepped_t, e1, hdt]
    have d1 : (stepped step k s).dt = d := by rw [stepped_dt, e2, hdt]
    have l1 : (stepped step k s).dtLastDone = 0 ∨ (stepped step k s).dtLastDone = d := by
      rw [stepped_dld]
      rcases e3 with h | h
      · right; rw [h, hdt]
      · rw [h]; exact hdld
    have := ih (stepped step k s) (k + 1) (by simpa using hst) (by simpa using hex) d1 l1
      (by rw [t1]; nlinarith) (by rw [t1]; nlinarith) f (by omega)
    obtain ⟨s', h1, h2, h3, h4, h5, h6, h7⟩ := this
    refine ⟨s', h1, h2, h3, ?_, h5, ?_, ?_⟩
    · rw [h4]; simp; omega
    · rw [h6]; simp; omega
    · intro b hb
      rcases h7 b hb with hb | hb
      · simp only [stepped_hist, List.mem_cons] at hb
        rcases hb with hb | hb
        · right
          subst hb
          have e1' := e1
          rw [hdt] at e1'
          refine ⟨?_, ?_, ?_, ?_⟩
          · simp [hdt, e1']
          · simpa [hdt] using hd
          · simp [hdt]
          · simp only [hdt, e1']; nlinarith
        · left; exact hb
      · right; exact hb

/-! ### start / finish -/

theorem start_ne (s : Sim K) (tmax : K) (f0 : Flags) (h0 : f0.Clear)
    (hst : s.status ≠ -3 ∧ s.status ≠ -4) (hne : tmax ≠ s.t) :
    start s tmax f0 =
      ({ s with dt := dirOf s.t tmax * |s.dt|, dtLastDone := 0, status := -1 },
       dirOf s.t tmax * |s.dt|) := by
  unfold start
  simp only [fne_iff, fgt_iff, hne, ne_eq, not_false_eq_true, decide_true, if_true]
  rw [runHeartbeat_clear _ _ h0]
  unfold dirOf
  by_cases h : s.t < tmax
  · simp [h, copysign_pos, hst.1, hst.2, Status.code]
  · simp [h, copysign_neg, hst.1, hst.2, Status.code]

theorem start_eq (s : Sim K) (tmax : K) (f0 : Flags) (h0 : f0.Clear)
    (hst : s.status ≠ -3 ∧ s.status ≠ -4) (heq : tmax = s.t) :
    start s tmax f0 = ({ s with dtLastDone := 0, status := -1 }, s.dt) := by
  unfold start
  simp only [fne_iff, heq, ne_eq, not_true_eq_false, decide_false]
  rw [runHeartbeat_clear _ _ h0]
  simp [hst.1, hst.2, Status.code]

theorem integrate_of_loop_done (step : StepFn K) (env : Nat → Flags) (fuel : Nat) (s s1 s' : Sim K)
    (tmax lf lf' : K) (inf : Bool) (hs : start s tmax (env 0) = (s1, lf))
    (hl : loop step env tmax inf fuel 0 s1 lf = (.done s', lf')) :
    integrate step env fuel s tmax inf = .done (finish s' lf') := by
  unfold integrate
  rw [hs]
  simp only [hl]

end RV.Integrate
