import RV.Proofs.Collision
/-
  Geometric soundness of the pruning test of the TREE collision walk (collision.c:579-585),
  helper for RV/Props/C13.lean.  No square roots: everything is compared through squares.
-/
set_option linter.unusedVariables false
namespace RV.Collision
open RV
variable {K : Type} [Field K] [LinearOrder K] [IsStrictOrderedRing K]

/-- Cauchy–Schwarz in three dimensions (Lagrange identity) -/
theorem cs3 (a1 a2 a3 b1 b2 b3 : K) :
    (a1*b1 + a2*b2 + a3*b3)^2 ≤ (a1^2 + a2^2 + a3^2) * (b1^2 + b2^2 + b3^2) := by
  nlinarith [sq_nonneg (a1*b2 - a2*b1), sq_nonneg (a1*b3 - a3*b1), sq_nonneg (a2*b3 - a3*b2)]

/-- `a·b ≤ A·B` when `|a| ≤ A`, `|b| ≤ B` (given through squares) -/
theorem dot_le (a1 a2 a3 b1 b2 b3 A B : K) (hA : 0 ≤ A) (hB : 0 ≤ B)
    (ha : a1^2 + a2^2 + a3^2 ≤ A^2) (hb : b1^2 + b2^2 + b3^2 ≤ B^2) :
    a1*b1 + a2*b2 + a3*b3 ≤ A*B := by
  by_contra h
  have h' : A*B < a1*b1 + a2*b2 + a3*b3 := not_le.mp h
  have hAB : 0 ≤ A*B := mul_nonneg hA hB
  have h1 : (A*B)^2 < (a1*b1 + a2*b2 + a3*b3)^2 := by nlinarith
  have h2 := cs3 a1 a2 a3 b1 b2 b3
  have h3 : (a1^2 + a2^2 + a3^2) * (b1^2 + b2^2 + b3^2) ≤ A^2 * B^2 := by
    apply mul_le_mul ha hb _ (sq_nonneg A)
    nlinarith [sq_nonneg b1, sq_nonneg b2, sq_nonneg b3]
  nlinarith

/-- triangle inequality through squares, strict in the first argument -/
theorem tri_sq_lt (a1 a2 a3 b1 b2 b3 A B : K) (hA : 0 ≤ A) (hB : 0 ≤ B)
    (ha : a1^2 + a2^2 + a3^2 < A^2) (hb : b1^2 + b2^2 + b3^2 ≤ B^2) :
    (a1+b1)^2 + (a2+b2)^2 + (a3+b3)^2 < (A+B)^2 := by
  have hd := dot_le a1 a2 a3 b1 b2 b3 A B hA hB ha.le hb
  nlinarith

/-- the walk descends into a cell that contains an overlapping partner, provided the pruning
    radius really bounds the partner's radius (hypothesis H: `r2 ≤ maxRadius1`) -/
theorem descends_of_overlap (k maxR1 r1 r2 w h : K) (gx gy gz x2 y2 z2 cx cy cz : K)
    (hr1 : 0 ≤ r1) (hr2 : 0 ≤ r2) (hk : 0 ≤ k) (hw : 0 ≤ w)
    (hH : r2 ≤ maxR1)
    (hcx : (x2 - cx)^2 ≤ h^2) (hcy : (y2 - cy)^2 ≤ h^2) (hcz : (z2 - cz)^2 ≤ h^2)
    (hkh : 3 * h^2 ≤ (k*w)^2)
    (hov : (gx - x2)^2 + (gy - y2)^2 + (gz - z2)^2 < (r1 + r2)^2) :
    descends k maxR1 r1 w gx gy gz cx cy cz = true := by
  unfold descends
  simp only [sc_hadd, sc_hsub, sc_hmul, sco_lt, decide_eq_true_eq]
  have hb : (x2 - cx)^2 + (y2 - cy)^2 + (z2 - cz)^2 ≤ (k*w)^2 := by linarith
  have hkw : 0 ≤ k*w := mul_nonneg hk hw
  have ht := tri_sq_lt (gx - x2) (gy - y2) (gz - z2) (x2 - cx) (y2 - cy) (z2 - cz) (r1 + r2) (k*w)
    (by linarith) hkw hov hb
  have e : ∀ (u v c' : K), u - v + (v - c') = u - c' := by intro u v c'; ring
  rw [e, e, e] at ht
  have hle : r1 + r2 + k*w ≤ r1 + maxR1 + k*w := by linarith
  have h0 : 0 ≤ r1 + r2 + k*w := by linarith
  have : (r1 + r2 + k*w)^2 ≤ (r1 + maxR1 + k*w)^2 := by nlinarith
  nlinarith

end RV.Collision
