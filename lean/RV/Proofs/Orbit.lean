import RV.Model.Orbit
import RV.Proofs.Field
import Mathlib.Algebra.Order.Field.Basic
import Mathlib.Tactic.Linarith
import Mathlib.Tactic.NormNum
/-
  C11 (ii): lemmas about RV/Model/Orbit.lean instantiated at a field (defining relations of
  the particle returned by `fromOrbitCore`; polynomial identities modulo c²+s²=1, with the
  multipliers computed once by polynomial division) and at an ordered field (rejection
  tests, ranges).
-/
set_option linter.unusedVariables false
set_option linter.unusedSimpArgs false
set_option linter.unusedTactic false
set_option linter.unreachableTactic false
set_option linter.unusedSectionVars false
namespace RV.Orbit
open RV

section field
variable {K : Type} [Field K]

/-- relative position and velocity of the particle built by `fromOrbitCore` -/
theorem core_rel (pr : Part K) (m a e cO sO co so cf sf ci si v0 : K) :
    let P := fromOrbitCore pr m a e ⟨cO, sO, co, so, cf, sf, ci, si⟩ v0
    let r := radius a e cf
    P.x - pr.x = r * (cO * (co * cf - so * sf) - sO * (so * cf + co * sf) * ci) ∧
    P.y - pr.y = r * (sO * (co * cf - so * sf) + cO * (so * cf + co * sf) * ci) ∧
    P.z - pr.z = r * (so * cf + co * sf) * si ∧
    P.vx - pr.vx = v0 * ((e + cf) * (-ci * co * sO - cO * so) - sf * (co * cO - ci * so * sO)) ∧
    P.vy - pr.vy = v0 * ((e + cf) * (ci * co * cO - sO * so) - sf * (co * sO + ci * so * cO)) ∧
    P.vz - pr.vz = v0 * ((e + cf) * co * si - sf * si * so) ∧ P.m = m := by
  simp only [fromOrbitCore, sc_hadd, sc_hmul, sc_hsub, sc_hneg]
  refine ⟨?_, ?_, ?_, ?_, ?_, ?_, trivial⟩ <;> ring

theorem radius_eq (a e cf : K) : radius a e cf = a * (1 - e * e) / (1 + e * cf) := by
  simp only [radius, sc_hadd, sc_hmul, sc_hsub, sc_hdiv, sc_one]

theorem v0sq_eq (G pm m a e : K) : v0sq G pm m a e = G * (m + pm) / a / (1 - e * e) := by
  simp only [v0sq, sc_hadd, sc_hmul, sc_hsub, sc_hdiv, sc_one]

end field

/-! ### ordered field: comparisons of the model are the order of the field -/
section ordered
variable {K : Type} [Field K] [LinearOrder K]

instance orderedScalarO : ScalarO K where
  toScalar := fieldScalar
  lt a b := decide (a < b)
  le a b := decide (a ≤ b)

@[simp] theorem so_lt (a b : K) : (ScalarO.lt a b = true) ↔ a < b := by
  simp [ScalarO.lt]
@[simp] theorem so_le (a b : K) : (ScalarO.le a b = true) ↔ a ≤ b := by
  simp [ScalarO.le]
@[simp] theorem so_eqB (a b : K) : (eqB a b = true) ↔ a = b := by
  unfold eqB
  rw [Bool.and_eq_true, so_le, so_le]
  exact le_antisymm_iff.symm

end ordered

section rejection
variable {K : Type} [Field K] [LinearOrder K] [IsStrictOrderedRing K]

/-- the asymptote test of the source: `e cos f < -1` (unchanged tree) or `≤ -1` (repaired) -/
def beyond (asymLe : Bool) (x : K) : Prop := if asymLe then x ≤ -1 else x < -1
def notBeyond (asymLe : Bool) (x : K) : Prop := if asymLe then -1 < x else -1 ≤ x
/-- the sign tests on `a`: `a > 0` / `a < 0` (unchanged tree) or `a ≥ 0` / `a ≤ 0` (repaired) -/
def aPos (strict : Bool) (a : K) : Prop := if strict then 0 ≤ a else 0 < a
def aNeg (strict : Bool) (a : K) : Prop := if strict then a ≤ 0 else a < 0

theorem check_none_iff (v : Variant) (tiny pm a e cf : K) :
    fromOrbitCheck v tiny pm a e cf = none ↔
      (e ≠ 1 ∧ 0 ≤ e ∧ (1 < e → ¬ aPos v.aStrict a) ∧ (e < 1 → ¬ aNeg v.aStrict a) ∧ notBeyond v.asymLe (e * cf) ∧ tiny ≤ pm) := by
  unfold fromOrbitCheck checkTail
  simp only [sc_hmul, sc_hneg, sc_neg, sc_one, sc_zero]
  rcases v with ⟨v1, v2, asymLe, v4, strict⟩
  cases asymLe <;> cases strict <;>
  simp only [beyond, notBeyond, aPos, aNeg, Bool.false_eq_true, if_false, if_true] <;>
  split_ifs <;> simp_all
  all_goals first
    | (intro h; exfalso; linarith)
    | (exact lt_of_le_of_ne ‹_› ‹_›)
    | (intro h1; exfalso; exact ‹¬ e = 1› (le_antisymm ‹e ≤ 1› h1))
    | (intro h1; exfalso; have h2 : e < 1 := lt_of_le_of_ne ‹e ≤ 1› ‹¬ e = 1›; linarith [h1 h2])

theorem check_radial_iff (v : Variant) (tiny pm a e cf : K) :
    fromOrbitCheck v tiny pm a e cf = some .radial ↔
      e = 1 := by
  unfold fromOrbitCheck checkTail
  simp only [sc_hmul, sc_hneg, sc_neg, sc_one, sc_zero]
  rcases v with ⟨v1, v2, asymLe, v4, strict⟩
  cases asymLe <;> cases strict <;>
  simp only [beyond, notBeyond, aPos, aNeg, Bool.false_eq_true, if_false, if_true] <;>
  split_ifs <;> simp_all
  all_goals first
    | (intro h; exfalso; linarith)
    | (exact lt_of_le_of_ne ‹_› ‹_›)
    | (intro h1; exfalso; exact ‹¬ e = 1› (le_antisymm ‹e ≤ 1› h1))
    | (intro h1; exfalso; have h2 : e < 1 := lt_of_le_of_ne ‹e ≤ 1› ‹¬ e = 1›; linarith [h1 h2])

theorem check_negE_iff (v : Variant) (tiny pm a e cf : K) :
    fromOrbitCheck v tiny pm a e cf = some .negE ↔
      e < 0 := by
  unfold fromOrbitCheck checkTail
  simp only [sc_hmul, sc_hneg, sc_neg, sc_one, sc_zero]
  rcases v with ⟨v1, v2, asymLe, v4, strict⟩
  cases asymLe <;> cases strict <;>
  simp only [beyond, notBeyond, aPos, aNeg, Bool.false_eq_true, if_false, if_true] <;>
  split_ifs <;> simp_all
  all_goals first
    | (intro h; exfalso; linarith)
    | (exact lt_of_le_of_ne ‹_› ‹_›)
    | (intro h1; exfalso; exact ‹¬ e = 1› (le_antisymm ‹e ≤ 1› h1))
    | (intro h1; exfalso; have h2 : e < 1 := lt_of_le_of_ne ‹e ≤ 1› ‹¬ e = 1›; linarith [h1 h2])

theorem check_boundE_iff (v : Variant) (tiny pm a e cf : K) :
    fromOrbitCheck v tiny pm a e cf = some .boundE ↔
      (1 < e ∧ aPos v.aStrict a) := by
  unfold fromOrbitCheck checkTail
  simp only [sc_hmul, sc_hneg, sc_neg, sc_one, sc_zero]
  rcases v with ⟨v1, v2, asymLe, v4, strict⟩
  cases asymLe <;> cases strict <;>
  simp only [beyond, notBeyond, aPos, aNeg, Bool.false_eq_true, if_false, if_true] <;>
  split_ifs <;> simp_all
  all_goals first
    | (intro h; exfalso; linarith)
    | (exact lt_of_le_of_ne ‹_› ‹_›)
    | (intro h1; exfalso; exact ‹¬ e = 1› (le_antisymm ‹e ≤ 1› h1))
    | (intro h1; exfalso; have h2 : e < 1 := lt_of_le_of_ne ‹e ≤ 1› ‹¬ e = 1›; linarith [h1 h2])

theorem check_unboundE_iff (v : Variant) (tiny pm a e cf : K) :
    fromOrbitCheck v tiny pm a e cf = some .unboundE ↔
      (0 ≤ e ∧ e < 1 ∧ aNeg v.aStrict a) := by
  unfold fromOrbitCheck checkTail
  simp only [sc_hmul, sc_hneg, sc_neg, sc_one, sc_zero]
  rcases v with ⟨v1, v2, asymLe, v4, strict⟩
  cases asymLe <;> cases strict <;>
  simp only [beyond, notBeyond, aPos, aNeg, Bool.false_eq_true, if_false, if_true] <;>
  split_ifs <;> simp_all
  all_goals first
    | (intro h; exfalso; linarith)
    | (exact lt_of_le_of_ne ‹_› ‹_›)
    | (intro h1; exfalso; exact ‹¬ e = 1› (le_antisymm ‹e ≤ 1› h1))
    | (intro h1; exfalso; have h2 : e < 1 := lt_of_le_of_ne ‹e ≤ 1› ‹¬ e = 1›; linarith [h1 h2])

theorem check_fRange_iff (v : Variant) (tiny pm a e cf : K) :
    fromOrbitCheck v tiny pm a e cf = some .fRange ↔
      (e ≠ 1 ∧ 0 ≤ e ∧ (1 < e → ¬ aPos v.aStrict a) ∧ (e < 1 → ¬ aNeg v.aStrict a) ∧ beyond v.asymLe (e * cf)) := by
  unfold fromOrbitCheck checkTail
  simp only [sc_hmul, sc_hneg, sc_neg, sc_one, sc_zero]
  rcases v with ⟨v1, v2, asymLe, v4, strict⟩
  cases asymLe <;> cases strict <;>
  simp only [beyond, notBeyond, aPos, aNeg, Bool.false_eq_true, if_false, if_true] <;>
  split_ifs <;> simp_all
  all_goals first
    | (intro h; exfalso; linarith)
    | (exact lt_of_le_of_ne ‹_› ‹_›)
    | (intro h1; exfalso; exact ‹¬ e = 1› (le_antisymm ‹e ≤ 1› h1))
    | (intro h1; exfalso; have h2 : e < 1 := lt_of_le_of_ne ‹e ≤ 1› ‹¬ e = 1›; linarith [h1 h2])

theorem check_noMass_iff (v : Variant) (tiny pm a e cf : K) :
    fromOrbitCheck v tiny pm a e cf = some .noMass ↔
      (e ≠ 1 ∧ 0 ≤ e ∧ (1 < e → ¬ aPos v.aStrict a) ∧ (e < 1 → ¬ aNeg v.aStrict a) ∧ notBeyond v.asymLe (e * cf) ∧ pm < tiny) := by
  unfold fromOrbitCheck checkTail
  simp only [sc_hmul, sc_hneg, sc_neg, sc_one, sc_zero]
  rcases v with ⟨v1, v2, asymLe, v4, strict⟩
  cases asymLe <;> cases strict <;>
  simp only [beyond, notBeyond, aPos, aNeg, Bool.false_eq_true, if_false, if_true] <;>
  split_ifs <;> simp_all
  all_goals first
    | (intro h; exfalso; linarith)
    | (exact lt_of_le_of_ne ‹_› ‹_›)
    | (intro h1; exfalso; exact ‹¬ e = 1› (le_antisymm ‹e ≤ 1› h1))
    | (intro h1; exfalso; have h2 : e < 1 := lt_of_le_of_ne ‹e ≤ 1› ‹¬ e = 1›; linarith [h1 h2])

end rejection


/-! ### defining relations of the particle (polynomial identities modulo c² + s² = 1) -/
section relations
variable {K : Type} [Field K]
variable (r v0 e cO sO co so cf sf ci si : K)

/-- relative position / velocity in terms of abstract `r`, `v0` -/
def relX := r * (cO * (co * cf - so * sf) - sO * (so * cf + co * sf) * ci)
def relY := r * (sO * (co * cf - so * sf) + cO * (so * cf + co * sf) * ci)
def relZ := r * (so * cf + co * sf) * si
def relVX := v0 * ((e + cf) * (-ci * co * sO - cO * so) - sf * (co * cO - ci * so * sO))
def relVY := v0 * ((e + cf) * (ci * co * cO - sO * so) - sf * (co * sO + ci * so * cO))
def relVZ := v0 * ((e + cf) * co * si - sf * si * so)

variable (hO : cO ^ 2 + sO ^ 2 = 1) (ho : co ^ 2 + so ^ 2 = 1) (hf : cf ^ 2 + sf ^ 2 = 1)
  (hi : ci ^ 2 + si ^ 2 = 1)
include hO ho hf hi

theorem rel_rsq :
    relX r cO sO co so cf sf ci ^ 2 + relY r cO sO co so cf sf ci ^ 2 + relZ r co so cf sf si ^ 2 = r ^ 2 := by
  unfold relX relY relZ
  linear_combination (r^2*(cf^2*ci^2*so^2 + cf^2*co^2 + 2*cf*ci^2*co*sf*so - 2*cf*co*sf*so + ci^2*co^2*sf^2 + sf^2*so^2)) * hO + (r^2*(cf^2*ci^2 + cf^2*si^2 + sf^2)) * ho + (r^2*(ci^2*co^2 + co^2*si^2 - co^2 + 1)) * hf + (-r^2*(2*cf^2*co^2 - cf^2 - 2*cf*co*sf*so - co^2)) * hi

theorem rel_vsq :
    relVX v0 e cO sO co so cf sf ci ^ 2 + relVY v0 e cO sO co so cf sf ci ^ 2 + relVZ v0 e co so cf sf si ^ 2
      = v0 ^ 2 * (1 + 2 * e * cf + e ^ 2) := by
  unfold relVX relVY relVZ
  linear_combination (v0^2*(cf^2*ci^2*co^2 + cf^2*so^2 + 2*cf*ci^2*co^2*e - 2*cf*ci^2*co*sf*so + 2*cf*co*sf*so + 2*cf*e*so^2 + ci^2*co^2*e^2 - 2*ci^2*co*e*sf*so + ci^2*sf^2*so^2 + co^2*sf^2 + 2*co*e*sf*so + e^2*so^2)) * hO + (v0^2*(cf^2 + 2*cf*e + ci^2*sf^2 + e^2 + sf^2*si^2)) * ho + (-v0^2*(ci^2*co^2 - ci^2 + co^2*si^2 - co^2 - si^2)) * hf + (v0^2*(2*cf^2*co^2 - cf^2 + 2*cf*co^2*e - 2*cf*co*sf*so + co^2*e^2 - co^2 - 2*co*e*sf*so + 1)) * hi

theorem rel_hx :
    relY r cO sO co so cf sf ci * relVZ v0 e co so cf sf si - relZ r co so cf sf si * relVY v0 e cO sO co so cf sf ci
      = r * v0 * (1 + e * cf) * si * sO := by
  unfold relY relZ relVY relVZ
  linear_combination (r*sO*si*v0*(cf^2 + cf*e + sf^2)) * ho + (r*sO*si*v0) * hf

theorem rel_hy :
    relZ r co so cf sf si * relVX v0 e cO sO co so cf sf ci - relX r cO sO co so cf sf ci * relVZ v0 e co so cf sf si
      = -(r * v0 * (1 + e * cf) * si * cO) := by
  unfold relX relZ relVX relVZ
  linear_combination (-cO*r*si*v0*(cf^2 + cf*e + sf^2)) * ho + (-cO*r*si*v0) * hf

theorem rel_hz :
    relX r cO sO co so cf sf ci * relVY v0 e cO sO co so cf sf ci - relY r cO sO co so cf sf ci * relVX v0 e cO sO co so cf sf ci
      = r * v0 * (1 + e * cf) * ci := by
  unfold relX relY relVX relVY
  linear_combination (ci*r*v0*(co^2 + so^2)*(cf^2 + cf*e + sf^2)) * hO + (ci*r*v0*(cf^2 + cf*e + sf^2)) * ho + (ci*r*v0) * hf

theorem rel_rv :
    relX r cO sO co so cf sf ci * relVX v0 e cO sO co so cf sf ci + relY r cO sO co so cf sf ci * relVY v0 e cO sO co so cf sf ci
      + relZ r co so cf sf si * relVZ v0 e co so cf sf si = r * v0 * e * sf := by
  unfold relX relY relZ relVX relVY relVZ
  linear_combination (r*v0*(cf^2*ci^2*co*so - cf^2*co*so + cf*ci^2*co^2*sf + cf*ci^2*co*e*so - cf*ci^2*sf*so^2 - cf*co^2*sf - cf*co*e*so + cf*sf*so^2 + ci^2*co^2*e*sf - ci^2*co*sf^2*so + co*sf^2*so + e*sf*so^2)) * hO + (r*sf*v0*(-cf*ci^2 - cf*si^2 + cf + e)) * ho + (-co*r*so*v0*(ci^2 + si^2 - 1)) * hf + (r*v0*(2*cf^2*co*so + 2*cf*co^2*sf + cf*co*e*so - cf*sf + co^2*e*sf - co*so)) * hi

/-- numerator of the x-component of the eccentricity vector, with μ/d = v0²(1+e cf) -/
theorem rel_ex :
    (relVX v0 e cO sO co so cf sf ci ^ 2 + relVY v0 e cO sO co so cf sf ci ^ 2 + relVZ v0 e co so cf sf si ^ 2
        - v0 ^ 2 * (1 + e * cf)) * relX r cO sO co so cf sf ci
      - (relX r cO sO co so cf sf ci * relVX v0 e cO sO co so cf sf ci + relY r cO sO co so cf sf ci * relVY v0 e cO sO co so cf sf ci
          + relZ r co so cf sf si * relVZ v0 e co so cf sf si) * relVX v0 e cO sO co so cf sf ci
      = v0 ^ 2 * r * (1 + e * cf) * e * (cO * co - sO * so * ci) := by
  unfold relX relY relZ relVX relVY relVZ
  linear_combination (ci*r*v0^2*(co^2 + so^2)*(cf^2 + cf*e + sf^2)*(cO*cf*ci*co + cO*ci*co*e - cO*ci*sf*so - cf*sO*so - co*sO*sf - e*sO*so)) * hO + (r*v0^2*(cf^2 + cf*e + sf^2)*(cO*cf*ci^2*co + cO*cf*co*si^2 + cO*ci^2*co*e - cO*ci^2*sf*so + cO*co*e*si^2 - cO*sf*si^2*so - cf*ci*sO*so - ci*co*sO*sf - ci*e*sO*so)) * ho + (r*v0^2*(cO*cf*ci^2*co + cO*cf*co*si^2 + cO*ci^2*co*e - cO*ci^2*sf*so + cO*co*e*si^2 - cO*sf*si^2*so - cf*ci*sO*so - ci*co*sO*sf - ci*e*sO*so)) * hf + (cO*r*v0^2*(cf*e + 1)*(cf*co + co*e - sf*so)) * hi

theorem rel_ey :
    (relVX v0 e cO sO co so cf sf ci ^ 2 + relVY v0 e cO sO co so cf sf ci ^ 2 + relVZ v0 e co so cf sf si ^ 2
        - v0 ^ 2 * (1 + e * cf)) * relY r cO sO co so cf sf ci
      - (relX r cO sO co so cf sf ci * relVX v0 e cO sO co so cf sf ci + relY r cO sO co so cf sf ci * relVY v0 e cO sO co so cf sf ci
          + relZ r co so cf sf si * relVZ v0 e co so cf sf si) * relVY v0 e cO sO co so cf sf ci
      = v0 ^ 2 * r * (1 + e * cf) * e * (sO * co + cO * so * ci) := by
  unfold relX relY relZ relVX relVY relVZ
  linear_combination (ci*r*v0^2*(co^2 + so^2)*(cf^2 + cf*e + sf^2)*(cO*cf*so + cO*co*sf + cO*e*so + cf*ci*co*sO + ci*co*e*sO - ci*sO*sf*so)) * hO + (r*v0^2*(cf^2 + cf*e + sf^2)*(cO*cf*ci*so + cO*ci*co*sf + cO*ci*e*so + cf*ci^2*co*sO + cf*co*sO*si^2 + ci^2*co*e*sO - ci^2*sO*sf*so + co*e*sO*si^2 - sO*sf*si^2*so)) * ho + (r*v0^2*(cO*cf*ci*so + cO*ci*co*sf + cO*ci*e*so + cf*ci^2*co*sO + cf*co*sO*si^2 + ci^2*co*e*sO - ci^2*sO*sf*so + co*e*sO*si^2 - sO*sf*si^2*so)) * hf + (r*sO*v0^2*(cf*e + 1)*(cf*co + co*e - sf*so)) * hi

theorem rel_ez :
    (relVX v0 e cO sO co so cf sf ci ^ 2 + relVY v0 e cO sO co so cf sf ci ^ 2 + relVZ v0 e co so cf sf si ^ 2
        - v0 ^ 2 * (1 + e * cf)) * relZ r co so cf sf si
      - (relX r cO sO co so cf sf ci * relVX v0 e cO sO co so cf sf ci + relY r cO sO co so cf sf ci * relVY v0 e cO sO co so cf sf ci
          + relZ r co so cf sf si * relVZ v0 e co so cf sf si) * relVZ v0 e co so cf sf si
      = v0 ^ 2 * r * (1 + e * cf) * e * (so * si) := by
  unfold relX relY relZ relVX relVY relVZ
  linear_combination (r*si*v0^2*(co^2 + so^2)*(cf^2 + cf*e + sf^2)*(cf*so + co*sf + e*so)) * hO + (r*si*v0^2*(cf^2 + cf*e + sf^2)*(cf*so + co*sf + e*so)) * ho + (r*si*v0^2*(cf*so + co*sf + e*so)) * hf

end relations

/-! ### ranges of the angles -/
section ranges
variable {K : Type} [Field K] [LinearOrder K] [IsStrictOrderedRing K]

/-- what C `fmod(x, y)` guarantees for finite `x` and `y > 0` -/
structure FmodSpec (fmod : K → K → K) : Prop where
  bound : ∀ x y, 0 < y → -y < fmod x y ∧ fmod x y < y
  nonneg : ∀ x y, 0 < y → 0 ≤ x → 0 ≤ fmod x y
  congr : ∀ x y, 0 < y → ∃ k : ℤ, fmod x y = x - k * y

theorem mod2piCore_range (fmod : K → K → K) (h : FmodSpec fmod) (pi : K) (hpi : 0 < pi) (f : K) :
    0 ≤ mod2piCore fmod pi f ∧ mod2piCore fmod pi f < 2 * pi := by
  simp only [mod2piCore, two, sc_hmul, sc_hadd, sc_ofNat, Nat.cast_ofNat]
  have hp : (0 : K) < 2 * pi := by linarith
  obtain ⟨h1, h2⟩ := h.bound f (2 * pi) hp
  have h3 : 0 ≤ 2 * pi + fmod f (2 * pi) := by linarith
  exact ⟨h.nonneg _ _ hp h3, (h.bound _ _ hp).2⟩

theorem mod2piCore_congr (fmod : K → K → K) (h : FmodSpec fmod) (pi : K) (hpi : 0 < pi) (f : K) :
    ∃ n : ℤ, mod2piCore fmod pi f = f - n * (2 * pi) := by
  simp only [mod2piCore, two, sc_hmul, sc_hadd, sc_ofNat, Nat.cast_ofNat]
  have hp : (0 : K) < 2 * pi := by linarith
  obtain ⟨k1, e1⟩ := h.congr f (2 * pi) hp
  obtain ⟨k2, e2⟩ := h.congr (2 * pi + fmod f (2 * pi)) (2 * pi) hp
  refine ⟨k1 + k2 - 1, ?_⟩
  rw [e2, e1]; push_cast; ring

/-- an abstract libm over an ordered field -/
structure Libm (K : Type) where
  sqrt : K → K
  sin : K → K
  cos : K → K
  fabs : K → K
  tan : K → K
  atan2 : K → K → K
  acos : K → K
  asin : K → K
  atan : K → K
  exp : K → K
  log : K → K
  sinh : K → K
  cosh : K → K
  tanh : K → K
  acosh : K → K
  cbrt : K → K
  floor : K → K
  ceil : K → K
  pow : K → K → K
  fmod : K → K → K
  pi : K
  tiny : K

@[reducible] def Libm.orbitK (L : Libm K) : OrbitK K where
  toScalarO := orderedScalarO
  sqrt := L.sqrt
  sin := L.sin
  cos := L.cos
  fabs := L.fabs
  tan := L.tan
  atan2 := L.atan2
  acos := L.acos
  asin := L.asin
  atan := L.atan
  exp := L.exp
  log := L.log
  sinh := L.sinh
  cosh := L.cosh
  tanh := L.tanh
  acosh := L.acosh
  cbrt := L.cbrt
  floor := L.floor
  ceil := L.ceil
  pow := L.pow
  isFinite := fun _ => true
  isNaN := fun _ => false
  pi := L.pi
  tiny := L.tiny
  fmod := L.fmod
  signbit := fun x => decide (x < 0)

theorem libm_acos (L : Libm K) (x : K) : @ScalarT.acos K L.orbitK.toScalarT x = L.acos x := rfl
theorem libm_pi (L : Libm K) : @OrbitK.pi K L.orbitK = L.pi := rfl
theorem libm_fmod (L : Libm K) : @OrbitK.fmod K L.orbitK = L.fmod := rfl

theorem acos2_range (L : Libm K) (hpi : 0 < L.pi) (hacos : ∀ x, 0 ≤ L.acos x ∧ L.acos x ≤ L.pi)
    (num denom dis : K) :
    -L.pi ≤ @acos2 K L.orbitK num denom dis ∧ @acos2 K L.orbitK num denom dis ≤ L.pi ∧
      (0 ≤ dis → 0 ≤ @acos2 K L.orbitK num denom dis) := by
  simp only [acos2]
  have h := hacos (num / denom)
  split_ifs <;> refine ⟨?_, ?_, ?_⟩ <;> (try intro _) <;>
    simp only [libm_acos, libm_pi, sc_neg, sc_zero, sc_one, sc_hdiv, so_lt, so_le, Bool.and_eq_true] at * <;> linarith [h.1, h.2]

theorem mod2pi_range (L : Libm K) (hf : FmodSpec L.fmod) (hpi : 0 < L.pi) (x : K) :
    0 ≤ @mod2pi K L.orbitK x ∧ @mod2pi K L.orbitK x < 2 * L.pi :=
  mod2piCore_range L.fmod hf L.pi hpi x

theorem reader_ranges (L : Libm K) (hf : FmodSpec L.fmod) (hpi : 0 < L.pi)
    (hacos : ∀ x, 0 ≤ L.acos x ∧ L.acos x ≤ L.pi) (v : Variant) (G : K) (p pr : Part K) (t0 : K) (o : Orb K)
    (h : @orbitFromParticle K L.orbitK v G p pr t0 = .ok o) :
    (0 ≤ o.f ∧ o.f < 2 * L.pi) ∧ (0 ≤ o.l ∧ o.l < 2 * L.pi) ∧ (0 ≤ o.M ∧ o.M < 2 * L.pi) ∧
    (0 ≤ o.theta ∧ o.theta < 2 * L.pi) ∧ (0 ≤ o.omega ∧ o.omega < 2 * L.pi) ∧
    (0 ≤ o.inc ∧ o.inc ≤ L.pi) ∧ (-L.pi ≤ o.Omega ∧ o.Omega ≤ L.pi) := by
  unfold orbitFromParticle at h
  split at h
  · cases h
  · simp only at h
    split at h
    · cases h
    · injection h with h
      subst h
      refine ⟨mod2pi_range L hf hpi _, mod2pi_range L hf hpi _, mod2pi_range L hf hpi _,
        mod2pi_range L hf hpi _, mod2pi_range L hf hpi _, ?_, ?_⟩
      · have := acos2_range L hpi hacos
        exact ⟨(this _ _ (1 : K)).2.2 (by norm_num), (this _ _ _).2.1⟩
      · have := acos2_range L hpi hacos
        exact ⟨(this _ _ _).1, (this _ _ _).2.1⟩
end ranges

/-! ### pericentre direction is a unit vector; half-angle relations of `E_to_f` -/
section misc
variable {K : Type} [Field K]

theorem peri_dir_unit (cO sO co so ci si : K) (hO : cO ^ 2 + sO ^ 2 = 1) (ho : co ^ 2 + so ^ 2 = 1)
    (hi : ci ^ 2 + si ^ 2 = 1) :
    (cO * co - sO * so * ci) ^ 2 + (sO * co + cO * so * ci) ^ 2 + (so * si) ^ 2 = 1 := by
  linear_combination (ci^2*so^2 + co^2) * hO + (ci^2 + si^2) * ho + (-(co - 1)*(co + 1)) * hi

/-- elliptic: with `tan(f/2) = s·tan(E/2)`, `s² = (1+e)/(1-e)` and the tangent half-angle form
    of the cosines: `cos f = (cos E - e)/(1 - e cos E)` and `(1 - e cos E)(1 + e cos f) = 1 - e²` -/
theorem halfangle_ell (e tE s : K) (hs : s ^ 2 * (1 - e) = 1 + e) (h1 : 1 + tE ^ 2 ≠ 0)
    (h2 : 1 + (s * tE) ^ 2 ≠ 0) (h3 : 1 - e ≠ 0) :
    let cE := (1 - tE ^ 2) / (1 + tE ^ 2)
    let cf := (1 - (s * tE) ^ 2) / (1 + (s * tE) ^ 2)
    cf * (1 - e * cE) = cE - e ∧ (1 - e * cE) * (1 + e * cf) = 1 - e ^ 2 := by
  have hs2 : s ^ 2 = (1 + e) / (1 - e) := by field_simp; linear_combination hs
  have h2' : 1 + (1 + e) / (1 - e) * tE ^ 2 ≠ 0 := by
    have : (s * tE) ^ 2 = (1 + e) / (1 - e) * tE ^ 2 := by rw [mul_pow, hs2]
    rw [← this]; exact h2
  have h2'' : (1 - e) + (1 + e) * tE ^ 2 ≠ 0 := by
    intro h; apply h2'; field_simp; linear_combination h
  have hcf : (1 - (1 + e) / (1 - e) * tE ^ 2) / (1 + (1 + e) / (1 - e) * tE ^ 2)
      = ((1 - e) - (1 + e) * tE ^ 2) / ((1 - e) + (1 + e) * tE ^ 2) := by
    rw [div_eq_div_iff h2' h2'']; field_simp
  simp only [mul_pow, hs2, hcf]
  have e1 : 1 - e * ((1 - tE ^ 2) / (1 + tE ^ 2)) = (1 - e + (1 + e) * tE ^ 2) / (1 + tE ^ 2) := by
    field_simp; ring
  have e2 : 1 + e * ((1 - e - (1 + e) * tE ^ 2) / (1 - e + (1 + e) * tE ^ 2))
      = (1 - e ^ 2) * (1 + tE ^ 2) / (1 - e + (1 + e) * tE ^ 2) := by
    field_simp; ring
  rw [e1, e2]
  constructor <;> field_simp <;> ring

/-- hyperbolic: with `tan(f/2) = s·tanh(H/2)`, `s² = (e+1)/(e-1)`, `cosh H = (1+t²)/(1-t²)`:
    `cos f = (e - cosh H)/(e cosh H - 1)` and `(1 - e cosh H)(1 + e cos f) = 1 - e²` -/
theorem halfangle_hyp (e tH s : K) (hs : s ^ 2 * (e - 1) = e + 1) (h1 : 1 - tH ^ 2 ≠ 0)
    (h2 : 1 + (s * tH) ^ 2 ≠ 0) (h3 : e - 1 ≠ 0) :
    let cH := (1 + tH ^ 2) / (1 - tH ^ 2)
    let cf := (1 - (s * tH) ^ 2) / (1 + (s * tH) ^ 2)
    cf * (e * cH - 1) = e - cH ∧ (1 - e * cH) * (1 + e * cf) = 1 - e ^ 2 := by
  have hs2 : s ^ 2 = (e + 1) / (e - 1) := by field_simp; linear_combination hs
  have h2' : 1 + (e + 1) / (e - 1) * tH ^ 2 ≠ 0 := by
    have : (s * tH) ^ 2 = (e + 1) / (e - 1) * tH ^ 2 := by rw [mul_pow, hs2]
    rw [← this]; exact h2
  have h2'' : (e - 1) + (e + 1) * tH ^ 2 ≠ 0 := by
    intro h; apply h2'; field_simp; linear_combination h
  have hcf : (1 - (e + 1) / (e - 1) * tH ^ 2) / (1 + (e + 1) / (e - 1) * tH ^ 2)
      = ((e - 1) - (e + 1) * tH ^ 2) / ((e - 1) + (e + 1) * tH ^ 2) := by
    rw [div_eq_div_iff h2' h2'']; field_simp
  simp only [mul_pow, hs2, hcf]
  have e1 : 1 - e * ((1 + tH ^ 2) / (1 - tH ^ 2)) = -((e - 1) + (e + 1) * tH ^ 2) / (1 - tH ^ 2) := by
    field_simp; ring
  have e1' : e * ((1 + tH ^ 2) / (1 - tH ^ 2)) - 1 = ((e - 1) + (e + 1) * tH ^ 2) / (1 - tH ^ 2) := by
    field_simp; ring
  have e2 : 1 + e * ((e - 1 - (e + 1) * tH ^ 2) / (e - 1 + (e + 1) * tH ^ 2))
      = (e ^ 2 - 1) * (1 - tH ^ 2) / (e - 1 + (e + 1) * tH ^ 2) := by
    field_simp; ring
  rw [e1, e1', e2]
  constructor <;> field_simp <;> ring

/-- repaired update = Newton step: J·(Δq,Δp) = (f0,f1) where J is the Jacobian of (f0,f1) w.r.t. (q,p) -/
theorem palStep_fixed_is_newton (h k cl sl c s pn qn : K) (hcs : c ^ 2 + s ^ 2 = 1) (hq : qn - 1 ≠ 0) :
    let r := palStepCore true h k cl sl c s pn qn
    let dq := qn - r.2.1
    let dp := pn - r.1
    c * dq + ((-qn) * s + s + pn * c) * dp = r.2.2.1 ∧
    (-s) * dq + ((-qn) * c + c - pn * s) * dp = r.2.2.2 := by
  simp only [palStepCore, sc_hadd, sc_hsub, sc_hmul, sc_hdiv, sc_hneg, sc_neg, sc_one, if_true]
  constructor
  · field_simp
    linear_combination (qn * c + pn * s - (k * cl + h * sl)) * (qn - 1) * hcs
  · field_simp
    linear_combination ((-qn) * s + pn * c - (k * sl - h * cl)) * (qn - 1) * hcs

end misc

/-! ### the wrapper `fromOrbit` over an abstract libm -/
section wrapper
variable {K : Type} [Field K] [LinearOrder K] [IsStrictOrderedRing K]

theorem libm_cos (L : Libm K) (x : K) : @ScalarT.cos K L.orbitK.toScalarT x = L.cos x := rfl
theorem libm_sin (L : Libm K) (x : K) : @ScalarT.sin K L.orbitK.toScalarT x = L.sin x := rfl
theorem libm_sqrt (L : Libm K) (x : K) : @ScalarT.sqrt K L.orbitK.toScalarT x = L.sqrt x := rfl
theorem libm_tiny (L : Libm K) : @OrbitK.tiny K L.orbitK = L.tiny := rfl

theorem fromOrbit_error_iff (L : Libm K) (v : Variant) (G : K) (pr : Part K) (m a e inc Om om f : K) (err : OErr) :
    @fromOrbit K L.orbitK v G pr m a e inc Om om f = .error err ↔
      fromOrbitCheck v L.tiny pr.m a e (L.cos f) = some err := by
  unfold fromOrbit
  simp only [libm_cos, libm_tiny]
  split <;> simp_all

theorem fromOrbit_ok (L : Libm K) (v : Variant) (G : K) (pr : Part K) (m a e inc Om om f : K) (P : Part K)
    (h : @fromOrbit K L.orbitK v G pr m a e inc Om om f = .ok P) :
    fromOrbitCheck v L.tiny pr.m a e (L.cos f) = none ∧
    P = fromOrbitCore pr m a e ⟨L.cos Om, L.sin Om, L.cos om, L.sin om, L.cos f, L.sin f, L.cos inc, L.sin inc⟩
          (L.sqrt (v0sq G pr.m m a e)) := by
  unfold fromOrbit at h
  simp only [libm_cos, libm_tiny, libm_sin, libm_sqrt] at h
  split at h
  · cases h
  · injection h with h
    exact ⟨by assumption, h.symm⟩

theorem guard_denoms (v : Variant) (tiny pm a e cf : K) (h : fromOrbitCheck v tiny pm a e cf = none)
    (ha : v.aStrict = false → a ≠ 0) (hasym : v.asymLe = false → e * cf ≠ -1) :
    1 - e * e ≠ 0 ∧ 1 + e * cf ≠ 0 ∧ 0 < a * (1 - e * e) ∧ 0 < 1 + e * cf := by
  obtain ⟨h1, h0, hb, hu, hf, hm⟩ := (check_none_iff v tiny pm a e cf).mp h
  rcases v with ⟨v1, v2, asymLe, v4, strict⟩
  simp only at ha hasym hb hu hf
  have hpos : 0 < 1 + e * cf := by
    cases asymLe
    · simp only [notBeyond, Bool.false_eq_true, if_false] at hf
      rcases lt_or_eq_of_le hf with h | h
      · linarith
      · exact absurd h.symm (hasym rfl)
    · simp only [notBeyond, if_true] at hf
      linarith
  rcases lt_or_gt_of_ne h1 with he | he
  · have ha' : 0 < a := by
      have := hu he
      cases strict
      · simp only [aNeg, Bool.false_eq_true, if_false, not_lt] at this
        exact lt_of_le_of_ne this (Ne.symm (ha rfl))
      · simp only [aNeg, if_true, not_le] at this; exact this
    have : 0 < 1 - e * e := by nlinarith
    exact ⟨ne_of_gt this, ne_of_gt hpos, mul_pos ha' this, hpos⟩
  · have ha' : a < 0 := by
      have := hb he
      cases strict
      · simp only [aPos, Bool.false_eq_true, if_false, not_lt] at this
        exact lt_of_le_of_ne this (ha rfl)
      · simp only [aPos, if_true, not_le] at this; exact this
    have : 1 - e * e < 0 := by nlinarith
    exact ⟨ne_of_lt this, ne_of_gt hpos, mul_pos_of_neg_of_neg ha' this, hpos⟩

/-- defining relations of `fromOrbitCore` with divisions: needs only the non-vanishing of the
    three denominators, the four trigonometric identities and `v0² = μ/a/(1-e²)` -/
theorem core_relations (G : K) (pr : Part K) (m a e cO sO co so cf sf ci si v0 : K)
    (hO : cO ^ 2 + sO ^ 2 = 1) (ho : co ^ 2 + so ^ 2 = 1) (hf : cf ^ 2 + sf ^ 2 = 1)
    (hi : ci ^ 2 + si ^ 2 = 1)
    (ha : a ≠ 0) (he : 1 - e * e ≠ 0) (hd : 1 + e * cf ≠ 0)
    (hv : v0 ^ 2 = G * (m + pr.m) / a / (1 - e * e)) :
    let P := fromOrbitCore pr m a e ⟨cO, sO, co, so, cf, sf, ci, si⟩ v0
    let mu := G * (m + pr.m)
    let r := a * (1 - e * e) / (1 + e * cf)
    let dx := P.x - pr.x; let dy := P.y - pr.y; let dz := P.z - pr.z
    let dvx := P.vx - pr.vx; let dvy := P.vy - pr.vy; let dvz := P.vz - pr.vz
    let hx := dy * dvz - dz * dvy; let hy := dz * dvx - dx * dvz; let hz := dx * dvy - dy * dvx
    let H := a * (1 - e * e) * v0
    (dx ^ 2 + dy ^ 2 + dz ^ 2 = r ^ 2) ∧
    (dvx ^ 2 + dvy ^ 2 + dvz ^ 2 = mu * (2 / r - 1 / a)) ∧
    (hx ^ 2 + hy ^ 2 + hz ^ 2 = mu * a * (1 - e * e)) ∧
    (H ^ 2 = mu * a * (1 - e * e) ∧ hz = H * ci ∧ hx = H * si * sO ∧ hy = -(H * si * cO)) ∧
    (dx * dvx + dy * dvy + dz * dvz = r * v0 * e * sf) := by
  intro P mu r dx dy dz dvx dvy dvz hx hy hz H
  have he' : (1 : K) - e ^ 2 ≠ 0 := by rwa [pow_two]
  obtain ⟨e1, e2, e3, e4, e5, e6, _⟩ := core_rel pr m a e cO sO co so cf sf ci si v0
  have hr : radius a e cf = r := radius_eq a e cf
  simp only [hr] at e1 e2 e3
  have hrd : r * (1 + e * cf) = a * (1 - e * e) := by
    simp only [r]; field_simp
  have hH : r * v0 * (1 + e * cf) = H := by
    simp only [H]; linear_combination v0 * hrd
  have hmu : v0 ^ 2 * (a * (1 - e * e)) = mu := by
    rw [hv]; simp only [mu]; field_simp
  have hr0 : r ≠ 0 := by
    simp only [r]; exact div_ne_zero (mul_ne_zero ha he) hd
  have X : dx = relX r cO sO co so cf sf ci := e1
  have Y : dy = relY r cO sO co so cf sf ci := e2
  have Z : dz = relZ r co so cf sf si := e3
  have VX : dvx = relVX v0 e cO sO co so cf sf ci := e4
  have VY : dvy = relVY v0 e cO sO co so cf sf ci := e5
  have VZ : dvz = relVZ v0 e co so cf sf si := e6
  have hhx : hx = r * v0 * (1 + e * cf) * si * sO := by
    simp only [hx, Y, Z, VY, VZ]; exact rel_hx r v0 e cO sO co so cf sf ci si hO ho hf hi
  have hhy : hy = -(r * v0 * (1 + e * cf) * si * cO) := by
    simp only [hy, X, Z, VX, VZ]; exact rel_hy r v0 e cO sO co so cf sf ci si hO ho hf hi
  have hhz : hz = r * v0 * (1 + e * cf) * ci := by
    simp only [hz, X, Y, VX, VY]; exact rel_hz r v0 e cO sO co so cf sf ci si hO ho hf hi
  have hH2 : H ^ 2 = mu * a * (1 - e * e) := by
    simp only [H]; linear_combination (a * (1 - e * e)) * hmu
  refine ⟨?_, ?_, ?_, ⟨hH2, ?_, ?_, ?_⟩, ?_⟩
  · rw [X, Y, Z]; exact rel_rsq r cO sO co so cf sf ci si hO ho hf hi
  · have hvs := rel_vsq v0 e cO sO co so cf sf ci si hO ho hf hi
    rw [VX, VY, VZ, hvs]
    have : mu * (2 / r - 1 / a) * (r * a) = mu * (2 * a - r) := by field_simp
    have h2 : v0 ^ 2 * (1 + 2 * e * cf + e ^ 2) * (r * a) = mu * (2 * a - r) := by
      rw [← hmu]; linear_combination (v0 ^ 2 * a * 2) * hrd
    have hra : r * a ≠ 0 := mul_ne_zero hr0 ha
    exact mul_right_cancel₀ hra (h2.trans this.symm)
  · rw [hhx, hhy, hhz, hH, ← hH2]
    linear_combination (H ^ 2 * si ^ 2) * hO + H ^ 2 * hi
  · rw [hhz, hH]
  · rw [hhx, hH]
  · rw [hhy, hH]
  · rw [X, Y, Z, VX, VY, VZ]; exact rel_rv r v0 e cO sO co so cf sf ci si hO ho hf hi

end wrapper

end RV.Orbit
