import RV.Proofs.TreeArrRelabel
set_option linter.unusedSectionVars false
set_option linter.unusedVariables false
set_option linter.unusedSimpArgs false
namespace RV.C15
open RV RV.Tree RV.Boundary RV.TreeArr

variable {K : Type} [Field K] [LinearOrder K] [IsStrictOrderedRing K] {α : Type}

/-- the forest invariant: every root tree is well formed in its root cell and the leaves of all trees together hold
    every array index exactly once -/
def ForestOK (ps : Nat → Pt K) (rc : Nat → Cell K) (forest : List (T K)) (n : Nat) : Prop :=
  (∀ r (h : r < forest.length), WF ps false (rc r) forest[r]) ∧
  List.Perm (forest.flatMap leaves) (List.range n)

theorem psOf_append_left (pos : α → Pt K) (arr : List α) (p : α) (i : Nat) (h : i < arr.length) :
    psOf pos (arr ++ [p]) i = psOf pos arr i := by
  simp [psOf, List.getElem?_append_left h]

theorem psOf_append_new (pos : α → Pt K) (arr : List α) (p : α) :
    psOf pos (arr ++ [p]) arr.length = pos p := by
  simp [psOf]

theorem flatMap_set_perm {β : Type} (l : List (T K)) (f : T K → List β) (r : Nat) (h : r < l.length) (t : T K)
    (new : List β) (ht : List.Perm (f t) (new ++ f l[r])) :
    List.Perm ((l.set r t).flatMap f) (new ++ l.flatMap f) := by
  have hs : l.set r t = l.take r ++ t :: l.drop (r + 1) := by
    rw [List.set_eq_take_append_cons_drop]; simp [h]
  have hl : l = l.take r ++ l[r] :: l.drop (r + 1) := by
    rw [← List.drop_eq_getElem_cons h, List.take_append_drop]
  rw [hs]
  conv_rhs => rw [hl]
  simp only [List.flatMap_append, List.flatMap_cons]
  refine (List.Perm.append_left _ (List.Perm.append_right _ ht)).trans ?_
  simp only [List.append_assoc]
  rw [← List.append_assoc, ← List.append_assoc new]
  apply List.Perm.append_right
  exact List.perm_append_comm

/-- one `reb_simulation_add` of a buffered particle -/
theorem addOne_spec (pos : α → Pt K) (inBox : α → Bool) (ri : Pt K → Nat) (rc : Nat → Cell K) (fuel : Nat)
    (forest : List (T K)) (arr : List α) (p : α) (forest' : List (T K)) (arr' : List α)
    (hok : ForestOK (psOf pos arr) rc forest arr.length)
    (hin : inBox p = true) (hr : ri (pos p) < forest.length) (hc : In (pos p) (rc (ri (pos p))))
    (h : addOne pos inBox ri rc fuel (forest, arr) p = .ok (forest', arr')) :
    arr' = arr ++ [p] ∧ forest'.length = forest.length ∧ ForestOK (psOf pos arr') rc forest' arr'.length := by
  obtain ⟨hwf, hperm⟩ := hok
  have hlt : ∀ r (h : r < forest.length), ∀ q ∈ leaves forest[r], q < arr.length := by
    intro r hr q hq
    have : q ∈ forest.flatMap leaves := List.mem_flatMap.mpr ⟨forest[r], List.getElem_mem hr, hq⟩
    exact List.mem_range.mp (hperm.mem_iff.mp this)
  have hwf' : ∀ r (h : r < forest.length), WF (psOf pos (arr ++ [p])) false (rc r) forest[r] := by
    intro r hr
    exact WF_congr _ _ false _ _ (hwf r hr) (fun q hq => psOf_append_left pos arr p q (hlt r hr q hq))
  simp only [addOne, hin, Bool.not_true, Bool.false_eq_true, if_false] at h
  have hgd : forest.getD (ri (pos p)) T.nil = forest[ri (pos p)] := by
    simp [List.getD_eq_getElem?_getD, hr]
  rw [hgd] at h
  cases ha : add (psOf pos (arr ++ [p])) fuel forest[ri (pos p)] (rc (ri (pos p))) arr.length with
  | error e => simp [ha] at h
  | ok t =>
    simp only [ha, Except.ok.injEq, Prod.mk.injEq] at h
    obtain ⟨hf, harr⟩ := h
    subst hf harr
    have hnew : In (psOf pos (arr ++ [p]) arr.length) (rc (ri (pos p))) := by
      rw [psOf_append_new]; exact hc
    obtain ⟨hwt, hpt⟩ := add_spec _ false fuel _ _ _ t (hwf' _ hr) hnew ha
    refine ⟨rfl, by simp, ?_, ?_⟩
    · intro r hr'
      simp only [List.length_set] at hr'
      rw [List.getElem_set]
      by_cases e : ri (pos p) = r
      · subst e; simp only [if_true]; exact hwt
      · simp only [e, if_false]; exact hwf' r hr'
    · have := flatMap_set_perm forest leaves _ hr t [arr.length] (by simpa using hpt)
      refine this.trans ?_
      simp only [List.length_append, List.length_singleton, List.range_succ, List.singleton_append]
      exact (List.Perm.cons _ hperm).trans (List.perm_append_singleton _ _).symm

/-- the loop `for(i<N_reinsert) reb_simulation_add(r, reinsert[i])` -/
theorem reinsertA_spec (pos : α → Pt K) (inBox : α → Bool) (ri : Pt K → Nat) (rc : Nat → Cell K) (fuel : Nat) :
    ∀ (ev : List α) (forest : List (T K)) (arr : List α) (forest' : List (T K)) (arr' : List α),
    ForestOK (psOf pos arr) rc forest arr.length →
    (∀ p ∈ ev, inBox p = true ∧ ri (pos p) < forest.length ∧ In (pos p) (rc (ri (pos p)))) →
    ev.foldlM (addOne pos inBox ri rc fuel) (forest, arr) = .ok (forest', arr') →
    arr' = arr ++ ev ∧ forest'.length = forest.length ∧ ForestOK (psOf pos arr') rc forest' arr'.length := by
  intro ev
  induction ev with
  | nil =>
    intro forest arr forest' arr' hok _ h
    simp [pure, Except.pure] at h
    obtain ⟨h1, h2⟩ := h
    subst h1 h2
    exact ⟨by simp, rfl, hok⟩
  | cons p ev ih =>
    intro forest arr forest' arr' hok hev h
    simp only [List.foldlM_cons] at h
    cases h1 : addOne pos inBox ri rc fuel (forest, arr) p with
    | error e => simp [h1, bind, Except.bind] at h
    | ok s1 =>
      obtain ⟨f1, a1⟩ := s1
      simp only [h1, bind, Except.bind] at h
      obtain ⟨hp1, hp2, hp3⟩ := hev p (by simp)
      obtain ⟨ha1, hl1, hok1⟩ := addOne_spec pos inBox ri rc fuel forest arr p f1 a1 hok hp1 hp2 hp3 h1
      obtain ⟨ha2, hl2, hok2⟩ := ih f1 a1 forest' arr' hok1
        (fun q hq => by rw [hl1]; exact hev q (by simp [hq])) h
      refine ⟨by rw [ha2, ha1]; simp, by rw [hl2, hl1], hok2⟩

end RV.C15
