import RV.Scalar
import Mathlib.Algebra.Field.Basic
import Mathlib.Tactic.FieldSimp
import Mathlib.Tactic.Ring
import Mathlib.Tactic.LinearCombination
/-
  The exact-arithmetic instance of the operation-only scalar class: any field is a
  `Scalar`.  All theorems in RV/Props that say "in exact arithmetic" are about the very
  same model definitions that the drivers run on `Float`, instantiated here.
-/
namespace RV
variable {K : Type} [Field K]

instance fieldScalar : Scalar K where
  zero := 0
  one := 1
  add := (· + ·)
  sub := (· - ·)
  mul := (· * ·)
  div := (· / ·)
  neg := (- ·)
  ofNat := fun n => (n : K)

@[simp] theorem sc_zero : (Scalar.zero : K) = 0 := rfl
@[simp] theorem sc_one : (Scalar.one : K) = 1 := rfl
@[simp] theorem sc_add (a b : K) : Scalar.add a b = a + b := rfl
@[simp] theorem sc_sub (a b : K) : Scalar.sub a b = a - b := rfl
@[simp] theorem sc_mul (a b : K) : Scalar.mul a b = a * b := rfl
@[simp] theorem sc_div (a b : K) : Scalar.div a b = a / b := rfl
@[simp] theorem sc_neg (a : K) : Scalar.neg a = -a := rfl
@[simp] theorem sc_ofNat (n : Nat) : (Scalar.ofNat n : K) = (n : K) := rfl
@[simp] theorem sc_hadd (a b : K) : @HAdd.hAdd K K K (@instHAdd K Scalar.instAdd) a b = a + b := rfl
@[simp] theorem sc_hsub (a b : K) : @HSub.hSub K K K (@instHSub K Scalar.instSub) a b = a - b := rfl
@[simp] theorem sc_hmul (a b : K) : @HMul.hMul K K K (@instHMul K Scalar.instMul) a b = a * b := rfl
@[simp] theorem sc_hdiv (a b : K) : @HDiv.hDiv K K K (@instHDiv K Scalar.instDiv) a b = a / b := rfl
@[simp] theorem sc_hneg (a : K) : @Neg.neg K Scalar.instNeg a = -a := rfl

end RV
