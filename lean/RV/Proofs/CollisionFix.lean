import Mathlib.Data.List.Basic
import Mathlib.Data.List.Nodup
import Mathlib.Data.List.Perm.Basic
import RV.Model.Collision
/-
  Index fix-ups of the post-search driver (DESIGN appendix A4): helper definitions and
  lemmas for RV/Props/C13.lean.

  Every particle carries an identity `ident p : ι`.  `denote l p` is the identity that the
  C index `p` names in the identity list `l` of the current particle array.
-/
set_option linter.unusedVariables false
set_option linter.unusedSimpArgs false
set_option linter.unusedSectionVars false
namespace RV.Collision
variable {α G ι : Type}

/-- identity named by the C index `p` (none when out of range) -/
def denote (l : List ι) (p : Int) : Option ι := if p < 0 then none else l[p.toNat]?

theorem denote_nat (l : List ι) (p : Nat) : denote l (p : Int) = l[p]? := by
  have : ¬ ((p : Int) < 0) := by omega
  simp [denote, this]

theorem denote_some {l : List ι} {p : Int} {a : ι} (h : denote l p = some a) :
    ∃ n : Nat, p = n ∧ n < l.length ∧ l[n]? = some a := by
  unfold denote at h
  split at h
  · cases h
  · rename_i hp
    refine ⟨p.toNat, by omega, ?_, h⟩
    exact (List.getElem?_eq_some_iff.mp h).1

theorem denote_neg1 (l : List ι) : denote l (-1) = none := by simp [denote]

/-- the particle array after `reb_simulation_remove_particle(index=i)` without a tree:
    shift down (keep_sorted) or move the last particle into the hole -/
def rmList {β : Type} (ks : Bool) (l : List β) (i : Nat) : List β :=
  if ks then l.eraseIdx i
  else match l.getLast? with
    | none => l
    | some z => (l.set i z).dropLast

/-- the index arithmetic applied to a surviving index `p` after particle `idx` was removed -/
def fixIdx (ks : Bool) (idx nNew p : Int) : Int :=
  if ks then (if p > idx then p - 1 else p) else (if p == nNew then idx else p)

theorem rmList_map {β γ : Type} (f : β → γ) (ks : Bool) (l : List β) (i : Nat) :
    (rmList ks l i).map f = rmList ks (l.map f) i := by
  unfold rmList
  cases ks
  · simp only [Bool.false_eq_true, if_false, List.getLast?_map]
    cases h : l.getLast? with
    | none => simp
    | some z => simp [List.map_set, List.map_dropLast]
  · simp [List.eraseIdx_map]

theorem rmList_length {β : Type} (ks : Bool) (l : List β) (i : Nat) (hi : i < l.length) :
    (rmList ks l i).length = l.length - 1 := by
  unfold rmList
  cases ks
  · simp only [Bool.false_eq_true, if_false]
    cases h : l.getLast? with
    | none => simp [List.getLast?_eq_none_iff] at h; subst h; simp at hi
    | some z => simp
  · simp [List.length_eraseIdx, hi]

/-- A4: a surviving index, corrected by the code's arithmetic, names the same identity in the
    new array as before (both removal modes) -/
theorem rmList_getElem? (ks : Bool) (l : List ι) (i p : Nat) (hi : i < l.length)
    (hp : p < l.length) (hne : p ≠ i) :
    denote (rmList ks l i) (fixIdx ks (i : Int) ((l.length : Int) - 1) (p : Int)) = l[p]? := by
  unfold rmList fixIdx
  cases ks
  · simp only [Bool.false_eq_true, if_false]
    have hlast : l.getLast? = l[l.length - 1]? := List.getLast?_eq_getElem?
    have hl1 : l.length - 1 < l.length := by omega
    rw [hlast, List.getElem?_eq_getElem hl1]
    simp only
    by_cases hpl : p = l.length - 1
    · have : ((p : Int) == (l.length : Int) - 1) = true := by simp; omega
      rw [this]; simp only [if_true]
      rw [denote_nat, List.getElem?_dropLast, List.length_set, List.getElem?_set]
      have h1 : i < l.length - 1 := by omega
      simp [h1, hi, hpl]
    · have : ((p : Int) == (l.length : Int) - 1) = false := by simp; omega
      rw [this]; simp only [Bool.false_eq_true, if_false]
      rw [denote_nat, List.getElem?_dropLast, List.length_set, List.getElem?_set]
      have h1 : p < l.length - 1 := by omega
      have h2 : ¬ i = p := fun h => hne h.symm
      simp [h1, h2]
  · simp only [if_true]
    by_cases hgt : p > i
    · have : ((p : Int) > (i : Int)) := by omega
      simp only [this, if_true]
      have e : (p : Int) - 1 = ((p - 1 : Nat) : Int) := by omega
      rw [e, denote_nat, List.getElem?_eraseIdx]
      have h1 : ¬ (p - 1 < i) := by omega
      have h2 : p - 1 + 1 = p := by omega
      simp [h1, h2]
    · have : ¬ ((p : Int) > (i : Int)) := by omega
      simp only [this, if_false]
      rw [denote_nat, List.getElem?_eraseIdx]
      have h1 : p < i := by omega
      simp [h1]

theorem rmList_perm_erase [DecidableEq ι] (ks : Bool) (l : List ι) (i : Nat) (hi : i < l.length)
    (hn : l.Nodup) : (rmList ks l i).Perm (l.erase l[i]) := by
  rw [hn.erase_getElem i hi]
  unfold rmList
  cases ks
  · simp only [Bool.false_eq_true, if_false]
    have hne : l ≠ [] := by intro h; subst h; simp at hi
    have hlast : l.getLast? = some (l.getLast hne) := List.getLast?_eq_some_getLast hne
    rw [hlast]
    simp only
    -- l = d ++ [z]
    have hd := List.dropLast_concat_getLast hne
    generalize l.getLast hne = z at *
    generalize hdd : l.dropLast = d at *
    subst hd
    by_cases hid : i < d.length
    · rw [List.set_append_left _ _ hid, List.dropLast_concat, List.eraseIdx_append_of_lt_length hid]
      rw [List.set_eq_take_append_cons_drop, if_pos hid, List.eraseIdx_eq_take_drop_succ]
      have : (List.take i d ++ z :: List.drop (i + 1) d).Perm (List.take i d ++ (List.drop (i + 1) d ++ [z])) := by
        apply List.Perm.append_left
        simpa using (List.perm_append_comm (l₁ := [z]) (l₂ := List.drop (i+1) d))
      simpa [List.append_assoc] using this
    · have hlen : i = d.length := by simp at hi; omega
      subst hlen
      simp [List.eraseIdx_append_of_length_le]
  · simp

theorem rmList_sorted_eq_erase [DecidableEq ι] (l : List ι) (i : Nat) (hi : i < l.length)
    (hn : l.Nodup) : rmList true l i = l.erase l[i] := by
  rw [hn.erase_getElem i hi]; simp [rmList]

/-! ### tracking of one pending entry -/

/-- entry `e` tracks the pair of identities `d` it denoted when it was found: void iff one of
    the two has been removed (`dead`), otherwise it still names exactly these two -/
def Tracks (l dead : List ι) (e : Coll G) (d : ι × ι) : Prop :=
  ((d.1 ∈ dead ∨ d.2 ∈ dead) ∧ e.p1 = -1 ∧ e.p2 = -1) ∨
  (d.1 ∉ dead ∧ d.2 ∉ dead ∧ denote l e.p1 = some d.1 ∧ denote l e.p2 = some d.2)

theorem nodup_index_eq {l : List ι} (hn : l.Nodup) {i j : Nat} {a : ι}
    (hi : l[i]? = some a) (hj : l[j]? = some a) : i = j := by
  obtain ⟨h1, e1⟩ := List.getElem?_eq_some_iff.mp hi
  obtain ⟨h2, e2⟩ := List.getElem?_eq_some_iff.mp hj
  exact (hn.getElem_inj_iff).mp (e1.trans e2.symm)

theorem voidIfNames_of_not (idx : Int) (e : Coll G) (hv : (e.p1 == idx || e.p2 == idx) = false) :
    voidIfNames idx e = e := by simp [voidIfNames, hv]

theorem voidIfNames_of_named (idx : Int) (e : Coll G) (hv : (e.p1 == idx || e.p2 == idx) = true) :
    voidIfNames idx e = { e with p1 := -1, p2 := -1 } := by simp [voidIfNames, hv]

theorem fixEntry_of_not (ks : Bool) (idx nNew : Int) (e : Coll G)
    (hv : (e.p1 == idx || e.p2 == idx) = false) :
    (fixEntry ks idx nNew e).p1 = fixIdx ks idx nNew e.p1 ∧
    (fixEntry ks idx nNew e).p2 = fixIdx ks idx nNew e.p2 := by
  unfold fixEntry fixIdx
  rw [voidIfNames_of_not idx e hv]
  cases ks
  · simp only [Bool.false_eq_true, if_false]
    constructor <;> split <;> split <;> simp_all
  · simp only [if_true]
    constructor <;> split <;> split <;> simp_all

theorem fixEntry_void (ks : Bool) (idx nNew : Int) (h0 : 0 ≤ idx) (hN : 0 ≤ nNew) (e : Coll G)
    (h1 : e.p1 = -1) (h2 : e.p2 = -1) :
    (fixEntry ks idx nNew e).p1 = -1 ∧ (fixEntry ks idx nNew e).p2 = -1 := by
  have e1 : ((-1 : Int) == idx) = false := by simp; omega
  have e2 : ¬ ((-1 : Int) > idx) := by omega
  have e3 : ((-1 : Int) == nNew) = false := by simp; omega
  unfold fixEntry voidIfNames
  cases ks <;> simp [h1, h2, e1, e2, e3]

theorem fixEntry_named (ks : Bool) (idx nNew : Int) (h0 : 0 ≤ idx) (hN : 0 ≤ nNew) (e : Coll G)
    (hv : (e.p1 == idx || e.p2 == idx) = true) :
    (fixEntry ks idx nNew e).p1 = -1 ∧ (fixEntry ks idx nNew e).p2 = -1 := by
  have e1 : ((-1 : Int) == idx) = false := by simp; omega
  have e2 : ¬ ((-1 : Int) > idx) := by omega
  have e3 : ((-1 : Int) == nNew) = false := by simp; omega
  unfold fixEntry
  rw [voidIfNames_of_named idx e hv]
  cases ks <;> simp [e1, e2, e3]

/-- collision.c:418-441: after particle `i` (identity `x`) was removed without a tree, a
    fixed-up later entry tracks the same pair w.r.t. the new array and `dead ++ [x]` -/
theorem fixEntry_tracks (ks : Bool) (l dead : List ι) (hn : l.Nodup) (i : Nat) (x : ι)
    (hix : l[i]? = some x) (e : Coll G) (d : ι × ι) (h : Tracks l dead e d) :
    Tracks (rmList ks l i) (dead ++ [x]) (fixEntry ks (i : Int) ((l.length : Int) - 1) e) d := by
  have hi : i < l.length := (List.getElem?_eq_some_iff.mp hix).1
  rcases h with ⟨hd, h1, h2⟩ | ⟨ha, hb, h1, h2⟩
  · left
    refine ⟨by rcases hd with h | h <;> simp [h], ?_⟩
    exact fixEntry_void ks _ _ (by omega) (by omega) e h1 h2
  · obtain ⟨n1, hp1, hn1, hg1⟩ := denote_some h1
    obtain ⟨n2, hp2, hn2, hg2⟩ := denote_some h2
    by_cases hx : d.1 = x ∨ d.2 = x
    · left
      refine ⟨by rcases hx with h | h <;> simp [h], ?_⟩
      have : (e.p1 == (i : Int) || e.p2 == (i : Int)) = true := by
        rcases hx with h | h
        · have := nodup_index_eq hn hg1 (h ▸ hix); simp [hp1, this]
        · have := nodup_index_eq hn hg2 (h ▸ hix); simp [hp2, this]
      exact fixEntry_named ks _ _ (by omega) (by omega) e this
    · right
      push Not at hx
      have hne1 : n1 ≠ i := by
        intro h; subst h; rw [hix] at hg1; exact hx.1 (Option.some.inj hg1).symm
      have hne2 : n2 ≠ i := by
        intro h; subst h; rw [hix] at hg2; exact hx.2 (Option.some.inj hg2).symm
      have hv : (e.p1 == (i : Int) || e.p2 == (i : Int)) = false := by
        simp [hp1, hp2]; omega
      have r1 := rmList_getElem? ks l i n1 hi hn1 hne1
      have r2 := rmList_getElem? ks l i n2 hi hn2 hne2
      refine ⟨by simp [ha]; exact hx.1, by simp [hb]; exact hx.2, ?_, ?_⟩
      · rw [← hg1, ← r1, (fixEntry_of_not ks _ _ e hv).1, hp1]
      · rw [← hg2, ← r2, (fixEntry_of_not ks _ _ e hv).2, hp2]

/-- collision.c:399-406: with a tree the array is unchanged and entries naming the flagged
    particle are voided -/
theorem voidIfNames_tracks (l dead : List ι) (hn : l.Nodup) (i : Nat) (x : ι)
    (hix : l[i]? = some x) (e : Coll G) (d : ι × ι) (h : Tracks l dead e d) :
    Tracks l (dead ++ [x]) (voidIfNames (i : Int) e) d := by
  rcases h with ⟨hd, h1, h2⟩ | ⟨ha, hb, h1, h2⟩
  · left
    refine ⟨by rcases hd with h | h <;> simp [h], ?_⟩
    have e1 : ((-1 : Int) == (i : Int)) = false := by
      rw [beq_eq_false_iff_ne]; omega
    simp [voidIfNames, h1, h2, e1]
  · obtain ⟨n1, hp1, hn1, hg1⟩ := denote_some h1
    obtain ⟨n2, hp2, hn2, hg2⟩ := denote_some h2
    by_cases hx : d.1 = x ∨ d.2 = x
    · left
      refine ⟨by rcases hx with h | h <;> simp [h], ?_⟩
      have : (e.p1 == (i : Int) || e.p2 == (i : Int)) = true := by
        rcases hx with h | h
        · have := nodup_index_eq hn hg1 (h ▸ hix); simp [hp1, this]
        · have := nodup_index_eq hn hg2 (h ▸ hix); simp [hp2, this]
      simp [voidIfNames, this]
    · right
      push Not at hx
      have hne1 : n1 ≠ i := by
        intro h; subst h; rw [hix] at hg1; exact hx.1 (Option.some.inj hg1).symm
      have hne2 : n2 ≠ i := by
        intro h; subst h; rw [hix] at hg2; exact hx.2 (Option.some.inj hg2).symm
      have hv : (e.p1 == (i : Int) || e.p2 == (i : Int)) = false := by
        simp [hp1, hp2]; omega
      refine ⟨?_, ?_, ?_, ?_⟩
      · simp [ha]; exact hx.1
      · simp [hb]; exact hx.2
      · simpa [voidIfNames, hv] using h1
      · simpa [voidIfNames, hv] using h2

/-! ### `reb_simulation_remove_particle` in the supported configurations -/

/-- the configurations in which the driver's removals are accepted: no variational
    particles, and not (keep_sorted together with a tree) — that combination is refused by
    `reb_simulation_remove_particle` after it has already shifted the array (F4) -/
structure Cfg (ks : Bool) (s : Sim α) : Prop where
  nvar : s.nVar = 0
  hyb : s.hybrid = true → ks = true
  mode : s.tree = false ∨ ks = false

theorem removeParticle_notree (v : RmVariant) (flag : α → α) (s : Sim α) (ks : Bool) (i : Nat)
    (hi : i < s.ps.length) (hc : Cfg ks s) (ht : s.tree = false) :
    ∃ s', removeParticle v flag s (i : Int) ks = (s', true) ∧ s'.ps = rmList ks s.ps i ∧
      s'.tree = s.tree ∧ s'.nVar = s.nVar ∧ s'.hybrid = s.hybrid := by
  have hks : (ks || s.hybrid) = ks := by
    cases hk : ks <;> cases hh : s.hybrid <;> simp
    have := hc.hyb hh; simp [hk] at this
  have hr : (decide ((i : Int) ≥ (s.ps.length : Int)) || decide ((i : Int) < 0)) = false := by
    simp; omega
  unfold removeParticle
  simp only [hks, hr, Bool.and_false, Bool.false_eq_true, if_false]
  by_cases h1 : s.ps.length = 1
  · have hi0 : i = 0 := by omega
    subst hi0
    obtain ⟨a, ha⟩ := List.length_eq_one_iff.mp h1
    have hN1 : (((1 : Nat) : Int) == 1) = true := rfl
    refine ⟨{ s with ps := []
                     nActive := if v.lastResetsNActive && s.nActive > 0 then 0 else s.nActive
                     tree := if v.lastDeletesTree then false else s.tree }, ?_, ?_, ?_, rfl, rfl⟩
    · simp only [h1, hN1, if_true]
    · cases ks <;> simp [rmList, ha]
    · simp [ht]
  · have hN : ((s.ps.length : Int) == 1) = false := by
      rw [beq_eq_false_iff_ne]; omega
    simp only [hN, hc.nvar, Bool.false_eq_true, if_false, bne_self_eq_false, ht, Bool.and_false]
    cases ks
    · simp only [Bool.false_eq_true, if_false]
      cases hl : s.ps.getLast? with
      | none =>
        exfalso
        rw [List.getLast?_eq_none_iff] at hl
        rw [hl] at hi; simp at hi
      | some z =>
        refine ⟨_, rfl, ?_, rfl, rfl, rfl⟩
        simp [rmList, hl]
    · simp only [if_true]
      refine ⟨_, rfl, ?_, rfl, rfl, rfl⟩
      simp [rmList]

theorem removeParticle_tree (v : RmVariant) (flag : α → α) (s : Sim α) (i : Nat)
    (hi : i < s.ps.length) (h2 : 2 ≤ s.ps.length) (hc : Cfg false s) (ht : s.tree = true) :
    ∃ s', removeParticle v flag s (i : Int) false = (s', true) ∧ s'.ps = s.ps.modify i flag ∧
      s'.tree = s.tree ∧ s'.nVar = s.nVar ∧ s'.hybrid = s.hybrid := by
  have hh : s.hybrid = false := by
    cases h : s.hybrid
    · rfl
    · have := hc.hyb h; simp at this
  unfold removeParticle
  have hN : ((s.ps.length : Int) == 1) = false := by
    rw [beq_eq_false_iff_ne]; omega
  have hr : (decide ((i : Int) ≥ (s.ps.length : Int)) || decide ((i : Int) < 0)) = false := by
    simp; omega
  simp only [hh, Bool.or_false, hN, hr, hc.nvar, Bool.false_eq_true, if_false,
    bne_self_eq_false, ht, if_true, Bool.and_false]
  exact ⟨_, rfl, by simp, rfl, rfl, rfl⟩

section step
variable (ident : α → ι)

/-- identity list of the particle array -/
def ids (s : Sim α) : List ι := s.ps.map ident

/-- relation between the identity lists before and after the removal of identity `x` -/
def StepRel [DecidableEq ι] (ks tree : Bool) (l : List ι) (x : ι) (l' : List ι) : Prop :=
  if tree then l' = l else if ks then l' = l.erase x else l'.Perm (l.erase x)

theorem modify_map_ident (flag : α → α) (hflag : ∀ a, ident (flag a) = ident a) (ps : List α)
    (i : Nat) : (ps.modify i flag).map ident = ps.map ident := by
  apply List.ext_getElem?
  intro j
  simp only [List.getElem?_map, List.getElem?_modify]
  cases ps[j]? with
  | none => rfl
  | some a => by_cases h : i = j <;> simp [h, hflag]

/-- one accepted removal + fix-up (either half of collision.c:394-485) -/
theorem removeAndFix_spec [DecidableEq ι] (v : RmVariant) (flag : α → α) (hflag : ∀ a, ident (flag a) = ident a)
    (ks : Bool) (s : Sim α) (hc : Cfg ks s) (hn : (ids ident s).Nodup)
    (hlen : s.tree = true → 2 ≤ s.ps.length)
    (idx : Int) (x : ι) (hx : denote (ids ident s) idx = some x)
    (cur : Int) (rest : List (Coll G)) (ds : List (ι × ι)) (dead : List ι)
    (htr : List.Forall₂ (Tracks (ids ident s) dead) rest ds) :
    ∃ s' cur' rest', removeAndFix v flag ks s idx cur rest = (s', cur', rest') ∧
      Cfg ks s' ∧ s'.tree = s.tree ∧ (ids ident s').Nodup ∧ s'.ps.length ≤ s.ps.length ∧
      (s.tree = true → s'.ps.length = s.ps.length) ∧
      List.Forall₂ (Tracks (ids ident s') (dead ++ [x])) rest' ds ∧
      (∀ y, y ≠ x → denote (ids ident s) cur = some y → denote (ids ident s') cur' = some y) ∧
      StepRel ks s.tree (ids ident s) x (ids ident s') := by
  obtain ⟨i, hidx, hi, hgi⟩ := denote_some hx
  have hi' : i < s.ps.length := by simpa [ids] using hi
  subst hidx
  cases ht : s.tree
  · -- no tree
    obtain ⟨s', hrm, hps, htree, hnv, hhy⟩ := removeParticle_notree v flag s ks i hi' hc ht
    have hids : ids ident s' = rmList ks (ids ident s) i := by
      simp only [ids, hps, rmList_map]
    have hlen' : s'.ps.length = s.ps.length - 1 := by rw [hps, rmList_length ks _ i hi']
    have hnew : ((s'.ps.length : Int) - (s'.nVar : Int)) = ((ids ident s).length : Int) - 1 := by
      rw [hnv, hc.nvar, hlen']; simp [ids]; omega
    have hperm := rmList_perm_erase ks (ids ident s) i hi hn
    have hxi : (ids ident s)[i] = x := by
      have := List.getElem?_eq_some_iff.mp hgi; exact this.2
    refine ⟨s', fixIdx ks (i : Int) (((ids ident s).length : Int) - 1) cur,
      rest.map (fixEntry ks (i : Int) (((ids ident s).length : Int) - 1)), ?_, ?_, ?_, ?_, ?_, ?_, ?_, ?_, ?_⟩
    · unfold removeAndFix
      rw [hrm]
      simp only [if_true, htree, ht, Bool.false_eq_true, if_false, hnew]
      cases ks <;> simp [fixIdx]
    · exact ⟨by rw [hnv]; exact hc.nvar, by rw [hhy]; exact hc.hyb, by rw [htree]; exact hc.mode⟩
    · rw [htree, ht]
    · rw [hids]; exact (hperm.nodup_iff).mpr (hn.erase _)
    · omega
    · intro h; cases h
    · rw [hids]
      clear hrm
      induction htr with
      | nil => exact List.Forall₂.nil
      | cons h _ ih => exact List.Forall₂.cons (fixEntry_tracks ks _ dead hn i x hgi _ _ h) ih
    · intro y hy hcur
      obtain ⟨n, hc1, hn1, hg1⟩ := denote_some hcur
      have hne : n ≠ i := by
        intro h; subst h; rw [hgi] at hg1; exact hy (Option.some.inj hg1).symm
      rw [hids, hc1, rmList_getElem? ks _ i n hi hn1 hne, hg1]
    · unfold StepRel
      simp only [Bool.false_eq_true, if_false]
      cases ks
      · simp only [Bool.false_eq_true, if_false]; rw [hids, ← hxi]; exact hperm
      · simp only [if_true]; rw [hids, ← hxi]; exact rmList_sorted_eq_erase _ i hi hn
  · -- tree: only flagged
    have hks : ks = false := by
      rcases hc.mode with h | h
      · rw [ht] at h; cases h
      · exact h
    subst hks
    obtain ⟨s', hrm, hps, htree, hnv, hhy⟩ := removeParticle_tree v flag s i hi' (hlen ht) hc ht
    have hids : ids ident s' = ids ident s := by
      simp only [ids, hps]; exact modify_map_ident ident flag hflag _ _
    refine ⟨s', cur, rest.map (voidIfNames (i : Int)), ?_, ?_, ?_, ?_, ?_, ?_, ?_, ?_, ?_⟩
    · unfold removeAndFix
      rw [hrm]
      simp only [if_true, htree, ht]
    · exact ⟨by rw [hnv]; exact hc.nvar, by rw [hhy]; exact hc.hyb, Or.inr rfl⟩
    · rw [htree, ht]
    · rw [hids]; exact hn
    · rw [hps]; simp
    · intro _; rw [hps]; simp
    · rw [hids]
      clear hrm
      induction htr with
      | nil => exact List.Forall₂.nil
      | cons h _ ih => exact List.Forall₂.cons (voidIfNames_tracks _ dead hn i x hgi _ _ h) ih
    · intro y _ hcur; rw [hids]; exact hcur
    · unfold StepRel; simp only [if_true]; exact hids

/-! ### one iteration of the driver loop -/

/-- what the theorem assumes about the resolve callback: it may change particle payloads
    (and `N_active`, error count) but does not add, remove or reorder particles -/
def ResOK (res : Sim α → Coll G → Sim α × Nat) : Prop :=
  ∀ s c, ids ident (res s c).1 = ids ident s ∧ (res s c).1.tree = s.tree ∧
    (res s c).1.nVar = s.nVar ∧ (res s c).1.hybrid = s.hybrid

/-- identities the resolver asked to remove -/
def remOf (a b : ι) (out : Nat) : List ι :=
  (if out &&& 1 != 0 then [a] else []) ++ (if out &&& 2 != 0 then [b] else [])

/-- identity list `l'` after the identities `rem` were removed from `l`:
    unchanged with a tree (particles only flagged), the same order minus `rem` when sorted,
    a permutation of that otherwise -/
def IdsAfter [DecidableEq ι] (ks tree : Bool) (l rem l' : List ι) : Prop :=
  if tree then l' = l else if ks then l' = rem.foldl List.erase l
  else l'.Perm (rem.foldl List.erase l)

theorem foldl_erase_perm [DecidableEq ι] (rem : List ι) {l l' : List ι} (h : l'.Perm l) :
    (rem.foldl List.erase l').Perm (rem.foldl List.erase l) := by
  induction rem generalizing l l' with
  | nil => exact h
  | cons x r ih => exact ih (h.erase x)

theorem IdsAfter.trans [DecidableEq ι] {ks tree : Bool} {l0 dead l rem l' : List ι}
    (h1 : IdsAfter ks tree l0 dead l) (h2 : IdsAfter ks tree l rem l') :
    IdsAfter ks tree l0 (dead ++ rem) l' := by
  unfold IdsAfter at *
  cases tree
  · cases ks
    · simp only [Bool.false_eq_true, if_false] at *
      rw [List.foldl_append]
      exact h2.trans (foldl_erase_perm rem h1)
    · simp only [if_true, Bool.false_eq_true, if_false] at *
      rw [List.foldl_append, ← h1, h2]
  · simp only [if_true] at *
    rw [h2, h1]

theorem IdsAfter.refl [DecidableEq ι] (ks tree : Bool) (l : List ι) : IdsAfter ks tree l [] l := by
  unfold IdsAfter; cases tree <;> cases ks <;> simp

theorem StepRel.idsAfter [DecidableEq ι] {ks tree : Bool} {l l' : List ι} {x : ι}
    (h : StepRel ks tree l x l') : IdsAfter ks tree l [x] l' := by
  unfold StepRel at h; unfold IdsAfter
  cases tree <;> cases ks <;> simpa using h

theorem lookup_of_denote {s : Sim α} {p : Int} {a : ι} (h : denote (ids ident s) p = some a) :
    ∃ pa, lookup s p = some pa ∧ ident pa = a := by
  unfold denote ids at h
  unfold lookup
  split at h
  · cases h
  · rename_i hp
    simp only [hp, if_false]
    rw [List.getElem?_map] at h
    cases hq : s.ps[p.toNat]? with
    | none => rw [hq] at h; cases h
    | some pa => rw [hq] at h; exact ⟨pa, rfl, Option.some.inj h⟩

theorem two_le_of_denote {l : List ι} {p q : Int} {a b : ι} (hab : a ≠ b)
    (h1 : denote l p = some a) (h2 : denote l q = some b) : 2 ≤ l.length := by
  obtain ⟨n1, _, hn1, hg1⟩ := denote_some h1
  obtain ⟨n2, _, hn2, hg2⟩ := denote_some h2
  have : n1 ≠ n2 := by
    intro h; subst h; rw [hg1] at hg2; exact hab (Option.some.inj hg2)
  omega

/-- a void entry (or one naming a removed identity) is skipped: collision.c:389 -/
theorem processOne_void (v : RmVariant) (flag : α → α) (res : Sim α → Coll G → Sim α × Nat) (ks : Bool)
    (s : Sim α) (c : Coll G) (rest : List (Coll G)) (h1 : c.p1 = -1) :
    processOne v flag res ks s c rest = (s, rest, none) := by
  unfold processOne; simp [h1]

/-- a live entry: the resolver is called with exactly the two identities the entry denoted,
    the requested identities are removed, and every later entry keeps tracking its pair -/
theorem processOne_live [DecidableEq ι] (v : RmVariant) (flag : α → α) (hflag : ∀ a, ident (flag a) = ident a)
    (res : Sim α → Coll G → Sim α × Nat) (hres : ResOK ident res)
    (ks : Bool) (s : Sim α) (hc : Cfg ks s) (hn : (ids ident s).Nodup)
    (c : Coll G) (a b : ι) (hab : a ≠ b)
    (h1 : denote (ids ident s) c.p1 = some a) (h2 : denote (ids ident s) c.p2 = some b)
    (rest : List (Coll G)) (ds : List (ι × ι)) (dead : List ι)
    (htr : List.Forall₂ (Tracks (ids ident s) dead) rest ds) :
    ∃ s' rest' pa pb, processOne v flag res ks s c rest =
        (s', rest', some ⟨c, some pa, some pb, (res s c).2, s.nActive, s.ps.length - s.nVar⟩) ∧
      ident pa = a ∧ ident pb = b ∧
      Cfg ks s' ∧ s'.tree = s.tree ∧ (ids ident s').Nodup ∧
      List.Forall₂ (Tracks (ids ident s') (dead ++ remOf a b (res s c).2)) rest' ds ∧
      IdsAfter ks s.tree (ids ident s) (remOf a b (res s c).2) (ids ident s') := by
  obtain ⟨pa, hla, hpa⟩ := lookup_of_denote ident h1
  obtain ⟨pb, hlb, hpb⟩ := lookup_of_denote ident h2
  obtain ⟨n1, hp1, _, _⟩ := denote_some h1
  obtain ⟨n2, hp2, _, _⟩ := denote_some h2
  have hcond : (c.p1 != -1 && c.p2 != -1) = true := by
    simp only [Bool.and_eq_true, bne_iff_ne]; omega
  obtain ⟨hri, hrt, hrv, hrh⟩ := hres s c
  rcases hrs : res s c with ⟨s1, out⟩
  rw [hrs] at hri hrt hrv hrh
  simp only at hri hrt hrv hrh
  have hc1 : Cfg ks s1 := ⟨by rw [hrv]; exact hc.nvar, by rw [hrh]; exact hc.hyb, by rw [hrt]; exact hc.mode⟩
  have hn1 : (ids ident s1).Nodup := by rw [hri]; exact hn
  have hlen1 : s1.tree = true → 2 ≤ s1.ps.length := by
    intro _
    have := two_le_of_denote hab h1 h2
    have e : s1.ps.length = (ids ident s1).length := by simp [ids]
    rw [e, hri]; exact this
  have htr1 : List.Forall₂ (Tracks (ids ident s1) dead) rest ds := by rw [hri]; exact htr
  have h1' : denote (ids ident s1) c.p1 = some a := by rw [hri]; exact h1
  have h2' : denote (ids ident s1) c.p2 = some b := by rw [hri]; exact h2
  unfold processOne
  simp only [hcond, if_true, hrs, hla, hlb]
  by_cases o1 : (out &&& 1 != 0) = true
  · obtain ⟨s2, p2, rest2, e2, hc2, ht2, hn2, hle2, hlt2, htr2, hcur2, hst2⟩ :=
      removeAndFix_spec ident v flag hflag ks s1 hc1 hn1 hlen1 c.p1 a h1' c.p2 rest ds dead htr1
    have hb2 : denote (ids ident s2) p2 = some b := hcur2 b (Ne.symm hab) h2'
    by_cases o2 : (out &&& 2 != 0) = true
    · have hlen2 : s2.tree = true → 2 ≤ s2.ps.length := by
        intro h; rw [ht2] at h; rw [hlt2 h]; exact hlen1 h
      obtain ⟨s3, p3, rest3, e3, hc3, ht3, hn3, hle3, hlt3, htr3, hcur3, hst3⟩ :=
        removeAndFix_spec ident v flag hflag ks s2 hc2 hn2 hlen2 p2 b hb2 p2 rest2 ds (dead ++ [a]) htr2
      have hrem : remOf a b out = [a, b] := by unfold remOf; rw [if_pos o1, if_pos o2]; rfl
      refine ⟨s3, rest3, pa, pb, ?_, hpa, hpb, hc3, by rw [ht3, ht2, hrt], hn3, ?_, ?_⟩
      · simp only [o1, o2, if_true, e2, e3]
      · rw [hrem]; simpa [List.append_assoc] using htr3
      · have := (hst2.idsAfter).trans (by rw [← ht2]; exact hst3.idsAfter)
        rw [hri, hrt] at this
        rw [hrem]; simpa using this
    · have hrem : remOf a b out = [a] := by unfold remOf; rw [if_pos o1, if_neg o2]; rfl
      refine ⟨s2, rest2, pa, pb, ?_, hpa, hpb, hc2, by rw [ht2, hrt], hn2, ?_, ?_⟩
      · simp only [o1, o2, if_true, e2, Bool.false_eq_true, if_false]
      · rw [hrem]; exact htr2
      · have := hst2.idsAfter
        rw [hri, hrt] at this
        rw [hrem]; exact this
  · by_cases o2 : (out &&& 2 != 0) = true
    · obtain ⟨s3, p3, rest3, e3, hc3, ht3, hn3, hle3, hlt3, htr3, hcur3, hst3⟩ :=
        removeAndFix_spec ident v flag hflag ks s1 hc1 hn1 hlen1 c.p2 b h2' c.p2 rest ds dead htr1
      have hrem : remOf a b out = [b] := by unfold remOf; rw [if_neg o1, if_pos o2]; rfl
      refine ⟨s3, rest3, pa, pb, ?_, hpa, hpb, hc3, by rw [ht3, hrt], hn3, ?_, ?_⟩
      · simp only [o1, o2, if_true, e3, Bool.false_eq_true, if_false]
      · rw [hrem]; exact htr3
      · have := hst3.idsAfter
        rw [hri, hrt] at this
        rw [hrem]; exact this
    · have hrem : remOf a b out = [] := by unfold remOf; rw [if_neg o1, if_neg o2]; rfl
      refine ⟨s1, rest, pa, pb, ?_, hpa, hpb, hc1, hrt, hn1, ?_, ?_⟩
      · simp only [o1, o2, Bool.false_eq_true, if_false]
      · rw [hrem]; simpa using htr1
      · rw [hri, hrem]; exact IdsAfter.refl ks s.tree (ids ident s)

/-! ### the whole loop -/

/-- replay of the pending list at the level of identities: `Run dead ds calls dead'` says that,
    going through the denoted pairs `ds` in order with `dead` already removed, the resolver is
    called exactly on the pairs whose two identities are both still alive (with the particles
    carrying these identities), entries naming a removed identity are skipped, and the
    identities removed so far grow by exactly what each call's outcome requests -/
inductive Run : List ι → List (ι × ι) → List (Call α G) → List ι → Prop
  | nil (dead : List ι) : Run dead [] [] dead
  | skip {dead : List ι} {d : ι × ι} {ds : List (ι × ι)} {calls : List (Call α G)} {dead' : List ι} :
      (d.1 ∈ dead ∨ d.2 ∈ dead) → Run dead ds calls dead' → Run dead (d :: ds) calls dead'
  | call {dead : List ι} {d : ι × ι} {ds : List (ι × ι)} {calls : List (Call α G)} {dead' : List ι}
      (k : Call α G) (pa pb : α) :
      d.1 ∉ dead → d.2 ∉ dead → k.a = some pa → k.b = some pb → ident pa = d.1 → ident pb = d.2 →
      Run (dead ++ remOf d.1 d.2 k.out) ds calls dead' → Run dead (d :: ds) (k :: calls) dead'

theorem processLoop_spec [DecidableEq ι] (v : RmVariant) (flag : α → α) (hflag : ∀ a, ident (flag a) = ident a)
    (res : Sim α → Coll G → Sim α × Nat) (hres : ResOK ident res) (ks : Bool)
    (ds : List (ι × ι)) (hdist : ∀ d ∈ ds, d.1 ≠ d.2) :
    ∀ (s : Sim α) (pend : List (Coll G)) (dead : List ι), Cfg ks s → (ids ident s).Nodup →
      List.Forall₂ (Tracks (ids ident s) dead) pend ds →
      ∃ rem, Run ident dead ds (processLoop v flag res ks s pend).2 (dead ++ rem) ∧
        IdsAfter ks s.tree (ids ident s) rem (ids ident (processLoop v flag res ks s pend).1) ∧
        (ids ident (processLoop v flag res ks s pend).1).Nodup ∧
        Cfg ks (processLoop v flag res ks s pend).1 ∧
        (processLoop v flag res ks s pend).1.tree = s.tree := by
  induction ds with
  | nil =>
    intro s pend dead hc hn htr
    cases htr
    refine ⟨[], ?_, ?_, ?_, ?_, ?_⟩
    · simp only [processLoop, List.append_nil]; exact Run.nil dead
    · simp only [processLoop]; exact IdsAfter.refl _ _ _
    · simpa only [processLoop] using hn
    · simpa only [processLoop] using hc
    · simp only [processLoop]
  | cons d ds' ih =>
    intro s pend dead hc hn htr
    cases htr with
    | cons hhead htail =>
      rename_i c rest
      have hd' : ∀ d ∈ ds', d.1 ≠ d.2 := fun x hx => hdist x (List.mem_cons_of_mem _ hx)
      rcases hhead with ⟨hdd, h1, h2⟩ | ⟨ha, hb, h1, h2⟩
      · -- void entry
        have hp := processOne_void v flag res ks s c rest h1
        obtain ⟨rem, hrun, hids, hnd, hcf, htf⟩ := ih hd' s rest dead hc hn htail
        refine ⟨rem, ?_, ?_, ?_, ?_, ?_⟩
        · rw [processLoop]; simp only [hp]; exact Run.skip hdd hrun
        · rw [processLoop]; simp only [hp]; exact hids
        · rw [processLoop]; simp only [hp]; exact hnd
        · rw [processLoop]; simp only [hp]; exact hcf
        · rw [processLoop]; simp only [hp]; exact htf
      · obtain ⟨s', rest', pa, pb, hp, hpa, hpb, hc', ht', hn', htr', hids'⟩ :=
          processOne_live ident v flag hflag res hres ks s hc hn c d.1 d.2
            (hdist d (List.mem_cons_self)) h1 h2 rest ds' dead htail
        obtain ⟨rem, hrun, hids, hnd, hcf, htf⟩ := ih hd' s' rest' _ hc' hn' htr'
        refine ⟨remOf d.1 d.2 (res s c).2 ++ rem, ?_, ?_, ?_, ?_, ?_⟩
        · rw [processLoop]; simp only [hp]
          rw [← List.append_assoc]
          exact Run.call _ pa pb ha hb rfl rfl hpa hpb hrun
        · rw [processLoop]; simp only [hp]
          rw [ht'] at hids
          exact hids'.trans hids
        · rw [processLoop]; simp only [hp]; exact hnd
        · rw [processLoop]; simp only [hp]; exact hcf
        · rw [processLoop]; simp only [hp]; rw [htf, ht']

/-- membership in an erase chain of a duplicate-free list -/
theorem mem_foldl_erase [DecidableEq ι] (rem : List ι) {l : List ι} (hn : l.Nodup) (x : ι) :
    x ∈ rem.foldl List.erase l ↔ x ∈ l ∧ x ∉ rem := by
  induction rem generalizing l with
  | nil => simp
  | cons y r ih =>
    simp only [List.foldl_cons]
    rw [ih (hn.erase y), hn.mem_erase_iff]
    simp only [List.mem_cons, not_or]
    tauto

theorem foldl_erase_sublist [DecidableEq ι] (rem l : List ι) : (rem.foldl List.erase l).Sublist l := by
  induction rem generalizing l with
  | nil => exact List.Sublist.refl _
  | cons y r ih => exact (ih (l.erase y)).trans List.erase_sublist

end step

end RV.Collision
