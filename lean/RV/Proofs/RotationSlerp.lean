import RV.Proofs.Rotation
/- helper lemmas for the slerp theorems of RV/Props/C20.lean -/
set_option linter.unusedTactic false
set_option linter.unreachableTactic false
set_option linter.unnecessarySeqFocus false
set_option linter.unusedVariables false
set_option linter.unusedSimpArgs false
set_option linter.unusedSectionVars false
namespace RV.Rot
open RV
section
variable {K : Type} [Field K] [LinearOrder K] [IsStrictOrderedRing K] [RealFns K]

@[simp] theorem r_acos (a : K) : ScalarR.acos a = RealFns.acos a := rfl

/-- addition formulas, `sin 0 = 0` -/
def AddSpec (K : Type) [Field K] [RealFns K] : Prop :=
  (∀ a b : K, RealFns.sin (a + b) = RealFns.sin a * RealFns.cos b + RealFns.cos a * RealFns.sin b) ∧
  (∀ a b : K, RealFns.cos (a + b) = RealFns.cos a * RealFns.cos b - RealFns.sin a * RealFns.sin b) ∧
  RealFns.sin (0 : K) = 0

/-- `acos` returns an angle in `[0, π]` with the given cosine: its cosine is the argument and its
    sine is non-negative -/
def AcosSpec (K : Type) [Field K] [LinearOrder K] [RealFns K] : Prop :=
  ∀ c : K, |c| ≤ 1 → RealFns.cos (RealFns.acos c) = c ∧ 0 ≤ RealFns.sin (RealFns.acos c)

/-- 4-dimensional dot product of two quaternions (the `cosHalfTheta` of the C source) -/
def qdot (p q : Quat K) : K := p.r * q.r + p.ix * q.ix + p.iy * q.iy + p.iz * q.iz

/-- `sin (acos c) = sqrt (1 − c²)` -/
theorem sin_acos (hs : SqrtSpec K) (ht : TrigSpec K) (ha : AcosSpec K) (c : K) (hc : |c| ≤ 1) :
    RealFns.sin (RealFns.acos c) = RealFns.sqrt (1 - c * c) := by
  obtain ⟨h1, h2⟩ := ha c hc
  have hc2 : 0 ≤ 1 - c * c := by
    have := abs_le.mp hc
    nlinarith [this.1, this.2]
  obtain ⟨s0, s1⟩ := hs (1 - c * c) hc2
  have htr := ht (RealFns.acos c)
  rw [h1] at htr
  have hsq : RealFns.sin (RealFns.acos c) * RealFns.sin (RealFns.acos c)
      = RealFns.sqrt (1 - c * c) * RealFns.sqrt (1 - c * c) := by rw [s1]; linarith
  have := mul_self_eq_mul_self_iff.mp hsq
  rcases this with h | h
  · exact h
  · have h3 : RealFns.sin (RealFns.acos c) = 0 := by linarith
    have h4 : RealFns.sqrt (1 - c * c) = 0 := by linarith
    rw [h3, h4]

/-- the general branch of slerp, with everything named:
    `A = sin((1−t)θ)`, `B = sin(tθ)`, `s = sin θ ≠ 0`, `c = cos θ = q1·q2` -/
theorem slerp_core (q1 q2 : Quat K) (A B CA CB s c : K) (h1 : qlen2 q1 = 1) (h2 : qlen2 q2 = 1)
    (hc : qdot q1 q2 = c) (hs0 : s ≠ 0)
    (hA : A * A + CA * CA = 1) (hB : B * B + CB * CB = 1)
    (hsin : s = A * CB + CA * B) (hcos : c = CA * CB - A * B) :
    let res : Quat K := ⟨q1.ix * (A / s) + q2.ix * (B / s), q1.iy * (A / s) + q2.iy * (B / s),
      q1.iz * (A / s) + q2.iz * (B / s), q1.r * (A / s) + q2.r * (B / s)⟩
    qlen2 res = 1 ∧ qdot q1 res = CB ∧ qdot q2 res = CA := by
  intro res
  simp only [qlen2, qdot, sc_hadd, sc_hmul] at h1 h2 hc ⊢
  have hs2 : s * s = A * A + B * B + 2 * A * B * c := by
    rw [hsin, hcos]; linear_combination (A * A) * hB + (B * B) * hA
  refine ⟨?_, ?_, ?_⟩
  · simp only [res]
    field_simp
    linear_combination (A * A) * h1 + (B * B) * h2 + (2 * A * B) * hc - hs2
  · simp only [res]
    field_simp
    have : A + B * c = CB * s := by rw [hsin, hcos]; linear_combination (-A) * hB
    linear_combination A * h1 + B * hc + this
  · simp only [res]
    field_simp
    have : A * c + B = CA * s := by rw [hsin, hcos]; linear_combination (-B) * hA
    linear_combination A * hc + B * h2 + this


/-- the three branches of `reb_rotation_slerp`, unfolded -/
theorem slerp_unfold (eps halfc : K) (q1 q2 : Quat K) (t : K) :
    slerp eps halfc q1 q2 t =
      if 1 ≤ |qdot q1 q2| then q1
      else if |RealFns.sqrt (1 - qdot q1 q2 * qdot q1 q2)| < eps then
        ⟨q1.ix * halfc + q2.ix * halfc, q1.iy * halfc + q2.iy * halfc, q1.iz * halfc + q2.iz * halfc,
         q1.r * halfc + q2.r * halfc⟩
      else
        ⟨q1.ix * (RealFns.sin ((1 - t) * RealFns.acos (qdot q1 q2)) / RealFns.sqrt (1 - qdot q1 q2 * qdot q1 q2))
            + q2.ix * (RealFns.sin (t * RealFns.acos (qdot q1 q2)) / RealFns.sqrt (1 - qdot q1 q2 * qdot q1 q2)),
         q1.iy * (RealFns.sin ((1 - t) * RealFns.acos (qdot q1 q2)) / RealFns.sqrt (1 - qdot q1 q2 * qdot q1 q2))
            + q2.iy * (RealFns.sin (t * RealFns.acos (qdot q1 q2)) / RealFns.sqrt (1 - qdot q1 q2 * qdot q1 q2)),
         q1.iz * (RealFns.sin ((1 - t) * RealFns.acos (qdot q1 q2)) / RealFns.sqrt (1 - qdot q1 q2 * qdot q1 q2))
            + q2.iz * (RealFns.sin (t * RealFns.acos (qdot q1 q2)) / RealFns.sqrt (1 - qdot q1 q2 * qdot q1 q2)),
         q1.r * (RealFns.sin ((1 - t) * RealFns.acos (qdot q1 q2)) / RealFns.sqrt (1 - qdot q1 q2 * qdot q1 q2))
            + q2.r * (RealFns.sin (t * RealFns.acos (qdot q1 q2)) / RealFns.sqrt (1 - qdot q1 q2 * qdot q1 q2))⟩ := by
  simp only [slerp, qdot, r_le, r_lt, r_fabs, r_sqrt, r_sin, r_acos, sc_one, sc_hadd, sc_hsub, sc_hmul,
    sc_hdiv, decide_eq_true_eq]
  by_cases h : 1 ≤ |q1.r * q2.r + q1.ix * q2.ix + q1.iy * q2.iy + q1.iz * q2.iz|
  · simp only [h, if_true]
  · simp only [h, if_false]
    by_cases h' : |RealFns.sqrt (1 - (q1.r * q2.r + q1.ix * q2.ix + q1.iy * q2.iy + q1.iz * q2.iz) *
        (q1.r * q2.r + q1.ix * q2.ix + q1.iy * q2.iy + q1.iz * q2.iz))| < eps
    · simp only [h', if_true]
    · simp only [h', if_false]

/-- general branch: unit result, at angle `t θ` from `q1` and `(1−t) θ` from `q2` (θ = acos (q1·q2)):
    constant angular speed along the great circle -/
theorem slerp_general (hs : SqrtSpec K) (ht : TrigSpec K) (hadd : AddSpec K) (hac : AcosSpec K)
    (eps halfc : K) (q1 q2 : Quat K) (t : K) (h1 : qlen2 q1 = 1) (h2 : qlen2 q2 = 1)
    (heps : 0 < eps) (hc : |qdot q1 q2| < 1)
    (hgen : eps ≤ |RealFns.sqrt (1 - qdot q1 q2 * qdot q1 q2)|) :
    qlen2 (slerp eps halfc q1 q2 t) = 1 ∧
    qdot q1 (slerp eps halfc q1 q2 t) = RealFns.cos (t * RealFns.acos (qdot q1 q2)) ∧
    qdot q2 (slerp eps halfc q1 q2 t) = RealFns.cos ((1 - t) * RealFns.acos (qdot q1 q2)) := by
  rw [slerp_unfold, if_neg (not_le.mpr hc), if_neg (not_lt.mpr hgen)]
  set c := qdot q1 q2 with hcdef
  set th := RealFns.acos c with hth
  have hsa := sin_acos hs ht hac c (le_of_lt hc)
  have hca := (hac c (le_of_lt hc)).1
  have hs0 : RealFns.sqrt (1 - c * c) ≠ 0 := by
    intro h0; rw [h0, abs_zero] at hgen; linarith
  have hsplit : th = (1 - t) * th + t * th := by ring
  have hsin : RealFns.sqrt (1 - c * c) =
      RealFns.sin ((1 - t) * th) * RealFns.cos (t * th) + RealFns.cos ((1 - t) * th) * RealFns.sin (t * th) := by
    rw [← hsa, ← hadd.1, ← hsplit]
  have hcos : c = RealFns.cos ((1 - t) * th) * RealFns.cos (t * th) - RealFns.sin ((1 - t) * th) * RealFns.sin (t * th) := by
    rw [← hadd.2.1, ← hsplit, hca]
  exact slerp_core q1 q2 _ _ _ _ _ c h1 h2 rfl hs0 (ht _) (ht _) hsin hcos

/-- end points of the general branch -/
theorem slerp_endpoints (hs : SqrtSpec K) (ht : TrigSpec K) (hadd : AddSpec K) (hac : AcosSpec K)
    (eps halfc : K) (q1 q2 : Quat K) (hc : |qdot q1 q2| < 1)
    (hgen : eps ≤ |RealFns.sqrt (1 - qdot q1 q2 * qdot q1 q2)|) (heps : 0 < eps) :
    slerp eps halfc q1 q2 0 = q1 ∧ slerp eps halfc q1 q2 1 = q2 := by
  have hsa := sin_acos hs ht hac (qdot q1 q2) (le_of_lt hc)
  have hs0 : RealFns.sqrt (1 - qdot q1 q2 * qdot q1 q2) ≠ 0 := by
    intro h0; rw [h0, abs_zero] at hgen; linarith
  constructor
  · rw [slerp_unfold, if_neg (not_le.mpr hc), if_neg (not_lt.mpr hgen)]
    simp only [sub_zero, one_mul, zero_mul, hadd.2.2, hsa, zero_div, mul_zero, add_zero, div_self hs0, mul_one]
  · rw [slerp_unfold, if_neg (not_le.mpr hc), if_neg (not_lt.mpr hgen)]
    simp only [sub_self, one_mul, zero_mul, hadd.2.2, hsa, zero_div, mul_zero, zero_add, div_self hs0, mul_one]

/-- the other two branches: `|q1·q2| ≥ 1` returns `q1`; `|sin θ| < eps` returns `halfc (q1 + q2)`,
    whose squared norm for `halfc = 1/2` is `(1 + q1·q2)/2` -/
theorem slerp_degenerate (eps : K) (q1 q2 : Quat K) (t : K) (h1 : qlen2 q1 = 1) (h2 : qlen2 q2 = 1) :
    (1 ≤ |qdot q1 q2| → slerp eps (1 / 2) q1 q2 t = q1) ∧
    (|qdot q1 q2| < 1 → |RealFns.sqrt (1 - qdot q1 q2 * qdot q1 q2)| < eps →
      qlen2 (slerp eps (1 / 2) q1 q2 t) = (1 + qdot q1 q2) / 2) := by
  constructor
  · intro h; rw [slerp_unfold, if_pos h]
  · intro hc hsm
    rw [slerp_unfold, if_neg (not_le.mpr hc), if_pos hsm]
    simp only [qlen2, qdot, sc_hadd, sc_hmul] at h1 h2 ⊢
    linear_combination (1 / 4) * h1 + (1 / 4) * h2

end
end RV.Rot
