import RV.Proofs.Sync
/-
  C09: `reb_simulation_integrate` assigns `dt` only in a synchronised state.
-/
set_option linter.unusedVariables false
namespace RV.Sync
variable {F : Type}

theorem dtOk_steps (stepF syncF : F → F) (isS : F → Bool) (n : Nat) (rest : List DtOp)
    (h : ∀ g, dtOk stepF syncF isS rest g = true) (f : F) :
    dtOk stepF syncF isS (List.replicate n (DtOp.api .step) ++ rest) f = true := by
  induction n generalizing f with
  | zero => exact h f
  | succ n ih => simp only [List.replicate_succ, List.cons_append, dtOk]; exact ih _

theorem dtOk_tail (stepF syncF : F → F) (isS : F → Bool) (hs : ∀ f, isS (syncF f) = true)
    (k : Nat) (exact : Bool) (g : F) :
    dtOk stepF syncF isS (lastStepBlock k ++ [.api .synchronize] ++
      (if exact then [DtOp.restoreDt] else [])) g = true := by
  induction k generalizing g with
  | zero => cases exact <;> simp [lastStepBlock, dtOk, hs]
  | succ k ih =>
    simp only [lastStepBlock, List.cons_append, List.append_assoc, List.nil_append, dtOk, hs,
      Bool.true_and]
    have := ih (stepF (syncF g))
    simpa [List.append_assoc] using this

/-- every assignment to `dt` made by `integrate` happens in a synchronised state, provided the
    direction is not reversed on an unsynchronised simulation — or the entry synchronises first -/
theorem dtOk_plan (stepF syncF : F → F) (isS : F → Bool) (hs : ∀ f, isS (syncF f) = true)
    (n k : Nat) (exact reverse syncFirst : Bool) (f : F)
    (h : reverse = true → syncFirst = true ∨ isS f = true) :
    dtOk stepF syncF isS (integratePlan n k exact reverse syncFirst) f = true := by
  unfold integratePlan
  have ht : ∀ g, dtOk stepF syncF isS (List.replicate n (DtOp.api .step) ++ (lastStepBlock k ++
      (DtOp.api .synchronize :: (if exact then [DtOp.restoreDt] else [])))) g = true := by
    intro g
    have := dtOk_steps stepF syncF isS n _ (dtOk_tail stepF syncF isS hs k exact) g
    simpa [List.append_assoc] using this
  cases reverse
  · simp only [Bool.false_eq_true, if_false, List.cons_append, List.nil_append, List.append_assoc, dtOk]
    exact ht f
  · rcases h rfl with h1 | h1
    · subst h1
      simp only [if_true, List.cons_append, List.nil_append, List.append_assoc, dtOk, hs, Bool.true_and]
      exact ht (syncF f)
    · cases syncFirst
      · simp only [if_true, if_false, Bool.false_eq_true, List.cons_append, List.nil_append,
          List.append_assoc, dtOk]
        rw [h1, Bool.true_and]
        exact ht f
      · simp only [if_true, List.cons_append, List.nil_append, List.append_assoc, dtOk, hs, Bool.true_and]
        exact ht (syncF f)

theorem syncOps_nokeep_isSync (c : Config) (hk : c.keep = false) (f : Flags) :
    (syncOps c f).2.isSync = true := by
  cases hs : (initF f).isSync
  · rw [syncOps_unsync c f hs]; simp [hk]
  · rw [syncOps_sync c f hs]; exact hs

end RV.Sync
