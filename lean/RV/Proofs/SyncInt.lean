import RV.Proofs.Sync
/-
  C09: `reb_simulation_integrate` assigns `dt` only in a synchronised state.
-/
set_option linter.unusedVariables false
set_option linter.unusedSimpArgs false
namespace RV.Sync
variable {F : Type}

theorem dtOk_steps (stepF syncF forceF : F → F) (isS : F → Bool) (n : Nat) (rest : List DtOp)
    (h : ∀ g, dtOk stepF syncF forceF isS rest g = true) (f : F) :
    dtOk stepF syncF forceF isS (List.replicate n (DtOp.api .step) ++ rest) f = true := by
  induction n generalizing f with
  | zero => exact h f
  | succ n ih => simp only [List.replicate_succ, List.cons_append, dtOk]; exact ih _

/-- the flag transition of the synchronize that precedes an assignment to `dt` -/
def preF (syncF forceF : F → F) (force : Bool) : F → F := if force then forceF else syncF

theorem dtOk_syncBefore (stepF syncF forceF : F → F) (isS : F → Bool) (force : Bool) (r : List DtOp) (f : F) :
    dtOk stepF syncF forceF isS (syncBeforeDt force :: r) f =
      dtOk stepF syncF forceF isS r (preF syncF forceF force f) := by
  cases force <;> rfl

theorem dtOk_final (stepF syncF forceF : F → F) (isS : F → Bool) (force : Bool)
    (hs : force = false → ∀ f, isS (syncF f) = true) (hp : ∀ f, isS (preF syncF forceF force f) = true)
    (exact rc : Bool) (g : F) :
    dtOk stepF syncF forceF isS (finalBlock force exact rc) g = true := by
  unfold finalBlock
  cases force
  · cases exact <;> cases rc <;> simp [dtOk, hs rfl]
  · have hf : ∀ f, isS (forceF f) = true := hp
    cases exact <;> cases rc <;> simp [dtOk, hf]

theorem dtOk_tail (stepF syncF forceF : F → F) (isS : F → Bool) (force : Bool)
    (hs : force = false → ∀ f, isS (syncF f) = true) (hp : ∀ f, isS (preF syncF forceF force f) = true)
    (k : Nat) (exact rc : Bool) (g : F) :
    dtOk stepF syncF forceF isS (lastStepBlock force k ++ finalBlock force exact rc) g = true := by
  induction k generalizing g with
  | zero => exact dtOk_final stepF syncF forceF isS force hs hp exact rc g
  | succ k ih =>
    simp only [lastStepBlock, List.cons_append, List.append_assoc, List.nil_append, dtOk_syncBefore,
      dtOk, hp, Bool.true_and]
    exact ih _

/-- every assignment to `dt` made by `integrate` happens in a synchronised state, provided the
    synchronize that precedes it really synchronises (no keep_unsynchronized, or the forced
    variant) and the direction is not reversed on an unsynchronised simulation — or the entry
    synchronises first -/
theorem dtOk_plan (stepF syncF forceF : F → F) (isS : F → Bool) (force : Bool)
    (hs : force = false → ∀ f, isS (syncF f) = true) (hp : ∀ f, isS (preF syncF forceF force f) = true)
    (n k : Nat) (exact reverse syncFirst rc : Bool) (f : F)
    (h : reverse = true → syncFirst = true ∨ isS f = true) :
    dtOk stepF syncF forceF isS (integratePlan n k exact reverse syncFirst force rc) f = true := by
  unfold integratePlan
  have ht : ∀ g, dtOk stepF syncF forceF isS (List.replicate n (DtOp.api .step) ++ (lastStepBlock force k ++
      finalBlock force exact rc)) g = true := by
    intro g
    exact dtOk_steps stepF syncF forceF isS n _ (dtOk_tail stepF syncF forceF isS force hs hp k exact rc) g
  cases reverse
  · simp only [Bool.false_eq_true, if_false, List.cons_append, List.nil_append, List.append_assoc, dtOk]
    exact ht f
  · rcases h rfl with h1 | h1
    · subst h1
      simp only [if_true, List.cons_append, List.nil_append, List.append_assoc, dtOk_syncBefore, dtOk, hp,
        Bool.true_and]
      exact ht _
    · cases syncFirst
      · simp only [if_true, if_false, Bool.false_eq_true, List.cons_append, List.nil_append,
          List.append_assoc, dtOk]
        rw [h1, Bool.true_and]
        exact ht f
      · simp only [if_true, List.cons_append, List.nil_append, List.append_assoc, dtOk_syncBefore, dtOk, hp,
          Bool.true_and]
        exact ht _

/-- steps in unsafe mode always end unsynchronised … -/
theorem stepOps_unsafe_flags (c : Config) (hs : c.safe = false) (f : Flags) :
    (stepOps c f).2 = ⟨false, false, true⟩ := by
  rw [← stepOps_initF, stepOps_unsafe c hs _ (initF_allocated f)]

/-- … and with keep_unsynchronized `synchronize` leaves them so: the source as found then assigns
    the shortened last `dt` while a half step is pending -/
theorem dtOk_keep_false (c : Config) (hk : c.keep = true) (hs : c.safe = false) (n k : Nat)
    (exact syncFirst rc : Bool) (f : Flags) :
    dtOk (fun f => (stepOps c f).2) (fun f => (syncOps c f).2) (fun f => (syncOps c f).2) Flags.isSync
      (integratePlan (n + 1) (k + 1) exact false syncFirst false rc) f = false := by
  have hstep : ∀ m (g : Flags) (rest : List DtOp),
      dtOk (fun f => (stepOps c f).2) (fun f => (syncOps c f).2) (fun f => (syncOps c f).2) Flags.isSync
        (List.replicate (m + 1) (DtOp.api .step) ++ rest) g =
      dtOk (fun f => (stepOps c f).2) (fun f => (syncOps c f).2) (fun f => (syncOps c f).2) Flags.isSync
        rest ⟨false, false, true⟩ := by
    intro m
    induction m with
    | zero => intro g rest; simp [List.replicate, dtOk, stepOps_unsafe_flags c hs]
    | succ m ih =>
      intro g rest
      rw [List.replicate_succ, List.cons_append]
      simp only [dtOk]
      exact ih _ rest
  unfold integratePlan
  simp only [Bool.false_eq_true, if_false, List.nil_append, List.cons_append, List.append_assoc, dtOk]
  rw [hstep]
  simp [lastStepBlock, syncBeforeDt, dtOk, syncOps_keep_flags c hk, initF]

theorem syncOps_nokeep_isSync (c : Config) (hk : c.keep = false) (f : Flags) :
    (syncOps c f).2.isSync = true := by
  cases hs : (initF f).isSync
  · rw [syncOps_unsync c f hs]; simp [hk]
  · rw [syncOps_sync c f hs]; exact hs

/-! ### callbacks: every particle edit is seen synchronised and picked up -/

/-- flag transitions needed: synchronize synchronises and keeps a set recalculate flag of a
    synchronised state; setting the flag keeps the state synchronised -/
structure EditFlags (stepF syncF setF : F → F) (isS isR : F → Bool) : Prop where
  sync_isS : ∀ f, isS (syncF f) = true
  sync_isR : ∀ f, isS f = true → isR f = true → isR (syncF f) = true
  set_isS : ∀ f, isS f = true → isS (setF f) = true
  set_isR : ∀ f, isR (setF f) = true

theorem editOk_expand {X : Type} (stepF syncF setF : F → F) (isS isR : F → Bool)
    (H : EditFlags stepF syncF setF isS isR) (l : List (MOp X)) (rest : List (Op X)) (p : Bool) (f : F)
    (hp : p = true → isS f = true ∧ isR f = true)
    (hrest : ∀ p g, (p = true → isS g = true ∧ isR g = true) → editOk stepF syncF setF isS isR rest p g = true) :
    editOk stepF syncF setF isS isR (expandAll l ++ rest) p f = true := by
  induction l generalizing p f with
  | nil => exact hrest p f hp
  | cons m ms ih =>
    have step_ok : ∀ (tail : List (Op X)) (p : Bool) (g : F), (p = true → isS g = true ∧ isR g = true) →
        (∀ q h, (q = true → isS h = true ∧ isR h = true) → editOk stepF syncF setF isS isR tail q h = true) →
        editOk stepF syncF setF isS isR (Op.step :: tail) p g = true := by
      intro tail p g hg ht
      simp only [editOk, Bool.and_eq_true, Bool.or_eq_true, Bool.not_eq_true']
      refine ⟨?_, ht false _ (fun h => by cases h)⟩
      cases p
      · exact Or.inl rfl
      · exact Or.inr (hg rfl)
    have edit_ok : ∀ (w : X) (tail : List (Op X)) (p : Bool) (g : F),
        (∀ q h, (q = true → isS h = true ∧ isR h = true) → editOk stepF syncF setF isS isR tail q h = true) →
        editOk stepF syncF setF isS isR (Op.synchronize :: Op.poke w :: Op.setRecalc :: tail) p g = true := by
      intro w tail p g ht
      simp only [editOk, H.sync_isS, Bool.true_and]
      exact ht true _ (fun _ => ⟨H.set_isS _ (H.sync_isS g), H.set_isR _⟩)
    show editOk stepF syncF setF isS isR (m.expand ++ expandAll ms ++ rest) p f = true
    cases m with
    | synchronize =>
      simp only [MOp.expand, List.cons_append, List.nil_append, editOk, List.append_assoc]
      apply ih
      intro hp'
      have := hp hp'
      exact ⟨H.sync_isS f, H.sync_isR f this.1 this.2⟩
    | read =>
      simp only [MOp.expand, List.cons_append, List.nil_append, editOk, List.append_assoc]
      exact ih p f hp
    | cbStep pre post =>
      have hpost : ∀ q h, (q = true → isS h = true ∧ isR h = true) →
          editOk stepF syncF setF isS isR ((match post with | some w => [Op.synchronize, .poke w, .setRecalc] | none => []) ++
            (expandAll ms ++ rest)) q h = true := by
        intro q h hq
        cases post with
        | none => simpa using ih q h hq
        | some w => exact edit_ok w _ q h (fun q' h' hq' => ih q' h' hq')
      cases pre with
      | none =>
        simp only [MOp.expand, cbStepPlan, List.nil_append, List.cons_append, List.append_assoc]
        exact step_ok _ p f hp hpost
      | some w =>
        simp only [MOp.expand, cbStepPlan, List.cons_append, List.nil_append, List.append_assoc]
        exact edit_ok w _ p f (fun q h hq => step_ok _ q h hq hpost)

end RV.Sync
