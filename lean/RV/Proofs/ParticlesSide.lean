import RV.Model.ParticlesSide
import Mathlib.Tactic.Linarith
import Mathlib.Tactic.Ring
/-
  Proofs about RV/Model/ParticlesSide.lean (property C14): the repaired TRACE re-indexing loop deletes row and
  column `index` for every N (in place: no read is behind a write), MERCURIUS' part1 never reads an unwritten
  `dcrit` cell once new cells are zero-filled, and the regrow policies cover every slot a step touches.
-/
set_option linter.unusedVariables false
set_option linter.unusedSimpArgs false
namespace RV.Particles.Side

/-! ### TRACE `current_Ks` -/

theorem flat_div_mod (m i j : Nat) (hj : j < m) : (i * m + j) / m = i ∧ (i * m + j) % m = j := by
  have hm : 0 < m := by omega
  constructor
  · rw [Nat.add_comm, Nat.add_mul_div_right _ _ hm, Nat.div_eq_of_lt hj]; omega
  · rw [Nat.add_comm, Nat.add_mul_mod_self_right, Nat.mod_eq_of_lt hj]

theorem skip_ge (index i : Nat) : i ≤ skip index i := by unfold skip; split <;> omega
theorem skip_le (index i m : Nat) (hi : i < m) : skip index i ≤ m := by unfold skip; split <;> omega

/-- where entry `p` of the new (m×m, flat) matrix comes from in the old ((m+1)×(m+1), flat) one -/
def oldOf (m index p : Nat) : Nat := skip index (p / m) * (m + 1) + skip index (p % m)

/-- loop invariant: the first `k` cells hold their final values, the others are untouched -/
structure KInv {α : Type} (m index : Nat) (ks ks' : List α) (k : Nat) : Prop where
  len : ks'.length = ks.length
  rest : ∀ p, k ≤ p → ks'[p]? = ks[p]?
  done : ∀ p, p < k → ks'[p]? = ks[oldOf m index p]?

theorem copy_step {α : Type} (m index i j : Nat) (ks ks' : List α) (hlen : ks.length = (m + 1) * (m + 1))
    (hi : i < m) (hj : j < m) (h : KInv m index ks ks' (i * m + j)) :
    ∃ ks'', copyCell ks' (i * m + j) (skip index i * (m + 1) + skip index j) = some ks'' ∧
      KInv m index ks ks'' (i * m + j + 1) := by
  have h1 := skip_ge index i; have h2 := skip_ge index j
  have h3 := skip_le index i m hi; have h4 := skip_le index j m hj
  have hsrc_ge : i * m + j ≤ skip index i * (m + 1) + skip index j := by nlinarith
  have hsrc_lt : skip index i * (m + 1) + skip index j < ks.length := by rw [hlen]; nlinarith
  have hrd : ks'[skip index i * (m + 1) + skip index j]? = ks[skip index i * (m + 1) + skip index j]? :=
    h.rest _ hsrc_ge
  obtain ⟨x, hx⟩ : ∃ x, ks[skip index i * (m + 1) + skip index j]? = some x :=
    ⟨ks[skip index i * (m + 1) + skip index j], List.getElem?_eq_getElem hsrc_lt⟩
  have hdst : i * m + j < ks'.length := by rw [h.len]; omega
  refine ⟨ks'.set (i * m + j) x, ?_, ?_⟩
  · unfold copyCell; rw [hrd, hx]; simp [hdst]
  · refine ⟨by simp [h.len], ?_, ?_⟩
    · intro p hp
      rw [List.getElem?_set, if_neg (by omega)]; exact h.rest p (by omega)
    · intro p hp
      rw [List.getElem?_set]
      by_cases hpk : i * m + j = p
      · rw [if_pos hpk, if_pos hdst, ← hpk]
        obtain ⟨d1, d2⟩ := flat_div_mod m i j hj
        unfold oldOf; rw [d1, d2]; exact hx.symm
      · rw [if_neg hpk]; exact h.done p (by omega)

theorem newRow_spec {α : Type} (m index i : Nat) (ks : List α) (hlen : ks.length = (m + 1) * (m + 1)) (hi : i < m) :
    ∀ (cnt j : Nat) (ks' : List α), j + cnt ≤ m → KInv m index ks ks' (i * m + j) →
      ∃ ks'', newRow (m + 1) m index i cnt j ks' = some ks'' ∧ KInv m index ks ks'' (i * m + j + cnt) := by
  intro cnt
  induction cnt with
  | zero => intro j ks' _ h; exact ⟨ks', rfl, h⟩
  | succ c ih =>
    intro j ks' hjc h
    obtain ⟨k1, e1, inv1⟩ := copy_step m index i j ks ks' hlen hi (by omega) h
    obtain ⟨k2, e2, inv2⟩ := ih (j + 1) k1 (by omega) (by
      have : i * m + (j + 1) = i * m + j + 1 := by omega
      rw [this]; exact inv1)
    refine ⟨k2, ?_, ?_⟩
    · simp only [newRow, e1]; exact e2
    · have : i * m + (j + 1) + c = i * m + j + (c + 1) := by omega
      rw [← this]; exact inv2

theorem newRows_spec {α : Type} (m index : Nat) (ks : List α) (hlen : ks.length = (m + 1) * (m + 1)) :
    ∀ (cnt i : Nat) (ks' : List α), i + cnt ≤ m → KInv m index ks ks' (i * m) →
      ∃ ks'', newRows (m + 1) m index cnt i ks' = some ks'' ∧ KInv m index ks ks'' ((i + cnt) * m) := by
  intro cnt
  induction cnt with
  | zero => intro i ks' _ h; exact ⟨ks', rfl, by simpa using h⟩
  | succ c ih =>
    intro i ks' hic h
    obtain ⟨k1, e1, inv1⟩ := newRow_spec m index i ks hlen (by omega) m 0 ks' (by omega) (by simpa using h)
    have e : i * m + 0 + m = (i + 1) * m := by ring
    rw [e] at inv1
    obtain ⟨k2, e2, inv2⟩ := ih (i + 1) k1 (by omega) inv1
    refine ⟨k2, ?_, ?_⟩
    · simp only [newRows, e1]; exact e2
    · have : i + 1 + c = i + (c + 1) := by omega
      rw [← this]; exact inv2

/-- the repaired loop is "delete row and column `index`", for every N ≥ 1, every index, every matrix, in place and
    without leaving the N×N allocation -/
theorem reshuffleNew_spec {α : Type} (n index : Nat) (ks : List α) (hn : 1 ≤ n) (hlen : ks.length = n * n) :
    ∃ out, reshuffleNew n index ks = some out ∧ out.length = n * n ∧
      ∀ i j, i < n - 1 → j < n - 1 → out[i * (n - 1) + j]? = deleteRowCol n index ks i j := by
  obtain ⟨m, rfl⟩ : ∃ m, n = m + 1 := ⟨n - 1, by omega⟩
  have hm : m + 1 - 1 = m := by omega
  unfold reshuffleNew
  rw [hm]
  obtain ⟨out, e, inv⟩ := newRows_spec m index ks hlen m 0 ks (by omega)
    ⟨rfl, fun _ _ => rfl, fun p hp => by omega⟩
  refine ⟨out, e, by rw [inv.len, hlen], ?_⟩
  intro i j hi hj
  have hp : i * m + j < (0 + m) * m := by nlinarith
  rw [inv.done _ hp]
  obtain ⟨d1, d2⟩ := flat_div_mod m i j hj
  unfold oldOf deleteRowCol; rw [d1, d2]

/-! ### MERCURIUS part1 -/

theorem readsUninit_of_allInit (d : List (Option Nat)) (n : Nat) (hl : n ≤ d.length) (h : allInit d = true) :
    readsUninit d n = false := by
  unfold readsUninit
  rw [List.any_eq_false]
  intro i hi
  have hin : i < n := List.mem_range.mp hi
  have hil : i < d.length := by omega
  rw [List.getElem?_eq_getElem hil]
  unfold allInit at h
  rw [List.all_eq_true] at h
  have := h d[i] (List.getElem_mem hil)
  cases hx : d[i] with
  | none => rw [hx] at this; simp at this
  | some v => simp

theorem allInit_append_zero (d : List (Option Nat)) (k : Nat) (h : allInit d = true) :
    allInit (d ++ List.replicate k (some 0)) = true := by
  unfold allInit at *
  rw [List.all_append, h]
  simp [List.all_eq_true]



theorem allInit_rewrite (d : List (Option Nat)) (n : Nat) (vals : Nat → Nat) (h : allInit d = true) :
    allInit ((List.range d.length).map fun i => if i < n then some (vals i) else d[i]?.join) = true := by
  unfold allInit at *
  rw [List.all_eq_true] at *
  intro x hx
  rw [List.mem_map] at hx
  obtain ⟨i, hi, rfl⟩ := hx
  have hil : i < d.length := List.mem_range.mp hi
  by_cases hin : i < n
  · simp [hin]
  · simp only [hin, if_false]
    rw [List.getElem?_eq_getElem hil]
    have := h d[i] (List.getElem_mem hil)
    cases hv : d[i] with
    | none => rw [hv] at this; simp at this
    | some v => simp

/-- with the zero fill (4316980) part1 never reads a cell that was not written, whatever the flags, and leaves
    every cell written and at least `N` of them -/
theorem part1_zeroFill (m : Merc) (n : Nat) (vals : Nat → Nat) (h : allInit m.dcrit = true) :
    (part1 true m n vals).2 = false ∧ allInit (part1 true m n vals).1.dcrit = true ∧
    ((part1 true m n vals).1.dcrit.length = max m.dcrit.length n) := by
  -- the state after the realloc
  obtain ⟨d1, hd1, hl1, hge⟩ : ∃ d1 : List (Option Nat), allInit d1 = true ∧ d1.length = max m.dcrit.length n ∧ n ≤ d1.length ∧ True := by
    by_cases hlt : m.dcrit.length < n
    · exact ⟨m.dcrit ++ List.replicate (n - m.dcrit.length) (some 0), allInit_append_zero _ _ h, by simp; omega, by simp; omega, trivial⟩
    · exact ⟨m.dcrit, h, by omega, by omega, trivial⟩
  have hr := readsUninit_of_allInit
  unfold part1
  by_cases hlt : m.dcrit.length < n
  · simp only [hlt, if_true]
    have hd : allInit (m.dcrit ++ List.replicate (n - m.dcrit.length) (some 0)) = true := allInit_append_zero _ _ h
    have hlen : n ≤ (m.dcrit ++ List.replicate (n - m.dcrit.length) (some 0)).length := by simp; omega
    have hru := hr _ n hlen hd
    have hlen2 : (m.dcrit ++ List.replicate (n - m.dcrit.length) (some 0)).length = n := by simp; omega
    cases hs : m.synced <;> simp [hs, hru, allInit_rewrite _ n vals hd]
    all_goals
      refine ⟨?_, by omega⟩
      have hh := allInit_rewrite _ n vals hd
      rw [List.length_append, List.length_replicate] at hh
      exact hh
  · simp only [hlt, if_false]
    have hlen : n ≤ m.dcrit.length := by omega
    have hru := hr _ n hlen h
    cases hs : m.synced <;> cases hsm : m.safeMode <;> cases hc : m.recalcC <;> cases hrr : m.recalcR <;>
      simp [hs, hsm, hc, hrr, hru, h, allInit_rewrite _ n vals h] <;> omega


/-! ### regrow at the start of the step -/


theorem regrow_ge (p : Policy) (alloc n : Nat) : n ≤ regrow p alloc n := by
  cases p <;> simp only [regrow] <;> split <;> omega

theorem regrow_exact (alloc n : Nat) : regrow .exact alloc n = n := by
  simp only [regrow]; split <;> omega

theorem sideStep_ok (k : Kind) (hk : k.slot0 = true → k.skipEmpty = true) (s : SideState) (op : SideOp) :
    (sideStep k s op).2 = true ∧ (op = .step → (k.skipEmpty = true ∧ s.n = 0) ∨ s.n ≤ (sideStep k s op).1.alloc) := by
  cases op with
  | setN n => exact ⟨rfl, fun h => by cases h⟩
  | step =>
    unfold sideStep
    by_cases he : (k.skipEmpty && s.n == 0) = true
    · rw [if_pos he]
      simp only [Bool.and_eq_true, beq_iff_eq] at he
      exact ⟨rfl, fun _ => Or.inl he⟩
    · rw [if_neg he]
      have hge := regrow_ge k.policy s.alloc s.n
      refine ⟨?_, fun _ => Or.inr hge⟩
      simp only []
      rw [List.all_eq_true]
      intro i hi
      unfold touched at hi
      rw [if_neg he] at hi
      simp only [decide_eq_true_eq]
      rcases List.mem_append.mp hi with h1 | h1
      · have := List.mem_range.mp h1; omega
      · by_cases hs0 : k.slot0 = true
        · rw [if_pos hs0] at h1
          simp at h1
          have hse := hk hs0
          have : s.n ≠ 0 := by
            intro h0; apply he; simp [hse, h0]
          omega
        · rw [if_neg hs0] at h1; simp at h1

theorem sideRun_ok (k : Kind) (hk : k.slot0 = true → k.skipEmpty = true) :
    ∀ (ops : List SideOp) (s : SideState), (sideRun k s ops).2 = true := by
  intro ops
  induction ops with
  | nil => intro s; rfl
  | cons op rest ih =>
    intro s
    simp only [sideRun, Bool.and_eq_true]
    exact ⟨(sideStep_ok k hk s op).1, ih _⟩


/-! ### TRACE `current_Ks`: growing in place -/

/-- backward loop invariant: sources `p ≥ k` have been moved to `p + p/n`, cells below `d` are untouched -/
structure GInv {α : Type} (n : Nat) (ks ks' : List α) (k d : Nat) : Prop where
  len : ks'.length = ks.length
  low : ∀ q, q < d → ks'[q]? = ks[q]?
  done : ∀ p, k ≤ p → p < n * n → ks'[p + p / n]? = ks[p]?

theorem grow_step {α : Type} (n i c : Nat) (ks ks' : List α) (hlen : ks.length = (n + 1) * (n + 1))
    (hi : i < n) (hc : c < n) (h : GInv n ks ks' (i * n + (c + 1)) (i * n + (c + 1) + i)) :
    ∃ ks'', copyCell ks' (i * n + c + i) (i * n + c) = some ks'' ∧ GInv n ks ks'' (i * n + c) (i * n + c + i) := by
  have hsrc_lt : i * n + c < ks.length := by rw [hlen]; nlinarith
  have hdst_lt : i * n + c + i < ks'.length := by rw [h.len, hlen]; nlinarith
  have hrd : ks'[i * n + c]? = ks[i * n + c]? := h.low _ (by omega)
  obtain ⟨x, hx⟩ : ∃ x, ks[i * n + c]? = some x := ⟨ks[i * n + c], List.getElem?_eq_getElem hsrc_lt⟩
  refine ⟨ks'.set (i * n + c + i) x, ?_, ?_⟩
  · unfold copyCell; rw [hrd, hx]; simp [hdst_lt]
  · refine ⟨by simp [h.len], ?_, ?_⟩
    · intro q hq
      rw [List.getElem?_set, if_neg (by omega)]; exact h.low q (by omega)
    · intro p hp hpn
      rw [List.getElem?_set]
      by_cases hpk : p = i * n + c
      · subst hpk
        obtain ⟨d1, _⟩ := flat_div_mod n i c hc
        rw [d1, if_pos rfl, if_pos hdst_lt]; exact hx.symm
      · have hp' : i * n + (c + 1) ≤ p := by omega
        have hdiv : i ≤ p / n := by
          have : i * n ≤ p := by omega
          exact (Nat.le_div_iff_mul_le (by omega)).mpr this
        rw [if_neg (by omega)]; exact h.done p hp' hpn

theorem growRow_spec {α : Type} (n i : Nat) (ks : List α) (hlen : ks.length = (n + 1) * (n + 1)) (hi : i < n) :
    ∀ (c : Nat) (ks' : List α), c ≤ n → GInv n ks ks' (i * n + c) (i * n + c + i) →
      ∃ ks'', growRow n i c ks' = some ks'' ∧ GInv n ks ks'' (i * n) (i * n + i) := by
  intro c
  induction c with
  | zero => intro ks' _ h; exact ⟨ks', rfl, by simpa using h⟩
  | succ c ih =>
    intro ks' hc h
    obtain ⟨k1, e1, inv1⟩ := grow_step n i c ks ks' hlen hi (by omega) h
    obtain ⟨k2, e2, inv2⟩ := ih k1 (by omega) inv1
    exact ⟨k2, by simp only [growRow, e1]; exact e2, inv2⟩

theorem growRows_spec {α : Type} (n : Nat) (ks : List α) (hlen : ks.length = (n + 1) * (n + 1)) :
    ∀ (r : Nat) (ks' : List α), r ≤ n → GInv n ks ks' (r * n) (r * n + r) →
      ∃ ks'', growRows n r ks' = some ks'' ∧ GInv n ks ks'' 0 0 := by
  intro r
  induction r with
  | zero => intro ks' _ h; exact ⟨ks', rfl, by simpa using h⟩
  | succ r ih =>
    intro ks' hr h
    -- row r: sources r*n + c for c = n-1 … 0; the invariant with the (weaker) bound d = k + r
    have h' : GInv n ks ks' (r * n + n) (r * n + n + r) := by
      refine ⟨h.len, fun q hq => h.low q (by nlinarith), fun p hp hpn => h.done p (by nlinarith) hpn⟩
    obtain ⟨k1, e1, inv1⟩ := growRow_spec n r ks hlen (by omega) n ks' (by omega) h'
    obtain ⟨k2, e2, inv2⟩ := ih k1 (by omega) inv1
    exact ⟨k2, by simp only [growRows, e1]; exact e2, inv2⟩

/-- the backward loop moves the old n×n block to the positions it has in the (n+1)×(n+1) matrix, in place, for every n -/
theorem growRows_block {α : Type} (n : Nat) (ks : List α) (hlen : ks.length = (n + 1) * (n + 1)) :
    ∃ out, growRows n n ks = some out ∧ out.length = ks.length ∧
      ∀ i j, i < n → j < n → out[i * (n + 1) + j]? = ks[i * n + j]? := by
  obtain ⟨out, e, inv⟩ := growRows_spec n ks hlen n ks (by omega)
    ⟨rfl, fun _ _ => rfl, fun p hp hpn => by nlinarith⟩
  refine ⟨out, e, inv.len, ?_⟩
  intro i j hi hj
  have hp : i * n + j < n * n := by nlinarith
  have := inv.done (i * n + j) (by omega) hp
  obtain ⟨d1, _⟩ := flat_div_mod n i j hj
  rw [d1] at this
  have e2 : i * (n + 1) + j = i * n + j + i := by ring
  rw [e2]; exact this

/-! writing a list of cells -/

theorem setCells_spec {α : Type} (v : α) : ∀ (cells : List Nat) (ks : List α), (∀ k ∈ cells, k < ks.length) →
    ∃ out, setCells v cells ks = some out ∧ out.length = ks.length ∧
      ∀ q, out[q]? = if q ∈ cells then (if q < ks.length then some v else none) else ks[q]? := by
  intro cells
  induction cells with
  | nil => intro ks _; exact ⟨ks, rfl, rfl, by simp⟩
  | cons k rest ih =>
    intro ks h
    have hk : k < ks.length := h k (by simp)
    obtain ⟨out, e, hl, hq⟩ := ih (ks.set k v) (by intro x hx; simp; exact h x (by simp [hx]))
    refine ⟨out, by simp only [setCells, setCell, if_pos hk]; exact e, by simpa using hl, ?_⟩
    intro q
    rw [hq q]
    by_cases hqr : q ∈ rest
    · simp [hqr]
    · simp only [hqr, if_false, List.mem_cons, or_false]
      rw [List.getElem?_set]
      by_cases hqk : q = k
      · subst hqk; simp [hk]
      · rw [if_neg (Ne.symm hqk), if_neg hqk]

theorem cell_ne_col (n i j i' : Nat) (hj : j < n) : i * (n + 1) + j ≠ i' * (n + 1) + n := by
  intro h
  rcases Nat.lt_trichotomy i i' with hlt | heq | hgt
  · have : (i + 1) * (n + 1) ≤ i' * (n + 1) := Nat.mul_le_mul_right _ hlt
    nlinarith
  · subst heq; omega
  · have : (i' + 1) * (n + 1) ≤ i * (n + 1) := Nat.mul_le_mul_right _ hgt
    nlinarith

theorem col_inj (n i i' : Nat) (h : i * (n + 1) + n = i' * (n + 1) + n) : i = i' := by
  have : i * (n + 1) = i' * (n + 1) := by omega
  exact Nat.eq_of_mul_eq_mul_right (by omega) this

/-- TRACE, adding a particle during a step: the old block is kept (both variants), the new particle's pair with every member of
    the encounter is flagged; with the repair (`clear`) every other cell of the new column is 0 -/
theorem ksAdd_spec {α : Type} (clear : Bool) (n : Nat) (enc : List Nat) (zero one : α) (ks : List α)
    (hlen : ks.length = (n + 1) * (n + 1)) (henc : ∀ i ∈ enc, i < n) :
    ∃ out, ksAdd clear n enc zero one ks = some out ∧
      (∀ i j, i < n → j < n → out[i * (n + 1) + j]? = ks[i * n + j]?) ∧
      (∀ i, i ∈ enc → out[i * (n + 1) + n]? = some one) ∧
      (clear = true → ∀ i, i < n → i ∉ enc → out[i * (n + 1) + n]? = some zero) := by
  obtain ⟨k1, e1, l1, b1⟩ := growRows_block n ks hlen
  -- the (optional) clearing of the new row and column
  let cl := (List.range (n + 1)).map (fun i => i * (n + 1) + n) ++ (List.range (n + 1)).map (fun i => n * (n + 1) + i)
  have hcl : ∀ k ∈ cl, k < k1.length := by
    intro k hk
    rw [l1, hlen]
    rcases List.mem_append.mp hk with h | h
    · obtain ⟨i, hi, rfl⟩ := List.mem_map.mp h
      have := List.mem_range.mp hi; nlinarith
    · obtain ⟨i, hi, rfl⟩ := List.mem_map.mp h
      have := List.mem_range.mp hi; nlinarith
  have hblock_notin_cl : ∀ i j, i < n → j < n → i * (n + 1) + j ∉ cl := by
    intro i j hi hj hm
    rcases List.mem_append.mp hm with h | h
    · obtain ⟨i', _, e⟩ := List.mem_map.mp h
      exact cell_ne_col n i j i' hj e.symm
    · obtain ⟨i', hi', e⟩ := List.mem_map.mp h
      have := List.mem_range.mp hi'
      have : (i + 1) * (n + 1) ≤ n * (n + 1) := Nat.mul_le_mul_right _ hi
      nlinarith
  obtain ⟨k2, e2, l2, b2, c2⟩ : ∃ k2, (if clear then setCells zero cl k1 else some k1) = some k2 ∧ k2.length = k1.length ∧
      (∀ i j, i < n → j < n → k2[i * (n + 1) + j]? = k1[i * (n + 1) + j]?) ∧
      (clear = true → ∀ i, i < n → k2[i * (n + 1) + n]? = some zero) := by
    cases clear
    · exact ⟨k1, rfl, rfl, fun _ _ _ _ => rfl, fun h => by cases h⟩
    · obtain ⟨k2, e, l, q⟩ := setCells_spec zero cl k1 hcl
      refine ⟨k2, e, l, ?_, ?_⟩
      · intro i j hi hj; rw [q, if_neg (hblock_notin_cl i j hi hj)]
      · intro _ i hi
        have hm : i * (n + 1) + n ∈ cl := List.mem_append_left _ (List.mem_map.mpr ⟨i, List.mem_range.mpr (by omega), rfl⟩)
        rw [q, if_pos hm, if_pos (hcl _ hm)]
  let col := enc.map fun i => i * (n + 1) + n
  have hcol : ∀ k ∈ col, k < k2.length := by
    intro k hk
    obtain ⟨i, hi, rfl⟩ := List.mem_map.mp hk
    have := henc i hi
    rw [l2, l1, hlen]; nlinarith
  obtain ⟨out, e3, l3, q3⟩ := setCells_spec one col k2 hcol
  refine ⟨out, ?_, ?_, ?_, ?_⟩
  · unfold ksAdd; rw [e1]; simp only []; rw [e2]; exact e3
  · intro i j hi hj
    have hn : i * (n + 1) + j ∉ col := by
      intro hm
      obtain ⟨i', _, e⟩ := List.mem_map.mp hm
      exact cell_ne_col n i j i' hj e.symm
    rw [q3, if_neg hn, b2 i j hi hj, b1 i j hi hj]
  · intro i hi
    have hm : i * (n + 1) + n ∈ col := List.mem_map.mpr ⟨i, hi, rfl⟩
    rw [q3, if_pos hm, if_pos (hcol _ hm)]
  · intro hc i hi hni
    have hn : i * (n + 1) + n ∉ col := by
      intro hm
      obtain ⟨i', hi', e⟩ := List.mem_map.mp hm
      exact hni (by rw [col_inj n i i' e.symm]; exact hi')
    rw [q3, if_neg hn]; exact c2 hc i hi


end RV.Particles.Side
