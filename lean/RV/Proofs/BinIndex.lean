/-
  The index builder on well-formed archives and on crash images:
  blob walk on an encoded blob, on a strict prefix of one (read error), trailer-chain walk.
-/
import RV.Proofs.BinRaw
set_option linter.unusedVariables false
set_option linter.unusedSimpArgs false
namespace RV.Bin

/-- what the index walk needs of the fields of one blob -/
structure BlobOK (fs : List Field) : Prop where
  wf : WFs fs
  noHeader : NoHeader fs
  tsize : ∀ f ∈ fs, f.ty = T_ID → f.size = 8

theorem BlobOK_cons {f : Field} {fs : List Field} (h : BlobOK (f :: fs)) :
    f.WF ∧ f.ty ≠ HEADER ∧ (f.ty = T_ID → f.size = 8) ∧ BlobOK fs :=
  ⟨h.wf f (List.mem_cons_self ..), h.noHeader f (List.mem_cons_self ..), h.tsize f (List.mem_cons_self ..),
   ⟨fun g hg => h.wf g (List.mem_cons_of_mem _ hg), fun g hg => h.noHeader g (List.mem_cons_of_mem _ hg),
    fun g hg => h.tsize g (List.mem_cons_of_mem _ hg)⟩⟩

/-- the time the walk records: payload of the last `t` field -/
def tOf : List Field → Option Bytes → Option Bytes
  | [], t => t
  | f :: r, t => tOf r (if f.ty = T_ID then some f.data else t)

def blobLen (d : List Field) : Nat := (encFs d).length + 16

theorem blobLen_cons (f : Field) (fs : List Field) :
    blobLen (f :: fs) = 16 + f.data.length + blobLen fs := by
  simp only [blobLen, encFs, List.length_append, encF_length]; omega

theorem walkBlob_enc (v : Variant) (fs : List Field) (rest : Bytes) (h : BlobOK fs)
    (fuel pos : Nat) (t : Option Bytes) (hf : fs.length < fuel) :
    walkBlob v fuel pos (encFs fs ++ (endBytes ++ rest)) t = .ok (tOf fs t) (pos + blobLen fs) rest := by
  induction fs generalizing fuel pos t with
  | nil =>
    cases fuel with
    | zero => omega
    | succ n =>
      simp only [encFs, List.nil_append, walkBlob, readHdr_end, tOf, blobLen, List.length_nil]
      have h1 : ¬ END = HEADER := by decide
      have h2 : ¬ END = T_ID := by decide
      simp [h1, h2]
  | cons f fs ih =>
    cases fuel with
    | zero => omega
    | succ n =>
      obtain ⟨hw, hnh, hts, hrest⟩ := BlobOK_cons h
      have hl : fs.length < n := by simp at hf; omega
      simp only [encFs, List.append_assoc, walkBlob]
      rw [readHdr_encF f _ hw]
      simp only [hnh, if_false]
      by_cases hty : f.ty = T_ID
      · have hs : f.size = 8 := hts hty
        have hd : f.data.length = 8 := by rw [← hw.size_eq]; exact hs
        simp only [hty, if_true, hs, shorter_eq]
        have h1 : ¬ ((f.data ++ (encFs fs ++ (endBytes ++ rest))).length < 8) := by simp [hd]
        have h2 : ¬ (8 > 8) := by omega
        have h3 : ¬ ((8 : Nat) = 0) := by omega
        simp only [ne_eq, not_true_eq_false, decide_false, Bool.and_false, Bool.false_eq_true, if_false, h1, h2,
          h3, or_self, decide_false]
        have e1 : (f.data ++ (encFs fs ++ (endBytes ++ rest))).drop 8 = encFs fs ++ (endBytes ++ rest) := by
          rw [← hd]; exact List.drop_left
        have e2 : (f.data ++ (encFs fs ++ (endBytes ++ rest))).take 8 = f.data := by
          rw [← hd]; exact List.take_left
        rw [e1, e2, ih hrest n _ _ hl, blobLen_cons, hd]
        simp only [tOf, hty, if_true]
        have : pos + 16 + 8 + blobLen fs = pos + (16 + 8 + blobLen fs) := by omega
        rw [this]
      · have hne : f.ty ≠ END := hw.ty_ne_end
        simp only [hty, hne, if_false, hw.size_eq, List.drop_left]
        rw [ih hrest n _ _ hl, blobLen_cons]
        simp only [tOf, hty, if_false]
        have : pos + 16 + f.data.length + blobLen fs = pos + (16 + f.data.length + blobLen fs) := by omega
        rw [this]

theorem take_hdr_append (ty sz : Nat) (X : Bytes) (m : Nat) (hm : 16 ≤ m) :
    (hdrBytes ty sz ++ X).take m = hdrBytes ty sz ++ X.take (m - 16) := by
  rw [List.take_append]
  have : (hdrBytes ty sz).take m = hdrBytes ty sz := List.take_of_length_le (by simp; omega)
  rw [this]; simp

theorem drop_take_left (a R : Bytes) (m : Nat) :
    ((a ++ R).take m).drop a.length = R.take (m - a.length) := by
  rw [List.drop_take]
  simp

/-- **prefix lemma**: the walk over a strict prefix of an encoded blob ends in a read error
    (a cut inside a payload is noticed at the next header read: `fseek` past the end succeeds,
    `fread` does not) -/
theorem walkBlob_prefix (v : Variant) (fs : List Field) (h : BlobOK fs) (m : Nat)
    (hm : m < blobLen fs) (fuel pos : Nat) (t : Option Bytes) :
    walkBlob v fuel pos ((encFs fs ++ endBytes).take m) t = .readError := by
  induction fs generalizing m fuel pos t with
  | nil =>
    cases fuel with
    | zero => rfl
    | succ n =>
      simp only [blobLen, encFs, List.length_nil, Nat.zero_add] at hm
      simp only [encFs, List.nil_append, walkBlob]
      rw [readHdr_short]
      simp; omega
  | cons f fs ih =>
    cases fuel with
    | zero => rfl
    | succ n =>
      obtain ⟨hw, hnh, hts, hrest⟩ := BlobOK_cons h
      rw [blobLen_cons] at hm
      by_cases h16 : m < 16
      · simp only [walkBlob]
        rw [readHdr_short]
        simp; omega
      · have h16' : 16 ≤ m := by omega
        simp only [encFs, encF, List.append_assoc, walkBlob]
        rw [take_hdr_append _ _ _ _ h16', readHdr_hdr _ _ _ hw.ty_lt hw.size_lt]
        simp only [hnh, if_false]
        have hR : m - 16 - f.data.length < blobLen fs := by
          have : 16 ≤ blobLen fs := by simp [blobLen]
          omega
        by_cases hty : f.ty = T_ID
        · have hs : f.size = 8 := hts hty
          have hd : f.data.length = 8 := by rw [← hw.size_eq]; exact hs
          simp only [hty, if_true, hs, shorter_eq]
          have h2 : ¬ (8 > 8) := by omega
          have h3 : ¬ ((8 : Nat) = 0) := by omega
          simp only [ne_eq, not_true_eq_false, decide_false, Bool.and_false, Bool.false_eq_true, if_false, h2,
            h3, false_or]
          by_cases hshort : ((f.data ++ (encFs fs ++ endBytes)).take (m - 16)).length < 8
          · simp only [hshort, decide_true, if_true]
          · simp only [hshort, decide_false, Bool.false_eq_true, if_false]
            have e1 := drop_take_left f.data (encFs fs ++ endBytes) (m - 16)
            rw [hd] at e1
            rw [e1]
            exact ih hrest _ (by rw [hd] at hR; exact hR) n _ _
        · have hne : f.ty ≠ END := hw.ty_ne_end
          simp only [hty, hne, if_false, hw.size_eq]
          rw [drop_take_left]
          exact ih hrest _ hR n _ _


/-! ### trailers -/
theorem trailer_take (a b c : Nat) (X : Bytes) : (trailerBytes a b c ++ X).take 12 = trailerBytes a b c := by
  simp [trailerBytes, le32]

theorem trailer_drop (a b c : Nat) (X : Bytes) : (trailerBytes a b c ++ X).drop 12 = X := by
  simp [trailerBytes, le32]

theorem trailer_prev (a b c : Nat) (hb : b < 4294967296) :
    de (((trailerBytes a b c).drop 4).take 4) = b := by
  have := de_le32 b hb
  simp only [de, le32] at this
  simp only [trailerBytes, le32, List.cons_append, List.nil_append, List.drop_succ_cons, List.drop_zero,
    List.take_succ_cons, List.take_zero, de]
  exact this

theorem trailer_next (a b c : Nat) (hc : c < 4294967296) :
    de (((trailerBytes a b c).drop 8).take 4) = c := by
  have := de_le32 c hc
  simp only [de, le32] at this
  simp only [trailerBytes, le32, List.cons_append, List.nil_append, List.drop_succ_cons, List.drop_zero,
    List.take_succ_cons, List.take_zero, de]
  exact this

theorem sgn32_small (n : Nat) (h : n < 2147483648) : sgn32 n = (n : Int) := by
  unfold sgn32
  have : n % 4294967296 = n := Nat.mod_eq_of_lt (by omega)
  simp [this, h]

/-! ### the trailer chain -/
/-- bytes that follow the END marker of a blob: its trailer (index `idx`, back offset `prev`),
    then the remaining deltas, each followed by its trailer; the last trailer is replaced by `fin`
    (for an intact archive `fin = trailerBytes idx prev 0`) -/
def chainG (fin : Nat → Nat → Bytes) : Nat → Nat → List (List Field) → Bytes
  | idx, prev, [] => fin idx prev
  | idx, prev, d :: r => trailerBytes idx prev (blobLen d) ++ (encFs d ++ (endBytes ++ chainG fin (idx + 1) (blobLen d) r))

def finIntact (idx prev : Nat) : Bytes := trailerBytes idx prev 0

/-- index entries of the deltas `ds` when the first of them starts at `pos` -/
def chainEntries : Nat → List (List Field) → List Entry
  | _, [] => []
  | pos, d :: r => ⟨pos, tOf d none⟩ :: chainEntries (pos + blobLen d + 12) r

def chainEnd : Nat → List (List Field) → Nat
  | pos, [] => pos
  | pos, d :: r => chainEnd (pos + blobLen d + 12) r

/-- every delta is walkable and short enough for the 32-bit offsets -/
def ChainOK (ds : List (List Field)) : Prop := ∀ d ∈ ds, BlobOK d ∧ blobLen d < 2147483648

/-- start position and fields of the last blob of `d :: ds` when `d` starts at `pos` -/
def lastBlob : Nat → List Field → List (List Field) → Nat × List Field
  | pos, d, [] => (pos, d)
  | pos, d, d' :: r => lastBlob (pos + blobLen d + 12) d' r

/-- what the index loop does when, after the END marker of blob `i` (which began at `pos`; `pos1` is the
    position after its END marker), it finds `fin`: it accepts blob `i` and no further one -/
def FinStops (v : Variant) (fin : Bytes) (i pos pos1 : Nat) : Prop :=
  (fin.take 12).length = 12 ∧
  (i > 0 → sgn32 (de (((fin.take 12).drop 4).take 4)) + 12 = ((pos1 + 12 : Nat) : Int) - (pos : Int)) ∧
  (de (((fin.take 12).drop 8).take 4) = 0 ∨
    ∀ fuel, (indexLoop v fuel (i + 1) (pos1 + 12) (fin.drop 12)).entries = [] ∧
            (indexLoop v fuel (i + 1) (pos1 + 12) (fin.drop 12)).undefinedB = false)

theorem blobLen_ge (d : List Field) : 16 ≤ blobLen d := by simp [blobLen]

theorem indexLoop_step (v : Variant) (fuel i pos : Nat) (d : List Field) (hd : BlobOK d)
    (X : Bytes) :
    indexLoop v (fuel + 1) i pos (encFs d ++ (endBytes ++ X)) =
      (let tb := X.take 12
       let short := tb.length < 12
       let pos2 := pos + blobLen d + tb.length
       let offPrev := de ((tb.drop 4).take 4)
       let offNext := de ((tb.drop 8).take 4)
       if i > 0 ∧ sgn32 offPrev + 12 ≠ (pos2 : Int) - (pos : Int) then ⟨[], true, short, false⟩
       else if offNext = 0 ∨ short then ⟨[⟨pos, tOf d none⟩], false, short, false⟩
       else
         let o := indexLoop v fuel (i + 1) pos2 (X.drop 12)
         ⟨⟨pos, tOf d none⟩ :: o.entries, o.readError, o.shortTrailer, o.undefinedB⟩) := by
  have hl := encFs_length_ge d
  rw [indexLoop, walkBlob_enc v d X hd _ pos none (by simp; omega)]

/-- a blob followed by `fin` that stops the loop: exactly this blob is accepted -/
theorem indexLoop_fin (v : Variant) (fuel i pos : Nat) (d : List Field) (hd : BlobOK d) (fin : Bytes)
    (hfin : FinStops v fin i pos (pos + blobLen d)) :
    (indexLoop v (fuel + 1) i pos (encFs d ++ (endBytes ++ fin))).entries = [⟨pos, tOf d none⟩] ∧
    (indexLoop v (fuel + 1) i pos (encFs d ++ (endBytes ++ fin))).undefinedB = false := by
  obtain ⟨hlen, hchk, hnext⟩ := hfin
  rw [indexLoop_step v fuel i pos d hd fin]
  simp only [hlen, Nat.lt_irrefl, decide_false, or_false]
  have hno : ¬ (i > 0 ∧ sgn32 (de (((fin.take 12).drop 4).take 4)) + 12 ≠ ((pos + blobLen d + 12 : Nat) : Int) - (pos : Int)) := by
    intro ⟨hi, hne⟩
    exact hne (hchk hi)
  simp only [hno, if_false]
  rcases hnext with h0 | hrej
  · simp [h0]
  · by_cases h0 : de (((fin.take 12).drop 8).take 4) = 0
    · simp [h0]
    · simp only [h0, Bool.false_eq_true, or_self, if_false]
      obtain ⟨e1, e2⟩ := hrej fuel
      simp [e1, e2]

/-- the index loop over `blob ++ chain` (blob number `i > 0`): every delta of the chain is accepted,
    then `fin` stops it -/
theorem indexLoop_chain (v : Variant) (fin : Nat → Nat → Bytes) (ds : List (List Field))
    (hds : ChainOK ds) (d : List Field) (hd : BlobOK d) (hdl : blobLen d < 2147483648)
    (i pos idx fuel : Nat) (hi : i > 0) (hf : ds.length < fuel)
    (hfin : FinStops v (fin (idx + ds.length) (blobLen (lastBlob pos d ds).2))
              (i + ds.length) (lastBlob pos d ds).1 ((lastBlob pos d ds).1 + blobLen (lastBlob pos d ds).2)) :
    (indexLoop v fuel i pos (encFs d ++ (endBytes ++ chainG fin idx (blobLen d) ds))).entries
        = ⟨pos, tOf d none⟩ :: chainEntries (pos + blobLen d + 12) ds ∧
    (indexLoop v fuel i pos (encFs d ++ (endBytes ++ chainG fin idx (blobLen d) ds))).undefinedB = false := by
  induction ds generalizing d i pos idx fuel with
  | nil =>
    cases fuel with
    | zero => omega
    | succ n =>
      simp only [List.length_nil, Nat.add_zero, lastBlob] at hfin
      simp only [chainG, chainEntries]
      exact indexLoop_fin v n i pos d hd _ hfin
  | cons d' ds' ih =>
    cases fuel with
    | zero => omega
    | succ n =>
      have hl : ds'.length < n := by simp at hf; omega
      obtain ⟨hd', hdl'⟩ := hds d' (List.mem_cons_self ..)
      have hds' : ChainOK ds' := fun x hx => hds x (List.mem_cons_of_mem _ hx)
      simp only [chainG]
      rw [indexLoop_step v n i pos d hd]
      simp only [trailer_take, trailerBytes_length, Nat.lt_irrefl, decide_false, trailer_drop]
      rw [trailer_prev _ _ _ (by omega), trailer_next _ _ _ (by omega), sgn32_small _ hdl]
      have hchk : ¬ (i > 0 ∧ ((blobLen d : Nat) : Int) + 12 ≠ ((pos + blobLen d + 12 : Nat) : Int) - (pos : Int)) := by
        intro ⟨_, hne⟩; apply hne; omega
      have hnz : ¬ (blobLen d' = 0) := by have := blobLen_ge d'; omega
      simp only [hchk, if_false, hnz, Bool.false_eq_true, or_self]
      have e1 : idx + (d' :: ds').length = idx + 1 + ds'.length := by simp; omega
      have e2 : i + (d' :: ds').length = i + 1 + ds'.length := by simp; omega
      rw [e1, e2] at hfin
      simp only [lastBlob] at hfin
      obtain ⟨r1, r2⟩ := ih hds' d' hd' hdl' (i + 1) (pos + blobLen d + 12) (idx + 1) n (by omega) hl hfin
      simp only [chainEntries]
      exact ⟨by rw [r1], r2⟩


/-! ### blob 0: the 64-byte header is walked as a pseudo-field -/
structure HdrOK (hdr : Bytes) : Prop where
  len : hdr.length = 64
  ty : de (hdr.take 4) = HEADER

theorem readHdr_hdr64 (hdr Y : Bytes) (h : HdrOK hdr) :
    ∃ sz, readHdr (hdr ++ Y) = some (HEADER, sz, (hdr ++ Y).drop 16) := by
  have hl : ¬ ((hdr ++ Y).length < 16) := by simp [h.len]; omega
  have ht : (hdr ++ Y).take 4 = hdr.take 4 := by
    rw [List.take_append]; simp [h.len]
  refine ⟨de (((hdr ++ Y).drop 8).take 8), ?_⟩
  simp only [readHdr, shorter_eq, hl, decide_false, Bool.false_eq_true, if_false, ht, h.ty]

theorem drop64 (hdr Y : Bytes) (h : HdrOK hdr) : ((hdr ++ Y).drop 16).drop 48 = Y := by
  rw [List.drop_drop]
  have : 16 + 48 = hdr.length := by rw [h.len]
  rw [this]; exact List.drop_left

theorem walkBlob_hdr (v : Variant) (hdr Y : Bytes) (h : HdrOK hdr) (fuel pos : Nat) (t : Option Bytes) :
    walkBlob v (fuel + 1) pos (hdr ++ Y) t = walkBlob v fuel (pos + 64) Y t := by
  obtain ⟨sz, hr⟩ := readHdr_hdr64 hdr Y h
  rw [walkBlob, hr]
  simp only [if_true, drop64 hdr Y h]

theorem indexLoop_step0 (v : Variant) (fuel : Nat) (hdr : Bytes) (hh : HdrOK hdr) (d : List Field)
    (hd : BlobOK d) (X : Bytes) :
    indexLoop v (fuel + 1) 0 0 (hdr ++ (encFs d ++ (endBytes ++ X))) =
      (let tb := X.take 12
       let short := tb.length < 12
       let pos2 := 64 + blobLen d + tb.length
       let offNext := de ((tb.drop 8).take 4)
       if offNext = 0 ∨ short then ⟨[⟨0, tOf d none⟩], false, short, false⟩
       else
         let o := indexLoop v fuel 1 pos2 (X.drop 12)
         ⟨⟨0, tOf d none⟩ :: o.entries, o.readError, o.shortTrailer, o.undefinedB⟩) := by
  have hl := encFs_length_ge d
  have hlen : (hdr ++ (encFs d ++ (endBytes ++ X))).length = (63 + (encFs d).length + 16 + X.length) + 1 := by
    simp [hh.len]; omega
  rw [indexLoop, hlen, walkBlob_hdr v hdr _ hh, walkBlob_enc v d X hd _ _ none (by omega)]
  simp

/-- an archive: header, first snapshot, END, trailer chain with the deltas `ds`, final segment `fin` -/
def archG (fin : Nat → Nat → Bytes) (hdr : Bytes) (fs0 : List Field) (ds : List (List Field)) : Bytes :=
  hdr ++ (encFs fs0 ++ (endBytes ++ chainG fin 0 0 ds))

/-- position of blob 1 -/
def off1 (fs0 : List Field) : Nat := 64 + blobLen fs0 + 12

/-- `fin` stops the loop after the last blob of the archive -/
def FinStopsArch (v : Variant) (fin : Nat → Nat → Bytes) (fs0 : List Field) : List (List Field) → Prop
  | [] => FinStops v (fin 0 0) 0 0 (64 + blobLen fs0)
  | d :: r => FinStops v (fin (1 + r.length) (blobLen (lastBlob (off1 fs0) d r).2)) (1 + r.length)
                (lastBlob (off1 fs0) d r).1 ((lastBlob (off1 fs0) d r).1 + blobLen (lastBlob (off1 fs0) d r).2)

/-- **index of an archive** (any final segment that stops the loop): one entry per blob, at the
    offsets of the trailer chain, with the time fields the blobs carry -/
theorem indexLoop_arch (v : Variant) (fin : Nat → Nat → Bytes) (hdr : Bytes) (hh : HdrOK hdr)
    (fs0 : List Field) (h0 : BlobOK fs0) (ds : List (List Field)) (hds : ChainOK ds)
    (hfin : FinStopsArch v fin fs0 ds) (fuel : Nat) (hf : ds.length + 1 < fuel) :
    (indexLoop v fuel 0 0 (archG fin hdr fs0 ds)).entries
        = ⟨0, tOf fs0 none⟩ :: chainEntries (off1 fs0) ds ∧
    (indexLoop v fuel 0 0 (archG fin hdr fs0 ds)).undefinedB = false := by
  cases fuel with
  | zero => omega
  | succ n =>
    unfold archG
    rw [indexLoop_step0 v n hdr hh fs0 h0]
    cases ds with
    | nil =>
      simp only [chainG, chainEntries]
      obtain ⟨hlen, _, hnext⟩ := hfin
      simp only [hlen, Nat.lt_irrefl, decide_false, or_false]
      rcases hnext with e0 | hrej
      · simp [e0]
      · by_cases e0 : de (((fin 0 0).take 12).drop 8 |>.take 4) = 0
        · simp [e0]
        · simp only [e0, Bool.false_eq_true, or_self, if_false]
          obtain ⟨e1, e2⟩ := hrej n
          simp only [Nat.zero_add] at e1 e2
          simp [e1, e2]
    | cons d r =>
      obtain ⟨hd, hdl⟩ := hds d (List.mem_cons_self ..)
      have hr : ChainOK r := fun x hx => hds x (List.mem_cons_of_mem _ hx)
      simp only [chainG, trailer_take, trailerBytes_length, Nat.lt_irrefl, decide_false, trailer_drop]
      rw [trailer_next _ _ _ (by omega)]
      have hnz : ¬ (blobLen d = 0) := by have := blobLen_ge d; omega
      simp only [hnz, Bool.false_eq_true, or_self, if_false]
      have hfin' : FinStops v (fin (1 + r.length) (blobLen (lastBlob (off1 fs0) d r).2)) (1 + r.length)
          (lastBlob (off1 fs0) d r).1 ((lastBlob (off1 fs0) d r).1 + blobLen (lastBlob (off1 fs0) d r).2) := hfin
      obtain ⟨r1, r2⟩ := indexLoop_chain v fin r hr d hd hdl 1 (off1 fs0) 1 n (by omega)
        (by simp at hf; omega) hfin'
      simp only [off1] at r1 r2
      simp only [chainEntries, off1]
      exact ⟨by rw [r1], r2⟩

/-- the intact final trailer stops the loop -/
theorem finIntact_stops (v : Variant) (i pos : Nat) (idx : Nat) (L : Nat) (hL : L < 2147483648) :
    FinStops v (finIntact idx L) i pos (pos + L) := by
  refine ⟨by simp [finIntact, trailerBytes, le32], ?_, Or.inl ?_⟩
  · intro _
    have : (finIntact idx L).take 12 = trailerBytes idx L 0 := by simp [finIntact, trailerBytes, le32]
    rw [this, trailer_prev _ _ _ (by omega), sgn32_small _ hL]
    omega
  · have : (finIntact idx L).take 12 = trailerBytes idx L 0 := by simp [finIntact, trailerBytes, le32]
    rw [this, trailer_next _ _ _ (by omega)]

end RV.Bin
