import RV.Proofs.C01JanusW10_0
import RV.Proofs.C01JanusW10_1
import RV.Proofs.C01JanusW10_2
import RV.Proofs.C01JanusW10_3
import RV.Proofs.C01JanusW10_4
import RV.Proofs.C01JanusW10_5
import RV.Proofs.C01JanusW10_6
import RV.Proofs.C01JanusW10_7
/- C01 / JANUS order 10: the eight shards cover all 2047 words of length ≤ 10 -/
namespace RV.C01.Janus
open RV.C01 RV.C01.Gen RV.C01.Adv
def prefixes3 : List (List Bool) := [false, true].flatMap fun a => [false, true].flatMap fun b => [false, true].map fun c => [a, b, c]
/-- each shard holds 258 words (255 below its prefix + the 3 prefixes of the prefix incl. the empty word), the full trie 2047:
    8·255 words of length ≥ 3 plus the 7 words of length ≤ 2 -/
theorem words_10_cover : (∀ u ∈ prefixes3, sizeT (mkTPath (List.replicate 11 10) u 11 0 0 1) = 258) ∧
    sizeT (mkT (List.replicate 11 10) 11 0 0 1) = 2047 ∧ 8 * 255 + 7 = 2047 := by decide +kernel
theorem words_10_all : ∀ u ∈ prefixes3, ∀ s ∈ janusStep.lookup 10, WordOrderOn s (List.replicate 11 10) u 0 tolJanus := by
  intro u hu
  simp only [prefixes3, List.flatMap_cons, List.flatMap_nil, List.map_cons, List.map_nil, List.append_nil, List.cons_append,
    List.nil_append, List.mem_cons, List.not_mem_nil, or_false] at hu
  rcases hu with rfl | rfl | rfl | rfl | rfl | rfl | rfl | rfl
  · exact words_10_shard0
  · exact words_10_shard1
  · exact words_10_shard2
  · exact words_10_shard3
  · exact words_10_shard4
  · exact words_10_shard5
  · exact words_10_shard6
  · exact words_10_shard7
end RV.C01.Janus
