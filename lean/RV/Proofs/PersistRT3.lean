import RV.Proofs.PersistRT2
/-
  Whole-table theorems: decode ∘ encode = restore, and re-saving reproduces the stream.
-/
set_option linter.unusedVariables false
set_option linter.unusedSimpArgs false
set_option linter.unusedSectionVars false
namespace RV.Persist

variable {psz : Nat} {sp : Special} {tbl : List Desc}

theorem applyAll_append (st : Sim × List Warning) (l1 l2 : List Field) :
    applyAll psz sp tbl st (l1 ++ l2) = applyAll psz sp tbl (applyAll psz sp tbl st l1) l2 := by
  simp [applyAll, List.foldl_append]

theorem applyAll_flatMap (s : Sim) (ds : List Desc) (cur : Sim) (w : List Warning)
    (h : ∀ d ∈ ds, lookup tbl d.id = some d ∧ WFd psz s d) :
    applyAll psz sp tbl (cur, w) (ds.flatMap (encodeField psz s)) = (ds.foldl (writeS psz s) cur, w) := by
  induction ds generalizing cur with
  | nil => simp [applyAll]
  | cons d r ih =>
    rw [List.flatMap_cons, applyAll_append, apply_encodeField s cur w d (h d (by simp)).1 (h d (by simp)).2]
    rw [List.foldl_cons]
    exact ih _ (fun x hx => h x (List.mem_cons_of_mem _ hx))

theorem encodeField_id (s : Sim) (d : Desc) : ∀ f ∈ encodeField psz s d, f.1 = d.id := by
  intro f hf
  cases hs : simpleSize psz d.dtype with
  | some sz =>
    rw [encodeField_simple s d sz hs] at hf
    simp at hf; rw [hf]
  | none =>
    cases hd : d.dtype with
    | pointer | pointerAligned =>
      all_goals (
        rw [encodeField_pointer s d (by simp [hd])] at hf
        split at hf
        · simp at hf
        · simp at hf; rw [hf])
    | pointerFixed =>
      rw [encodeField_fixed s d hd] at hf
      split at hf
      · simp at hf; rw [hf]
      · simp at hf
    | dp7 =>
      rw [encodeField_dp7 s d hd] at hf
      split at hf
      · simp at hf
      · simp at hf; rw [hf]
    | double | int | uint | uint32 | int64 | uint64 | vec3d | particle | particle4 =>
      all_goals (rw [hd] at hs; simp [simpleSize] at hs)
    | other | fieldEnd | notFound =>
      all_goals (rw [encodeField_none s d (by simp [hd])] at hf; simp at hf)

theorem flatMap_ids (s : Sim) (ds : List Desc) :
    ∀ f ∈ ds.flatMap (encodeField psz s), ∃ d ∈ ds, f.1 = d.id := by
  intro f hf
  rw [List.mem_flatMap] at hf
  obtain ⟨d, hd, hfd⟩ := hf
  exact ⟨d, hd, encodeField_id s d f hfd⟩

theorem lookup_some_mem (id : Nat) (d : Desc) (h : lookup tbl id = some d) : d ∈ live tbl ∧ d.id = id := by
  unfold lookup at h
  have h1 := List.mem_of_find?_eq_some h
  have h2 := List.find?_some h
  exact ⟨h1, by simpa using h2⟩

/-- reading the function-pointer flag field -/
theorem apply_fp (ok : TableOK psz sp tbl) (cur : Sim) (w : List Warning) (fp : Bool) :
    applyField psz sp tbl (cur, w) (sp.fpIdWritten, encLE 4 (if fp then 1 else 0)) =
      (cur, if fp then w ++ [.pointers] else w) := by
  have hv : leNat ((encLE 4 (if fp then 1 else 0)).take 4) = if fp then 1 else 0 := by
    rw [take_length_self _ 4 (encLE_length 4 _), leNat_encLE]
    cases fp <;> simp
  have hspecial : (if sp.fpIdWritten = sp.legacyId then
        ((cur.setMem sp.legacyMem0 ((encLE 4 (if fp then 1 else 0)).take 8)).setMem sp.legacyMem1
          (((encLE 4 (if fp then 1 else 0)).drop 8).take 8), w)
      else if sp.fpIdWritten = sp.fpId then
        (cur, if leNat ((encLE 4 (if fp then 1 else 0)).take 4) ≠ 0 then w ++ [Warning.pointers] else w)
      else if sp.fpIdWritten = sp.headerId then (cur, w)
      else (cur, w ++ [Warning.unknownField sp.fpIdWritten])) = (cur, if fp then w ++ [.pointers] else w) := by
    have h1 : ¬ sp.fpIdWritten = sp.legacyId := by rw [ok.fpEq]; exact ok.fpNotLegacy
    rw [if_neg h1, if_pos ok.fpEq, hv]
    cases fp <;> simp
  cases hl : lookup tbl sp.fpIdWritten with
  | none =>
    simp only [applyField, hl]
    exact hspecial
  | some d =>
    obtain ⟨hm, hid⟩ := lookup_some_mem _ d hl
    have hdt : d.dtype = .other := ok.fpRow d hm (by rw [hid, ok.fpEq])
    simp only [applyField, hl, hdt, simpleSize]
    exact hspecial

/-- **decode ∘ encode**, for every table with unique ids and every well-formed simulation:
    the reader ends with the source's value at every location some live row persists, the initial value
    elsewhere, and the only possible warning is the function-pointer reminder. -/
theorem decode_encode (ok : TableOK psz sp tbl) (s init : Sim) (fp : Bool) (hwf : WF psz tbl s) :
    decodeFields psz sp tbl (init, []) (encode psz sp tbl s fp) =
      (restore psz tbl init s, if fp then [.pointers] else []) := by
  unfold encode
  rw [decodeFields_append]
  · rw [applyAll_flatMap s (live tbl) init []
      (fun d hd => ⟨lookup_of_mem tbl ok.nodup d hd, hwf d hd⟩)]
    have hfpne : sp.fpIdWritten ≠ sp.endId := by rw [ok.fpEq]; exact ok.fpNotEnd
    simp only [decodeFields, hfpne, if_false, if_true]
    rw [apply_fp ok]
    rw [foldl_writeS]
    simp [restore]
  · intro f hf
    obtain ⟨d, hd, hid⟩ := flatMap_ids s (live tbl) f hf
    rw [hid]
    exact ok.endFresh d hd

/-- the simulation agrees with `init` wherever no live row persists anything: it is its own persisted
    projection over a fresh simulation -/
def Persisted (psz : Nat) (tbl : List Desc) (init s : Sim) : Prop :=
  (∀ m, (live tbl).any (fun d => memWritten psz s d m) = false → s.mem m = init.mem m) ∧
  (∀ m, (live tbl).any (fun d => heapWritten psz s d m) = false → s.heap m = init.heap m)

theorem restore_eq_self (init s : Sim) (h : Persisted psz tbl init s) : restore psz tbl init s = s := by
  apply Sim.ext'
  · intro m
    simp only [restore]
    by_cases hw : ((live tbl).any fun d => memWritten psz s d m) = true
    · simp [hw]
    · have hw' : ((live tbl).any fun d => memWritten psz s d m) = false := by simpa using hw
      rw [if_neg (by simp [hw'])]
      exact (h.1 m hw').symm
  · intro m
    simp only [restore]
    by_cases hw : ((live tbl).any fun d => heapWritten psz s d m) = true
    · simp [hw]
    · have hw' : ((live tbl).any fun d => heapWritten psz s d m) = false := by simpa using hw
      rw [if_neg (by simp [hw'])]
      exact (h.2 m hw').symm

/-! ### re-saving -/

/-- a fresh simulation has no array allocated: every counter of a persisted array is 0 and the
    fixed-size pointers are NULL -/
def InitEmpty (tbl : List Desc) (init : Sim) : Prop :=
  ∀ d ∈ live tbl,
    ((d.dtype = .pointer ∨ d.dtype = .pointerAligned ∨ d.dtype = .dp7) → fieldSize init d = 0) ∧
    (d.dtype = .pointerFixed → init.heap d.mem = none)

theorem restore_mem_cases (init s : Sim) (m : Nat) :
    (restore psz tbl init s).mem m = s.mem m ∨ (restore psz tbl init s).mem m = init.mem m := by
  simp only [restore]
  split
  · left; rfl
  · right; rfl

theorem restore_heap_cases (init s : Sim) (m : Nat) :
    (restore psz tbl init s).heap m = s.heap m ∨ (restore psz tbl init s).heap m = init.heap m := by
  simp only [restore]
  split
  · left; rfl
  · right; rfl

theorem restore_mem_written (init s : Sim) (d : Desc) (hd : d ∈ live tbl) (m : Nat)
    (h : memWritten psz s d m = true) : (restore psz tbl init s).mem m = s.mem m := by
  simp only [restore]
  rw [if_pos]
  exact List.any_eq_true.mpr ⟨d, hd, h⟩

theorem restore_heap_written (init s : Sim) (d : Desc) (hd : d ∈ live tbl) (m : Nat)
    (h : heapWritten psz s d m = true) : (restore psz tbl init s).heap m = s.heap m := by
  simp only [restore]
  rw [if_pos]
  exact List.any_eq_true.mpr ⟨d, hd, h⟩

theorem fieldSize_congr (a b : Sim) (d : Desc) (h : a.mem d.nMem = b.mem d.nMem) :
    fieldSize a d = fieldSize b d := by
  simp [fieldSize, counter, h]

theorem heapBytes_congr (a b : Sim) (m : Nat) (h : a.heap m = b.heap m) : heapBytes a m = heapBytes b m := by
  simp [heapBytes, h]

/-- the writer emits the same field for the restored simulation as for the source, row by row -/
theorem encodeField_restore (init s : Sim) (hie : InitEmpty tbl init) (d : Desc) (hd : d ∈ live tbl) :
    encodeField psz (restore psz tbl init s) d = encodeField psz s d := by
  cases hs : simpleSize psz d.dtype with
  | some sz =>
    rw [encodeField_simple _ d sz hs, encodeField_simple _ d sz hs]
    rw [restore_mem_written init s d hd d.mem (by simp [memWritten, hs])]
  | none =>
    cases hdt : d.dtype with
    | pointer | pointerAligned =>
      all_goals (
        rw [encodeField_pointer _ d (by simp [hdt]), encodeField_pointer _ d (by simp [hdt])]
        by_cases hz : fieldSize s d = 0
        · have hr : fieldSize (restore psz tbl init s) d = 0 := by
            rcases restore_mem_cases (psz := psz) (tbl := tbl) init s d.nMem with h | h
            · rw [fieldSize_congr _ _ d h]; exact hz
            · rw [fieldSize_congr _ _ d h]; exact (hie d hd).1 (by simp [hdt])
          simp [hz, hr]
        · have hm : (restore psz tbl init s).mem d.nMem = s.mem d.nMem :=
            restore_mem_written init s d hd d.nMem (by simp [memWritten, hdt, simpleSize, hz])
          have hh : (restore psz tbl init s).heap d.mem = s.heap d.mem :=
            restore_heap_written init s d hd d.mem (by simp [heapWritten, hdt, simpleSize, hz])
          rw [fieldSize_congr _ _ d hm, heapBytes_congr _ _ _ hh])
    | pointerFixed =>
      rw [encodeField_fixed _ d hdt, encodeField_fixed _ d hdt]
      cases hh : s.heap d.mem with
      | some b =>
        rw [restore_heap_written init s d hd d.mem (by simp [heapWritten, hdt, simpleSize, hh]), hh]
      | none =>
        rcases restore_heap_cases (psz := psz) (tbl := tbl) init s d.mem with h | h
        · rw [h, hh]
        · rw [h, (hie d hd).2 hdt]
    | dp7 =>
      rw [encodeField_dp7 _ d hdt, encodeField_dp7 _ d hdt]
      by_cases hz : fieldSize s d = 0
      · have hr : fieldSize (restore psz tbl init s) d = 0 := by
          rcases restore_mem_cases (psz := psz) (tbl := tbl) init s d.nMem with h | h
          · rw [fieldSize_congr _ _ d h]; exact hz
          · rw [fieldSize_congr _ _ d h]; exact (hie d hd).1 (by simp [hdt])
        simp [hz, hr]
      · have hm : (restore psz tbl init s).mem d.nMem = s.mem d.nMem :=
          restore_mem_written init s d hd d.nMem (by simp [memWritten, hdt, simpleSize, hz])
        have hh : ∀ k, k < 7 → (restore psz tbl init s).heap (d.mem + k) = s.heap (d.mem + k) := by
          intro k hk
          apply restore_heap_written init s d hd
          simp [heapWritten, hdt, simpleSize, hz]
          omega
        rw [fieldSize_congr _ _ d hm]
        simp only [hz, if_false]
        unfold dp7Payload
        have g0 := hh 0 (by omega); simp only [Nat.add_zero] at g0
        rw [heapBytes_congr _ _ _ g0, heapBytes_congr _ _ _ (hh 1 (by omega)),
          heapBytes_congr _ _ _ (hh 2 (by omega)), heapBytes_congr _ _ _ (hh 3 (by omega)),
          heapBytes_congr _ _ _ (hh 4 (by omega)), heapBytes_congr _ _ _ (hh 5 (by omega)),
          heapBytes_congr _ _ _ (hh 6 (by omega))]
    | double | int | uint | uint32 | int64 | uint64 | vec3d | particle | particle4 =>
      all_goals (rw [hdt] at hs; simp [simpleSize] at hs)
    | other | fieldEnd | notFound =>
      all_goals (rw [encodeField_none _ d (by simp [hdt]), encodeField_none _ d (by simp [hdt])])

theorem flatMap_congr' {α β : Type} (l : List α) (f g : α → List β) (h : ∀ a ∈ l, f a = g a) :
    l.flatMap f = l.flatMap g := by
  induction l with
  | nil => rfl
  | cons a r ih =>
    rw [List.flatMap_cons, List.flatMap_cons, h a (by simp), ih (fun x hx => h x (List.mem_cons_of_mem _ hx))]

theorem encode_restore (init s : Sim) (fp : Bool) (hie : InitEmpty tbl init) :
    encode psz sp tbl (restore psz tbl init s) fp = encode psz sp tbl s fp := by
  unfold encode
  rw [flatMap_congr' (live tbl) _ _ (fun d hd => encodeField_restore init s hie d hd)]

end RV.Persist
