import RV.Model.Sched
import RV.Gen.C01Whfast
import RV.Gen.C01Saba
import RV.Gen.C01Eos
import RV.Gen.C01Leapfrog
import RV.Proofs.Reversal
/-
  C10 on the operator schedules the code really runs.  `rv/extract_c01.py` (builder b-c01; read-only
  here) derives, by executing the control flow of the C text, the exact list of primitive-operator calls
  one time step makes for every member of the option lattice (lean/RV/Gen/C01*.lean, `RV.C01.Op`).
  This file turns a *raw* palindrome of such a list (no merging of neighbours, so no additivity of the
  flows is needed) into `step(−dt) ∘ step(dt) = id`, under the only hypothesis that every primitive
  operator is undone by itself with the negated step.
-/
set_option linter.unusedVariables false
namespace RV.C10S
open RV RV.C01 RV.Reversal

/-- the operators that move the state (force evaluations, kind 2, only refresh the accelerations the next
    kick reads; `Fresh` says every kick reads accelerations of the current positions) -/
def moves (s : List Op) : List Op := s.filter (·.kind != 2)

/-- a drift-like operator (kind 0: Kepler / free drift, 10: inner drift of EOS): its `b` is the
    centre-of-mass flag, not a coefficient -/
def isDrift (o : Op) : Bool := o.kind % 10 == 0

/-- the operator for `−dt`: times negate, jerk terms (∝ dt³) negate, the flag of a drift stays -/
def negOp (o : Op) : Op := if isDrift o then ⟨o.kind, -o.a, o.b⟩ else ⟨o.kind, -o.a, -o.b⟩

/-- coefficients (multiples of dt, of dt³) instantiated at the step `h` -/
def inst (h : Rat) (o : Op) : Op :=
  if isDrift o then ⟨o.kind, o.a * h, o.b⟩ else ⟨o.kind, o.a * h, o.b * (h * h * h)⟩

theorem inst_neg (h : Rat) (o : Op) : inst (-h) o = negOp (inst h o) := by
  have hd : ∀ a b, isDrift ⟨o.kind, a, b⟩ = isDrift o := fun _ _ => rfl
  cases hk : isDrift o
  · simp only [inst, negOp, hk, hd, Bool.false_eq_true, if_false, Op.mk.injEq, true_and]
    constructor <;> ring
  · simp only [inst, negOp, hk, hd, if_true, Op.mk.injEq, true_and, and_true]
    ring

/-- the raw palindrome: the list of state-moving operators reads the same in both directions -/
@[reducible] def RawPalin (s : List Op) : Prop := (moves s).reverse = moves s

/-- one time step of a schedule with step size `h`, through arbitrary maps `φ` of the primitives -/
def schedStep {S : Type} (φ : Op → S → S) (l : List Op) (h : Rat) : S → S := opRun φ (l.map (inst h))

theorem schedStep_reverse {S : Type} (φ : Op → S → S) (hφ : ∀ o s, φ (negOp o) (φ o s) = s)
    (l : List Op) (hl : l.reverse = l) (h : Rat) (x : S) :
    schedStep φ l (-h) (schedStep φ l h x) = x := by
  unfold schedStep
  have e : l.map (inst (-h)) = (l.map (inst h)).map negOp := by
    rw [List.map_map]; apply List.map_congr_left; intro o _; exact inst_neg h o
  rw [e]
  apply opRun_palindrome φ negOp hφ
  rw [← List.map_reverse, hl]

theorem schedSteps_reverse {S : Type} (φ : Op → S → S) (hφ : ∀ o s, φ (negOp o) (φ o s) = s)
    (l : List Op) (hl : l.reverse = l) (h : Rat) (n : Nat) (x : S) :
    iter (schedStep φ l (-h)) n (iter (schedStep φ l h) n x) = x :=
  iter_inverse _ _ (schedStep_reverse φ hφ l hl h) n x

/-! ### EOS: the outer splitting with every shell-0 drift replaced by the whole inner scheme -/

/-- an operator of the inner scheme, called with the argument `a·dt` (inner letters are `kind + 10`) -/
def innerOp (a : Rat) (o : Op) : Op :=
  if o.kind == 0 then ⟨10, a * o.a, o.b⟩ else ⟨o.kind + 10, a * o.a, a * a * a * o.b⟩

def expand (inner : List Op) (o : Op) : List Op :=
  if o.kind == 0 then (moves inner).map (innerOp o.a) else [o]

/-- the operators one EOS step really applies: `reb_integrator_eos_drift_shell0(a·dt)` unrolled inside
    the outer schedule -/
def eosFull (outer inner : List Op) : List Op := (moves outer).flatMap (expand inner)

theorem eosFull_palin (outer inner : List Op) (ho : RawPalin outer) (hi : RawPalin inner) :
    (eosFull outer inner).reverse = eosFull outer inner := by
  unfold eosFull
  rw [List.reverse_flatMap, ho]
  apply List.flatMap_congr
  intro o _
  show (expand inner o).reverse = expand inner o
  unfold expand
  split
  · rw [← List.map_reverse, hi]
  · rfl

end RV.C10S
