import RV.Model.Sched
import RV.Gen.C01Whfast
import RV.Gen.C01Saba
import RV.Gen.C01Eos
import RV.Gen.C01Leapfrog
import RV.Proofs.Reversal
import RV.Proofs.Janus
import RV.Model.C10Saba
/-
  C10 on the operator schedules the code really runs.  `rv/extract_c01.py` (builder b-c01; read-only
  here) derives, by executing the control flow of the C text, the exact list of primitive-operator calls
  one time step makes for every member of the option lattice (lean/RV/Gen/C01*.lean, `RV.C01.Op`).
  This file turns a *raw* palindrome of such a list (no merging of neighbours, so no additivity of the
  flows is needed) into `step(−dt) ∘ step(dt) = id`, under the only hypothesis that every primitive
  operator is undone by itself with the negated step.
-/
set_option linter.unusedVariables false
namespace RV.C10S
open RV RV.C01 RV.Reversal

/-- the operators that move the state (force evaluations, kind 2, only refresh the accelerations the next
    kick reads; `Fresh` says every kick reads accelerations of the current positions) -/
def moves (s : List Op) : List Op := s.filter (·.kind != 2)

/-- a drift-like operator (kind 0: Kepler / free drift, 10: inner drift of EOS): its `b` is the
    centre-of-mass flag, not a coefficient -/
def isDrift (o : Op) : Bool := o.kind % 10 == 0

/-- the operator for `−dt`: times negate, jerk terms (∝ dt³) negate, the flag of a drift stays -/
def negOp (o : Op) : Op := if isDrift o then ⟨o.kind, -o.a, o.b⟩ else ⟨o.kind, -o.a, -o.b⟩

/-- coefficients (multiples of dt, of dt³) instantiated at the step `h` -/
def inst (h : Rat) (o : Op) : Op :=
  if isDrift o then ⟨o.kind, o.a * h, o.b⟩ else ⟨o.kind, o.a * h, o.b * (h * h * h)⟩

theorem inst_neg (h : Rat) (o : Op) : inst (-h) o = negOp (inst h o) := by
  have hd : ∀ a b, isDrift ⟨o.kind, a, b⟩ = isDrift o := fun _ _ => rfl
  cases hk : isDrift o
  · simp only [inst, negOp, hk, hd, Bool.false_eq_true, if_false, Op.mk.injEq, true_and]
    constructor <;> ring
  · simp only [inst, negOp, hk, hd, if_true, Op.mk.injEq, true_and, and_true]
    ring

/-- the raw palindrome: the list of state-moving operators reads the same in both directions -/
@[reducible] def RawPalin (s : List Op) : Prop := (moves s).reverse = moves s

/-- one time step of a schedule with step size `h`, through arbitrary maps `φ` of the primitives -/
def schedStep {S : Type} (φ : Op → S → S) (l : List Op) (h : Rat) : S → S := opRun φ (l.map (inst h))

theorem schedStep_reverse {S : Type} (φ : Op → S → S) (hφ : ∀ o s, φ (negOp o) (φ o s) = s)
    (l : List Op) (hl : l.reverse = l) (h : Rat) (x : S) :
    schedStep φ l (-h) (schedStep φ l h x) = x := by
  unfold schedStep
  have e : l.map (inst (-h)) = (l.map (inst h)).map negOp := by
    rw [List.map_map]; apply List.map_congr_left; intro o _; exact inst_neg h o
  rw [e]
  apply opRun_palindrome φ negOp hφ
  rw [← List.map_reverse, hl]

theorem schedSteps_reverse {S : Type} (φ : Op → S → S) (hφ : ∀ o s, φ (negOp o) (φ o s) = s)
    (l : List Op) (hl : l.reverse = l) (h : Rat) (n : Nat) (x : S) :
    iter (schedStep φ l (-h)) n (iter (schedStep φ l h) n x) = x :=
  iter_inverse _ _ (schedStep_reverse φ hφ l hl h) n x

/-! ### EOS: the outer splitting with every shell-0 drift replaced by the whole inner scheme -/

/-- an operator of the inner scheme, called with the argument `a·dt` (inner letters are `kind + 10`) -/
def innerOp (a : Rat) (o : Op) : Op :=
  if o.kind == 0 then ⟨10, a * o.a, o.b⟩ else ⟨o.kind + 10, a * o.a, a * a * a * o.b⟩

def expand (inner : List Op) (o : Op) : List Op :=
  if o.kind == 0 then (moves inner).map (innerOp o.a) else [o]

/-- the operators one EOS step really applies: `reb_integrator_eos_drift_shell0(a·dt)` unrolled inside
    the outer schedule -/
def eosFull (outer inner : List Op) : List Op := (moves outer).flatMap (expand inner)

theorem eosFull_palin (outer inner : List Op) (ho : RawPalin outer) (hi : RawPalin inner) :
    (eosFull outer inner).reverse = eosFull outer inner := by
  unfold eosFull
  rw [List.reverse_flatMap, ho]
  apply List.flatMap_congr
  intro o _
  show (expand inner o).reverse = expand inner o
  unfold expand
  split
  · rw [← List.map_reverse, hi]
  · rfl

/-! ### SABA: the step model of RV/Model/C10Saba.lean is a raw palindrome for EVERY stage count and EVERY pair of
    coefficient tables — the two mirror-index computations of `reb_integrator_saba_part2` make it one -/

open RV.C10Saba in
theorem driftIdx_mirror (S j : Nat) (h1 : 1 ≤ j) (h2 : j < S) : driftIdx S (S - j) = driftIdx S j := by
  unfold driftIdx
  split <;> split <;> omega

open RV.C10Saba in
theorem kickIdx_mirror (S j : Nat) (h : j < S) : kickIdx S (S - 1 - j) = kickIdx S j := by
  unfold kickIdx
  split <;> split <;> omega

/-- the state-moving operator at position `k` (0 … 2S) of a SABA step, for total coefficient functions -/
def sabaOpAt (cf df : Nat → Rat) (S k : Nat) : Op :=
  if k % 2 = 1 then ⟨1, df (RV.C10Saba.kickIdx S (k / 2)), 0⟩
  else if k = 0 then ⟨0, cf 0, 1⟩
  else if k = 2 * S then ⟨0, cf 0, 1⟩
  else ⟨0, cf (RV.C10Saba.driftIdx S (k / 2)), 1⟩

theorem moves_cons3 (a b : Rat) (rest : List Op) :
    moves ((⟨0, a, 1⟩ : Op) :: ⟨2, 0, 0⟩ :: ⟨1, b, 0⟩ :: rest) = ⟨0, a, 1⟩ :: ⟨1, b, 0⟩ :: moves rest := by
  simp [moves, List.filter_cons]

theorem moves_append (l₁ l₂ : List Op) : moves (l₁ ++ l₂) = moves l₁ ++ moves l₂ := by
  simp [moves, List.filter_append]

open RV.C10Saba in
theorem saba_loop_moves (S : Nat) (c d : List Rat) (cf df : Nat → Rat)
    (hc : ∀ i x, c[i]? = some x → cf i = x) (hd : ∀ i x, d[i]? = some x → df i = x) (n : Nat) :
    ∀ j m, 1 ≤ j → j + n ≤ S → loop S c d j n = some m →
      moves m = (List.range' (2 * j) (2 * n)).map (sabaOpAt cf df S) := by
  induction n with
  | zero =>
    intro j m _ _ h
    simp only [loop] at h
    injection h with h
    subst h
    rfl
  | succ n ih =>
    intro j m h1 h2 h
    unfold loop at h
    split at h
    · rename_i ci di rest hci hdi hrest
      injection h with h
      subst h
      rw [moves_cons3, ih (j + 1) rest (by omega) (by omega) hrest]
      have e : 2 * (n + 1) = (2 * n + 1) + 1 := by omega
      rw [e, List.range'_succ, List.range'_succ]
      have e2 : 2 * j + 1 + 1 = 2 * (j + 1) := by omega
      simp only [List.map_cons, e2]
      have o1 : sabaOpAt cf df S (2 * j) = ⟨0, ci, 1⟩ := by
        unfold sabaOpAt
        have a1 : ¬ (2 * j % 2 = 1) := by omega
        have a2 : ¬ (2 * j = 0) := by omega
        have a3 : ¬ (2 * j = 2 * S) := by omega
        have a4 : 2 * j / 2 = j := by omega
        simp only [a1, a2, a3, a4, if_false, hc _ _ hci]
      have o2 : sabaOpAt cf df S (2 * j + 1) = ⟨1, di, 0⟩ := by
        unfold sabaOpAt
        have a1 : (2 * j + 1) % 2 = 1 := by omega
        have a4 : (2 * j + 1) / 2 = j := by omega
        simp only [a1, a4, if_true, hd _ _ hdi]
      rw [o1, o2]
    · exact absurd h (by simp)

open RV.C10Saba in
theorem saba_step_moves (S : Nat) (hS : 1 ≤ S) (c d : List Rat) (cf df : Nat → Rat)
    (hc : ∀ i x, c[i]? = some x → cf i = x) (hd : ∀ i x, d[i]? = some x → df i = x) (l : List Op)
    (h : step S c d = some l) :
    moves l = (List.range' 0 (2 * S + 1)).map (sabaOpAt cf df S) := by
  unfold step at h
  split at h
  · rename_i c0 d0 mid hc0 hd0 hmid
    injection h with h
    subst h
    rw [moves_cons3, moves_append, saba_loop_moves S c d cf df hc hd (S - 1) 1 mid (by omega) (by omega) hmid]
    have e : 2 * S + 1 = 2 + (2 * (S - 1) + 1) := by omega
    have r1 : List.range' 0 (2 * S + 1) = 0 :: 1 :: (List.range' 2 (2 * (S - 1)) ++ [2 * S]) := by
      rw [e, ← List.range'_append_1 (s := 0) (m := 2) (n := 2 * (S - 1) + 1)]
      have : List.range' 0 2 = [0, 1] := by decide
      rw [this, List.range'_concat]
      simp only [Nat.zero_add, List.cons_append, List.nil_append]
      have e4 : 2 + 1 * (2 * (S - 1)) = 2 * S := by omega
      rw [e4]
    rw [r1]
    simp only [List.map_cons, List.map_append, List.map_nil, Nat.mul_one]
    have o0 : sabaOpAt cf df S 0 = ⟨0, c0, 1⟩ := by
      unfold sabaOpAt; simp [hc _ _ hc0]
    have o1 : sabaOpAt cf df S 1 = ⟨1, d0, 0⟩ := by
      unfold sabaOpAt
      have : kickIdx S 0 = 0 := by unfold kickIdx; simp
      simp [this, hd _ _ hd0]
    have oS : sabaOpAt cf df S (2 * S) = ⟨0, c0, 1⟩ := by
      unfold sabaOpAt
      have a1 : ¬ (2 * S % 2 = 1) := by omega
      have a2 : ¬ (2 * S = 0) := by omega
      simp only [a1, a2, if_false, if_true, hc _ _ hc0]
    rw [o0, o1, oS]
    simp [moves, List.filter_cons]
  · exact absurd h (by simp)

theorem sabaOpAt_mirror (cf df : Nat → Rat) (S : Nat) (hS : 1 ≤ S) (k : Nat) (hk : k ≤ 2 * S) :
    sabaOpAt cf df S (2 * S - k) = sabaOpAt cf df S k := by
  unfold sabaOpAt
  by_cases p : k % 2 = 1
  · have p' : (2 * S - k) % 2 = 1 := by omega
    have e : (2 * S - k) / 2 = S - 1 - k / 2 := by omega
    simp only [p, p', if_true, e]
    rw [kickIdx_mirror S (k / 2) (by omega)]
  · have p' : ¬ ((2 * S - k) % 2 = 1) := by omega
    simp only [p, p', if_false]
    by_cases k0 : k = 0
    · subst k0
      have a3 : 2 * S - 0 = 2 * S := by omega
      simp only [a3, if_true]
      split <;> rfl
    · by_cases kS : k = 2 * S
      · subst kS
        have a1 : 2 * S - 2 * S = 0 := by omega
        have a2 : ¬ (2 * S = 0) := by omega
        simp only [a1, a2, if_false, if_true]
      · have a1 : ¬ (2 * S - k = 0) := by omega
        have a2 : ¬ (2 * S - k = 2 * S) := by omega
        simp only [k0, kS, a1, a2, if_false]
        have e1 : (2 * S - k) / 2 = S - k / 2 := by omega
        rw [e1, driftIdx_mirror S (k / 2) (by omega) (by omega)]

/-- for every stage count and every coefficient tables: the SABA step model is a raw palindrome -/
theorem saba_step_palindrome (S : Nat) (hS : 1 ≤ S) (c d : List Rat) (l : List Op)
    (h : RV.C10Saba.step S c d = some l) : RawPalin l := by
  let cf : Nat → Rat := fun i => match c[i]? with | some x => x | none => 0
  let df : Nat → Rat := fun i => match d[i]? with | some x => x | none => 0
  have hc : ∀ i x, c[i]? = some x → cf i = x := by intro i x hx; simp only [cf, hx]
  have hd : ∀ i x, d[i]? = some x → df i = x := by intro i x hx; simp only [df, hx]
  unfold RawPalin
  rw [saba_step_moves S hS c d cf df hc hd l h]
  exact RV.Janus.map_range'_reverse _ _ (fun k hk => sabaOpAt_mirror cf df S hS k hk)

end RV.C10S
