import RV.Proofs.TreeArrUpdate
import Mathlib.Tactic.Positivity
set_option linter.unusedSectionVars false
set_option linter.unusedVariables false
set_option linter.unusedSimpArgs false
namespace RV.C15
open RV RV.Tree RV.Boundary RV.TreeArr

variable {K : Type} [Field K] [LinearOrder K] [IsStrictOrderedRing K]

/-- one axis: a coordinate inside the closed box (faces included) gets a root index `< n` whose root cell contains it -/
theorem axis_root (floor : K → Int) (hfl : ∀ x : K, (floor x : K) ≤ x ∧ x < (floor x : K) + 1)
    (rs : K) (hrs : 0 < rs) (n : Nat) (hn : 0 < n) (x : K)
    (h1 : -(boxLen rs n) / 2 ≤ x) (h2 : x ≤ boxLen rs n / 2) :
    axisIdx floor x (boxLen rs n) rs n < n ∧
    |x - axisCentre (boxLen rs n) rs (axisIdx floor x (boxLen rs n) rs n)| ≤ rs / 2 := by
  simp only [boxLen, sc_hmul, sc_ofNat] at h1 h2
  simp only [axisIdx, axisCentre, boxLen, sc_hmul, sc_hadd, sc_hdiv, sc_ofNat, sc_neg, sc_one, Nat.cast_ofNat]
  set y := (x + rs * (n : K) / 2) / rs with hy
  have hxy : x = rs * y - rs * (n : K) / 2 := by
    rw [hy]; field_simp; ring
  have hy0 : 0 ≤ y := by
    rw [hy]; apply div_nonneg _ (le_of_lt hrs); linarith
  have hyn : y ≤ n := by
    rw [hy, div_le_iff₀ hrs]; linarith
  obtain ⟨f1, f2⟩ := hfl y
  have hf0 : (0 : Int) ≤ floor y := by
    by_contra hneg
    have : floor y ≤ -1 := by omega
    have : (floor y : K) ≤ -1 := by exact_mod_cast this
    linarith
  unfold clampIdx
  have hnl : ¬ floor y < 0 := by omega
  simp only [hnl, if_false]
  by_cases hge : floor y ≥ (n : Int)
  · simp only [hge, if_true]
    have hfn : (n : K) ≤ (floor y : K) := by exact_mod_cast hge
    have hyeq : y = n := le_antisymm hyn (le_trans hfn f1)
    have hn1 : ((n - 1 : Nat) : K) = (n : K) - 1 := by
      rw [Nat.cast_sub (by omega)]; simp
    refine ⟨by omega, ?_⟩
    rw [hn1, hxy, hyeq, abs_le]
    constructor <;> linarith
  · simp only [hge, if_false]
    have hlt : floor y < (n : Int) := by omega
    have hcast : ((floor y).toNat : K) = (floor y : K) := by
      have : ((floor y).toNat : Int) = floor y := Int.toNat_of_nonneg hf0
      exact_mod_cast this
    refine ⟨by omega, ?_⟩
    rw [hcast, hxy, abs_le]
    constructor <;> nlinarith


theorem idx_decomp (nx ny nz i j k : Nat) (hi : i < nx) (hj : j < ny) (hk : k < nz) :
    ((k * ny + j) * nx + i) % nx = i ∧ (((k * ny + j) * nx + i) / nx) % ny = j ∧
    ((k * ny + j) * nx + i) / (nx * ny) = k ∧ (k * ny + j) * nx + i < nx * ny * nz := by
  have hnx : 0 < nx := by omega
  have hny : 0 < ny := by omega
  have h1 : ((k * ny + j) * nx + i) % nx = i := by
    rw [Nat.add_comm, Nat.add_mul_mod_self_right, Nat.mod_eq_of_lt hi]
  have h2 : ((k * ny + j) * nx + i) / nx = k * ny + j := by
    rw [Nat.add_comm, Nat.add_mul_div_right _ _ hnx, Nat.div_eq_of_lt hi, Nat.zero_add]
  have h3 : (k * ny + j) % ny = j := by
    rw [Nat.add_comm, Nat.add_mul_mod_self_right, Nat.mod_eq_of_lt hj]
  have h4 : (k * ny + j) / ny = k := by
    rw [Nat.add_comm, Nat.add_mul_div_right _ _ hny, Nat.div_eq_of_lt hj, Nat.zero_add]
  refine ⟨h1, by rw [h2, h3], by rw [← Nat.div_div_eq_div_mul, h2, h4], ?_⟩
  calc (k * ny + j) * nx + i < (k * ny + j) * nx + nx := by omega
    _ = (k * ny + j + 1) * nx := by ring
    _ ≤ (k * ny + ny) * nx := Nat.mul_le_mul_right _ (by omega)
    _ = (k + 1) * ny * nx := by ring
    _ ≤ nz * ny * nx := Nat.mul_le_mul_right _ (Nat.mul_le_mul_right _ (by omega))
    _ = nx * ny * nz := by ring

/-- the six comparisons of `reb_boundary_particle_is_in_box` on a tree particle -/
def inBoxPt (rs : K) (nx ny nz : Nat) (p : Pt K) : Bool :=
  !(outside (boxLen rs nx) (boxLen rs ny) (boxLen rs nz) ⟨p.x, p.y, p.z, 0⟩)

/-- forest level: every particle inside the closed simulation box (faces included) is assigned a root box that
    exists and whose root cell contains it -/
theorem root_contains (floor : K → Int) (hfl : ∀ x : K, (floor x : K) ≤ x ∧ x < (floor x : K) + 1)
    (rs : K) (hrs : 0 < rs) (nx ny nz : Nat) (hx : 0 < nx) (hy : 0 < ny) (hz : 0 < nz) (p : Pt K)
    (hin : inBoxPt rs nx ny nz p = true) :
    rootIdx floor rs nx ny nz p < nx * ny * nz ∧
    In p (rootCellOf rs nx ny nz (rootIdx floor rs nx ny nz p)) := by
  simp only [inBoxPt, outside, Bool.not_eq_true', Bool.or_eq_false_iff, so_lt_false, half_eq, nhalf_eq, not_lt] at hin
  obtain ⟨⟨⟨⟨⟨a1, a2⟩, b1⟩, b2⟩, c1⟩, c2⟩ := hin
  obtain ⟨i1, i2⟩ := axis_root floor hfl rs hrs nx hx p.x a2 a1
  obtain ⟨j1, j2⟩ := axis_root floor hfl rs hrs ny hy p.y b2 b1
  obtain ⟨k1, k2⟩ := axis_root floor hfl rs hrs nz hz p.z c2 c1
  obtain ⟨d1, d2, d3, d4⟩ := idx_decomp nx ny nz _ _ _ i1 j1 k1
  refine ⟨d4, ?_⟩
  simp only [rootIdx, rootCellOf, In, d1, d2, d3]
  exact ⟨i2, j2, k2⟩


/-- (1)+(2): the update of the whole forest of root boxes with the code's own root-box rule -/
theorem updateA_forest {α : Type} (floor : K → Int) (hfl : ∀ x : K, (floor x : K) ≤ x ∧ x < (floor x : K) + 1)
    (rs : K) (hrs : 0 < rs) (nx ny nz : Nat) (hx : 0 < nx) (hy : 0 < ny) (hz : 0 < nz)
    (pos : α → Pt K) (flagged : α → Bool) (fuel : Nat)
    (forest0 : List (T K)) (arr0 : List α) (forest1 : List (T K)) (arr1 : List α)
    (hlen : forest0.length = nx * ny * nz)
    (hgeo : ∀ r (h : r < forest0.length), Geo (rootCellOf rs nx ny nz r) forest0[r])
    (hbij : List.Perm (forest0.flatMap leaves) (List.range arr0.length))
    (hbox : ∀ p ∈ arr0, flagged p = false → inBoxPt rs nx ny nz (pos p) = true)
    (h : updateA pos flagged (fun a => inBoxPt rs nx ny nz (pos a)) (rootIdx floor rs nx ny nz)
          (rootCellOf rs nx ny nz) fuel forest0 arr0 = some (.ok (forest1, arr1))) :
    List.Perm arr1 (arr0.filter (fun p => !flagged p)) ∧
    forest1.length = nx * ny * nz ∧
    ForestOK (psOf pos arr1) (rootCellOf rs nx ny nz) forest1 arr1.length := by
  obtain ⟨_, h2, h3, h4⟩ := updateA_spec pos flagged _ _ _ fuel forest0 arr0 forest1 arr1 hgeo hbij
    (fun p hp hf => by
      have hb := hbox p hp hf
      obtain ⟨r1, r2⟩ := root_contains floor hfl rs hrs nx ny nz hx hy hz (pos p) hb
      exact ⟨hb, by rw [hlen]; exact r1, r2⟩) h
  exact ⟨h2, by rw [h3, hlen], h4⟩

end RV.C15
