import RV.Proofs.Integrate
/-
  C08, split clause: `integrate(t1); integrate(t2)` without exact finishing takes the same steps
  as `integrate(t2)`, provided the first call does not carry the time past `t2`.
-/
set_option linter.unusedSectionVars false
set_option linter.unusedVariables false
set_option linter.unusedSimpArgs false
set_option linter.unnecessarySimpa false
namespace RV.Integrate
open RV
variable {K : Type} [Field K] [LinearOrder K] [IsStrictOrderedRing K]

/-- one call without exact finishing, all members of the final state -/
theorem integrate_nonexact (step : StepFn K) (hfix : IsFixed step) (env : Nat → Flags)
    (henv : ∀ k, (env k).Clear) (s0 : Sim K) (tmax sg d : K) (n : Nat)
    (hst : s0.status ≠ -3 ∧ s0.status ≠ -4) (hex : s0.exactFinish ≠ 1)
    (hdt : s0.dt ≠ 0) (hne : tmax ≠ s0.t)
    (hsg : sg = dirOf s0.t tmax) (hd : d = sg * |s0.dt|)
    (hfirst : ∀ j : Nat, j < n → (s0.t + j * d) * sg < tmax * sg)
    (hpast : tmax * sg ≤ (s0.t + n * d) * sg) :
    ∀ fuel, n + 1 ≤ fuel → ∃ s', integrate step env fuel s0 tmax false = .done s' ∧
      s'.t = s0.t + n * d ∧ s'.status = 0 ∧ s'.stepsDone = s0.stepsDone + n ∧ s'.dt = d ∧
      s'.exactFinish = s0.exactFinish ∧ stepSeq s' = seqOf s0.t d n ++ stepSeq s0 := by
  intro fuel hfuel
  subst hsg hd
  have hsg := dirOf_cases s0.t tmax
  have hpos : 0 < |s0.dt| := abs_pos.mpr hdt
  have hdsg : dirOf s0.t tmax * |s0.dt| * dirOf s0.t tmax = |s0.dt| := by
    have := dirOf_mul_self s0.t tmax
    calc dirOf s0.t tmax * |s0.dt| * dirOf s0.t tmax
        = (dirOf s0.t tmax * dirOf s0.t tmax) * |s0.dt| := by ring
      _ = |s0.dt| := by rw [this, one_mul]
  have hs := start_ne s0 tmax (env 0) (henv 0) hst hne
  obtain ⟨s', h1, h2, h3, h4, h5, h6, h7, h8⟩ :=
    loop_nonexact step hfix env henv tmax (dirOf s0.t tmax * |s0.dt|) (dirOf s0.t tmax) hsg
      (by rw [hdsg]; exact hpos) n
      { s0 with dt := dirOf s0.t tmax * |s0.dt|, dtLastDone := 0, status := -1 } 0
      (dirOf s0.t tmax * |s0.dt|) rfl hex rfl hfirst hpast fuel hfuel
  have hex' : ¬ s'.exactFinish = 1 := by rw [h6]; exact hex
  refine ⟨finish s' (dirOf s0.t tmax * |s0.dt|), integrate_of_loop_done step env fuel s0 _ s' tmax _ _ false hs h1,
    ?_, ?_, ?_, ?_, ?_, ?_⟩
  · simp [finish, hex', h2]
  · simp [finish, hex', h4]
  · simp [finish, hex', h5]
  · simp [finish, hex', h3]
  · simp only [finish, hex', if_false]
    exact h6
  · simp only [finish, hex', if_false, stepSeq] at h8 ⊢
    exact h8

theorem dirOf_of_pos {t a sg : K} (hsg : sg = 1 ∨ sg = -1) (h : 0 < (a - t) * sg) : dirOf t a = sg := by
  unfold dirOf
  rcases hsg with rfl | rfl
  · have : t < a := by linarith
    simp [this]
  · have : ¬ t < a := by push Not; linarith
    simp [this]

/-- `tmax = t`: nothing happens (any exact_finish_time) -/
theorem integrate_noop (step : StepFn K) (env : Nat → Flags) (h0 : (env 0).Clear)
    (s0 : Sim K) (hst : s0.status ≠ -3 ∧ s0.status ≠ -4) :
    ∀ fuel, 1 ≤ fuel → integrate step env fuel s0 s0.t false =
      .done { s0 with status := 0, dtLastDone := 0, syncs := s0.syncs + 1 } := by
  intro fuel hfuel
  obtain ⟨f, rfl⟩ : ∃ f, fuel = f + 1 := ⟨fuel - 1, by omega⟩
  have hs := start_eq s0 s0.t (env 0) h0 hst rfl
  have hc : ∀ x : K, 0 ≤ x * copysign 1 x := by
    intro x
    rw [copysign_def]
    have h1 : ¬ ((1 : K) < 0) := by norm_num
    by_cases hx : x < 0
    · simp [h1, hx]; linarith
    · simp [h1, hx]; exact not_lt.mp hx
  have hce : checkExit { s0 with dtLastDone := 0, status := -1 } s0.t false s0.dt (env 0) =
      .ret { s0 with dtLastDone := 0, status := 0 } s0.dt := by
    rw [checkExit_run _ s0.t s0.dt (env 0) (Or.inl rfl) h0.1.2.2.2.2.2.1 h0.1.2.2.2.2.2.2]
    have h1 : s0.t * copysign 1 s0.dt ≤ (s0.t + s0.dt) * copysign 1 s0.dt := by
      have := hc s0.dt; nlinarith
    by_cases hex : s0.exactFinish = 1
    · simp [hex, h1]
    · simp [hex]
  have hl := loop_of_ret_done step env s0.t false f 0 _ _ s0.dt s0.dt hce (by norm_num)
  rw [integrate_of_loop_done step env (f + 1) s0 _ _ s0.t _ _ false hs hl]
  by_cases hex : s0.exactFinish = 1
  · simp [finish, hex]
  · simp [finish, hex]

/-- the split clause (see `c08_split_same_steps_partial`) -/
theorem split_same_steps (step : StepFn K) (hfix : IsFixed step) (env : Nat → Flags)
    (henv : ∀ k, (env k).Clear) (s0 : Sim K) (t1 t2 sg d : K) (n1 n2 : Nat)
    (hst : s0.status ≠ -3 ∧ s0.status ≠ -4) (hex : s0.exactFinish ≠ 1) (hdt : s0.dt ≠ 0)
    (hsg : sg = dirOf s0.t t2) (hd : d = sg * |s0.dt|)
    (h01 : 0 < (t1 - s0.t) * sg) (h12 : t1 * sg ≤ t2 * sg)
    (hfirst1 : ∀ j : Nat, j < n1 → (s0.t + j * d) * sg < t1 * sg)
    (hpast1 : t1 * sg ≤ (s0.t + n1 * d) * sg)
    (hfirst2 : ∀ j : Nat, j < n2 → (s0.t + j * d) * sg < t2 * sg)
    (hpast2 : t2 * sg ≤ (s0.t + n2 * d) * sg)
    (hno : (s0.t + n1 * d) * sg ≤ t2 * sg) :
    ∀ fuel, n2 + 1 ≤ fuel → ∃ sA sB sC,
      integrate step env fuel s0 t1 false = .done sA ∧
      integrate step env fuel sA t2 false = .done sB ∧
      integrate step env fuel s0 t2 false = .done sC ∧
      sB.t = sC.t ∧ sB.dt = sC.dt ∧ sB.status = sC.status ∧ sB.stepsDone = sC.stepsDone ∧
      stepSeq sB = stepSeq sC := by
  intro fuel hfuel
  have hsgc : sg = 1 ∨ sg = -1 := by rw [hsg]; exact dirOf_cases _ _
  have hss : sg * sg = 1 := by rcases hsgc with h | h <;> rw [h] <;> norm_num
  have h02 : 0 < (t2 - s0.t) * sg := by nlinarith
  have hne1 : t1 ≠ s0.t := by intro h; rw [h] at h01; simp at h01
  have hne2 : t2 ≠ s0.t := by intro h; rw [h] at h02; simp at h02
  have hd1 : dirOf s0.t t1 = sg := dirOf_of_pos hsgc h01
  have hpos : 0 < |s0.dt| := abs_pos.mpr hdt
  have hdsg : d * sg = |s0.dt| := by rw [hd]; calc sg * |s0.dt| * sg = (sg * sg) * |s0.dt| := by ring
    _ = |s0.dt| := by rw [hss, one_mul]
  -- n1 ≤ n2
  have hn12 : n1 ≤ n2 := by
    by_contra hlt
    have := hfirst1 n2 (by omega)
    linarith
  -- call A
  obtain ⟨sA, hA, a1, a2, a3, a4, a5, a6⟩ :=
    integrate_nonexact step hfix env henv s0 t1 sg d n1 hst hex hdt hne1 hd1.symm hd hfirst1 hpast1 fuel
      (by omega)
  -- call C
  obtain ⟨sC, hC, c1, c2, c3, c4, c5, c6⟩ :=
    integrate_nonexact step hfix env henv s0 t2 sg d n2 hst hex hdt hne2 hsg hd hfirst2 hpast2 fuel
      (by omega)
  have hstA : sA.status ≠ -3 ∧ sA.status ≠ -4 := by rw [a2]; constructor <;> norm_num
  have hexA : sA.exactFinish ≠ 1 := by rw [a5]; exact hex
  by_cases heq : t2 = sA.t
  · -- the first call ended exactly on t2: the second call is a no-op
    have hB := integrate_noop step env (henv 0) sA hstA fuel (by omega)
    rw [← heq] at hB
    have hn : n2 = n1 := by
      by_contra hne
      have hlt : n1 < n2 := by omega
      have := hfirst2 n1 hlt
      rw [heq, a1] at this
      exact lt_irrefl _ this
    refine ⟨sA, _, sC, hA, hB, hC, ?_, ?_, ?_, ?_, ?_⟩
    · show t2 = sC.t
      rw [heq, a1, c1, hn]
    · show sA.dt = sC.dt
      rw [a4, c4]
    · show (0 : Int) = sC.status
      rw [c2]
    · show sA.stepsDone = sC.stepsDone
      rw [a3, c3, hn]
    · show stepSeq sA = stepSeq sC
      rw [a6, c6, hn]
  · -- the second call continues in the same direction
    have hlt : (sA.t) * sg < t2 * sg := by
      rw [a1]
      rcases lt_or_eq_of_le hno with h | h
      · exact h
      · exfalso; apply heq; rw [a1]
        have : (s0.t + n1 * d) * sg * sg = t2 * sg * sg := by rw [h]
        calc t2 = t2 * (sg * sg) := by rw [hss, mul_one]
          _ = t2 * sg * sg := by ring
          _ = (s0.t + n1 * d) * sg * sg := this.symm
          _ = (s0.t + n1 * d) * (sg * sg) := by ring
          _ = s0.t + n1 * d := by rw [hss, mul_one]
    have hdB : dirOf sA.t t2 = sg := dirOf_of_pos hsgc (by nlinarith)
    have hdtA : sA.dt ≠ 0 := by
      rw [a4]; intro h; rw [h] at hdsg; simp at hdsg; linarith
    have habs : sg * |sA.dt| = d := by
      rw [a4]
      rcases hsgc with h | h
      · rw [h] at hdsg ⊢; simp at hdsg; rw [abs_of_pos (by linarith)]; ring
      · rw [h] at hdsg ⊢
        have : d < 0 := by linarith
        rw [abs_of_neg this]; ring
    obtain ⟨sB, hB, b1, b2, b3, b4, b5, b6⟩ :=
      integrate_nonexact step hfix env henv sA t2 sg d (n2 - n1) hstA hexA hdtA heq hdB.symm habs.symm
        (by
          intro j hj
          have := hfirst2 (n1 + j) (by omega)
          rw [a1]; push_cast at this
          have e : s0.t + (n1 : K) * d + (j : K) * d = s0.t + ((n1 : K) + j) * d := by ring
          rw [e]; exact this)
        (by
          rw [a1]
          have e : s0.t + (n1 : K) * d + ((n2 - n1 : ℕ) : K) * d = s0.t + (n2 : K) * d := by
            rw [Nat.cast_sub hn12]; ring
          rw [e]; exact hpast2)
        fuel (by omega)
    refine ⟨sA, sB, sC, hA, hB, hC, ?_, ?_, ?_, ?_, ?_⟩
    · rw [b1, a1, c1, Nat.cast_sub hn12]; ring
    · rw [b4, c4]
    · rw [b2, c2]
    · rw [b3, a3, c3]; omega
    · rw [b6, a6, c6, a1, ← List.append_assoc, ← seqOf_add]
      congr 2
      omega

/-- in exact arithmetic there is no NaN: the argument check never fires -/
theorem integrateN_eq (guard : Bool) (step : StepFn K) (env : Nat → Flags) (fuel : Nat) (s : Sim K) (tmax : K)
    (inf : Bool) : integrateN guard step env fuel s tmax inf = integrate step env fuel s tmax inf := by
  unfold integrateN; simp

/-- a concrete simulation on ℚ used by the kernel-evaluated instances in RV/Props/C08.lean:
    `t = 0`, `dt = 10`, RUNNING, exact_finish_time = 0, empty history -/
def demoSim : Sim ℚ :=
  { t := 0, dt := 10, dtLastDone := 0, status := stRUNNING, exactFinish := 0, stepsDone := 0,
    nOdes := 0, isBS := false, syncs := 0, hist := [] }

end RV.Integrate
