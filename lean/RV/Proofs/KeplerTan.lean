import RV.Proofs.Kepler
import RV.Model.Dual
/- the tangent map of reb_whfast_kepler_solver is the derivative of the model's Kepler step:
   derivative rules of the Stumpff / Stiefel functions as carried by the code (helper lemmas for
   RV/Props/C03.lean).  Dual numbers `a + ε b` from RV/Model/Dual.lean: running the model's own
   functions on duals gives, in the ε-part, the derivative. -/
set_option linter.unusedTactic false
set_option linter.unreachableTactic false
set_option linter.unnecessarySeqFocus false
set_option linter.unusedVariables false
set_option linter.unusedSimpArgs false
set_option linter.unusedSectionVars false
namespace RV.Kepler
open RV
variable {K : Type} [Field K] [CharZero K]

/-! ### a stronger relation set for the six functions -/

/-- the three linear relations of `Stumpff6Rel` plus `c2² + z c3² = 2(c3 − c4)`
    (for the true functions: (1−cos)²/z² + (√z−sin)²/z² = …; it implies the quadratic relation
    of `Stumpff6Rel`, is implied by it when `z ≠ 0`, and — unlike it — makes the derivative
    rules below close under duplication). -/
structure Stumpff6S (s : Cs5 K) : Prop where
  h1 : s.c1 = 1 - s.z * s.c3
  h2 : s.c2 = 1 / 2 - s.z * s.c4
  h3 : s.c3 = 1 / 6 - s.z * s.c5
  q2 : s.c2 ^ 2 + s.z * s.c3 ^ 2 = 2 * (s.c3 - s.c4)

theorem Stumpff6S.toRel {s : Cs5 K} (h : Stumpff6S s) : Stumpff6Rel s := by
  obtain ⟨z, c1, c2, c3, c4, c5⟩ := s
  obtain ⟨h1, h2, h3, q2⟩ := h
  simp only at h1 h2 h3 q2
  refine ⟨h1, h2, h3, ?_⟩
  simp only
  subst h1 h2 h3
  linear_combination z * q2

theorem cs6DupStep_relS {s : Cs5 K} (h : Stumpff6S s) : Stumpff6S (cs6DupStep s) := by
  obtain ⟨z, c1, c2, c3, c4, c5⟩ := s
  obtain ⟨h1, h2, h3, q2⟩ := h
  simp only at h1 h2 h3 q2
  refine ⟨?_, ?_, ?_, ?_⟩
  · simp only [cs6DupStep, sc_hadd, sc_hsub, sc_hmul, sc_one]
  · simp only [cs6DupStep, sc_hadd, sc_hsub, sc_hmul, sc_one, half_eq]
  · simp only [cs6DupStep, sc_hadd, sc_hsub, sc_hmul, sc_one, lit_eq]; norm_num
  · simp only [cs6DupStep, sc_hadd, sc_hsub, sc_hmul, sc_one, half_eq, lit_eq, n4_eq, eighth_eq, sixteenth_eq]
    subst h1 h2 h3
    linear_combination (z * (6 * c5 * z ^ 2 - z + 6) ^ 2 / 144) * q2


/-! ### derivative rules, carried on dual numbers -/

def re5 (s : Cs5 (Dual K)) : Cs5 K := ⟨s.z.re, s.c1.re, s.c2.re, s.c3.re, s.c4.re, s.c5.re⟩

/-- `s` = values of the Stumpff functions c1..c5 at `z + ε dz` to first order: the real parts satisfy
    the relations, the linear relations also hold in the ε-parts, and
      c2' = (2 c4 − c3)/2,   c3' = (3 c5 − c4)/2      (c_k' = (k c_{k+2} − c_{k+1})/2)
    — the rules the tangent map of the C code hard-wires as `G1beta, G2beta, G3beta`. -/
structure StumpffD (s : Cs5 (Dual K)) : Prop where
  rel : Stumpff6S (re5 s)
  l1 : s.c1.eps = -(s.z.eps * s.c3.re + s.z.re * s.c3.eps)
  l2 : s.c2.eps = -(s.z.eps * s.c4.re + s.z.re * s.c4.eps)
  l3 : s.c3.eps = -(s.z.eps * s.c5.re + s.z.re * s.c5.eps)
  d2 : s.c2.eps = (2 * s.c4.re - s.c3.re) / 2 * s.z.eps
  d3 : s.c3.eps = (3 * s.c5.re - s.c4.re) / 2 * s.z.eps

theorem StumpffD.d1 {s : Cs5 (Dual K)} (h : StumpffD s) :
    s.c1.eps = (s.c3.re - s.c2.re) / 2 * s.z.eps := by
  obtain ⟨⟨h1, h2, h3, q2⟩, l1, l2, l3, d2, d3⟩ := h
  simp only [re5] at h1 h2 h3 q2
  rw [l1, d3]
  linear_combination (s.z.eps / 2) * h2 + (-3 * s.z.eps / 2) * h3

/-- ε-part of `c0 = 1 − z c2`: `c0' = −c1/2` -/
theorem StumpffD.d0 {s : Cs5 (Dual K)} (h : StumpffD s) :
    -(s.z.eps * s.c2.re + s.z.re * s.c2.eps) = -s.c1.re / 2 * s.z.eps := by
  obtain ⟨⟨h1, h2, h3, q2⟩, l1, l2, l3, d2, d3⟩ := h
  simp only [re5] at h1 h2 h3 q2
  rw [d2]
  linear_combination (s.z.eps / 2) * h1 + (-s.z.eps) * h2

theorem re5_cs6DupStep (s : Cs5 (Dual K)) : re5 (cs6DupStep s) = cs6DupStep (re5 s) := by
  simp only [re5, cs6DupStep, n4, sixteenth, eighth, half, lit, Dual.add_re, Dual.sub_re, Dual.mul_re,
    Dual.div_re, Dual.one_re, Dual.ofNat_re]

/-- **the duplication step of stumpff_cs maps first-order data at z to first-order data at 4z**:
    the derivative rules are preserved exactly. -/
theorem cs6DupStep_D {s : Cs5 (Dual K)} (h : StumpffD s) : StumpffD (cs6DupStep s) := by
  have hr := cs6DupStep_relS h.rel
  rw [← re5_cs6DupStep] at hr
  obtain ⟨⟨h1, h2, h3, q2⟩, l1, l2, l3, d2, d3⟩ := h
  obtain ⟨⟨z, dz⟩, ⟨c1, e1⟩, ⟨c2, e2⟩, ⟨c3, e3⟩, ⟨c4, e4⟩, ⟨c5, e5⟩⟩ := s
  simp only [re5] at h1 h2 h3 q2 l1 l2 l3 d2 d3
  refine ⟨hr, ?_, ?_, ?_, ?_, ?_⟩ <;>
    simp only [cs6DupStep, n4, sixteenth, eighth, half, lit, Dual.add_re, Dual.add_eps, Dual.sub_re, Dual.sub_eps,
      Dual.mul_re, Dual.mul_eps, Dual.div_re, Dual.div_eps, Dual.one_re, Dual.one_eps, Dual.ofNat_re, Dual.ofNat_eps,
      sc_zero, sc_one, sc_hadd, sc_hsub, sc_hmul, sc_hdiv, sc_ofNat]
  · push_cast; ring
  · push_cast; ring
  · push_cast; ring
  · subst h1 l1 d2 d3 h2 h3
    push_cast
    ring
  · subst h1 l1 d2 d3 h2 h3
    push_cast
    linear_combination (-1/4 : K) * l2 + (-1/4 : K) * l3 + (-dz / 8) * q2


theorem cs6Dup_D (n : Nat) {s : Cs5 (Dual K)} (h : StumpffD s) : StumpffD (cs6Dup n s) := by
  induction n generalizing s with
  | zero => exact h
  | succ n ih => exact ih (cs6DupStep_D h)

theorem cs6Dup_relS (n : Nat) {s : Cs5 K} (h : Stumpff6S s) : Stumpff6S (cs6Dup n s) := by
  induction n generalizing s with
  | zero => exact h
  | succ n ih => exact ih (cs6DupStep_relS h)

/-! ### the series part on duals -/

theorem invfact_dual (i : Fin 35) : (invfact i : Dual K).re = (invfact i : K) ∧ (invfact i : Dual K).eps = 0 := by
  constructor
  · rfl
  · simp only [invfact, Dual.div_eps, Dual.ofNat_re, Dual.ofNat_eps, sc_zero, sc_hmul, sc_hsub, sc_hdiv, sc_ofNat]
    ring

/-- the Horner series of stumpff_cs evaluated at `z + ε dz`: all relations and the rule for c3'
    hold exactly, the rule for c2' up to `z⁶/(2·15!)`, the quadratic relation up to an explicit
    `z⁶` remainder (truncation after z⁵/15!, z⁵/14!). -/
theorem cs6Series_D (z dz : K) :
    let s := cs6Series (⟨z, dz⟩ : Dual K)
    re5 s = cs6Series z ∧
    s.c1.eps = -(s.z.eps * s.c3.re + s.z.re * s.c3.eps) ∧
    s.c2.eps = -(s.z.eps * s.c4.re + s.z.re * s.c4.eps) ∧
    s.c3.eps = -(s.z.eps * s.c5.re + s.z.re * s.c5.eps) ∧
    s.c3.eps = (3 * s.c5.re - s.c4.re) / 2 * s.z.eps ∧
    s.c2.eps = (2 * s.c4.re - s.c3.re) / 2 * s.z.eps + z ^ 6 / 2615348736000 * dz ∧
    (cs6Series z).c2 ^ 2 + z * (cs6Series z).c3 ^ 2 - 2 * ((cs6Series z).c3 - (cs6Series z).c4) =
      z ^ 6 * (z ^ 7 - 195 * z ^ 6 + 27720 * z ^ 5 - 2702700 * z ^ 4 + 165110400 * z ^ 3 - 5448643200 * z ^ 2
        + 72648576000 * z - 163459296000) / 1710012252724199424000000 := by
  obtain ⟨f0, f1, f2, f3, f4, f5, f6, f7, f8, f9, f10, f11, f12, f13, f14, f15⟩ := fact_vals
  have hi : ∀ i : Fin 35, (invfact i : Dual K).re = 1 / (Nat.factorial i : K) ∧ (invfact i : Dual K).eps = 0 :=
    fun i => ⟨by rw [(invfact_dual i).1, invfact_eq], (invfact_dual i).2⟩
  refine ⟨?_, ?_, ?_, ?_, ?_, ?_, ?_⟩
  · simp only [re5, cs6Series, Dual.sub_re, Dual.mul_re, (invfact_dual _).1]
  · simp only [cs6Series, Dual.sub_re, Dual.sub_eps, Dual.mul_re, Dual.mul_eps, hi, sc_hadd, sc_hsub, sc_hmul]; ring
  · simp only [cs6Series, Dual.sub_re, Dual.sub_eps, Dual.mul_re, Dual.mul_eps, hi, sc_hadd, sc_hsub, sc_hmul]; ring
  · simp only [cs6Series, Dual.sub_re, Dual.sub_eps, Dual.mul_re, Dual.mul_eps, hi, sc_hadd, sc_hsub, sc_hmul]; ring
  · simp only [cs6Series, Dual.sub_re, Dual.sub_eps, Dual.mul_re, Dual.mul_eps, hi, sc_hadd, sc_hsub, sc_hmul, Fin.isValue]
    norm_num [Nat.factorial]
    ring
  · simp only [cs6Series, Dual.sub_re, Dual.sub_eps, Dual.mul_re, Dual.mul_eps, hi, sc_hadd, sc_hsub, sc_hmul, Fin.isValue]
    norm_num [Nat.factorial]
    ring
  · simp only [cs6Series, invfact_eq, sc_hsub, sc_hmul, Fin.isValue]
    norm_num [Nat.factorial]
    ring

/-! ### Stiefel functions: from the rules in z to the rules in (β, X) -/

/-- scaling by powers of `X` (stiefel_Gs) turns first-order Stumpff data at `β X²` into the
    derivative rules of the G functions,
       dG_k = G_{k-1} dX + ½ (k G_{k+2} − X G_{k+1}) dβ ,     k = 1, 2, 3
    which are literally the lines `dG1, dG2, dG3` (with `G1beta, G2beta, G3beta`) of the C code. -/
theorem scaleGs6_D {s : Cs5 (Dual K)} (h : StumpffD s) (β X : Dual K) (hz : s.z = β * (X * X)) :
    let g := scaleGs6 X (cs6Finish s)
    g.c1.eps = g.c0.re * X.eps + 1 / 2 * (g.c3.re - X.re * g.c2.re) * β.eps ∧
    g.c2.eps = g.c1.re * X.eps + 1 / 2 * (2 * g.c4.re - X.re * g.c3.re) * β.eps ∧
    g.c3.eps = g.c2.re * X.eps + 1 / 2 * (3 * g.c5.re - X.re * g.c4.re) * β.eps ∧
    g.c0.re = 1 - β.re * g.c2.re ∧ g.c1.re = X.re - β.re * g.c3.re := by
  have hd1 := h.d1
  obtain ⟨⟨h1, h2, h3, q2⟩, l1, l2, l3, d2, d3⟩ := h
  obtain ⟨⟨z, dz⟩, ⟨c1, e1⟩, ⟨c2, e2⟩, ⟨c3, e3⟩, ⟨c4, e4⟩, ⟨c5, e5⟩⟩ := s
  obtain ⟨b, db⟩ := β
  obtain ⟨x, dx⟩ := X
  simp only [re5] at h1 h2 h3 q2 l1 l2 l3 d2 d3 hd1
  have hz1 : z = b * (x * x) := by
    have := congrArg Dual.re hz; simpa only [Dual.mul_re, sc_hmul] using this
  have hz2 : dz = b * (x * dx + dx * x) + db * (x * x) := by
    have := congrArg Dual.eps hz; simpa only [Dual.mul_re, Dual.mul_eps, sc_hmul, sc_hadd] using this
  simp only [scaleGs6, cs6Finish, Dual.sub_re, Dual.sub_eps, Dual.mul_re, Dual.mul_eps, (invfact_dual _).1, (invfact_dual _).2,
    invfact_eq, sc_hadd, sc_hsub, sc_hmul]
  subst hz1 hz2
  refine ⟨?_, ?_, ?_, ?_, ?_⟩
  · rw [hd1]; norm_num [Nat.factorial]; linear_combination dx * h1
  · rw [d2]; norm_num [Nat.factorial]; linear_combination (-(x * dx)) * h1 + (2 * x * dx) * h2
  · rw [d3]; norm_num [Nat.factorial]; linear_combination (-(x * x * dx)) * h2 + (3 * x * x * dx) * h3
  · norm_num [Nat.factorial]; ring
  · norm_num [Nat.factorial]; linear_combination x * h1

end RV.Kepler
