import RV.Proofs.Compare
/-
  Whole-stream statements about `compare`.
-/
set_option linter.unusedVariables false
set_option linter.unusedSimpArgs false
namespace RV.Persist

def wallOf (tbl : List Desc) (id : Nat) : Bool :=
  match descForType tbl id with
  | some d => d.wall
  | none => false

/-- exact characterisation of the return value of reb_binary_diff at field level -/
theorem compare_false_iff (sp : Special) (specs : List CmpSpec) (tbl : List Desc) (fs1 fs2 : List Field) :
    compare sp specs tbl fs1 fs2 = false ↔
      (∀ f ∈ body sp fs1, ∃ p, findField (body sp fs2) f.1 = some p ∧
          (payloadDiffer specs (descForType tbl f.1) f.2 p = false ∨ wallOf tbl f.1 = true)) ∧
      (∀ f ∈ body sp fs2, (findField (body sp fs1) f.1).isSome = true) := by
  unfold compare
  simp only [Bool.or_eq_false_iff, List.any_eq_false]
  constructor
  · intro ⟨h1, h2⟩
    refine ⟨?_, ?_⟩
    · intro f hf
      have := h1 f hf
      unfold fieldDiffers at this
      cases hfind : findField (body sp fs2) f.1 with
      | none => simp [hfind] at this
      | some p =>
        refine ⟨p, rfl, ?_⟩
        simp only [hfind] at this
        unfold wallOf
        cases hd : descForType tbl f.1 with
        | none => simp [hd] at this ⊢; exact this
        | some d =>
          simp only [hd] at this ⊢
          cases hp : payloadDiffer specs (some d) f.2 p
          · left; rfl
          · right; simpa [hp] using this
    · intro f hf
      have := h2 f hf
      cases h : findField (body sp fs1) f.1 <;> simp [h] at this ⊢
  · intro ⟨h1, h2⟩
    refine ⟨?_, ?_⟩
    · intro f hf
      obtain ⟨p, hp, hor⟩ := h1 f hf
      unfold fieldDiffers
      simp only [hp]
      unfold wallOf at hor
      cases hd : descForType tbl f.1 with
      | none =>
        simp only [hd] at hor ⊢
        rcases hor with h | h
        · simp [h]
        · cases h
      | some d =>
        simp only [hd] at hor ⊢
        rcases hor with h | h
        · simp [h]
        · simp [h]
    · intro f hf
      have := h2 f hf
      cases h : findField (body sp fs1) f.1 <;> simp [h] at this ⊢

/-- a stream compares equal to itself provided its ids are unique and no member-wise compared double is NaN -/
theorem compare_self (sp : Special) (specs : List CmpSpec) (tbl : List Desc) (fs : List Field)
    (hn : ((body sp fs).map (·.1)).Nodup)
    (hclean : ∀ f ∈ body sp fs, ∀ dd k c, descForType tbl f.1 = some dd → dd.cmp = k + 1 →
      specs[k]? = some c → FpClean c f.2) :
    compare sp specs tbl fs fs = false := by
  rw [compare_false_iff]
  refine ⟨?_, ?_⟩
  · intro f hf
    refine ⟨f.2, findField_self _ hn f hf, Or.inl ?_⟩
    exact payloadDiffer_self specs _ f.2 (fun dd k c h1 h2 h3 => hclean f hf dd k c h1 h2 h3)
  · intro f hf
    rw [findField_self _ hn f hf]; rfl

end RV.Persist
