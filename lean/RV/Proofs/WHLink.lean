import RV.Proofs.WHJacobi
import RV.Proofs.Transform
/-
  Link between the declarative Jacobi coordinates of RV/Proofs/WHJacobi.lean (`eta`, `wsum`,
  `jrel`) and the loop model of `reb_particles_transform_inertial_to_jacobi_*` in
  RV/Model/Transform.lean (C12, tied bitwise to transformations.c): per Cartesian component and
  for every number of bodies, `jacFwd` outputs exactly `wsum/eta` in slot 0 and `jrel` in slot i.
-/
set_option linter.unusedTactic false
set_option linter.unusedVariables false
set_option linter.unusedSimpArgs false
set_option linter.unusedSectionVars false
namespace RV.WH
open RV RV.Transform
variable {K : Type} [Field K]

/-- masses / component values of the body list as total functions -/
def mF (l : List (K × K)) (i : Nat) : K := (l.map Prod.fst).getD i 0
def fF (l : List (K × K)) (i : Nat) : K := (l.map Prod.snd).getD i 0

theorem eta_prefix (pre suf : List (K × K)) (hp : 1 ≤ pre.length) :
    eta (mF (pre ++ suf)) (pre.length - 1) = msum pre := by
  unfold eta msum
  rw [Nat.sub_add_cancel hp]
  induction pre using List.reverseRecOn generalizing suf with
  | nil => simp at hp
  | append_singleton l a ih =>
    by_cases hl : l = []
    · subst hl; simp [mF]
    · have h1 : 1 ≤ l.length := by
        cases l with
        | nil => exact absurd rfl hl
        | cons => simp
      simp only [List.length_append, List.length_singleton, Finset.sum_range_succ, List.map_append, List.sum_append]
      rw [List.append_assoc]
      rw [ih ([a] ++ suf) h1]
      simp [mF]

theorem wsum_prefix (pre suf : List (K × K)) (hp : 1 ≤ pre.length) :
    wsum (mF (pre ++ suf)) (fF (pre ++ suf)) (pre.length - 1) = mxsum pre := by
  unfold wsum mxsum
  rw [Nat.sub_add_cancel hp]
  induction pre using List.reverseRecOn generalizing suf with
  | nil => simp at hp
  | append_singleton l a ih =>
    by_cases hl : l = []
    · subst hl; simp [mF, fF]
    · have h1 : 1 ≤ l.length := by
        cases l with
        | nil => exact absurd rfl hl
        | cons => simp
      simp only [List.length_append, List.length_singleton, Finset.sum_range_succ, List.map_append, List.sum_append]
      rw [List.append_assoc]
      rw [ih ([a] ++ suf) h1]
      simp [mF, fF]

/-- the `for (i=1;i<N_active;i++)` loop of `inertial_to_jacobi_*`, started after the bodies `pre`:
    outputs are the declarative Jacobi coordinates of the whole list -/
theorem jacFwdAct_decl (pre suf : List (K × K)) (hp : 1 ≤ pre.length) (h : SumsNZ (msum pre) suf) :
    (jacFwdAct (msum pre) (mxsum pre) suf).1
      = (List.range suf.length).map (fun k => jrel (mF (pre ++ suf)) (fF (pre ++ suf)) (pre.length + k)) ∧
    (jacFwdAct (msum pre) (mxsum pre) suf).2.1 = msum (pre ++ suf) ∧
    (jacFwdAct (msum pre) (mxsum pre) suf).2.2 = mxsum (pre ++ suf) := by
  induction suf generalizing pre with
  | nil => simp [jacFwdAct]
  | cons a r ih =>
    obtain ⟨m, x⟩ := a
    obtain ⟨h0, hr⟩ := h
    have e1 : msum pre + m = msum (pre ++ [(m, x)]) := by simp [msum]
    have e2 : mxsum pre * ((msum pre + m) * (1 / msum pre)) + m * (x - mxsum pre * (1 / msum pre))
        = mxsum (pre ++ [(m, x)]) := by
      simp [mxsum]; field_simp; ring
    have ih' := ih (pre ++ [(m, x)]) (by simp) (by rw [← e1]; exact hr)
    simp only [jacFwdAct, sc_one, sc_hadd, sc_hsub, sc_hmul, sc_hdiv]
    rw [e2, e1]
    obtain ⟨i1, i2, i3⟩ := ih'
    simp only [List.append_assoc, List.singleton_append] at i1 i2 i3
    refine ⟨?_, i2, i3⟩
    rw [i1, List.length_cons, List.range_succ_eq_map, List.map_cons, List.map_map]
    congr 1
    · simp only [jrel, Nat.add_zero]
      rw [eta_prefix pre _ hp, wsum_prefix pre _ hp]
      simp [fF]
      ring
    · apply List.map_congr_left
      intro k _
      simp only [Function.comp, List.length_append, List.length_singleton]
      congr 1
      omega

/-- **`inertial_to_jacobi` computes the declarative Jacobi coordinates** (all particles active):
    slot 0 = (total mass, mass-weighted mean), slot `i ≥ 1` = `jrel`. -/
theorem jacFwd_decl (m0 x0 : K) (act : List (K × K)) (h : SumsNZ m0 act) :
    let l := (m0, x0) :: act
    (jacFwd m0 x0 act []).m0 = eta (mF l) act.length ∧
    (jacFwd m0 x0 act []).x0 = wsum (mF l) (fF l) act.length / eta (mF l) act.length ∧
    (jacFwd m0 x0 act []).act = (List.range act.length).map (fun k => jrel (mF l) (fF l) (k + 1)) := by
  intro l
  have hm : msum [(m0, x0)] = m0 := by simp [msum]
  have hx : mxsum [(m0, x0)] = m0 * x0 := by simp [mxsum]
  have key := jacFwdAct_decl [(m0, x0)] act (by simp) (by rw [hm]; exact h)
  rw [hm, hx] at key
  obtain ⟨k1, k2, k3⟩ := key
  have hl : ((m0, x0) :: act).length - 1 = act.length := by simp
  have e1 := eta_prefix ((m0, x0) :: act) [] (by simp)
  have e2 := wsum_prefix ((m0, x0) :: act) [] (by simp)
  simp only [List.append_nil, hl] at e1 e2
  simp only [jacFwd, sc_hmul, sc_hdiv, sc_one, sc_hsub]
  refine ⟨?_, ?_, ?_⟩
  · rw [k2, e1]; rfl
  · rw [k2, k3, e1, e2]; simp [l]; ring
  · rw [k1]
    apply List.map_congr_left
    intro k _
    simp only [List.singleton_append, List.length_singleton]
    congr 1
    omega

end RV.WH
