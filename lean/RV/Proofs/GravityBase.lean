import RV.Proofs.Field
import RV.Model.Gravity
import Mathlib.Algebra.BigOperators.Group.Finset.Basic
import Mathlib.Algebra.BigOperators.Intervals
import Mathlib.Algebra.BigOperators.Ring.Finset
import Mathlib.Algebra.Module.Defs
import Mathlib.Tactic.Abel
/-
  Vector algebra on `V3 K` over a field and the "additive step" framework: a loop nest of
  gravity.c is a composition of updates `a[i] += u`; such a composition adds to slot `k`
  the sum of the contributions of all executed updates, in whatever order they ran.
-/
set_option linter.unusedTactic false
set_option linter.unreachableTactic false
set_option linter.unnecessarySeqFocus false
set_option linter.unusedVariables false
set_option linter.unusedSimpArgs false
set_option linter.unusedSectionVars false
namespace RV
variable {K : Type} [Field K]

@[ext] theorem V3.ext' {a b : V3 K} (hx : a.x = b.x) (hy : a.y = b.y) (hz : a.z = b.z) : a = b := by
  cases a; cases b; simp_all

instance : Zero (V3 K) := ⟨⟨0, 0, 0⟩⟩
instance : Add (V3 K) := ⟨fun a b => ⟨a.x + b.x, a.y + b.y, a.z + b.z⟩⟩
instance : Neg (V3 K) := ⟨fun a => ⟨-a.x, -a.y, -a.z⟩⟩
instance : Sub (V3 K) := ⟨fun a b => ⟨a.x - b.x, a.y - b.y, a.z - b.z⟩⟩
instance : SMul K (V3 K) := ⟨fun s a => ⟨s * a.x, s * a.y, s * a.z⟩⟩

@[simp] theorem V3.zero_x : (0 : V3 K).x = 0 := rfl
@[simp] theorem V3.zero_y : (0 : V3 K).y = 0 := rfl
@[simp] theorem V3.zero_z : (0 : V3 K).z = 0 := rfl
@[simp] theorem V3.add_x (a b : V3 K) : (a + b).x = a.x + b.x := rfl
@[simp] theorem V3.add_y (a b : V3 K) : (a + b).y = a.y + b.y := rfl
@[simp] theorem V3.add_z (a b : V3 K) : (a + b).z = a.z + b.z := rfl
@[simp] theorem V3.neg_x (a : V3 K) : (-a).x = -a.x := rfl
@[simp] theorem V3.neg_y (a : V3 K) : (-a).y = -a.y := rfl
@[simp] theorem V3.neg_z (a : V3 K) : (-a).z = -a.z := rfl
@[simp] theorem V3.sub_x (a b : V3 K) : (a - b).x = a.x - b.x := rfl
@[simp] theorem V3.sub_y (a b : V3 K) : (a - b).y = a.y - b.y := rfl
@[simp] theorem V3.sub_z (a b : V3 K) : (a - b).z = a.z - b.z := rfl
@[simp] theorem V3.smul_x (s : K) (a : V3 K) : (s • a).x = s * a.x := rfl
@[simp] theorem V3.smul_y (s : K) (a : V3 K) : (s • a).y = s * a.y := rfl
@[simp] theorem V3.smul_z (s : K) (a : V3 K) : (s • a).z = s * a.z := rfl
@[simp] theorem V3.model_zero : (V3.zero : V3 K) = 0 := rfl

instance : AddCommGroup (V3 K) where
  add_assoc a b c := by ext <;> simp [add_assoc]
  zero_add a := by ext <;> simp
  add_zero a := by ext <;> simp
  add_comm a b := by ext <;> simp [add_comm]
  neg_add_cancel a := by ext <;> simp
  sub_eq_add_neg a b := by ext <;> simp [sub_eq_add_neg]
  nsmul := nsmulRec
  zsmul := zsmulRec

instance : Module K (V3 K) where
  one_smul a := by ext <;> simp
  mul_smul s t a := by ext <;> simp [mul_assoc]
  smul_zero s := by ext <;> simp
  smul_add s a b := by ext <;> simp [mul_add]
  add_smul s t a := by ext <;> simp [add_mul]
  zero_smul a := by ext <;> simp

/-- scalar product and cross product -/
def V3.dot (a b : V3 K) : K := a.x * b.x + a.y * b.y + a.z * b.z
def V3.cross (a b : V3 K) : V3 K :=
  ⟨a.y * b.z - a.z * b.y, a.z * b.x - a.x * b.z, a.x * b.y - a.y * b.x⟩

@[simp] theorem V3.cross_x (a b : V3 K) : (V3.cross a b).x = a.y * b.z - a.z * b.y := rfl
@[simp] theorem V3.cross_y (a b : V3 K) : (V3.cross a b).y = a.z * b.x - a.x * b.z := rfl
@[simp] theorem V3.cross_z (a b : V3 K) : (V3.cross a b).z = a.x * b.y - a.y * b.x := rfl

theorem V3.cross_add (a b c : V3 K) : V3.cross a (b + c) = V3.cross a b + V3.cross a c := by
  ext <;> simp <;> ring
theorem V3.cross_zero (a : V3 K) : V3.cross a 0 = 0 := by ext <;> simp
theorem V3.cross_smul (a b : V3 K) (s : K) : V3.cross a (s • b) = s • V3.cross a b := by
  ext <;> simp <;> ring

/-- component projections commute with finite sums -/
theorem V3.sum_x {ι : Type} (s : Finset ι) (f : ι → V3 K) : (∑ i ∈ s, f i).x = ∑ i ∈ s, (f i).x := by
  classical
  induction s using Finset.induction_on with
  | empty => simp
  | insert a s ha ih => simp [Finset.sum_insert ha, ih]
theorem V3.sum_y {ι : Type} (s : Finset ι) (f : ι → V3 K) : (∑ i ∈ s, f i).y = ∑ i ∈ s, (f i).y := by
  classical
  induction s using Finset.induction_on with
  | empty => simp
  | insert a s ha ih => simp [Finset.sum_insert ha, ih]
theorem V3.sum_z {ι : Type} (s : Finset ι) (f : ι → V3 K) : (∑ i ∈ s, f i).z = ∑ i ∈ s, (f i).z := by
  classical
  induction s using Finset.induction_on with
  | empty => simp
  | insert a s ha ih => simp [Finset.sum_insert ha, ih]

theorem V3.cross_sum {ι : Type} (s : Finset ι) (a : V3 K) (f : ι → V3 K) :
    V3.cross a (∑ i ∈ s, f i) = ∑ i ∈ s, V3.cross a (f i) := by
  classical
  induction s using Finset.induction_on with
  | empty => simp [V3.cross_zero]
  | insert b s hb ih => simp [Finset.sum_insert hb, ih, V3.cross_add]

namespace Gravity

/-- a particle set given by total functions: every array is of this form -/
def mkPs (N : Nat) (m : Nat → K) (x : Nat → V3 K) : Array (Body K) :=
  Array.ofFn (n := N) fun i => ⟨m i, x i⟩

@[simp] theorem mkPs_size (N : Nat) (m : Nat → K) (x : Nat → V3 K) : (mkPs N m x).size = N := by
  simp [mkPs]

theorem mkPs_get {N : Nat} (m : Nat → K) (x : Nat → V3 K) {i : Nat} (h : i < N) :
    (mkPs N m x)[i]? = some ⟨m i, x i⟩ := by
  simp [mkPs, Array.getElem?_ofFn, h]

/-- every particle array is `mkPs` of its own size and accessor functions -/
theorem mkPs_surj (ps : Array (Body K)) :
    ps = mkPs ps.size (fun i => (ps[i]?.map (·.m)).getD 0) (fun i => (ps[i]?.map (·.p)).getD 0) := by
  apply Array.ext
  · simp
  · intro i h1 h2
    simp [mkPs, h1]

/-! ### additive steps -/

/-- `step` adds `c k` to slot `k` of the accumulator array, for every `k` -/
def Additive (step : Acc K → Acc K) (c : Nat → V3 K) : Prop :=
  ∀ (acc : Acc K) (k : Nat), (step acc)[k]? = (acc[k]?).map (· + c k)

theorem additive_id : Additive (K := K) (fun acc => acc) (fun _ => 0) := by
  intro acc k; cases h : acc[k]? <;> simp [h]

theorem additive_congr {step : Acc K → Acc K} {c d : Nat → V3 K} (h : Additive step c)
    (hcd : ∀ k, c k = d k) : Additive step d := by
  intro acc k; rw [h acc k, hcd k]

theorem additive_comp {f g : Acc K → Acc K} {c d : Nat → V3 K} (hf : Additive f c)
    (hg : Additive g d) : Additive (fun acc => g (f acc)) (fun k => c k + d k) := by
  intro acc k
  rw [hg (f acc) k, hf acc k]
  cases acc[k]? <;> simp [add_assoc]

theorem additive_ite {f g : Acc K → Acc K} {c d : Nat → V3 K} (b : Bool) (hf : Additive f c)
    (hg : Additive g d) :
    Additive (fun acc => if b then f acc else g acc) (fun k => if b then c k else d k) := by
  cases b <;> simpa

theorem additive_addTo (i : Nat) (f : K) (d : V3 K) :
    Additive (fun acc => addTo acc i f d) (fun k => if i = k then f • d else 0) := by
  intro acc k
  simp only [addTo, Array.getElem?_modify]
  by_cases h : i = k
  · subst h
    cases acc[i]? <;> simp
    ext <;> simp
  · cases hk : acc[k]? <;> simp [h, hk]

theorem additive_foldl {ι : Type} (l : List ι) (step : Acc K → ι → Acc K) (c : ι → Nat → V3 K)
    (h : ∀ e ∈ l, Additive (fun acc => step acc e) (c e)) :
    Additive (fun acc => l.foldl step acc) (fun k => (l.map (fun e => c e k)).sum) := by
  induction l with
  | nil => simpa using additive_id
  | cons e r ih =>
    have h1 := h e (List.mem_cons_self)
    have h2 := ih (fun e' he' => h e' (List.mem_cons_of_mem _ he'))
    have := additive_comp h1 h2
    simpa [List.foldl_cons] using this

/-- a C `for` loop of additive bodies: contributions summed over the iteration range -/
theorem additive_forRange (a b : Nat) (step : Acc K → Nat → Acc K) (c : Nat → Nat → V3 K)
    (h : ∀ i, a ≤ i → i < b → Additive (fun acc => step acc i) (c i)) :
    Additive (fun acc => forRange a b acc step) (fun k => ∑ i ∈ Finset.Ico a b, c i k) := by
  have := additive_foldl (List.range' a (b - a)) step c (by
    intro e he
    have := List.mem_range'_1.mp he
    exact h e this.1 (by omega))
  exact this

/-- starting from the all-zero array of size `N`, an additive step leaves exactly its
    contribution in every slot -/
theorem additive_from_zero {step : Acc K → Acc K} {c : Nat → V3 K} (h : Additive step c)
    (N k : Nat) (hk : k < N) : (step (Array.replicate N V3.zero))[k]? = some (c k) := by
  rw [h]; simp [Array.getElem?_replicate, hk]

/-- sums over a C loop range as indicator sums over `range N` -/
theorem sum_Ico_ind {M : Type} [AddCommMonoid M] (a b N : Nat) (hb : b ≤ N) (f : Nat → M) :
    ∑ i ∈ Finset.Ico a b, f i = ∑ i ∈ Finset.range N, if a ≤ i ∧ i < b then f i else 0 := by
  rw [← Finset.sum_filter]
  apply Finset.sum_congr
  · ext i; simp; omega
  · intros; rfl

/-- `Σ_i Σ_j [P i j] [i = k] U i j = Σ_j [P k j] U k j` -/
theorem collapse_i {M : Type} [AddCommMonoid M] (N k : Nat) (hk : k < N) (P : Nat → Nat → Prop)
    [∀ i j, Decidable (P i j)] (U : Nat → Nat → M) :
    (∑ i ∈ Finset.range N, ∑ j ∈ Finset.range N, if P i j then (if i = k then U i j else 0) else 0)
      = ∑ j ∈ Finset.range N, if P k j then U k j else 0 := by
  rw [Finset.sum_eq_single k]
  · simp
  · intro i _ hik; simp [hik]
  · intro h; exact absurd (Finset.mem_range.mpr hk) h

/-- `Σ_i Σ_j [P i j] [j = k] V i j = Σ_i [P i k] V i k` -/
theorem collapse_j {M : Type} [AddCommMonoid M] (N k : Nat) (hk : k < N) (P : Nat → Nat → Prop)
    [∀ i j, Decidable (P i j)] (V : Nat → Nat → M) :
    (∑ i ∈ Finset.range N, ∑ j ∈ Finset.range N, if P i j then (if j = k then V i j else 0) else 0)
      = ∑ i ∈ Finset.range N, if P i k then V i k else 0 := by
  apply Finset.sum_congr rfl
  intro i _
  rw [Finset.sum_eq_single k]
  · simp
  · intro j _ hjk; simp [hjk]
  · intro h; exact absurd (Finset.mem_range.mpr hk) h

end Gravity
end RV
