import RV.Model.Advertised
import RV.Gen.C01Ias15
/- C01 / IAS15: the constants h, rr, c, d, w of src/integrator_ias15.c -/
namespace RV.C01.Ias15
open RV.C01 RV.C01.Gen RV.C01.Adv

theorem counts : iasCounts = [("h", 8), ("rr", 28), ("c", 21), ("d", 21), ("w", 8)] ∧ iasH.length = 8 ∧ iasRR.length = 28 ∧
    iasC.length = 21 ∧ iasD.length = 21 ∧ iasW.length = 8 := by decide +kernel

/-- `rr[l] = h[j] − h[k]` in the loop order of the source (28 entries) -/
theorem rr_differences : AllNear iasRR (rrOf iasH) tolIAS := by decide +kernel

/-- `c` and `d` satisfy the recurrences of the source's own generator in `h` -/
theorem c_recurrence : AllNear iasC (cOf iasH) tolIAS := by decide +kernel
theorem d_recurrence : AllNear iasD (dOf iasH) tolIAS := by decide +kernel

/-- `h₀ = 0` and `h₁ … h₇` are the roots of the Gauss–Radau polynomial `P₇(2h−1) + P₈(2h−1)`, in increasing order in (0,1) -/
theorem radau_nodes : iasH.getD 0 1 = 0 ∧ (∀ x ∈ iasH, Near (radau8 x) 0 tolIAS) ∧
    (∀ p ∈ iasH.zip iasH.tail, p.1 < p.2) ∧ (∀ x ∈ iasH, 0 ≤ x ∧ x < 1) := by decide +kernel

/-- the weights `w` integrate polynomials of degree ≤ 14 exactly over an interval of length 2: `Σ wᵢ hᵢᵏ = 2/(k+1)` -/
theorem w_quadrature : ∀ k ∈ List.range 15,
    Near (sumQ ((iasW.zip iasH).map (fun p => p.1 * p.2 ^ k))) (2 / ((k : Rat) + 1)) tolIAS := by decide +kernel
end RV.C01.Ias15
