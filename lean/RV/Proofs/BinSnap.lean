/-
  Loading snapshot k of a well-formed archive: blob 0 overlaid with delta k; with the delta-codec law
  this is the state whose serialisation was appended.
-/
import RV.Proofs.BinFirst
set_option linter.unusedVariables false
set_option linter.unusedSimpArgs false
namespace RV.Bin

theorem inputFields_hdr (hdr Y : Bytes) (h : HdrOK hdr) (fuel : Nat) (st : State) :
    inputFields (fuel + 1) (hdr ++ Y) st = inputFields fuel Y st := by
  obtain ⟨sz, hr⟩ := readHdr_hdr64 hdr Y h
  rw [inputFields, hr]
  have h1 : ¬ HEADER = END := by decide
  simp only [h1, if_false, if_true, drop64 hdr Y h]

/-- loading blob 0 of any file that starts with a well-formed first snapshot -/
theorem applyB_first (init : State) (hdr : Bytes) (hh : HdrOK hdr) (fs0 : List Field) (h0 : BlobOK fs0) (X : Bytes) :
    applyB init (hdr ++ (encFs fs0 ++ (endBytes ++ X))) = applyF init fs0 := by
  have hl := encFs_length_ge fs0
  unfold applyB
  have : (hdr ++ (encFs fs0 ++ (endBytes ++ X))).length + 1 = ((encFs fs0).length + 79 + X.length) + 1 + 1 := by
    simp [hh.len]; omega
  rw [this, inputFields_hdr hdr _ hh]
  exact inputFields_enc fs0 X init h0.wf h0.noHeader _ (by omega)

/-- offset of delta `j` relative to the start of the trailer chain -/
def chainOffRel : List (List Field) → Nat → Nat
  | _, 0 => 12
  | [], _ + 1 => 0
  | d :: r, j + 1 => 12 + blobLen d + chainOffRel r j

theorem chain_drop (fin : Nat → Nat → Bytes) (ds : List (List Field)) (j : Nat) (d : List Field)
    (hj : ds[j]? = some d) (idx prev : Nat) :
    ∃ rest, (chainG fin idx prev ds).drop (chainOffRel ds j) = encFs d ++ (endBytes ++ rest) := by
  induction ds generalizing j idx prev with
  | nil => simp at hj
  | cons d0 r ih =>
    cases j with
    | zero =>
      simp only [List.getElem?_cons_zero, Option.some.injEq] at hj
      subst hj
      refine ⟨chainG fin (idx + 1) (blobLen d0) r, ?_⟩
      simp only [chainG, chainOffRel, trailer_drop]
    | succ j' =>
      simp only [List.getElem?_cons_succ] at hj
      obtain ⟨rest, hr⟩ := ih j' hj (idx + 1) (blobLen d0)
      refine ⟨rest, ?_⟩
      simp only [chainG, chainOffRel]
      have e : 12 + blobLen d0 + chainOffRel r j' = 12 + (blobLen d0 + chainOffRel r j') := by omega
      rw [e, ← List.drop_drop, trailer_drop]
      have e2 : encFs d0 ++ (endBytes ++ chainG fin (idx + 1) (blobLen d0) r)
          = (encFs d0 ++ endBytes) ++ chainG fin (idx + 1) (blobLen d0) r := by simp
      have e3 : (encFs d0 ++ endBytes ++ chainG fin (idx + 1) (blobLen d0) r).drop (blobLen d0)
          = chainG fin (idx + 1) (blobLen d0) r := by
        have : blobLen d0 = (encFs d0 ++ endBytes).length := by simp [blobLen]
        rw [this]; exact List.drop_left
      rw [e2, ← List.drop_drop, e3, hr]

theorem chainEntries_off (pos : Nat) (ds : List (List Field)) (j : Nat) (d : List Field) (hj : ds[j]? = some d) :
    ((chainEntries pos ds).map (·.off))[j]? = some (pos + chainOffRel ds j - 12) := by
  induction ds generalizing j pos with
  | nil => simp at hj
  | cons d0 r ih =>
    cases j with
    | zero => simp [chainEntries, chainOffRel]
    | succ j' =>
      simp only [List.getElem?_cons_succ] at hj
      simp only [chainEntries, List.map_cons, List.getElem?_cons_succ, chainOffRel]
      rw [ih _ j' hj]
      have : 12 ≤ chainOffRel r j' := by
        cases j' with
        | zero => simp [chainOffRel]
        | succ j'' =>
          cases r with
          | nil => simp at hj
          | cons d1 r1 => simp [chainOffRel]; omega
      congr 1; omega

/-- **snapshot k of an archive**: the first snapshot overlaid with delta k (payload level) -/
theorem snapshot_arch (init : State) (hdr : Bytes) (fs0 : List Field) (ds : List (List Field))
    (h : ArchOK hdr fs0 ds) (j : Nat) (d : List Field) (hj : ds[j]? = some d) :
    snapshot init (archI hdr fs0 ds) ((archEntries fs0 ds).map (·.off)) (j + 1)
      = some (applyF (applyF init fs0) d) ∧
    snapshot init (archI hdr fs0 ds) ((archEntries fs0 ds).map (·.off)) 0 = some (applyF init fs0) := by
  have hfirst : applyB init (archI hdr fs0 ds) = applyF init fs0 := applyB_first init hdr h.hdr fs0 h.b0 _
  have hmem : d ∈ ds := List.mem_of_getElem? hj
  obtain ⟨hd, _⟩ := h.ds d hmem
  constructor
  · unfold snapshot
    simp only [archEntries, List.map_cons, List.getElem?_cons_succ]
    rw [chainEntries_off (off1 fs0) ds j d hj]
    simp only [Nat.succ_ne_zero, if_false, Nat.add_one_ne_zero, hfirst]
    obtain ⟨rest, hr⟩ := chain_drop finIntact ds j d hj 0 0
    have hdrop : (archI hdr fs0 ds).drop (off1 fs0 + chainOffRel ds j - 12) = encFs d ++ (endBytes ++ rest) := by
      have e : off1 fs0 + chainOffRel ds j - 12 = (hdr ++ (encFs fs0 ++ endBytes)).length + chainOffRel ds j := by
        simp [off1, blobLen, h.hdr.len]; omega
      have e2 : archI hdr fs0 ds = (hdr ++ (encFs fs0 ++ endBytes)) ++ chainG finIntact 0 0 ds := by
        simp [archI, archG]
      rw [e, e2, ← List.drop_drop, List.drop_left, hr]
    rw [hdrop, applyB_enc d rest _ hd.wf hd.noHeader]
  · unfold snapshot
    simp [archEntries, hfirst]

end RV.Bin

namespace RV.Bin

/-! ### the delta of a history step is a walkable blob -/
theorem diffF_BlobOK (v : Variant) (cmp : Nat → Bytes → Bytes → Bool) (a b : List Field)
    (ha : BlobOK a) (hb : BlobOK b) (ub : (ids b).Nodup) (hv : v.f1 = true ∨ ¬ Vanishes a b)
    (ht : ∀ f ∈ a, f.ty = T_ID → ∃ g ∈ b, g.ty = f.ty) : BlobOK (diffF v cmp a b) := by
  rw [diffF_eq_spec v cmp a b ub]
  refine ⟨diffSpec_WF v cmp a b ha.wf hb.wf hv, diffSpec_NoHeader v cmp a b ha.noHeader hb.noHeader, ?_⟩
  intro e he hty
  rcases mem_diffSpec_cases v cmp a b e he with ⟨f, hf, rfl, hno⟩ | ⟨f, hf, heb, _, _⟩ | ⟨heb, _⟩
  · obtain ⟨g, hg, hgt⟩ := ht f hf hty
    exact absurd hgt (hno g hg)
  · exact hb.tsize e heb hty
  · exact hb.tsize e heb hty

/-- the time field of a list with a single `t` value -/
theorem tOf_no_t (l : List Field) (t : Option Bytes) (h : ∀ e ∈ l, e.ty ≠ T_ID) : tOf l t = t := by
  induction l generalizing t with
  | nil => rfl
  | cons e r ih =>
    simp only [tOf, h e (List.mem_cons_self ..), if_false]
    exact ih _ (fun x hx => h x (List.mem_cons_of_mem _ hx))

theorem tOf_some (l : List Field) (t : Option Bytes) (x : Bytes) (hex : ∃ e ∈ l, e.ty = T_ID)
    (hu : ∀ e ∈ l, e.ty = T_ID → e.data = x) : tOf l t = some x := by
  induction l generalizing t with
  | nil => obtain ⟨e, he, _⟩ := hex; cases he
  | cons e r ih =>
    simp only [tOf]
    by_cases hr : ∃ e' ∈ r, e'.ty = T_ID
    · exact ih _ hr (fun y hy => hu y (List.mem_cons_of_mem _ hy))
    · have hno : ∀ e' ∈ r, e'.ty ≠ T_ID := fun e' h' e'' => hr ⟨e', h', e''⟩
      rw [tOf_no_t r _ hno]
      obtain ⟨e0, he0, hty⟩ := hex
      rcases List.mem_cons.mp he0 with rfl | h'
      · simp [hty, hu e0 (List.mem_cons_self ..) hty]
      · exact absurd hty (hno e0 h')

/-- **time field of a delta**: present (with the new time) iff the encoder saw the time change -/
theorem tOf_diff (v : Variant) (cmp : Nat → Bytes → Bytes → Bool) (a b : List Field)
    (ua : (ids a).Nodup) (ub : (ids b).Nodup) (f g : Field) (hf : f ∈ a) (hg : g ∈ b)
    (hft : f.ty = T_ID) (hgt : g.ty = T_ID) :
    tOf (diffF v cmp a b) none = if sameF cmp f g then none else some g.data := by
  rw [diffF_eq_spec v cmp a b ub]
  by_cases hs : sameF cmp f g = true
  · simp only [hs, if_true]
    apply tOf_no_t
    intro e he hty
    rcases mem_diffSpec_cases v cmp a b e he with ⟨f', hf', rfl, hno⟩ | ⟨f', hf', heb, hty', hsf⟩ | ⟨heb, hno⟩
    · exact hno g hg (hgt.trans hty.symm)
    · have e1 := unique_of_nodup b ub g e hg heb (hty.trans hgt.symm)
      have e2 := unique_of_nodup a ua f f' hf hf' ((hty'.symm.trans hty).trans hft.symm)
      subst e1; subst e2
      rw [hs] at hsf; cases hsf
    · exact hno f hf (hft.trans hty.symm)
  · have hs' : sameF cmp f g = false := by simpa using hs
    simp only [hs', Bool.false_eq_true, if_false]
    apply tOf_some
    · exact ⟨g, changed_mem v cmp a b ub f g hf hg (hgt.trans hft.symm) hs', hgt⟩
    · intro e he hty
      rcases mem_diffSpec_cases v cmp a b e he with ⟨f', hf', rfl, hno⟩ | ⟨f', hf', heb, _, _⟩ | ⟨heb, _⟩
      · exact absurd (hgt.trans hty.symm) (hno g hg)
      · rw [unique_of_nodup b ub g e hg heb (hty.trans hgt.symm)]
      · rw [unique_of_nodup b ub g e hg heb (hty.trans hgt.symm)]

end RV.Bin
