import RV.Model.Sync
import Mathlib.Algebra.Group.Basic
/-
  C09 for MERCURIUS (kick first: the merged operator is the interaction kick) and for the outer
  scheme of EOS.
-/
set_option linter.unusedVariables false
set_option linter.unusedSimpArgs false
set_option linter.unusedSectionVars false
namespace RV.Sync

/-! ## MERCURIUS -/

/-- `p` = `r->particles` (heliocentric while unsynchronised), `c` = `com_pos/com_vel`,
    `acc` = accelerations, `d` = `dcrit` -/
structure MSt (P C A Dc : Type) where
  p : P
  c : C
  acc : A
  d : Dc

structure MSem (T P C A Dc : Type) where
  ev : Coef → T
  toDhP : P → P                 -- inertial_to_dh: new particle coordinates …
  toDhC : P → C                 -- … and centre of mass
  toI : P → C → P
  upd : P → A
  inter : T → A → P → P
  jump : T → P → P
  com : T → C → C
  kepEnc : T → Dc → P → P       -- Kepler step + encounter prediction + encounter step
  dcrit : P → Dc

variable {T P C A Dc : Type}

def mDenote (S : MSem T P C A Dc) : MPrim → MSt P C A Dc → MSt P C A Dc
  | .allocDcrit, s | .allocTmp, s | .warn, s | .setup, s | .advT _, s => s
  | .part2 _, s => s   -- coarse replay marker only; no theorem mentions it
  | .toDh, s => { s with p := S.toDhP s.p, c := S.toDhC s.p }
  | .toInertial, s => { s with p := S.toI s.p s.c }
  | .dcrit, s => { s with d := S.dcrit s.p }
  | .updateAcc, s => { s with acc := S.upd s.p }
  | .interaction τ, s => { s with p := S.inter (S.ev τ) s.acc s.p }
  | .jump τ, s => { s with p := S.jump (S.ev τ) s.p }
  | .com τ, s => { s with c := S.com (S.ev τ) s.c }
  | .keplerEncounter τ, s => { s with p := S.kepEnc (S.ev τ) s.d s.p }

def mExec (S : MSem T P C A Dc) : List MPrim → MSt P C A Dc → MSt P C A Dc
  | [], s => s
  | p :: ps, s => mExec S ps (mDenote S p s)

def mApply (S : MSem T P C A Dc) (safe : Bool) (o : Op P) (x : MFlags × MSt P C A Dc) :
    MFlags × MSt P C A Dc :=
  let r := mOpOps safe x.1 o
  let s := mExec S r.1 x.2
  (r.2, match o with | .poke v => { s with p := v } | _ => s)

def mRun (S : MSem T P C A Dc) (safe : Bool) :
    List (Op P) → MFlags × MSt P C A Dc → MFlags × MSt P C A Dc
  | [], x => x
  | o :: os, x => mRun S safe os (mApply S safe o x)

/-- laws of the MERCURIUS primitives (exact arithmetic) -/
structure MLaws [AddCommGroup T] (S : MSem T P C A Dc) : Prop where
  /-- the kick is additive in its coefficient at fixed accelerations -/
  inter_add : ∀ a b acc p, S.inter a acc (S.inter b acc p) = S.inter (a + b) acc p
  /-- the kick does not move the positions the accelerations are computed from -/
  upd_inter : ∀ b acc p, S.upd (S.inter b acc p) = S.upd p
  /-- `inertial_to_dh ∘ dh_to_inertial = id` -/
  dh_to : ∀ p c, S.toDhP (S.toI p c) = p ∧ S.toDhC (S.toI p c) = c
  ev_half : S.ev (.frac 1 2) + S.ev (.frac 1 2) = S.ev (.frac 1 1)

/-- what `synchronize` makes of an unsynchronised state -/
def mSynced (S : MSem T P C A Dc) (s : MSt P C A Dc) : P :=
  S.toI (S.inter (S.ev (.frac 1 2)) (S.upd s.p) s.p) s.c

/-- the part of a step after the first kick -/
def mTail : List MPrim :=
  [.jump (.frac 1 2), .com (.frac 1 1), .keplerEncounter (.frac 1 1), .jump (.frac 1 2)]

inductive MInv (S : MSem T P C A Dc) : MFlags × MSt P C A Dc → MFlags × MSt P C A Dc → Prop
  | fresh (u v) : u = v → u.1.isSync = true → u.1.allocD = false → MInv S u v
  | unsync (u v) : u.1 = ⟨false, false, false, true, true⟩ → v.1 = ⟨true, true, false, true, true⟩ →
      v.2.p = mSynced S u.2 → v.2.d = u.2.d → MInv S u v
  | synced (u v) : u.1 = ⟨true, true, false, true, true⟩ → v.1 = ⟨true, true, false, true, true⟩ →
      v.2.p = u.2.p → v.2.d = u.2.d → MInv S u v

theorem mExec_append (S : MSem T P C A Dc) (a b : List MPrim) (s : MSt P C A Dc) :
    mExec S (a ++ b) s = mExec S b (mExec S a s) := by
  induction a generalizing s with
  | nil => rfl
  | cons p ps ih => exact ih _

variable [AddCommGroup T]

theorem mInv_step {S : MSem T P C A Dc} (L : MLaws S) {u v : MFlags × MSt P C A Dc}
    (h : MInv S u v) : MInv S (mApply S false .step u) (mApply S true .step v) := by
  cases h with
  | fresh h1 h2 h3 =>
    subst h1
    obtain ⟨⟨isSync, recalc, recalcR, allocD, allocT⟩, s⟩ := u
    simp only at h2 h3; subst h2 h3
    cases allocT <;> refine MInv.unsync _ _ ?_ ?_ ?_ ?_ <;>
      simp [mApply, mOpOps, mStepOps, mPart1Ops, mPart2Ops, mSyncOps, mExec, mDenote, mSynced]
  | unsync h1 h2 h3 h4 =>
    obtain ⟨fu, su⟩ := u
    obtain ⟨fv, sv⟩ := v
    simp only at h1 h2 h3 h4; subst h1 h2
    refine MInv.unsync _ _ ?_ ?_ ?_ ?_ <;>
      simp [mApply, mOpOps, mStepOps, mPart1Ops, mPart2Ops, mSyncOps, mExec, mDenote, mSynced,
        h3, h4, (L.dh_to _ _).1, (L.dh_to _ _).2, L.upd_inter, L.inter_add, L.ev_half]
  | synced h1 h2 h3 h4 =>
    obtain ⟨fu, su⟩ := u
    obtain ⟨fv, sv⟩ := v
    simp only at h1 h2 h3 h4; subst h1 h2
    refine MInv.unsync _ _ ?_ ?_ ?_ ?_ <;>
      simp [mApply, mOpOps, mStepOps, mPart1Ops, mPart2Ops, mSyncOps, mExec, mDenote, mSynced, h3, h4]

theorem mInv_sync (S : MSem T P C A Dc) {u v : MFlags × MSt P C A Dc} (h : MInv S u v) :
    MInv S (mApply S false .synchronize u) v := by
  cases h with
  | fresh h1 h2 h3 =>
    subst h1
    obtain ⟨⟨isSync, recalc, recalcR, allocD, allocT⟩, s⟩ := u
    simp only at h2 h3; subst h2 h3
    exact MInv.fresh _ _ rfl rfl rfl
  | unsync h1 h2 h3 h4 =>
    obtain ⟨fu, su⟩ := u
    simp only at h1 h3 h4; subst h1
    refine MInv.synced _ _ ?_ h2 ?_ ?_ <;>
      simp [mApply, mOpOps, mSyncOps, mExec, mDenote, h3, h4, mSynced]
  | synced h1 h2 h3 h4 =>
    obtain ⟨fu, su⟩ := u
    simp only at h1 h3 h4; subst h1
    exact MInv.synced _ _ rfl h2 h3 h4

theorem mInv_run {S : MSem T P C A Dc} (L : MLaws S) (σ : List (Op P))
    (hσ : ∀ o ∈ σ, o.benign = true) (u v : MFlags × MSt P C A Dc) (h : MInv S u v) :
    MInv S (mRun S false σ u) (mRun S true (σ.filter Op.isStep) v) := by
  induction σ generalizing u v with
  | nil => exact h
  | cons o os ih =>
    have hos : ∀ o ∈ os, o.benign = true := fun o ho => hσ o (List.mem_cons_of_mem _ ho)
    have ho := hσ o List.mem_cons_self
    cases o with
    | step =>
      simp only [List.filter, Op.isStep, mRun]
      exact ih hos _ _ (mInv_step L h)
    | synchronize =>
      simp only [List.filter, Op.isStep, mRun]
      exact ih hos _ _ (mInv_sync S h)
    | read =>
      simp only [List.filter, Op.isStep, mRun]
      exact ih hos _ _ h
    | setRecalc => simp [Op.benign] at ho
    | poke v => simp [Op.benign] at ho

theorem mInv_final (S : MSem T P C A Dc) {u v : MFlags × MSt P C A Dc} (h : MInv S u v) :
    (mApply S false .synchronize u).2.p = v.2.p := by
  have := mInv_sync S h
  cases this with
  | fresh h1 h2 h3 => rw [h1]
  | unsync h1 h2 h3 h4 =>
    exfalso
    have : (mApply S false .synchronize u).1.isSync = true := by
      simp only [mApply, mOpOps, mSyncOps]
      split <;> simp_all
    rw [h1] at this; cases this
  | synced h1 h2 h3 h4 => exact h3.symm

/-! ## EOS, outer scheme -/

structure ESem (E : Type) where
  pre : E → E
  post : E → E
  drift : Nat → E → E
  body : E → E

def eDenote {E : Type} (S : ESem E) : EPrim → E → E
  | .pre, s => S.pre s | .post, s => S.post s | .drift k, s => S.drift k s | .body, s => S.body s

def eExec {E : Type} (S : ESem E) : List EPrim → E → E
  | [], s => s
  | p :: ps, s => eExec S ps (eDenote S p s)

/-- one API operation on (is_synchronized, state) -/
def eApply {E : Type} (S : ESem E) (safe : Bool) (o : Op E) (x : Bool × E) : Bool × E :=
  match o with
  | .step => ((eStepOps safe x.1).2, eExec S (eStepOps safe x.1).1 x.2)
  | .synchronize => ((eSyncOps x.1).2, eExec S (eSyncOps x.1).1 x.2)
  | .read | .setRecalc => x
  | .poke v => (x.1, v)

def eRun {E : Type} (S : ESem E) (safe : Bool) : List (Op E) → Bool × E → Bool × E
  | [], x => x
  | o :: os, x => eRun S safe os (eApply S safe o x)

/-- what would make deferred synchronisation exact for EOS: the outer drift is a flow and the
    pre-processor undoes the post-processor.  In the code the drift is itself a splitting
    scheme (`phi1`, `n` sub-steps), so `drift_merge` only holds up to that scheme's truncation
    error: this is why the property allows EOS a truncation-level difference. -/
structure ELaws {E : Type} (S : ESem E) : Prop where
  drift_merge : ∀ s, S.drift 1 (S.drift 1 s) = S.drift 2 s
  pre_post : ∀ s, S.pre (S.post s) = s

theorem eos_run {E : Type} {S : ESem E} (L : ELaws S) (σ : List (Op E))
    (hσ : ∀ o ∈ σ, o.benign = true) (u v : Bool × E)
    (h : (u.1 = true ∧ v.1 = true ∧ u.2 = v.2) ∨
         (u.1 = false ∧ v.1 = true ∧ v.2 = S.post (S.drift 1 u.2))) :
    let u' := eRun S false σ u
    let v' := eRun S true (σ.filter Op.isStep) v
    (u'.1 = true ∧ v'.1 = true ∧ u'.2 = v'.2) ∨
    (u'.1 = false ∧ v'.1 = true ∧ v'.2 = S.post (S.drift 1 u'.2)) := by
  induction σ generalizing u v with
  | nil => exact h
  | cons o os ih =>
    have hos : ∀ o ∈ os, o.benign = true := fun o ho => hσ o (List.mem_cons_of_mem _ ho)
    have ho := hσ o List.mem_cons_self
    obtain ⟨fu, su⟩ := u
    obtain ⟨fv, sv⟩ := v
    cases o with
    | step =>
      simp only [List.filter, Op.isStep, eRun]
      apply ih hos
      rcases h with ⟨h1, h2, h3⟩ | ⟨h1, h2, h3⟩ <;> simp only at h1 h2 h3 <;> subst h1 h2 h3
      · right; simp [eApply, eStepOps, eSyncOps, eExec, eDenote]
      · right; simp [eApply, eStepOps, eSyncOps, eExec, eDenote, L.pre_post, L.drift_merge]
    | synchronize =>
      simp only [List.filter, Op.isStep, eRun]
      apply ih hos
      rcases h with ⟨h1, h2, h3⟩ | ⟨h1, h2, h3⟩ <;> simp only at h1 h2 h3 <;> subst h1 h2 h3
      · left; simp [eApply, eSyncOps, eExec]
      · left; simp [eApply, eSyncOps, eExec, eDenote]
    | read =>
      simp only [List.filter, Op.isStep, eRun]
      exact ih hos _ _ h
    | setRecalc => simp [Op.benign] at ho
    | poke v => simp [Op.benign] at ho

end RV.Sync
