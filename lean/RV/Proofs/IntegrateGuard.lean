import RV.Proofs.IntegrateSplit
/-
  C08: the no-progress guard of /repo addb1f3 (`loopG`, `integrateG`) only ever turns a run that would have
  gone on into an error: whenever it does not fire, the call is the call without the guard.
-/
set_option linter.unusedSectionVars false
set_option linter.unusedVariables false
set_option linter.unusedSimpArgs false
namespace RV.Integrate
open RV
variable {K : Type} [Field K] [LinearOrder K] [IsStrictOrderedRing K]

theorem loopG_silent (step : StepFn K) (env : Nat → Flags) (tmax : K) (inf : Bool) :
    ∀ (fuel k : Nat) (np : Bool) (s : Sim K) (lf : K) (o : Outcome K) (lf' : K),
      loopG step env tmax inf fuel k np s lf = (o, lf', false) →
      loop step env tmax inf fuel k s lf = (o, lf') := by
  intro fuel
  induction fuel with
  | zero =>
    intro k np s lf o lf' h
    simp only [loopG, Prod.mk.injEq] at h
    simp only [loop, Prod.mk.injEq]
    exact ⟨h.1, h.2.1⟩
  | succ fuel ih =>
    intro k np s lf o lf' h
    unfold loopG at h
    unfold loop
    cases hce : checkExit s tmax inf lf (env k) with
    | blocked b =>
      rw [hce] at h
      simp only [Prod.mk.injEq] at h ⊢
      exact ⟨h.1, h.2.1⟩
    | ret s1 lf1 =>
      rw [hce] at h
      simp only at h ⊢
      by_cases hneg : s1.status < 0
      · rw [if_pos hneg] at h
        rw [if_pos hneg]
        cases np with
        | true => simp at h
        | false =>
          simp only [Bool.false_eq_true, if_false] at h
          exact ih _ _ _ _ _ _ h
      · rw [if_neg hneg] at h
        rw [if_neg hneg]
        simp only [Prod.mk.injEq] at h ⊢
        exact ⟨h.1, h.2.1⟩

/-- whenever the guard does not fire, `integrateG` is `integrate` -/
theorem integrateG_silent (step : StepFn K) (env : Nat → Flags) (fuel : Nat) (s : Sim K) (tmax : K)
    (inf nanGuard : Bool) (o : Outcome K)
    (h : integrateG nanGuard step env fuel s tmax inf = (o, false)) :
    integrate step env fuel s tmax inf = o := by
  unfold integrateG at h
  simp only [fne_iff, ne_eq, not_true_eq_false, decide_false, Bool.and_false, Bool.false_eq_true, if_false] at h
  unfold integrate
  rcases hs : start s tmax (env 0) with ⟨s1, lf⟩
  rw [hs] at h
  simp only at h ⊢
  rcases hl : loopG step env tmax inf fuel 0 false s1 lf with ⟨o1, lf1, g⟩
  rw [hl] at h
  cases o1 <;>
  · simp only [Prod.mk.injEq] at h
    obtain ⟨h1, h2⟩ := h
    subst h2
    rw [loopG_silent step env tmax inf fuel 0 false _ _ _ _ hl]
    exact h1

end RV.Integrate
