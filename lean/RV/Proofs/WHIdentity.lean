import RV.Proofs.WHJacobi
import RV.Proofs.GravityJacobi
/-
  The Wisdom–Holman Jacobi-term identity, for every N.

  The JACOBI gravity routine adds to the inertial accelerations the "Jacobi terms"
      J_k = −Σ_{j>max(k,1)} m_j u_j + [k>1] η_{k−1} u_k ,      u_j = G/|Q_j|³ · Q_j ,
  and WHFast then pushes all accelerations through `inertial_to_jacobi_acc`.  When any other
  gravity routine is used, `reb_whfast_interaction_step` instead adds  η_i u_i  directly to
  the Jacobi acceleration of body `i > 1`.  The two are the same: jac(J)_i = η_i u_i (i ≥ 2),
  jac(J)_1 = 0, jac(J)_0 = 0.  The identity is linear in `u`, so `u` is arbitrary here.
-/
set_option linter.unusedTactic false
set_option linter.unreachableTactic false
set_option linter.unnecessarySeqFocus false
set_option linter.unusedVariables false
set_option linter.unusedSimpArgs false
set_option linter.unusedSectionVars false
namespace RV.WH
open RV
variable {K : Type} [Field K]

/-- `S_i = Σ_{j=max(i,2)}^{N−1} m_j u_j` -/
def tailS (N : Nat) (m : Nat → K) (u : Nat → V3 K) (i : Nat) : V3 K :=
  ∑ j ∈ Finset.Ico (max i 2) N, m j • u j

/-- the Jacobi terms of the JACOBI gravity routine, as a function of `u` -/
def Jt (N : Nat) (m : Nat → K) (u : Nat → V3 K) (k : Nat) : V3 K :=
  -(∑ j ∈ Finset.Ico (max k 1 + 1) N, m j • u j) + (if 1 < k then eta m (k - 1) • u k else 0)

theorem Jt_eq (N : Nat) (m : Nat → K) (u : Nat → V3 K) (k : Nat) (hk : k < N) :
    Jt N m u k = if k < 2 then -tailS N m u 2 else -tailS N m u (k + 1) + eta m (k - 1) • u k := by
  unfold Jt tailS
  by_cases h : k < 2
  · have e1 : max k 1 + 1 = 2 := by omega
    have e2 : ¬ 1 < k := by omega
    simp [h, e1, e2]
  · have e1 : max k 1 + 1 = max (k + 1) 2 := by omega
    have e2 : 1 < k := by omega
    simp [h, e1, e2]

theorem tailS_step (N : Nat) (m : Nat → K) (u : Nat → V3 K) (i : Nat) (h2 : 2 ≤ i) (hi : i < N) :
    tailS N m u i = m i • u i + tailS N m u (i + 1) := by
  unfold tailS
  rw [show max i 2 = i by omega, show max (i + 1) 2 = i + 1 by omega,
    Finset.sum_eq_sum_Ico_succ_bot hi]

/-- `Σ_{k<i} m_k J_k = −η_{i−1} S_i`  (induction over the Jacobi loop) -/
theorem wsum_Jt (N : Nat) (m : Nat → K) (u : Nat → V3 K) :
    ∀ i, 1 ≤ i → i ≤ N → wsumV m (Jt N m u) (i - 1) = -(eta m (i - 1) • tailS N m u i) := by
  intro i h1
  induction i, h1 using Nat.le_induction with
  | base =>
    intro hN
    simp only [Nat.sub_self, wsumV, Finset.sum_range_one, eta, zero_add]
    rw [Jt_eq N m u 0 (by omega)]
    simp only [show (0 : Nat) < 2 by omega, if_true, tailS, show max 1 2 = 2 by omega, show max 2 2 = 2 by omega]
    simp
  | succ i hi ih =>
    intro hN
    have hiN : i < N := by omega
    have := ih (by omega)
    have e : wsumV m (Jt N m u) (i + 1 - 1) = wsumV m (Jt N m u) (i - 1) + m i • Jt N m u i := by
      obtain ⟨j, rfl⟩ : ∃ j, i = j + 1 := ⟨i - 1, by omega⟩
      simp [wsumV, Finset.sum_range_succ]
    rw [e, this, Jt_eq N m u i hiN]
    have heta : eta m (i + 1 - 1) = eta m (i - 1) + m i := by
      obtain ⟨j, rfl⟩ : ∃ j, i = j + 1 := ⟨i - 1, by omega⟩
      simp [eta_succ]
    rw [heta]
    by_cases h2 : i < 2
    · have hi1 : i = 1 := by omega
      subst hi1
      simp only [show (1 : Nat) < 2 by omega, if_true, tailS, show max 1 2 = 2 by omega,
        show max (1 + 1) 2 = 2 by omega, show max 2 2 = 2 by omega]
      simp only [smul_neg, add_smul]
      abel
    · simp only [h2, if_false]
      rw [tailS_step N m u i (by omega) hiN]
      simp only [smul_add, smul_neg, add_smul, smul_smul, neg_add]
      rw [mul_comm (eta m (i - 1)) (m i)]
      abel

/-- **Wisdom–Holman identity, ∀ N**: the Jacobi coordinates of the Jacobi terms -/
theorem jac_Jt (N : Nat) (m : Nat → K) (u : Nat → V3 K) (heta : ∀ i, i < N → eta m i ≠ 0)
    (i : Nat) (h1 : 1 ≤ i) (hi : i < N) :
    jacV N m (Jt N m u) i = if 2 ≤ i then eta m i • u i else 0 := by
  have hne : i ≠ 0 := by omega
  have hn := heta (i - 1) (by omega)
  simp only [jacV, hne, if_false]
  rw [wsum_Jt N m u i h1 (by omega), Jt_eq N m u i hi]
  simp only [smul_neg, smul_smul]
  rw [one_div_mul_cancel hn, one_smul]
  by_cases h2 : i < 2
  · have : i = 1 := by omega
    subst this
    simp [tailS]
  · have h2' : 2 ≤ i := by omega
    simp only [h2, if_false, h2', if_true]
    rw [tailS_step N m u i h2' hi]
    have : eta m i = eta m (i - 1) + m i := by
      obtain ⟨j, rfl⟩ : ∃ j, i = j + 1 := ⟨i - 1, by omega⟩
      simp [eta_succ]
    rw [this, add_smul]
    abel

/-- the centre-of-mass slot: the Jacobi terms carry no net force -/
theorem jac_Jt_zero (N : Nat) (hN : 1 ≤ N) (m : Nat → K) (u : Nat → V3 K) :
    wsumV m (Jt N m u) (N - 1) = 0 := by
  rw [wsum_Jt N m u N hN (le_refl N)]
  have : tailS N m u N = 0 := by
    unfold tailS
    rw [Finset.Ico_eq_empty_iff.mpr (by omega)]; simp
  rw [this]; simp

/-! ### the Jacobi terms of `c02_jacobi_sources` are `Jt` with `u_j = G/|Q_j|³ · Q_j` -/
open RV.Gravity

/-- `u_j` of the JACOBI routine -/
def uJ (G : K) (sqrt : K → K) (N : Nat) (m : Nat → K) (x : Nat → V3 K) (j : Nat) : V3 K :=
  (G / (sqrt ((jacV N m x j).x * (jacV N m x j).x + (jacV N m x j).y * (jacV N m x j).y + (jacV N m x j).z * (jacV N m x j).z)
      * sqrt ((jacV N m x j).x * (jacV N m x j).x + (jacV N m x j).y * (jacV N m x j).y + (jacV N m x j).z * (jacV N m x j).z)
      * sqrt ((jacV N m x j).x * (jacV N m x j).x + (jacV N m x j).y * (jacV N m x j).y + (jacV N m x j).z * (jacV N m x j).z)))
    • jacV N m x j

theorem Rn_wsumV (m : Nat → K) (x : Nat → V3 K) (j : Nat) (hj : 1 ≤ j) : Rn m x j = wsumV m x (j - 1) := by
  obtain ⟨i, rfl⟩ : ∃ i, j = i + 1 := ⟨j - 1, by omega⟩
  simp [Rn, wsumV]
theorem Mn_eta (m : Nat → K) (j : Nat) (hj : 1 ≤ j) : Mn m j = eta m (j - 1) := by
  obtain ⟨i, rfl⟩ : ∃ i, j = i + 1 := ⟨j - 1, by omega⟩
  simp [Mn, eta]

theorem Qv_jacV (N : Nat) (m : Nat → K) (x : Nat → V3 K) (j : Nat) (hj : 1 ≤ j) :
    Qv x (Rn m x j) (Mn m j) j = jacV N m x j := by
  have : j ≠ 0 := by omega
  rw [Rn_wsumV m x j hj, Mn_eta m j hj]
  ext <;> simp [Qv, jacV, this] <;> ring

/-- the Jacobi-term sum of `c02_jacobi_sources` is `Jt` -/
theorem jacobi_terms_eq_Jt (G : K) (sqrt : K → K) (N : Nat) (m : Nat → K) (x : Nat → V3 K)
    (k : Nat) (hk : k < N) :
    (∑ j ∈ Finset.range N, if 1 < j ∧ k ≤ j
        then jacTerm G sqrt m x (Rn m x j) (Mn m j) j k else 0)
      = Jt N m (uJ G sqrt N m x) k := by
  have hterm : ∀ j, 1 < j → jacTerm G sqrt m x (Rn m x j) (Mn m j) j k
      = (if k < j then -(m j) else eta m (j - 1)) • uJ G sqrt N m x j := by
    intro j hj
    unfold jacTerm uJ
    rw [Qv_jacV N m x j (by omega), Mn_eta m j (by omega), smul_smul]
    congr 1
    split_ifs <;> ring
  unfold Jt
  rw [Finset.range_eq_Ico, ← Finset.sum_filter]
  have hf : (Finset.Ico 0 N).filter (fun j => 1 < j ∧ k ≤ j) = Finset.Ico (max k 2) N := by
    ext j; simp; omega
  rw [hf]
  by_cases h1 : 1 < k
  · rw [show max k 2 = k by omega, Finset.sum_eq_sum_Ico_succ_bot hk, hterm k h1]
    simp only [lt_irrefl, if_false, h1, if_true, show max k 1 + 1 = k + 1 by omega]
    rw [add_comm]
    congr 1
    rw [← Finset.sum_neg_distrib]
    apply Finset.sum_congr rfl
    intro j hj
    have := Finset.mem_Ico.mp hj
    rw [hterm j (by omega)]
    simp [show k < j by omega]
  · simp only [h1, if_false, add_zero, show max k 2 = 2 by omega, show max k 1 + 1 = 2 by omega]
    rw [← Finset.sum_neg_distrib]
    apply Finset.sum_congr rfl
    intro j hj
    have := Finset.mem_Ico.mp hj
    rw [hterm j (by omega)]
    simp [show k < j by omega]

end RV.WH
