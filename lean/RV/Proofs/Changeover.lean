import RV.Proofs.Field
import RV.Model.Gravity
import Mathlib.Analysis.Calculus.Deriv.MeanValue
import Mathlib.Analysis.Calculus.Deriv.Pow
import Mathlib.Tactic.Positivity
/-
  The polynomial changeover functions of integrator_mercurius.c over ℝ: derivative
  factorisations  L' = 30 y²(1−y)²,  630 y⁴(1−y)⁴,  2772 y⁵(1−y)⁵  and monotonicity on [0,1].
-/
set_option linter.unusedTactic false
set_option linter.unusedVariables false
namespace RV.Gravity
open RV

theorem polyMercury_real (y : ℝ) : polyMercury y = 10 * y ^ 3 - 15 * y ^ 4 + 6 * y ^ 5 := by
  simp only [polyMercury, sc_hmul, sc_hadd, sc_hsub, sc_ofNat]; push_cast; ring
theorem polyC4_real (y : ℝ) :
    polyC4 y = 70 * y ^ 9 - 315 * y ^ 8 + 540 * y ^ 7 - 420 * y ^ 6 + 126 * y ^ 5 := by
  simp only [polyC4, sc_hmul, sc_hadd, sc_hsub, sc_ofNat]; push_cast; ring
theorem polyC5_real (y : ℝ) :
    polyC5 y = -(252 * y ^ 11) + 1386 * y ^ 10 - 3080 * y ^ 9 + 3465 * y ^ 8 - 1980 * y ^ 7 + 462 * y ^ 6 := by
  simp only [polyC5, sc_hmul, sc_hadd, sc_hsub, sc_hneg, sc_ofNat]; push_cast; ring

theorem hasDeriv_mercury (y : ℝ) : HasDerivAt (fun y : ℝ => polyMercury y) (30 * y ^ 2 * (1 - y) ^ 2) y := by
  have hf : (fun y : ℝ => polyMercury y) = fun y => 10 * y ^ 3 - 15 * y ^ 4 + 6 * y ^ 5 := by
    funext y; exact polyMercury_real y
  rw [hf]
  have := (((hasDerivAt_pow 3 y).const_mul 10).sub ((hasDerivAt_pow 4 y).const_mul 15)).add
    ((hasDerivAt_pow 5 y).const_mul 6)
  exact this.congr_deriv (by norm_num; ring)

theorem hasDeriv_C4 (y : ℝ) : HasDerivAt (fun y : ℝ => polyC4 y) (630 * y ^ 4 * (1 - y) ^ 4) y := by
  have hf : (fun y : ℝ => polyC4 y)
      = fun y => 70 * y ^ 9 - 315 * y ^ 8 + 540 * y ^ 7 - 420 * y ^ 6 + 126 * y ^ 5 := by
    funext y; exact polyC4_real y
  rw [hf]
  have := ((((((hasDerivAt_pow 9 y).const_mul 70).sub ((hasDerivAt_pow 8 y).const_mul 315)).add
    ((hasDerivAt_pow 7 y).const_mul 540)).sub ((hasDerivAt_pow 6 y).const_mul 420)).add
    ((hasDerivAt_pow 5 y).const_mul 126))
  exact this.congr_deriv (by norm_num; ring)

theorem hasDeriv_C5 (y : ℝ) : HasDerivAt (fun y : ℝ => polyC5 y) (2772 * y ^ 5 * (1 - y) ^ 5) y := by
  have hf : (fun y : ℝ => polyC5 y)
      = fun y => -(252 * y ^ 11) + 1386 * y ^ 10 - 3080 * y ^ 9 + 3465 * y ^ 8 - 1980 * y ^ 7 + 462 * y ^ 6 := by
    funext y; exact polyC5_real y
  rw [hf]
  have := (((((((hasDerivAt_pow 11 y).const_mul 252).neg).add ((hasDerivAt_pow 10 y).const_mul 1386)).sub
    ((hasDerivAt_pow 9 y).const_mul 3080)).add ((hasDerivAt_pow 8 y).const_mul 3465)).sub
    ((hasDerivAt_pow 7 y).const_mul 1980)).add ((hasDerivAt_pow 6 y).const_mul 462)
  exact this.congr_deriv (by norm_num; ring)

theorem monotone_of_deriv (f : ℝ → ℝ) (f' : ℝ → ℝ) (h : ∀ y, HasDerivAt f (f' y) y)
    (hpos : ∀ y, 0 < y → y < 1 → 0 ≤ f' y) : MonotoneOn f (Set.Icc 0 1) := by
  apply monotoneOn_of_deriv_nonneg (convex_Icc 0 1)
  · exact fun y _ => (h y).continuousAt.continuousWithinAt
  · exact fun y _ => (h y).differentiableAt.differentiableWithinAt
  · intro y hy
    rw [interior_Icc] at hy
    rw [(h y).deriv]
    exact hpos y hy.1 hy.2

end RV.Gravity
