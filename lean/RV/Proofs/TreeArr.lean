import RV.Proofs.TreeUpdate
import RV.Model.TreeArr
set_option linter.unusedSectionVars false
set_option linter.unusedVariables false
set_option linter.unusedSimpArgs false
namespace RV.C15
open RV RV.Tree RV.Boundary RV.TreeArr

section arr
variable {α : Type}

theorem applyLog_append (l1 l2 : List (Nat × Nat)) (i : Nat) :
    applyLog (l1 ++ l2) i = applyLog l2 (applyLog l1 i) := by
  simp [applyLog, List.foldl_append]

theorem applyLog_single (a b i : Nat) : applyLog [(a, b)] i = if i = a then b else i := by
  simp [applyLog]

/-- what `N--; particles[c] = particles[N]` leaves at slot `j` -/
theorem swapRemove_getElem? (l : List α) (c j : Nat) (hc : c < l.length) (hj : j < l.length - 1) :
    (swapRemove l c)[j]? = if j = c then l[l.length - 1]? else l[j]? := by
  unfold swapRemove
  cases hl : l.getLast? with
  | none => simp [List.getLast?_eq_none_iff] at hl; subst hl; simp at hc
  | some last =>
    have hne : l ≠ [] := by intro e; subst e; simp at hc
    have hlast : l[l.length - 1]? = some last := by
      rw [← hl, List.getLast?_eq_getElem?]
    rw [List.getElem?_set]
    by_cases e : c = j
    · subst e
      simp [hj, hlast]
    · have e' : ¬ j = c := fun h => e h.symm
      simp [e, e', List.getElem?_dropLast, hj]


/-- one eviction, named by the index the particle had when the walk began -/
def evStep (flagged : α → Bool) (st : St α) (p0 : Nat) : St α :=
  match st.arr[applyLog st.log p0]? with
  | some p => evict flagged st (applyLog st.log p0) p
  | none => st

/-- state after evicting the particles with original indices `E`, in this order -/
def evState (flagged : α → Bool) (arr0 : List α) (E : List Nat) : St α :=
  E.foldl (evStep flagged) ⟨arr0, [], []⟩

theorem evState_snoc (flagged : α → Bool) (arr0 : List α) (E : List Nat) (e : Nat) :
    evState flagged arr0 (E ++ [e]) = evStep flagged (evState flagged arr0 E) e := by
  simp [evState, List.foldl_append]

theorem evState_append (flagged : α → Bool) (arr0 : List α) (E F : List Nat) :
    evState flagged arr0 (E ++ F) = F.foldl (evStep flagged) (evState flagged arr0 E) := by
  simp [evState, List.foldl_append]

/-- the invariant of the renumbering: every particle not yet evicted is found at its logged index -/
structure ArrInv (flagged : α → Bool) (arr0 : List α) (E : List Nat) (st : St α) : Prop where
  len : st.arr.length + E.length = arr0.length
  get : ∀ i, i < arr0.length → i ∉ E →
    applyLog st.log i < st.arr.length ∧ st.arr[applyLog st.log i]? = arr0[i]?
  inj : ∀ i j, i < arr0.length → j < arr0.length → i ∉ E → j ∉ E →
    applyLog st.log i = applyLog st.log j → i = j
  ev : st.ev = (E.filterMap fun e => arr0[e]?).filter (fun p => !flagged p)
  perm : List.Perm (st.arr ++ E.filterMap fun e => arr0[e]?) arr0

theorem ArrInv_nil (flagged : α → Bool) (arr0 : List α) : ArrInv flagged arr0 [] ⟨arr0, [], []⟩ :=
  { len := by simp
    get := by intro i hi _; simp [applyLog, hi]
    inj := by intro i j _ _ _ _ h; simpa [applyLog] using h
    ev := by simp
    perm := by simp }

theorem ArrInv_step (flagged : α → Bool) (arr0 : List α) (E : List Nat) (st : St α)
    (h : ArrInv flagged arr0 E st) (e : Nat) (he : e < arr0.length) (hne : e ∉ E) :
    ArrInv flagged arr0 (E ++ [e]) (evStep flagged st e) := by
  obtain ⟨hcur, hget⟩ := h.get e he hne
  have hp : arr0[e]? = some arr0[e] := List.getElem?_eq_getElem he
  rw [hp] at hget
  set cur := applyLog st.log e with hcurdef
  have hstep : evStep flagged st e = evict flagged st cur arr0[e] := by
    simp [evStep, ← hcurdef, hget]
  rw [hstep]
  have hlen' : (swapRemove st.arr cur).length = st.arr.length - 1 := swapRemove_length _ _ hcur
  have hnew : ∀ i, applyLog (st.log ++ [((st.arr.length - 1), cur)]) i = if applyLog st.log i = (st.arr.length - 1) then cur else applyLog st.log i := by
    intro i; rw [applyLog_append, applyLog_single]
  refine { len := ?_, get := ?_, inj := ?_, ev := ?_, perm := ?_ }
  · simp only [evict, hlen', List.length_append, List.length_singleton]
    have := h.len; omega
  · intro i hi hni
    simp only [List.mem_append, List.mem_singleton, not_or] at hni
    obtain ⟨hr, hgi⟩ := h.get i hi hni.1
    have hrc : applyLog st.log i ≠ cur := fun hh => hni.2 (h.inj i e hi he hni.1 hne hh)
    simp only [evict, hnew, hlen']
    by_cases hrl : applyLog st.log i = (st.arr.length - 1)
    · simp only [hrl, if_true]
      have hcl : cur < (st.arr.length - 1) := by omega
      refine ⟨hcl, ?_⟩
      rw [swapRemove_getElem? _ _ _ hcur hcl]
      simp only [if_true]
      rw [← hgi, hrl]
    · simp only [hrl, if_false]
      have hrl' : applyLog st.log i < (st.arr.length - 1) := by omega
      refine ⟨hrl', ?_⟩
      rw [swapRemove_getElem? _ _ _ hcur hrl']
      simp only [hrc, if_false]
      exact hgi
  · intro i j hi hj hni hnj hij
    simp only [List.mem_append, List.mem_singleton, not_or] at hni hnj
    have hic : applyLog st.log i ≠ cur := fun hh => hni.2 (h.inj i e hi he hni.1 hne hh)
    have hjc : applyLog st.log j ≠ cur := fun hh => hnj.2 (h.inj j e hj he hnj.1 hne hh)
    simp only [evict, hnew] at hij
    apply h.inj i j hi hj hni.1 hnj.1
    by_cases h1 : applyLog st.log i = (st.arr.length - 1) <;> by_cases h2 : applyLog st.log j = (st.arr.length - 1)
    · rw [h1, h2]
    · simp only [h1, h2, if_true, if_false] at hij; exact absurd hij.symm hjc
    · simp only [h1, h2, if_true, if_false] at hij; exact absurd hij hic
    · simp only [h1, h2, if_false] at hij; exact hij
  · simp only [evict, h.ev, List.filterMap_append, List.filterMap_cons, List.filterMap_nil, hp, List.filter_append]
    by_cases hf : flagged arr0[e] = true
    · simp [hf]
    · simp [hf]
  · simp only [evict, List.filterMap_append, List.filterMap_cons, List.filterMap_nil, hp]
    have h1 : List.Perm (swapRemove st.arr cur ++ [arr0[e]]) st.arr := by
      have hsp := swapRemove_perm st.arr cur hcur
      have hget' : st.arr[cur] = arr0[e] := by
        have := List.getElem?_eq_getElem hcur
        rw [this] at hget
        exact Option.some.inj hget
      refine (List.Perm.append_right _ hsp).trans ?_
      rw [← hget']
      have := List.eraseIdx_eq_take_drop_succ st.arr cur
      rw [this]
      have hsplit : st.arr = st.arr.take cur ++ st.arr[cur] :: st.arr.drop (cur + 1) := by
        rw [← List.drop_eq_getElem_cons hcur, List.take_append_drop]
      conv_rhs => rw [hsplit]
      rw [List.append_assoc]
      apply List.Perm.append_left
      exact (List.perm_append_singleton _ _)
    refine List.Perm.trans ?_ h.perm
    rw [← List.append_assoc]
    refine List.Perm.trans ?_ (List.Perm.append_right _ h1)
    simp only [List.append_assoc]
    apply List.Perm.append_left
    exact List.perm_append_comm

theorem ArrInv_foldl (flagged : α → Bool) (arr0 : List α) : ∀ (F E : List Nat) (st : St α),
    ArrInv flagged arr0 E st → (E ++ F).Nodup → (∀ e ∈ F, e < arr0.length) →
    ArrInv flagged arr0 (E ++ F) (F.foldl (evStep flagged) st) := by
  intro F
  induction F with
  | nil => intro E st h _ _; simpa using h
  | cons f F ih =>
    intro E st h hn hb
    have hnf : f ∉ E := by
      intro hm
      have := List.nodup_append.mp hn
      exact this.2.2 f hm f (by simp) rfl
    have h1 := ArrInv_step flagged arr0 E st h f (hb f (by simp)) hnf
    have := ih (E ++ [f]) _ h1 (by simpa [List.append_assoc] using hn) (fun e he => hb e (by simp [he]))
    simpa [List.append_assoc] using this

theorem ArrInv_evState (flagged : α → Bool) (arr0 : List α) (E : List Nat)
    (hn : E.Nodup) (hb : ∀ e ∈ E, e < arr0.length) : ArrInv flagged arr0 E (evState flagged arr0 E) := by
  have := ArrInv_foldl flagged arr0 E [] _ (ArrInv_nil flagged arr0) (by simpa using hn) hb
  simpa [evState] using this

end arr
end RV.C15
