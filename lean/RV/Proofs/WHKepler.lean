import RV.Proofs.WHSteps
import RV.Proofs.Kepler
/-
  The f-g update of RV/Model/Kepler.lean (reb_whfast_kepler_solver, lines 297-308) preserves
  `x × v` of the body it advances — re-derived here from the helper lemmas of
  RV/Proofs/Kepler.lean (the statement is C03's `c03_fg_angular_momentum`; importing the lemma file
  rather than RV/Props/C03.lean keeps this check independent of edits to that property file).
-/
set_option linter.unusedTactic false
set_option linter.unusedVariables false
namespace RV.WH
open RV RV.Kepler
set_option linter.unusedSectionVars false
variable {K : Type} [Field K]

theorem fg_wronskian' {M dt r0 X : K} {p : P6 K} {g : Cs3 K}
    (h : KeplerStep M dt r0 X p g) (rne : newR M r0 p g ≠ 0) :
    let c := fgCoeffs M (1 / r0) (1 / newR M r0 p g) dt g.c1 g.c2 g.c3
    (1 + c.f) * (1 + c.gd) - c.g * c.fd = 1 := by
  obtain ⟨hr0, r0ne, ⟨h0, h1, h2⟩, hk⟩ := h
  obtain ⟨e1, e2, e3, e4⟩ := invariants_eq M r0 p
  obtain ⟨c1, c2, c3, c4⟩ := fgCoeffs_eq M r0 (newR M r0 p g) dt g.c1 g.c2 g.c3
  intro c
  rw [c1, c2, c3, c4]
  rw [e2] at h0 h1; rw [e3, e4] at hk
  exact fg_wronskian_sc r0 _ (xv p) _ M X dt g.c0 g.c1 g.c2 g.c3 h0 h1 h2 hk
    (by simp only [newR, e3, e4]) r0ne rne

theorem fg_angular_momentum' {M dt r0 X : K} {p : P6 K} {g : Cs3 K}
    (h : KeplerStep M dt r0 X p g) (rne : newR M r0 p g ≠ 0) :
    let q := fgUpdate M (1 / r0) (1 / newR M r0 p g) dt g.c1 g.c2 g.c3 p
    Lx q = Lx p ∧ Ly q = Ly p ∧ Lz q = Lz p := by
  have hw := fg_wronskian' h rne
  obtain ⟨l1, l2, l3⟩ := fgApply_L (fgCoeffs M (1 / r0) (1 / newR M r0 p g) dt g.c1 g.c2 g.c3) p
  simp only [fgUpdate] at *
  rw [l1, l2, l3, hw]
  simp

end RV.WH
