import RV.Proofs.Field
import RV.Model.Transform
/- helper lemmas for RV/Props/C12.lean -/
set_option linter.unusedTactic false
set_option linter.unreachableTactic false
set_option linter.unnecessarySeqFocus false
set_option linter.unusedVariables false
set_option linter.unusedSimpArgs false
namespace RV.Transform
open RV
variable {K : Type} [Field K]

/-- every running mass sum the C code divides by is non-zero -/
def SumsNZ : K → List (K × K) → Prop
  | eta, [] => eta ≠ 0
  | eta, (m, _) :: r => eta ≠ 0 ∧ SumsNZ (eta + m) r

def msum (l : List (K × K)) : K := (l.map (fun p => p.1)).sum
def mxsum (l : List (K × K)) : K := (l.map (fun p => p.1 * p.2)).sum

theorem sumsNZ_head {eta : K} {l : List (K × K)} (h : SumsNZ eta l) : eta ≠ 0 := by
  cases l with
  | nil => exact h
  | cons a r => obtain ⟨m, x⟩ := a; exact h.1

theorem jacInvAct_append (eta s : K) (l1 l2 : List (K × K)) :
    jacInvAct eta s (l1 ++ l2) =
      (let r1 := jacInvAct eta s l1
       let r2 := jacInvAct r1.2.1 r1.2.2 l2
       (r1.1 ++ r2.1, r2.2.1, r2.2.2)) := by
  induction l1 generalizing eta s with
  | nil => simp [jacInvAct]
  | cons a r ih =>
    obtain ⟨m, x⟩ := a
    simp only [List.cons_append, jacInvAct, ih]

theorem jacFwdAct_length (eta s : K) (act : List (K × K)) :
    (jacFwdAct eta s act).1.length = act.length := by
  induction act generalizing eta s with
  | nil => simp [jacFwdAct]
  | cons a r ih => obtain ⟨m, x⟩ := a; simp [jacFwdAct, ih]

/-- final state of the forward loop: total mass and mass-weighted sum -/
theorem jacFwdAct_final (eta s : K) (act : List (K × K)) (h : SumsNZ eta act) :
    (jacFwdAct eta s act).2.1 = eta + msum act ∧
    (jacFwdAct eta s act).2.2 = (s + mxsum act) + (msum act) * (s / eta) - (msum act) * (s/eta) ∧
    SumsNZ ((jacFwdAct eta s act).2.1) [] := by
  induction act generalizing eta s with
  | nil => simp [jacFwdAct, msum, mxsum, SumsNZ]; exact h
  | cons a r ih =>
    obtain ⟨m, x⟩ := a
    obtain ⟨h0, hr⟩ := h
    have := ih (eta + m) (s * ((eta + m) * (1 / eta)) + m * (x - s * (1 / eta))) hr
    obtain ⟨e1, e2, e3⟩ := this
    refine ⟨?_, ?_, ?_⟩
    · simp only [jacFwdAct, sc_one, sc_hadd, sc_hsub, sc_hmul, sc_hdiv]
      rw [e1]; simp [msum]; ring
    · simp only [jacFwdAct, sc_one, sc_hadd, sc_hsub, sc_hmul, sc_hdiv]
      rw [e2]; simp [msum, mxsum]; field_simp; ring
    · simpa only [jacFwdAct, sc_one, sc_hadd, sc_hsub, sc_hmul, sc_hdiv] using e3

/-- the reverse loop undoes the forward loop, for every number of active particles -/
theorem jac_act_roundtrip (eta s : K) (act : List (K × K)) (h : SumsNZ eta act) :
    jacInvAct (jacFwdAct eta s act).2.1 (jacFwdAct eta s act).2.2
        (((act.map Prod.fst).zip (jacFwdAct eta s act).1).reverse)
      = ((act.map Prod.snd).reverse, eta, s) := by
  induction act generalizing eta s with
  | nil => simp [jacFwdAct, jacInvAct]
  | cons a r ih =>
    obtain ⟨m, x⟩ := a
    obtain ⟨h0, hr⟩ := h
    have h1 : eta + m ≠ 0 := sumsNZ_head hr
    have := ih (eta + m) (s * ((eta + m) * (1 / eta)) + m * (x - s * (1 / eta))) hr
    simp only [jacFwdAct, sc_one, sc_hadd, sc_hsub, sc_hmul, sc_hdiv, List.map_cons,
      List.zip_cons_cons, List.reverse_cons, jacInvAct_append, this, jacInvAct]
    refine Prod.ext ?_ (Prod.ext ?_ ?_)
    · simp <;> field_simp <;> ring
    · simp
    · simp <;> field_simp <;> ring

theorem zip_map_fst (l : List (K × K)) (f : K × K → K) :
    (l.map Prod.fst).zip (l.map f) = l.map (fun p => (p.1, f p)) := by
  induction l with
  | nil => rfl
  | cons a r ih => simp [ih]

theorem zip_sub_add (l : List (K × K)) (c : K) :
    ((l.map Prod.fst).zip (l.map (fun p => p.2 - c))).map (fun p => (p.1, p.2 + c)) = l := by
  induction l with
  | nil => rfl
  | cons a r ih => simp [ih]

theorem comAcc_eq (xs ms : K) (l : List (K × K)) :
    comAcc xs ms l = (xs + mxsum l, ms + msum l) := by
  induction l generalizing xs ms with
  | nil => simp [comAcc, mxsum, msum]
  | cons a r ih =>
    obtain ⟨m, x⟩ := a
    simp only [comAcc, sc_hadd, sc_hmul, ih]
    simp [mxsum, msum]; constructor <;> ring


theorem dhSum_eq (mt a : K) (l : List (K × K)) :
    dhSum mt a l = a + mxsum l / mt := by
  induction l generalizing a with
  | nil => simp [dhSum, mxsum]
  | cons p r ih =>
    obtain ⟨m, q⟩ := p
    simp only [dhSum, sc_hadd, sc_hmul, sc_hdiv, ih]
    simp [mxsum]; ring


theorem mxsum_shift (l : List (K × K)) (c : K) :
    mxsum (l.map (fun p => (p.1, p.2 - c))) = mxsum l - c * msum l := by
  induction l with
  | nil => simp [mxsum, msum]
  | cons p r ih =>
    simp only [mxsum, msum, List.map_cons, List.sum_cons, List.map_map] at *
    rw [ih]; ring


theorem whdsSum_eq (m0 a : K) (l : List (K × K)) :
    whdsSum m0 a l = a + (l.map (fun p => p.2 * p.1 / (m0 + p.1))).sum := by
  induction l generalizing a with
  | nil => simp [whdsSum]
  | cons p r ih =>
    obtain ⟨m, q⟩ := p
    simp only [whdsSum, sc_hadd, sc_hmul, sc_hdiv, ih]
    simp; ring


theorem baryAcc_eq (sx sm : K) (l : List (K × K)) :
    baryAcc sx sm l = (sx + mxsum l, sm + msum l) := by
  induction l generalizing sx sm with
  | nil => simp [baryAcc, mxsum, msum]
  | cons a r ih =>
    obtain ⟨m, x⟩ := a
    simp only [baryAcc, sc_hadd, sc_hmul, ih]
    simp [mxsum, msum]; constructor <;> ring


/-- every `m0 + m_i` the WHDS code divides by is non-zero -/
def WhdsNZ (m0 : K) (act : List (K × K)) : Prop := ∀ p ∈ act, m0 + p.1 ≠ 0



theorem whds_sum_key (m0 V : K) (act : List (K × K)) (h0 : m0 ≠ 0) (hw : WhdsNZ m0 act) :
    ((act.map (fun p => (p.1, (m0 + p.1) / m0 * (p.2 - V)))).map
        (fun p => p.2 * p.1 / (m0 + p.1))).sum = (mxsum act - V * msum act) / m0 := by
  induction act with
  | nil => simp [mxsum, msum]
  | cons p r ih =>
    have hp : m0 + p.1 ≠ 0 := hw p (List.mem_cons_self)
    have hr : WhdsNZ m0 r := fun q hq => hw q (List.mem_cons_of_mem _ hq)
    simp only [List.map_cons, List.sum_cons, mxsum, msum] at *
    rw [ih hr]; field_simp; ring


theorem msum_map_snd (l : List (K × K)) (f : K × K → K) :
    msum (l.map (fun p => (p.1, f p))) = msum l := by
  simp [msum, List.map_map, Function.comp_def]

theorem hybAcc_eq (c mt : K) (l : List (K × K)) :
    hybAcc c mt l = (c + mxsum l, mt + msum l) := by
  induction l generalizing c mt with
  | nil => simp [hybAcc, mxsum, msum]
  | cons a r ih =>
    obtain ⟨m, x⟩ := a
    simp only [hybAcc, sc_hadd, sc_hmul, ih]
    simp [mxsum, msum]; constructor <;> ring

end RV.Transform
