import RV.Proofs.C01Whfast
/- C01 / WHFast: advertised generalised orders, Jacobi coordinates -/
namespace RV.C01.Whfast
open RV.C01 RV.C01.Gen RV.C01.Adv

/-- the same in barycentric coordinates (default kernel) -/
theorem order_barycentric : ∀ corr ∈ [0, 3, 5, 7, 11, 17], ∀ s ∈ stepOf (3, 0, corr, 0),
    Quadrature s ((whfast 0 corr).getD 1 0) tolWH ∧ WordOrder s (whfastWords 0 corr) κWH tolWH := by
  decide +kernel

/-- democratic heliocentric and WHDS coordinates: second order in the three-way splitting drift / jump / kick -/
theorem order_heliocentric : ∀ coord ∈ [1, 2], ∀ s ∈ stepOf (coord, 0, 0, 0), Quadrature s 2 tolWH ∧ Palindrome s := by
  decide +kernel

/-- F18 again: with the second corrector switched on the words with two `B`s still agree up to length 3, but no longer at
    length 4 for the kernels that achieve it without -/
theorem order_with_corrector2 : ∀ kern ∈ [1, 2, 3], ∀ corr ∈ [3, 17], ∀ s ∈ stepOf (0, kern, corr, 1),
    WordOrder s [4, 4, 3] κWH tolWH ∧ (whCorr2IsInverse = false → ¬ WordOrder s [4, 4, 4] κWH (1/1000)) ∧
    (whCorr2IsInverse = true → WordOrder s [4, 4, 4] κWH tolWH) := by
  decide +kernel
end RV.C01.Whfast
