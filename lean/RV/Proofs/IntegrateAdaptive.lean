import RV.Proofs.Integrate
/-
  C08, adaptive integrators with exact_finish_time = 1: the LAST_STEP / RUNNING state machine
  terminates and ends inside the 1e-12 window with a full step size restored.
-/
set_option linter.unusedSectionVars false
set_option linter.unusedVariables false
set_option linter.unusedSimpArgs false
set_option linter.unnecessarySimpa false
set_option linter.unusedTactic false
set_option linter.unreachableTactic false
namespace RV.Integrate
open RV
variable {K : Type} [Field K] [LinearOrder K] [IsStrictOrderedRing K]

/-- what the state machine needs to know about an adaptive integrator running in direction `sg`:
    called with a step of size at most `B` pointing in direction `sg`, it proposes a next step in the
    same direction and either rejects the whole step (`t`, `dt_last_done` untouched, proposal at
    least `δ` — only the first `R` calls may do that) or advances time by `dt_last_done`, which points in
    direction `sg`, is no longer than the step it was called with (IAS15 retries inside the step with
    smaller steps) and is at least `δ` long unless it is the complete step it was asked to do; the
    proposal is at least `δ` (min_dt) unless the step just completed was itself a requested step shorter
    than `δ` (IAS15 limits the growth to four times the step just done, so after a last step cut to
    fit `tmax` the proposal may stay below `min_dt`). -/
def IsAdaptive (step : StepFn K) (sg δ : K) (R : Nat) (B : K) : Prop :=
  ∀ k t dt dld, 0 < dt * sg → dt * sg ≤ B →
    0 < (step k t dt dld).dt * sg ∧
    ((k < R ∧ (step k t dt dld).t = t ∧ (step k t dt dld).dld = dld ∧ δ ≤ (step k t dt dld).dt * sg) ∨
     ((step k t dt dld).t = t + (step k t dt dld).dld ∧ 0 < (step k t dt dld).dld * sg ∧
      (step k t dt dld).dld * sg ≤ dt * sg ∧
      (δ ≤ (step k t dt dld).dld * sg ∨ (step k t dt dld).dld = dt) ∧
      (δ ≤ (step k t dt dld).dt * sg ∨ ((step k t dt dld).dld = dt ∧ dt * sg < δ))))

/-- invariant when `reb_check_exit` is entered -/
structure AInv (tmax sg δ : K) (s : Sim K) (lf : K) : Prop where
  st : s.status = -1 ∨ s.status = -2
  ex : s.exactFinish = 1
  pos : 0 < s.dt * sg
  dt : δ ≤ s.dt * sg ∨ s.t = tmax
  rem : 0 ≤ (tmax - s.t) * sg
  run : s.status = -1 → 0 < (tmax - s.t) * sg
  dld : s.dtLastDone = 0 ∨ δ ≤ s.dtLastDone * sg ∨ s.t = tmax
  lf : δ ≤ lf * sg

/-- invariant when the step is called -/
structure BInv (tmax sg δ : K) (s : Sim K) (lf : K) : Prop where
  st : s.status = -1 ∨ s.status = -2
  ex : s.exactFinish = 1
  pos : 0 < s.dt * sg
  kind : (s.dt * sg < (tmax - s.t) * sg ∧ δ ≤ s.dt * sg) ∨ (s.status = -2 ∧ s.dt = tmax - s.t)
  run : s.status = -1 → s.dt * sg < (tmax - s.t) * sg
  dld : s.dtLastDone = 0 ∨ δ ≤ s.dtLastDone * sg
  lf : δ ≤ lf * sg

/-- a step recorded in the history of a run towards `tmax`: never against the direction of
    integration, never past `tmax` -/
def MonoBeat (tmax sg : K) (b : Beat K) : Prop := b.t0 * sg ≤ b.t1 * sg ∧ b.t1 * sg ≤ tmax * sg

theorem eq_of_mul_dir_zero {a sg : K} (hsg : sg = 1 ∨ sg = -1) (h : a * sg = 0) : a = 0 := by
  rcases hsg with rfl | rfl <;> simpa using h

/-- `reb_check_exit` under the invariant: either SUCCESS inside the window, or on to the next step -/
theorem check_adaptive (tmax sg δ : K) (hsg : sg = 1 ∨ sg = -1) (hδ : 0 < δ) (s : Sim K) (lf : K)
    (f : Flags) (hf : f.Clear) (inv : AInv tmax sg δ s lf) :
    (∃ s', checkExit s tmax false lf f = .ret s' lf ∧ s'.status = 0 ∧
        (s'.t = tmax ∨ |s'.t - tmax| < tscale tmax) ∧ s'.hist = s.hist ∧ s'.exactFinish = 1) ∨
    (∃ s1 lf1, checkExit s tmax false lf f = .ret s1 lf1 ∧ BInv tmax sg δ s1 lf1 ∧ s1.t = s.t ∧
        s1.hist = s.hist ∧ s1.dtLastDone = s.dtLastDone) := by
  have hc : copysign 1 s.dt = sg := copysign_one_dir hsg inv.pos
  rw [checkExit_run s tmax lf f inv.st hf.1.2.2.2.2.2.1 hf.1.2.2.2.2.2.2]
  simp only [inv.ex, if_true, hc]
  by_cases hnear : tmax * sg ≤ (s.t + s.dt) * sg
  · simp only [hnear, if_true]
    by_cases ht : s.t = tmax
    · left
      simp only [ht, if_true]
      exact ⟨_, rfl, rfl, Or.inl rfl, rfl, (by first | rfl | exact inv.ex)⟩
    · simp only [ht, if_false]
      have hrem : 0 < (tmax - s.t) * sg := by
        rcases lt_or_eq_of_le inv.rem with h | h
        · exact h
        · exfalso; apply ht
          have := eq_of_mul_dir_zero hsg h.symm
          linarith
      rcases inv.st with hst | hst
      · -- RUNNING -> LAST_STEP
        right
        have h2 : ¬ s.status = -2 := by rw [hst]; norm_num
        simp only [h2, if_false]
        refine ⟨_, _, rfl, ?_, rfl, rfl, rfl⟩
        refine ⟨Or.inr rfl, (by first | rfl | exact inv.ex), hrem, Or.inr ⟨rfl, rfl⟩, ?_, ?_, ?_⟩
        · intro h; norm_num at h
        · rcases inv.dld with h | h | h
          · exact Or.inl h
          · exact Or.inr h
          · exact absurd h ht
        · by_cases h0 : s.dtLastDone = 0
          · simp [h0]; exact inv.lf
          · simp only [ne_eq, h0, not_false_eq_true, if_true]
            rcases inv.dld with h | h | h
            · exact absurd h h0
            · exact h
            · exact absurd h ht
      · -- already LAST_STEP
        simp only [hst, if_true]
        by_cases hw : |s.t - tmax| < tscale tmax
        · left
          simp only [hw, if_true]
          exact ⟨_, rfl, rfl, Or.inr hw, rfl, (by first | rfl | exact inv.ex)⟩
        · right
          simp only [hw, if_false]
          refine ⟨_, _, rfl, ?_, rfl, rfl, rfl⟩
          refine ⟨Or.inr rfl, (by first | rfl | exact inv.ex), hrem, Or.inr ⟨rfl, rfl⟩, ?_, ?_, inv.lf⟩
          · intro h; norm_num at h
          · rcases inv.dld with h | h | h
            · exact Or.inl h
            · exact Or.inr h
            · exact absurd h ht
  · simp only [hnear, if_false]
    right
    have hfar : s.dt * sg < (tmax - s.t) * sg := by
      have := not_le.mp hnear; nlinarith
    have hpos : 0 < s.dt * sg := inv.pos
    have hne : s.t ≠ tmax := by
      intro h; rw [h] at hfar; simp at hfar; linarith
    have hdtδ : δ ≤ s.dt * sg := by
      rcases inv.dt with h | h
      · exact h
      · exact absurd h hne
    have hdld : s.dtLastDone = 0 ∨ δ ≤ s.dtLastDone * sg := by
      rcases inv.dld with h | h | h
      · exact Or.inl h
      · exact Or.inr h
      · exact absurd h hne
    rcases inv.st with hst | hst
    · have h2 : ¬ s.status = -2 := by rw [hst]; norm_num
      simp only [h2, if_false]
      exact ⟨_, _, rfl, ⟨Or.inl hst, (by first | rfl | exact inv.ex), hpos, Or.inl ⟨hfar, hdtδ⟩, fun _ => hfar, hdld, inv.lf⟩, rfl, rfl, rfl⟩
    · simp only [hst, if_true]
      exact ⟨_, _, rfl, ⟨Or.inl rfl, (by first | rfl | exact inv.ex), hpos, Or.inl ⟨hfar, hdtδ⟩, fun _ => hfar, hdld, inv.lf⟩, rfl, rfl, rfl⟩

/-- one step under the invariant: the invariant is re-established and the potential
    `N + (R − k)` drops (`N·δ` bounds the remaining distance, `R − k` the rejections still allowed) -/
theorem step_adaptive (step : StepFn K) (tmax sg δ : K) (R : Nat) (hsg : sg = 1 ∨ sg = -1)
    (hδ : 0 < δ) (B : K) (had : IsAdaptive step sg δ R B) (k : Nat) (s1 : Sim K) (lf1 : K) (N : Nat)
    (b : BInv tmax sg δ s1 lf1) (hN : (tmax - s1.t) * sg ≤ N * δ) (hB : (tmax - s1.t) * sg ≤ B) :
    ∃ N' : Nat, AInv tmax sg δ (stepped step k s1) lf1 ∧
      (tmax - (stepped step k s1).t) * sg ≤ N' * δ ∧ N' + (R - (k + 1)) + 1 ≤ N + (R - k) ∧
      (tmax - (stepped step k s1).t) * sg ≤ B ∧
      MonoBeat tmax sg ⟨s1.t, s1.dt, (stepped step k s1).t, (stepped step k s1).dt,
        (stepped step k s1).dtLastDone, s1.status⟩ := by
  have hle : s1.dt * sg ≤ (tmax - s1.t) * sg := by
    rcases b.kind with h | h
    · exact h.1.le
    · rw [h.2]
  obtain ⟨hdt', hcase⟩ := had k s1.t s1.dt s1.dtLastDone b.pos (le_trans hle hB)
  have hrem : 0 < (tmax - s1.t) * sg := lt_of_lt_of_le b.pos hle
  rcases hcase with ⟨hk, ht, hd, hprop⟩ | ⟨ht, hp, hple, hmin, hprop⟩
  · refine ⟨N, ⟨by simpa using b.st, by simpa using b.ex, by simpa using hdt', Or.inl (by simpa using hprop), ?_, ?_, ?_, b.lf⟩, ?_, by omega, ?_, ?_⟩
    · rw [stepped_t, ht]; exact hrem.le
    · intro h; rw [stepped_t, ht]; exact hrem
    · rw [stepped_dld, hd]
      rcases b.dld with h | h
      · exact Or.inl h
      · exact Or.inr (Or.inl h)
    · rw [stepped_t, ht]; exact hN
    · rw [stepped_t, ht]; exact hB
    · simp only [MonoBeat, stepped_t, ht]
      exact ⟨le_refl _, by nlinarith⟩
  · have hN1 : 1 ≤ N := by
      by_contra h
      have : N = 0 := by omega
      rw [this] at hN; simp at hN; linarith
    have hcast : ((N - 1 : ℕ) : K) = (N : K) - 1 := by rw [Nat.cast_sub hN1]; simp
    have hδp : δ ≤ (step k s1.t s1.dt s1.dtLastDone).dld * sg ∨
        ((step k s1.t s1.dt s1.dtLastDone).dld = s1.dt ∧ s1.dt = tmax - s1.t) := by
      rcases hmin with h | h
      · exact Or.inl h
      · rcases b.kind with hk | hk
        · left; rw [h]; exact hk.2
        · right; exact ⟨h, hk.2⟩
    have hrem' : 0 ≤ (tmax - (s1.t + (step k s1.t s1.dt s1.dtLastDone).dld)) * sg := by nlinarith
    have hprop' : δ ≤ (stepped step k s1).dt * sg ∨ (stepped step k s1).t = tmax := by
      rcases hprop with h | ⟨h1, h2⟩
      · left; simpa using h
      · right
        rcases b.kind with hk | hk
        · exact absurd hk.2 (not_le.mpr h2)
        · rw [stepped_t, ht, h1, hk.2]; ring
    refine ⟨N - 1, ⟨by simpa using b.st, by simpa using b.ex, by simpa using hdt', hprop', ?_, ?_, ?_, b.lf⟩, ?_, by omega, ?_, ?_⟩
    · rw [stepped_t, ht]; exact hrem'
    · intro h
      rw [stepped_t, ht]
      have := b.run (by simpa using h)
      nlinarith
    · rw [stepped_dld, stepped_t, ht]
      rcases hδp with h | ⟨h1, h2⟩
      · exact Or.inr (Or.inl h)
      · right; right; rw [h1, h2]; ring
    · rw [stepped_t, ht, hcast]
      rcases hδp with h | ⟨h1, h2⟩
      · nlinarith
      · rw [h1, h2]
        have : (0 : K) ≤ ((N : K) - 1) * δ := by
          have : (1 : K) ≤ N := by exact_mod_cast hN1
          nlinarith
        have e : (tmax - (s1.t + (tmax - s1.t))) * sg = 0 := by ring
        rw [e]; exact this
    · rw [stepped_t, ht]; nlinarith
    · simp only [MonoBeat, stepped_t, ht]
      exact ⟨by nlinarith, by nlinarith⟩

/-- the adaptive loop terminates inside the window -/
theorem loop_adaptive (step : StepFn K) (env : Nat → Flags) (henv : ∀ k, (env k).Clear)
    (tmax sg δ : K) (R : Nat) (hsg : sg = 1 ∨ sg = -1) (hδ : 0 < δ) (B : K) (had : IsAdaptive step sg δ R B) :
    ∀ (m N k : Nat) (s : Sim K) (lf : K), AInv tmax sg δ s lf → (tmax - s.t) * sg ≤ N * δ →
      (tmax - s.t) * sg ≤ B → N + (R - k) ≤ m → ∀ fuel, m + 1 ≤ fuel →
      ∃ s' lf', loop step env tmax false fuel k s lf = (.done s', lf') ∧ s'.status = 0 ∧
        (s'.t = tmax ∨ |s'.t - tmax| < tscale tmax) ∧ δ ≤ lf' * sg ∧ s'.exactFinish = 1 ∧
        (∀ b ∈ s'.hist, b ∈ s.hist ∨ MonoBeat tmax sg b) := by
  intro m
  induction m with
  | zero =>
    intro N k s lf inv hN hB hm fuel hfuel
    obtain ⟨f, rfl⟩ : ∃ f, fuel = f + 1 := ⟨fuel - 1, by omega⟩
    rcases check_adaptive tmax sg δ hsg hδ s lf (env k) (henv k) inv with
      ⟨s', hce, h0, hw, hh, hx⟩ | ⟨s1, lf1, hce, b, ht1, hh1, hd1⟩
    · exact ⟨s', lf, loop_of_ret_done step env tmax false f k s s' lf lf hce (by rw [h0]; norm_num),
        h0, hw, inv.lf, hx, fun b hb => Or.inl (hh ▸ hb)⟩
    · obtain ⟨N', _, _, hmeas, _⟩ := step_adaptive step tmax sg δ R hsg hδ B had k s1 lf1 N b (by rw [ht1]; exact hN) (by rw [ht1]; exact hB)
      omega
  | succ m ih =>
    intro N k s lf inv hN hB hm fuel hfuel
    obtain ⟨f, rfl⟩ : ∃ f, fuel = f + 1 := ⟨fuel - 1, by omega⟩
    rcases check_adaptive tmax sg δ hsg hδ s lf (env k) (henv k) inv with
      ⟨s', hce, h0, hw, hh, hx⟩ | ⟨s1, lf1, hce, b, ht1, hh1, hd1⟩
    · exact ⟨s', lf, loop_of_ret_done step env tmax false f k s s' lf lf hce (by rw [h0]; norm_num),
        h0, hw, inv.lf, hx, fun b hb => Or.inl (hh ▸ hb)⟩
    · obtain ⟨N', inv', hN', hmeas, hB', hmono⟩ :=
        step_adaptive step tmax sg δ R hsg hδ B had k s1 lf1 N b (by rw [ht1]; exact hN) (by rw [ht1]; exact hB)
      have hneg : s1.status < 0 := by rcases b.st with h | h <;> rw [h] <;> norm_num
      rw [loop_of_ret_neg step env tmax false f k s s1 lf lf1 hce hneg,
        stepAndBeat_clear step k s1 (env (k + 1)) (henv (k + 1))]
      obtain ⟨s', lf', hl, h0, hw, hlf, hx, hhist⟩ := ih N' (k + 1) (stepped step k s1) lf1 inv' hN' hB' (by omega) f (by omega)
      refine ⟨s', lf', hl, h0, hw, hlf, hx, ?_⟩
      intro b' hb'
      rcases hhist b' hb' with h | h
      · rw [stepped_hist, List.mem_cons] at h
        rcases h with h | h
        · right; rw [h]; exact hmono
        · left; rw [← hh1]; exact h
      · right; exact h

end RV.Integrate
