import RV.Proofs.VarAux
import RV.Gen.C16VarLoops
/- helper lemmas for RV/Props/C16.lean: the kernels translated from gravity.c (RV/Gen/C16VarLoops) equal the hand-written
   kernels of RV/Model/Var.lean at softening 0, and are the ε-parts of the *softened* force kernel for any softening. -/
set_option linter.unusedVariables false
set_option linter.unusedSimpArgs false
set_option linter.unusedSectionVars false
set_option linter.unusedTactic false
namespace RV.Var
open RV RV.Gen.C16VarLoops
variable {K : Type} [Field K] [CharZero K]

omit [CharZero K] in
theorem var1Body_eq_test (sq : K → K) (G s2 : K) (pi pj di dj : GP K) :
    var1Body sq G s2 pi pj di dj = var1TestBody sq G s2 pi pj di dj := rfl

omit [CharZero K] in
theorem var1Body_eq_hand (sq : K → K) (G : K) (pi pj di dj : GP K) :
    var1Body sq G 0 pi pj di dj = var1Pair G sq (pi, di) (pj, dj) := by
  simp only [var1Body, var1Pair, three, sc_one, sc_ofNat, sc_hadd, sc_hsub, sc_hmul, sc_hdiv, sc_hneg, add_zero, Nat.cast_one, Nat.cast_ofNat]

omit [CharZero K] in
theorem tpVar1Body_eq_hand (sq : K → K) (G : K) (pi pj d0 : GP K) :
    tpVar1Body sq G 0 pi pj d0 = tpVar1Term G sq pi.x pi.y pi.z d0.x d0.y d0.z pj := by
  simp only [tpVar1Body, tpVar1Term, three, sc_one, sc_ofNat, sc_hadd, sc_hsub, sc_hmul, sc_hdiv, sc_hneg, add_zero, Nat.cast_one, Nat.cast_ofNat]

omit [CharZero K] in
theorem var2Body_eq_hand (sq : K → K) (G : K) (pi pj : RV2 K) :
    var2Body sq G 0 pi pj = var2Pair G sq pi pj := by
  simp only [var2Body, var2Pair, var2Core, var2Upd, three, fifteen, sc_one, sc_ofNat, sc_hadd, sc_hsub, sc_hmul, sc_hdiv, sc_hneg, add_zero,
    Nat.cast_one, Nat.cast_ofNat]

omit [CharZero K] in
theorem tpVar2Body_eq_hand (sq : K → K) (G : K) (pi pj dd0 da0 db0 : GP K) :
    tpVar2Body sq G 0 pi pj dd0 da0 db0
      = tpVar2Term G sq pi.x pi.y pi.z ⟨dd0.x, dd0.y, dd0.z⟩ ⟨da0.x, da0.y, da0.z⟩ ⟨db0.x, db0.y, db0.z⟩ pj := by
  simp only [tpVar2Body, tpVar2Term, var2Core, three, fifteen, sc_one, sc_ofNat, sc_hadd, sc_hsub, sc_hmul, sc_hdiv, sc_hneg, add_zero,
    Nat.cast_one, Nat.cast_ofNat]

/-- squared distance including softening, and what is needed of `sq` on it -/
def r2soft (s2 : K) (a b : GP K) : K := r2of a b + s2
def PairOKs (sq : K → K) (s2 : K) (a b : GP K) : Prop :=
  sq (r2soft s2 a b) * sq (r2soft s2 a b) = r2soft s2 a b ∧ sq (r2soft s2 a b) ≠ 0

/-- first order with softening: the translated kernel is the ε-part of the softened force kernel -/
theorem var1_pair_soft (G s2 : K) (sq : K → K) (pi pj : RV1 K) (h : PairOKs sq s2 pi.1 pj.1) :
    epsV (forcePair (Dual.const G) (Dual.const s2) (Dual.sqrtLift sq) (dz1 pi) (dz1 pj)).1 = (var1Body sq G s2 pi.1 pj.1 pi.2 pj.2).1 ∧
    epsV (forcePair (Dual.const G) (Dual.const s2) (Dual.sqrtLift sq) (dz1 pi) (dz1 pj)).2 = (var1Body sq G s2 pi.1 pj.1 pi.2 pj.2).2 := by
  obtain ⟨⟨mi, xi, yi, zi⟩, ⟨dmi, dxi, dyi, dzi⟩⟩ := pi
  obtain ⟨⟨mj, xj, yj, zj⟩, ⟨dmj, dxj, dyj, dzj⟩⟩ := pj
  obtain ⟨hs, hne⟩ := h
  have h2 : (2:K) ≠ 0 := by norm_num
  simp only [r2soft, r2of] at hs hne
  simp only [forcePair, var1Body, dz1, epsV, Dual.add_re, Dual.add_eps, Dual.sub_re, Dual.sub_eps,
    Dual.mul_re, Dual.mul_eps, Dual.div_re, Dual.div_eps, Dual.neg_re, Dual.neg_eps,
    Dual.sqrtLift_re, Dual.sqrtLift_eps, Dual.const_re, Dual.const_eps, Dual.zero_re, Dual.zero_eps,
    sc_zero, sc_one, sc_hadd, sc_hsub, sc_hmul, sc_hdiv, sc_hneg, sc_ofNat, add_zero]
  generalize hρ : sq ((xi - xj) * (xi - xj) + (yi - yj) * (yi - yj) + (zi - zj) * (zi - zj) + s2) = ρ at *
  rw [← hs]
  push_cast
  constructor <;> (congr 1 <;> (field_simp; ring))

/-- second order with softening -/
theorem var2_pair_soft (G s2 : K) (sq : K → K) (pi pj : RV2 K) (h : PairOKs sq s2 pi.p pj.p) :
    epsV2 (forcePair (Dual.const (Dual.const G)) (Dual.const (Dual.const s2)) (Dual2.sqrtLift2 sq) (dz2 pi) (dz2 pj)).1
      = (var2Body sq G s2 pi pj).1 ∧
    epsV2 (forcePair (Dual.const (Dual.const G)) (Dual.const (Dual.const s2)) (Dual2.sqrtLift2 sq) (dz2 pi) (dz2 pj)).2
      = (var2Body sq G s2 pi pj).2 := by
  obtain ⟨⟨mi, xi, yi, zi⟩, ⟨mai, xai, yai, zai⟩, ⟨mbi, xbi, ybi, zbi⟩, ⟨mmi, xxi, yyi, zzi⟩⟩ := pi
  obtain ⟨⟨mj, xj, yj, zj⟩, ⟨maj, xaj, yaj, zaj⟩, ⟨mbj, xbj, ybj, zbj⟩, ⟨mmj, xxj, yyj, zzj⟩⟩ := pj
  obtain ⟨hs, hne⟩ := h
  simp only [r2soft, r2of] at hs hne
  have key := prefactD2 G sq
    ((d4 xi xai xbi xxi - d4 xj xaj xbj xxj) * (d4 xi xai xbi xxi - d4 xj xaj xbj xxj)
      + (d4 yi yai ybi yyi - d4 yj yaj ybj yyj) * (d4 yi yai ybi yyi - d4 yj yaj ybj yyj)
      + (d4 zi zai zbi zzi - d4 zj zaj zbj zzj) * (d4 zi zai zbi zzi - d4 zj zaj zbj zzj) + Dual.const (Dual.const s2))
    (by simpa only [d4, Dual.add_re, Dual.sub_re, Dual.mul_re, Dual.const_re, sc_hadd, sc_hsub, sc_hmul] using hne)
  simp only [forcePair, dz2, epsV2]
  simp only at key
  generalize hP : (Dual.const (Dual.const G) : Dual2 K) / _ = P at key ⊢
  obtain ⟨k0, k1, k2, k3⟩ := key
  simp only [d4, Dual.add_re, Dual.add_eps, Dual.sub_re, Dual.sub_eps,
    Dual.mul_re, Dual.mul_eps, Dual.neg_re, Dual.neg_eps, Dual.zero_re, Dual.zero_eps, Dual.const_re, Dual.const_eps,
    sc_zero, sc_hadd, sc_hsub, sc_hmul, sc_hneg, add_zero] at k0 k1 k2 k3 ⊢
  rw [k0, k1, k2, k3]
  simp only [var2Body, sc_zero, sc_one, sc_hadd, sc_hsub, sc_hmul, sc_hdiv, sc_hneg, sc_ofNat]
  generalize hρ : sq ((xi - xj) * (xi - xj) + (yi - yj) * (yi - yj) + (zi - zj) * (zi - zj) + s2) = ρ at *
  rw [← hs]
  push_cast
  generalize xi - xj = dx
  generalize yi - yj = dy
  generalize zi - zj = dz
  generalize xai - xaj = ax
  generalize yai - yaj = ay
  generalize zai - zaj = az
  generalize xbi - xbj = bx
  generalize ybi - ybj = bY
  generalize zbi - zbj = bz
  generalize xxi - xxj = cx
  generalize yyi - yyj = cy
  generalize zzi - zzj = cz
  simp only [div_eq_mul_inv, mul_inv, one_mul]
  constructor <;> (congr 1 <;> ring)

set_option maxRecDepth 8000 in
omit [CharZero K] in
/-- the translated second-order kernel is symmetric under exchange of the pair, for any softening -/
theorem var2Body_symm (G s2 : K) (sq : K → K) (a b : RV2 K) :
    swapK (var2Body sq G s2) a b = var2Body sq G s2 a b := by
  obtain ⟨⟨mi, xi, yi, zi⟩, ⟨mai, xai, yai, zai⟩, ⟨mbi, xbi, ybi, zbi⟩, ⟨mmi, xxi, yyi, zzi⟩⟩ := a
  obtain ⟨⟨mj, xj, yj, zj⟩, ⟨maj, xaj, yaj, zaj⟩, ⟨mbj, xbj, ybj, zbj⟩, ⟨mmj, xxj, yyj, zzj⟩⟩ := b
  simp only [swapK, var2Body, sc_zero, sc_one, sc_hadd, sc_hsub, sc_hmul, sc_hdiv, sc_hneg, sc_ofNat]
  rw [show xj - xi = -(xi - xj) by ring]; generalize xi - xj = d0
  rw [show yj - yi = -(yi - yj) by ring]; generalize yi - yj = d1
  rw [show zj - zi = -(zi - zj) by ring]; generalize zi - zj = d2
  rw [show xaj - xai = -(xai - xaj) by ring]; generalize xai - xaj = d3
  rw [show yaj - yai = -(yai - yaj) by ring]; generalize yai - yaj = d4'
  rw [show zaj - zai = -(zai - zaj) by ring]; generalize zai - zaj = d5
  rw [show xbj - xbi = -(xbi - xbj) by ring]; generalize xbi - xbj = d6
  rw [show ybj - ybi = -(ybi - ybj) by ring]; generalize ybi - ybj = d7
  rw [show zbj - zbi = -(zbi - zbj) by ring]; generalize zbi - zbj = d8
  rw [show xxj - xxi = -(xxi - xxj) by ring]; generalize xxi - xxj = d9
  rw [show yyj - yyi = -(yyi - yyj) by ring]; generalize yyi - yyj = d10
  rw [show zzj - zzi = -(zzi - zzj) by ring]; generalize zzi - zzj = d11
  rw [show -d0 * -d0 + -d1 * -d1 + -d2 * -d2 + s2 = d0 * d0 + d1 * d1 + d2 * d2 + s2 by ring]
  generalize sq (d0 * d0 + d1 * d1 + d2 * d2 + s2) = ρ
  generalize d0 * d0 + d1 * d1 + d2 * d2 + s2 = s
  push_cast
  simp only [div_eq_mul_inv, mul_inv, one_mul]
  refine Prod.ext ?_ ?_ <;> (congr 1 <;> first | ring1 | ring_nf)

end RV.Var
