import RV.Proofs.WHJacobi
import RV.Model.Sched
/-
  The primitives of the Wisdom–Holman family in Jacobi coordinates, acting on a Jacobi state
  (slot 0 = centre of mass, slot i ≥ 1 = Jacobi body i), and what each of them does to
      P_J = M V_0 ,    L_J = Σ_i μ_i X_i × V_i   (slot 0:  M R × V)
  which by `angmom_jacobi` / `momentum_jacobi` are the inertial P and L.
-/
set_option linter.unusedTactic false
set_option linter.unreachableTactic false
set_option linter.unnecessarySeqFocus false
set_option linter.unusedVariables false
set_option linter.unusedSimpArgs false
set_option linter.unusedSectionVars false
namespace RV.WH
open RV RV.Diag
variable {K : Type} [Field K]

/-- Jacobi state: positions and velocities of the `N` Jacobi slots -/
structure JS (K : Type) where
  X : Nat → V3 K
  V : Nat → V3 K

def LJ (N : Nat) (m : Nat → K) (s : JS K) : V3 K :=
  ∑ i ∈ Finset.range N, muJ N m i • V3.cross (s.X i) (s.V i)
def PJ (N : Nat) (m : Nat → K) (s : JS K) : V3 K := muJ N m 0 • s.V 0

/-- `reb_whfast_com_step`: `p_j[0].x += dt * p_j[0].v` -/
def comStep (τ : K) (s : JS K) : JS K :=
  { X := fun i => if i = 0 then s.X 0 + τ • s.V 0 else s.X i, V := s.V }

/-- what the Kepler step is allowed to do: slot 0 untouched, every Jacobi body keeps its own
    `x × v` (the f-g Wronskian, C03) -/
def KeplerLike (N : Nat) (s s' : JS K) : Prop :=
  s'.X 0 = s.X 0 ∧ s'.V 0 = s.V 0 ∧
  ∀ i, 1 ≤ i → i < N → V3.cross (s'.X i) (s'.V i) = V3.cross (s.X i) (s.V i)

/-- `reb_whfast_interaction_step` in Jacobi coordinates: `p_j[i].v += dt * a'_i` for `i ≥ 1`, where
    `a' = inertial_to_jacobi_acc(a)`, plus the radial Jacobi term `c_i · x'_i`; positions and
    slot 0 are not touched.  `x`, `a` = the inertial positions the forces were evaluated at. -/
def InteractionLike (N : Nat) (m : Nat → K) (τ : K) (x a : Nat → V3 K) (c : Nat → K) (s s' : JS K) : Prop :=
  s.X = jacV N m x ∧ s'.X = s.X ∧ s'.V 0 = s.V 0 ∧
  ∀ i, 1 ≤ i → i < N → s'.V i = s.V i + τ • (jacV N m a i + c i • s.X i)

theorem range_split (N : Nat) (hN : 1 ≤ N) (f : Nat → V3 K) :
    ∑ i ∈ Finset.range N, f i = f 0 + ∑ i ∈ Finset.Ico 1 N, f i := by
  rw [Finset.range_eq_Ico, Finset.sum_eq_sum_Ico_succ_bot (by omega : 0 < N)]

theorem com_conserves (N : Nat) (hN : 1 ≤ N) (m : Nat → K) (τ : K) (s : JS K) :
    LJ N m (comStep τ s) = LJ N m s ∧ PJ N m (comStep τ s) = PJ N m s ∧
    (comStep τ s).X 0 = s.X 0 + τ • s.V 0 := by
  refine ⟨?_, rfl, by simp [comStep]⟩
  unfold LJ
  rw [range_split N hN, range_split N hN]
  congr 1
  · simp only [comStep, if_true]
    rw [V3.add_cross, V3.smul_cross, V3.cross_self]; simp
  · apply Finset.sum_congr rfl
    intro i hi
    have : i ≠ 0 := by have := Finset.mem_Ico.mp hi; omega
    simp [comStep, this]

theorem kepler_conserves (N : Nat) (hN : 1 ≤ N) (m : Nat → K) (s s' : JS K) (h : KeplerLike N s s') :
    LJ N m s' = LJ N m s ∧ PJ N m s' = PJ N m s ∧ s'.X 0 = s.X 0 := by
  obtain ⟨h0, h1, h2⟩ := h
  refine ⟨?_, by simp [PJ, h1], h0⟩
  unfold LJ
  rw [range_split N hN, range_split N hN, h0, h1]
  congr 1
  apply Finset.sum_congr rfl
  intro i hi
  have := Finset.mem_Ico.mp hi
  rw [h2 i this.1 this.2]

/-- the interaction step conserves `L_J` and `P_J` whenever the inertial accelerations satisfy
    Newton's third law and carry no net torque (C02: BASIC / COMPENSATED with every particle
    active, any `gravity_ignore_terms`) -/
theorem interaction_conserves (N : Nat) (hN : 1 ≤ N) (m : Nat → K) (heta : ∀ i, i < N → eta m i ≠ 0)
    (τ : K) (x a : Nat → V3 K) (c : Nat → K) (s s' : JS K)
    (h3 : ∑ i ∈ Finset.range N, m i • a i = 0)
    (ht : ∑ i ∈ Finset.range N, m i • V3.cross (x i) (a i) = 0)
    (h : InteractionLike N m τ x a c s s') :
    LJ N m s' = LJ N m s ∧ PJ N m s' = PJ N m s ∧ s'.X 0 = s.X 0 := by
  obtain ⟨hX, hX', hV0, hV⟩ := h
  refine ⟨?_, by simp [PJ, hV0], by rw [hX']⟩
  -- Σ_{i≥1} μ_i X_i × A_i = 0
  have hA0 : jacV N m a 0 = 0 := by
    have := momentum_jacobi N hN m a (heta (N - 1) (by omega))
    rw [h3] at this
    simp only [muJ, if_true] at this
    have hne := heta (N - 1) (by omega)
    have h2 := congrArg (fun v => (1 / eta m (N - 1)) • v) this
    simp only [smul_zero, smul_smul] at h2
    rw [one_div_mul_cancel hne, one_smul] at h2
    exact h2.symm
  have hsum := angmom_jacobi N hN m x a heta
  rw [ht, range_split N hN, hA0, V3.cross_zero, smul_zero, zero_add] at hsum
  unfold LJ
  rw [range_split N hN, range_split N hN, hX', hV0]
  congr 1
  have e : ∀ i ∈ Finset.Ico 1 N, muJ N m i • V3.cross (s.X i) (s'.V i)
      = muJ N m i • V3.cross (s.X i) (s.V i) + τ • (muJ N m i • V3.cross (jacV N m x i) (jacV N m a i)) := by
    intro i hi
    have := Finset.mem_Ico.mp hi
    rw [hV i this.1 this.2, V3.cross_add, V3.cross_smul, V3.cross_add, V3.cross_smul, V3.cross_self, hX]
    simp only [smul_zero, add_zero, smul_add]
    rw [smul_comm]
  rw [Finset.sum_congr rfl e, Finset.sum_add_distrib, ← Finset.smul_sum, ← hsum]
  simp

/-! ### any schedule of these primitives -/

/-- one primitive of a Wisdom–Holman type schedule in Jacobi coordinates -/
inductive Prim (K : Type) where
  | kepler (τ : K) (withCom : Bool)    -- C01 `kind 0`; `withCom` = the `b = 1` flag
  | kick (τ : K)                       -- `kind 1` / `kind 4` (interaction step)
  | force                              -- `kind 2` (force evaluation: does not move the state)

/-- the schedule letters of RV/Model/Sched.lean (C01/C09) read as primitives; `dt` scales the
    rational coefficients.  Jump steps (`kind 3`) do not occur in Jacobi coordinates. -/
def ofOp [CharZero K] (dt : K) (o : RV.C01.Op) : Prim K :=
  if o.kind == 0 then .kepler ((o.a : K) * dt) (o.b == 1)
  else if o.kind == 1 || o.kind == 4 then .kick ((o.a : K) * dt)
  else .force

/-- `s'` is reachable from `s` by executing the schedule, where every Kepler step is *some*
    `KeplerLike` map and every kick is an `InteractionLike` map with conservative forces -/
inductive Runs (N : Nat) (m : Nat → K) : List (Prim K) → JS K → JS K → Prop where
  | nil (s : JS K) : Runs N m [] s s
  | kepler (τ : K) (wc : Bool) (ps : List (Prim K)) (s s1 s' : JS K) :
      KeplerLike N s s1 → Runs N m ps (if wc then comStep τ s1 else s1) s' →
      Runs N m (.kepler τ wc :: ps) s s'
  | kick (τ : K) (ps : List (Prim K)) (x a : Nat → V3 K) (c : Nat → K) (s s1 s' : JS K) :
      (∑ i ∈ Finset.range N, m i • a i = 0) →
      (∑ i ∈ Finset.range N, m i • V3.cross (x i) (a i) = 0) →
      InteractionLike N m τ x a c s s1 → Runs N m ps s1 s' →
      Runs N m (.kick τ :: ps) s s'
  | force (ps : List (Prim K)) (s s' : JS K) : Runs N m ps s s' → Runs N m (.force :: ps) s s'

/-- total centre-of-mass drift time of a schedule -/
def comTime : List (Prim K) → K
  | [] => 0
  | .kepler τ true :: ps => τ + comTime ps
  | _ :: ps => comTime ps

theorem runs_conserve (N : Nat) (hN : 1 ≤ N) (m : Nat → K) (heta : ∀ i, i < N → eta m i ≠ 0)
    (ps : List (Prim K)) (s s' : JS K) (h : Runs N m ps s s') :
    LJ N m s' = LJ N m s ∧ PJ N m s' = PJ N m s ∧ s'.V 0 = s.V 0 ∧
    s'.X 0 = s.X 0 + comTime ps • s.V 0 := by
  induction h with
  | nil s => simp [comTime]
  | kepler τ wc ps s s1 s' hk _ ih =>
    obtain ⟨k1, k2, k3⟩ := kepler_conserves N hN m s s1 hk
    obtain ⟨i1, i2, i3, i4⟩ := ih
    cases wc
    · simp only [Bool.false_eq_true, if_false] at i1 i2 i3 i4
      refine ⟨by rw [i1, k1], by rw [i2, k2], by rw [i3, hk.2.1], ?_⟩
      rw [i4, k3, hk.2.1]; simp [comTime]
    · simp only [if_true] at i1 i2 i3 i4
      obtain ⟨c1, c2, c3⟩ := com_conserves N hN m τ s1
      refine ⟨by rw [i1, c1, k1], by rw [i2, c2, k2], by rw [i3]; simp [comStep, hk.2.1], ?_⟩
      rw [i4, c3, k3]
      simp only [comStep, hk.2.1, comTime, add_smul]
      abel
  | kick τ ps x a c s s1 s' h3 ht hi _ ih =>
    obtain ⟨k1, k2, k3⟩ := interaction_conserves N hN m heta τ x a c s s1 h3 ht hi
    obtain ⟨i1, i2, i3, i4⟩ := ih
    refine ⟨by rw [i1, k1], by rw [i2, k2], by rw [i3, hi.2.2.1], ?_⟩
    rw [i4, k3, hi.2.2.1]; simp [comTime]
  | force ps s s' _ ih =>
    obtain ⟨i1, i2, i3, i4⟩ := ih
    exact ⟨i1, i2, i3, by rw [i4]; simp [comTime]⟩

end RV.WH
