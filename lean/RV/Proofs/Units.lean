import RV.Proofs.Field
import RV.Model.Units
import RV.Gen.C20Units
import Mathlib.Data.Rat.Defs
import Mathlib.Algebra.Order.Field.Rat
import Mathlib.Algebra.Order.AbsoluteValue.Basic
import Mathlib.Tactic.NormNum
/- helper definitions for the unit part of RV/Props/C20.lean -/
set_option linter.unusedTactic false
set_option linter.unusedVariables false
set_option linter.unusedSimpArgs false
namespace RV.Units
open RV

/-- exact instance: any field, the power is the ring power -/
instance exactP {K : Type} [Field K] : ScalarP K where
  toScalar := fieldScalar
  powi a n := a ^ n

@[simp] theorem p_powi {K : Type} [Field K] (a : K) (n : Nat) : ScalarP.powi a n = a ^ n := rfl

/-! ### reading the generated tables -/

/-- value of a table row `(name, numerator, denominator)` -/
def val (e : String × Int × Nat) : ℚ := (e.2.1 : ℚ) / (e.2.2 : ℚ)
def toQ (p : Int × Nat) : ℚ := (p.1 : ℚ) / (p.2 : ℚ)

/-- value of the named unit in a table -/
def lookup (tbl : List (String × Int × Nat)) (n : String) : Option ℚ :=
  (tbl.find? (fun e => e.1 == n)).map val

/-- `x` agrees with the reference `ref` to the relative tolerance `rtol` -/
def Within (x ref rtol : ℚ) : Prop := |x - ref| ≤ rtol * ref
instance (x ref rtol : ℚ) : Decidable (Within x ref rtol) := by unfold Within; infer_instance

/-- every row of `tbl` has a reference row of the same name within its tolerance;
    `scale` multiplies the table value first (`G_SI` for the masses defined as GM/G_SI) -/
def AllWithin (tbl : List (String × Int × Nat)) (scale : ℚ)
    (ref : List (String × (Int × Nat) × (Int × Nat))) : Prop :=
  ∀ e ∈ tbl, ∃ r ∈ ref, r.1 = e.1 ∧ Within (val e * scale) (toQ r.2.1) (toQ r.2.2)
instance (tbl scale ref) : Decidable (AllWithin tbl scale ref) := by unfold AllWithin; infer_instance

def names (tbl : List (String × Int × Nat)) : List String := tbl.map (·.1)
def refNames (ref : List (String × (Int × Nat) × (Int × Nat))) : List String := ref.map (·.1)

/-- 2^-50: four units in the last place of a double -/
def ulp4 : ℚ := 1 / 1125899906842624

end RV.Units
