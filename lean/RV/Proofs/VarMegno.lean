import RV.Proofs.VarAux
/- helper lemmas for RV/Props/C16.lean: the MEGNO running sums and means -/
set_option linter.unusedVariables false
set_option linter.unusedSimpArgs false
set_option linter.unusedSectionVars false
namespace RV.Var
open RV
variable {K : Type} [Field K] [CharZero K]

/-- the values `<Y>(t_i)` that `reb_simulation_megno` would report after each update -/
def megnoValues (isZero : K → Bool) : Megno K → List (K × K × K) → List K
  | _, [] => []
  | s, u :: r =>
    let s' := megnoUpdate isZero s u.1 u.2.1 u.2.2
    megnoOf isZero u.1 s'.Yss :: megnoValues isZero s' r

/-- Σ Y(t_i)·dt_i with Y(t_i) = (Ys₀ + Σ_{j≤i} dY_j)/t_i : the time integral the code accumulates -/
def yIntegral : K → List (K × K × K) → K
  | _, [] => 0
  | ys, u :: r => (ys + u.2.1) / u.1 * u.2.2 + yIntegral (ys + u.2.1) r

theorem megnoRun_spec (isZero : K → Bool) (l : List (K × K × K)) (s : Megno K) :
    let r := megnoRun isZero s l
    r.n = s.n + l.length ∧
    r.Ys = s.Ys + (l.map (fun u => u.2.1)).sum ∧
    r.Yss = s.Yss + yIntegral s.Ys l ∧
    r.meanT * (r.n : K) = s.meanT * (s.n : K) + (l.map (fun u => u.1)).sum ∧
    r.meanY * (r.n : K) = s.meanY * (s.n : K) + (megnoValues isZero s l).sum := by
  induction l generalizing s with
  | nil => simp [megnoRun, megnoValues, yIntegral]
  | cons u r ih =>
    obtain ⟨t, dY, dt⟩ := u
    have hn : ((s.n + 1 : ℕ) : K) ≠ 0 := by exact_mod_cast Nat.succ_ne_zero s.n
    have := ih (megnoUpdate isZero s t dY dt)
    simp only [megnoRun, List.foldl_cons] at this ⊢
    obtain ⟨h1, h2, h3, h4, h5⟩ := this
    refine ⟨?_, ?_, ?_, ?_, ?_⟩
    · rw [h1]; simp [megnoUpdate]; omega
    · rw [h2]; simp [megnoUpdate]; ring
    · rw [h3]; simp [megnoUpdate, yIntegral]; ring
    · rw [h4]; simp only [megnoUpdate, sc_hadd, sc_hsub, sc_hdiv, sc_ofNat, List.map_cons, List.sum_cons]
      field_simp; push_cast; ring
    · rw [h5]; simp only [megnoUpdate, megnoValues, sc_hadd, sc_hsub, sc_hdiv, sc_hmul, sc_ofNat, sc_one, List.sum_cons]
      field_simp; push_cast; ring

/-- one update of `var_t` is Welford's increment `(t−m)(t−m')` times `((n−1)/n)²` -/
theorem megno_var_step (isZero : K → Bool) (s : Megno K) (t dY dt : K) :
    let s' := megnoUpdate isZero s t dY dt
    let n : K := ((s.n + 1 : ℕ) : K)
    s'.var - s.var = ((n - 1) / n) ^ 2 * ((t - s.meanT) * (t - s'.meanT)) ∧
    t - s'.meanT = (n - 1) / n * (t - s.meanT) := by
  have hn : ((s.n + 1 : ℕ) : K) ≠ 0 := by exact_mod_cast Nat.succ_ne_zero s.n
  simp only [megnoUpdate, sc_hadd, sc_hsub, sc_hdiv, sc_hmul, sc_ofNat, sc_one]
  constructor <;> (field_simp; ring)

end RV.Var
