import RV.Proofs.VarDeriv
/- second derivatives, Pal family: generated proofs (scripted, one template), part 2 -/
set_option linter.unusedVariables false
set_option linter.unusedSimpArgs false
set_option linter.unusedSectionVars false
set_option linter.unusedTactic false
set_option linter.unreachableTactic false
namespace RV.Var
open RV RV.Gen.C16Deriv
variable {K : Type} [Field K] [CharZero K]

set_option maxHeartbeats 1600000 in
theorem deriv2_a_ix_is_eps (o : DOps K) (sgn : K → K) (G m M a lam k h ix iy p q : K)
    (hq : 1 - q ≠ 0) (hl : 2 - (1 - o.sqrt (1 - h * h - k * k)) ≠ 0) (hsgn : sgn (4 - ix * ix - iy * iy) = 1) (hiz : o.sqrt (o.fabs (4 - ix * ix - iy * iy)) ≠ 0) (ha : a ≠ 0) (hm : m + M ≠ 0) (hS1 : o.sqrt (G * (m + M) / a) ≠ 0) (hS : o.sqrt (G * (m + M) / a) * o.sqrt (G * (m + M) / a) = G * (m + M) / a) (hS3 : o.sqrt (G * (m + M) / (a * a * a)) = o.sqrt (G * (m + M) / a) / a) :
    d_a_ix o G m M a lam k h ix iy p q
      = epsP72 (palMap (lift2 o sgn) (c2 G) (c2 m) (c2 M) (v1 a) (c2 lam) (c2 k) (c2 h) (v2 ix) (c2 iy)
          ⟨⟨p, 0⟩, ⟨0, 0⟩⟩ ⟨⟨q, 0⟩, ⟨0, 0⟩⟩) := by
  have h2 : (2:K) ≠ 0 := by norm_num
  deriv2_unfold [d_a_ix]
  try rw [hsgn]
  try simp only [hS3]
  generalize o.sin (lam + p) = s at *
  generalize o.cos (lam + p) = cc at *
  generalize o.sqrt (1 - h * h - k * k) = L at *
  generalize o.sqrt (o.fabs (4 - ix * ix - iy * iy)) = iz at *
  generalize G * (m + M) = μ at *
  generalize o.sqrt (μ / a) = S1 at *
  have eμ : μ = S1 * S1 * a := by field_simp at hS ⊢; linear_combination -hS
  subst eμ
  deriv_finish

set_option maxHeartbeats 1600000 in
theorem deriv2_a_iy_is_eps (o : DOps K) (sgn : K → K) (G m M a lam k h ix iy p q : K)
    (hq : 1 - q ≠ 0) (hl : 2 - (1 - o.sqrt (1 - h * h - k * k)) ≠ 0) (hsgn : sgn (4 - ix * ix - iy * iy) = 1) (hiz : o.sqrt (o.fabs (4 - ix * ix - iy * iy)) ≠ 0) (ha : a ≠ 0) (hm : m + M ≠ 0) (hS1 : o.sqrt (G * (m + M) / a) ≠ 0) (hS : o.sqrt (G * (m + M) / a) * o.sqrt (G * (m + M) / a) = G * (m + M) / a) (hS3 : o.sqrt (G * (m + M) / (a * a * a)) = o.sqrt (G * (m + M) / a) / a) :
    d_a_iy o G m M a lam k h ix iy p q
      = epsP72 (palMap (lift2 o sgn) (c2 G) (c2 m) (c2 M) (v1 a) (c2 lam) (c2 k) (c2 h) (c2 ix) (v2 iy)
          ⟨⟨p, 0⟩, ⟨0, 0⟩⟩ ⟨⟨q, 0⟩, ⟨0, 0⟩⟩) := by
  have h2 : (2:K) ≠ 0 := by norm_num
  deriv2_unfold [d_a_iy]
  try rw [hsgn]
  try simp only [hS3]
  generalize o.sin (lam + p) = s at *
  generalize o.cos (lam + p) = cc at *
  generalize o.sqrt (1 - h * h - k * k) = L at *
  generalize o.sqrt (o.fabs (4 - ix * ix - iy * iy)) = iz at *
  generalize G * (m + M) = μ at *
  generalize o.sqrt (μ / a) = S1 at *
  have eμ : μ = S1 * S1 * a := by field_simp at hS ⊢; linear_combination -hS
  subst eμ
  deriv_finish

set_option maxHeartbeats 1600000 in
theorem deriv2_lambda_lambda_is_eps_partial (o : DOps K) (sgn : K → K) (G m M a lam k h ix iy p q : K)
    (hq : 1 - q ≠ 0) (hl : 2 - (1 - o.sqrt (1 - h * h - k * k)) ≠ 0) :
    d_lambda_lambda o G m M a lam k h ix iy p q
      = epsP72 (palMap (lift2 o sgn) (c2 G) (c2 m) (c2 M) (c2 a) (v12 lam) (c2 k) (c2 h) (c2 ix) (c2 iy)
          ⟨⟨p, q / (1 - q)⟩, ⟨q / (1 - q), (pq2_lambda_lambda o G m M a lam k h ix iy p q).1⟩⟩ ⟨⟨q, -p / (1 - q)⟩, ⟨-p / (1 - q), (pq2_lambda_lambda o G m M a lam k h ix iy p q).2⟩⟩) := by
  have h2 : (2:K) ≠ 0 := by norm_num
  deriv2_unfold [d_lambda_lambda, pq2_lambda_lambda]
  generalize o.sin (lam + p) = s at *
  generalize o.cos (lam + p) = cc at *
  generalize o.sqrt (1 - h * h - k * k) = L at *
  generalize o.sqrt (o.fabs (4 - ix * ix - iy * iy)) = iz at *
  generalize o.sqrt (G * (m + M) / a) = S1 at *
  deriv_finish

set_option maxHeartbeats 1600000 in
theorem deriv2_lambda_ix_is_eps_partial (o : DOps K) (sgn : K → K) (G m M a lam k h ix iy p q : K)
    (hq : 1 - q ≠ 0) (hl : 2 - (1 - o.sqrt (1 - h * h - k * k)) ≠ 0) (hsgn : sgn (4 - ix * ix - iy * iy) = 1) (hiz : o.sqrt (o.fabs (4 - ix * ix - iy * iy)) ≠ 0) :
    d_lambda_ix o G m M a lam k h ix iy p q
      = epsP72 (palMap (lift2 o sgn) (c2 G) (c2 m) (c2 M) (c2 a) (v1 lam) (c2 k) (c2 h) (v2 ix) (c2 iy)
          ⟨⟨p, q / (1 - q)⟩, ⟨0, 0⟩⟩ ⟨⟨q, -p / (1 - q)⟩, ⟨0, 0⟩⟩) := by
  have h2 : (2:K) ≠ 0 := by norm_num
  deriv2_unfold [d_lambda_ix]
  try rw [hsgn]
  generalize o.sin (lam + p) = s at *
  generalize o.cos (lam + p) = cc at *
  generalize o.sqrt (1 - h * h - k * k) = L at *
  generalize o.sqrt (o.fabs (4 - ix * ix - iy * iy)) = iz at *
  generalize o.sqrt (G * (m + M) / a) = S1 at *
  deriv_finish

set_option maxHeartbeats 1600000 in
theorem deriv2_lambda_iy_is_eps_partial (o : DOps K) (sgn : K → K) (G m M a lam k h ix iy p q : K)
    (hq : 1 - q ≠ 0) (hl : 2 - (1 - o.sqrt (1 - h * h - k * k)) ≠ 0) (hsgn : sgn (4 - ix * ix - iy * iy) = 1) (hiz : o.sqrt (o.fabs (4 - ix * ix - iy * iy)) ≠ 0) :
    d_lambda_iy o G m M a lam k h ix iy p q
      = epsP72 (palMap (lift2 o sgn) (c2 G) (c2 m) (c2 M) (c2 a) (v1 lam) (c2 k) (c2 h) (c2 ix) (v2 iy)
          ⟨⟨p, q / (1 - q)⟩, ⟨0, 0⟩⟩ ⟨⟨q, -p / (1 - q)⟩, ⟨0, 0⟩⟩) := by
  have h2 : (2:K) ≠ 0 := by norm_num
  deriv2_unfold [d_lambda_iy]
  try rw [hsgn]
  generalize o.sin (lam + p) = s at *
  generalize o.cos (lam + p) = cc at *
  generalize o.sqrt (1 - h * h - k * k) = L at *
  generalize o.sqrt (o.fabs (4 - ix * ix - iy * iy)) = iz at *
  generalize o.sqrt (G * (m + M) / a) = S1 at *
  deriv_finish

set_option maxHeartbeats 1600000 in
theorem deriv2_h_ix_is_eps_partial (o : DOps K) (sgn : K → K) (G m M a lam k h ix iy p q : K)
    (hq : 1 - q ≠ 0) (hl : 2 - (1 - o.sqrt (1 - h * h - k * k)) ≠ 0) (hL : o.sqrt (1 - h * h - k * k) ≠ 0) (hsgn : sgn (4 - ix * ix - iy * iy) = 1) (hiz : o.sqrt (o.fabs (4 - ix * ix - iy * iy)) ≠ 0) :
    d_h_ix o G m M a lam k h ix iy p q
      = epsP72 (palMap (lift2 o sgn) (c2 G) (c2 m) (c2 M) (c2 a) (c2 lam) (c2 k) (v1 h) (v2 ix) (c2 iy)
          ⟨⟨p, 1 / (1 - q) * (-o.cos (lam + p))⟩, ⟨0, 0⟩⟩ ⟨⟨q, 1 / (1 - q) * (o.sin (lam + p) - h)⟩, ⟨0, 0⟩⟩) := by
  have h2 : (2:K) ≠ 0 := by norm_num
  deriv2_unfold [d_h_ix]
  try rw [hsgn]
  generalize o.sin (lam + p) = s at *
  generalize o.cos (lam + p) = cc at *
  generalize o.sqrt (1 - h * h - k * k) = L at *
  generalize o.sqrt (o.fabs (4 - ix * ix - iy * iy)) = iz at *
  generalize o.sqrt (G * (m + M) / a) = S1 at *
  deriv_finish

set_option maxHeartbeats 1600000 in
theorem deriv2_h_iy_is_eps_partial (o : DOps K) (sgn : K → K) (G m M a lam k h ix iy p q : K)
    (hq : 1 - q ≠ 0) (hl : 2 - (1 - o.sqrt (1 - h * h - k * k)) ≠ 0) (hL : o.sqrt (1 - h * h - k * k) ≠ 0) (hsgn : sgn (4 - ix * ix - iy * iy) = 1) (hiz : o.sqrt (o.fabs (4 - ix * ix - iy * iy)) ≠ 0) :
    d_h_iy o G m M a lam k h ix iy p q
      = epsP72 (palMap (lift2 o sgn) (c2 G) (c2 m) (c2 M) (c2 a) (c2 lam) (c2 k) (v1 h) (c2 ix) (v2 iy)
          ⟨⟨p, 1 / (1 - q) * (-o.cos (lam + p))⟩, ⟨0, 0⟩⟩ ⟨⟨q, 1 / (1 - q) * (o.sin (lam + p) - h)⟩, ⟨0, 0⟩⟩) := by
  have h2 : (2:K) ≠ 0 := by norm_num
  deriv2_unfold [d_h_iy]
  try rw [hsgn]
  generalize o.sin (lam + p) = s at *
  generalize o.cos (lam + p) = cc at *
  generalize o.sqrt (1 - h * h - k * k) = L at *
  generalize o.sqrt (o.fabs (4 - ix * ix - iy * iy)) = iz at *
  generalize o.sqrt (G * (m + M) / a) = S1 at *
  deriv_finish

set_option maxHeartbeats 1600000 in
theorem deriv2_k_ix_is_eps_partial (o : DOps K) (sgn : K → K) (G m M a lam k h ix iy p q : K)
    (hq : 1 - q ≠ 0) (hl : 2 - (1 - o.sqrt (1 - h * h - k * k)) ≠ 0) (hL : o.sqrt (1 - h * h - k * k) ≠ 0) (hsgn : sgn (4 - ix * ix - iy * iy) = 1) (hiz : o.sqrt (o.fabs (4 - ix * ix - iy * iy)) ≠ 0) :
    d_k_ix o G m M a lam k h ix iy p q
      = epsP72 (palMap (lift2 o sgn) (c2 G) (c2 m) (c2 M) (c2 a) (c2 lam) (v1 k) (c2 h) (v2 ix) (c2 iy)
          ⟨⟨p, 1 / (1 - q) * o.sin (lam + p)⟩, ⟨0, 0⟩⟩ ⟨⟨q, 1 / (1 - q) * (o.cos (lam + p) - k)⟩, ⟨0, 0⟩⟩) := by
  have h2 : (2:K) ≠ 0 := by norm_num
  deriv2_unfold [d_k_ix]
  try rw [hsgn]
  generalize o.sin (lam + p) = s at *
  generalize o.cos (lam + p) = cc at *
  generalize o.sqrt (1 - h * h - k * k) = L at *
  generalize o.sqrt (o.fabs (4 - ix * ix - iy * iy)) = iz at *
  generalize o.sqrt (G * (m + M) / a) = S1 at *
  deriv_finish

set_option maxHeartbeats 1600000 in
theorem deriv2_k_iy_is_eps_partial (o : DOps K) (sgn : K → K) (G m M a lam k h ix iy p q : K)
    (hq : 1 - q ≠ 0) (hl : 2 - (1 - o.sqrt (1 - h * h - k * k)) ≠ 0) (hL : o.sqrt (1 - h * h - k * k) ≠ 0) (hsgn : sgn (4 - ix * ix - iy * iy) = 1) (hiz : o.sqrt (o.fabs (4 - ix * ix - iy * iy)) ≠ 0) :
    d_k_iy o G m M a lam k h ix iy p q
      = epsP72 (palMap (lift2 o sgn) (c2 G) (c2 m) (c2 M) (c2 a) (c2 lam) (v1 k) (c2 h) (c2 ix) (v2 iy)
          ⟨⟨p, 1 / (1 - q) * o.sin (lam + p)⟩, ⟨0, 0⟩⟩ ⟨⟨q, 1 / (1 - q) * (o.cos (lam + p) - k)⟩, ⟨0, 0⟩⟩) := by
  have h2 : (2:K) ≠ 0 := by norm_num
  deriv2_unfold [d_k_iy]
  try rw [hsgn]
  generalize o.sin (lam + p) = s at *
  generalize o.cos (lam + p) = cc at *
  generalize o.sqrt (1 - h * h - k * k) = L at *
  generalize o.sqrt (o.fabs (4 - ix * ix - iy * iy)) = iz at *
  generalize o.sqrt (G * (m + M) / a) = S1 at *
  deriv_finish

set_option maxHeartbeats 1600000 in
theorem deriv2_ix_ix_is_eps (o : DOps K) (sgn : K → K) (G m M a lam k h ix iy p q : K)
    (hq : 1 - q ≠ 0) (hl : 2 - (1 - o.sqrt (1 - h * h - k * k)) ≠ 0) (hsgn : sgn (4 - ix * ix - iy * iy) = 1) (hiz : o.sqrt (o.fabs (4 - ix * ix - iy * iy)) ≠ 0) (habs : o.fabs (4 - ix * ix - iy * iy) = 4 - ix * ix - iy * iy) (hz2 : o.sqrt (4 - ix * ix - iy * iy) * o.sqrt (4 - ix * ix - iy * iy) = 4 - ix * ix - iy * iy) :
    d_ix_ix o G m M a lam k h ix iy p q
      = epsP72 (palMap (lift2 o sgn) (c2 G) (c2 m) (c2 M) (c2 a) (c2 lam) (c2 k) (c2 h) (v12 ix) (c2 iy)
          ⟨⟨p, 0⟩, ⟨0, 0⟩⟩ ⟨⟨q, 0⟩, ⟨0, 0⟩⟩) := by
  have h2 : (2:K) ≠ 0 := by norm_num
  deriv2_unfold [d_ix_ix]
  try rw [hsgn]
  try simp only [habs] at *
  generalize o.sin (lam + p) = s at *
  generalize o.cos (lam + p) = cc at *
  generalize o.sqrt (1 - h * h - k * k) = L at *
  generalize o.sqrt (4 - ix * ix - iy * iy) = iz at *
  generalize o.sqrt (G * (m + M) / a) = S1 at *
  have eiy : iy * iy = 4 - ix * ix - iz * iz := by linear_combination hz2
  deriv_finish

set_option maxHeartbeats 1600000 in
theorem deriv2_ix_iy_is_eps (o : DOps K) (sgn : K → K) (G m M a lam k h ix iy p q : K)
    (hq : 1 - q ≠ 0) (hl : 2 - (1 - o.sqrt (1 - h * h - k * k)) ≠ 0) (hsgn : sgn (4 - ix * ix - iy * iy) = 1) (hiz : o.sqrt (o.fabs (4 - ix * ix - iy * iy)) ≠ 0) (habs : o.fabs (4 - ix * ix - iy * iy) = 4 - ix * ix - iy * iy) (hz2 : o.sqrt (4 - ix * ix - iy * iy) * o.sqrt (4 - ix * ix - iy * iy) = 4 - ix * ix - iy * iy) :
    d_ix_iy o G m M a lam k h ix iy p q
      = epsP72 (palMap (lift2 o sgn) (c2 G) (c2 m) (c2 M) (c2 a) (c2 lam) (c2 k) (c2 h) (v1 ix) (v2 iy)
          ⟨⟨p, 0⟩, ⟨0, 0⟩⟩ ⟨⟨q, 0⟩, ⟨0, 0⟩⟩) := by
  have h2 : (2:K) ≠ 0 := by norm_num
  deriv2_unfold [d_ix_iy]
  try rw [hsgn]
  try simp only [habs] at *
  generalize o.sin (lam + p) = s at *
  generalize o.cos (lam + p) = cc at *
  generalize o.sqrt (1 - h * h - k * k) = L at *
  generalize o.sqrt (4 - ix * ix - iy * iy) = iz at *
  generalize o.sqrt (G * (m + M) / a) = S1 at *
  have eiy : iy * iy = 4 - ix * ix - iz * iz := by linear_combination hz2
  deriv_finish

set_option maxHeartbeats 1600000 in
theorem deriv2_iy_iy_is_eps (o : DOps K) (sgn : K → K) (G m M a lam k h ix iy p q : K)
    (hq : 1 - q ≠ 0) (hl : 2 - (1 - o.sqrt (1 - h * h - k * k)) ≠ 0) (hsgn : sgn (4 - ix * ix - iy * iy) = 1) (hiz : o.sqrt (o.fabs (4 - ix * ix - iy * iy)) ≠ 0) (habs : o.fabs (4 - ix * ix - iy * iy) = 4 - ix * ix - iy * iy) (hz2 : o.sqrt (4 - ix * ix - iy * iy) * o.sqrt (4 - ix * ix - iy * iy) = 4 - ix * ix - iy * iy) :
    d_iy_iy o G m M a lam k h ix iy p q
      = epsP72 (palMap (lift2 o sgn) (c2 G) (c2 m) (c2 M) (c2 a) (c2 lam) (c2 k) (c2 h) (c2 ix) (v12 iy)
          ⟨⟨p, 0⟩, ⟨0, 0⟩⟩ ⟨⟨q, 0⟩, ⟨0, 0⟩⟩) := by
  have h2 : (2:K) ≠ 0 := by norm_num
  deriv2_unfold [d_iy_iy]
  try rw [hsgn]
  try simp only [habs] at *
  generalize o.sin (lam + p) = s at *
  generalize o.cos (lam + p) = cc at *
  generalize o.sqrt (1 - h * h - k * k) = L at *
  generalize o.sqrt (4 - ix * ix - iy * iy) = iz at *
  generalize o.sqrt (G * (m + M) / a) = S1 at *
  have eiy : iy * iy = 4 - ix * ix - iz * iz := by linear_combination hz2
  deriv_finish

end RV.Var
