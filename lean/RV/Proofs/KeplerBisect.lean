import RV.Proofs.KeplerTerm
import Mathlib.Tactic.Positivity
/- the bisection fallback of reb_whfast_kepler_solver over an ordered field: bracket formulas and the
   loop invariant (helper lemmas for RV/Props/C03.lean) -/
set_option linter.unusedTactic false
set_option linter.unusedVariables false
set_option linter.unusedSectionVars false
namespace RV.Kepler
open RV
variable {K : Type} [Field K] [LinearOrder K] [IsStrictOrderedRing K]

theorem bisectUpdate_eq (up : Bool) (X Xmin Xmax : K) :
    bisectUpdate up X Xmin Xmax =
      ((if up then Xmin else X), (if up then X else Xmax),
       ((if up then X else Xmax) + (if up then Xmin else X)) / 2) := by
  simp only [bisectUpdate, sc_ofNat, Nat.cast_ofNat]

/-- one pass of the bisection body keeps `F ≤ 0` at the lower and `0 ≤ F` at the upper end, for any
    function `F`, stays inside the old bracket and halves its width -/
theorem bisect_invariant (F : K → K) (Xmin Xmax : K) (hle : Xmin ≤ Xmax) (hlo : F Xmin ≤ 0) (hhi : 0 ≤ F Xmax) :
    let X := (Xmax + Xmin) / 2
    let r := bisectUpdate (ScalarO.le (Scalar.zero : K) (F X)) X Xmin Xmax
    F r.1 ≤ 0 ∧ 0 ≤ F r.2.1 ∧ Xmin ≤ r.1 ∧ r.1 ≤ r.2.1 ∧ r.2.1 ≤ Xmax ∧
      r.2.1 - r.1 = (Xmax - Xmin) / 2 ∧ r.2.2 = (r.2.1 + r.1) / 2 := by
  intro X r
  have hX1 : Xmin ≤ X := by show Xmin ≤ (Xmax + Xmin) / 2; linarith
  have hX2 : X ≤ Xmax := by show (Xmax + Xmin) / 2 ≤ Xmax; linarith
  have hr : r = bisectUpdate (ScalarO.le (Scalar.zero : K) (F X)) X Xmin Xmax := rfl
  rw [bisectUpdate_eq] at hr
  by_cases h : (0 : K) ≤ F X
  · have : ScalarO.le (Scalar.zero : K) (F X) = true := by
      simp only [ScalarO.le, sc_zero, decide_eq_true_eq]; exact h
    rw [this] at hr
    simp only [if_true] at hr
    rw [hr]
    refine ⟨hlo, h, le_refl _, hX1, hX2, ?_, rfl⟩
    show (Xmax + Xmin) / 2 - Xmin = (Xmax - Xmin) / 2; ring
  · have : ScalarO.le (Scalar.zero : K) (F X) = false := by
      simp only [ScalarO.le, sc_zero, decide_eq_false_iff_not]; exact h
    rw [this] at hr
    simp only [Bool.false_eq_true, if_false] at hr
    rw [hr]
    refine ⟨le_of_lt (not_le.1 h), hhi, hX1, hX2, le_refl _, ?_, rfl⟩
    show Xmax - (Xmax + Xmin) / 2 = (Xmax - Xmin) / 2; ring

/-- hyperbolic bracket as coded (incl. the swap for dt < 0) is ordered and does not contain 0 in its
    interior side: for `0 < q ≤ a + r0` -/
theorem hypBracket_ordered (q a r0 dt : K) (hq : 0 < q) (hqr : q ≤ a + r0) :
    let b := hypBracket q a r0 dt
    b.1 ≤ b.2 ∧ (0 < dt → b = (dt / (a + r0), dt / q) ∧ 0 < b.1) ∧
      (dt < 0 → b = (dt / q, dt / (a + r0)) ∧ b.2 < 0) := by
  have har : 0 < a + r0 := lt_of_lt_of_le hq hqr
  have key : 1 / (a + r0) ≤ 1 / q := one_div_le_one_div_of_le hq hqr
  by_cases hdt : dt < 0
  · have : ScalarO.lt dt (Scalar.zero : K) = true := by
      simp only [ScalarO.lt, sc_zero, decide_eq_true_eq]; exact hdt
    simp only [hypBracket, this, if_true, sc_hdiv, sc_hadd]
    refine ⟨?_, fun h => absurd h (not_lt.2 (le_of_lt hdt)), fun _ => ⟨trivial, div_neg_of_neg_of_pos hdt har⟩⟩
    rw [div_eq_mul_one_div dt q, div_eq_mul_one_div dt (a + r0)]
    exact mul_le_mul_of_nonpos_left key (le_of_lt hdt)
  · have : ScalarO.lt dt (Scalar.zero : K) = false := by
      simp only [ScalarO.lt, sc_zero, decide_eq_false_iff_not]; exact hdt
    simp only [hypBracket, this, Bool.false_eq_true, if_false, sc_hdiv, sc_hadd]
    refine ⟨?_, fun h => ⟨trivial, div_pos h har⟩, fun h => absurd h hdt⟩
    rw [div_eq_mul_one_div dt q, div_eq_mul_one_div dt (a + r0)]
    exact mul_le_mul_of_nonneg_left key (not_lt.1 hdt)

/-- the pericentre distance computed in line 260, `q = h²/M/(1+e)` with `e = sqrt(1 − h²β/M²)`,
    is positive and not larger than the current distance `r0` -/
theorem hyp_q_le_r0 (M r0 v2 eta0 e : K) (hM : 0 < M) (hr0 : 0 < r0)
    (hh : 0 < r0 * r0 * v2 - eta0 * eta0) (he : 0 ≤ e)
    (hee : e * e = 1 - (r0 * r0 * v2 - eta0 * eta0) * (2 * M * (1 / r0) - v2) / (M * M)) :
    let q := (r0 * r0 * v2 - eta0 * eta0) / M / (1 + e)
    0 < q ∧ q ≤ r0 := by
  intro q
  have h1e : 0 < 1 + e := by linarith
  refine ⟨div_pos (div_pos hh hM) h1e, ?_⟩
  show (r0 * r0 * v2 - eta0 * eta0) / M / (1 + e) ≤ r0
  rw [div_le_iff₀ h1e, div_le_iff₀ hM]
  -- h2 ≤ r0 (1+e) M  ⇐  (h2/(M r0) − 1) ≤ e
  by_contra hcon
  rw [not_le] at hcon
  set h2 := r0 * r0 * v2 - eta0 * eta0 with hh2
  have hpos : 0 < h2 - r0 * M := by nlinarith
  have h3 : r0 * M * e < h2 - r0 * M := by nlinarith
  have h4 : (r0 * M * e) * (r0 * M * e) < (h2 - r0 * M) * (h2 - r0 * M) :=
    mul_self_lt_mul_self (by positivity) h3
  have hee' : e * e * (M * M) = M * M - h2 * (2 * M * (1 / r0) - v2) := by
    rw [hee]; field_simp
  have h5 : r0 * r0 * (e * e * (M * M)) = r0 * r0 * (M * M) - h2 * (2 * M * r0 - v2 * (r0 * r0)) := by
    rw [hee']; field_simp
  have h6 : h2 * (eta0 * eta0) < 0 := by
    have : (r0 * M * e) * (r0 * M * e) = r0 * r0 * (e * e * (M * M)) := by ring
    rw [this, h5] at h4
    nlinarith
  have : 0 ≤ h2 * (eta0 * eta0) := mul_nonneg (le_of_lt hh) (mul_self_nonneg eta0)
  linarith

/-- elliptic bracket: ordered, width one period of X -/
theorem ellBracket_ordered (xpp k : K) (hx : 0 < xpp) :
    (ellBracket xpp k).1 < (ellBracket xpp k).2 ∧ (ellBracket xpp k).2 - (ellBracket xpp k).1 = xpp ∧
    (ellBracket xpp k).1 = xpp * k ∧ (ellBracket xpp k).2 = xpp * (k + 1) := by
  simp only [ellBracket, sc_hmul, sc_hadd]
  refine ⟨by linarith, by ring, trivial, by ring⟩

/-- the Kepler function at a whole number of periods: with `G1 = 0` (hence, by the G-relations,
    `G2 = 0` needs β ≠ 0 … stated as hypotheses) it is `X M/β − dt`; at the two ends of the elliptic
    bracket `k = floor(dt/P)` this is `≤ 0` resp. `> 0`. -/
theorem ell_bracket_signs (M r0 eta0 beta dt xpp P k : K) (hb : beta ≠ 0) (hP : 0 < P)
    (hxP : xpp * M / beta = P) (hk1 : k * P ≤ dt) (hk2 : dt < (k + 1) * P) :
    let f := fun (X G2 G3 : K) => r0 * X + eta0 * G2 + (M - beta * r0) * G3 - dt
    f (xpp * k) 0 (xpp * k / beta) ≤ 0 ∧ 0 < f (xpp * (k + 1)) 0 (xpp * (k + 1) / beta) := by
  intro f
  have e1 : ∀ X : K, f X 0 (X / beta) = X * M / beta - dt := by
    intro X; show r0 * X + eta0 * 0 + (M - beta * r0) * (X / beta) - dt = _
    field_simp; ring
  rw [e1, e1]
  have a1 : xpp * k * M / beta = k * P := by rw [← hxP]; ring
  have a2 : xpp * (k + 1) * M / beta = (k + 1) * P := by rw [← hxP]; ring
  rw [a1, a2]
  constructor <;> linarith

end RV.Kepler
