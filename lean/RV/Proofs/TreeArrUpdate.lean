import RV.Proofs.TreeArrReinsert
set_option linter.unusedSectionVars false
set_option linter.unusedVariables false
set_option linter.unusedSimpArgs false
namespace RV.C15
open RV RV.Tree RV.Boundary RV.TreeArr

variable {K : Type} [Field K] [LinearOrder K] [IsStrictOrderedRing K] {α : Type}

/-- every particle the sweep keeps passed the keep test in some cell -/
theorem sweepP_kept (ps : Nat → Pt K) (keep : Nat → Cell K → Bool) (hk : ∀ q c, keep q c = true → In (ps q) c) :
    ∀ (t : T K) (c : Cell K), Geo c t → ∀ q ∈ leaves (sweepP keep t).1, ∃ c', keep q c' = true := by
  intro t
  induction t with
  | nil => intro c _ q hq; simp [sweepP, leaves] at hq
  | leaf c0 g q0 =>
    intro c _ q hq
    by_cases hi : keep q0 c0 = true
    · simp [sweepP, hi, leaves] at hq; subst hq; exact ⟨c0, hi⟩
    · simp [sweepP, hi, leaves] at hq
  | node c0 g n ch ih =>
    intro c h q hq
    obtain ⟨hc, hgeo⟩ := h
    subst hc
    have hwf := fun o => (sweepP_spec ps keep hk (ch o) _ (hgeo o)).1
    obtain ⟨_, hp⟩ := rebuild_spec ps c0 g (fun o => (sweepP keep (ch o)).1) hwf
    simp only [sweepP] at hq
    have := hp.mem_iff.mp hq
    simp only [List.mem_flatMap] at this
    obtain ⟨o, _, hqo⟩ := this
    exact ih o _ (hgeo o) q hqo

/-- the loop over the root boxes = pure sweeps + one eviction sequence -/
theorem walkForest_eq (pos : α → Pt K) (flagged : α → Bool) (arr0 : List α) (forest : List (T K))
    (hn : (forest.flatMap leaves).Nodup) (hb : ∀ x ∈ forest.flatMap leaves, x < arr0.length) :
    walkForest pos flagged forest ⟨arr0, [], []⟩ =
      some (forest.map (fun t => (sweepP (keepOf pos flagged arr0) t).1),
            evState flagged arr0 (forest.flatMap fun t => (sweepP (keepOf pos flagged arr0) t).2)) := by
  set keep := keepOf pos flagged arr0
  have := mapStL_spec (fun t s => walkA pos flagged t s) (evState flagged arr0)
    (fun t => (sweepP keep t).1) (fun t => (sweepP keep t).2) forest [] (by
      intro l1 t l2 hl
      have hsub : List.Sublist (l1.flatMap (fun t => (sweepP keep t).2) ++ leaves t) (forest.flatMap leaves) := by
        rw [hl]
        simp only [List.flatMap_append, List.flatMap_cons]
        apply List.Sublist.append (flatMap_sublist _ _ (fun t => sweepP_sublist keep t) _)
        exact List.sublist_append_left _ _
      have := walkA_eq pos flagged arr0 t (l1.flatMap (fun t => (sweepP keep t).2)) (hn.sublist hsub)
        (fun x hx => hb x (hsub.subset hx))
      simpa using this)
  simpa [walkForest, evState] using this


theorem nodup_map_on {β γ : Type} (f : β → γ) : ∀ (l : List β), (∀ x ∈ l, ∀ y ∈ l, f x = f y → x = y) → l.Nodup → (l.map f).Nodup := by
  intro l
  induction l with
  | nil => intro _ _; simp
  | cons a l ih =>
    intro h hn
    rw [List.nodup_cons] at hn
    simp only [List.map_cons, List.nodup_cons, List.mem_map, not_exists, not_and]
    refine ⟨?_, ih (fun x hx y hy => h x (by simp [hx]) y (by simp [hy])) hn.2⟩
    intro x hx hfx
    have := h x (by simp [hx]) a (by simp) hfx
    subst this
    exact hn.1 hx

theorem flatMap_perm_congr_mem {ι β : Type} (a b : ι → List β) : ∀ l : List ι,
    (∀ o ∈ l, List.Perm (a o) (b o)) → List.Perm (l.flatMap a) (l.flatMap b) := by
  intro l
  induction l with
  | nil => intro _; simp
  | cons o l ih =>
    intro h
    simp only [List.flatMap_cons]
    exact (h o (by simp)).append (ih (fun x hx => h x (by simp [hx])))

/-- `reb_simulation_update_tree` on (particle array, forest), as repaired (re-insertion after the walk) -/
theorem updateA_spec (pos : α → Pt K) (flagged inBox : α → Bool) (ri : Pt K → Nat) (rc : Nat → Cell K) (fuel : Nat)
    (forest0 : List (T K)) (arr0 : List α) (forest1 : List (T K)) (arr1 : List α)
    (hgeo : ∀ r (h : r < forest0.length), Geo (rc r) forest0[r])
    (hbij : List.Perm (forest0.flatMap leaves) (List.range arr0.length))
    (hbox : ∀ p ∈ arr0, flagged p = false →
      inBox p = true ∧ ri (pos p) < forest0.length ∧ In (pos p) (rc (ri (pos p))))
    (h : updateA pos flagged inBox ri rc fuel forest0 arr0 = some (.ok (forest1, arr1))) :
    arr1 = (evState flagged arr0 (forest0.flatMap fun t => (sweepP (keepOf pos flagged arr0) t).2)).arr ++
           (evState flagged arr0 (forest0.flatMap fun t => (sweepP (keepOf pos flagged arr0) t).2)).ev ∧
    List.Perm arr1 (arr0.filter (fun p => !flagged p)) ∧
    forest1.length = forest0.length ∧
    ForestOK (psOf pos arr1) rc forest1 arr1.length := by
  set keep := keepOf pos flagged arr0 with hkeep
  set E := forest0.flatMap (fun t => (sweepP keep t).2) with hE
  set st := evState flagged arr0 E with hst
  set ps0 := psOf pos arr0 with hps0
  have hn : (forest0.flatMap leaves).Nodup := hbij.nodup_iff.mpr List.nodup_range
  have hb : ∀ x ∈ forest0.flatMap leaves, x < arr0.length :=
    fun x hx => List.mem_range.mp (hbij.mem_iff.mp hx)
  have hwalk := walkForest_eq pos flagged arr0 forest0 hn hb
  have hEsub : List.Sublist E (forest0.flatMap leaves) := flatMap_sublist _ _ (fun t => sweepP_sublist keep t) _
  have inv := ArrInv_evState flagged arr0 E (hn.sublist hEsub) (fun e he => hb e (hEsub.subset he))
  rw [← hst] at inv
  have hk : ∀ q c, keep q c = true → In (ps0 q) c := by
    intro q c hq
    simp only [hkeep, keepOf] at hq
    cases hp : arr0[q]? with
    | none => simp [hp] at hq
    | some p =>
      simp only [hp, Bool.and_eq_true] at hq
      simp only [hps0, psOf, hp]
      exact (inside_iff _ _).mp hq.1
  have hgeo' : ∀ t ∈ forest0, ∃ c, Geo c t := by
    intro t ht
    obtain ⟨r, hr, rfl⟩ := List.getElem_of_mem ht
    exact ⟨rc r, hgeo r hr⟩
  set keptLeaves := forest0.flatMap (fun t => leaves (sweepP keep t).1) with hkl
  have hpall : List.Perm (keptLeaves ++ E) (forest0.flatMap leaves) := by
    refine (flatMap_append_perm _ _ _).symm.trans ?_
    apply flatMap_perm_congr_mem
    intro t ht
    obtain ⟨c, hc⟩ := hgeo' t ht
    exact (sweepP_spec ps0 keep hk t c hc).2
  have hnall : (keptLeaves ++ E).Nodup := hpall.nodup_iff.mpr hn
  have hkb : ∀ q ∈ keptLeaves, q < arr0.length ∧ q ∉ E := by
    intro q hq
    refine ⟨hb q (hpall.subset (by simp [hq])), ?_⟩
    intro hqe
    exact (List.nodup_append.mp hnall).2.2 q hq q hqe rfl
  have hσ : ∀ q ∈ keptLeaves, applyLog st.log q < st.arr.length ∧ psOf pos st.arr (applyLog st.log q) = ps0 q := by
    intro q hq
    obtain ⟨h1, h2⟩ := hkb q hq
    obtain ⟨g1, g2⟩ := inv.get q h1 h2
    exact ⟨g1, by simp only [hps0, psOf, g2]⟩
  -- the kept forest, renumbered
  set kept' := (forest0.map (fun t => (sweepP keep t).1)).map (relabel (applyLog st.log)) with hkept
  have hlenk : kept'.length = forest0.length := by simp [hkept]
  have hleaves' : kept'.flatMap leaves = keptLeaves.map (applyLog st.log) := by
    simp only [hkept, hkl, List.map_map, List.flatMap_map, List.map_flatMap]
    congr 1
    funext t
    exact leaves_relabel _ _
  have hlen : keptLeaves.length = st.arr.length := by
    have h1 := hpall.length_eq
    have h2 := hbij.length_eq
    have h3 := inv.len
    simp only [List.length_append, List.length_range] at h1 h2
    omega
  have hokk : ForestOK (psOf pos st.arr) rc kept' st.arr.length := by
    constructor
    · intro r hr
      have hr0 : r < forest0.length := by rw [← hlenk]; exact hr
      have hget : kept'[r] = relabel (applyLog st.log) (sweepP keep forest0[r]).1 := by
        simp [hkept]
      rw [hget]
      apply WF_relabel ps0 _ _ _ _ (sweepP_spec ps0 keep hk forest0[r] (rc r) (hgeo r hr0)).1
      intro q hq
      apply (hσ q _).2
      rw [hkl, List.mem_flatMap]
      exact ⟨forest0[r], List.getElem_mem hr0, hq⟩
    · rw [hleaves']
      apply perm_range_of_nodup
      · apply nodup_map_on _ _ _ (List.nodup_append.mp hnall).1
        intro x hx y hy hxy
        exact inv.inj x y (hkb x hx).1 (hkb y hy).1 (hkb x hx).2 (hkb y hy).2 hxy
      · intro x hx
        obtain ⟨q, hq, rfl⟩ := List.mem_map.mp hx
        exact (hσ q hq).1
      · simp [hlen]
  -- the buffered particles are non-flagged members of the original array
  have hevmem : ∀ p ∈ st.ev, p ∈ arr0 ∧ flagged p = false := by
    intro p hp
    rw [inv.ev, List.mem_filter, List.mem_filterMap] at hp
    obtain ⟨⟨e, _, he⟩, hf⟩ := hp
    exact ⟨List.mem_of_getElem? he, by simpa using hf⟩
  unfold updateA at h
  rw [hwalk] at h
  simp only [Option.some.injEq] at h
  obtain ⟨ha, hl, hok⟩ := reinsertA_spec pos inBox ri rc fuel st.ev kept' st.arr forest1 arr1 hokk
    (fun p hp => by
      obtain ⟨h1, h2⟩ := hevmem p hp
      rw [hlenk]
      exact hbox p h1 h2) h
  -- every particle left in the array by the walk is not flagged
  have hall : ∀ x ∈ st.arr, flagged x = false := by
    intro x hx
    obtain ⟨j, hj, rfl⟩ := List.getElem_of_mem hx
    have hjr : j ∈ keptLeaves.map (applyLog st.log) := by
      have := hokk.2
      rw [hleaves'] at this
      exact this.mem_iff.mpr (List.mem_range.mpr hj)
    obtain ⟨q, hq, hqj⟩ := List.mem_map.mp hjr
    obtain ⟨h1, h2⟩ := hkb q hq
    obtain ⟨_, g2⟩ := inv.get q h1 h2
    rw [hqj, List.getElem?_eq_getElem hj] at g2
    rw [hkl, List.mem_flatMap] at hq
    obtain ⟨t, ht, hqt⟩ := hq
    obtain ⟨c, hc⟩ := hgeo' t ht
    obtain ⟨c', hc'⟩ := sweepP_kept ps0 keep hk t c hc q hqt
    simp only [hkeep, keepOf, ← g2, Bool.and_eq_true] at hc'
    simpa using hc'.2
  refine ⟨ha, ?_, by rw [hl, hlenk], hok⟩
  rw [ha]
  have hfil : (st.arr ++ E.filterMap fun e => arr0[e]?).filter (fun p => !flagged p) = st.arr ++ st.ev := by
    rw [List.filter_append, inv.ev]
    congr 1
    apply List.filter_eq_self.mpr
    intro x hx
    simp [hall x hx]
  rw [← hfil]
  exact inv.perm.filter _


/-- under the same hypotheses the walk never meets a leaf whose index is outside the array (`none`) -/
theorem updateA_ne_none (pos : α → Pt K) (flagged inBox : α → Bool) (ri : Pt K → Nat) (rc : Nat → Cell K) (fuel : Nat)
    (forest0 : List (T K)) (arr0 : List α)
    (hbij : List.Perm (forest0.flatMap leaves) (List.range arr0.length)) :
    updateA pos flagged inBox ri rc fuel forest0 arr0 ≠ none := by
  have hn : (forest0.flatMap leaves).Nodup := hbij.nodup_iff.mpr List.nodup_range
  have hb : ∀ x ∈ forest0.flatMap leaves, x < arr0.length :=
    fun x hx => List.mem_range.mp (hbij.mem_iff.mp hx)
  unfold updateA
  rw [walkForest_eq pos flagged arr0 forest0 hn hb]
  simp

end RV.C15
