import RV.Proofs.VarAux
import RV.Model.Kepler
/- helper lemmas for RV/Props/C16.lean about the tangent map of reb_whfast_kepler_solver.
   `RV/Model/Kepler.lean` (owned by C03, tied bitwise to the compiled solver by C03's check) is
   imported read-only: `Kepler.tangentUpdate` is the Float-faithful model of
   integrator_whfast.c:311-342. -/
set_option linter.unusedTactic false
set_option linter.unreachableTactic false
set_option linter.unusedVariables false
set_option linter.unusedSimpArgs false
set_option linter.unusedSectionVars false
namespace RV.Var
open RV RV.Kepler
variable {K : Type} [Field K] [CharZero K]

omit [CharZero K] in
theorem dneg_re (a : Dual K) : (Scalar.neg a).re = -a.re := rfl
omit [CharZero K] in
theorem dneg_eps (a : Dual K) : (Scalar.neg a).eps = -a.eps := rfl

def dP6 (p dp : Kepler.P6 K) : Kepler.P6 (Dual K) :=
  ⟨⟨p.x, dp.x⟩, ⟨p.y, dp.y⟩, ⟨p.z, dp.z⟩, ⟨p.vx, dp.vx⟩, ⟨p.vy, dp.vy⟩, ⟨p.vz, dp.vz⟩⟩
def epsP6 (p : Kepler.P6 (Dual K)) : Kepler.P6 K := ⟨p.x.eps, p.y.eps, p.z.eps, p.vx.eps, p.vy.eps, p.vz.eps⟩

/-- the quantities the tangent map computes before the f-g lines -/
def tanDr0 (r0i : K) (p dp : Kepler.P6 K) : K := (dp.x * p.x + dp.y * p.y + dp.z * p.z) * r0i

omit [CharZero K] in
theorem kepler_invariants_tangent (M r0 r0i : K) (p dp : Kepler.P6 K) :
    let dr0 := tanDr0 r0i p dp
    let I := invariants (Dual.const M) (⟨r0, dr0⟩ : Dual K) ⟨r0i, -(dr0 * r0i * r0i)⟩ (dP6 p dp)
    let i0 := invariants M r0 r0i p
    I.beta.eps = (-2) * M * dr0 * r0i * r0i - 2 * (dp.vx * p.vx + dp.vy * p.vy + dp.vz * p.vz) ∧
    I.eta0.eps = dp.x * p.vx + dp.y * p.vy + dp.z * p.vz + p.x * dp.vx + p.y * dp.vy + p.z * dp.vz ∧
    I.zeta0.eps = (-i0.beta) * dr0 - r0 * I.beta.eps ∧
    I.beta.re = i0.beta ∧ I.eta0.re = i0.eta0 ∧ I.zeta0.re = i0.zeta0 := by
  simp only [invariants, dP6, tanDr0, n2, dneg_re, dneg_eps, neg_zero, Dual.add_re, Dual.add_eps, Dual.sub_re, Dual.sub_eps, Dual.mul_re, Dual.mul_eps,
    Dual.const_re, Dual.const_eps, Dual.ofNat_re, Dual.ofNat_eps, sc_zero, sc_hadd, sc_hsub, sc_hmul, sc_hneg, sc_ofNat, sc_neg]
  push_cast
  refine ⟨?_, ?_, ?_, ?_, ?_, ?_⟩ <;> first | trivial | rfl | ring

/-- the intermediate quantities of the tangent map (integrator_whfast.c:315-334) -/
structure TanMid (K : Type) where
  dr0 : K
  dG1 : K
  dG2 : K
  dG3 : K
  dr : K

section mid
variable {F : Type} [Scalar F]
/-- lines 315-331, copied verbatim from `Kepler.tangentUpdate` -/
def tanMid (M r0 r0i ri X beta eta0 zeta0 : F) (gs : Cs6 F) (p dp : Kepler.P6 F) : TanMid F :=
  let dr0 := (dp.x * p.x + dp.y * p.y + dp.z * p.z) * r0i
  let dbeta := (Scalar.neg n2) * M * dr0 * r0i * r0i - n2 * (dp.vx * p.vx + dp.vy * p.vy + dp.vz * p.vz)
  let deta0 := dp.x * p.vx + dp.y * p.vy + dp.z * p.vz + p.x * dp.vx + p.y * dp.vy + p.z * dp.vz
  let dzeta0 := (Scalar.neg beta) * dr0 - r0 * dbeta
  let G3beta := half * (Scalar.ofNat 3 * gs.c5 - X * gs.c4)
  let G2beta := half * (n2 * gs.c4 - X * gs.c3)
  let G1beta := half * (gs.c3 - X * gs.c2)
  let tbeta := eta0 * G2beta + zeta0 * G3beta
  let dX := (Scalar.neg Scalar.one) * ri * (X * dr0 + gs.c2 * deta0 + gs.c3 * dzeta0 + tbeta * dbeta)
  let dG1 := gs.c0 * dX + G1beta * dbeta
  let dG2 := gs.c1 * dX + G2beta * dbeta
  let dG3 := gs.c2 * dX + G3beta * dbeta
  { dr0 := dr0, dG1 := dG1, dG2 := dG2, dG3 := dG3,
    dr := dr0 + gs.c1 * deta0 + gs.c2 * dzeta0 + eta0 * dG1 + zeta0 * dG2 }

/-- lines 332-342 given the intermediate quantities -/
def tanLines (M r0i ri : F) (c : FG F) (gs : Cs6 F) (p dp : Kepler.P6 F) (m : TanMid F) : Kepler.P6 F :=
  let nM := Scalar.neg M
  let df := M * gs.c2 * m.dr0 * r0i * r0i - M * m.dG2 * r0i
  let dg := nM * m.dG3
  let dfd := nM * m.dG1 * r0i * ri + M * gs.c1 * (m.dr0 * r0i + m.dr * ri) * r0i * ri
  let dgd := nM * m.dG2 * ri + M * gs.c2 * m.dr * ri * ri
  { x  := dp.x + (c.f * dp.x + c.g * dp.vx + df * p.x + dg * p.vx)
    y  := dp.y + (c.f * dp.y + c.g * dp.vy + df * p.y + dg * p.vy)
    z  := dp.z + (c.f * dp.z + c.g * dp.vz + df * p.z + dg * p.vz)
    vx := dp.vx + (c.fd * dp.x + c.gd * dp.vx + dfd * p.x + dgd * p.vx)
    vy := dp.vy + (c.fd * dp.y + c.gd * dp.vy + dfd * p.y + dgd * p.vy)
    vz := dp.vz + (c.fd * dp.z + c.gd * dp.vz + dfd * p.z + dgd * p.vz) }

theorem tangentUpdate_split (M r0 r0i ri X beta eta0 zeta0 : F) (c : FG F) (gs : Cs6 F) (p dp : Kepler.P6 F) :
    tangentUpdate M r0 r0i ri X beta eta0 zeta0 c gs p dp
      = tanLines M r0i ri c gs p dp (tanMid M r0 r0i ri X beta eta0 zeta0 gs p dp) := rfl
end mid

omit [CharZero K] in
theorem tanLines_is_eps (M r0i ri dt : K) (gs : Cs6 K) (p dp : Kepler.P6 K) (m : TanMid K) :
    tanLines M r0i ri (fgCoeffs M r0i ri dt gs.c1 gs.c2 gs.c3) gs p dp m
      = epsP6 (fgUpdate (Dual.const M) ⟨r0i, -(m.dr0 * r0i * r0i)⟩ ⟨ri, -(m.dr * ri * ri)⟩ (Dual.const dt)
          ⟨gs.c1, m.dG1⟩ ⟨gs.c2, m.dG2⟩ ⟨gs.c3, m.dG3⟩ (dP6 p dp)) := by
  obtain ⟨dr0, dG1, dG2, dG3, dr⟩ := m
  simp only [tanLines, fgUpdate, fgApply, fgCoeffs, epsP6, dP6, dneg_re, dneg_eps, neg_zero,
    Dual.add_re, Dual.add_eps, Dual.sub_re, Dual.sub_eps, Dual.mul_re, Dual.mul_eps, Dual.neg_re, Dual.neg_eps,
    Dual.const_re, Dual.const_eps, sc_zero, sc_one, sc_hadd, sc_hsub, sc_hmul, sc_hdiv, sc_hneg, sc_ofNat, sc_neg,
    Kepler.P6.mk.injEq]
  refine ⟨?_, ?_, ?_, ?_, ?_, ?_⟩ <;> first | ring1 | ring_nf
end RV.Var
