import RV.Model.Ias15
import RV.Model.Advertised
import RV.Gen.C01Ias15
/- C01 / IAS15: one corrector sweep is the Gauss–Radau collocation update — finite linear-algebra identities over ℚ from
   the tables h, rr, c, d and the update weights of the current source -/
namespace RV.C01.Ias15Sweep
open RV.C01 RV.C01.Gen RV.C01.Adv RV.C01.Ias

/-- the end-of-step weights are 1/((j+1)(j+2)) (position) and 1/(j+1) (velocity): term-by-term integration of a0 + Σ b_j s^{j+1} -/
theorem update_weights : iasPosW = (List.range 8).map (fun (j : Nat) => 1 / (((j : Rat) + 1) * ((j : Rat) + 2))) ∧
    iasVelW = (List.range 8).map (fun (j : Nat) => 1 / ((j : Rat) + 1)) := by decide +kernel

/-- the tables c and d are inverse to each other: b = C·g and g = D·b -/
theorem c_d_inverse : ∀ i ∈ List.range 7, ∀ j ∈ List.range 7, Near (triProd iasC iasD i j) (if i = j then 1 else 0) tolIAS := by
  decide +kernel

/-- **one sweep recovers the force exactly**: for a(s) = s^{p+1}, p = 0…6 (time-dependent force, any starting b — here 0 and a
    non-trivial one), the sweep returns b = e_p -/
theorem sweep_exact : ∀ p ∈ List.range 7, ∀ b0 ∈ [[0, 0, 0, 0, 0, 0, 0], [1, -2, 3/7, 5, -1/3, 2, 9]],
    ∀ j ∈ List.range 7, Near ((sweep iasRR iasC iasD (samples iasH (fun s => s ^ (p + 1))) b0).getD j 0) (if j = p then 1 else 0) tolIAS := by
  decide +kernel

/-- **Gauss–Radau exactness of the step**: with the b's of one sweep, the velocity increment equals ∫₀¹ sᵖ ds for p ≤ 14 and
    the position increment ∫₀¹ (1−s) sᵖ ds for p ≤ 13 — and not beyond -/
theorem step_exact : (∀ p ∈ List.range 15,
      Near (increment iasVelW (if p = 0 then 1 else 0) (sweep iasRR iasC iasD (samples iasH (fun s => s ^ p)) [0, 0, 0, 0, 0, 0, 0]))
        (1 / ((p : Rat) + 1)) tolIAS) ∧
    (∀ p ∈ List.range 14,
      Near (increment iasPosW (if p = 0 then 1 else 0) (sweep iasRR iasC iasD (samples iasH (fun s => s ^ p)) [0, 0, 0, 0, 0, 0, 0]))
        (1 / (((p : Rat) + 1) * ((p : Rat) + 2))) tolIAS) ∧
    ¬ Near (increment iasVelW 0 (sweep iasRR iasC iasD (samples iasH (fun s => s ^ 15)) [0, 0, 0, 0, 0, 0, 0])) (1 / 16) (1 / 10^9) ∧
    ¬ Near (increment iasPosW 0 (sweep iasRR iasC iasD (samples iasH (fun s => s ^ 14)) [0, 0, 0, 0, 0, 0, 0])) (1 / (15 * 16)) (1 / 10^9) := by
  decide +kernel
end RV.C01.Ias15Sweep
