import RV.Model.C20Scalar
/-
  Model of src/rotations.c:33-313 (vector helpers, quaternion algebra, application to
  vectors, all constructors, slerp), written once over an operation-only scalar class in
  the operation order of the C source, so that the `Float` instance is bit-identical to
  the compiled code (`-ffp-contract=off`) wherever only + − × ÷ sqrt are used.

  The scalar class is `ScalarR` (RV/Model/C20Scalar.lean): `Scalar` plus comparisons, sqrt,
  sin, cos, fabs, acos, isnormal.

  `fromTo` models `reb_rotation_init_from_to` **as it is** in the source, including the
  branch for exactly antiparallel vectors (rotations.c:189-210) whose axis is not
  normalised (finding F7).  `fromToFixed` is the same function with the one-line repair
  of fixes/F7.diff (the axis is normalised); the check selects whichever variant the
  compiled code agrees with, and RV/Props/C20.lean proves the full statement for the
  repaired variant and its negation for the variant as found.
-/
namespace RV.Rot
open RV Scalar

structure Quat (K : Type) where
  ix : K
  iy : K
  iz : K
  r : K
deriving Repr, BEq, Inhabited

variable {K : Type}

section Basic
variable [Scalar K]

/-- the literal `2` of `reb_vec3d_mul(…, 2)` -/
def two : K := Scalar.ofNat 2

/-- `reb_vec3d_mul(v, s)`: `s*v.x, s*v.y, s*v.z` -/
def vmul (v : V3 K) (s : K) : V3 K := ⟨s * v.x, s * v.y, s * v.z⟩

/-- `reb_vec3d_add` -/
def vadd (v w : V3 K) : V3 K := ⟨v.x + w.x, v.y + w.y, v.z + w.z⟩

/-- `reb_vec3d_cross` -/
def cross (a b : V3 K) : V3 K :=
  ⟨a.y * b.z - a.z * b.y, a.z * b.x - a.x * b.z, a.x * b.y - a.y * b.x⟩

/-- `reb_vec3d_dot` -/
def dot (a b : V3 K) : K := a.x * b.x + a.y * b.y + a.z * b.z

/-- `reb_vec3d_length_squared` -/
def len2 (v : V3 K) : K := dot v v

/-- `reb_rotation_imag` -/
def imag (q : Quat K) : V3 K := ⟨q.ix, q.iy, q.iz⟩

/-- `reb_rotation_mul(p, q)`:  v_rot = p * (q * v) -/
def qmul (p q : Quat K) : Quat K :=
  { r  := p.r * q.r  - p.ix * q.ix - p.iy * q.iy - p.iz * q.iz,
    ix := p.r * q.ix + p.ix * q.r  + p.iy * q.iz - p.iz * q.iy,
    iy := p.r * q.iy - p.ix * q.iz + p.iy * q.r  + p.iz * q.ix,
    iz := p.r * q.iz + p.ix * q.iy - p.iy * q.ix + p.iz * q.r }

/-- `reb_rotation_length_squared` -/
def qlen2 (q : Quat K) : K := q.r * q.r + q.ix * q.ix + q.iy * q.iy + q.iz * q.iz

/-- `reb_rotation_conjugate` -/
def conj (q : Quat K) : Quat K := { ix := -q.ix, iy := -q.iy, iz := -q.iz, r := q.r }

/-- `reb_rotation_inverse`: conjugate, then every component `*= 1./length_squared` -/
def inverse (q : Quat K) : Quat K :=
  let c := conj q
  let rl2 := Scalar.one / qlen2 q
  { r := c.r * rl2, ix := c.ix * rl2, iy := c.iy * rl2, iz := c.iz * rl2 }

/-- `reb_rotation_identity` -/
def qid : Quat K := { ix := Scalar.zero, iy := Scalar.zero, iz := Scalar.zero, r := Scalar.one }

/-- `reb_vec3d_irotate` / `reb_vec3d_rotate`:
    `t = 2 (imag × v);  res = v + (q.r t + imag × t)` -/
def rotate (v : V3 K) (q : Quat K) : V3 K :=
  let im := imag q
  let t := vmul (cross im v) two
  vadd v (vadd (vmul t q.r) (cross im t))

/-- `reb_particle_irotate` on (position, velocity) -/
def rotatePV (p : V3 K × V3 K) (q : Quat K) : V3 K × V3 K := (rotate p.1 q, rotate p.2 q)

/-- `reb_simulation_irotate`: every particle (real and variational alike) -/
def rotateSim (ps : List (V3 K × V3 K)) (q : Quat K) : List (V3 K × V3 K) :=
  ps.map (fun p => rotatePV p q)

def ex : V3 K := ⟨Scalar.one, Scalar.zero, Scalar.zero⟩
def ey : V3 K := ⟨Scalar.zero, Scalar.one, Scalar.zero⟩
def ez : V3 K := ⟨Scalar.zero, Scalar.zero, Scalar.one⟩

end Basic

section Sqrt
variable [ScalarR K]

/-- `reb_vec3d_normalize`: `v * (1./sqrt(v·v))` -/
def normalize (v : V3 K) : V3 K := vmul v (Scalar.one / ScalarR.sqrt (len2 v))

/-- `reb_rotation_normalize` -/
def qnormalize (q : Quat K) : Quat K :=
  let l := Scalar.one / ScalarR.sqrt (qlen2 q)
  { ix := q.ix * l, iy := q.iy * l, iz := q.iz * l, r := q.r * l }

/-- `reb_rotation_init_from_to_reduced` (rotations.c:166-174) -/
def fromToReduced (frm to : V3 K) : Quat K :=
  let half : V3 K := ⟨frm.x + to.x, frm.y + to.y, frm.z + to.z⟩
  let half := normalize half
  let c := cross frm half
  let d := dot frm half
  { ix := c.x, iy := c.y, iz := c.z, r := d }

/-- which of the three sub-branches of rotations.c:193-209 is taken: the coordinate axis
    along which `from` has its smallest component -/
def smallestAxis (f : V3 K) : V3 K :=
  let ax := ScalarR.fabs f.x
  let ay := ScalarR.fabs f.y
  let az := ScalarR.fabs f.z
  if ScalarR.le ax ay && ScalarR.le ax az then ex
  else if ScalarR.le ay az then ey
  else ez

/-- the antiparallel branch as found: `q = (from × e_k, 0)`, axis **not** normalised -/
def antiparallelAsFound (f : V3 K) : Quat K :=
  let axis := cross f (smallestAxis f)
  { ix := axis.x, iy := axis.y, iz := axis.z, r := Scalar.zero }

/-- the antiparallel branch after fixes/F7.diff: the axis is normalised -/
def antiparallelFixed (f : V3 K) : Quat K :=
  let axis := normalize (cross f (smallestAxis f))
  { ix := axis.x, iy := axis.y, iz := axis.z, r := Scalar.zero }

/-- `reb_rotation_init_from_to` after both arguments have been normalised
    (rotations.c:180-212); `anti` is the treatment of the antiparallel branch -/
def fromToUnit (anti : V3 K → Quat K) (frm to : V3 K) : Quat K :=
  if ScalarR.le Scalar.zero (dot frm to) then
    fromToReduced frm to
  else
    let half : V3 K := ⟨frm.x + to.x, frm.y + to.y, frm.z + to.z⟩
    let half := normalize half
    if !(ScalarR.isnormal (len2 half)) then
      anti frm
    else
      qmul (fromToReduced frm half) (fromToReduced half to)

/-- `reb_rotation_init_from_to` as found in the source -/
def fromTo (frm to : V3 K) : Quat K :=
  fromToUnit antiparallelAsFound (normalize frm) (normalize to)

/-- `reb_rotation_init_from_to` with the repair of fixes/F7.diff -/
def fromToFixed (frm to : V3 K) : Quat K :=
  fromToUnit antiparallelFixed (normalize frm) (normalize to)

/-- `reb_rotation_init_from_to` with fixes/C20-from-to-nearly-antiparallel.diff on top of the F7 repair: the
    antiparallel branch is also taken when the sine of the angle between the (normalised, obtuse) vectors is
    below rounding level, `|from × to|² < tau` (`tau = 1e-30` in the patch) -/
def fromToUnitTau (tau : K) (anti : V3 K → Quat K) (frm to : V3 K) : Quat K :=
  if ScalarR.le Scalar.zero (dot frm to) then
    fromToReduced frm to
  else
    let half : V3 K := ⟨frm.x + to.x, frm.y + to.y, frm.z + to.z⟩
    let half := normalize half
    if ScalarR.lt (len2 (cross frm to)) tau || !(ScalarR.isnormal (len2 half)) then
      anti frm
    else
      qmul (fromToReduced frm half) (fromToReduced half to)

def fromToFixedTau (tau : K) (frm to : V3 K) : Quat K :=
  fromToUnitTau tau antiparallelFixed (normalize frm) (normalize to)

/-- `reb_rotation_init_angle_axis` -/
def angleAxis (angle : K) (axis : V3 K) : Quat K :=
  let axis := normalize axis
  let cos2 := ScalarR.cos (angle / two)
  let sin2 := ScalarR.sin (angle / two)
  let im := vmul axis sin2
  { ix := im.x, iy := im.y, iz := im.z, r := cos2 }

/-- `reb_rotation_init_to_new_axes` (rotations.c:224-234), parameterised by the from-to
    constructor and by where the dot product used for the orthogonalisation of `newx` is
    taken: as found, `dotprod = newz · newx` is computed **before** `newz` is normalised
    (so the component removed from `newx` is wrong by the factor `|newz|`, finding F18);
    with `fixDot` it is computed with the normalised `newz` (fixes/C20-to-new-axes-orthogonalise.diff). -/
def toNewAxesWith (ft : V3 K → V3 K → Quat K) (fixDot : Bool) (newz newx : V3 K) : Quat K :=
  let dotprod0 := dot newz newx
  let newz := normalize newz
  let dotprod := if fixDot then dot newz newx else dotprod0
  let newx := vadd newx (vmul newz (-dotprod))
  let q1 := ft newz ez
  let newx := rotate newx q1
  let q2 := ft newx ex
  qmul q2 q1

/-- as found in the source -/
def toNewAxes (newz newx : V3 K) : Quat K := toNewAxesWith fromTo false newz newx
/-- with both repairs -/
def toNewAxesFixed (newz newx : V3 K) : Quat K := toNewAxesWith fromToFixed true newz newx

/-- `reb_rotation_init_orbit`: `P3 * (P2 * P1)` -/
def orbit (Omega inc omega : K) : Quat K :=
  let p1 := angleAxis omega ez
  let p2 := angleAxis inc ex
  let p3 := angleAxis Omega ez
  qmul p3 (qmul p2 p1)

/-- `reb_rotation_slerp` (`eps` = 1e-4, `halfc` = 0.5 passed by the driver as doubles) -/
def slerp (eps halfc : K) (q1 q2 : Quat K) (t : K) : Quat K :=
  let c := q1.r * q2.r + q1.ix * q2.ix + q1.iy * q2.iy + q1.iz * q2.iz
  if ScalarR.le Scalar.one (ScalarR.fabs c) then q1
  else
    let halfTheta := ScalarR.acos c
    let s := ScalarR.sqrt (Scalar.one - c * c)
    if ScalarR.lt (ScalarR.fabs s) eps then
      { r := q1.r * halfc + q2.r * halfc, ix := q1.ix * halfc + q2.ix * halfc,
        iy := q1.iy * halfc + q2.iy * halfc, iz := q1.iz * halfc + q2.iz * halfc }
    else
      let ra := ScalarR.sin ((Scalar.one - t) * halfTheta) / s
      let rb := ScalarR.sin (t * halfTheta) / s
      { r := q1.r * ra + q2.r * rb, ix := q1.ix * ra + q2.ix * rb,
        iy := q1.iy * ra + q2.iy * rb, iz := q1.iz * ra + q2.iz * rb }

end Sqrt

end RV.Rot
