import RV.Scalar
import RV.Model.Tree
import RV.Model.Boundary
/-
  Model of src/collision.c (+ reb_simulation_remove_particle of src/particle.c:336-446).

  * §1  the pair predicates of the DIRECT search (collision.c:131-143, identical to the leaf
        test of the TREE search 546-559) and of the LINE search (collision.c:198-220, identical
        to the leaf test of the LINETREE search 604-626), over `[ScalarO K]` in the operation
        order of the C source, and the three nested search loops (ghost ring, i, j).
  * §2  glibc `rand_r` and the swap shuffle (collision.c:367-373).
  * §3  `reb_simulation_remove_particle` and the post-search driver with its index fix-ups
        (collision.c:386-487), generic in the particle payload `α`, the ghost-box payload `G`
        and the resolve callback.
  * §4  the built-in resolvers merge / hardsphere / halt (collision.c:664-875).

  The tree walks themselves are not modelled here (Model/Tree belongs to C15); §5 only has
  the pruning inequality of collision.c:579-585 as a predicate.

  Operation order follows the C source so that the `Float` instance is bit-identical to the
  compiled code (-ffp-contract=off).
-/
namespace RV.Collision
open RV Scalar

/-! ## §0 data -/

/-- the fields of `struct reb_particle` that collision.c reads or writes, plus ghost data:
    `id` (an identity that travels with the particle; the tie uses `hash`) and `flagged`
    (`y = NaN` set by `reb_simulation_remove_particle` when a tree exists). -/
structure Part (K : Type) where
  x : K
  y : K
  z : K
  vx : K
  vy : K
  vz : K
  m : K
  r : K
  lc : K            -- last_collision
  id : Nat
  flagged : Bool
deriving Repr, Inhabited

/-- `struct reb_vec6d` -/
structure GB (K : Type) where
  x : K
  y : K
  z : K
  vx : K
  vy : K
  vz : K
deriving Repr, Inhabited, BEq

/-- `struct reb_collision` (without the MPI-only `ri`); `p1`,`p2` are C `int`s (−1 = void) -/
structure Coll (G : Type) where
  p1 : Int
  p2 : Int
  gb : G
deriving Repr, Inhabited, BEq

section predicates
variable {K : Type} [ScalarO K]

/-- C `a > b` -/
@[inline] def gt (a b : K) : Bool := ScalarO.lt b a
/-- C `a == b` on doubles (false when either is NaN) -/
@[inline] def feq (a b : K) : Bool := ScalarO.le a b && ScalarO.le b a
/-- `#define MIN(a, b) ((a) > (b) ? (b) : (a))` -/
@[inline] def cmin (a b : K) : K := if gt a b then b else a
/-- `#define MAX(a, b) ((a) > (b) ? (a) : (b))` -/
@[inline] def cmax (a b : K) : K := if gt a b then a else b

/-- `gb.x += p1.x; …` (collision.c:114-119) -/
def shiftGB (gb : GB K) (p1 : Part K) : GB K :=
  ⟨gb.x + p1.x, gb.y + p1.y, gb.z + p1.z, gb.vx + p1.vx, gb.vy + p1.vy, gb.vz + p1.vz⟩

/-- squared distance of the shifted p1 and p2 (collision.c:132-136) -/
def dist2 (g : GB K) (p2 : Part K) : K :=
  let dx := g.x - p2.x
  let dy := g.y - p2.y
  let dz := g.z - p2.z
  dx*dx + dy*dy + dz*dz

/-- `dvx*dx + dvy*dy + dvz*dz` (collision.c:139-143) -/
def approachDot (g : GB K) (p2 : Part K) : K :=
  let dx := g.x - p2.x
  let dy := g.y - p2.y
  let dz := g.z - p2.z
  let dvx := g.vx - p2.vx
  let dvy := g.vy - p2.vy
  let dvz := g.vz - p2.vz
  dvx*dx + dvy*dy + dvz*dz

/-- body of the inner loop of the DIRECT search: is the pair added to the collision array?
    `g` is the ghost-shifted p1, `r1 = p1.r`.  (collision.c:132-143; 546-559) -/
def directHit (g : GB K) (r1 : K) (p2 : Part K) : Bool :=
  let sr := r1 + p2.r
  let r2 := dist2 g p2
  if gt r2 (sr*sr) then false        -- `if (r2>sr*sr) continue;`
  else if gt (approachDot g p2) Scalar.zero then false   -- `if (… >0) continue;`
  else true

/-- the quantities of the LINE test (collision.c:198-209) -/
structure LineQ (K : Type) where
  dx1 : K
  dy1 : K
  dz1 : K
  dvx1 : K
  dvy1 : K
  dvz1 : K
  r1 : K     -- distance² at the end of the step
  r2 : K     -- distance² at the beginning of the step

def lineQ (dt : K) (g : GB K) (p2 : Part K) : LineQ K :=
  let dx1 := g.x - p2.x
  let dy1 := g.y - p2.y
  let dz1 := g.z - p2.z
  let r1 := dx1*dx1 + dy1*dy1 + dz1*dz1
  let dvx1 := g.vx - p2.vx
  let dvy1 := g.vy - p2.vy
  let dvz1 := g.vz - p2.vz
  let dx2 := dx1 - dt*dvx1
  let dy2 := dy1 - dt*dvy1
  let dz2 := dz1 - dt*dvz1
  let r2 := dx2*dx2 + dy2*dy2 + dz2*dz2
  ⟨dx1, dy1, dz1, dvx1, dvy1, dvz1, r1, r2⟩

/-- `rmin2_ab` for a given value `tc` of `t_closest` and a given truth value `inr` of the test
    `t_closest/dt>=0. && t_closest/dt<=1.` (collision.c:211-218).  Kept separate so that the
    `dv = 0` corner (C: 0/0 = NaN, both comparisons false) can be stated for *every* `tc`, `inr`. -/
def lineRmin2Gen (q : LineQ K) (tc : K) (inr : Bool) : K :=
  let rmin := cmin q.r1 q.r2
  if inr then
    let dx3 := q.dx1 - tc*q.dvx1
    let dy3 := q.dy1 - tc*q.dvy1
    let dz3 := q.dz1 - tc*q.dvz1
    let r3 := dx3*dx3 + dy3*dy3 + dz3*dz3
    cmin rmin r3
  else rmin

/-- `t_closest` (collision.c:209) -/
def lineTc (q : LineQ K) : K :=
  (q.dx1*q.dvx1 + q.dy1*q.dvy1 + q.dz1*q.dvz1) / (q.dvx1*q.dvx1 + q.dvy1*q.dvy1 + q.dvz1*q.dvz1)

/-- `t_closest/dt>=0. && t_closest/dt<=1.` -/
def lineInRange (dt tc : K) : Bool :=
  ScalarO.le Scalar.zero (tc / dt) && ScalarO.le (tc / dt) Scalar.one

/-- the code's `rmin2_ab` -/
def lineRmin2 (dt : K) (g : GB K) (p2 : Part K) : K :=
  let q := lineQ dt g p2
  let tc := lineTc q
  lineRmin2Gen q tc (lineInRange dt tc)

/-- body of the inner loop of the LINE search (collision.c:198-220; 604-626) -/
def lineHit (dt : K) (g : GB K) (r1 : K) (p2 : Part K) : Bool :=
  let rsum := r1 + p2.r
  if gt (lineRmin2 dt g p2) (rsum*rsum) then false else true


/-! ### ghost boxes (boundary.c:177-229, `reb_boundary_get_ghostbox`) -/

/-- `r->boundary` -/
inductive BKind where
  | none | open | periodic | shear
deriving Repr, DecidableEq

/-- `(double)i` for a C `int` -/
def ofI (i : Int) : K := if i < 0 then Scalar.neg (Scalar.ofNat i.natAbs) else Scalar.ofNat i.toNat

/-- `reb_boundary_get_ghostbox(r, i, j, k)`; `fmodF` is C's `fmod`, `omega = r->ri_sei.OMEGA`, `t = r->t` -/
def ghostBox (fmodF : K → K → K) (kind : BKind) (bx bY bz omega t : K) (i j k : Int) : GB K :=
  match kind with
  | .none => ⟨Scalar.zero, Scalar.zero, Scalar.zero, Scalar.zero, Scalar.zero, Scalar.zero⟩     -- `nan_ghostbox` (all zero)
  | .open | .periodic =>
    ⟨bx * ofI i, bY * ofI j, bz * ofI k, Scalar.zero, Scalar.zero, Scalar.zero⟩
  | .shear =>
    let two : K := Scalar.ofNat 2
    let vy := Scalar.neg (Scalar.ofNat 3 / two) * ofI i * omega * bx         -- `-1.5*(double)i*OMEGA*r->boxsize.x`
    let shift :=
      if i == 0 then Scalar.neg (fmodF (vy * t) bY)
      else if i > 0 then Scalar.neg (fmodF (vy * t - bY / two) bY) - bY / two
      else Scalar.neg (fmodF (vy * t + bY / two) bY) + bY / two
    ⟨bx * ofI i, bY * ofI j - shift, bz * ofI k, Scalar.zero, vy, Scalar.zero⟩

/-- the 27 ghost boxes `i,j,k = -1..1` in the nested order of the search loops -/
def ghostTable (fmodF : K → K → K) (kind : BKind) (bx bY bz omega t : K) : List (GB K) :=
  [(-1 : Int), 0, 1].flatMap fun i => [(-1 : Int), 0, 1].flatMap fun j => [(-1 : Int), 0, 1].map fun k =>
    ghostBox fmodF kind bx bY bz omega t i j k

/-- `-gb` -/
def negGB (g : GB K) : GB K := ⟨Scalar.neg g.x, Scalar.neg g.y, Scalar.neg g.z, Scalar.neg g.vx, Scalar.neg g.vy, Scalar.neg g.vz⟩

/-! ### the search loops

  `ring`  : the ghost boxes in loop order (`gbx`, `gby`, `gbz` nested, each over
            `-N_ghost_col … N_ghost_col`), as returned by `reb_boundary_get_ghostbox`.
  `cand`  : the candidate list `(ip, particles[ip])` for `i = 0 … N-1` — the identity
            enumeration by default, `encounter_map` for MERCURIUS/TRACE encounter steps.
  `nInner`: `Ninner` (= N, or 1 after a MERCURIUS/TRACE jump step).
  The found pairs are appended to the collision array in loop order. -/

/-- one value of `N_ghost_xcol = (r->N_ghost_x>1?1:r->N_ghost_x)` -/
def ghostCol (n : Int) : Int := if n > 1 then 1 else n

/-- `for (g=-c; g<=c; g++)` as a list (empty for negative `c`) -/
def ghostRange (c : Int) : List Int :=
  (List.range (2*c + 1).toNat).map (fun (k : Nat) => (k : Int) - c)

/-- the `(gbx,gby,gbz)` triples in loop order -/
def ghostRing (ngx ngy ngz : Int) : List (Int × Int × Int) :=
  (ghostRange (ghostCol ngx)).flatMap fun a =>
    (ghostRange (ghostCol ngy)).flatMap fun b =>
      (ghostRange (ghostCol ngz)).map fun c => (a, b, c)

/-- inner `for (j=0;j<Ninner;j++)` loop of the DIRECT search: `i` is the outer loop index,
    `acc` the collision array so far -/
def directLoopJ (gborig : GB K) (g : GB K) (i : Nat) (ip : Nat) (r1 : K) :
    List (Nat × Nat × Part K) → List (Coll (GB K)) → List (Coll (GB K))
  | [], acc => acc
  | (j, jp, p2) :: rest, acc =>
    if i == j then directLoopJ gborig g i ip r1 rest acc      -- `if (i==j) continue;`
    else if directHit g r1 p2 then
      directLoopJ gborig g i ip r1 rest (acc ++ [⟨(ip : Int), (jp : Int), gborig⟩])
    else directLoopJ gborig g i ip r1 rest acc

/-- `for (i=0;i<N;i++)` loop of the DIRECT search for one ghost box -/
def directLoopI (gborig : GB K) (inner : List (Nat × Nat × Part K)) :
    List (Nat × Nat × Part K) → List (Coll (GB K)) → List (Coll (GB K))
  | [], acc => acc
  | (i, ip, p1) :: rest, acc =>
    directLoopI gborig inner rest (directLoopJ gborig (shiftGB gborig p1) i ip p1.r inner acc)

/-- positions attached: `(i, ip, particles[ip])` -/
def indexed (cand : List (Nat × Part K)) : List (Nat × Nat × Part K) :=
  cand.zipIdx.map fun (c, i) => (i, c.1, c.2)

/-- DIRECT search (collision.c:89-161) -/
def directSearch (ring : List (GB K)) (cand : List (Nat × Part K)) (nInner : Nat) :
    List (Coll (GB K)) :=
  ring.foldl (fun acc gb => directLoopI gb ((indexed cand).take nInner) (indexed cand) acc) []

/-- inner `for (j=i+1;j<N;j++)` loop of the LINE search -/
def lineLoopJ (dt : K) (gborig : GB K) (g : GB K) (ip : Nat) (r1 : K) :
    List (Nat × Part K) → List (Coll (GB K)) → List (Coll (GB K))
  | [], acc => acc
  | (jp, p2) :: rest, acc =>
    if lineHit dt g r1 p2 then
      lineLoopJ dt gborig g ip r1 rest (acc ++ [⟨(ip : Int), (jp : Int), gborig⟩])
    else lineLoopJ dt gborig g ip r1 rest acc

def lineLoopI (dt : K) (gborig : GB K) :
    List (Nat × Part K) → List (Coll (GB K)) → List (Coll (GB K))
  | [], acc => acc
  | (ip, p1) :: rest, acc =>
    lineLoopI dt gborig rest (lineLoopJ dt gborig (shiftGB gborig p1) ip p1.r rest acc)

/-- LINE search (collision.c:162-239) -/
def lineSearch (dt : K) (ring : List (GB K)) (cand : List (Nat × Part K)) : List (Coll (GB K)) :=
  ring.foldl (fun acc gb => lineLoopI dt gb cand acc) []

end predicates

/-! ## §2 shuffle -/

/-- glibc `rand_r` (stdlib/rand_r.c): returns (result, new seed) -/
def randR (seed : UInt32) : UInt32 × UInt32 :=
  let n1 := seed * 1103515245 + 12345
  let r1 := (n1 / 65536) % 2048
  let n2 := n1 * 1103515245 + 12345
  let r2 := (r1 <<< 10) ^^^ ((n2 / 65536) % 1024)
  let n3 := n2 * 1103515245 + 12345
  let r3 := (r2 <<< 10) ^^^ ((n3 / 65536) % 1024)
  (r3, n3)

/-- the `new` indices drawn by the randomize loop: `rand_r(&seed)%collisions_N`, `n` times -/
def drawNews (n : Nat) : Nat → UInt32 → List Nat × UInt32
  | 0, seed => ([], seed)
  | k+1, seed =>
    let (r, s') := randR seed
    let (l, s'') := drawNews n k s'
    ((r.toNat % n) :: l, s'')

/-- `c1 = a[i]; a[i] = a[new]; a[new] = c1;` for `i = i0, i0+1, …` -/
def swapSeq {α : Type} : List Nat → Nat → Array α → Array α
  | [], _, a => a
  | new :: rest, i, a => swapSeq rest (i+1) (a.swapIfInBounds i new)

/-- collision.c:367-373 -/
def shuffle {α : Type} (seed : UInt32) (l : List α) : List α × UInt32 :=
  let (news, s') := drawNews l.length l.length seed
  ((swapSeq news 0 l.toArray).toList, s')

/-! ## §3 particle removal and the post-search driver -/

/-- the part of `struct reb_simulation` the driver touches -/
structure Sim (α : Type) where
  ps : List α          -- particles[0 … N-1]  (N = r->N, variational particles included)
  nActive : Int        -- r->N_active (−1: all)
  nVar : Nat           -- r->N_var
  tree : Bool          -- r->tree_root != NULL
  hybrid : Bool        -- integrator is MERCURIUS or TRACE (keep_sorted forced)
  err : Nat            -- number of `reb_simulation_error` calls so far
deriving Repr

/-- source-level variants of `reb_simulation_remove_particle` that leave the C13 statement
    untouched (order of the guards, `N_active` bookkeeping).  They are *extracted from
    particle.c* by rv/c13.py on every run and handed to the driver, so that the model follows
    the code that exists; every theorem of RV/Props/C13.lean holds for all variants. -/
structure RmVariant where
  rangeFirst : Bool            -- the index range check precedes the `N==1` shortcut
  lastResetsNActive : Bool     -- `N==1`: `if (N_active>0) N_active = 0`
  lastDeletesTree : Bool       -- `N==1`: `reb_tree_delete(r)`
  sortedTreeErrFirst : Bool    -- keep_sorted + tree: error returned *before* the array is shifted
  unsortedClampNActive : Bool  -- unsorted: `if (N_active > N) N_active = N`
deriving Repr, Inhabited

/-- the variant of the pinned tree (d4648a4) -/
def RmVariant.pinned : RmVariant := ⟨false, false, false, false, false⟩

/-- `reb_simulation_remove_particle` (particle.c:336-446), returns the new state and the C
    return value.  `flag` is `particles[index].y = nan("")`.  Not modelled: the
    `dcrit`/`encounter_map`/`current_Ks` bookkeeping of the hybrid integrators and
    `free_particle_ap`. -/
def removeParticle {α : Type} (v : RmVariant) (flag : α → α) (s : Sim α) (index : Int)
    (keepSorted : Bool) : Sim α × Bool :=
  let ks := keepSorted || s.hybrid
  let N : Int := s.ps.length
  let oor := index ≥ N || index < 0
  if v.rangeFirst && oor then
    ({ s with err := s.err + 1 }, false)
  else if N == 1 then
    -- `r->N = 0; … return 1;` whatever `index` (when the range check comes later)
    ({ s with ps := []
              nActive := if v.lastResetsNActive && s.nActive > 0 then 0 else s.nActive
              tree := if v.lastDeletesTree then false else s.tree }, true)
  else if oor then
    ({ s with err := s.err + 1 }, false)
  else if s.nVar != 0 then
    ({ s with err := s.err + 1 }, false)
  else
    let i := index.toNat
    if ks then
      if v.sortedTreeErrFirst && s.tree then ({ s with err := s.err + 1 }, false)
      else
        let na := if index < s.nActive then s.nActive - 1 else s.nActive
        let s' := { s with ps := s.ps.eraseIdx i, nActive := na }    -- N--, shift down
        if s.tree then ({ s' with err := s'.err + 1 }, false)        -- error *after* the mutation
        else (s', true)
    else if s.tree then
      ({ s with ps := s.ps.modify i flag }, true)                  -- only flagged
    else
      match s.ps.getLast? with
      | none => (s, false)                                         -- unreachable (N ≥ 2)
      | some l =>                                                  -- N--; p[index] = p[N]
        let newN : Int := N - 1
        ({ s with ps := (s.ps.set i l).dropLast
                  nActive := if v.unsortedClampNActive && s.nActive > newN then newN else s.nActive },
         true)

section driver
variable {α G : Type}

/-- "Skip collisions which involved the removed particle" -/
def voidIfNames (idx : Int) (cp : Coll G) : Coll G :=
  if cp.p1 == idx || cp.p2 == idx then { cp with p1 := -1, p2 := -1 } else cp

/-- update of one later entry of the collision array after particle `idx` was removed, no tree
    (collision.c:418-441 / 459-482); `nNew = (int)(r->N - r->N_var)` after the removal -/
def fixEntry (sorted : Bool) (idx nNew : Int) (cp : Coll G) : Coll G :=
  let cp := voidIfNames idx cp
  if sorted then
    let cp := if cp.p1 > idx then { cp with p1 := cp.p1 - 1 } else cp
    if cp.p2 > idx then { cp with p2 := cp.p2 - 1 } else cp
  else
    let cp := if cp.p1 == nNew then { cp with p1 := idx } else cp
    if cp.p2 == nNew then { cp with p2 := idx } else cp

/-- what the resolve callback is handed, with the two particles it names at that moment -/
structure Call (α G : Type) where
  c : Coll G
  a : Option α
  b : Option α
  out : Nat
  nActive : Int     -- r->N_active when the resolver was called
  nReal : Nat       -- r->N - r->N_var when the resolver was called
deriving Repr

def lookup (s : Sim α) (p : Int) : Option α := if p < 0 then none else s.ps[p.toNat]?

/-- removal of `idx` requested by the resolver + fix-up of the remaining entries
    (either half of collision.c:394-485).  `cur` is the `p2` of the current collision, which
    the `outcome & 1` half also fixes (408-417); the `outcome & 2` half ignores the result. -/
def removeAndFix (v : RmVariant) (flag : α → α) (ks : Bool) (s : Sim α) (idx : Int) (cur : Int)
    (rest : List (Coll G)) : Sim α × Int × List (Coll G) :=
  let (s', removed) := removeParticle v flag s idx ks
  if removed then
    if s'.tree then
      (s', cur, rest.map (voidIfNames idx))
    else
      let nNew : Int := (s'.ps.length : Int) - (s'.nVar : Int)
      let cur' := if ks then (if cur > idx then cur - 1 else cur)
                  else (if cur == nNew then idx else cur)
      (s', cur', rest.map (fixEntry ks idx nNew))
  else (s', cur, rest)

/-- one iteration of the loop collision.c:386-487 on entry `c`, `rest` = the later entries -/
def processOne (v : RmVariant) (flag : α → α) (resolve : Sim α → Coll G → Sim α × Nat) (ks : Bool)
    (s : Sim α) (c : Coll G) (rest : List (Coll G)) :
    Sim α × List (Coll G) × Option (Call α G) :=
  if c.p1 != -1 && c.p2 != -1 then
    let (s1, outcome) := resolve s c
    let call : Call α G := ⟨c, lookup s c.p1, lookup s c.p2, outcome, s.nActive, s.ps.length - s.nVar⟩
    let (s2, p2, rest2) :=
      if outcome &&& 1 != 0 then removeAndFix v flag ks s1 c.p1 c.p2 rest
      else (s1, c.p2, rest)
    let (s3, rest3) :=
      if outcome &&& 2 != 0 then
        let (s', _, r') := removeAndFix v flag ks s2 p2 p2 rest2
        (s', r')
      else (s2, rest2)
    (s3, rest3, some call)
  else (s, rest, none)

theorem removeAndFix_length (v : RmVariant) (flag : α → α) (ks : Bool) (s : Sim α) (idx cur : Int)
    (rest : List (Coll G)) : (removeAndFix v flag ks s idx cur rest).2.2.length = rest.length := by
  unfold removeAndFix
  split
  split <;> (try split) <;> simp

theorem processOne_length (v : RmVariant) (flag : α → α) (resolve : Sim α → Coll G → Sim α × Nat)
    (ks : Bool) (s : Sim α) (c : Coll G) (rest : List (Coll G)) :
    (processOne v flag resolve ks s c rest).2.1.length = rest.length := by
  unfold processOne
  split
  · dsimp only
    split <;> split <;> simp [removeAndFix_length]
  · rfl

/-- the loop collision.c:386-487; returns the final state and the calls made -/
def processLoop (v : RmVariant) (flag : α → α) (resolve : Sim α → Coll G → Sim α × Nat)
    (ks : Bool) : Sim α → List (Coll G) → Sim α × List (Call α G)
  | s, [] => (s, [])
  | s, c :: rest =>
    let r := processOne v flag resolve ks s c rest
    let (sf, calls) := processLoop v flag resolve ks r.1 r.2.1
    (sf, match r.2.2 with | some k => k :: calls | none => calls)
termination_by _ l => l.length
decreasing_by
  simp only [processOne_length, List.length_cons]
  omega

end driver

/-! ## §4 built-in resolvers -/
section resolvers
variable {K : Type} [ScalarO K]

/-- `particles[index].y = nan("")` — the model keeps `y` and records the flag -/
def flagPart (p : Part K) : Part K := { p with flagged := true }

/-- end of `reb_collision_search` with fixes/C13-tree-merge-remove-at-boundary.diff: when a tree
    exists and a particle was flagged in this search, `reb_simulation_update_tree` removes the
    flagged particles.  The survivors are returned in array order; the code's order is the
    swap-with-last order of the tree sweep (C15), so the tie compares them as a set. -/
def purgeFlagged (clampNActive : Bool) (s : Sim (Part K)) : Sim (Part K) :=
  if s.tree && s.ps.any (·.flagged) then
    let ps' := s.ps.filter fun p => !p.flagged
    let n : Int := ps'.length
    -- `clampNActive`: tree.c (9a64eba) `if (r->N_active > (int)r->N) r->N_active = r->N;`
    { s with ps := ps', nActive := if clampNActive && s.nActive > n then n else s.nActive }
  else s

/-- `reb_boundary_check`'s open-boundary test applied to a particle (boundary.c:42-61, the model of C15) -/
def outsideBox (bx bY bz : K) (p : Part K) : Bool :=
  RV.Boundary.outside bx bY bz ⟨p.x, p.y, p.z, p.vy⟩

/-- what `reb_simulation_step` hands to `reb_collision_search` at the end of a step with an OPEN boundary
    (rebound.c:153-166): `reb_boundary_check` removes the particles that left the box — without a tree at once
    (swap-with-last, `i--` re-check; shift-down when `track_energy_offset`), with a tree they are only flagged and
    `tree_needs_update` makes the following `reb_simulation_update_tree` drop them (order of the survivors then is the
    tree sweep's: compared as a set).  The search must never see a particle that left the box. -/
def searchInputOpen (bx bY bz : K) (teo clampNActive : Bool) (s : Sim (Part K)) : Sim (Part K) :=
  let out := outsideBox bx bY bz
  if s.tree then
    purgeFlagged clampNActive { s with ps := RV.Boundary.openMark out flagPart s.ps }
  else if teo then { s with ps := RV.Boundary.openLoopSorted out 0 s.ps }
  else { s with ps := RV.Boundary.openLoop out 0 s.ps }

/-- `reb_collision_resolve_halt` (collision.c:760-765) without the status word -/
def halt (t : K) (s : Sim (Part K)) (c : Coll (GB K)) : Sim (Part K) × Nat :=
  let ps1 := if c.p1 < 0 then s.ps else s.ps.modify c.p1.toNat (fun p => { p with lc := t })
  let ps2 := if c.p2 < 0 then ps1 else ps1.modify c.p2.toNat (fun p => { p with lc := t })
  ({ s with ps := ps2 }, 0)

/-- the arithmetic of `reb_collision_resolve_merge` (collision.c:785, 840-848) on the survivor
    `pi` (lower index) and the absorbed `pj`; `cbrtF` is libm's `cbrt` -/
def mergePair (mid : Bool) (cbrtF : K → K) (t : K) (pi pj : Part K) : Part K :=
  let invmass := Scalar.one / (pi.m + pj.m)
  let half : K := Scalar.one / Scalar.ofNat 2      -- the literal 0.5
  -- `mid`: the source has the branch `if (pi->m + pj->m == 0.)` (fixes/C13-merge-massless.diff):
  -- two massless particles merge at the midpoint instead of 0·∞
  if mid && feq (pi.m + pj.m) Scalar.zero then
    { pi with
      vx := half*(pi.vx + pj.vx)
      vy := half*(pi.vy + pj.vy)
      vz := half*(pi.vz + pj.vz)
      x  := half*(pi.x + pj.x)
      y  := half*(pi.y + pj.y)
      z  := half*(pi.z + pj.z)
      m  := pi.m + pj.m
      r  := cbrtF (pi.r*pi.r*pi.r + pj.r*pj.r*pj.r)
      lc := t }
  else
  { pi with
    vx := (pi.vx*pi.m + pj.vx*pj.m)*invmass
    vy := (pi.vy*pi.m + pj.vy*pj.m)*invmass
    vz := (pi.vz*pi.m + pj.vz*pj.m)*invmass
    x  := (pi.x*pi.m + pj.x*pj.m)*invmass
    y  := (pi.y*pi.m + pj.y*pj.m)*invmass
    z  := (pi.z*pi.m + pj.z*pj.m)*invmass
    m  := pi.m + pj.m
    r  := cbrtF (pi.r*pi.r*pi.r + pj.r*pj.r*pj.r)
    lc := t }

/-- `Ei - Ef` of `reb_collision_resolve_merge` with `track_energy_offset` (collision.c:827-911, outside MERCURIUS/TRACE
    encounter steps): kinetic energies of the pair, their mutual potential when one of them is active (`pot`), minus
    the kinetic energy of the merged particle `pm`; `sqrtF` is libm's `sqrt` -/
def mergeEnergy (sqrtF : K → K) (G : K) (pot : Bool) (pi pj pm : Part K) : K :=
  let half : K := Scalar.one / Scalar.ofNat 2
  let ei := Scalar.zero + half*pi.m*(pi.vx*pi.vx + pi.vy*pi.vy + pi.vz*pi.vz)
  let ei := ei + half*pj.m*(pj.vx*pj.vx + pj.vy*pj.vy + pj.vz*pj.vz)
  let ei := if pot then
      let x := pi.x - pj.x
      let y := pi.y - pj.y
      let z := pi.z - pj.z
      let r := sqrtF (x*x + y*y + z*z)
      ei + (-G)*pi.m*pj.m/r
    else ei
  let ef := Scalar.zero + half*pm.m*(pm.vx*pm.vx + pm.vy*pm.vy + pm.vz*pm.vz)
  ei - ef

/-- `r->energy_offset` after the resolution loop, from the calls made: every call that merged (return value 1 or 2)
    adds `Ei - Ef` of its pair in the order of the calls; the lower index survives -/
def energyOffsetOf (sqrtF cbrtF : K → K) (G t : K) (mid : Bool) (e0 : K) (calls : List (Call (Part K) (GB K))) : K :=
  calls.foldl (fun e k =>
    match k.a, k.b with
    | some q1, some q2 =>
      if k.out == 1 || k.out == 2 then
        let swap := k.out == 1
        let pi := if swap then q2 else q1
        let pj := if swap then q1 else q2
        let i := if swap then k.c.p2 else k.c.p1
        let j := if swap then k.c.p1 else k.c.p2
        let nAct : Int := if k.nActive == -1 then (k.nReal : Int) else k.nActive
        let pot := decide (i < nAct) || decide (j < nAct)
        e + mergeEnergy sqrtF G pot pi pj (mergePair mid cbrtF t pi pj)
      else e
    | _, _ => e) e0

/-- `reb_collision_resolve_merge` (collision.c:767-875); the `track_energy_offset` bookkeeping is `energyOffsetOf`.
    An index outside the array is undefined behaviour in C; the model returns 0 there and
    `c13_fixup_*` shows the driver never produces one. -/
def merge (mid : Bool) (cbrtF : K → K) (t : K) (s : Sim (Part K)) (c : Coll (GB K)) : Sim (Part K) × Nat :=
  match lookup s c.p1, lookup s c.p2 with
  | some q1, some q2 =>
    if feq q1.lc t || feq q2.lc t then (s, 0)
    else
      -- `unsigned int i = c.p1, j = c.p2; if (j<i) swap`
      let swap := c.p2 < c.p1
      let i := if swap then c.p2 else c.p1
      let pi := if swap then q2 else q1
      let pj := if swap then q1 else q2
      ({ s with ps := s.ps.set i.toNat (mergePair mid cbrtF t pi pj) }, if swap then 1 else 2)
  | _, _ => (s, 0)

/-- libm functions used by the hard-sphere resolver -/
structure Trig (K : Type) where
  atan2 : K → K → K
  sin : K → K
  cos : K → K
  sqrt : K → K

/-- relative state of the pair (collision.c:682-695) -/
structure Rel (K : Type) where
  x21 : K
  y21 : K
  z21 : K
  vx21 : K
  vy21 : K
  vz21 : K

def relOf (p1 p2 : Part K) (gb : GB K) : Rel K :=
  ⟨p1.x + gb.x - p2.x, p1.y + gb.y - p2.y, p1.z + gb.z - p2.z,
   p1.vx + gb.vx - p2.vx, p1.vy + gb.vy - p2.vy, p1.vz + gb.vz - p2.vz⟩

/-- the early returns of the hard-sphere resolver (collision.c:692, 696): does it act? -/
def hsActs (p1 p2 : Part K) (q : Rel K) : Bool :=
  let rp := p1.r + p2.r
  if ScalarO.lt (rp*rp) (q.x21*q.x21 + q.y21*q.y21 + q.z21*q.z21) then false
  else if gt (q.vx21*q.x21 + q.vy21*q.y21 + q.vz21*q.z21) Scalar.zero then false
  else true

/-- normal component of the relative velocity in the rotated frame (collision.c:702, 709) -/
def hsVn (st ct sp cp : K) (q : Rel K) : K :=
  let vy21n := ct * q.vy21 + st * q.vz21
  cp * q.vx21 + sp * vy21n

/-- `mindv` (collision.c:717-722); `rr = sqrt(x21²+y21²+z21²)`,
    `mcv = r->minimum_collision_velocity` -/
def hsMindv (mcv rr : K) (p1 p2 : Part K) : K :=
  let minr := if gt p1.r p2.r then p2.r else p1.r
  let maxr := if ScalarO.lt p1.r p2.r then p2.r else p1.r
  let mindv := minr * mcv
  let mindv := mindv * (Scalar.one - (rr - maxr)/minr)
  if gt mindv (maxr*mcv) then maxr*mcv else mindv

/-- `dvx2` after the `minimum_collision_velocity` clamp (collision.c:716-723) -/
def hsDvx2 (eps mcv rr vn : K) (p1 p2 : Part K) : K :=
  let dvx2 := (-(Scalar.one + eps)) * vn
  let mindv := hsMindv mcv rr p1 p2
  if ScalarO.lt dvx2 mindv then mindv else dvx2

/-- velocity update of the pair for a given impulse `dvx2` along the axis with direction
    cosines `(cp, sp*ct, sp*st)` (collision.c:725-747); returns the new (p1, p2) -/
def hsApply (eqm : Bool) (st ct sp cp dvx2 t : K) (p1 p2 : Part K) (tgt1 tgt2 : Part K) : Part K × Part K :=
  let dvx2n := cp * dvx2
  let dvy2n := sp * dvx2
  let dvy2nn := ct * dvy2n
  let dvz2nn := st * dvy2n
  -- `eqm`: the source has `(p1.m+p2.m==0.) ? 0.5 : …` (fixes/C13-hardsphere-massless.diff)
  let half : K := Scalar.one / Scalar.ofNat 2
  let massless := eqm && feq (p1.m + p2.m) Scalar.zero
  let p2pf := if massless then half else p1.m/(p1.m + p2.m)
  let n2 := { tgt2 with vx := tgt2.vx - p2pf*dvx2n, vy := tgt2.vy - p2pf*dvy2nn,
                        vz := tgt2.vz - p2pf*dvz2nn, lc := t }
  let p1pf := if massless then half else p2.m/(p1.m + p2.m)
  let n1 := { tgt1 with vx := tgt1.vx + p1pf*dvx2n, vy := tgt1.vy + p1pf*dvy2nn,
                        vz := tgt1.vz + p1pf*dvz2nn, lc := t }
  (n1, n2)

/-- the pair update of `reb_collision_resolve_hardsphere` for given rotation sines/cosines
    `st ct sp cp`, given `rr = sqrt(|x21|²)` and restitution function `epsF`;
    `none` = early return (no overlap / not approaching) -/
def hsPair (eqm : Bool) (st ct sp cp rr mcv t : K) (epsF : K → K) (gb : GB K) (p1 p2 : Part K) :
    Option (Part K × Part K) :=
  let q := relOf p1 p2 gb
  if hsActs p1 p2 q then
    let vn := hsVn st ct sp cp q
    let dvx2 := hsDvx2 (epsF vn) mcv rr vn p1 p2
    some (hsApply eqm st ct sp cp dvx2 t p1 p2 p1 p2)
  else none

/-- the angles as the C code computes them (collision.c:699-708, 720) -/
def hsAngles (T : Trig K) (q : Rel K) : K × K × K × K × K :=
  let theta := T.atan2 q.z21 q.y21
  let st := T.sin theta
  let ct := T.cos theta
  let y21n := ct * q.y21 + st * q.z21
  let phi := T.atan2 y21n q.x21
  let cp := T.cos phi
  let sp := T.sin phi
  let rr := T.sqrt (q.x21*q.x21 + q.y21*q.y21 + q.z21*q.z21)
  (st, ct, sp, cp, rr)

/-- `reb_collision_resolve_hardsphere` (collision.c:664-758) without the `collisions_plog`
    diagnostics.  Writes p2 first, then p1, as the C code does. -/
def hardsphere (eqm : Bool) (T : Trig K) (mcv t : K) (epsF : K → K) (s : Sim (Part K)) (c : Coll (GB K)) :
    Sim (Part K) × Nat :=
  match lookup s c.p1, lookup s c.p2 with
  | some p1, some p2 =>
    let (st, ct, sp, cp, rr) := hsAngles T (relOf p1 p2 c.gb)
    match hsPair eqm st ct sp cp rr mcv t epsF c.gb p1 p2 with
    | some (n1, n2) =>
      ({ s with ps := (s.ps.set c.p2.toNat n2).set c.p1.toNat n1 }, 0)
    | none => (s, 0)
  | _, _ => (s, 0)

end resolvers

/-! ## §5 tree searches (collision.c:240-362, 512-659, as repaired by 8402256, c3afa2d, 5a2eb94)

  The oct-tree is the one of Model/Tree (C15): `T K` with cells `(x,y,z,w)`; the walks visit
  the octants in index order 0..7 as the C loops do.  `P q` is `particles[q]`. -/
section prune
variable {K : Type} [ScalarO K]
open RV.Tree (T)

/-- collision.c:579-585: does the walk descend into the non-leaf cell with centre `c`, width `w`?
    `g` = ghost-shifted position of p1, `sqrt3half = 0.86602540378443` -/
def descends (sqrt3half maxRadius1 p1r w : K) (gx gy gz cx cy cz : K) : Bool :=
  let dx := gx - cx
  let dy := gy - cy
  let dz := gz - cz
  let r2 := dx*dx + dy*dy + dz*dz
  let rp := p1r + maxRadius1 + sqrt3half*w
  ScalarO.lt r2 (rp*rp)

/-- the same test of the LINETREE walk (collision.c:672-679):
    `rp = p1_r_plus_dtv + max_radius1 + maxdrift + 0.866*w` -/
def descendsLine (sqrt3half maxRadius1 p1rdtv maxdrift w : K) (gx gy gz cx cy cz : K) : Bool :=
  let dx := gx - cx
  let dy := gy - cy
  let dz := gz - cz
  let r2 := dx*dx + dy*dy + dz*dz
  let rp := p1rdtv + maxRadius1 + maxdrift + sqrt3half*w
  ScalarO.lt r2 (rp*rp)

/-- the scan of `reb_collision_update_max_radius`: (largest, second largest) so far -/
def scanMaxRadius : K × K → List K → K × K
  | m, [] => m
  | (m0, m1), r :: rest =>
    if ScalarO.le m0 r then scanMaxRadius (r, m0) rest            -- `radius>=max_radius0`
    else if ScalarO.le m1 r then scanMaxRadius (m0, r) rest       -- `radius>=max_radius1`
    else scanMaxRadius (m0, m1) rest

/-- `reb_collision_update_max_radius`: never decreases the stored values -/
def updateMaxRadius (old0 old1 : K) (radii : List K) : K × K :=
  let m := scanMaxRadius (Scalar.zero, Scalar.zero) radii
  (cmax old0 m.1, cmax old1 m.2)

/-- `reb_tree_get_nearest_neighbour_in_cell` for particle `i` (radius `r1`, ghost-shifted state
    `g`, unshifted ghost box `gborig`): the entries appended to the collision array, in order -/
def treeWalk (k maxR1 : K) (P : Nat → Part K) (gborig g : GB K) (i : Nat) (r1 : K) :
    T K → List (Coll (GB K))
  | .nil => []
  | .leaf _ _ q =>
    if q == i then []                                   -- `c->pt != collision_nearest->p1`
    else if directHit g r1 (P q) then [⟨(i : Int), (q : Int), gborig⟩] else []
  | .node c _ _ ch =>
    if descends k maxR1 r1 c.w g.x g.y g.z c.x c.y c.z then
      (List.finRange 8).flatMap fun o => treeWalk k maxR1 P gborig g i r1 (ch o)
    else []

/-- `reb_tree_check_for_overlapping_trajectories_in_cell` -/
def lineTreeWalk (k maxR1 dt maxdrift : K) (P : Nat → Part K) (gborig g : GB K) (i : Nat)
    (r1 r1dtv : K) : T K → List (Coll (GB K))
  | .nil => []
  | .leaf _ _ q =>
    if q == i then []
    else if lineHit dt g r1 (P q) then [⟨(i : Int), (q : Int), gborig⟩] else []
  | .node c _ _ ch =>
    if descendsLine k maxR1 r1dtv maxdrift c.w g.x g.y g.z c.x c.y c.z then
      (List.finRange 8).flatMap fun o => lineTreeWalk k maxR1 dt maxdrift P gborig g i r1 r1dtv (ch o)
    else []

/-- TREE search (collision.c:282-327): particles outermost, then ghost boxes, then root boxes -/
def treeSearch (k maxR1 : K) (ring : List (GB K)) (P : Nat → Part K) (n : Nat)
    (roots : List (T K)) : List (Coll (GB K)) :=
  (List.range n).flatMap fun i => ring.flatMap fun gb => roots.flatMap fun t =>
    treeWalk k maxR1 P gb (shiftGB gb (P i)) i (P i).r t

/-- `vmax2 = MAX(vmax2, vx²+vy²+vz²)` over all particles (collision.c:332-336) -/
def vmax2 (P : Nat → Part K) (n : Nat) : K :=
  (List.range n).foldl (fun a i =>
    cmax a ((P i).vx*(P i).vx + (P i).vy*(P i).vy + (P i).vz*(P i).vz)) Scalar.zero

/-- LINETREE search (collision.c:329-389); `sqrtF`, `fabsF` are libm's -/
def lineTreeSearch (sqrtF fabsF : K → K) (k maxR1 dt : K) (ring : List (GB K)) (P : Nat → Part K)
    (n : Nat) (roots : List (T K)) : List (Coll (GB K)) :=
  let maxdrift := fabsF dt * sqrtF (vmax2 P n)
  (List.range n).flatMap fun i =>
    let p1 := P i
    let r1dtv := p1.r + fabsF dt * sqrtF (p1.vx*p1.vx + p1.vy*p1.vy + p1.vz*p1.vz)
    ring.flatMap fun gb => roots.flatMap fun t =>
      lineTreeWalk k maxR1 dt maxdrift P gb (shiftGB gb p1) i p1.r r1dtv t

end prune

end RV.Collision
