import RV.Scalar
/-
  Model of the frame operations of src/tools.c:
    reb_particle_com_of_pair / reb_simulation_com_range / reb_simulation_com   (406-483)
    reb_simulation_move_to_hel                                               (138-159)
    reb_simulation_move_to_com  incl. first and second order variational shifts (162-336)
    reb_simulation_imul / iadd / isub                                        (1581-1626)

  As in transformations.c, every routine applies the *same* scalar recurrence to each of
  the six components x,y,z,vx,vy,vz (the masses being shared), so the model is written for
  one component and the correspondence driver applies it to every component.  Operation
  order follows the C source, so the `Float` instance is bit-identical.

  A real particle is `(m, x)`.  The particles of one variational configuration are
  presented row-wise next to the real particle they belong to (index `i` of the C loops
  `particles[i]`, `particles[i+index]`, `particles[i+index_1st_order_a]`, …).
-/
namespace RV.Frame
open RV Scalar
variable {K : Type} [ScalarO K]

/-- `reb_particle_com_of_pair` on (m, x): `x = x1*m1 + x2*m2; m = m1+m2; if (m>0.) x /= m` -/
def comPair (p1 p2 : K × K) : K × K :=
  let x := p1.2 * p1.1 + p2.2 * p2.1
  let m := p1.1 + p2.1
  if ScalarO.lt Scalar.zero m then (m, x / m) else (m, x)

/-- `reb_simulation_com_range(r, 0, N_real)`: fold from `com = {0}` -/
def com (ps : List (K × K)) : K × K := ps.foldl comPair (Scalar.zero, Scalar.zero)

/-- real particles after `reb_simulation_move_to_com` (tools.c:319-326) -/
def moveToCom (ps : List (K × K)) : List (K × K) :=
  let c := com ps
  ps.map (fun p => (p.1, p.2 - c.2))

/-- `reb_simulation_move_to_hel`: particles i ≥ 1 minus particle 0, particle 0 set to `0.` -/
def moveToHel : List (K × K) → List (K × K)
  | [] => []
  | (m0, x0) :: r => (m0, Scalar.zero) :: r.map (fun p => (p.1, p.2 - x0))

/-- what `reb_simulation_move_to_hel` does to the coordinates of one (first or second order,
    non-test-particle) variational configuration.  As found (tools.c:143 "Variational particles
    will not be affected") nothing; with fixes/C20-move-to-hel-variations.diff the variation of
    particle 0 is subtracted from the others and set to `0.` — the derivative of `x_i − x_0`. -/
def moveToHelVar (repaired : Bool) : List K → List K
  | [] => []
  | dx0 :: r => if repaired then Scalar.zero :: r.map (fun dx => dx - dx0) else dx0 :: r

/-! ### first order variational shift (tools.c:278-314) -/

/-- one row of a first-order configuration: real `(m, x)` and variational `(dm, dx)` -/
structure Row1 (K : Type) where
  m : K
  x : K
  dm : K
  dx : K
deriving Repr

/-- `dm += particles[i+index].m` from `0.` -/
def sumBy {α : Type} (f : α → K) (l : List α) : K := l.foldl (fun a r => a + f r) Scalar.zero

/-- the three `com_shift.x += …` / `-= …` statements of one loop iteration, `M = com.m` -/
def shift1Step (M dm : K) (s : K) (r : Row1 K) : K :=
  let s := s + r.m / M * r.dx
  let s := s + r.x / M * r.dm
  let s := s - r.x / (M * M) * r.m * dm
  s

def shift1 (M : K) (rows : List (Row1 K)) : K :=
  let dm := sumBy (fun r => r.dm) rows
  rows.foldl (shift1Step M dm) Scalar.zero

/-- variational coordinates of a first-order configuration after `move_to_com` -/
def moveToComVar1 (M : K) (rows : List (Row1 K)) : List K :=
  let s := shift1 M rows
  rows.map (fun r => r.dx - s)

/-! ### second order variational shift (tools.c:173-269) -/

/-- one row of a second-order configuration: real particle, the two first-order
    particles `a`, `b` it refers to, and the second-order particle `(ddm, ddx)` -/
structure Row2 (K : Type) where
  m : K
  x : K
  ma : K
  xa : K
  mb : K
  xb : K
  ddm : K
  ddx : K
deriving Repr

/-- the literal `2.` -/
def two' : K := Scalar.ofNat 2

/-- the ten accumulation statements of one iteration of tools.c:185-255 -/
def shift2Step (M dma dmb ddm : K) (s : K) (r : Row2 K) : K :=
  let s := s + r.ddx / M * r.m
  let s := s + r.xa / M * r.mb
  let s := s - r.xa * r.m / M / M * dmb
  let s := s + r.xb / M * r.ma
  let s := s + r.x / M * r.ddm
  let s := s - r.x * r.ma / M / M * dmb
  let s := s - r.xb * r.m / M / M * dma
  let s := s - r.x * r.mb / M / M * dma
  let s := s + two' * r.x * r.m / M / M / M * dma * dmb
  let s := s - r.x * r.m / M / M * ddm
  s

def shift2 (M : K) (rows : List (Row2 K)) : K :=
  let dma := sumBy (fun r => r.ma) rows
  let dmb := sumBy (fun r => r.mb) rows
  let ddm := sumBy (fun r => r.ddm) rows
  rows.foldl (shift2Step M dma dmb ddm) Scalar.zero

def moveToComVar2 (M : K) (rows : List (Row2 K)) : List K :=
  let s := shift2 M rows
  rows.map (fun r => r.ddx - s)

/-! ### imul / iadd / isub (all `N` particles, real and variational alike) -/

/-- `reb_simulation_imul`: `x *= scalar` -/
def imul (xs : List K) (s : K) : List K := xs.map (fun x => x * s)

inductive Err where
  | sizeMismatch      -- the C functions return -1 and leave `r` untouched
deriving Repr, DecidableEq

/-- `reb_simulation_iadd`: `-1` if `N != N2`, else `x += x2` -/
def iadd (xs ys : List K) : Except Err (List K) :=
  if xs.length ≠ ys.length then .error .sizeMismatch
  else .ok (List.zipWith (fun x y => x + y) xs ys)

/-- `reb_simulation_isub` -/
def isub (xs ys : List K) : Except Err (List K) :=
  if xs.length ≠ ys.length then .error .sizeMismatch
  else .ok (List.zipWith (fun x y => x - y) xs ys)

end RV.Frame
