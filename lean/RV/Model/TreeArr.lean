import RV.Model.Tree
import RV.Model.Boundary
/-
  `reb_simulation_update_tree` (tree.c, as repaired by fixes/C15-N1) on an explicit state
  (particle array, forest of root cells): for every root box the recursive walk of
  `reb_simulation_update_tree_cell`, which at a leaf whose particle left its cell (or is flagged `y = NaN`)
  removes the particle from the array by swap-with-last (`N--; particles[oldpos] = particles[N];
  particles[oldpos].c->pt = oldpos`) and appends it to the re-insertion buffer unless flagged; inner nodes
  recount and derefine; after all root boxes the buffered particles are re-added in collection order by
  `reb_simulation_add` (appended to the array, inserted into the tree of their root box).

  Back pointers: a leaf stores the array index of its particle; `particles[i].c` is the leaf that stores `i`.
  The write `particles[oldpos].c->pt = oldpos` therefore renumbers *the leaf that stores N-1*, wherever it is in
  the forest (already swept, not yet swept, or the node being removed).  The functional walk cannot reach
  into subtrees it has already returned, so it records the renumbering events in a log `(N-1 ↦ oldpos)`:
  a leaf that is visited later reads its current index through the log, and all kept leaves are renumbered
  through the complete log when the walk is over (`relabel`).  Every event acts on the unique leaf storing
  `N-1`, so this is the same final state as the in-place writes.
-/
namespace RV.TreeArr
open RV RV.Tree RV.Boundary

/-- state threaded through the walk -/
structure St (α : Type) where
  arr : List α                 -- particles[0..N-1]
  ev : List α                  -- the `reinsert` buffer
  log : List (Nat × Nat)       -- renumbering events `(from, to)` in order

/-- current index of the particle that had index `i` when the walk began -/
def applyLog (log : List (Nat × Nat)) (i : Nat) : Nat :=
  log.foldl (fun cur e => if cur = e.1 then e.2 else cur) i

/-- sequential map with a threaded state that may fail -/
def mapStL {ι σ β : Type} (f : ι → σ → Option (β × σ)) : List ι → σ → Option (List β × σ)
  | [], s => some ([], s)
  | i :: l, s =>
    match f i s with
    | none => none
    | some (b, s1) =>
      match mapStL f l s1 with
      | none => none
      | some (bs, s2) => some (b :: bs, s2)

section generic
variable {K : Type} [ScalarO K] {α : Type}

def zeroPt : Pt K := ⟨Scalar.zero, Scalar.zero, Scalar.zero, Scalar.zero⟩

/-- positions and masses of the array as the function the tree model reads -/
def psOf (pos : α → Pt K) (arr : List α) : Nat → Pt K :=
  fun i => match arr[i]? with
    | some p => pos p
    | none => zeroPt

/-- the leaf branch that removes the particle (tree.c:192-207) -/
def evict (flagged : α → Bool) (st : St α) (cur : Nat) (p : α) : St α :=
  { arr := swapRemove st.arr cur
    ev := if flagged p then st.ev else st.ev ++ [p]
    log := st.log ++ [(st.arr.length - 1, cur)] }

/-- `reb_simulation_update_tree_cell`; `none` = a leaf stores an index outside the array (corrupt tree) -/
def walkA (pos : α → Pt K) (flagged : α → Bool) : T K → St α → Option (T K × St α)
  | .nil, st => some (.nil, st)
  | .leaf c g p0, st =>
      let cur := applyLog st.log p0
      match st.arr[cur]? with
      | none => none
      | some p =>
        if inside (pos p) c && !flagged p then some (.leaf c g p0, st)
        else some (.nil, evict flagged st cur p)
  | .node c g _ ch, st =>
      match mapStL (fun o s => walkA pos flagged (ch o) s) (List.finRange 8) st with
      | none => none
      | some (l, st') => some (rebuild c g (fun o => l.getD o.val .nil), st')

/-- the loop over the root boxes (tree.c:308-317) -/
def walkForest (pos : α → Pt K) (flagged : α → Bool) (forest : List (T K)) (st : St α) :
    Option (List (T K) × St α) :=
  mapStL (fun t s => walkA pos flagged t s) forest st

/-- `reb_simulation_add(r, reinsert[i])`: refuse a particle outside the box, else append it to the array and
    insert it into the tree of its root box -/
def addOne (pos : α → Pt K) (inBox : α → Bool) (ri : Pt K → Nat) (rc : Nat → Cell K) (fuel : Nat)
    (s : List (T K) × List α) (p : α) : Except Err (List (T K) × List α) :=
  if !inBox p then .ok s          -- "Particle outside of box boundaries. Did not add particle."
  else
    let arr' := s.2 ++ [p]
    let r := ri (pos p)
    match add (psOf pos arr') fuel (s.1.getD r .nil) (rc r) s.2.length with
    | .ok t => .ok (s.1.set r t, arr')
    | .error e => .error e

/-- `reb_simulation_update_tree` -/
def updateA (pos : α → Pt K) (flagged inBox : α → Bool) (ri : Pt K → Nat) (rc : Nat → Cell K) (fuel : Nat)
    (forest : List (T K)) (arr : List α) : Option (Except Err (List (T K) × List α)) :=
  match walkForest pos flagged forest ⟨arr, [], []⟩ with
  | none => none
  | some (kept, st) =>
    let kept' := kept.map (relabel (applyLog st.log))
    some (st.ev.foldlM (addOne pos inBox ri rc fuel) (kept', st.arr))

/-! ### root boxes (particle.c `reb_get_rootbox_for_particle`, tree.c:86-96, as repaired: clamp) -/

/-- `i = i<0 ? 0 : (i>=N ? N-1 : i)` -/
def clampIdx (i : Int) (n : Nat) : Nat :=
  if i < 0 then 0 else if i ≥ (n : Int) then n - 1 else i.toNat

/-- `(int)floor((x + boxsize/2.)/root_size)`, clamped; `floor` is a parameter (`Float`: libm floor + cast) -/
def axisIdx (floor : K → Int) (x b rs : K) (n : Nat) : Nat :=
  clampIdx (floor ((x + b / Scalar.ofNat 2) / rs)) n

/-- `-boxsize/2. + root_size*(0.5+(double)i)` -/
def axisCentre (b rs : K) (i : Nat) : K :=
  (Scalar.neg b) / Scalar.ofNat 2 + rs * (Scalar.one / Scalar.ofNat 2 + Scalar.ofNat i)

/-- `boxsize = root_size*(double)N_root` (reb_simulation_configure_box) -/
def boxLen (rs : K) (n : Nat) : K := rs * Scalar.ofNat n

/-- `reb_get_rootbox_for_particle`: `(k*N_root_y+j)*N_root_x+i` -/
def rootIdx (floor : K → Int) (rs : K) (nx ny nz : Nat) (p : Pt K) : Nat :=
  let i := axisIdx floor p.x (boxLen rs nx) rs nx
  let j := axisIdx floor p.y (boxLen rs ny) rs ny
  let k := axisIdx floor p.z (boxLen rs nz) rs nz
  (k * ny + j) * nx + i

/-- geometry of the root cell of root box `r` (the same `i,j,k` as in `rootIdx`) -/
def rootCellOf (rs : K) (nx ny nz : Nat) (r : Nat) : Cell K :=
  { x := axisCentre (boxLen rs nx) rs (r % nx)
    y := axisCentre (boxLen rs ny) rs ((r / nx) % ny)
    z := axisCentre (boxLen rs nz) rs (r / (nx * ny))
    w := rs }

end generic
end RV.TreeArr
