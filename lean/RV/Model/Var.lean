import RV.Scalar
import RV.Model.Dual
/-
  Model of the variational code of REBOUND, written once over `[Scalar K]` in the
  operation order of the C source.

    src/gravity.c:161-179     BASIC pairwise force, all particles active      forcePair / accBasicAll
    src/gravity.c:200-212     force on a test particle                        tpForceTerm / tpForce
    src/gravity.c:1031-1074   reb_calculate_acceleration_var, 1st order       var1Pair / accVar1
    src/gravity.c:1117-1154   1st order, single test-particle variation       tpVar1Term / tpVar1
    src/gravity.c:1167-1260   2nd order                                       var2Pair / accVar2
    src/gravity.c:1262-1325   2nd order, single test-particle variation       tpVar2Term / tpVar2
    src/tools.c:272-312       move_to_com, 1st-order variational correction   comShift1
    src/tools.c:173-270       move_to_com, 2nd-order variational correction   comShift2
    src/tools.c:1298-1371     reb_simulation_rescale_var                      rescaleVar

  The square root is an explicit parameter `sq` (Float: `Float.sqrt`; theorems: any
  function with `sq s * sq s = s` on the squared distances that occur; duals:
  `Dual.sqrtLift sq`).  No Mathlib; this is *my own* minimal force model (the C02
  builder owns RV/Model/Gravity.lean; nothing here depends on it).
-/
namespace RV.Var
open RV

/-- what gravity sees of a particle -/
structure GP (K : Type) where
  m : K
  x : K
  y : K
  z : K
deriving Repr, Inhabited

/-! ## the two pair-loop shapes of gravity.c -/
section loops
variable {α A : Type}

/-- inner loop: particle `pi` (accumulator `ai`) against the particles `ps` with
    accumulators `as`, in list order.  `f pi pj = (what is added to a[i], what is added to a[j])`. -/
def inner (add : A → A → A) (f : α → α → A × A) (pi : α) : A → List α → List A → A × List A
  | ai, pj :: ps, aj :: as =>
    let c := f pi pj
    let res := inner add f pi (add ai c.1) ps as
    (res.1, add aj c.2 :: res.2)
  | ai, _, _ => (ai, [])

/-- `for (i=0;i<N;i++) for (j=0;j<i;j++) body(i,j)` (later particle first):
    BASIC force loop and first-order variational loop.  `done`/`accs`: particles `[0,i)`
    and their accumulators; every accumulator starts at `zero`. -/
def loopLF (add : A → A → A) (zero : A) (f : α → α → A × A) : List α → List A → List α → List A
  | _, accs, [] => accs
  | done, accs, pi :: rest =>
    let res := inner add f pi zero done accs
    loopLF add zero f (done ++ [pi]) (res.2 ++ [res.1]) rest

/-- `for (i=0;i<N;i++) for (j=i+1;j<N;j++) body(i,j)` (earlier particle first):
    second-order variational loop. -/
def loopEF (add : A → A → A) (f : α → α → A × A) : List α → List A → List A
  | pi :: rest, ai :: ar =>
    let res := inner add f pi ai rest ar
    res.1 :: loopEF add f rest res.2
  | _, _ => []

/-- `for (i=N_active;i<N;i++) for (j=0;j<N_active;j++) body(i,j)`: test particles against
    the active ones (gravity.c:200-222 and 1075-1115).  `back` = `testparticle_type`: only then
    is `a[j]` updated.  Returns (accumulators of the active particles, accumulators of the
    test particles). -/
def crossLoop (add : A → A → A) (zero : A) (f : α → α → A × A) (back : Bool) (act : List α) :
    List A → List α → List A × List A
  | accs, [] => (accs, [])
  | accs, pi :: rest =>
    let res := inner add f pi zero act accs
    let r := crossLoop add zero f back act (if back then res.2 else accs) rest
    (r.1, res.1 :: r.2)

end loops

variable {K : Type} [Scalar K]

def three : K := Scalar.ofNat 3
def fifteen : K := Scalar.ofNat 15
def two : K := Scalar.ofNat 2

/-! ## force (gravity.c:161-179, `REB_GRAVITY_BASIC`, no ghost boxes, gravity_ignore_terms = 0) -/

/-- body of the pair loop: returns (added to a[i], added to a[j]) -/
def forcePair (G soft2 : K) (sq : K → K) (pi pj : GP K) : V3 K × V3 K :=
  let dx := pi.x - pj.x
  let dy := pi.y - pj.y
  let dz := pi.z - pj.z
  let r := sq (dx*dx + dy*dy + dz*dz + soft2)
  let prefact := G / (r*r*r)
  let prefactj := (-prefact) * pj.m
  let prefacti := prefact * pi.m
  (⟨prefactj*dx, prefactj*dy, prefactj*dz⟩, ⟨prefacti*dx, prefacti*dy, prefacti*dz⟩)

/-- accelerations of all particles, all active -/
def accBasicAll (G soft2 : K) (sq : K → K) (ps : List (GP K)) : List (V3 K) :=
  loopLF V3.add V3.zero (forcePair G soft2 sq) [] [] ps

/-- `gravity_ignore_terms` (set to 1 by WHFast in Jacobi coordinates, 2 in the heliocentric
    ones): `starti = (ign==0)?1:2`, `startj = (ign==2)?1:0` of gravity.c:145-146 / 1006-1007.
    1 skips the pair (1,0); 2 skips every pair with particle 0. -/
def loopIgn {α : Type} (ign : Nat) (f : α → α → V3 K × V3 K) (ps : List α) : List (V3 K) :=
  match ign, ps with
  | 1, p0 :: p1 :: rest => loopLF V3.add V3.zero f [p0, p1] [V3.zero, V3.zero] rest
  | 2, _ :: p1 :: rest => V3.zero :: loopLF V3.add V3.zero f [p1] [V3.zero] rest
  | _, ps => loopLF V3.add V3.zero f [] [] ps

def accBasicIgn (ign : Nat) (G soft2 : K) (sq : K → K) (ps : List (GP K)) : List (V3 K) :=
  loopIgn ign (forcePair G soft2 sq) ps

/-- accelerations with `N_active < N`: `act` active particles, `tst` test particles of type
    `tptype` (gravity.c:161-222); result in index order -/
def accBasicSplit (G soft2 : K) (sq : K → K) (tptype : Bool) (act tst : List (GP K)) : List (V3 K) :=
  let a := loopLF V3.add V3.zero (forcePair G soft2 sq) [] [] act
  let r := crossLoop V3.add V3.zero (forcePair G soft2 sq) tptype act a tst
  r.1 ++ r.2

/-- gravity.c:200-212, one term of the force on a test particle at `(x,y,z)` -/
def tpForceTerm (G soft2 : K) (sq : K → K) (x y z : K) (pj : GP K) : V3 K :=
  let dx := x - pj.x
  let dy := y - pj.y
  let dz := z - pj.z
  let r := sq (dx*dx + dy*dy + dz*dz + soft2)
  let prefact := G / (r*r*r)
  let prefactj := (-prefact) * pj.m
  ⟨prefactj*dx, prefactj*dy, prefactj*dz⟩

def tpForce (G soft2 : K) (sq : K → K) (x y z : K) (others : List (GP K)) : V3 K :=
  others.foldl (fun a pj => V3.add a (tpForceTerm G soft2 sq x y z pj)) V3.zero

/-! ## first order (gravity.c:1031-1074) -/

/-- a real particle together with its first-order variational particle -/
abbrev RV1 (K : Type) := GP K × GP K

def var1Pair (G : K) (sq : K → K) (pi pj : RV1 K) : V3 K × V3 K :=
  let dx := pi.1.x - pj.1.x
  let dy := pi.1.y - pj.1.y
  let dz := pi.1.z - pj.1.z
  let r2 := dx*dx + dy*dy + dz*dz
  let r := sq r2
  let r3inv := Scalar.one / (r2*r)
  let r5inv := three*r3inv/r2
  let ddx := pi.2.x - pj.2.x
  let ddy := pi.2.y - pj.2.y
  let ddz := pi.2.z - pj.2.z
  let Gmi := G * pi.1.m
  let Gmj := G * pj.1.m
  let dxdx := dx*dx*r5inv - r3inv
  let dydy := dy*dy*r5inv - r3inv
  let dzdz := dz*dz*r5inv - r3inv
  let dxdy := dx*dy*r5inv
  let dxdz := dx*dz*r5inv
  let dydz := dy*dz*r5inv
  let dax := ddx * dxdx + ddy * dxdy + ddz * dxdz
  let day := ddx * dxdy + ddy * dydy + ddz * dydz
  let daz := ddx * dxdz + ddy * dydz + ddz * dzdz
  let dGmi := G * pi.2.m
  let dGmj := G * pj.2.m
  (⟨Gmj * dax - dGmj*r3inv*dx, Gmj * day - dGmj*r3inv*dy, Gmj * daz - dGmj*r3inv*dz⟩,
   -- `a[j] -= e` is `a[j] += -e` (bit-identical in IEEE arithmetic)
   ⟨-(Gmi * dax - dGmi*r3inv*dx), -(Gmi * day - dGmi*r3inv*dy), -(Gmi * daz - dGmi*r3inv*dz)⟩)

/-- accelerations of a full first-order set (`vc.testparticle < 0`), all particles active -/
def accVar1 (G : K) (sq : K → K) (ps : List (RV1 K)) : List (V3 K) :=
  loopLF V3.add V3.zero (var1Pair G sq) [] [] ps

/-- first-order set under `gravity_ignore_terms` (the second-order loops do not implement it) -/
def accVar1Ign (ign : Nat) (G : K) (sq : K → K) (ps : List (RV1 K)) : List (V3 K) :=
  loopIgn ign (var1Pair G sq) ps

/-- first-order set with `N_active < N` (gravity.c:1036-1115) -/
def accVar1Split (G : K) (sq : K → K) (tptype : Bool) (act tst : List (RV1 K)) : List (V3 K) :=
  let a := loopLF V3.add V3.zero (var1Pair G sq) [] [] act
  let r := crossLoop V3.add V3.zero (var1Pair G sq) tptype act a tst
  r.1 ++ r.2

/-- gravity.c:1125-1152: one term of the single test-particle variation.
    `(x,y,z)`: real particle `vc.testparticle`; `(ddx,ddy,ddz)`: its variational particle. -/
def tpVar1Term (G : K) (sq : K → K) (x y z ddx ddy ddz : K) (pj : GP K) : V3 K :=
  let dx := x - pj.x
  let dy := y - pj.y
  let dz := z - pj.z
  let r2 := dx*dx + dy*dy + dz*dz
  let r := sq r2
  let r3inv := Scalar.one / (r2*r)
  let r5inv := three*r3inv/r2
  let Gmj := G * pj.m
  let dxdx := dx*dx*r5inv - r3inv
  let dydy := dy*dy*r5inv - r3inv
  let dzdz := dz*dz*r5inv - r3inv
  let dxdy := dx*dy*r5inv
  let dxdz := dx*dz*r5inv
  let dydz := dy*dz*r5inv
  let dax := ddx * dxdx + ddy * dxdy + ddz * dxdz
  let day := ddx * dxdy + ddy * dydy + ddz * dydz
  let daz := ddx * dxdz + ddy * dydz + ddz * dzdz
  ⟨Gmj * dax, Gmj * day, Gmj * daz⟩

/-- `others`: all real particles `j ≠ vc.testparticle` in index order -/
def tpVar1 (G : K) (sq : K → K) (x y z ddx ddy ddz : K) (others : List (GP K)) : V3 K :=
  others.foldl (fun a pj => V3.add a (tpVar1Term G sq x y z ddx ddy ddz pj)) V3.zero

/-! ## second order (gravity.c:1167-1260) -/

/-- real particle, first-order a, first-order b, second-order -/
structure RV2 (K : Type) where
  p  : GP K
  da : GP K
  db : GP K
  dd : GP K

/-- the part of the pair body that does not depend on the masses (lines 1177-1227):
    returns r3inv, r5inv, dx.., dk1d.., dk2d.., rdk1, rdk2, dax, day, daz -/
structure V2Core (K : Type) where
  r3inv : K
  r5inv : K
  dx : K
  dy : K
  dz : K
  dk1dx : K
  dk1dy : K
  dk1dz : K
  dk2dx : K
  dk2dy : K
  dk2dz : K
  rdk1 : K
  rdk2 : K
  dax : K
  day : K
  daz : K

def var2Core (sq : K → K) (dx dy dz ddx ddy ddz dk1dx dk1dy dk1dz dk2dx dk2dy dk2dz : K) : V2Core K :=
  let r2 := dx*dx + dy*dy + dz*dz
  let r := sq r2
  let r3inv := Scalar.one / (r2*r)
  let r5inv := r3inv/r2
  let r7inv := r5inv/r2
  let dax0 := ddx * ( three*dx*dx*r5inv - r3inv )
            + ddy * ( three*dx*dy*r5inv )
            + ddz * ( three*dx*dz*r5inv )
  let day0 := ddx * ( three*dy*dx*r5inv )
            + ddy * ( three*dy*dy*r5inv - r3inv )
            + ddz * ( three*dy*dz*r5inv )
  let daz0 := ddx * ( three*dz*dx*r5inv )
            + ddy * ( three*dz*dy*r5inv )
            + ddz * ( three*dz*dz*r5inv - r3inv )
  let rdk1 := dx*dk1dx + dy*dk1dy + dz*dk1dz
  let rdk2 := dx*dk2dx + dy*dk2dy + dz*dk2dz
  let dk1dk2 := dk1dx*dk2dx + dk1dy*dk2dy + dk1dz*dk2dz
  let dax := dax0 + (three * r5inv * dk2dx * rdk1
                   + three * r5inv * dk1dx * rdk2
                   + three * r5inv * dx * dk1dk2
                   - fifteen * dx * r7inv * rdk1 * rdk2)
  let day := day0 + (three * r5inv * dk2dy * rdk1
                   + three * r5inv * dk1dy * rdk2
                   + three * r5inv * dy * dk1dk2
                   - fifteen * dy * r7inv * rdk1 * rdk2)
  let daz := daz0 + (three * r5inv * dk2dz * rdk1
                   + three * r5inv * dk1dz * rdk2
                   + three * r5inv * dz * dk1dk2
                   - fifteen * dz * r7inv * rdk1 * rdk2)
  { r3inv := r3inv, r5inv := r5inv, dx := dx, dy := dy, dz := dz,
    dk1dx := dk1dx, dk1dy := dk1dy, dk1dz := dk1dz,
    dk2dx := dk2dx, dk2dy := dk2dy, dk2dz := dk2dz,
    rdk1 := rdk1, rdk2 := rdk2, dax := dax, day := day, daz := daz }

/-- lines 1234-1237 for one component: `Gm*da - ddGm*r3inv*d - dk2Gm*r3inv*dk1d
    + 3.*dk2Gm*r5inv*d*rdk1 - dk1Gm*r3inv*dk2d + 3.*dk1Gm*r5inv*d*rdk2` -/
def var2Upd (Gm ddGm dk1Gm dk2Gm r3inv r5inv rdk1 rdk2 da d dk1d dk2d : K) : K :=
  Gm * da - ddGm*r3inv*d
    - dk2Gm*r3inv*dk1d + three*dk2Gm*r5inv*d*rdk1
    - dk1Gm*r3inv*dk2d + three*dk1Gm*r5inv*d*rdk2

def var2Pair (G : K) (sq : K → K) (pi pj : RV2 K) : V3 K × V3 K :=
  let c := var2Core sq (pi.p.x - pj.p.x) (pi.p.y - pj.p.y) (pi.p.z - pj.p.z)
              (pi.dd.x - pj.dd.x) (pi.dd.y - pj.dd.y) (pi.dd.z - pj.dd.z)
              (pi.da.x - pj.da.x) (pi.da.y - pj.da.y) (pi.da.z - pj.da.z)
              (pi.db.x - pj.db.x) (pi.db.y - pj.db.y) (pi.db.z - pj.db.z)
  let Gmi := G * pi.p.m
  let Gmj := G * pj.p.m
  let ddGmi := G * pi.dd.m
  let ddGmj := G * pj.dd.m
  let dk1Gmi := G * pi.da.m
  let dk1Gmj := G * pj.da.m
  let dk2Gmi := G * pi.db.m
  let dk2Gmj := G * pj.db.m
  (⟨var2Upd Gmj ddGmj dk1Gmj dk2Gmj c.r3inv c.r5inv c.rdk1 c.rdk2 c.dax c.dx c.dk1dx c.dk2dx,
    var2Upd Gmj ddGmj dk1Gmj dk2Gmj c.r3inv c.r5inv c.rdk1 c.rdk2 c.day c.dy c.dk1dy c.dk2dy,
    var2Upd Gmj ddGmj dk1Gmj dk2Gmj c.r3inv c.r5inv c.rdk1 c.rdk2 c.daz c.dz c.dk1dz c.dk2dz⟩,
   ⟨-(var2Upd Gmi ddGmi dk1Gmi dk2Gmi c.r3inv c.r5inv c.rdk1 c.rdk2 c.dax c.dx c.dk1dx c.dk2dx),
    -(var2Upd Gmi ddGmi dk1Gmi dk2Gmi c.r3inv c.r5inv c.rdk1 c.rdk2 c.day c.dy c.dk1dy c.dk2dy),
    -(var2Upd Gmi ddGmi dk1Gmi dk2Gmi c.r3inv c.r5inv c.rdk1 c.rdk2 c.daz c.dz c.dk1dz c.dk2dz)⟩)

/-- accelerations of a full second-order set; the C loop runs over *all* real particles
    (not only the active ones) with `i<j` -/
def accVar2 (G : K) (sq : K → K) (ps : List (RV2 K)) : List (V3 K) :=
  loopEF V3.add (var2Pair G sq) ps (ps.map (fun _ => V3.zero))

/-- second-order set restricted to what the force routine computes when `N_active < N`
    (testparticle_type 0): outer loop over the active particles only, and a test particle `j`
    does not contribute to `a[i]`.  This is what fixes/C16-var-nactive.diff makes of the loop;
    the unpatched loop is `accVar2` whatever `N_active` is. -/
def loopEFsplit {α A : Type} (add : A → A → A) (zero : A) (f : α → α → A × A) :
    List α → List A → List α → List A → List A × List A
  | pi :: rest, ai :: ar, tst, at_ =>
    let res := inner add f pi ai rest ar
    let rt := inner add f pi zero tst at_
    let r := loopEFsplit add zero f rest res.2 tst rt.2
    (res.1 :: r.1, r.2)
  | _, _, _, at_ => ([], at_)

def accVar2Split (G : K) (sq : K → K) (act tst : List (RV2 K)) : List (V3 K) :=
  let r := loopEFsplit V3.add V3.zero (var2Pair G sq) act (act.map (fun _ => V3.zero)) tst (tst.map (fun _ => V3.zero))
  r.1 ++ r.2

/-- gravity.c:1271-1324: one term of the second-order single test-particle variation.
    `dd`: second-order variational particle, `k1`,`k2`: the two first-order ones. -/
def tpVar2Term (G : K) (sq : K → K) (x y z : K) (dd k1 k2 : V3 K) (pj : GP K) : V3 K :=
  let c := var2Core sq (x - pj.x) (y - pj.y) (z - pj.z) dd.x dd.y dd.z k1.x k1.y k1.z k2.x k2.y k2.z
  let Gmj := G * pj.m
  ⟨Gmj * c.dax, Gmj * c.day, Gmj * c.daz⟩

def tpVar2 (G : K) (sq : K → K) (x y z : K) (dd k1 k2 : V3 K) (others : List (GP K)) : V3 K :=
  others.foldl (fun a pj => V3.add a (tpVar2Term G sq x y z dd k1 k2 pj)) V3.zero

/-! ## WHFast, Jacobi coordinates: the Jacobi term of the interaction step and its variation
    (integrator_whfast.c:376-395) -/

/-- velocity increment of Jacobi particle `i>1` (lines 376-383) -/
def whJacKick (G eta dt soft : K) (sq : K → K) (x y z : K) : V3 K :=
  let rj2i := Scalar.one / (x*x + y*y + z*z + soft*soft)
  let rji := sq rj2i
  let rj3iM := rji*rj2i*G*eta
  let prefac1 := dt*rj3iM
  ⟨prefac1*x, prefac1*y, prefac1*z⟩

/-- what is added to the velocity of the variational Jacobi particle (lines 385-394) -/
def whJacKickVar (G eta dt soft : K) (sq : K → K) (x y z dx dy dz : K) : V3 K :=
  let rj2i := Scalar.one / (x*x + y*y + z*z + soft*soft)
  let rji := sq rj2i
  let rj3iM := rji*rj2i*G*eta
  let prefac1 := dt*rj3iM
  let rj5M := rj3iM*rj2i
  let rdr := dx*x + dy*y + dz*z
  let prefac2 := (-dt)*three*rdr*rj5M
  ⟨prefac1*dx + prefac2*x, prefac1*dy + prefac2*y, prefac1*dz + prefac2*z⟩

/-! ## WHFast symplectic correctors as operator schedules (integrator_whfast.c:554-652)

The primitives are exported by librebound and act on real *and* variational particles
(`reb_whfast_kepler_step`, `reb_simulation_update_acceleration`, `reb_whfast_interaction_step`);
only the refresh of the inertial positions from the Jacobi ones is done separately for the
real particles and for every variational set. -/

inductive WOp (K : Type) where
  /-- `reb_whfast_kepler_step(r, a)` -/
  | kepler (a : K)
  /-- `reb_particles_transform_jacobi_to_inertial_pos(particles, p_jh, particles, N_real, N_active)` -/
  | refreshReal
  /-- the same for `particles+vc.index`, every variational configuration -/
  | refreshVar
  /-- `reb_simulation_update_acceleration(r)` -/
  | acc
  /-- `reb_whfast_interaction_step(r, b)` -/
  | interaction (b : K)
deriving Repr

/-- `reb_whfast_corrector_Z(r, a, b)` as the code performs it, Jacobi coordinates (lines 561-577) -/
def corrZPair (a b : K) : List (WOp K) :=
  [.kepler a, .refreshReal, .refreshVar, .acc, .interaction (-b),
   .kepler ((-two) * a), .refreshReal, .refreshVar, .acc, .interaction b, .kepler a]

/-- the corrector of the real system alone (no variational particles) -/
def corrZReal (a b : K) : List (WOp K) :=
  [.kepler a, .refreshReal, .acc, .interaction (-b),
   .kepler ((-two) * a), .refreshReal, .acc, .interaction b, .kepler a]

/-- what each real operation becomes when variational particles ride along: only the refresh
    has to be repeated for the variational sets, the other primitives handle them internally -/
def dualiseOp : WOp K → List (WOp K)
  | .refreshReal => [.refreshReal, .refreshVar]
  | o => [o]

/-- the `(a, b)` arguments of the successive `reb_whfast_corrector_Z` calls of
    `reb_whfast_apply_corrector(r, inv, order)` (lines 599-651).  `as_` = `a_1..a_8`,
    `bs` = the `b` constants of this order in source order (`b_o1, b_o2, …`).
    Order 3 has its own sign pattern. -/
def correctorStages (order : Nat) (inv dt : K) (as_ bs : List K) : List (K × K) :=
  if order == 3 then
    match as_, bs with
    | a1 :: _, b1 :: _ => [(a1 * dt, (-inv) * b1 * dt), ((-a1) * dt, inv * b1 * dt)]
    | _, _ => []
  else
    let n := bs.length
    let ar := (as_.take n).reverse          -- a_n … a_1
    let down := (ar.zip bs).map (fun p => ((-p.1) * dt, (-inv) * p.2 * dt))
    let up := ((ar.zip bs).reverse).map (fun p => (p.1 * dt, inv * p.2 * dt))
    down ++ up

def correctorPair (order : Nat) (inv dt : K) (as_ bs : List K) : List (WOp K) :=
  (correctorStages order inv dt as_ bs).flatMap (fun p => corrZPair p.1 p.2)

def correctorReal (order : Nat) (inv dt : K) (as_ bs : List K) : List (WOp K) :=
  (correctorStages order inv dt as_ bs).flatMap (fun p => corrZReal p.1 p.2)

/-- run a schedule with a given interpretation of the primitives -/
def runOps {S : Type} (step : WOp K → S → S) (ops : List (WOp K)) (s : S) : S :=
  ops.foldl (fun st o => step o st) s

/-! ## element → Cartesian maps and what the generated derivative functions (RV/Gen/C16Deriv) need -/

/-- the libm functions used by derivatives.c / the constructors, as explicit operations
    (Float: libm; theorems: abstract functions with the properties stated in the theorem) -/
structure DOps (K : Type) where
  sin : K → K
  cos : K → K
  sqrt : K → K
  fabs : K → K

/-- the same operations on dual numbers (chain rule); `sgn` is the derivative of `fabs` -/
def DOps.lift (o : DOps K) (sgn : K → K) : DOps (Dual K) :=
  { sin := fun a => ⟨o.sin a.re, o.cos a.re * a.eps⟩
    cos := fun a => ⟨o.cos a.re, -(o.sin a.re * a.eps)⟩
    sqrt := Dual.sqrtLift o.sqrt
    fabs := fun a => ⟨o.fabs a.re, sgn a.re * a.eps⟩ }

/-- `sgn` on duals (locally constant) -/
def sgnLift (sgn : K → K) : Dual K → Dual K := fun a => ⟨sgn a.re, Scalar.zero⟩

/-- m, x, y, z, vx, vy, vz of a `struct reb_particle` -/
structure P7 (K : Type) where
  m : K
  x : K
  y : K
  z : K
  vx : K
  vy : K
  vz : K
deriving Repr, Inhabited

/-- decimal literal `p/q` (q a power of ten): correctly rounded, hence the double the C compiler produces -/
def dlit (p q : Nat) : K := (Scalar.ofNat p : K) / Scalar.ofNat q

/-- `reb_particle_from_pal` (tools.c:1261-1293) relative to the primary, with the solution
    `(p,q)` of Pal's Kepler equation as inputs -/
def palMap (o : DOps K) (G m M a lam k h ix iy p q : K) : P7 K :=
  let one : K := Scalar.one
  let slp := o.sin (lam + p)
  let clp := o.cos (lam + p)
  let l := one - o.sqrt (one - h*h - k*k)
  let xi := a*(clp + p/(two - l)*h - k)
  let eta := a*(slp - p/(two - l)*k - h)
  let iz := o.sqrt (o.fabs ((Scalar.ofNat 4 : K) - ix*ix - iy*iy))
  let W := eta*ix - xi*iy
  let half : K := dlit 5 10
  let an := o.sqrt (G*(m + M)/a)
  let dxi := an/(one - q)*(-slp + q/(two - l)*h)
  let deta := an/(one - q)*(clp - q/(two - l)*k)
  let dW := deta*ix - dxi*iy
  ⟨m, xi + half*iy*W, eta - half*ix*W, half*iz*W, dxi + half*iy*dW, deta - half*ix*dW, half*iz*dW⟩

/-- `reb_particle_from_orbit_err` (tools.c:955-978) relative to the primary -/
def orbMap (o : DOps K) (G m M a e inc Omega omega f : K) : P7 K :=
  let one : K := Scalar.one
  let r := a*(one - e*e)/(one + e*o.cos f)
  let v0 := o.sqrt (G*(m + M)/a/(one - e*e))
  let cO := o.cos Omega
  let sO := o.sin Omega
  let co := o.cos omega
  let so := o.sin omega
  let cf := o.cos f
  let sf := o.sin f
  let ci := o.cos inc
  let si := o.sin inc
  ⟨m,
   r*(cO*(co*cf - so*sf) - sO*(so*cf + co*sf)*ci),
   r*(sO*(co*cf - so*sf) + cO*(so*cf + co*sf)*ci),
   r*(so*cf + co*sf)*si,
   v0*((e + cf)*(-ci*co*sO - cO*so) - sf*(co*cO - ci*so*sO)),
   v0*((e + cf)*(ci*co*cO - sO*so) - sf*(co*sO + ci*so*cO)),
   v0*((e + cf)*co*si - sf*si*so)⟩

/-! ## which IAS15 arrays `reb_simulation_rescale_var` has to rescale (tools.c:1371-1385) -/

/-- a `struct reb_dp7` member stands for seven arrays -/
def expandMember (m : String × String) : List String :=
  if m.2 == "dp7" then [".p0", ".p1", ".p2", ".p3", ".p4", ".p5", ".p6"].map (fun sfx => m.1 ++ sfx) else [m.1]

/-- the per-particle IAS15 arrays that carry information from one step attempt to the next: all members except
    those whose first use in `reb_integrator_ias15_step` is a plain assignment (scratch arrays).  Every one of
    them is linear in the variational particles and must be divided by the rescale factor. -/
def persistentArrays (members : List (String × String)) (writtenFirst : List (String × Bool)) : List String :=
  (members.filter (fun m => !(writtenFirst.any (fun p => p.1 == m.1 && p.2)))).flatMap expandMember

/-! ## name dispatch of `Particle(variation=, variation2=)` (rebound/particle.py:227-262) -/

/-- shortcut expansion (`l`→`lambda`, `i`→`inc`) -/
def expandShortcut (sc : List (String × String)) (v : String) : String :=
  match sc.find? (fun p => p.1 == v) with
  | some p => p.2
  | none => v

/-- first order: the C symbol suffix, or `none` (Python raises ValueError) -/
def dispatch1 (types : List String) (sc : List (String × String)) (v : String) : Option String :=
  let v := expandShortcut sc v
  if types.contains v then some v else none

/-- second order: names are ordered by their position in `variationtypes` -/
def dispatch2 (types : List String) (sc : List (String × String)) (v1 v2 : String) : Option String :=
  let v1 := expandShortcut sc v1
  let v2 := expandShortcut sc v2
  if types.contains v1 && types.contains v2 then
    if types.idxOf v2 < types.idxOf v1 then some (v2 ++ "_" ++ v1) else some (v1 ++ "_" ++ v2)
  else none

/-- the two element families for which second derivatives exist -/
def orbFamily : List String := ["m", "a", "e", "inc", "Omega", "omega", "f"]
def palFamily : List String := ["m", "a", "lambda", "h", "k", "ix", "iy"]

/-! ## MEGNO bookkeeping (tools.c: reb_tools_megno_update, reb_simulation_megno, reb_simulation_lyapunov) -/

structure Megno (K : Type) where
  Ys : K
  Yss : K
  cov : K
  var : K
  n : Nat
  meanY : K
  meanT : K
deriving Repr

def Megno.init : Megno K := ⟨Scalar.zero, Scalar.zero, Scalar.zero, Scalar.zero, 0, Scalar.zero, Scalar.zero⟩

/-- `reb_simulation_megno`: `if (r->t==0.) return 0.; return r->megno_Yss/r->t;` -/
def megnoOf (isZero : K → Bool) (t Yss : K) : K := if isZero t then Scalar.zero else Yss / t

/-- `reb_tools_megno_update(r, dY, dt_done)` at simulation time `t` -/
def megnoUpdate (isZero : K → Bool) (s : Megno K) (t dY dtDone : K) : Megno K :=
  let Ys := s.Ys + dY
  let Y := Ys / t
  let Yss := s.Yss + Y * dtDone
  let n := s.n + 1
  let nf : K := Scalar.ofNat n
  let dT := t - s.meanT
  let meanT := s.meanT + dT / nf
  let dYm := megnoOf isZero t Yss - s.meanY
  let meanY := s.meanY + dYm / nf
  let cov := s.cov + (nf - Scalar.one) / nf * (t - meanT) * (megnoOf isZero t Yss - meanY)
  let var := s.var + (nf - Scalar.one) / nf * (t - meanT) * (t - meanT)
  ⟨Ys, Yss, cov, var, n, meanY, meanT⟩

/-- a history of updates `(t, dY, dt_done)` -/
def megnoRun (isZero : K → Bool) (s : Megno K) (l : List (K × K × K)) : Megno K :=
  l.foldl (fun st u => megnoUpdate isZero st u.1 u.2.1 u.2.2) s

/-- `reb_simulation_lyapunov` -/
def lyapunovOf (isZero : K → Bool) (s : Megno K) : K := if isZero s.var then Scalar.zero else s.cov / s.var

/-! ## move_to_com, one Cartesian component at a time (tools.c:162-312)

The six components x,y,z,vx,vy,vz are treated identically by the C code. -/

/-- `com.m` of `reb_simulation_com`: running sum starting from 0 -/
def massSum (ms : List K) : K := ms.foldl (fun s m => s + m) Scalar.zero

/-- the specification the variational corrections are derivatives of: Σ m x / Σ m -/
def comSimple (l : List (K × K)) : K :=
  (l.foldl (fun s p => s + p.1 * p.2) Scalar.zero) / massSum (l.map Prod.fst)

/-- one real particle (m,x) with its first-order variational particle (dm,dx) -/
structure C1 (K : Type) where
  m : K
  x : K
  dm : K
  dx : K

/-- tools.c:279-299.  `M = com.m`, `dm = Σ dm_i`. -/
def comShift1 (M : K) (l : List (C1 K)) : K :=
  let dm := massSum (l.map C1.dm)
  l.foldl (fun s p =>
    let s1 := s + p.m/M * p.dx
    let s2 := s1 + p.x/M * p.dm
    s2 - p.x/(M*M) * p.m*dm) Scalar.zero

/-- one real particle with first-order a, b and second-order entries, one component -/
structure C2 (K : Type) where
  m : K
  x : K
  ma : K
  xa : K
  mb : K
  xb : K
  mm : K
  xx : K

/-- tools.c:174-259 -/
def comShift2 (M : K) (l : List (C2 K)) : K :=
  let dma := massSum (l.map C2.ma)
  let dmb := massSum (l.map C2.mb)
  let ddm := massSum (l.map C2.mm)
  l.foldl (fun s p =>
    let s := s + p.xx / M * p.m
    let s := s + p.xa / M * p.mb
    let s := s - p.xa * p.m/M/M*dmb
    let s := s + p.xb / M * p.ma
    let s := s + p.x / M * p.mm
    let s := s - p.x * p.ma/M/M*dmb
    let s := s - p.xb * p.m/M/M*dma
    let s := s - p.x * p.mb/M/M*dma
    let s := s + two*p.x * p.m/M/M/M*dma*dmb
    s - p.x * p.m/M/M*ddm) Scalar.zero

/-! ## reb_simulation_rescale_var (tools.c:1298-1371) -/

structure P6 (K : Type) where
  x : K
  y : K
  z : K
  vx : K
  vy : K
  vz : K
deriving Repr, Inhabited

/-- `struct reb_variational_configuration` (the fields this routine reads or writes) -/
structure VC (K : Type) where
  order : Nat
  index : Nat
  /-- `testparticle >= 0` -/
  single : Bool
  lrescale : K
deriving Repr

/-- the non-field operations the routine uses -/
structure ROps (K : Type) where
  fabs : K → K
  log  : K → K
  /-- `a > b` -/
  gt   : K → K → Bool
  /-- `a < b` -/
  lt   : K → K → Bool

/-- `scale = MAX(fabs(c), scale)` for the six components; `MAX(a,b) = (a)>(b)?(a):(b)` -/
def maxAbs (o : ROps K) (p : P6 K) (scale : K) : K :=
  let mx := fun (a b : K) => if o.gt a b then a else b
  let s := mx (o.fabs p.x) scale
  let s := mx (o.fabs p.y) s
  let s := mx (o.fabs p.z) s
  let s := mx (o.fabs p.vx) s
  let s := mx (o.fabs p.vy) s
  mx (o.fabs p.vz) s

def scaleOf (o : ROps K) (mem : Nat → P6 K) (index n : Nat) : K :=
  (List.range n).foldl (fun s i => maxAbs o (mem (index + i)) s) Scalar.zero

def divP (p : P6 K) (s : K) : P6 K := ⟨p.x/s, p.y/s, p.z/s, p.vx/s, p.vy/s, p.vz/s⟩

structure RState (K : Type) where
  mem : Nat → P6 K
  cfgs : List (VC K)
  /-- bits 1 and 2 of `var_rescale_warning` -/
  warn1 : Bool
  warn2 : Bool

/-- the `for v` loop.  `thr` = 1e100, `nReal = N - N_var`, `sync` = "WHFast/EOS is
    synchronized or another integrator is used".  Early `return`s of the C code leave
    the remaining configurations untouched. -/
def rescaleLoop (o : ROps K) (thr : K) (nReal : Nat) (sync : Bool) :
    (Nat → P6 K) → List (VC K) → Bool → Bool → RState K
  | mem, [], w1, w2 => ⟨mem, [], w1, w2⟩
  | mem, vc :: rest, w1, w2 =>
    if o.lt vc.lrescale Scalar.zero then
      let r := rescaleLoop o thr nReal sync mem rest w1 w2
      { r with cfgs := vc :: r.cfgs }
    else
      let n := if vc.single then 1 else nReal
      let scale := scaleOf o mem vc.index n
      if o.gt scale thr then
        if vc.order == 1 then
          if !sync then ⟨mem, vc :: rest, true, w2⟩
          else
            let vc' := { vc with lrescale := vc.lrescale + o.log scale }
            let mem' := fun k => if vc.index ≤ k ∧ k < vc.index + n then divP (mem k) scale else mem k
            let r := rescaleLoop o thr nReal sync mem' rest w1 w2
            { r with cfgs := vc' :: r.cfgs }
        else ⟨mem, vc :: rest, w1, true⟩
      else
        let r := rescaleLoop o thr nReal sync mem rest w1 w2
        { r with cfgs := vc :: r.cfgs }

def rescaleVar (o : ROps K) (thr : K) (nReal : Nat) (sync : Bool) (mem : Nat → P6 K)
    (cfgs : List (VC K)) : RState K :=
  rescaleLoop o thr nReal sync mem cfgs false false

end RV.Var
