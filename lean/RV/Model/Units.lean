import RV.Model.C20Scalar
/-
  Model of the conversion formulas of rebound/units.py:84-100, in the operation order of
  the Python source (left-to-right `*` `/`; `x**2`, `x**3` are `ScalarP.powi`: CPython calls
  libm `pow`, and so does the `Float` instance; the exact instance is the ring power).

  A unit system is the triple of SI values `(L, T, M)` of its length, time and mass unit.
-/
namespace RV.Units
open RV Scalar
variable {K : Type} [ScalarP K]

/-- `convert_mass(mass, old_m, new_m) = mass*masses_SI[old_m]/masses_SI[new_m]` -/
def convertMass (m oldM newM : K) : K := m * oldM / newM

/-- `convert_length(length, old_l, new_l)` -/
def convertLength (x oldL newL : K) : K := x * oldL / newL

/-- `convert_vel`: `in_SI = vel*L/T; in_SI*T'/L'` -/
def convertVel (v oldL oldT newL newT : K) : K :=
  let inSI := v * oldL / oldT
  inSI * newT / newL

/-- `convert_acc`: `in_SI = acc*L/T**2; in_SI*T'**2/L'` -/
def convertAcc (a oldL oldT newL newT : K) : K :=
  let inSI := a * oldL / ScalarP.powi oldT 2
  inSI * ScalarP.powi newT 2 / newL

/-- `convert_G`: `G_SI*M*T**2/L**3` -/
def convertG (gSI newL newT newM : K) : K :=
  gSI * newM * ScalarP.powi newT 2 / ScalarP.powi newL 3

/-- the part of a particle that `units_convert_particle` touches -/
structure PData (K : Type) where
  m : K
  x : K
  y : K
  z : K
  r : K
  vx : K
  vy : K
  vz : K
  ax : K
  ay : K
  az : K
deriving Repr

/-- `units_convert_particle(p, old_l, old_t, old_m, new_l, new_t, new_m)` -/
def convertParticle (p : PData K) (oL oT oM nL nT nM : K) : PData K :=
  { m := convertMass p.m oM nM,
    x := convertLength p.x oL nL, y := convertLength p.y oL nL, z := convertLength p.z oL nL,
    r := convertLength p.r oL nL,
    vx := convertVel p.vx oL oT nL nT, vy := convertVel p.vy oL oT nL nT, vz := convertVel p.vz oL oT nL nT,
    ax := convertAcc p.ax oL oT nL nT, ay := convertAcc p.ay oL oT nL nT, az := convertAcc p.az oL oT nL nT }

end RV.Units
