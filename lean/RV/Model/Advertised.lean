import RV.Model.Sched
/-
  C01 — what REBOUND advertises (documentation, enumerator names, the papers they cite), written down by hand.
  Nothing here is generated.  A generalised order `(p₁, p₂, p₃)` — error terms `ε·dt^p₁ + ε²·dt^p₂ + ε³·dt^p₃` — is
  stated as word-degree limits `[D₀, D₁, D₂, D₃]`: every word with `m` letters `B` and length `≤ D_m` has the
  coefficient it has in `exp(dt(A+B))`; `D₀ = D₁ = p₁`, `D_m = min(p_m, p₁ + m − 1)` (an `ε·dt^p₁` term of the
  modified Hamiltonian shows up in words with two `B`s from length `p₁ + 2` on).
-/
namespace RV.C01.Adv
open RV.C01

/-- SABA: `ri_saba.type` value ↦ limits.  SABA_n = (2n, 2); SABA_CM_n, SABA_CL_n = (2n, 4);
    SABA(10,4), SABA(8,6,4), SABA(10,6,4), SABAH(8,4,4), SABAH(8,6,4), SABAH(10,6,4) as named. -/
def saba : List (Nat × List Nat) :=
  [(0x0, [2, 2, 2]), (0x1, [4, 4, 2]), (0x2, [6, 6, 2]), (0x3, [8, 8, 2]),
   (0x100, [2, 2, 3, 3]), (0x101, [4, 4, 4, 4]), (0x102, [6, 6, 4, 4]), (0x103, [8, 8, 4, 4]),
   (0x200, [2, 2, 3, 3]), (0x201, [4, 4, 4, 4]), (0x202, [6, 6, 4, 4]), (0x203, [8, 8, 4, 4]),
   (0x4, [10, 10, 4, 4]), (0x5, [8, 8, 6, 4]), (0x6, [10, 10, 6, 4]),
   (0x7, [8, 8, 4, 4]), (0x8, [8, 8, 6, 4]), (0x9, [10, 10, 6, 4])]

/-- the number of stages the documentation gives for each type (rebound.h comments) -/
def sabaStages : List (Nat × Nat) :=
  [(0x0, 1), (0x1, 2), (0x2, 3), (0x3, 4), (0x100, 1), (0x101, 2), (0x102, 3), (0x103, 4),
   (0x200, 1), (0x201, 2), (0x202, 3), (0x203, 4), (0x4, 7), (0x5, 7), (0x6, 8), (0x7, 6), (0x8, 8), (0x9, 9)]

/-- the jerk routines: `reb_whfast_calculate_jerk` returns `(∂a/∂x)·a`, whose flow for unit coefficient is
    `exp(-½[B,[B,A]])`; `reb_calculate_and_apply_jerk(r, v)` applies twice that per unit `v` -/
def κWH : Rat := -1/2
def κEOS : Rat := -1

/-- tolerances.  The facts below hold of the decimal literals to 10⁻³⁰ … 10⁻⁵² (SABA, WHFast, IAS15), 10⁻²⁰ (JANUS) and
    10⁻¹⁵ (the 16-digit EOS tables) — the measured residuals are recorded in the evidence on every run.  The obligations
    use the precision that matters for the compiled code (IEEE doubles, 2⁻⁵³ ≈ 1.1·10⁻¹⁶), so that re-typing a constant
    with 17 significant digits is accepted while any change of a coefficient above ~10⁻¹⁵ (10⁻¹³ for EOS) is not. -/
def tolSaba : Rat := 1 / 10^15
def tolWH : Rat := 1 / 10^15
def tolEOS : Rat := 1 / 10^13
def tolJanus : Rat := 1 / 10^15
def tolIAS : Rat := 1 / 10^15

/-- EOS: type ↦ limits.  LF 2, LF4 4, LF6 6, LF8 8 (classical orders: all words), LF4_2 = (4,2),
    LF8_6_4 = (8,6,4), PLF7_6_4 = (7,6,4), PMLF4 4, PMLF6 6 (with jerk terms: words with ≥ 3 letters `B` only to
    length 4, see notes) -/
def eos : List (Nat × List Nat) :=
  [(0x00, [2, 2, 2]), (0x01, [4, 4, 4, 4, 4]), (0x02, [6, 6, 6, 6, 6, 6, 6]), (0x03, [8, 8, 8, 8, 8, 8, 8, 8, 8]),
   (0x04, [4, 4, 2]), (0x05, [8, 8, 6, 4]), (0x06, [7, 7, 6, 4]), (0x07, [4, 4, 4, 4, 4]), (0x08, [6, 6, 6, 4, 4])]

/-- classical order of the EOS types that are symmetric compositions of leapfrog -/
def eosComposition : List (Nat × Nat) := [(0x00, 2), (0x01, 4), (0x02, 6), (0x03, 8)]

/-- WHFast (Jacobi coordinates): (kernel, corrector) ↦ limits.  A first corrector of order `k` leaves `ε·dt^{k+1}`;
    the default kernel has `ε²·dt²`, the other kernels `ε²·dt⁴` (only visible once a corrector removed `ε·dt²`). -/
def whfast (kernel corrector : Nat) : List Nat :=
  let p1 := if corrector = 0 then 2 else corrector + 1
  if kernel = 0 ∨ corrector = 0 then [p1, p1, 2] else [p1, p1, 4]

/-- targets of the first symplectic correctors: `μ_k = k!·[x^k] ((x/2)/sinh(x/2) − 1)/x` for `k = 1, 3, 5, …, 15` -/
def corrMu : List Rat := [-1/24, 7/960, -31/8064, 127/30720, -511/67584, 1414477/67092480, -8191/98304, 118518239/267386880]

/-- number of odd moments a first corrector of the given order fixes (rebound docs: order 3,5,7,11,17 with 2,4,6,10,16 stages) -/
def corrConditions : List (Nat × Nat) := [(3, 1), (5, 2), (7, 3), (11, 5), (17, 8)]

/-- `[x^{2n}] sinh(x/2)/(x/2) = 1/(4ⁿ(2n+1)!)` -/
def sinhcCoeff (n : Nat) : Rat := 1 / ((4 ^ n * fact (2 * n + 1) : Nat) : Rat)

/-- `[x^{2n}] (x/2)/sinh(x/2)` expressed through `corrMu`: `c₀ = 1`, `c_n = μ_{2n−1}/(2n−1)!` -/
def cschCoeff (n : Nat) : Rat := if n = 0 then 1 else corrMu.getD (n - 1) 0 / ((fact (2 * n - 1) : Nat) : Rat)

/-- the WHFast option lattice accepted by `reb_integrator_whfast_init`, as documented: non-default kernels need Jacobi
    coordinates, first correctors Jacobi or barycentric coordinates; orders 0, 3, 5, 7, 11, 17 -/
def whLattice : List (Nat × Nat × Nat × Nat) :=
  [0, 1, 2, 3].flatMap fun coord => [0, 1, 2, 3].flatMap fun kern => [0, 3, 5, 7, 11, 17].flatMap fun corr =>
    [0, 1].filterMap fun c2 =>
      if (kern ≠ 0 ∧ coord ≠ 0) ∨ (corr ≠ 0 ∧ coord ≠ 0 ∧ coord ≠ 3) then none else some (coord, kern, corr, c2)

/-- the part of `whfast kernel corrector` that is decided on words (lengths ≤ 4); longer one-`B` words are covered by the
    equivalent quadrature conditions.  Composition kernel: words with three `B`s and one `A` differ by a multiple of
    `[B,[B,[B,A]]]`, which vanishes for a kinetic `A` quadratic in the momenta and a position-only `B` (not modelled in the
    free algebra), so they are left out. -/
def whfastWords (kernel corrector : Nat) : List Nat :=
  if corrector = 0 then [2, 2, 2] else if kernel = 0 then [4, 4, 2] else if kernel = 2 then [4, 4, 4] else [4, 4, 4, 4]

end RV.C01.Adv
