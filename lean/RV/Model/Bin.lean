/-
  Byte-level model of REBOUND's binary snapshot / Simulationarchive format.

  A file is a list of bytes (`List Nat`, every element < 256 — the bound is only needed
  where stated).  A *position* in a C buffer / stdio stream is represented by the
  **suffix** of the buffer that starts there (`pos = size - rest.length`), together
  with an explicit absolute position where the C code uses `ftell`.  So
      `pos += n`               is  `rest.drop n`
      `pos + 16 > size`        is  `rest.length < 16`
      `pos = 64`               is  `rest := body` (the buffer without its 64-byte header)
      `fread(p,n,1,f) != 1`    is  `rest.length < n`  (and the stream is then at EOF)
      `fseek(f,n,SEEK_CUR)`    never fails forward (stdio), `rest.drop n` may be `[]`.
  A partially successful `fread` into a zero-initialised integer leaves the bytes that
  were available: little-endian decoding `de` of the short list is exactly that value.

  Mirrors (pinned tree):
    output.c:462-472,475-619     field header {u32 type, 4 pad, u64 size}, END, 12-byte trailer
    input.c:62-239               `inputFields` (payload level: later value wins)
    binarydiff.c:113-374         `diffRaw` (bytes, pos1/pos2 logic), `diffF` (same logic on field lists)
    simulationarchive.c:44-90    `snapshot`
    simulationarchive.c:108-348  `scanVersion`, `walkBlob`, `indexLoop`, `openArchive`
    simulationarchive.c:443-609  `appendPlan` (scan, corruption test, repair walk, write)
  The three defects of the pinned tree that touch this code are selectable
  (`Variant`): `current` is the code as it is, `fixed` is the code with fixes/F1,F11,F2.
-/
namespace RV.Bin

abbrev Bytes := List Nat

/-- which of the three repairs are applied to the source being modelled -/
structure Variant where
  /-- F1: a vanished field is written with size 0 (binarydiff.c:175-212) -/
  f1 : Bool
  /-- F11: the index time of a blob without a `t` field is the time of blob 0 (simulationarchive.c:222,243) -/
  f11 : Bool
  /-- F2: the error path of the index builder does not free the caller's handle (simulationarchive.c:317-332) -/
  f2 : Bool
  /-- F19: the index builder reads `t`, version, auto_* only when the size in the file is the size of
      the variable; a `t` field of another size makes the blob corrupt (simulationarchive.c:193-201,244) -/
  f19 : Bool
  /-- F18 (repo commit "compare particle doubles bitwise"): `reb_particle_diff` compares bit patterns -/
  f18 : Bool
  /-- F5 (repo commit "compare variational configurations member-wise"): the `var_config` record is compared
      member by member, the `sim` pointer and the padding are ignored -/
  f5 : Bool
deriving DecidableEq, Repr

/-- the tree as pinned at the start (d4648a4) -/
def Variant.current : Variant := ⟨false, false, false, false, false, false⟩
def Variant.fixed : Variant := ⟨true, true, true, true, true, true⟩

/-! ### constants of the format -/
def END : Nat := 9999
/-- "REBO" little endian: the first 16 bytes of the 64-byte header are read as a field header -/
def HEADER : Nat := 1329743186
def T_ID : Nat := 0
def SAVERSION : Nat := 125
def PARTICLES : Nat := 85
def TRAILER : Nat := 12     -- sizeof(struct reb_simulationarchive_blob)
def FH : Nat := 16          -- sizeof(struct reb_binary_field)

/-! ### little-endian integers -/
/-- little-endian decode of any number of bytes -/
def de : Bytes → Nat
  | [] => 0
  | b :: r => b + 256 * de r

def le32 (n : Nat) : Bytes := [n % 256, n / 256 % 256, n / 65536 % 256, n / 16777216 % 256]

def le64 (n : Nat) : Bytes :=
  [n % 256, n / 256 % 256, n / 65536 % 256, n / 16777216 % 256,
   n / 4294967296 % 256, n / 1099511627776 % 256, n / 281474976710656 % 256,
   n / 72057594037927936 % 256]

/-- value of an `int32_t` whose bit pattern is `n` -/
def sgn32 (n : Nat) : Int := if n % 4294967296 < 2147483648 then (n % 4294967296 : Nat) else (n % 4294967296 : Nat) - 4294967296

/-! ### fields -/
/-- One field as it appears in a stream: header says `size`, `data` follows.  Well formed
    means `size = data.length`; the current encoder of a vanished field (F1) emits a field
    that is not. -/
structure Field where
  ty : Nat
  size : Nat
  data : Bytes
deriving DecidableEq, Repr, Inhabited

def Field.mk' (ty : Nat) (data : Bytes) : Field := ⟨ty, data.length, data⟩

/-- `struct reb_binary_field` as written by `WRITE_FIELD_TYPE` / `memset 0` (pad = 0) -/
def hdrBytes (ty sz : Nat) : Bytes := le32 ty ++ [0, 0, 0, 0] ++ le64 sz

def encF (f : Field) : Bytes := hdrBytes f.ty f.size ++ f.data

def encFs : List Field → Bytes
  | [] => []
  | f :: r => encF f ++ encFs r

def endBytes : Bytes := hdrBytes END 0

/-- trailer `{int32 index, int32 offset_prev, int32 offset_next}` -/
def trailerBytes (idx prev next : Nat) : Bytes := le32 idx ++ le32 prev ++ le32 next

/-- a full serialisation: 64-byte header, fields, END, zero trailer (output.c:475-619) -/
def encStream (hdr : Bytes) (fs : List Field) : Bytes :=
  hdr ++ encFs fs ++ endBytes ++ trailerBytes 0 0 0

/-- `shorter r n = (r.length < n)`, without walking the whole list -/
def shorter : Bytes → Nat → Bool
  | _, 0 => false
  | [], _ + 1 => true
  | _ :: r, n + 1 => shorter r n

/-- read one `struct reb_binary_field` at the current position: (type, size, rest after it) -/
def readHdr (r : Bytes) : Option (Nat × Nat × Bytes) :=
  if shorter r 16 then none
  else some (de (r.take 4), de ((r.drop 8).take 8), r.drop 16)

/-- strict parser: fields up to and including END; `none` if the bytes end first or a
    payload is short.  Returns the fields and what follows END. -/
def parseFs : Nat → Bytes → Option (List Field × Bytes)
  | 0, _ => none
  | fuel + 1, r =>
    match readHdr r with
    | none => none
    | some (ty, sz, p) =>
      if ty = END then some ([], p)
      else if shorter p sz then none
      else match parseFs fuel (p.drop sz) with
        | none => none
        | some (fs, rest) => some (⟨ty, sz, p.take sz⟩ :: fs, rest)

/-- `parse bytes`: the field list of one blob (without END) -/
def parse (r : Bytes) : Option (List Field) := (parseFs (r.length + 1) r).map (·.1)

/-! ### loaded state at payload level (`reb_input_fields`, input.c:62-239) -/
/-- persisted projection of a simulation: field id ↦ payload, most recent first -/
abbrev State := List (Nat × Bytes)

def State.get (st : State) (k : Nat) : Option Bytes := st.lookup k
/-- payload with "absent" and "empty" identified (what the reader does for pointer fields:
    a size-0 pointer field reallocs to nothing and sets N = 0, the state of a fresh simulation) -/
def State.val (st : State) (k : Nat) : Bytes := (st.lookup k).getD []

/-- what `reb_input_fields` does with a field list on top of a loaded state: later value wins -/
def applyF (st : State) : List Field → State
  | [] => st
  | f :: r => applyF ((f.ty, f.data) :: st) r

/-- `reb_input_fields` on a stream position: reads headers until END or a short read; a
    short payload read leaves the bytes that were there (fread), the header pseudo-field
    consumes 48 bytes whatever its size says (input.c:186-204). -/
def inputFields : Nat → Bytes → State → State
  | 0, _, st => st
  | fuel + 1, r, st =>
    match readHdr r with
    | none => st
    | some (ty, sz, p) =>
      if ty = END then st
      else if ty = HEADER then inputFields fuel (p.drop 48) st
      else inputFields fuel (p.drop sz) ((ty, p.take sz) :: st)

def applyB (st : State) (r : Bytes) : State := inputFields (r.length + 1) r st

/-! ### field comparison used by the delta encoder (binarydiff.c:35-51, 219-233) -/
def isNaN64 (b : Nat) : Bool := (b / 4503599627370496 % 2048 == 2047) && (b % 4503599627370496 != 0)
/-- C `==` on two doubles given by their bit patterns -/
def ieeeEq (a b : Nat) : Bool :=
  !isNaN64 a && !isNaN64 b && (a == b || (a % 9223372036854775808 == 0 && b % 9223372036854775808 == 0))

/-- `!reb_particle_diff(p1,p2)` on two 128-byte particle images: 12 doubles with C `!=`,
    the hash; pointer members and padding are not looked at -/
def particleSame (p q : Bytes) : Bool :=
  (List.range 12).all (fun i => ieeeEq (de ((p.drop (8 * i)).take 8)) (de ((q.drop (8 * i)).take 8)))
  && de ((p.drop 104).take 4) == de ((q.drop 104).take 4)

def particlesSame : Nat → Bytes → Bytes → Bool
  | 0, _, _ => true
  | n + 1, p, q => particleSame (p.take 128) (q.take 128) && particlesSame n (p.drop 128) (q.drop 128)

/-- `!fields_differ` for two payloads of equal size (pinned tree) -/
def cmpReal (ty : Nat) (p q : Bytes) : Bool :=
  if ty = PARTICLES then particlesSame (p.length / 128) p q else p == q

/-- `!reb_particle_diff` after the bitwise repair: the 12 doubles byte for byte, the hash -/
def particleSameBits (p q : Bytes) : Bool :=
  p.take 96 == q.take 96 && de ((p.drop 104).take 4) == de ((q.drop 104).take 4)

def particlesSameBits : Nat → Bytes → Bytes → Bool
  | 0, _, _ => true
  | n + 1, p, q => particleSameBits (p.take 128) (q.take 128) && particlesSameBits n (p.drop 128) (q.drop 128)

def VARCONFIG : Nat := 86

/-- `!reb_variational_configuration_diff` on two 40-byte records: the five ints (bytes 8..28) and
    `lrescale` (bytes 32..40, C `!=`); `sim` (0..8) and the padding (28..32) are not looked at -/
def varcfgSame (p q : Bytes) : Bool :=
  (p.drop 8).take 20 == (q.drop 8).take 20 && ieeeEq (de ((p.drop 32).take 8)) (de ((q.drop 32).take 8))

def varcfgsSame : Nat → Bytes → Bytes → Bool
  | 0, _, _ => true
  | n + 1, p, q => varcfgSame (p.take 40) (q.take 40) && varcfgsSame n (p.drop 40) (q.drop 40)

/-- `!fields_differ` of the source variant `v` -/
def cmpOf (v : Variant) (ty : Nat) (p q : Bytes) : Bool :=
  if ty = PARTICLES then
    (if v.f18 then particlesSameBits (p.length / 128) p q else particlesSame (p.length / 128) p q)
  else if ty = VARCONFIG ∧ v.f5 = true then varcfgsSame (p.length / 40) p q
  else p == q

/-! ### delta encoder on field lists, with the position logic of the C code -/
/-- search from just past the header for a field of type `ty` (binarydiff.c:156-174):
    the field and the list after it -/
def findF (ty : Nat) : List Field → Option (Field × List Field)
  | [] => none
  | g :: r => if g.ty = ty then some (g, r) else findF ty r

/-- header-only record emitted for a field of `a` that is absent from `b` -/
def vanished (v : Variant) (f : Field) : Field := ⟨f.ty, if v.f1 then 0 else f.size, []⟩

def sameF (cmp : Nat → Bytes → Bytes → Bool) (f g : Field) : Bool :=
  f.size == g.size && cmp f.ty f.data g.data

/-- the field of `b` the C code compares with: the one at the aligned position `r2` if its
    type matches, else the result of the search from the start; with the list after it -/
def locate (ty : Nat) (b r2 : List Field) : Option (Field × List Field) :=
  match r2 with
  | g :: r2' => if g.ty = ty then some (g, r2') else findF ty b
  | [] => findF ty b

/-- first loop (binarydiff.c:141-288): walk `a`; `r2` is `pos2` (a suffix of `b`) -/
def loop1F (v : Variant) (cmp : Nat → Bytes → Bytes → Bool) (b : List Field) :
    List Field → List Field → List Field
  | [], _ => []
  | f :: a', r2 =>
    match locate f.ty b r2 with
    | none => vanished v f :: loop1F v cmp b a' b
    | some (g, r2') => (if sameF cmp f g then [] else [g]) ++ loop1F v cmp b a' r2'

/-- aligned position of the second loop: `some r1'` if the field at `pos1` has the type -/
def aligned (ty : Nat) (r1 : List Field) : Option (List Field) :=
  match r1 with
  | f :: r1' => if f.ty = ty then some r1' else none
  | [] => none

/-- second loop (binarydiff.c:289-371): walk `b`; `r1` is `pos1` (a suffix of `a`) -/
def loop2F (a : List Field) : List Field → List Field → List Field
  | [], _ => []
  | g :: b', r1 =>
    match aligned g.ty r1 with
    | some r1' => loop2F a b' r1'
    | none => (if (findF g.ty a).isSome then [] else [g]) ++ loop2F a b' a

/-- `reb_binary_diff(a, b, output_option = 0)` on field lists -/
def diffF (v : Variant) (cmp : Nat → Bytes → Bytes → Bool) (a b : List Field) : List Field :=
  loop1F v cmp b a b ++ loop2F a b a

/-- the same function written with look-ups (what the position logic amounts to when ids are unique) -/
def diffSpec (v : Variant) (cmp : Nat → Bytes → Bytes → Bool) (a b : List Field) : List Field :=
  a.flatMap (fun f => match b.find? (fun g => g.ty = f.ty) with
                      | none => [vanished v f]
                      | some g => if sameF cmp f g then [] else [g])
  ++ b.filter (fun g => !(a.any (fun f => f.ty = g.ty)))

/-! ### delta encoder on bytes (binarydiff.c:113-374, output_option = 0)
    `none` = the C code reads outside its buffers (undefined behaviour). -/
def searchRaw (ty : Nat) : Nat → Bytes → Option (Nat × Bytes)
  | 0, _ => none
  | fuel + 1, r2 =>
    match readHdr r2 with
    | none => none                       -- pos2 + 16 > size2 : not found
    | some (ty2, sz2, p2) =>
      if ty2 = END then none
      else if ty2 = ty then some (sz2, p2)
      else searchRaw ty fuel (p2.drop sz2)

def loop1Raw (v : Variant) (cmp : Nat → Bytes → Bytes → Bool) (body2 : Bytes) :
    Nat → Bytes → Bytes → Option Bytes
  | 0, _, _ => some []
  | fuel + 1, r1, r2 =>
    match readHdr r1 with
    | none => some []                                   -- pos1 + 16 > size1
    | some (ty1, sz1, p1) =>
      if ty1 = END then some []
      else
        let r2 := if shorter r2 16 then body2 else r2   -- pos2 + 16 > size2 → pos2 = 64
        match readHdr r2 with
        | none => none
        | some (ty2, sz2, p2) =>
          -- field2: the aligned one if the types agree, else search from the start
          let tgt := if ty1 = ty2 then some (sz2, p2) else searchRaw ty1 (body2.length + 1) body2
          match tgt with
          | none =>                                     -- vanished: header only (F1: with the old size)
            (loop1Raw v cmp body2 fuel (p1.drop sz1) body2).map
              (fun o => hdrBytes ty1 (if v.f1 then 0 else sz1) ++ o)
          | some (sz2, p2) =>
            if shorter p1 sz1 ∨ shorter p2 sz2 then none     -- "Corrupt binary file": memcmp out of bounds
            else
              let same := sz1 == sz2 && cmp ty1 (p1.take sz1) (p2.take sz2)
              (loop1Raw v cmp body2 fuel (p1.drop sz1) (p2.drop sz2)).map
                (fun o => (if same then [] else hdrBytes ty1 sz2 ++ p2.take sz2) ++ o)

def loop2Raw (body1 : Bytes) : Nat → Bytes → Bytes → Option Bytes
  | 0, _, _ => some []
  | fuel + 1, r2, r1 =>
    match readHdr r2 with
    | none => some []
    | some (ty2, sz2, p2) =>
      if ty2 = END then some []
      else
        let r1 := if shorter r1 16 then body1 else r1
        match readHdr r1 with
        | none => none
        | some (ty1, sz1, p1) =>
          if ty1 = ty2 then loop2Raw body1 fuel (p2.drop sz2) (p1.drop sz1)
          else match searchRaw ty2 (body1.length + 1) body1 with
            | some _ => loop2Raw body1 fuel (p2.drop sz2) body1
            | none =>
              if shorter p2 sz2 then none
              else (loop2Raw body1 fuel (p2.drop sz2) body1).map (fun o => hdrBytes ty2 sz2 ++ p2.take sz2 ++ o)

def diffRaw (v : Variant) (cmp : Nat → Bytes → Bytes → Bool) (buf1 buf2 : Bytes) : Option Bytes :=
  if buf1.length < 64 ∨ buf2.length < 64 then none
  else
    let b1 := buf1.drop 64
    let b2 := buf2.drop 64
    match loop1Raw v cmp b2 (b1.length + 1) b1 b2, loop2Raw b1 (b2.length + 1) b2 b1 with
    | some x, some y => some (x ++ y)
    | _, _ => none

/-! ### index builder (simulationarchive.c:108-348) -/
def AUTO_INTERVAL : Nat := 47
def AUTO_WALLTIME : Nat := 102
def AUTO_STEP : Nat := 135

/-- first pass (lines 135-205): value of `sa->version` when the loop ends; `none` = a
    `fread(&member, field.size, 1, f)` with `field.size` larger than the member (lines 193-201:
    the size in the file is trusted — F19): memory next to the member is overwritten -/
def scanVersion (v : Variant) : Nat → Bytes → Nat → Option Nat
  | 0, _, ver => some ver
  | fuel + 1, r, ver =>
    match readHdr r with
    | none => some ver
    | some (ty, sz, p) =>
      if ty = HEADER then scanVersion v fuel (p.drop 48) ver
      else if ty = END then some ver
      else if ty = SAVERSION then
        if v.f19 then scanVersion v fuel (p.drop sz) (if sz = 4 then de (p.take sz) else ver)
        else if sz > 4 then none else scanVersion v fuel (p.drop sz) (de (p.take sz))
      else if ty = T_ID ∨ ty = AUTO_INTERVAL ∨ ty = AUTO_WALLTIME ∨ ty = AUTO_STEP then
        if !v.f19 && sz > 8 then none else scanVersion v fuel (p.drop sz) ver
      else scanVersion v fuel (p.drop sz) ver

inductive BlobWalk where
  /-- END reached: time field seen (if any), absolute position and stream after the END header -/
  | ok (t : Option Bytes) (pos : Nat) (rest : Bytes)
  | readError
  /-- `fread(&(sa->t[i]), field.size, 1, f)` with `field.size > 8` (line 244, F19): writes past the slot -/
  | overflow
deriving Repr

/-- inner do-while (lines 234-262) -/
def walkBlob (v : Variant) : Nat → Nat → Bytes → Option Bytes → BlobWalk
  | 0, _, _, _ => .readError
  | fuel + 1, pos, r, t =>
    match readHdr r with
    | none => .readError
    | some (ty, sz, p) =>
      if ty = HEADER then walkBlob v fuel (pos + 64) (p.drop 48) t
      else if ty = T_ID then
        if v.f19 && sz ≠ 8 then .readError
        else if sz > 8 then .overflow
        else if sz = 0 ∨ shorter p sz then .readError
        else walkBlob v fuel (pos + 16 + sz) (p.drop sz) (some (p.take sz))
      else if ty = END then .ok t (pos + 16) p
      else walkBlob v fuel (pos + 16 + sz) (p.drop sz) t

structure Entry where
  off : Nat
  /-- the bytes read into `sa->t[i]`; `none` = never written (calloc'd / uninitialised: F11) -/
  t : Option Bytes
deriving DecidableEq, Repr

structure IndexOut where
  entries : List Entry
  readError : Bool
  /-- REB_SIMULATION_BINARY_WARNING_CORRUPTFILE raised inside the loop (trailer short) -/
  shortTrailer : Bool
  /-- out-of-bounds write happened (F19) -/
  undefinedB : Bool := false
deriving Repr

/-- outer for-loop (lines 230-316); `i` = blob number, `pos`/`r` = stream position -/
def indexLoop (v : Variant) : Nat → Nat → Nat → Bytes → IndexOut
  | 0, _, _, _ => ⟨[], true, false, false⟩
  | fuel + 1, i, pos, r =>
    match walkBlob v (r.length + 1) pos r none with
    | .readError => ⟨[], true, false, false⟩
    | .overflow => ⟨[], true, false, true⟩
    | .ok t pos1 r1 =>
      let tb := r1.take 12
      let short := tb.length < 12
      let pos2 := pos1 + tb.length
      let offPrev := de ((tb.drop 4).take 4)
      let offNext := de ((tb.drop 8).take 4)
      if i > 0 ∧ sgn32 offPrev + 12 ≠ (pos2 : Int) - (pos : Int) then ⟨[], true, short, false⟩
      else if offNext = 0 ∨ short then ⟨[⟨pos, t⟩], false, short, false⟩
      else
        let o := indexLoop v fuel (i + 1) pos2 (r1.drop 12)
        ⟨⟨pos, t⟩ :: o.entries, o.readError, o.shortTrailer, o.undefinedB⟩

inductive OpenResult where
  /-- archive opened: entries, and whether the corrupt-file warning is raised -/
  | ok (entries : List Entry) (warnCorrupt : Bool)
  /-- REB_SIMULATION_BINARY_ERROR_OLD ("version < 2"): clean error, nothing of the caller touched -/
  | errorOld
  /-- REB_SIMULATION_BINARY_ERROR_SEEK: no complete snapshot.  `freesCaller` = the callee
      called `free` on the handle it was given (F2) -/
  | errorSeek (freesCaller : Bool)
  /-- the reader wrote outside an object (F19): anything may happen -/
  | undefined
deriving Repr, DecidableEq

/-- F11 repair: a blob without a time field gets the time of blob 0 -/
def fixTimes (v : Variant) (es : List Entry) : List Entry :=
  if v.f11 then
    match es with
    | [] => []
    | e0 :: r => e0 :: r.map (fun e => ⟨e.off, match e.t with | some t => some t | none => e0.t⟩)
  else es

/-- `reb_read_simulationarchive_from_stream_with_messages` (sa_index = NULL) -/
def openArchive (v : Variant) (file : Bytes) : OpenResult :=
  match scanVersion v (file.length + 1) file 0 with
  | none => .undefined
  | some ver =>
    if ver < 2 then .errorOld
    else
      let o := indexLoop v (file.length + 1) 0 0 file
      if o.undefinedB then .undefined
      else if o.readError then
        if o.entries.length > 0 then .ok (fixTimes v o.entries) true
        else .errorSeek (!v.f2)
      else .ok (fixTimes v o.entries) o.shortTrailer

def OpenResult.entries : OpenResult → List Entry
  | .ok es _ => es
  | _ => []

/-- the index the property talks about: offsets and times of the exposed snapshots -/
def index (v : Variant) (file : Bytes) : List Entry := (openArchive v file).entries

/-- `reb_simulation_create_from_simulationarchive(sa,k)` at payload level
    (simulationarchive.c:44-90): blob 0, overlaid with blob k -/
def snapshot (init : State) (file : Bytes) (offs : List Nat) (k : Nat) : Option State :=
  match offs[k]? with
  | none => none
  | some off =>
    let s0 := applyB init file
    if k = 0 then some s0 else some (applyB s0 (file.drop off))

/-! ### writer: `reb_simulation_save_to_file` on an existing file (simulationarchive.c:474-608) -/
/-- `fread(&field, 16, 1, of)`: the bytes that were available overwrite the front of the
    16-byte variable (its padding bytes 4..7 are later written out with the END marker) -/
def freadInto (old src : Bytes) (n : Nat) : Bytes :=
  let got := src.take n
  got ++ old.drop got.length

/-- scan of the first blob (lines 484-492): `(size_old, bytesread = 1, contents of field)` -/
def scanFirst : Nat → Nat → Bytes → Bytes → Nat × Bool × Bytes
  | 0, pos, _, fld => (pos, false, fld)
  | fuel + 1, pos, r, fld =>
    match readHdr r with
    | none => (pos, false, freadInto fld r 16)
    | some (ty', sz', p) =>
      if ty' = END then (pos + 16 + sz', true, r.take 16)
      else scanFirst fuel (pos + 16 + sz') (p.drop sz') (r.take 16)

/-- the repair walk (lines 555-580): returns `last_blob` and the contents of `field`.
    `pos` is the stream position at the top of the loop -/
def repairWalk (file : Bytes) : Nat → Nat → Nat → Bytes → Nat × Bytes
  | 0, _, last, fld => (last, fld)
  | fuel + 1, pos, last, fld =>
    if pos < 16 then (last, fld)
    else
      let src := file.drop (pos - 16)
      let fld' := freadInto fld src 16
      match readHdr src with
      | none => (last, fld')
      | some (ty, _, _) =>
        if ty ≠ END then (last, fld')
        else
          let tb := (file.drop pos).take 12
          if tb.length < 12 then (last, fld')
          else
            let next := sgn32 (de ((tb.drop 8).take 4))
            if next > 0 then repairWalk file fuel (pos + 12 + next.toNat) (pos + 12) fld'
            else (pos + 12, fld')

/-- the corruption test (lines 523-549): verdict and the contents of `field` afterwards -/
def fileCorrupt (file : Bytes) (moreThanOne : Bool) (fld : Bytes) : Bool × Bytes :=
  if file.length < 12 then (true, fld)
  else
    let tb := file.drop (file.length - 12)
    let prev := sgn32 (de ((tb.drop 4).take 4))
    let next := sgn32 (de ((tb.drop 8).take 4))
    if (moreThanOne && prev ≤ 0) || next ≠ 0 then (true, fld)
    else if !moreThanOne then (false, fld)
    else
      -- END field expected right before the trailer
      if file.length < 28 then (true, fld)
      else
        let src := file.drop (file.length - 28)
        let fld' := src.take 16
        match readHdr src with
        | none => (true, fld')
        | some (ty, sz, _) =>
          -- previous trailer: fseek(-offset_prev-12, SEEK_CUR) from file.length-12
          let p : Int := (file.length : Int) - 12 - prev - 12
          let bad2 : Bool :=
            if p < 0 then true
            else
              let tb2 := (file.drop p.toNat).take 12
              if tb2.length < 12 then true
              else sgn32 (de ((tb2.drop 8).take 4)) ≠ prev
          (decide (ty ≠ END ∨ sz ≠ 0) || bad2, fld')

structure Plan where
  /-- absolute position of the first byte written -/
  pos : Nat
  /-- the bytes written, in order: patched trailer, delta, END, new trailer -/
  data : Bytes
  repaired : Bool
deriving Repr

inductive AppendOut where
  | plan (p : Plan)
  /-- "A recovery attempt has failed. No snapshot has been saved." -/
  | refused
  /-- the C code would read outside a buffer -/
  | undefined
deriving Repr

def appendPlan (v : Variant) (cmp : Nat → Bytes → Bytes → Bool) (file s : Bytes) : AppendOut :=
  let (sizeOld, okRead, fld0) := scanFirst (file.length + 1) 64 (file.drop 64) (List.replicate 16 0)
  if !okRead then .refused
  else
    let tb0 := (file.drop sizeOld).take 12
    if tb0.length < 12 then .refused
    else
      let more := decide (sgn32 (de ((tb0.drop 8).take 4)) > 0)
      match diffRaw v cmp (file.take sizeOld) s with
      | none => .undefined
      | some delta =>
        let (corrupt, fld1) := fileCorrupt file more fld0
        let (last, fld2) := if corrupt then repairWalk file (file.length + 1) sizeOld (sizeOld + 12) fld1
                            else (file.length, fld1)
        let tb := (file.drop (last - 12)).take 12
        let idx := de (tb.take 4)
        let prev := de ((tb.drop 4).take 4)
        let next := (delta.length + 16) % 4294967296
        let endHdr := le32 END ++ (fld2.drop 4).take 4 ++ le64 0
        .plan ⟨last - 12,
               trailerBytes idx prev next ++ delta ++ endHdr ++ trailerBytes ((idx + 1) % 4294967296) next 0,
               corrupt⟩

/-- `fwrite` at a position of a file opened "r+b": overwrite, extend, never truncate -/
def overwrite (file : Bytes) (pos : Nat) (data : Bytes) : Bytes :=
  file.take pos ++ data ++ file.drop (pos + data.length)

/-- the file after the process died having written the first `k` bytes of `data` -/
def crash (file : Bytes) (pos : Nat) (data : Bytes) (k : Nat) : Bytes :=
  overwrite file pos (data.take k)

/-- `reb_simulation_save_to_file` when the file exists; `none` = refused / undefined -/
def append (v : Variant) (cmp : Nat → Bytes → Bytes → Bool) (file s : Bytes) : Option Bytes :=
  match appendPlan v cmp file s with
  | .plan p => some (overwrite file p.pos p.data)
  | _ => none

/-- archive written by saving `s0` to a fresh file and appending `s1 … sn` -/
def appends (v : Variant) (cmp : Nat → Bytes → Bytes → Bool) (s0 : Bytes) : List Bytes → Option Bytes
  | [] => some s0
  | s :: r => match append v cmp s0 s with
    | none => none
    | some f => appends v cmp f r

/-- the recovery decision of the writer (simulationarchive.c:484-587), as a function of the file alone:
    `(size_old, last_blob, contents of field, file_corrupt)`; `none` = "A recovery attempt has failed" -/
def recoverOf (file : Bytes) : Option (Nat × Nat × Bytes × Bool) :=
  let sc := scanFirst (file.length + 1) 64 (file.drop 64) (List.replicate 16 0)
  if !sc.2.1 then none
  else
    let tb0 := (file.drop sc.1).take 12
    if tb0.length < 12 then none
    else
      let more := decide (sgn32 (de ((tb0.drop 8).take 4)) > 0)
      let fc := fileCorrupt file more sc.2.2
      let rw := if fc.1 then repairWalk file (file.length + 1) sc.1 (sc.1 + 12) fc.2 else (file.length, fc.2)
      some (sc.1, rw.1, rw.2, fc.1)

/-- **NoFakeTrailer** (DESIGN C07), the explicit hypothesis of the restart theorem: the writer's recovery
    logic — which looks only at the last 28 bytes, one earlier trailer and, if those look wrong, at the
    END/trailer positions along the offset chain — ends at `lastIntact`, the end of the last intact blob,
    with a clean END template.  An interrupted write whose bytes imitate `END header ++ trailer` at the
    places it looks defeats it.  Decidable; the driver evaluates it on every generated image. -/
def noFakeTrailer (img : Bytes) (lastIntact : Nat) : Bool :=
  match recoverOf img with
  | some (_, last, fld, _) => last == lastIntact && (fld.drop 4).take 4 == [0, 0, 0, 0]
  | none => false

end RV.Bin
