import RV.Model.Diag
/-
  Centre-of-mass bookkeeping of one TRACE step (integrator_trace.c):

    reb_integrator_trace_inertial_to_dh   :174-204   com_pos, com_vel from the (active) particles
    reb_integrator_trace_com_step         :290-294   com_pos += dt*com_vel
    reb_integrator_trace_part2            :807-848   backup AFTER inertial_to_dh; a rejected step restores
                                                     particles and com_pos and runs the step again

  `ri_trace.com_pos` is state that survives between steps (and is not stored in archives): `stale`
  is whatever the previous step / a restore / a fresh simulation left there.
-/
namespace RV.TraceCom
open RV Scalar RV.Gravity RV.Diag
variable {K : Type} [Scalar K]

structure ComSt (K : Type) where
  pos : V3 K
  vel : V3 K

/-- the accumulation loop of `inertial_to_dh` over the first `nAct` particles -/
def dhSums (nAct : Nat) (ps : Array (Part K)) : V3 K × V3 K × K :=
  forRange 0 nAct ((V3.zero, V3.zero, Scalar.zero) : V3 K × V3 K × K) fun s i =>
    match ps[i]? with
    | some p =>
      (⟨s.1.x + p.m * p.x.x, s.1.y + p.m * p.x.y, s.1.z + p.m * p.x.z⟩,
       ⟨s.2.1.x + p.m * p.v.x, s.2.1.y + p.m * p.v.y, s.2.1.z + p.m * p.v.z⟩,
       s.2.2 + p.m)
    | none => s

/-- `com_pos`, `com_vel` as `inertial_to_dh` stores them (it overwrites the previous content) -/
def dhCom (nAct : Nat) (ps : Array (Part K)) : ComSt K :=
  let s := dhSums nAct ps
  let mt := s.2.2
  ⟨⟨s.1.x / mt, s.1.y / mt, s.1.z / mt⟩, ⟨s.2.1.x / mt, s.2.1.y / mt, s.2.1.z / mt⟩⟩

/-- `reb_integrator_trace_com_step` -/
def comStep (dt : K) (c : ComSt K) : ComSt K :=
  { c with pos := ⟨c.pos.x + dt * c.vel.x, c.pos.y + dt * c.vel.y, c.pos.z + dt * c.vel.z⟩ }

/-- the centre-of-mass part of `reb_integrator_trace_part2` when the step runs the
    interaction/jump/Kepler/COM sequence (no FULL pericentre prescription): `stale` is overwritten by
    `inertial_to_dh`, the backup is taken from the fresh value, the first attempt moves the centre of mass,
    a rejection restores the backup and the second attempt moves it again. -/
def part2Com (dt : K) (nAct : Nat) (rejected : Bool) (stale : V3 K) (ps : Array (Part K)) : ComSt K :=
  let c0 : ComSt K := dhCom nAct ps     -- `stale` is not read: inertial_to_dh assigns com_pos
  let backup := c0.pos
  let c1 := comStep dt c0
  if rejected then comStep dt { c1 with pos := backup } else c1

end RV.TraceCom
