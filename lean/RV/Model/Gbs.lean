/-
  C01 — the Gragg–Bulirsch–Stoer step of src/integrator_bs.c as exact-rational functions (Mathlib-free):
  `mmid`  = the modified-midpoint loop of `tryStep` for a scalar ODE y' = f(t, y) (operation order of the source),
  `go`, `stage`, `table` = `extrapolate` as called by `reb_integrator_bs_step` (C = D[k] = T_k on entry; the in-place
  Aitken–Neville update of C and D[k-1], …, D[0]; y1 = Σ D[j]).
-/
namespace RV.C01.Gbs

/-- `ri_bs->sequence[k] = 4k + 2` -/
def seq (k : Nat) : Nat := 4 * k + 2
/-- `r = 1/sequence[k]; coeff[k] = r*r` -/
def coeff (k : Nat) : Rat := (1 / (seq k : Rat)) * (1 / (seq k : Rat))

/-- modified midpoint with `n` substeps over `[t0, t0+H]`, as in `tryStep` -/
def mmidLoop (f : Rat → Rat → Rat) (sub : Rat) : Nat → Rat → Rat → Rat → Rat → Rat × Rat × Rat × Rat
  | 0, t, y1, yTmp, yDot => (t, y1, yTmp, yDot)
  | j+1, t, y1, yTmp, yDot =>
    let t' := t + sub
    let y1' := yTmp + 2 * sub * yDot
    mmidLoop f sub j t' y1' y1 (f t' y1')

def mmid (f : Rat → Rat → Rat) (t0 H y0 : Rat) (n : Nat) : Rat :=
  let sub := H / (n : Rat)
  let t := t0 + sub
  let y1 := y0 + sub * f t0 y0
  let r := mmidLoop f sub (n - 1) t y1 y0 (f t y1)
  (1/2) * (r.2.2.1 + r.2.1 + sub * r.2.2.2)

/-- one call of `extrapolate`: `xs`, `ds` = abscissae and D-entries of rows k-1, k-2, …, 0 (most recent first) -/
def go (xk : Rat) : List Rat → List Rat → Rat → List Rat
  | xi :: xs, d :: ds, C =>
    let CD := C - d
    (xk / (xi - xk) * CD) :: go xk xs ds (xi / (xi - xk) * CD)
  | _, _, _ => []

/-- the value of C after the loop of `extrapolate` (the error estimate of the step-size control) -/
def goC (xk : Rat) : List Rat → List Rat → Rat → Rat
  | xi :: xs, d :: ds, C => goC xk xs ds (xi / (xi - xk) * (C - d))
  | _, _, C => C

/-- abscissae `[x k, x (k-1), …, x 0]` -/
def xsDown (x : Nat → Rat) : Nat → List Rat
  | 0 => [x 0]
  | k+1 => x (k+1) :: xsDown x k

/-- the D-column after row `k` (most recent first): `D[k] = T k`, the others updated in place -/
def table (x : Nat → Rat) (T : Nat → Rat) : Nat → List Rat
  | 0 => [T 0]
  | k+1 => T (k+1) :: go (x (k+1)) (xsDown x k) (table x T k) (T (k+1))

def sumL : List Rat → Rat
  | [] => 0
  | a :: r => a + sumL r

/-- `y1` after row `k`: the extrapolated value -/
def extrap (x : Nat → Rat) (T : Nat → Rat) (k : Nat) : Rat := sumL (table x T k)

/-- `Σ_j a_j · x^(m+j)` -/
def polyFrom (a : List Rat) (m : Nat) (x : Rat) : Rat :=
  match a with
  | [] => 0
  | a0 :: as => polyFrom as (m+1) x + a0 * x ^ m

/-- the GBS value after rows 0..k for the scalar ODE y' = f(t, y) -/
def gbs (f : Rat → Rat → Rat) (t0 H y0 : Rat) (k : Nat) : Rat :=
  extrap coeff (fun i => mmid f t0 H y0 (seq i)) k
end RV.C01.Gbs
