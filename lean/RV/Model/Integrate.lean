import RV.Scalar
/-
  C08 — model of the integrate() state machine.

  Mirrors, branch for branch and in the order of the C source:
    reb_check_exit               src/rebound.c:653-738
    reb_run_heartbeat            src/rebound.c:741-775   (exit conditions as flags)
    reb_simulation_integrate_raw src/rebound.c:794-888
    reb_collision_resolve_halt   src/collision.c:760-765 (status := COLLISION inside the step)
    r->t / r->dt / r->dt_last_done updates of every integrator (see `StepKind`)

  Written once over an ordered scalar with a sign bit (`ScalarS`); instantiated at `Float`
  by the driver `drv_c08` (bit-for-bit tie against the compiled library) and at a linearly
  ordered field by RV/Proofs/Integrate.lean (theorems of RV/Props/C08.lean).
  No Mathlib here.
-/
namespace RV.Integrate
open RV

/-- ordered scalars with what `copysign`, `fabs` and the two literals of `reb_check_exit` need. -/
class ScalarS (K : Type) extends ScalarO K where
  /-- C `signbit`: true for negative numbers and for -0.0 -/
  signbit : K → Bool
  fabs : K → K
  /-- the literal `1e-12` (rebound.c:685,687) -/
  c1em12 : K
  /-- the literal `1e-200` (rebound.c:686) -/
  c1em200 : K

instance : ScalarS Float where
  signbit x := (x.toBits >>> 63) == 1
  fabs := Float.abs
  c1em12 := Float.ofBits 0x3d719799812dea11
  c1em200 := Float.ofBits 0x16687e92154ef7ac

section ops
variable {K : Type} [ScalarS K]

/-- C `a == b` on doubles (false on NaN, true for -0 == +0) -/
@[inline] def feq (a b : K) : Bool := ScalarO.le a b && ScalarO.le b a
/-- C `a != b` -/
@[inline] def fne (a b : K) : Bool := !(feq a b)
/-- C `a >= b` -/
@[inline] def fge (a b : K) : Bool := ScalarO.le b a
/-- C `a > b` -/
@[inline] def fgt (a b : K) : Bool := ScalarO.lt b a
/-- C `copysign(a, b)`: magnitude of `a`, sign bit of `b` -/
@[inline] def copysign (a b : K) : K :=
  if ScalarS.signbit a == ScalarS.signbit b then a else -a

end ops

/-! ### enum REB_STATUS (src/rebound.h:463-479) -/

inductive Status
  | singleStep | screenshotReady | screenshot | paused | lastStep | running
  | success | genericError | noParticles | encounter | escape | user | sigint | collision
deriving DecidableEq, Repr, Inhabited

def Status.code : Status → Int
  | .singleStep => -10
  | .screenshotReady => -5
  | .screenshot => -4
  | .paused => -3
  | .lastStep => -2
  | .running => -1
  | .success => 0
  | .genericError => 1
  | .noParticles => 2
  | .encounter => 3
  | .escape => 4
  | .user => 5
  | .sigint => 6
  | .collision => 7

def Status.all : List Status :=
  [.singleStep, .screenshotReady, .screenshot, .paused, .lastStep, .running, .success,
   .genericError, .noParticles, .encounter, .escape, .user, .sigint, .collision]

/-- the C identifier of each enumerator (compared with the table extracted from rebound.h) -/
def Status.cname : Status → String
  | .singleStep => "REB_STATUS_SINGLE_STEP"
  | .screenshotReady => "REB_STATUS_SCREENSHOT_READY"
  | .screenshot => "REB_STATUS_SCREENSHOT"
  | .paused => "REB_STATUS_PAUSED"
  | .lastStep => "REB_STATUS_LAST_STEP"
  | .running => "REB_STATUS_RUNNING"
  | .success => "REB_STATUS_SUCCESS"
  | .genericError => "REB_STATUS_GENERIC_ERROR"
  | .noParticles => "REB_STATUS_NO_PARTICLES"
  | .encounter => "REB_STATUS_ENCOUNTER"
  | .escape => "REB_STATUS_ESCAPE"
  | .user => "REB_STATUS_USER"
  | .sigint => "REB_STATUS_SIGINT"
  | .collision => "REB_STATUS_COLLISION"

def Status.ofCode? (c : Int) : Option Status := Status.all.find? (fun s => s.code == c)

/-! ### state -/

/-- what the heartbeat of one step boundary observes (ghost record, newest first in `Sim.hist`):
    the time and step size the step was called with, and `t`, `dt`, `dt_last_done`, `status`
    when `reb_run_heartbeat` is entered after it. -/
structure Beat (K : Type) where
  t0 : K
  dt0 : K
  t1 : K
  dt1 : K
  dld1 : K
  st : Int
deriving Repr, BEq, Inhabited

/-- the members of `struct reb_simulation` the state machine reads or writes. `status` is the C
    `int` (the code does `r->status++`), `syncs` counts calls of `reb_simulation_synchronize`,
    `hist` is ghost state. -/
structure Sim (K : Type) where
  t : K
  dt : K
  dtLastDone : K
  status : Int
  exactFinish : Int
  stepsDone : Nat
  nOdes : Nat
  isBS : Bool
  syncs : Nat
  hist : List (Beat K)
deriving Repr, Inhabited

/-- exit conditions as they present themselves at one step boundary. -/
structure Flags where
  /-- a halting collision was resolved inside the step (collision.c:761) -/
  collision : Bool := false
  /-- the user heartbeat called `reb_simulation_stop` (rebound.c:239-241, 742) -/
  user : Bool := false
  /-- some particle has r² > exit_max_distance² (rebound.c:743-755) -/
  escape : Bool := false
  /-- some pair has d² < exit_min_distance² (rebound.c:756-774) -/
  encounter : Bool := false
  /-- `reb_sigint` is non-zero after the heartbeat (rebound.c:859) -/
  sigint : Bool := false
  /-- an error message is waiting (rebound.c:674, 259-270) -/
  errMsg : Bool := false
  /-- `r->N` when `reb_check_exit` runs (rebound.c:718) -/
  n : Nat := 1
  /-- the step itself ended with `r->status = REB_STATUS_GENERIC_ERROR` (integrator_bs.c:430,513: missing
      derivatives / NaN; integrator_whfast512.c; the no-progress guard of fixes/C08-absorbed-step-error.diff) -/
  stepError : Bool := false
deriving Repr, DecidableEq, Inhabited

abbrev stSINGLE_STEP : Int := Status.singleStep.code
abbrev stSCREENSHOT : Int := Status.screenshot.code
abbrev stPAUSED : Int := Status.paused.code
abbrev stLAST_STEP : Int := Status.lastStep.code
abbrev stRUNNING : Int := Status.running.code
abbrev stSUCCESS : Int := Status.success.code
abbrev stGENERIC_ERROR : Int := Status.genericError.code
abbrev stNO_PARTICLES : Int := Status.noParticles.code
abbrev stENCOUNTER : Int := Status.encounter.code
abbrev stESCAPE : Int := Status.escape.code
abbrev stUSER : Int := Status.user.code
abbrev stSIGINT : Int := Status.sigint.code
abbrev stCOLLISION : Int := Status.collision.code

/-! ### the per-step time bookkeeping of the integrators -/

/-- result of one `reb_simulation_step` as far as time bookkeeping goes -/
structure StepOut (K : Type) where
  t : K
  dt : K
  dld : K
deriving Repr, Inhabited

/-- step function: index of the call within this integrate (0-based), then `t`, `dt`,
    `dt_last_done` on entry. -/
abbrev StepFn (K : Type) := Nat → K → K → K → StepOut K

section steps
variable {K : Type} [ScalarS K]

/-- NONE (integrator.c:124-125), SABA (integrator_saba.c:334-335), EOS (integrator_eos.c:675-676),
    MERCURIUS (integrator_mercurius.c:525-526), TRACE (integrator_trace.c:833-834):
    `r->t += r->dt; r->dt_last_done = r->dt;` -/
def stepOnce : StepFn K := fun _ t dt _ => ⟨t + dt, dt, dt⟩

/-- LEAPFROG (integrator_leapfrog.c:47,62-63), WHFast (integrator_whfast.c:1003,1176-1177),
    SEI (integrator_sei.c:72,84-85): `r->t += r->dt/2.` in part1 and again in part2. -/
def stepHalves : StepFn K := fun _ t dt _ =>
  ⟨(t + dt / Scalar.ofNat 2) + dt / Scalar.ofNat 2, dt, dt⟩

/-- JANUS (integrator_janus.c:251): `r->t += r->dt;` and `dt_last_done` is never written. -/
def stepJanus : StepFn K := fun _ t dt dld => ⟨t + dt, dt, dld⟩

/-- IAS15 (integrator_ias15.c:516,617-646,672-673,773) and BS (integrator_bs.c:792-797).
    One `reb_simulation_step` either advances time by the step size it finally used
    (`t += dt_done`, `dt_last_done = dt_done`, `dt = dt_new`; IAS15 retries inside the step with a
    smaller `dt` until it succeeds, so `dt_done` need not be the `dt` on entry; for BS it is) or is
    rejected as a whole (BS: `dt = dt_new`, nothing else).  The decisions `(accepted, dt_done, dt_new)`
    are an oracle indexed by the call. -/
def stepAdaptive (o : Nat → Bool × K × K) : StepFn K := fun k t _dt dld =>
  if (o k).1 then ⟨t + (o k).2.1, (o k).2.2, (o k).2.1⟩ else ⟨t, (o k).2.2, dld⟩

/-! #### the step-size controller of IAS15 (integrator_ias15.c:74, 615-646, 773) -/

/-- `safety_factor = 0.25` (integrator_ias15.c:74) -/
def ias15SF : K := Scalar.one / Scalar.ofNat 4

/-- integrator_ias15.c:615-646 for one attempt done with step `dtDone`, `raw` being the step size
    the error estimate asks for: clamp to `min_dt` keeping the sign (615), reject if the new step
    is less than a quarter of the one just tried (617-639, `(false, dt_new)`: try again with
    `dt_new`), otherwise limit the growth to a factor four (641-645) and accept (`(true, dt_new)`). -/
def ias15Ctl (minDt dtDone raw : K) : Bool × K :=
  let dtNew : K := if ScalarO.lt (ScalarS.fabs raw) minDt then copysign minDt raw else raw
  if ScalarO.lt (ScalarS.fabs (dtNew / dtDone)) ias15SF then (false, dtNew)
  else
    let dtNew : K :=
      if fgt (ScalarS.fabs (dtNew / dtDone)) Scalar.one then
        (if fgt (dtNew / dtDone) (Scalar.one / ias15SF) then dtDone / ias15SF else dtNew)
      else dtNew
    (true, dtNew)

/-- integrator_ias15.c:773 `while(!reb_integrator_ias15_step(r));` — attempts `j, j+1, …` until one
    is accepted; `raw j dt` is what the error estimate of attempt `j` (done with step `dt`) asks for.
    Result: (step done, step proposed), `none` when the fuel runs out. -/
def ias15Attempts (minDt : K) (raw : Nat → K → K) : Nat → Nat → K → Option (K × K)
  | 0, _, _ => none
  | fuel + 1, j, dt =>
    match ias15Ctl minDt dt (raw j dt) with
    | (true, dtNew) => some (dt, dtNew)
    | (false, dtNew) => ias15Attempts minDt raw fuel (j + 1) dtNew

/-- one `reb_simulation_step` of IAS15 as far as time bookkeeping goes (integrator_ias15.c:516,
    672-673): `t += dt_done; dt_last_done = dt_done; dt = dt_new`; out of fuel = nothing happened -/
def stepIAS15 (minDt : K) (raw : Nat → Nat → K → K) (fuel : Nat) : StepFn K := fun k t dt dld =>
  match ias15Attempts minDt (raw k) fuel 0 dt with
  | some (done, new) => ⟨t + done, new, done⟩
  | none => ⟨t, dt, dld⟩

/-- the error estimate is not a normal number (no forces): `dt_new = dt_done/safety_factor`
    (integrator_ias15.c:569, 611) -/
def ias15RawFree : Nat → Nat → K → K := fun _ _ dt => dt / ias15SF

end steps

/-! ### reb_run_heartbeat and the rest of the loop body -/

section machine
variable {K : Type} [ScalarS K]

/-- rebound.c:741-775: user heartbeat, then escape, then encounter; last write wins. -/
def runHeartbeat (s : Sim K) (f : Flags) : Sim K :=
  let s := if f.user then { s with status := stUSER } else s
  let s := if f.escape then { s with status := stESCAPE } else s
  if f.encounter then { s with status := stENCOUNTER } else s

/-! #### the exit conditions computed from the particle positions (rebound.c:743-774) -/

/-- `p.x*p.x + p.y*p.y + p.z*p.z` (rebound.c:750) -/
def norm2 (p : V3 K) : K := p.x * p.x + p.y * p.y + p.z * p.z

/-- squared distance as rebound.c:765-768 computes it for `pi` (later index) and `pj` (earlier index) -/
def dist2 (pi pj : V3 K) : K :=
  let x := pi.x - pj.x
  let y := pi.y - pj.y
  let z := pi.z - pj.z
  x * x + y * y + z * z

/-- rebound.c:743-755: `exit_max_distance` non-zero and some real particle has `r2 > max2` -/
def escapeFlag (maxd : K) (ps : List (V3 K)) : Bool :=
  if fne maxd Scalar.zero then ps.any (fun p => fgt (norm2 p) (maxd * maxd)) else false

/-- some pair `j < i` with `r2 < min2` (rebound.c:761-772; `ps` in index order) -/
def anyClosePair (min2 : K) : List (V3 K) → Bool
  | [] => false
  | pj :: rest => rest.any (fun pi => ScalarO.lt (dist2 pi pj) min2) || anyClosePair min2 rest

/-- rebound.c:756-774 -/
def encounterFlag (mind : K) (ps : List (V3 K)) : Bool :=
  if fne mind Scalar.zero then anyClosePair (mind * mind) ps else false

/-- `reb_run_heartbeat` (rebound.c:741-775) on the positions of the real (non-variational) particles:
    the flags of `runHeartbeat` computed instead of given -/
def heartbeatFlags (userStop : Bool) (maxd mind : K) (ps : List (V3 K)) : Flags :=
  { user := userStop, escape := escapeFlag maxd ps, encounter := encounterFlag mind ps }

/-- rebound.c:857-861: `reb_simulation_step` (time bookkeeping by `step`, `steps_done++`,
    halting collision inside the step), `reb_run_heartbeat`, then the SIGINT test.
    `k` is the index of the step within this call, `f` the flags of the boundary it ends at. -/
def stepAndBeat (step : StepFn K) (k : Nat) (s : Sim K) (f : Flags) : Sim K :=
  let o := step k s.t s.dt s.dtLastDone
  let st := if f.collision then stCOLLISION else if f.stepError then stGENERIC_ERROR else s.status
  let s1 : Sim K := { s with t := o.t, dt := o.dt, dtLastDone := o.dld, stepsDone := s.stepsDone + 1,
                             status := st,
                             hist := ⟨s.t, s.dt, o.t, o.dt, o.dld, st⟩ :: s.hist }
  let s2 := runHeartbeat s1 f
  if f.sigint then { s2 with status := stSIGINT } else s2

/-- outcome of `reb_check_exit`: the C function either returns (new state and `*last_full_dt`)
    or spins in the PAUSED/SCREENSHOT wait loop (no other thread in this model: `blocked`). -/
inductive CE (K : Type)
  | ret (s : Sim K) (lastFull : K)
  | blocked (s : Sim K)

/-- rebound.c:654-661: SINGLE_STEP turns into PAUSED, anything below counts up towards it -/
def exitCountdown (s : Sim K) : Sim K :=
  if s.status ≤ stSINGLE_STEP then
    if s.status = stSINGLE_STEP then { s with status := stPAUSED }
    else { s with status := s.status + 1 }
  else s

/-- rebound.c:677-716: the time logic (runs only while the status is negative).
    Returns the new state and the new `*last_full_dt`. -/
def exitTime (s : Sim K) (tmax : K) (tmaxInf : Bool) (lastFull dtsign : K) : Sim K × K :=
  if s.status ≥ 0 then (s, lastFull)
  else if tmaxInf then (s, lastFull)
  else if s.exactFinish = 1 then
    if fge ((s.t + s.dt) * dtsign) (tmax * dtsign) then
      if feq s.t tmax then ({ s with status := stSUCCESS }, lastFull)
      else if s.status = stLAST_STEP then
        let tscale : K := ScalarS.c1em12 * ScalarS.fabs tmax
        let tscale : K := if ScalarO.lt tscale ScalarS.c1em200 then ScalarS.c1em12 else tscale
        if ScalarO.lt (ScalarS.fabs (s.t - tmax)) tscale then
          ({ s with status := stSUCCESS }, lastFull)
        else
          ({ s with syncs := s.syncs + 1, dt := tmax - s.t }, lastFull)
      else
        let lf := if fne s.dtLastDone Scalar.zero then s.dtLastDone else lastFull
        ({ s with status := stLAST_STEP, syncs := s.syncs + 1, dt := tmax - s.t }, lf)
    else
      if s.status = stLAST_STEP then ({ s with status := stRUNNING }, lastFull)
      else (s, lastFull)
  else
    if fge (s.t * dtsign) (tmax * dtsign) then ({ s with status := stSUCCESS }, lastFull)
    else (s, lastFull)

/-- rebound.c:718-728 -/
def exitNoParticles (s : Sim K) (f : Flags) : Sim K :=
  if f.n = 0 then
    if s.nOdes = 0 then { s with status := stNO_PARTICLES }
    else if !s.isBS then { s with status := stNO_PARTICLES }
    else s
  else s

/-- rebound.c:662-738: everything after the SINGLE_STEP countdown -/
def checkExitCore (s : Sim K) (tmax : K) (tmaxInf : Bool) (lastFull : K) (f : Flags) : CE K :=
  -- 662-672
  if (s.status = stPAUSED ∨ s.status = stSCREENSHOT) ∧ f.sigint = false then .blocked s else
  let s : Sim K :=
    if s.status = stPAUSED ∨ s.status = stSCREENSHOT then { s with status := stSIGINT } else s
  -- 673
  let dtsign : K := copysign Scalar.one s.dt
  -- 674-676
  let s : Sim K := if f.errMsg then { s with status := stGENERIC_ERROR } else s
  -- 677-716
  let r := exitTime s tmax tmaxInf lastFull dtsign
  -- 718-728, 737
  .ret (exitNoParticles r.1 f) r.2

/-- rebound.c:653-738 -/
def checkExit (s : Sim K) (tmax : K) (tmaxInf : Bool) (lastFull : K) (f : Flags) : CE K :=
  checkExitCore (exitCountdown s) tmax tmaxInf lastFull f

/-! ### a second thread writing `r->status`: the keys of the server / visualisation -/

/-- server.c:346-375 (= display.c:430-500): space toggles RUNNING ↔ PAUSED, arrow-down turns PAUSED into
    SINGLE_STEP, page-down into SINGLE_STEP − 50.  (`Q` is the user-stop flag of `Flags`.) -/
inductive Ctl
  | space | step1 | step50
deriving DecidableEq, Repr, Inhabited

def Ctl.apply : Ctl → Int → Int
  | .space, st => if st = stPAUSED then stRUNNING else if st = stRUNNING then stPAUSED else st
  | .step1, st => if st = stPAUSED then stSINGLE_STEP else st
  | .step50, st => if st = stPAUSED then stSINGLE_STEP - 50 else st

def applyCtl (evs : List Ctl) (st : Int) : Int := evs.foldl (fun st e => e.apply st) st

/-- `reb_check_exit` while another thread delivers key presses at this boundary: `pre` land before the
    function is entered (between the heartbeat and the countdown), `evs` after the countdown, before /
    during the PAUSED wait loop (a key that lands in the middle of the time logic is a data race of the C
    code and is not modelled). -/
def checkExitP (s : Sim K) (tmax : K) (tmaxInf : Bool) (lastFull : K) (f : Flags)
    (pre evs : List Ctl) : CE K :=
  let s1 := exitCountdown { s with status := applyCtl pre s.status }
  checkExitCore { s1 with status := applyCtl evs s1.status } tmax tmaxInf lastFull f

/-- how `reb_simulation_integrate` ends -/
inductive Outcome (K : Type)
  /-- returned; `Sim.status` is the return value -/
  | done (s : Sim K)
  /-- spinning in the PAUSED / SCREENSHOT wait loop -/
  | blocked (s : Sim K)
  /-- still stepping when the fuel ran out (the C loop has no bound) -/
  | outOfFuel (s : Sim K)

def Outcome.sim : Outcome K → Sim K
  | .done s => s
  | .blocked s => s
  | .outOfFuel s => s

/-- rebound.c:822-880: `while (reb_check_exit(...) < 0) { step; heartbeat; sigint }`.
    `k` = number of steps already taken in this call = index of the boundary `env` describes. -/
def loop (step : StepFn K) (env : Nat → Flags) (tmax : K) (tmaxInf : Bool) :
    Nat → Nat → Sim K → K → Outcome K × K
  | 0, _, s, lf => (.outOfFuel s, lf)
  | fuel + 1, k, s, lf =>
    match checkExit s tmax tmaxInf lf (env k) with
    | .blocked s' => (.blocked s', lf)
    | .ret s' lf' =>
      if s'.status < 0 then
        loop step env tmax tmaxInf fuel (k + 1) (stepAndBeat step k s' (env (k + 1))) lf'
      else (.done s', lf')

/-- rebound.c:881-884: final synchronize and step-size restore -/
def finish (s : Sim K) (lastFull : K) : Sim K :=
  let s := { s with syncs := s.syncs + 1 }
  if s.exactFinish = 1 then { s with dt := lastFull } else s

/-- rebound.c:804-818: direction of time, `last_full_dt`, `dt_last_done = 0`, status, first heartbeat -/
def start (s : Sim K) (tmax : K) (f0 : Flags) : Sim K × K :=
  let s : Sim K :=
    if fne tmax s.t then
      let one : K := Scalar.one
      let dtSign : K := if fgt tmax s.t then one else -one
      { s with dt := copysign s.dt dtSign }
    else s
  let lastFull := s.dt
  let s := { s with dtLastDone := Scalar.zero }
  let s : Sim K :=
    if s.status ≠ stPAUSED ∧ s.status ≠ stSCREENSHOT then { s with status := stRUNNING } else s
  (runHeartbeat s f0, lastFull)

/-- `reb_simulation_integrate` (rebound.c:794-888, 891-928 without OPENGL).
    `env k` are the exit-condition flags at the k-th step boundary of this call (`env 0`: the
    heartbeat before the first step; its `collision` and `sigint` members are not consulted,
    except `sigint` by the PAUSED wait loop). -/
def integrate (step : StepFn K) (env : Nat → Flags) (fuel : Nat) (s : Sim K) (tmax : K)
    (tmaxInf : Bool) : Outcome K :=
  let (s, lf) := start s tmax (env 0)
  match loop step env tmax tmaxInf fuel 0 s lf with
  | (.done s', lf') => .done (finish s' lf')
  | (.blocked s', _) => .blocked s'
  | (.outOfFuel s', _) => .outOfFuel s'

/-- `reb_simulation_integrate` with the argument check of fixes/C08-nan-target.diff: a NaN target is refused
    with GENERIC_ERROR before anything is touched (`guard = false`: the code without the check, for which a
    NaN target means integrating backwards for ever, every comparison with it being false). -/
def integrateN (guard : Bool) (step : StepFn K) (env : Nat → Flags) (fuel : Nat) (s : Sim K) (tmax : K)
    (tmaxInf : Bool) : Outcome K :=
  if guard && fne tmax tmax then .done { s with status := stGENERIC_ERROR }
  else integrate step env fuel s tmax tmaxInf

/-! ### the no-progress guard as of /repo commit addb1f3 (rebound.c:841-848, 886-888)

  After every step the loop records `no_progress = (t == t_before && dt == dt_before && tmax != INFINITY)`;
  when `reb_check_exit` of the next pass still says "continue", the error is raised (message, status
  GENERIC_ERROR, `break`).  So a stalled step that `reb_check_exit` can end (LAST_STEP inside the 1e-12
  window, any exit code) ends as it did without the guard.  (The first version of the guard, 0a3347a,
  raised the error inside the step — `Flags.stepError` — and is still recognised by the translator.) -/

/-- `loop` with the guard; the third component says whether the guard ended the call -/
def loopG (step : StepFn K) (env : Nat → Flags) (tmax : K) (tmaxInf : Bool) :
    Nat → Nat → Bool → Sim K → K → Outcome K × K × Bool
  | 0, _, _, s, lf => (.outOfFuel s, lf, false)
  | fuel + 1, k, noProgress, s, lf =>
    match checkExit s tmax tmaxInf lf (env k) with
    | .blocked s' => (.blocked s', lf, false)
    | .ret s' lf' =>
      if s'.status < 0 then
        if noProgress then (.done { s' with status := stGENERIC_ERROR }, lf', true)
        else
          let s2 := stepAndBeat step k s' (env (k + 1))
          loopG step env tmax tmaxInf fuel (k + 1) (feq s2.t s'.t && feq s2.dt s'.dt && !tmaxInf) s2 lf'
      else (.done s', lf', false)

/-- `reb_simulation_integrate` of commit addb1f3 (`nanGuard`: with the NaN-target check) -/
def integrateG (nanGuard : Bool) (step : StepFn K) (env : Nat → Flags) (fuel : Nat) (s : Sim K) (tmax : K)
    (tmaxInf : Bool) : Outcome K × Bool :=
  if nanGuard && fne tmax tmax then (.done { s with status := stGENERIC_ERROR }, false)
  else
    let (s1, lf) := start s tmax (env 0)
    match loopG step env tmax tmaxInf fuel 0 false s1 lf with
    | (.done s', lf', g) => (.done (finish s' lf'), g)
    | (.blocked s', _, g) => (.blocked s', g)
    | (.outOfFuel s', _, g) => (.outOfFuel s', g)

/-- `loop` with key presses: `ctl k` are the keys delivered while the integrator is at boundary `k`
    (before `reb_check_exit` is entered, and while it waits) -/
def loopP (step : StepFn K) (env : Nat → Flags) (ctl : Nat → List Ctl × List Ctl) (tmax : K) (tmaxInf : Bool) :
    Nat → Nat → Sim K → K → Outcome K × K
  | 0, _, s, lf => (.outOfFuel s, lf)
  | fuel + 1, k, s, lf =>
    match checkExitP s tmax tmaxInf lf (env k) (ctl k).1 (ctl k).2 with
    | .blocked s' => (.blocked s', lf)
    | .ret s' lf' =>
      if s'.status < 0 then
        loopP step env ctl tmax tmaxInf fuel (k + 1) (stepAndBeat step k s' (env (k + 1))) lf'
      else (.done s', lf')

/-- `integrate` with key presses -/
def integrateP (step : StepFn K) (env : Nat → Flags) (ctl : Nat → List Ctl × List Ctl) (fuel : Nat) (s : Sim K)
    (tmax : K) (tmaxInf : Bool) : Outcome K :=
  let (s, lf) := start s tmax (env 0)
  match loopP step env ctl tmax tmaxInf fuel 0 s lf with
  | (.done s', lf') => .done (finish s' lf')
  | (.blocked s', _) => .blocked s'
  | (.outOfFuel s', _) => .outOfFuel s'

end machine

/-! ### Python layer: status → exception (rebound/simulation.py:1374-1428) -/

/-- what `Simulation.integrate` does with the return value -/
inductive PyAction
  | ret                      -- return normally
  | raise (exc : String)     -- raise this exception class
deriving DecidableEq, Repr

/-- apply a table of `if ret_value == k: raise X / pass` branches in order -/
def pyDispatch (table : List (Int × Option String)) (code : Int) : PyAction :=
  match table.find? (fun e => e.1 == code) with
  | some (_, some exc) => .raise exc
  | some (_, none) => .ret
  | none => .ret

/-- codes with an explicit branch -/
def pyHandled (table : List (Int × Option String)) (code : Int) : Bool :=
  table.any (fun e => e.1 == code)

end RV.Integrate
