/-
  Line-protocol front end of the `Bin` model, shared by drv_c06 and drv_c07.
  Files travel as paths (binary), results as one text line per operation.
-/
import RV.Model.Bin
import RV.Model.Cadence
import RV.Scalar
namespace RV.BinIO
open RV.Bin

def readBytes (p : String) : IO Bytes := do
  let b ← IO.FS.readBinFile p
  return b.toList.map (·.toNat)

def writeBytes (p : String) (b : Bytes) : IO Unit :=
  IO.FS.writeBinFile p (ByteArray.mk ((b.map (·.toUInt8)).toArray))

def hexDigit (n : Nat) : Char := "0123456789abcdef".toList.getD n '0'

def hexN : Nat → Nat → List Char
  | 0, _ => []
  | d + 1, n => hexN d (n / 16) ++ [hexDigit (n % 16)]

/-- 16 hex digits of the u64 whose little-endian bytes are `b` (same as `d2h` on the Python side) -/
def tHex (b : Bytes) : String := String.ofList (hexN 16 (de (b.take 8)))

def parseVariant (s : String) : Variant :=
  match s.toList with
  | [a, b, c, d, e, f] => ⟨a == '1', b == '1', c == '1', d == '1', e == '1', f == '1'⟩
  | _ => Variant.current

def entryStr (e : Entry) : String :=
  toString e.off ++ ":" ++ (match e.t with | some t => tHex t | none => "none")

def openStr (r : OpenResult) : String :=
  match r with
  | .ok es w => "ok " ++ toString es.length ++ " warn=" ++ toString w ++ " " ++ " ".intercalate (es.map entryStr)
  | .errorOld => "errorOld"
  | .errorSeek f => "errorSeek freesCaller=" ++ toString f
  | .undefined => "undefined"

/-- most recent value per id, ascending ids -/
def canonState (st : State) : List Field :=
  let rec dedup : List (Nat × Bytes) → List Nat → List (Nat × Bytes)
    | [], _ => []
    | (k, d) :: r, seen => if seen.contains k then dedup r seen else (k, d) :: dedup r (k :: seen)
  let l := dedup st []
  let sorted := l.toArray.qsort (fun a b => a.1 < b.1)
  sorted.toList.map (fun (k, d) => Field.mk' k d)

/-- executed instance of the raw/field link: `diffRaw` on the two buffers equals the encoding of
    `diffF` on their parsed field lists -/
def linkCheck (v : Variant) (bufOld s : Bytes) : Bool :=
  match parse (bufOld.drop 64), parse (s.drop 64), diffRaw v (cmpOf v) bufOld s with
  | some a, some b, some d => d == encFs (diffF v (cmpOf v) a b) && diffF v (cmpOf v) a b == diffSpec v (cmpOf v) a b
  | _, _, _ => false

def sizeOldOf (file : Bytes) : Nat := (scanFirst (file.length + 1) 64 (file.drop 64) []).1

partial def archLoop (v : Variant) (file : Bytes) (ss : List String) (link : Bool) (nvan : Nat) :
    IO (Option (Bytes × Bool × Nat)) := do
  match ss with
  | [] => return some (file, link, nvan)
  | p :: r =>
    let s ← readBytes p
    let bufOld := file.take (sizeOldOf file)
    let l := linkCheck v bufOld s
    let nv := match parse (bufOld.drop 64), parse (s.drop 64) with
      | some a, some b => (a.filter (fun f => !(b.any (fun g => g.ty = f.ty)))).length
      | _, _ => 0
    match append v (cmpOf v) file s with
    | none => return none
    | some f => archLoop v f r (link && l) (nvan + nv)

def natOf (s : String) : Nat := s.toNat?.getD 0

def step (toks : List String) : IO String := do
  match toks with
  | "arch" :: v :: out :: s0 :: rest =>
    let v := parseVariant v
    let f0 ← readBytes s0
    match ← archLoop v f0 rest true 0 with
    | none => return "refused"
    | some (f, link, nvan) =>
      writeBytes out f
      return "done len=" ++ toString f.length ++ " link=" ++ toString link ++ " vanished=" ++ toString nvan
        ++ " | " ++ openStr (openArchive v f)
  | ["open", v, file] =>
    let f ← readBytes file
    return openStr (openArchive (parseVariant v) f)
  | ["snap", v, file, k, out] =>
    let f ← readBytes file
    let es := index (parseVariant v) f
    match snapshot [] f (es.map (·.off)) (natOf k) with
    | none => return "none"
    | some st =>
      let c := canonState st
      writeBytes out (encFs c)
      return "ok " ++ toString c.length
  | ["append", v, file, s, out] =>
    let f ← readBytes file
    let sb ← readBytes s
    match appendPlan (parseVariant v) (cmpOf (parseVariant v)) f sb with
    | .refused => return "refused"
    | .undefined => return "undefined"
    | .plan p =>
      writeBytes out (overwrite f p.pos p.data)
      return "ok pos=" ++ toString p.pos ++ " len=" ++ toString p.data.length ++ " repaired=" ++ toString p.repaired
  | ["plan", v, file, s, dataout] =>
    let f ← readBytes file
    let sb ← readBytes s
    match appendPlan (parseVariant v) (cmpOf (parseVariant v)) f sb with
    | .refused => return "refused"
    | .undefined => return "undefined"
    | .plan p =>
      writeBytes dataout p.data
      return "ok pos=" ++ toString p.pos ++ " len=" ++ toString p.data.length ++ " repaired=" ++ toString p.repaired
  | "crashscan" :: v :: file :: pos :: datafile :: ks =>
    -- model verdict for the crash images `crash file pos data k`; pos = "fresh" means a new file (image = data.take k)
    let v := parseVariant v
    let f ← if file == "-" then pure [] else readBytes file
    let d ← readBytes datafile
    let res := ks.map (fun k =>
      let k := natOf k
      let img := if pos == "fresh" then d.take k else crash f (natOf pos) d k
      let r := openArchive v img
      let tail := match r with
        | .ok es _ => (match es.getLast? with | some e => toString e.off | none => "-")
        | _ => "-"
      (match r with
       | .ok es w => "ok:" ++ toString es.length ++ ":" ++ (if w then "w" else "n")
       | .errorOld => "old"
       | .errorSeek fc => if fc then "abort" else "seek"
       | .undefined => "undefined") ++ ":" ++ tail ++ ":" ++
        (if pos == "fresh" then "-" else if noFakeTrailer img (natOf pos + 12) then "R" else "x"))
    return " ".intercalate res
  | ["crashimg", file, pos, datafile, k, out] =>
    let f ← if file == "-" then pure [] else readBytes file
    let d ← readBytes datafile
    let img := if pos == "fresh" then d.take (natOf k) else crash f (natOf pos) d (natOf k)
    writeBytes out img
    return "ok " ++ toString img.length
  | "cad" :: sg :: iv :: nx :: ts =>
    -- interval cadence on IEEE doubles: sign, interval, next, boundary times (16 hex digits each)
    let sign : Float := if sg == "-1" then -1.0 else 1.0
    let r := RV.Cadence.run RV.Cadence.floatOps sign (RV.floatOfHex iv) (RV.floatOfHex nx) (ts.map RV.floatOfHex)
    return String.ofList (r.1.map (fun b => if b then '1' else '0')) ++ " " ++ RV.floatToHex r.2
  | "cadwall" :: iv :: nx :: ws =>
    let r := RV.Cadence.runWall RV.Cadence.floatOps (RV.floatOfHex iv) (RV.floatOfHex nx) (ws.map RV.floatOfHex)
    return String.ofList (r.1.map (fun b => if b then '1' else '0')) ++ " " ++ RV.floatToHex r.2
  | "cadstep" :: st :: nx :: ts =>
    let r := RV.Cadence.runStep (natOf st) (natOf nx) (ts.map natOf)
    return String.ofList (r.1.map (fun b => if b then '1' else '0')) ++ " " ++ toString r.2
  | "cadR" :: sg :: iv :: nx :: ts =>
    -- repaired heartbeat (passed output times skipped)
    let sign : Float := if sg == "-1" then -1.0 else 1.0
    let r := RV.Cadence.runR RV.Cadence.floatOpsR sign (RV.floatOfHex iv) (RV.floatOfHex nx) (ts.map RV.floatOfHex)
    return String.ofList (r.1.map (fun b => if b then '1' else '0')) ++ " " ++ RV.floatToHex r.2
  | "cadrestartR" :: sg :: pint :: pnx :: iv :: tk :: later =>
    let sign : Float := if sg == "-1" then -1.0 else 1.0
    let r := RV.Cadence.restartR RV.Cadence.floatOpsR (fun a b => a != b) sign (RV.floatOfHex pint) (RV.floatOfHex pnx)
      (RV.floatOfHex iv) (RV.floatOfHex tk) (later.map RV.floatOfHex)
    return String.ofList (r.1.map (fun b => if b then '1' else '0')) ++ " " ++ RV.floatToHex r.2
  | "cadrestart" :: sg :: pint :: pnx :: iv :: tk :: later =>
    -- restart from a snapshot: persisted (interval, next), the user's interval, boundary of the snapshot, later boundaries
    let sign : Float := if sg == "-1" then -1.0 else 1.0
    let r := RV.Cadence.restart RV.Cadence.floatOps (fun a b => a != b) sign (RV.floatOfHex pint) (RV.floatOfHex pnx)
      (RV.floatOfHex iv) (RV.floatOfHex tk) (later.map RV.floatOfHex)
    return String.ofList (r.1.map (fun b => if b then '1' else '0')) ++ " " ++ RV.floatToHex r.2
  | "cadrestartstep" :: pst :: pnx :: st :: sk :: later =>
    let r := RV.Cadence.restartStep (natOf pst) (natOf pnx) (natOf st) (natOf sk) (later.map natOf)
    return String.ofList (r.1.map (fun b => if b then '1' else '0')) ++ " " ++ toString r.2
  | ["capat", i] => return toString (RV.Cadence.capAt (natOf i))
  | ["nofake", img, last] =>
    let f ← readBytes img
    return toString (noFakeTrailer f (natOf last))
  | _ => return "bad-op"

partial def loop (h out : IO.FS.Stream) : IO Unit := do
  let line ← h.getLine
  if line.isEmpty then return ()
  let toks := (line.trimAscii.toString.splitOn " ").filter (· ≠ "")
  let r ← try step toks catch e => pure ("io-error " ++ toString e)
  out.putStrLn r
  out.flush
  loop h out

def main : IO Unit := do
  let i ← IO.getStdin
  let o ← IO.getStdout
  loop i o

end RV.BinIO
