import RV.Scalar
import RV.Model.OrbitArgs
/-
  C11 (ii) — model of the orbital-element code of src/tools.c, in the operation order of
  the C source so that the `Float` instance is bit-identical to the compiled code
  (gcc -O3 -ffp-contract=off, glibc libm):

    reb_mod2pi, reb_M_to_E, reb_E_to_f, reb_M_to_f              tools.c:533-581
    reb_particle_from_orbit_err (all six rejections)            tools.c:925-982
    acos2, reb_orbit_from_particle_err (both rejections)        tools.c:1025-1190
    reb_tools_solve_kepler_pal, reb_particle_from_pal           tools.c:1199-1293
    the value part of reb_particle_from_fmt_errV                tools.c:840-920

  The straight-line algebra is factored into `…Core` functions over `[Scalar K]` that take
  the values of the libm calls as arguments; RV/Props/C11.lean proves the defining
  relations about those over an arbitrary field.  The `[OrbitK K]` wrappers make the libm
  calls and are what the driver `drv_c11` runs on IEEE doubles.
-/
namespace RV.Orbit
open RV Scalar ScalarO ScalarT

/-- what tools.c needs beyond `ScalarT`: `M_PI`, `TINY` (1e-308), C `fmod`.
    (Local to this model; RV/Scalar.lean is shared and has none of the three.) -/
class OrbitK (K : Type) extends ScalarT K where
  pi : K
  tiny : K
  fmod : K → K → K
  signbit : K → Bool

/-- which of the small repairs proposed in /verif/fixes the source on this run contains;
    RV/Gen/C11Args.lean sets it from the text of tools.c (all `false` = unchanged tree) -/
structure Variant where
  /-- fixes/F3.diff: `copysign(log(..), M)` instead of `M/fabs(M)*log(..)` in reb_M_to_E -/
  m2eCopysign : Bool
  /-- fixes/F15.diff: `acosh` argument clamped at 1 in reb_orbit_from_particle_err -/
  acoshClamp : Bool
  /-- fixes/C11-asymptote-equality.diff: `e*cos(f) <= -1.` rejected, not only `< -1.` -/
  asymLe : Bool
  /-- fixes/C16-pal-kepler-jacobian.diff: Newton update with the untransposed inverse Jacobian -/
  palNewton : Bool
  /-- fixes/C11-reject-a-zero.diff: `a >= 0.` / `a <= 0.` in the bound/unbound tests, so that
      a = 0 is rejected (errors 3 / 4) -/
  aStrict : Bool
deriving DecidableEq, Repr

def Variant.unfixed : Variant := ⟨false, false, false, false, false⟩

/-! ## exact IEEE `fmod` on `Float` (Lean has none): integer arithmetic on mantissas -/

/-- finite non-zero `|x| = m·2^e` -/
def decomp (x : Float) : Nat × Int :=
  let b := x.toBits.toNat
  let ex := (b >>> 52) % 2048
  let fr := b % 2 ^ 52
  if ex == 0 then (fr, -1074) else (fr + 2 ^ 52, (ex : Int) - 1075)

def signBit (x : Float) : Bool := x.toBits.toNat >>> 63 == 1

def fmodFloat (x y : Float) : Float :=
  if x.isNaN || y.isNaN || x.isInf || y == 0.0 then 0.0 / 0.0
  else if y.isInf then x
  else if x == 0.0 then x
  else
    let (mx, ex) := decomp x
    let (my, ey) := decomp y
    let (r, er) : Nat × Int :=
      if ex ≥ ey then ((mx * 2 ^ (ex - ey).toNat) % my, ey)
      else (mx % (my * 2 ^ (ey - ex).toNat), ex)
    let v := Float.scaleB (Float.ofNat r) er
    if signBit x then -v else v

instance : OrbitK Float where
  pi := Float.ofBits 0x400921FB54442D18
  tiny := Float.ofBits 0x000730D67819E8D2
  fmod := fmodFloat
  signbit := signBit

/-! ## constants written in the C source as decimal literals whose value is the correctly
rounded quotient of two exactly representable integers -/
section consts
variable {K : Type} [Scalar K]
def two : K := ofNat 2
def three : K := ofNat 3
def four : K := ofNat 4
def half : K := one / ofNat 2            -- 0.5
def c0p8 : K := ofNat 8 / ofNat 10       -- 0.8
def c1p8 : K := ofNat 18 / ofNat 10      -- 1.8
def c0p3 : K := ofNat 3 / ofNat 10       -- 0.3
def c1em16 : K := one / ofNat 10000000000000000   -- 1.e-16
def c1em15 : K := one / ofNat 1000000000000000    -- 1e-15
def c1em8 : K := one / ofNat 100000000             -- MIN_INC, MIN_ECC
end consts

/-- C `==` on doubles -/
def eqB {K : Type} [ScalarO K] (a b : K) : Bool := le a b && le b a

/-! ## reb_mod2pi -/

/-- `fmod(pi2 + fmod(f, pi2), pi2)` with `pi2 = 2.*M_PI` -/
def mod2piCore {K : Type} [Scalar K] (fmod : K → K → K) (pi : K) (f : K) : K :=
  let pi2 := two * pi
  fmod (pi2 + fmod f pi2) pi2

def mod2pi {K : Type} [OrbitK K] (f : K) : K := mod2piCore OrbitK.fmod OrbitK.pi f

/-! ## Kepler's equation -/
section kepler
variable {K : Type} [OrbitK K]

/-- the `for(int i=0;i<100;i++)` Newton loop of the elliptic branch; `fuel` = remaining
    iterations -/
def newtonEll (e M : K) : Nat → K → K → K
  | 0, E, _ => E
  | n+1, E, F =>
    let E' := E - F / (one - e * cos E)
    let F' := E' - e * sin E' - M
    if lt (fabs F') c1em16 then E' else newtonEll e M n E' F'

def newtonHyp (e M : K) : Nat → K → K → K
  | 0, E, _ => E
  | n+1, E, F =>
    let E' := E - F / (one - e * cosh E)
    let F' := E' - e * sinh E' + M
    if lt (fabs F') c1em16 then E' else newtonHyp e M n E' F'

/-- C `copysign(x, s)` -/
def copysign (x s : K) : K := if OrbitK.signbit s then neg (fabs x) else fabs x

def M_to_E (v : Variant) (e M : K) : K :=
  if lt e one then
    let M := mod2pi M
    let E := if lt e c0p8 then M else OrbitK.pi
    let F := E - e * sin E - M
    mod2pi (newtonEll e M 100 E F)
  else
    let E := if v.m2eCopysign then copysign (log (two * fabs M / e + c1p8)) M
             else M / fabs M * log (two * fabs M / e + c1p8)
    let F := E - e * sinh E + M
    newtonHyp e M 100 E F

def E_to_f (e E : K) : K :=
  if lt one e then
    mod2pi (two * atan (sqrt ((one + e) / (e - one)) * tanh (half * E)))
  else
    mod2pi (two * atan (sqrt ((one + e) / (one - e)) * tan (half * E)))

def M_to_f (v : Variant) (e M : K) : K := E_to_f e (M_to_E v e M)

end kepler

/-! ## reb_particle_from_orbit_err -/

structure Part (K : Type) where
  x : K
  y : K
  z : K
  vx : K
  vy : K
  vz : K
  m : K
deriving Repr, Inhabited

/-- error codes 1–6 -/
inductive OErr
  | radial     -- 1  e == 1
  | negE       -- 2  e < 0
  | boundE     -- 3  e > 1 with a > 0
  | unboundE   -- 4  e ≤ 1 (not > 1) with a < 0
  | fRange     -- 5  e cos f < -1
  | noMass     -- 6  primary.m < TINY
deriving DecidableEq, Repr

def OErr.code : OErr → Nat
  | .radial => 1 | .negE => 2 | .boundE => 3 | .unboundE => 4 | .fRange => 5 | .noMass => 6

section check
variable {K : Type} [ScalarO K]

def checkTail (asymLe : Bool) (tiny pm e cf : K) : Option OErr :=
  if (if asymLe then le (e * cf) (neg one) else lt (e * cf) (neg one)) then some .fRange
  else if lt pm tiny then some .noMass
  else none

/-- the rejection tests of `reb_particle_from_orbit_err` in source order; `cf = cos(f)` -/
def fromOrbitCheck (v : Variant) (tiny pm a e cf : K) : Option OErr :=
  if eqB e one then some .radial
  else if lt e zero then some .negE
  else if lt one e then
    (if (if v.aStrict then le zero a else lt zero a) then some .boundE else checkTail v.asymLe tiny pm e cf)
  else
    (if (if v.aStrict then le a zero else lt a zero) then some .unboundE else checkTail v.asymLe tiny pm e cf)
end check

/-- values of the eight `cos`/`sin` calls -/
structure Trig (K : Type) where
  cO : K
  sO : K
  co : K
  so : K
  cf : K
  sf : K
  ci : K
  si : K

section core
variable {K : Type} [Scalar K]

/-- `double r = a*(1-e*e)/(1 + e*cos(f));` -/
def radius (a e cf : K) : K := a * (one - e * e) / (one + e * cf)

/-- the argument of the `sqrt` giving `v0`: `G*(m+primary.m)/a/(1.-e*e)` -/
def v0sq (G pm m a e : K) : K := G * (m + pm) / a / (one - e * e)

/-- tools.c:955-981 given the trigonometric values and `v0` -/
def fromOrbitCore (pr : Part K) (m a e : K) (t : Trig K) (v0 : K) : Part K :=
  let r := radius a e t.cf
  let cO := t.cO; let sO := t.sO; let co := t.co; let so := t.so
  let cf := t.cf; let sf := t.sf; let ci := t.ci; let si := t.si
  { m := m
    x := pr.x + r * (cO * (co * cf - so * sf) - sO * (so * cf + co * sf) * ci)
    y := pr.y + r * (sO * (co * cf - so * sf) + cO * (so * cf + co * sf) * ci)
    z := pr.z + r * (so * cf + co * sf) * si
    vx := pr.vx + v0 * ((e + cf) * ((-ci) * co * sO - cO * so) - sf * (co * cO - ci * so * sO))
    vy := pr.vy + v0 * ((e + cf) * (ci * co * cO - sO * so) - sf * (co * sO + ci * so * cO))
    vz := pr.vz + v0 * ((e + cf) * co * si - sf * si * so) }
end core

def fromOrbit {K : Type} [OrbitK K] (v : Variant) (G : K) (pr : Part K) (m a e inc Omega omega f : K) :
    Except OErr (Part K) :=
  match fromOrbitCheck v OrbitK.tiny pr.m a e (cos f) with
  | some err => .error err
  | none =>
    let v0 := sqrt (v0sq G pr.m m a e)
    let t : Trig K := { cO := cos Omega, sO := sin Omega, co := cos omega, so := sin omega,
                        cf := cos f, sf := sin f, ci := cos inc, si := sin inc }
    .ok (fromOrbitCore pr m a e t v0)

/-! ## reb_orbit_from_particle_err -/

structure Orb (K : Type) where
  d : K
  v : K
  h : K
  P : K
  n : K
  a : K
  e : K
  inc : K
  Omega : K
  omega : K
  pomega : K
  f : K
  M : K
  l : K
  theta : K
  T : K
  rhill : K
  pal_h : K
  pal_k : K
  pal_ix : K
  pal_iy : K
  hx : K
  hy : K
  hz : K
  ex : K
  ey : K
  ez : K
deriving Repr, Inhabited

section reader
variable {K : Type} [OrbitK K]

/-- `acos2(num, denom, disambiguator)` -/
def acos2 (num denom dis : K) : K :=
  -- 0/0: the C code computes NaN, fails both comparisons below and returns 0.  Made explicit so
  -- that an exact-arithmetic instance (where 0/0 = 0) does not silently take the `acos` branch.
  if eqB denom zero && eqB num zero then zero else
  let cosine := num / denom
  if lt (neg one) cosine && lt cosine one then
    let val := acos cosine
    if lt dis zero then neg val else val
  else if le cosine (neg one) then OrbitK.pi else zero

/-- first-order invariants: everything up to the angle recovery (tools.c:1048-1089).
    Pure field arithmetic + three `sqrt`, one `cbrt`, one `fabs`. -/
structure Inv (K : Type) where
  mu : K
  dx : K
  dy : K
  dz : K
  dvx : K
  dvy : K
  dvz : K
  d : K
  vsq : K
  v : K
  a : K
  rhill : K
  hx : K
  hy : K
  hz : K
  h : K
  vdiffsq : K

def invariants (G : K) (p pr : Part K) : Inv K :=
  let mu := G * (p.m + pr.m)
  let dx := p.x - pr.x
  let dy := p.y - pr.y
  let dz := p.z - pr.z
  let dvx := p.vx - pr.vx
  let dvy := p.vy - pr.vy
  let dvz := p.vz - pr.vz
  let d := sqrt (dx * dx + dy * dy + dz * dz)
  let vsq := dvx * dvx + dvy * dvy + dvz * dvz
  let v := sqrt vsq
  let vcircsq := mu / d
  let a := (neg mu) / (vsq - two * vcircsq)
  let rhill := a * cbrt (p.m / (three * pr.m))
  let hx := dy * dvz - dz * dvy
  let hy := dz * dvx - dx * dvz
  let hz := dx * dvy - dy * dvx
  let h := sqrt (hx * hx + hy * hy + hz * hz)
  { mu, dx, dy, dz, dvx, dvy, dvz, d, vsq, v, a, rhill, hx, hy, hz, h, vdiffsq := vsq - vcircsq }

/-- radial velocity and eccentricity vector `(vr, ex, ey, ez)` (tools.c:1077-1083) -/
def evec (i : Inv K) : K × K × K × K :=
  let vr := (i.dx * i.dvx + i.dy * i.dvy + i.dz * i.dvz) / i.d
  let rvr := i.d * vr
  let muinv := one / i.mu
  (vr, muinv * (i.vdiffsq * i.dx - rvr * i.dvx), muinv * (i.vdiffsq * i.dy - rvr * i.dvy),
   muinv * (i.vdiffsq * i.dz - rvr * i.dvz))

/-- mean anomaly before range reduction (tools.c:1101-1111) -/
def meanAnomaly (v : Variant) (e d a vr : K) : K :=
  if lt e one then
    let ea := acos2 (one - d / a) e vr
    ea - e * sin ea
  else
    let coshea := (one - d / a) / e
    let ea0 := if v.acoshClamp then (if lt one coshea then acosh coshea else zero) else acosh coshea
    let ea := if lt vr zero then neg ea0 else ea0
    e * sinh ea - ea

/-- the five angles that depend on the near-planar / near-circular switches, before range
    reduction (tools.c:1115-1167) -/
structure Ang (K : Type) where
  omega : K
  pomega : K
  f : K
  theta : K
  l : K

def readerAngles (inc Omega e M d dx dy dz ex ey ez nx ny nn : K) : Ang K :=
  let pi : K := OrbitK.pi
  let prograde := lt inc (pi / two)
  let eBig := lt c1em8 e
  if lt inc c1em8 || lt (pi - c1em8) inc then
    let theta := acos2 dx d dy
    let pomega := acos2 ex e ey
    if prograde then
      let omega := pomega - Omega
      let f := theta - pomega
      let l := if eBig then pomega + M else theta - two * e * sin f
      ⟨omega, pomega, f, theta, l⟩
    else
      let omega := Omega - pomega
      let f := pomega - theta
      let l := if eBig then pomega - M else theta + two * e * sin f
      ⟨omega, pomega, f, theta, l⟩
  else
    let wpf := acos2 (nx * dx + ny * dy) (nn * d) dz
    let omega := acos2 (nx * ex + ny * ey) (nn * e) ez
    if prograde then
      let pomega := Omega + omega
      let f := wpf - omega
      let theta := Omega + wpf
      let l := if eBig then pomega + M else theta - two * e * sin f
      ⟨omega, pomega, f, theta, l⟩
    else
      let pomega := Omega - omega
      let f := wpf - omega
      let theta := Omega - wpf
      let l := if eBig then pomega - M else theta + two * e * sin f
      ⟨omega, pomega, f, theta, l⟩

def orbitBody (v : Variant) (i : Inv K) (t0 : K) : Orb K :=
  let mu := i.mu
  let dx := i.dx; let dy := i.dy; let dz := i.dz
  let dvx := i.dvx; let dvy := i.dvy; let dvz := i.dvz
  let d := i.d; let a := i.a; let h := i.h
  let hx := i.hx; let hy := i.hy; let hz := i.hz
  let ev := evec i
  let vr := ev.1; let ex := ev.2.1; let ey := ev.2.2.1; let ez := ev.2.2.2
  let e := sqrt (ex * ex + ey * ey + ez * ez)
  let n := a / fabs a * sqrt (fabs (mu / (a * a * a)))
  let P := two * OrbitK.pi / n
  let inc := acos2 hz h one
  let nx := neg hy
  let ny := hx
  let nn := sqrt (nx * nx + ny * ny)
  let Omega := acos2 nx nn ny
  let M := meanAnomaly v e d a vr
  let A := readerAngles inc Omega e M d dx dy dz ex ey ez nx ny nn
  let T := t0 - M / fabs n
  let fac := sqrt (two / (one + hz / h)) / h
  { d := d, v := i.v, h := h, P := P, n := n, a := a, e := e, inc := inc, Omega := Omega,
        omega := mod2pi A.omega, pomega := A.pomega, f := mod2pi A.f, M := mod2pi M, l := mod2pi A.l,
        theta := mod2pi A.theta, T := T, rhill := i.rhill,
        pal_ix := (neg fac) * hy,
        pal_iy := fac * hx,
        pal_k := h / mu * (dvy - dvz / (h + hz) * hy) - one / d * (dx - dz / (h + hz) * hx),
        pal_h := h / mu * ((neg dvx) + dvz / (h + hz) * hx) - one / d * (dy - dz / (h + hz) * hy),
        hx := hx, hy := hy, hz := hz, ex := ex, ey := ey, ez := ez }

/-- error 1: primary.m ≤ TINY; error 2: d ≤ TINY.  `t0` = `p.sim->t` (0 without sim). -/
def orbitFromParticle (v : Variant) (G : K) (p pr : Part K) (t0 : K) : Except Nat (Orb K) :=
  if le pr.m OrbitK.tiny then .error 1 else
  let i := invariants G p pr
  if le i.d OrbitK.tiny then .error 2 else
  .ok (orbitBody v i t0)

end reader

/-! ## Pal (2009) elements -/
section pal
variable {K : Type} [OrbitK K]

/-- one pass of the loop body given `c = cos(pn)`, `s = sin(pn)`, `cl = cos(lambda)`,
    `sl = sin(lambda)`: returns `(pn', qn', f0, f1)`.  `fixed = false` is the unchanged tree
    (`qn -= fd00*f0+fd10*f1; pn -= fd01*f0+fd11*f1;`) -/
def palStepCore {K : Type} [Scalar K] (fixed : Bool) (h k cl sl c s pn qn : K) : K × K × K × K :=
  let f0 := qn * c + pn * s - (k * cl + h * sl)
  let f1 := (neg qn) * s + pn * c - (k * sl - h * cl)
  let fac := one / (qn - one)
  let fd00 := fac * (qn * c - c + pn * s)
  let fd01 := fac * (pn * c - qn * s + s)
  let fd10 := fac * (neg s)
  let fd11 := fac * (neg c)
  let qn' := if fixed then qn - (fd00 * f0 + fd01 * f1) else qn - (fd00 * f0 + fd10 * f1)
  let pn' := if fixed then pn - (fd10 * f0 + fd11 * f1) else pn - (fd01 * f0 + fd11 * f1)
  (pn', qn', f0, f1)

/-- the `do { … } while(n++<50 && f>1e-15)` loop: at most 51 passes -/
def palNewton (fixed : Bool) (h k lambda : K) : Nat → K → K → K × K
  | 0, pn, qn => (pn, qn)
  | fuel+1, pn, qn =>
    let (pn', qn', f0, f1) := palStepCore fixed h k (cos lambda) (sin lambda) (cos pn) (sin pn) pn qn
    let f := sqrt (f0 * f0 + f1 * f1)
    if lt c1em15 f then palNewton fixed h k lambda fuel pn' qn' else (pn', qn')

/-- `reb_tools_solve_kepler_pal`: returns `(p, q)` -/
def solveKeplerPal (v : Variant) (h k lambda : K) : K × K :=
  let e2 := h * h + k * k
  if lt e2 (c0p3 * c0p3) then palNewton v.palNewton h k lambda 51 zero zero
  else
    let pomega := atan2 h k
    let M := lambda - pomega
    let e := sqrt e2
    let E := M_to_E v e M
    (e * sin E, e * cos E)

/-- the straight-line part of `reb_particle_from_pal` given `(p, q)`, `slp = sin(lambda+p)`,
    `clp = cos(lambda+p)`, `l = 1 - sqrt(1-h²-k²)`, `iz = sqrt|4-ix²-iy²|`, `an = sqrt(G(m+M)/a)` -/
def fromPalCore {K : Type} [Scalar K] (pr : Part K) (m a k h ix iy p q slp clp l iz an : K) : Part K :=
  let xi := a * (clp + p / (two - l) * h - k)
  let eta := a * (slp - p / (two - l) * k - h)
  let W := eta * ix - xi * iy
  let dxi := an / (one - q) * ((neg slp) + q / (two - l) * h)
  let deta := an / (one - q) * (clp - q / (two - l) * k)
  let dW := deta * ix - dxi * iy
  { m := m
    x := pr.x + xi + half * iy * W
    y := pr.y + eta - half * ix * W
    z := pr.z + half * iz * W
    vx := pr.vx + dxi + half * iy * dW
    vy := pr.vy + deta - half * ix * dW
    vz := pr.vz + half * iz * dW }

def fromPal (v : Variant) (G : K) (pr : Part K) (m a lambda k h ix iy : K) : Part K :=
  let (p, q) := solveKeplerPal v h k lambda
  let slp := sin (lambda + p)
  let clp := cos (lambda + p)
  let l := one - sqrt (one - h * h - k * k)
  let iz := sqrt (fabs (four - ix * ix - iy * iy))
  let an := sqrt (G * (m + pr.m) / a)
  fromPalCore pr m a k h ix iy p q slp clp l iz an

/-- `reb_tools_particle_to_pal`: Cartesian → Pal elements `(a, lambda, k, h, ix, iy)` (tools.c:1233-1259) -/
structure PalEl (K : Type) where
  a : K
  lambda : K
  k : K
  h : K
  ix : K
  iy : K

def particleToPal (G : K) (p pr : Part K) : PalEl K :=
  let x := p.x - pr.x
  let y := p.y - pr.y
  let z := p.z - pr.z
  let vx := p.vx - pr.vx
  let vy := p.vy - pr.vy
  let vz := p.vz - pr.vz
  let mu := G * (p.m + pr.m)
  let r2 := x * x + y * y + z * z
  let r := sqrt r2
  let cx := y * vz - z * vy
  let cy := z * vx - x * vz
  let cz := x * vy - y * vx
  let c2 := cx * cx + cy * cy + cz * cz
  let c := sqrt c2
  let chat := x * vx + y * vy + z * vz
  let fac := sqrt (two / (one + cz / c)) / c
  let ix := (neg fac) * cy
  let iy := fac * cx
  let k := c / mu * (vy - vz / (c + cz) * cy) - one / r * (x - z / (c + cz) * cx)
  let h := c / mu * ((neg vx) + vz / (c + cz) * cx) - one / r * (y - z / (c + cz) * cy)
  let e2 := k * k + h * h
  let a := c2 / (mu * (one - e2))
  let l := one - sqrt (one - e2)
  let lambda := atan2 ((neg r) * vx + r * vz * cx / (c + cz) - k * chat / (two - l))
                      (r * vy - r * vz * cy / (c + cz) + h * chat / (two - l)) - chat / c * (one - l)
  { a := a, lambda := lambda, k := k, h := h, ix := ix, iy := iy }

end pal

/-! ## the value part of the C front end `reb_particle_from_fmt_errV` -/

/-- values of the optional arguments (`none` = not named in the format string) -/
structure FArgs (K : Type) where
  m : Option K := none
  x : Option K := none
  y : Option K := none
  z : Option K := none
  vx : Option K := none
  vy : Option K := none
  vz : Option K := none
  primary : Option (Part K) := none
  a : Option K := none
  P : Option K := none
  e : Option K := none
  inc : Option K := none
  Omega : Option K := none
  omega : Option K := none
  pomega : Option K := none
  f : Option K := none
  M : Option K := none
  E : Option K := none
  l : Option K := none
  theta : Option K := none
  T : Option K := none
  h : Option K := none
  k : Option K := none
  ix : Option K := none
  iy : Option K := none

def FArgs.presence {K : Type} (g : FArgs K) (sim : Bool) : OrbitArgs.Presence where
  sim := sim
  m := g.m.isSome
  r := false
  hash := false
  x := g.x.isSome
  y := g.y.isSome
  z := g.z.isSome
  vx := g.vx.isSome
  vy := g.vy.isSome
  vz := g.vz.isSome
  primary := g.primary.isSome
  a := g.a.isSome
  P := g.P.isSome
  e := g.e.isSome
  inc := g.inc.isSome
  Omega := g.Omega.isSome
  omega := g.omega.isSome
  pomega := g.pomega.isSome
  f := g.f.isSome
  M := g.M.isSome
  E := g.E.isSome
  l := g.l.isSome
  theta := g.theta.isSome
  T := g.T.isSome
  h := g.h.isSome
  k := g.k.isSome
  ix := g.ix.isSome
  iy := g.iy.isSome

section front
variable {K : Type} [OrbitK K]

/-- `reb_particle_from_fmt_errV` with a simulation (`G`, `t`, centre of mass `com` used when
    no primary is given); returns the C error code or the particle.  The decision part is
    `OrbitArgs.cValidate tab`; this function adds the arithmetic (tools.c:812-920). -/
def frontC (v : Variant) (tab : OrbitArgs.Tab) (G t : K) (com : Part K) (g : FArgs K) : Except Nat (Part K) :=
  let z0 : K := zero
  let m := g.m.getD z0
  match OrbitArgs.cValidate tab (g.presence true) with
  | .error e => .error e.code
  | .ok .cartesian =>
    .ok { m := m, x := g.x.getD z0, y := g.y.getD z0, z := g.z.getD z0,
          vx := g.vx.getD z0, vy := g.vy.getD z0, vz := g.vz.getD z0 }
  | .ok plan =>
    let pr := g.primary.getD com
    let a : K := match g.a with
      | some a => a
      | none =>
        let P := g.P.getD z0
        cbrt (P * P * G * (pr.m + m) / (four * OrbitK.pi * OrbitK.pi))
    match plan with
    | .pal _ _ _ =>
      let l := g.l.getD z0; let h := g.h.getD z0; let k := g.k.getD z0
      let ix := g.ix.getD z0; let iy := g.iy.getD z0
      if lt four (ix * ix + iy * iy) then .error 12
      else .ok (fromPal v G pr m a l k h ix iy)
    | _ =>
      let e := g.e.getD z0
      let inc := g.inc.getD z0
      let Omega := g.Omega.getD z0
      let pro := lt z0 (cos inc)
      let omega : K := match g.omega, g.pomega with
        | some w, _ => w
        | none, some pw => if pro then pw - Omega else Omega - pw
        | none, none => z0
      let f : K :=
        match g.theta, g.l, g.T, g.M, g.E, g.f with
        | some th, _, _, _, _, _ => if pro then th - Omega - omega else Omega - omega - th
        | none, some l, _, _, _, _ =>
          M_to_f v e (if pro then l - Omega - omega else Omega - omega - l)
        | none, none, some T, _, _, _ =>
          let n := sqrt (G * (pr.m + m) / fabs (a * a * a))
          M_to_f v e (n * (t - T))
        | none, none, none, some M, _, _ => M_to_f v e M
        | none, none, none, none, some E, _ => E_to_f e E
        | none, none, none, none, none, some f => f
        | none, none, none, none, none, none => z0
      match fromOrbit v G pr m a e inc Omega omega f with
      | .error err => .error err.code
      | .ok p => .ok p

/-- the arithmetic of the Python constructor `Particle.__init__` (rebound/particle.py:300-431) in Python's
    operation order; `x**y` on floats is libm `pow`, `abs` is `fabs`, `math.pi` is `M_PI`, `math.cos` libm `cos`;
    `M_to_f`, `E_to_f`, `reb_particle_from_pal`, `reb_particle_from_orbit_err` are the C routines it calls.
    The decision part is `OrbitArgs.pyValidate tab`; ValueErrors are returned as the matching error number. -/
def frontPy (v : Variant) (tab : OrbitArgs.Tab) (G t : K) (com : Part K) (g : FArgs K) : Except Nat (Part K) :=
  let z0 : K := zero
  let m := g.m.getD z0
  match OrbitArgs.pyValidate tab (g.presence true) with
  | .error e => .error e.code
  | .ok .cartesian =>
    .ok { m := m, x := g.x.getD z0, y := g.y.getD z0, z := g.z.getD z0,
          vx := g.vx.getD z0, vy := g.vy.getD z0, vz := g.vz.getD z0 }
  | .ok plan =>
    let pr := g.primary.getD com
    let a : K := match g.a with
      | some a => a
      | none =>
        let P := g.P.getD z0
        -- a = (P**2*simulation.G*(primary.m + self.m)/(4.*math.pi**2))**(1./3.)
        pow (pow P two * G * (pr.m + m) / (four * pow OrbitK.pi two)) (one / three)
    match plan with
    | .pal _ _ _ =>
      let h := g.h.getD z0; let k := g.k.getD z0; let l := g.l.getD z0
      let ix := g.ix.getD z0; let iy := g.iy.getD z0
      if lt four (ix * ix + iy * iy) then .error 12
      else .ok (fromPal v G pr m a l k h ix iy)
    | _ =>
      let e := g.e.getD z0
      let inc := g.inc.getD z0
      let Omega := g.Omega.getD z0
      let omega : K := match g.omega, g.pomega with
        | none, none => z0
        | _, some pw => if lt z0 (cos inc) then pw - Omega else Omega - pw
        | some w, none => w
      let f : K :=
        match g.f, g.theta, g.l, g.T, g.M, g.E with
        | none, none, none, none, none, none => z0
        | some f, _, _, _, _, _ => f
        | none, some th, _, _, _, _ => if lt z0 (cos inc) then th - Omega - omega else Omega - omega - th
        | none, none, some l, _, _, _ =>
          M_to_f v e (if lt z0 (cos inc) then l - Omega - omega else Omega - omega - l)
        | none, none, none, some T, _, _ =>
          -- n = (simulation.G*(primary.m+self.m)/abs(a**3))**0.5
          let n := pow (G * (pr.m + m) / fabs (pow a three)) half
          M_to_f v e (n * (t - T))
        | none, none, none, none, some M, _ => M_to_f v e M
        | none, none, none, none, none, some E => E_to_f e E
      match fromOrbit v G pr m a e inc Omega omega f with
      | .error err => .error err.code
      | .ok p => .ok p

end front

end RV.Orbit
