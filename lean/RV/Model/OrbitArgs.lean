/-
  C11 (i) — which argument combinations the two particle constructors accept.

  `cValidate`  : transcription of the decision part of `reb_particle_from_fmt_errV`
                 (src/tools.c:752-916): the five counters Ncart / Norb / Nnonpal / Npal /
                 Nlong, the tests on them in source order, error codes 7,8,9,10,11,13,14.
  `pyValidate` : transcription of `Particle.__init__` (rebound/particle.py:265-390):
                 the lists cart / orbi / pal, `notNone`, `count(None)`, the ValueErrors in
                 source order.

  A `Presence` says which of the optional arguments were passed (C: named in the format
  string; Python: `is not None`).  Value-dependent rejections (error 12: ix²+iy² > 4, and
  errors 1–6 of `reb_particle_from_orbit_err`) happen after this stage and are modelled in
  RV/Model/Orbit.lean.

  The membership lists of the counters are not hard-wired: they are a `Tab`, and
  RV/Gen/C11Args.lean is regenerated from the two source files on every run, so a changed
  list in either front end changes the generated table and breaks `c11_source_tables`.
  Python-only arguments (`particle`, `variation`, `date`, `jacobi_masses`, the `pal_*`
  aliases, the string "uniform") have no C counterpart and are outside the comparison.
-/
namespace RV.OrbitArgs

/-- the optional arguments common to both front ends (+ `sim`: a simulation was passed) -/
inductive Arg
  | sim | m | r | hash | x | y | z | vx | vy | vz
  | primary | a | P | e | inc | Omega | omega | pomega | f | M | E | l | theta | T
  | h | k | ix | iy
deriving DecidableEq, Repr

structure Presence where
  sim : Bool
  m : Bool
  r : Bool
  hash : Bool
  x : Bool
  y : Bool
  z : Bool
  vx : Bool
  vy : Bool
  vz : Bool
  primary : Bool
  a : Bool
  P : Bool
  e : Bool
  inc : Bool
  Omega : Bool
  omega : Bool
  pomega : Bool
  f : Bool
  M : Bool
  E : Bool
  l : Bool
  theta : Bool
  T : Bool
  h : Bool
  k : Bool
  ix : Bool
  iy : Bool
deriving DecidableEq, Repr

def Presence.none : Presence :=
  ⟨false, false, false, false, false, false, false, false, false, false, false, false, false, false,
   false, false, false, false, false, false, false, false, false, false, false, false, false, false⟩

def Presence.get (p : Presence) : Arg → Bool
  | .sim => p.sim | .m => p.m | .r => p.r | .hash => p.hash
  | .x => p.x | .y => p.y | .z => p.z | .vx => p.vx | .vy => p.vy | .vz => p.vz
  | .primary => p.primary | .a => p.a | .P => p.P | .e => p.e | .inc => p.inc
  | .Omega => p.Omega | .omega => p.omega | .pomega => p.pomega | .f => p.f | .M => p.M
  | .E => p.E | .l => p.l | .theta => p.theta | .T => p.T
  | .h => p.h | .k => p.k | .ix => p.ix | .iy => p.iy

/-- error codes of `reb_string_for_particle_error` raised before any arithmetic -/
inductive Err
  | palMix     -- 7  Pal coordinates mixed with classical elements
  | cartMix    -- 8  Cartesian coordinates and orbital elements
  | noSim      -- 9  orbital elements without a simulation
  | noAP       -- 10 neither a nor P
  | bothAP     -- 11 both a and P
  | bothPeri   -- 13 both omega and pomega
  | manyLong   -- 14 more than one of f, M, E, l, theta, T
deriving DecidableEq, Repr

def Err.code : Err → Nat
  | .palMix => 7 | .cartMix => 8 | .noSim => 9 | .noAP => 10 | .bothAP => 11
  | .bothPeri => 13 | .manyLong => 14

inductive Peri | dflt | omega | pomega
deriving DecidableEq, Repr

inductive Lon | dflt | f | M | E | l | theta | T
deriving DecidableEq, Repr

/-- which element set builds the particle -/
inductive Plan
  | cartesian
  | pal (useP : Bool) (primaryGiven : Bool) (lGiven : Bool)
  | classical (useP : Bool) (primaryGiven : Bool) (peri : Peri) (lon : Lon)
deriving DecidableEq, Repr

instance : DecidableEq (Except Err Plan) := fun a b =>
  match a, b with
  | .error x, .error y =>
    if h : x = y then isTrue (by rw [h]) else isFalse (by intro h'; cases h'; exact h rfl)
  | .ok x, .ok y =>
    if h : x = y then isTrue (by rw [h]) else isFalse (by intro h'; cases h'; exact h rfl)
  | .error _, .ok _ => isFalse (by intro h; cases h)
  | .ok _, .error _ => isFalse (by intro h; cases h)

/-- membership lists of the five C counters / the four Python lists -/
structure Tab where
  cart : List Arg
  orb : List Arg
  nonpal : List Arg
  pal : List Arg
  long : List Arg
deriving DecidableEq, Repr

/-- the lists both front ends are documented to use (error message 7 names the non-Pal
    elements: e, inc, Omega, omega, pomega, f, M, E, theta, T) -/
def stdTab : Tab where
  cart := [.x, .y, .z, .vx, .vy, .vz]
  orb := [.primary, .a, .P, .e, .inc, .Omega, .omega, .pomega, .f, .M, .E, .l, .theta, .T]
  nonpal := [.e, .inc, .Omega, .omega, .pomega, .f, .M, .E, .theta, .T]
  pal := [.h, .k, .ix, .iy]
  long := [.f, .M, .E, .l, .theta, .T]

/-- the unchanged C source additionally counts `primary` in Nnonpal (tools.c:777) -/
def cTabPrimaryNonpal : Tab := { stdTab with nonpal := .primary :: stdTab.nonpal }

/-- `if (!isnan(x)) N++;` over a membership list -/
def count (p : Presence) : List Arg → Nat
  | [] => 0
  | q :: r => (p.get q).toNat + count p r

/-- the arguments whose individual presence is tested after the counters -/
structure Flags where
  sim : Bool
  primary : Bool
  a : Bool
  P : Bool
  omega : Bool
  pomega : Bool
  f : Bool
  M : Bool
  E : Bool
  l : Bool
  theta : Bool
  T : Bool
deriving DecidableEq, Repr

def flags (p : Presence) : Flags :=
  ⟨p.sim, p.primary, p.a, p.P, p.omega, p.pomega, p.f, p.M, p.E, p.l, p.theta, p.T⟩

/-! ## C front end -/

/-- the chain of `if (!isnan(..))` after `Nlong==1` (tools.c:891-915): with exactly one
    longitude present, the one that determines `f` -/
def cLon (p : Flags) (nlong : Nat) : Lon :=
  if nlong == 0 then .dflt
  else if p.theta then .theta
  else if p.l then .l
  else if p.T then .T
  else if p.M then .M
  else if p.E then .E
  else .f

def cPeri (p : Flags) : Peri :=
  if !p.omega && !p.pomega then .dflt else if p.pomega then .pomega else .omega

/-- tools.c:803-916 after the counters have been computed; `cartPos` is `Ncart>0` etc. -/
def cCore (cartPos orbPos nonpalPos palPos : Bool) (Nlong : Nat) (p : Flags) : Except Err Plan :=
  if nonpalPos && palPos then .error .palMix
  else if cartPos && orbPos then .error .cartMix
  else if cartPos || !orbPos then .ok .cartesian
  else if !p.sim then .error .noSim
  else if !p.a && !p.P then .error .noAP
  else if p.a && p.P then .error .bothAP
  else if palPos then .ok (.pal (!p.a) p.primary p.l)
  else if p.omega && p.pomega then .error .bothPeri
  else if Nlong > 1 then .error .manyLong
  else .ok (.classical (!p.a) p.primary (cPeri p) (cLon p Nlong))

/-- tools.c:752-801: the five counters, then the decisions -/
def cValidate (t : Tab) (p : Presence) : Except Err Plan :=
  let Ncart := count p t.cart
  let Norb := count p t.orb
  let Nnonpal := count p t.nonpal
  let Npal := count p t.pal
  let Nlong := count p t.long
  cCore (Ncart > 0) (Norb > 0) (Nnonpal > 0) (Npal > 0) Nlong (flags p)

/-! ## Python front end -/

/-- `notNone(a)`: `a.count(None) != len(a)` -/
def notNone (p : Presence) (l : List Arg) : Bool := count p l != 0

/-- `a.count(None)` -/
def countNone (p : Presence) (l : List Arg) : Nat := l.length - count p l

/-- the `if f is not None … elif theta … elif l … elif T … elif M … elif E` chain -/
def pyLon (p : Flags) : Lon :=
  if p.f then .f
  else if p.theta then .theta
  else if p.l then .l
  else if p.T then .T
  else if p.M then .M
  else if p.E then .E
  else .dflt

/-- particle.py:300-390 given the values of the `notNone(..)` / `count(None)` expressions -/
def pyCore (nnNonpal nnPal nnCart nnOrbi : Bool) (nonePeri noneLong : Nat) (p : Flags) :
    Except Err Plan :=
  if nnNonpal && nnPal then .error .palMix
  else if nnCart && nnOrbi then .error .cartMix
  else if nnOrbi then
    if !p.sim then .error .noSim
    else if !p.a && !p.P then .error .noAP
    else if p.a && p.P then .error .bothAP
    else if nnPal then .ok (.pal (!p.a) p.primary p.l)
    else
      let numNones := nonePeri
      if numNones == 0 then .error .bothPeri
      else
        let peri : Peri := if numNones == 2 then .dflt else if p.pomega then .pomega else .omega
        let numNones := noneLong
        if numNones < 5 then .error .manyLong
        else if numNones == 6 then .ok (.classical (!p.a) p.primary peri .dflt)
        else .ok (.classical (!p.a) p.primary peri (pyLon p))
  else .ok .cartesian

def pyValidate (t : Tab) (p : Presence) : Except Err Plan :=
  pyCore (notNone p t.nonpal) (notNone p t.pal) (notNone p t.cart) (notNone p t.orb)
    (countNone p [.omega, .pomega]) (countNone p t.long) (flags p)

/-! ## the summary both validators factor through

Only the following functions of a presence pattern can influence either validator (for the
two tables `stdTab`, `cTabPrimaryNonpal`).  2¹⁵ summaries stand for the 2²⁸ patterns. -/
structure Summary where
  sim : Bool
  cartAny : Bool      -- any of x y z vx vy vz
  palAny : Bool       -- any of h k ix iy
  primary : Bool
  a : Bool
  P : Bool
  eio : Bool          -- any of e inc Omega
  omega : Bool
  pomega : Bool
  f : Bool
  M : Bool
  E : Bool
  l : Bool
  theta : Bool
  T : Bool
deriving DecidableEq, Repr

def summ (p : Presence) : Summary where
  sim := p.sim
  cartAny := p.x || p.y || p.z || p.vx || p.vy || p.vz
  palAny := p.h || p.k || p.ix || p.iy
  primary := p.primary
  a := p.a
  P := p.P
  eio := p.e || p.inc || p.Omega
  omega := p.omega
  pomega := p.pomega
  f := p.f
  M := p.M
  E := p.E
  l := p.l
  theta := p.theta
  T := p.T

/-- a canonical presence pattern of a summary (used to execute every class on the real code) -/
def Summary.rep (s : Summary) : Presence :=
  { Presence.none with
    sim := s.sim, x := s.cartAny, h := s.palAny, primary := s.primary, a := s.a, P := s.P,
    e := s.eio, omega := s.omega, pomega := s.pomega, f := s.f, M := s.M, E := s.E, l := s.l,
    theta := s.theta, T := s.T }

def Summary.ofBits (n : Nat) : Summary where
  sim := n.testBit 0
  cartAny := n.testBit 1
  palAny := n.testBit 2
  primary := n.testBit 3
  a := n.testBit 4
  P := n.testBit 5
  eio := n.testBit 6
  omega := n.testBit 7
  pomega := n.testBit 8
  f := n.testBit 9
  M := n.testBit 10
  E := n.testBit 11
  l := n.testBit 12
  theta := n.testBit 13
  T := n.testBit 14

/-- text form of a verdict for the line protocol: `E<code>` or a plan string -/
def verdictStr : Except Err Plan → String
  | .error e => s!"E{e.code}"
  | .ok .cartesian => "cart"
  | .ok (.pal useP pg lg) => s!"pal:{if useP then "P" else "a"}:{if pg then 1 else 0}:{if lg then 1 else 0}"
  | .ok (.classical useP pg peri lon) =>
    let ps := match peri with | .dflt => "-" | .omega => "omega" | .pomega => "pomega"
    let ls := match lon with
      | .dflt => "-" | .f => "f" | .M => "M" | .E => "E" | .l => "l" | .theta => "theta" | .T => "T"
    s!"cl:{if useP then "P" else "a"}:{if pg then 1 else 0}:{ps}:{ls}"

end RV.OrbitArgs
