import RV.Model.Particles
/-
  The storage of the lazy hash lookup table (property C14, model part 3): `reb_update_particle_lookup_table`
  (src/particle.c:272-301) with its allocation made explicit — `N_allocated_lookup` cells, doubled (or set to 128)
  inside the loop whenever `N_hash` reaches it, old cells kept by `realloc`, new cells unwritten; every write is
  bounds-checked against the capacity, the zero-hash entry is written at slot `zerohash = i` (the PARTICLE index of the
  first zero-hash particle) and later updated in place.  RV/Model/Particles.lean's `rebuildLoop` is the same loop on
  the first `N_hash` cells only; the two are proved equal in RV/Proofs/ParticlesLookup.lean.  Mathlib-free.
-/
namespace RV.Particles

/-- `if (N_hash >= N_allocated_lookup) N_allocated_lookup = N_allocated_lookup ? N_allocated_lookup*2 : 128;` -/
def lookupGrow (cap nHash : Nat) : Nat :=
  if nHash ≥ cap then (if cap = 0 then 128 else cap * 2) else cap

/-- `table[k] = e` inside the allocation -/
def ltWrite (cells : List (Option Entry)) (k : Nat) (e : Entry) : Option (List (Option Entry)) :=
  if k < cells.length then some (cells.set k (some e)) else none

/-- the loop of `reb_update_particle_lookup_table`; `cells` = the allocated table (`none` = never written since the
    `realloc`), result = (table, N_lookup) before the `qsort` -/
def rebuildAllocLoop : List P → Nat → List (Option Entry) → Nat → Option Nat → Option (List (Option Entry) × Nat)
  | [], _, cells, nHash, _ => some (cells, nHash)
  | p :: ps, i, cells, nHash, zh =>
    let cells := cells ++ List.replicate (lookupGrow cells.length nHash - cells.length) none
    if p.hash = 0 then
      match zh with
      | none =>
        -- zerohash = i; table[zerohash] = (0, i); N_hash++
        match ltWrite cells i ⟨p.hash, i⟩ with
        | none => none
        | some cells' => rebuildAllocLoop ps (i + 1) cells' (nHash + 1) (some i)
      | some z =>
        -- table[zerohash].index = i   (read-modify-write of a cell that must have been written)
        match cells[z]? with
        | some (some e) => rebuildAllocLoop ps (i + 1) (cells.set z (some ⟨e.hash, i⟩)) nHash (some z)
        | _ => none
    else
      -- table[N_hash] = (hash, i); N_hash++
      match ltWrite cells nHash ⟨p.hash, i⟩ with
      | none => none
      | some cells' => rebuildAllocLoop ps (i + 1) cells' (nHash + 1) zh

/-- `N_allocated_lookup` after a rebuild that starts from capacity `cap` (the content of the old cells is irrelevant) -/
def capAfterRebuild (cap : Nat) (ps : List P) : Nat :=
  match rebuildAllocLoop ps 0 (List.replicate cap none) 0 none with
  | some (cells, _) => cells.length
  | none => cap

/-- does `reb_simulation_particle_by_hash` rebuild the table?  (the two `reb_update_particle_lookup_table` calls) -/
def rebuilds (c : State) (h : Nat) : Bool :=
  match search c.lookup h c.N with
  | .hit i => (match c.mem[i]? with | some p => decide (p.hash ≠ h) | none => false)
  | .miss => true
  | .fault => false

/-- `N_allocated_lookup` after a lookup of hash `h` -/
def capAfterLookup (cap : Nat) (c : State) (h : Nat) : Nat :=
  if rebuilds c h then capAfterRebuild cap (c.mem.take c.N) else cap

end RV.Particles
