/-
  C01 — operator schedules of the fixed-step integrators and the exact-rational algebra in
  which their advertised orders are decided.  Mathlib-free: everything here is evaluated by
  the kernel (`decide +kernel`) on the tables and schedules that `rv/extract_c01.py`
  regenerates from the C sources on every run (lean/RV/Gen/C01*.lean).

  Conventions
  * A schedule is the list of primitive operators one time step applies, in application
    order, with coefficients as multiples of `dt` (jerk terms: of `dt³`).
  * `kind 0` drift  = exact flow of the "A" part (Kepler/free drift) for `a·dt`
                      (`b = 1`: the centre-of-mass step accompanies the Kepler step),
    `kind 1` kick   = flow of the interaction part "B" for `a·dt`, plus jerk term `b·dt³`,
    `kind 2` force evaluation (does not move the state),
    `kind 3` jump step (democratic-heliocentric / WHDS coordinates) for `a·dt`,
    `kind 4` kick by finite differences ("lazy implementer's" kernel): `a·dt`, jerk `b·dt³`.
-/
namespace RV.C01

structure Op where
  kind : Nat
  a : Rat
  b : Rat
deriving DecidableEq, Repr, Inhabited

/-- exact rational from numerator / denominator (decimal literals of the C source) -/
def q (n : Int) (d : Nat) : Rat := mkRat n d

def absQ (x : Rat) : Rat := if x < 0 then -x else x

/-- `|x - y| ≤ tol` -/
@[reducible] def Near (x y tol : Rat) : Prop := absQ (x - y) ≤ tol

def sumQ (l : List Rat) : Rat := l.foldl (· + ·) 0

def sumBy (p : Op → Bool) (f : Op → Rat) (s : List Op) : Rat := sumQ ((s.filter p).map f)

def isKick (o : Op) : Bool := o.kind == 1 || o.kind == 4
def driftSum (s : List Op) : Rat := sumBy (·.kind == 0) (·.a) s
/-- drift of the centre of mass (Kepler steps inside symplectic correctors come without it) -/
def comSum (s : List Op) : Rat := sumBy (fun o => o.kind == 0 && o.b == 1) (·.a) s
def kickSum (s : List Op) : Rat := sumBy isKick (·.a) s
def jerkSum (s : List Op) : Rat := sumBy isKick (·.b) s
def jumpSum (s : List Op) : Rat := sumBy (·.kind == 3) (·.a) s
def kicks (s : List Op) : List Rat := (s.filter isKick).map (·.a)
def countKind (k : Nat) (s : List Op) : Nat := (s.filter (·.kind == k)).length

/-- consistency: the step advances the Kepler part, the centre of mass and the interaction part by one `dt` each -/
@[reducible] def Consistent (s : List Op) (tol : Rat) : Prop :=
  Near (driftSum s) 1 tol ∧ Near (comSum s) 1 tol ∧ Near (kickSum s) 1 tol

/-! ### the schedule as a word in one-parameter groups: merge neighbours, drop identities -/

structure G where
  letter : Nat
  t : Rat
  j : Rat
deriving DecidableEq, Repr

def toG (o : Op) : G := if o.kind == 0 then ⟨0, o.a, 0⟩ else ⟨o.kind, o.a, o.b⟩

def consG (g : G) : List G → List G
  | [] => if g.t == 0 && g.j == 0 then [] else [g]
  | p :: r =>
    if p.letter == g.letter then
      let m : G := ⟨g.letter, g.t + p.t, g.j + p.j⟩
      if m.t == 0 && m.j == 0 then r else m :: r
    else if g.t == 0 && g.j == 0 then p :: r else g :: p :: r

/-- force evaluations removed, neighbouring operators of the same one-parameter group merged, identities dropped -/
def norm (s : List Op) : List G := (s.filter (·.kind != 2)).foldr (fun o acc => consG (toG o) acc) []

def invG (l : List G) : List G := l.reverse.map (fun g => ⟨g.letter, -g.t, -g.j⟩)

@[reducible] def Palindrome (s : List Op) : Prop := norm s = (norm s).reverse

/-- `s = pre ++ core ++ post` with `|pre| = |post| = k`, `post = pre⁻¹`, `core` a palindrome -/
@[reducible] def SplitSym (s : List Op) (k : Nat) : Prop :=
  norm (s.drop (s.length - k)) = invG (norm (s.take k)) ∧ Palindrome ((s.drop k).take (s.length - 2 * k))

/-- the step is conjugate to a time-symmetric kernel: `χ ∘ K ∘ χ⁻¹` with `K` a palindrome (χ = id: `k = 0`) -/
@[reducible] def ConjSym (s : List Op) : Prop := ∃ k ∈ List.range (s.length / 2 + 1), SplitSym s k

/-- every kick uses a force evaluated after the last operator that moved positions -/
def freshAux : List Op → Bool → Bool
  | [], _ => true
  | o :: r, valid =>
    if o.kind == 2 then freshAux r true
    else if o.kind == 0 || o.kind == 3 then freshAux r false
    else valid && freshAux r valid
@[reducible] def Fresh (s : List Op) : Prop := freshAux s false = true

/-! ### quadrature form of the first-order-in-ε conditions -/

/-- `Σ_j κ_j · t_j^k`, `t_j` the cumulative drift before kick `j` -/
def momentAux (k : Nat) : List Op → Rat → Rat → Rat
  | [], _, acc => acc
  | o :: r, t, acc =>
    if o.kind == 0 then momentAux k r (t + o.a) acc
    else if isKick o then momentAux k r t (acc + o.a * t ^ k)
    else momentAux k r t acc
def moment (s : List Op) (k : Nat) : Rat := momentAux k s 0 0

/-- `Σ b_i c_i^k = 1/(k+1)` for all `k < p` -/
@[reducible] def Quadrature (s : List Op) (p : Nat) (tol : Rat) : Prop :=
  ∀ k ∈ List.range p, Near (moment s k) (1 / ((k : Rat) + 1)) tol

/-! ### the free associative algebra on two letters, truncated

  A schedule of drifts and kicks is the product `Π exp(cᵢ·dt·Lᵢ)`, `Lᵢ ∈ {A, B}`.  The method has
  (generalised) order `(p₁, p₂, …)` for *all* `A`, `B` iff the coefficient of every word with `m` letters `B`
  and length `≤ p_m` in that product equals its coefficient `1/n!` in `exp(dt(A+B))`.  `WT` stores the
  coefficients of a prefix-closed set of words as a binary trie. -/

inductive WT where
  | nil : WT
  | node (c : Rat) (a b : WT) : WT

/-- words with `nb` letters `B` are kept up to length `lim[nb]` (`lim` non-increasing); root coefficient `c` -/
def mkT (lim : List Nat) : Nat → Nat → Nat → Rat → WT
  | 0, _, _, _ => .nil
  | f+1, nb, len, c =>
    if nb < lim.length ∧ len ≤ lim.getD nb 0 then
      .node c (mkT lim f nb (len+1) 0) (mkT lim f (nb+1) (len+1) 0)
    else .nil

def dot : List Rat → List Rat → Rat
  | x :: xs, y :: ys => x * y + dot xs ys
  | _, _ => 0

/-- `[x, x²/2!, x³/3!, …]` (`n` entries) -/
def powers (x : Rat) : Nat → Nat → Rat → List Rat
  | 0, _, _ => []
  | f+1, k, acc => let t := acc * x / (k : Rat); t :: powers x f (k+1) t

/-- right multiplication by `exp(x·L)`; `hist` = old coefficients of the current word stripped of 1, 2, … trailing `L`s -/
def mulExp (pw : List Rat) (isB : Bool) : WT → List Rat → WT
  | .nil, _ => .nil
  | .node c a b, hist =>
    let c' := c + dot hist pw
    if isB then .node c' (mulExp pw isB a []) (mulExp pw isB b (c :: hist))
    else .node c' (mulExp pw isB a (c :: hist)) (mulExp pw isB b [])

/-- small polynomials in the two letters: (reversed word, coefficient) -/
abbrev Poly := List (List Bool × Rat)

def paddTerm (w : List Bool) (c : Rat) : Poly → Poly
  | [] => [(w, c)]
  | (v, d) :: r => if v == w then (v, d + c) :: r else (v, d) :: paddTerm w c r

def countB (w : List Bool) : Nat := (w.filter id).length

/-- product truncated to `≤ maxB` letters `B` and length `≤ maxL` (words are stored reversed: `w₁·w₂` is `w₂ʳ ++ w₁ʳ`) -/
def pmul (maxB maxL : Nat) (p r : Poly) : Poly :=
  p.foldl (fun acc (w1, c1) =>
    r.foldl (fun acc2 (w2, c2) =>
      let w := w2 ++ w1
      if countB w ≤ maxB ∧ w.length ≤ maxL then paddTerm w (c1 * c2) acc2 else acc2) acc) []

def pscale (s : Rat) (p : Poly) : Poly := p.map (fun (w, c) => (w, c * s))
def padd (p r : Poly) : Poly := r.foldl (fun acc (w, c) => paddTerm w c acc) p

/-- `Σ_{n ≤ fuel} Xⁿ/n!` truncated -/
def pexpAux (maxB maxL : Nat) (X : Poly) : Nat → Nat → Poly → Poly → Poly
  | 0, _, _, acc => acc
  | f+1, n, term, acc =>
    let t := pscale (1 / (n : Rat)) (pmul maxB maxL term X)
    pexpAux maxB maxL X f (n+1) t (padd acc t)
def pexp (maxB maxL : Nat) (X : Poly) : Poly := pexpAux maxB maxL X maxL 1 [([], 1)] [([], 1)]

/-- the kick with jerk term: `exp(b·B + g·[B,[B,A]])`, `[B,[B,A]] = BBA − 2·BAB + ABB` -/
def kickPoly (maxB maxL : Nat) (b g : Rat) : Poly :=
  pexp maxB maxL [([true], b), ([false, true, true], g), ([true, false, true], -2 * g), ([true, true, false], g)]

def isPrefix : List Bool → List Bool → Bool
  | [], _ => true
  | _ :: _, [] => false
  | x :: xs, y :: ys => x == y && isPrefix xs ys

/-- `Σ_{(w,e) ∈ E, w a suffix of the current word} old[word without that suffix] · e` -/
def convE (E : Poly) (path : List Bool) (anc : List Rat) : Rat :=
  E.foldl (fun acc (w, e) => if isPrefix w path then acc + anc.getD w.length 0 * e else acc) 0

/-- right multiplication by a small polynomial `E`; `path` = letters of the current word, last first;
    `anc` = old coefficients of the current word's proper prefixes, longest first -/
def mulPoly (E : Poly) : WT → List Bool → List Rat → WT
  | .nil, _, _ => .nil
  | .node c a b, path, anc =>
    let anc' := c :: anc
    .node (convE E path anc') (mulPoly E a (false :: path) anc') (mulPoly E b (true :: path) anc')

def fact : Nat → Nat
  | 0 => 1
  | n+1 => (n+1) * fact n

/-- every stored word of length `n` has coefficient `1/n!` within `tol` -/
def okT (tol : Rat) : WT → Nat → Bool
  | .nil, _ => true
  | .node c a b, n => decide (absQ (c - 1 / (fact n : Rat)) ≤ tol) && okT tol a (n+1) && okT tol b (n+1)

/-- every stored word except the empty one has coefficient 0 within `tol`, the empty word 1 -/
def idT (tol : Rat) : WT → Nat → Bool
  | .nil, _ => true
  | .node c a b, n => decide (absQ (c - (if n = 0 then 1 else 0)) ≤ tol) && idT tol a (n+1) && idT tol b (n+1)

/-- multiply the schedule into the trie.  `κ`: the jerk routine of this integrator family applies the flow of
    `κ·[B,[B,A]]` per unit of its coefficient (see notes/C01.md; −1/2 for WHFast/SABA, −1 for EOS). -/
def runW (maxB maxd : Nat) (κ : Rat) : List Op → WT → WT
  | [], t => t
  | o :: s, t =>
    if o.kind == 0 then runW maxB maxd κ s (mulExp (powers o.a maxd 1 1) false t [])
    else if isKick o then
      if o.b == 0 then runW maxB maxd κ s (mulExp (powers o.a maxd 1 1) true t [])
      else runW maxB maxd κ s (mulPoly (kickPoly maxB maxd o.a (κ * o.b)) t [] [])
    else runW maxB maxd κ s t

def maxOf : List Nat → Nat
  | [] => 0
  | x :: r => Nat.max x (maxOf r)

def product (lim : List Nat) (κ : Rat) (s : List Op) : WT :=
  runW (lim.length - 1) (maxOf lim) κ s (mkT lim (maxOf lim + 1) 0 0 1)

/-- the coefficient of every word with `m` letters `B` and length `≤ lim[m]` in the schedule's product equals
    its coefficient in `exp(dt·(A+B))` within `tol` -/
@[reducible] def WordOrder (s : List Op) (lim : List Nat) (κ tol : Rat) : Prop :=
  okT tol (product lim κ s) 0 = true

/-- the product of the operators is the identity on all words within `lim` -/
@[reducible] def WordIdentity (s : List Op) (lim : List Nat) (κ tol : Rat) : Prop :=
  idT tol (product lim κ s) 0 = true

/-- largest deviation from `1/n!` among the words of length exactly `n` with exactly `m` letters `B` -/
def devT : WT → Nat → Nat → Nat → Nat → Rat
  | .nil, _, _, _, _ => 0
  | .node c a b, n, m, tn, tm =>
    let here := if n = tn ∧ m = tm then absQ (c - 1 / (fact n : Rat)) else 0
    let da := devT a (n+1) m tn tm
    let db := devT b (n+1) (m+1) tn tm
    let x := if da < here then here else da
    if db < x then x else db
def wordDeviation (s : List Op) (lim : List Nat) (κ : Rat) (n m : Nat) : Rat := devT (product lim κ s) 0 0 n m

/-! ### symmetric compositions of a symmetric second-order map

  `Ψ = S(γ₁dt) ∘ … ∘ S(γ_s dt)` with `log S(h) = hY₁ + h³Y₃ + h⁵Y₅ + …` (odd powers only: `S(-h) = S(h)⁻¹`).
  `Ψ` has order `p` for every such `S` iff in `Π exp(γᵢY₁ + γᵢ³Y₃ + …)` every word of degree `≤ p` in the letters
  `Y₁, Y₃, Y₅, Y₇, Y₉` (degrees 1,3,5,7,9) has the coefficient it has in `exp(Y₁)`: `1/n!` for `Y₁ⁿ`, 0 otherwise. -/

inductive YT where
  | nil : YT
  | node (c : Rat) (k1 k3 k5 k7 k9 : YT) : YT

def mkY (p : Nat) : Nat → Nat → Rat → YT
  | 0, _, _ => .nil
  | f+1, deg, c =>
    if deg ≤ p then .node c (mkY p f (deg+1) 0) (mkY p f (deg+3) 0) (mkY p f (deg+5) 0) (mkY p f (deg+7) 0) (mkY p f (deg+9) 0)
    else .nil

def invFacts : Nat → Nat → Rat → List Rat
  | 0, _, _ => []
  | f+1, k, acc => let t := acc / (k : Rat); t :: invFacts f (k+1) t

/-- `Σ_k hist[k-1].coeff · γ^{hist[k-1].degree} / k!` -/
def dotY (gp : List Rat) : List (Rat × Nat) → List Rat → Rat
  | (c, d) :: hs, f :: fs => c * gp.getD d 0 * f + dotY gp hs fs
  | _, _ => 0

/-- right multiplication by `exp(γY₁ + γ³Y₃ + …)`; `hist[k-1]` = (old coefficient of the word minus its last `k`
    letters, total degree of those letters) -/
def mulStage (gp ifs : List Rat) : YT → List (Rat × Nat) → YT
  | .nil, _ => .nil
  | .node c k1 k3 k5 k7 k9, hist =>
    let down (d : Nat) : List (Rat × Nat) := (c, d) :: hist.map (fun (x, D) => (x, D + d))
    .node (c + dotY gp hist ifs) (mulStage gp ifs k1 (down 1)) (mulStage gp ifs k3 (down 3))
      (mulStage gp ifs k5 (down 5)) (mulStage gp ifs k7 (down 7)) (mulStage gp ifs k9 (down 9))

def gpowers (g : Rat) : Nat → Rat → List Rat
  | 0, _ => []
  | f+1, acc => acc :: gpowers g f (acc * g)

/-- `n = some k`: the word so far is `Y₁ᵏ`; `none`: it contains a higher letter -/
def okY (tol : Rat) : YT → Option Nat → Bool
  | .nil, _ => true
  | .node c k1 k3 k5 k7 k9, n =>
    let want : Rat := match n with | some k => 1 / (fact k : Rat) | none => 0
    decide (absQ (c - want) ≤ tol) && okY tol k1 (n.map (· + 1)) && okY tol k3 none && okY tol k5 none
      && okY tol k7 none && okY tol k9 none

def runY (p : Nat) : List Rat → YT → YT
  | [], t => t
  | g :: gs, t => runY p gs (mulStage (gpowers g (p+1) 1) (invFacts (p+1) 1 1) t [])

/-- the order conditions of the symmetric composition with stage sizes `γs` hold up to order `p` within `tol` -/
@[reducible] def CompositionOrder (γs : List Rat) (p : Nat) (tol : Rat) : Prop :=
  okY tol (runY p γs (mkY p (p+1) 0 1)) (some 0) = true

/-- the drift–kick–drift composition `S(γ₁) ∘ … ∘ S(γ_s)`, `S(γ) = drift(γ/2) kick(γ) drift(γ/2)` -/
def composeLF : List Rat → List Op
  | [] => []
  | g :: gs => ⟨0, g / 2, 1⟩ :: ⟨1, g, 0⟩ :: ⟨0, g / 2, 1⟩ :: composeLF gs

/-- the schedule is the composition of leapfrog maps whose sizes are its own kick coefficients -/
@[reducible] def IsLeapfrogComposition (s : List Op) : Prop := norm s = norm (composeLF (kicks s))

/-- power sums `Σ γᵢᵏ` -/
def powerSum (γs : List Rat) (k : Nat) : Rat := sumQ (γs.map (· ^ k))

/-! ### EOS: the inner `n`-loop of `reb_integrator_eos_drift_shell0` -/

/-- `head ; (body ; merge)ⁿ⁻¹ ; body ; tail`, every coefficient scaled by `1/n` (jerk terms by `1/n³`) -/
def scaleOp (n : Nat) (o : Op) : Op :=
  if o.kind == 0 then ⟨0, o.a / (n : Rat), o.b⟩ else ⟨o.kind, o.a / (n : Rat), o.b / ((n : Rat) ^ 3)⟩

def innerRaw (head body merge tail : List Op) : Nat → List Op
  | 0 => head ++ tail
  | 1 => head ++ body ++ tail
  | n+2 =>
    let rec rep : Nat → List Op
      | 0 => []
      | k+1 => body ++ merge ++ rep k
    head ++ rep (n+1) ++ body ++ tail

def innerSched (pre head body merge tail post : List Op) (n : Nat) : List Op :=
  (pre ++ innerRaw head body merge tail n ++ post).map (scaleOp n)

/-! ### IAS15: the constants as functions of the Gauss–Radau spacings (the recurrences of the source's own
    `integrator_generate_constants`) -/

/-- `rr[l] = h[j] − h[k]`, `j = 1..7`, `k = 0..j−1` -/
def rrOf (h : List Rat) : List Rat :=
  (List.range 8).flatMap (fun j => if j = 0 then [] else (List.range j).map (fun k => h.getD j 0 - h.getD k 0))

def nextC (hj : Rat) (prev : List Rat) : List Rat :=
  (-hj * prev.headD 0) :: (List.zipWith (fun x y => x - hj * y) prev prev.tail ++ [prev.getLastD 0 - hj])

def nextD (h : List Rat) (j : Nat) (prev : List Rat) : List Rat :=
  (h.getD 1 0 * prev.headD 0) ::
    ((List.zipWith (fun (xy : Rat × Rat) (hk : Rat) => xy.1 + hk * xy.2) (prev.zip prev.tail) (h.drop 2)) ++
      [prev.getLastD 0 + h.getD j 0])

def iasRows (next : Nat → List Rat → List Rat) : Nat → Nat → List Rat → List Rat
  | 0, _, _ => []
  | f+1, j, prev => let row := next j prev; row ++ iasRows next f (j+1) row

def cOf (h : List Rat) : List Rat := [-(h.getD 1 0)] ++ iasRows (fun j p => nextC (h.getD j 0) p) 5 2 [-(h.getD 1 0)]
def dOf (h : List Rat) : List Rat := [h.getD 1 0] ++ iasRows (fun j p => nextD h j p) 5 2 [h.getD 1 0]

/-- Legendre polynomials by the three-term recurrence: `(Pₙ(x), Pₙ₋₁(x))` -/
def legendre (x : Rat) : Nat → Rat × Rat
  | 0 => (1, 0)
  | n+1 => let (p, pm) := legendre x n
           (((2 * (n : Rat) + 1) * x * p - (n : Rat) * pm) / ((n : Rat) + 1), p)

/-- the Gauss–Radau polynomial with 8 nodes on `[0,1]`: `P₇(2h−1) + P₈(2h−1)` -/
def radau8 (h : Rat) : Rat := let x := 2 * h - 1; (legendre x 8).1 + (legendre x 7).1

@[reducible] def AllNear (xs ys : List Rat) (tol : Rat) : Prop :=
  xs.length = ys.length ∧ ∀ p ∈ xs.zip ys, Near p.1 p.2 tol

end RV.C01
