import RV.Scalar
import RV.Gen.C03Table
/-
  Model of the universal-variable Kepler solver of src/integrator_whfast.c

     invfactorial[] (table from RV/Gen/C03Table.lean)        integrator_whfast.c:74
     stumpff_cs  (6 functions, used by the tangent map)      :80-107
     stumpff_cs3 (4 functions)                               :108-131
     stiefel_Gs / stiefel_Gs3                                :133-154
     reb_whfast_kepler_solver                                :160-344
     reb_whfast_kepler_step (mass parameter per coordinates) :503-545

  written once over operation-only scalar classes, in the operation order of the C
  source.  At `Float` it is run by `drv_c03` against the compiled routine, bit for bit;
  at an arbitrary field the pieces `cs3Series`, `cs3Dup`, `cs6Series`, `cs6Dup`,
  `scaleGs3`, `fgUpdate`, `massParams`, `halve` are the subjects of RV/Props/C03.lean.

  Both `while` loops of the C code that have no static bound take fuel:
    * the argument halving `while(fabs(z)>0.1){z=z/4;n++}`  — exhausting the fuel is
      reported as `Hang.stumpff` (on IEEE doubles it happens exactly for z = ±inf: the
      compiled code then never returns, finding F14);
    * the bisection `do{…}while(|Xmax-Xmin| > |(Xmax+Xmin)*1e-15|)` — `Hang.bisect`.
  NaN-valued locals of the C code (`X_per_period = nan("")` in the hyperbolic case) are
  modelled as `Option K` with the IEEE comparison semantics (`x > NaN` is false).
-/
namespace RV.Kepler
open RV Scalar
open RV.Gen.C03

/-- the two things the solver needs beyond `ScalarT`: `copysign` and the constant `M_PI` -/
class KScalar (K : Type) extends ScalarT K where
  copysign : K → K → K
  pi : K

def floatCopysign (a b : Float) : Float :=
  Float.ofBits ((a.toBits &&& 0x7FFFFFFFFFFFFFFF) ||| (b.toBits &&& 0x8000000000000000))

instance : KScalar Float where
  copysign := floatCopysign
  pi := Float.ofBits 0x400921FB54442D18   -- M_PI = 3.14159265358979323846

/-! ## constants -/
section consts
variable {K : Type} [Scalar K]

/-- a decimal literal `p/q` of the C source (p, q exactly representable: the correctly
    rounded quotient is the value the compiler gives the literal) -/
def lit (p q : Nat) : K := (Scalar.ofNat p : K) / Scalar.ofNat q
def n2 : K := Scalar.ofNat 2
def n4 : K := Scalar.ofNat 4
def n5 : K := Scalar.ofNat 5
def n16 : K := Scalar.ofNat 16
def n20 : K := Scalar.ofNat 20
def half : K := lit 1 2        -- 0.5
def quarter : K := lit 1 4     -- 0.25
def eighth : K := lit 1 8      -- 0.125
def sixteenth : K := lit 1 16  -- 0.0625

/-- `invfactorial[i]`, entry as written in the source (`p./q.`) -/
def invfact (i : Fin 35) : K := (Scalar.ofNat invfactNum[i] : K) / Scalar.ofNat invfactDen[i]

end consts

/-! ## Stumpff series and duplication (pure arithmetic: `[Scalar K]`) -/
section series
variable {K : Type} [Scalar K]

structure Cs3 (K : Type) where
  c0 : K
  c1 : K
  c2 : K
  c3 : K
deriving Repr, Inhabited

/-- stumpff_cs3 lines 114-124: Horner evaluation, `nmax = 13`, np = 11,9,7,5,3 -/
def cs3Series (z : K) : Cs3 K :=
  let co := (invfact 13 : K)
  let ce := (invfact 12 : K)
  let co := invfact 11 - z * co
  let ce := invfact 10 - z * ce
  let co := invfact 9 - z * co
  let ce := invfact 8 - z * ce
  let co := invfact 7 - z * co
  let ce := invfact 6 - z * ce
  let co := invfact 5 - z * co
  let ce := invfact 4 - z * ce
  let co := invfact 3 - z * co
  let ce := invfact 2 - z * ce
  { c3 := co, c2 := ce, c1 := invfact 1 - z * co, c0 := invfact 0 - z * ce }

/-- one pass of the loop body lines 126-129 -/
def cs3DupStep (c : Cs3 K) : Cs3 K :=
  { c3 := (c.c2 + c.c0 * c.c3) * quarter
    c2 := c.c1 * c.c1 * half
    c1 := c.c0 * c.c1
    c0 := n2 * c.c0 * c.c0 - Scalar.one }

/-- `for (;n>0;n--)` lines 125-130 -/
def cs3Dup : Nat → Cs3 K → Cs3 K
  | 0, c => c
  | n+1, c => cs3Dup n (cs3DupStep c)

/-- state of stumpff_cs between the series and the final `cs[0]` line: z and cs[1..5] -/
structure Cs5 (K : Type) where
  z  : K
  c1 : K
  c2 : K
  c3 : K
  c4 : K
  c5 : K
deriving Repr, Inhabited

structure Cs6 (K : Type) where
  c0 : K
  c1 : K
  c2 : K
  c3 : K
  c4 : K
  c5 : K
deriving Repr, Inhabited

/-- stumpff_cs lines 86-97: `nmax = 15`, np = 13,11,9,7,5 -/
def cs6Series (z : K) : Cs5 K :=
  let co := (invfact 15 : K)
  let ce := (invfact 14 : K)
  let co := invfact 13 - z * co
  let ce := invfact 12 - z * ce
  let co := invfact 11 - z * co
  let ce := invfact 10 - z * ce
  let co := invfact 9 - z * co
  let ce := invfact 8 - z * ce
  let co := invfact 7 - z * co
  let ce := invfact 6 - z * ce
  let co := invfact 5 - z * co
  let ce := invfact 4 - z * ce
  let c3 := invfact 3 - z * co
  let c2 := invfact 2 - z * ce
  let c1 := invfact 1 - z * c3
  { z := z, c5 := co, c4 := ce, c3 := c3, c2 := c2, c1 := c1 }

/-- loop body lines 99-104 -/
def cs6DupStep (s : Cs5 K) : Cs5 K :=
  let z := s.z * n4
  let c5 := (s.c5 + s.c4 + s.c3 * s.c2) * sixteenth
  let c4 := (Scalar.one + s.c1) * s.c3 * eighth
  let c3 := lit 1 6 - z * c5
  let c2 := half - z * c4
  let c1 := Scalar.one - z * c3
  { z := z, c5 := c5, c4 := c4, c3 := c3, c2 := c2, c1 := c1 }

def cs6Dup : Nat → Cs5 K → Cs5 K
  | 0, s => s
  | n+1, s => cs6Dup n (cs6DupStep s)

/-- line 106: `cs[0] = invfactorial[0] - z*cs[2]` -/
def cs6Finish (s : Cs5 K) : Cs6 K :=
  { c0 := invfact 0 - s.z * s.c2, c1 := s.c1, c2 := s.c2, c3 := s.c3, c4 := s.c4, c5 := s.c5 }

/-- stiefel_Gs3 lines 148-153: `Gs[1]*=X; Gs[2]*=X2; Gs[3]*=X2*X` -/
def scaleGs3 (X : K) (c : Cs3 K) : Cs3 K :=
  let X2 := X * X
  { c0 := c.c0, c1 := c.c1 * X, c2 := c.c2 * X2, c3 := c.c3 * (X2 * X) }

/-- stiefel_Gs lines 134-143 -/
def scaleGs6 (X : K) (c : Cs6 K) : Cs6 K :=
  let X2 := X * X
  let p3 := X2 * X
  let p4 := p3 * X
  let p5 := p4 * X
  { c0 := c.c0, c1 := c.c1 * X, c2 := c.c2 * X2, c3 := c.c3 * p3, c4 := c.c4 * p4, c5 := c.c5 * p5 }

end series

/-! ## particle state and the f-g update (pure arithmetic) -/
section fg
variable {K : Type} [Scalar K]

structure P6 (K : Type) where
  x  : K
  y  : K
  z  : K
  vx : K
  vy : K
  vz : K
deriving Repr, Inhabited

/-- lines 297-300: "not the traditional f and g functions" (they are f-1, g, ḟ, ġ-1).
    `G1 G2 G3` are `Gs[1..3]`, `r0i = 1/r0`, `ri = 1/r`. -/
structure FG (K : Type) where
  f : K
  g : K
  fd : K
  gd : K

def fgCoeffs (M r0i ri dt G1 G2 G3 : K) : FG K :=
  { f  := (Scalar.neg M) * G2 * r0i
    g  := dt - M * G3
    fd := (Scalar.neg M) * G1 * r0i * ri
    gd := (Scalar.neg M) * G2 * ri }

/-- lines 302-308: the in-place update -/
def fgApply (c : FG K) (p : P6 K) : P6 K :=
  { x  := p.x + (c.f * p.x + c.g * p.vx)
    y  := p.y + (c.f * p.y + c.g * p.vy)
    z  := p.z + (c.f * p.z + c.g * p.vz)
    vx := p.vx + (c.fd * p.x + c.gd * p.vx)
    vy := p.vy + (c.fd * p.y + c.gd * p.vy)
    vz := p.vz + (c.fd * p.z + c.gd * p.vz) }

def fgUpdate (M r0i ri dt G1 G2 G3 : K) (p : P6 K) : P6 K :=
  fgApply (fgCoeffs M r0i ri dt G1 G2 G3) p

/-- lines 165-168 without the square root: `v2, beta, eta0, zeta0` from `r0`, `r0i` -/
structure Inv (K : Type) where
  v2 : K
  beta : K
  eta0 : K
  zeta0 : K

def invariants (M r0 r0i : K) (p : P6 K) : Inv K :=
  let v2 := p.vx * p.vx + p.vy * p.vy + p.vz * p.vz
  let beta := n2 * M * r0i - v2
  let eta0 := p.x * p.vx + p.y * p.vy + p.z * p.vz
  let zeta0 := M - beta * r0
  { v2 := v2, beta := beta, eta0 := eta0, zeta0 := zeta0 }

/-- lines 311-342, one variational particle `dp` riding on `p` (`p` = state before the
    update).  `c` = the coefficients of lines 297-300 (from the possibly NaN-guarded
    `Gs[1..3]`), `gs` = the recomputed `stiefel_Gs(beta, X)`, `ri` the guarded `ri`. -/
def tangentUpdate (M r0 r0i ri X beta eta0 zeta0 : K) (c : FG K) (gs : Cs6 K) (p dp : P6 K) : P6 K :=
  let nM := Scalar.neg M
  let dr0 := (dp.x * p.x + dp.y * p.y + dp.z * p.z) * r0i
  let dbeta := (Scalar.neg n2) * M * dr0 * r0i * r0i - n2 * (dp.vx * p.vx + dp.vy * p.vy + dp.vz * p.vz)
  let deta0 := dp.x * p.vx + dp.y * p.vy + dp.z * p.vz + p.x * dp.vx + p.y * dp.vy + p.z * dp.vz
  let dzeta0 := (Scalar.neg beta) * dr0 - r0 * dbeta
  let G3beta := half * (Scalar.ofNat 3 * gs.c5 - X * gs.c4)
  let G2beta := half * (n2 * gs.c4 - X * gs.c3)
  let G1beta := half * (gs.c3 - X * gs.c2)
  let tbeta := eta0 * G2beta + zeta0 * G3beta
  let dX := (Scalar.neg Scalar.one) * ri * (X * dr0 + gs.c2 * deta0 + gs.c3 * dzeta0 + tbeta * dbeta)
  let dG1 := gs.c0 * dX + G1beta * dbeta
  let dG2 := gs.c1 * dX + G2beta * dbeta
  let dG3 := gs.c2 * dX + G3beta * dbeta
  let dr := dr0 + gs.c1 * deta0 + gs.c2 * dzeta0 + eta0 * dG1 + zeta0 * dG2
  let df := M * gs.c2 * dr0 * r0i * r0i - M * dG2 * r0i
  let dg := nM * dG3
  let dfd := nM * dG1 * r0i * ri + M * gs.c1 * (dr0 * r0i + dr * ri) * r0i * ri
  let dgd := nM * dG2 * ri + M * gs.c2 * dr * ri * ri
  { x  := dp.x + (c.f * dp.x + c.g * dp.vx + df * p.x + dg * p.vx)
    y  := dp.y + (c.f * dp.y + c.g * dp.vy + df * p.y + dg * p.vy)
    z  := dp.z + (c.f * dp.z + c.g * dp.vz + df * p.z + dg * p.vz)
    vx := dp.vx + (c.fd * dp.x + c.gd * dp.vx + dfd * p.x + dgd * p.vx)
    vy := dp.vy + (c.fd * dp.y + c.gd * dp.vy + dfd * p.y + dgd * p.vy)
    vz := dp.vz + (c.fd * dp.z + c.gd * dp.vz + dfd * p.z + dgd * p.vz) }

end fg

/-! ## mass parameter of reb_whfast_kepler_step (lines 503-545) -/
section mass
variable {K : Type} [Scalar K]

inductive Coord | jacobi | dh | whds | bary
deriving Repr, DecidableEq, Inhabited

/-- Jacobi loop: `eta` runs over the particles `i = 1 …`; `ms` are `p_j[i].m`,
    `nact` = how many of the remaining ones still satisfy `i < N_active`. -/
def jacobiEtas : K → Nat → List K → List K
  | _, _, [] => []
  | eta, 0, _ :: r => eta :: jacobiEtas eta 0 r
  | eta, a+1, m :: r => (eta + m) :: jacobiEtas (eta + m) a r

/-- the value `eta` passed (times G) to the solver for particles 1 … N_real-1.
    `m0 = r->particles[0].m`, `pj0m = p_j[0].m`, `ms = p_j[1..].m`,
    `nact = N_active-1` (number of active particles among 1 …). -/
def etas (c : Coord) (m0 pj0m : K) (nact : Nat) (ms : List K) : List K :=
  match c with
  | .jacobi => jacobiEtas m0 nact ms
  | .dh => ms.map (fun _ => m0)
  | .whds => (List.range ms.length).zip ms |>.map (fun (i, m) => if i < nact then m0 + m else m0)
  | .bary => ms.map (fun _ => pj0m)

/-- `eta*G`, the argument `M` of reb_whfast_kepler_solver -/
def massParams (c : Coord) (G m0 pj0m : K) (nact : Nat) (ms : List K) : List K :=
  (etas c m0 pj0m nact ms).map (fun e => e * G)

/-- reb_integrator_mercurius_kepler_step (integrator_mercurius.c:292-298) and
    reb_integrator_trace_whfast_step (integrator_trace.c:296-302): `r->G*particles[0].m`
    for every particle 1 … N-1 (democratic heliocentric, in place on `r->particles`) -/
def hybridMassParams (G m0 : K) (ms : List K) : List K := ms.map (fun _ => G * m0)

/-! democratic-heliocentric jump step of the hybrid integrators, one Cartesian component
    (integrator_mercurius.c:265-284, integrator_trace.c:260-288).  Which particles enter the momentum
    sum is what keeps a lone type-0 test particle - massive or not - on its Kepler orbit with
    `M = G m0`: `N' = testparticle_type==0 ? N_active : N`. -/

/-- `px += v*m` over the given (m, v) pairs -/
def jumpSum : K → List (K × K) → K
  | px, [] => px
  | px, (m, v) :: r => jumpSum (px + v * m) r

/-- the particles 1 … N'-1 of the sum: `mv` = (m, v) of particles 1 … N-1, `nact = N_active-1`
    (`= N-1` when `N_active == -1`) -/
def jumpSources (tpType1 : Bool) (nact : Nat) (mv : List (K × K)) : List (K × K) :=
  if tpType1 then mv else mv.take nact

/-- MERCURIUS: `px /= m0; x_i += dt*px` for all i ≥ 1 -/
def mercuriusJump (tpType1 : Bool) (nact : Nat) (dt m0 : K) (mv : List (K × K)) (xs : List K) : List K :=
  let px := jumpSum Scalar.zero (jumpSources tpType1 nact mv) / m0
  xs.map (fun x => x + dt * px)

/-- TRACE (away from pericentre approaches): `px *= dt/m0; x_i += px` -/
def traceJump (tpType1 : Bool) (nact : Nat) (dt m0 : K) (mv : List (K × K)) (xs : List K) : List K :=
  let px := jumpSum Scalar.zero (jumpSources tpType1 nact mv) * (dt / m0)
  xs.map (fun x => x + px)

/-! jump step and centre-of-mass step of WHFast itself (integrator_whfast.c:441-498 `reb_whfast_jump_step`,
    :547-552 `reb_whfast_com_step`), one Cartesian component.  Active particles 1 … N_active-1 come as
    (m, v, x) with `m = r->particles[i].m`, `v, x` from `p_jh`; test particles N_active … N_real-1 as `x`.
    (`N_active = N_real` when `N_active == -1` or `testparticle_type == 1`: the caller passes everything as active.)
    Jacobi and barycentric coordinates: nothing to be done. -/

/-- democratic heliocentric: `px += m * p_h[i].vx` over the active particles -/
def whJumpSumDH : K → List (K × K × K) → K
  | px, [] => px
  | px, (m, v, _) :: r => whJumpSumDH (px + m * v) r

/-- WHDS: `px += m * p_h[i].vx / (m0+m)` -/
def whJumpSumWHDS (m0 : K) : K → List (K × K × K) → K
  | px, [] => px
  | px, (m, v, _) :: r => whJumpSumWHDS m0 (px + m * v / (m0 + m)) r

/-- DH: every particle i ≥ 1 (active and test): `p_h[i].x += _dt * (px/m0)`; returns (active x, test x) -/
def whfastJumpDH (dt m0 : K) (act : List (K × K × K)) (tst : List K) : List K × List K :=
  let px := whJumpSumDH Scalar.zero act
  (act.map (fun a => a.2.2 + dt * (px / m0)), tst.map (fun x => x + dt * (px / m0)))

/-- WHDS: active `x += _dt * (px - (m * vx / (m0+m)))`, test `x += _dt * px` -/
def whfastJumpWHDS (dt m0 : K) (act : List (K × K × K)) (tst : List K) : List K × List K :=
  let px := whJumpSumWHDS m0 Scalar.zero act
  (act.map (fun a => a.2.2 + dt * (px - a.1 * a.2.1 / (m0 + a.1))), tst.map (fun x => x + dt * px))

/-- `p_j[0].x += _dt*p_j[0].vx` -/
def whfastComStep (dt x0 v0 : K) : K := x0 + dt * v0

end mass

/-! ## comparisons and the two unbounded loops (`[ScalarO K]`) -/
section order
variable {K : Type} [ScalarO K]

/-- IEEE `==` from `<=` (false on NaN, true on ±0) -/
def feq (a b : K) : Bool := ScalarO.le a b && ScalarO.le b a

/-- `fastabs`, line 76: `(x > 0.) ? x : -x` -/
def fastabs (x : K) : K := if ScalarO.lt Scalar.zero x then x else Scalar.neg x

/-- `while(abs(z)>thr && fin(z)){ z = z/div; n++; }` with fuel; `none` = fuel exhausted.
    `fin` is `fun _ => true` for the loop as it stands in the pinned source and `isfinite`
    when the source carries the guard proposed for finding F14 (RV.Gen.C03.haltGuardCs3). -/
def halve (abs : K → K) (thr div : K) (fin : K → Bool) : Nat → K → Nat → Option (K × Nat)
  | 0, _, _ => none
  | fuel+1, z, n =>
    if ScalarO.lt thr (abs z) && fin z then halve abs thr div fin fuel (z / div) (n+1) else some (z, n)

/-- one pass of the bisection body, lines 278-283, given the value `s` of the Kepler function at `X`:
    `up` = the branch condition (`s>=0.` in the pinned source).  Returns (X_min, X_max, next X). -/
def bisectUpdate (up : Bool) (X Xmin Xmax : K) : K × K × K :=
  let Xmax := if up then X else Xmax
  let Xmin := if up then Xmin else X
  (Xmin, Xmax, (Xmax + Xmin) / Scalar.ofNat 2)

/-- the `while` condition of line 284: `fastabs(X_max-X_min) > fastabs((X_max+X_min)*1e-15)` -/
def bisectContinue (Xmin Xmax : K) : Bool :=
  ScalarO.lt (fastabs ((Xmax + Xmin) * (Scalar.ofNat 1 / Scalar.ofNat 1000000000000000))) (fastabs (Xmax - Xmin))

/-- hyperbolic bracket, lines 266-272, given `q`, `a = fastabs(vq*_dt)`:
    `X_min = dt/(a+r0); X_max = dt/q; if (dt<0) swap` -/
def hypBracket (q a r0 dt : K) : K × K :=
  let Xmin := dt / (a + r0)
  let Xmax := dt / q
  if ScalarO.lt dt Scalar.zero then (Xmax, Xmin) else (Xmin, Xmax)

/-- elliptic bracket, lines 255-256, given `k = floor(_dt*invperiod)` -/
def ellBracket (xpp k : K) : K × K :=
  let Xmin := xpp * k
  (Xmin, Xmin + xpp)

end order

/-! ## the solver (`[KScalar K]`) -/
section solver
variable {K : Type} [KScalar K]

inductive Hang | stumpff | bisect
deriving Repr, DecidableEq, Inhabited

/-- more than enough for every finite double (|z| < 2^1024 needs ≤ 514 halvings) -/
def fuelHalve : Nat := 1200
/-- bisection of a finite bracket of doubles ends within ~1100 halvings (2100 down to 0) -/
def fuelBisect : Nat := 4000

def thr3 : K := lit thrCs3.1 thrCs3.2
def thr6 : K := lit thrCs6.1 thrCs6.2
def div3 : K := lit divCs3.1 divCs3.2
def div6 : K := lit divCs6.1 divCs6.2

/-- stumpff_cs3; also returns the number of halvings -/
def stumpffCs3 (z : K) : Except Hang (Cs3 K × Nat) :=
  match halve ScalarT.fabs (thr3 : K) div3 (if haltGuardCs3 then ScalarT.isFinite else fun _ => true) fuelHalve z 0 with
  | none => .error .stumpff
  | some (z', n) => .ok (cs3Dup n (cs3Series z'), n)

/-- stumpff_cs (uses `fastabs`) -/
def stumpffCs6 (z : K) : Except Hang (Cs6 K) :=
  match halve fastabs (thr6 : K) div6 (if haltGuardCs6 then ScalarT.isFinite else fun _ => true) fuelHalve z 0 with
  | none => .error .stumpff
  | some (z', n) => .ok (cs6Finish (cs6Dup n (cs6Series z')))

def stiefelGs3 (beta X : K) : Except Hang (Cs3 K × Nat) := do
  let X2 := X * X
  let (c, n) ← stumpffCs3 (beta * X2)
  pure (scaleGs3 X c, n)

def stiefelGs6 (beta X : K) : Except Hang (Cs6 K) := do
  let X2 := X * X
  let c ← stumpffCs6 (beta * X2)
  pure (scaleGs6 X c)

/-- what the driver reports about the path taken -/
structure Trace where
  elliptic : Bool := false
  warn : Bool := false        -- line 179: |dt|·invperiod > 1
  quartic : Bool := false     -- line 207 true: quartic (Laguerre-type) solver, else Newton
  converged : Bool := false
  iters : Nat := 0            -- iterations of the chosen solver
  bisect : Bool := false      -- line 251 fallback taken
  bisectIters : Nat := 0
  nanGuard : Bool := false    -- line 288
  maxHalvings : Nat := 0
deriving Repr, Inhabited

structure Ctx (K : Type) where
  r0 : K
  eta0 : K
  zeta0 : K
  beta : K
  dt : K

/-- quartic loop lines 212-228.  `rem` iterations left, `prev` = prevX[1..n_lag-1].
    Returns (X, Gs of the last evaluation, converged, iterations done, max halvings) -/
def quartLoop (c : Ctx K) : Nat → K → List K → Cs3 K → Nat → Nat → Except Hang (K × Cs3 K × Bool × Nat × Nat)
  | 0, X, _, gs, it, mh => pure (X, gs, false, it, mh)
  | rem+1, X, prev, _, it, mh => do
    let (gs, nh) ← stiefelGs3 c.beta X
    let mh := max mh nh
    let f := c.r0 * X + c.eta0 * gs.c2 + c.zeta0 * gs.c3 - c.dt
    let fp := c.r0 + c.eta0 * gs.c1 + c.zeta0 * gs.c2
    let fpp := c.eta0 * gs.c0 + c.zeta0 * gs.c1
    let denom := fp + ScalarT.sqrt (ScalarT.fabs (n16 * fp * fp - n20 * f * fpp))
    let X' := (X * denom - n5 * f) / denom
    if prev.any (fun q => feq X' q) then pure (X', gs, true, it+1, mh)
    else quartLoop c rem X' (X' :: prev) gs (it+1) mh

/-- Newton loop lines 234-247.  Returns (X, Gs, ri, converged, iterations, max halvings) -/
def newtLoop (c : Ctx K) : Nat → K → K → Cs3 K → K → Nat → Nat → Except Hang (K × Cs3 K × K × Bool × Nat × Nat)
  | 0, X, _, gs, ri, it, mh => pure (X, gs, ri, false, it, mh)
  | rem+1, X, oldX, _, _, it, mh => do
    let oldX2 := oldX
    let oldX := X
    let (gs, nh) ← stiefelGs3 c.beta X
    let mh := max mh nh
    let e := c.eta0 * gs.c1 + c.zeta0 * gs.c2
    let ri := Scalar.one / (c.r0 + e)
    let X' := ri * (X * e - c.eta0 * gs.c2 - c.zeta0 * gs.c3 + c.dt)
    if feq X' oldX || feq X' oldX2 then pure (X', gs, ri, true, it+1, mh)
    else newtLoop c rem X' oldX gs ri (it+1) mh

/-- bisection do-while lines 275-284 with fuel.  Returns (X, Gs, iterations, max halvings) -/
def bisectLoop (c : Ctx K) : Nat → K → K → K → Nat → Nat → Except Hang (K × Cs3 K × Nat × Nat)
  | 0, _, _, _, _, _ => .error .bisect
  | fuel+1, X, Xmin, Xmax, it, mh => do
    let (gs, nh) ← stiefelGs3 c.beta X
    let mh := max mh nh
    let s := c.r0 * X + c.eta0 * gs.c2 + c.zeta0 * gs.c3 - c.dt
    -- `if (s>=0.)`, or `if (isfinite(s) ? (s>=0.) : (_dt>0.))` when the source has the F14 fix
    let up := if bisectOverflowAware then
                (if ScalarT.isFinite s then ScalarO.le Scalar.zero s else ScalarO.lt Scalar.zero c.dt)
              else ScalarO.le Scalar.zero s
    let (Xmin, Xmax, X') := bisectUpdate up X Xmin Xmax
    if bisectContinue Xmin Xmax
    then bisectLoop c fuel X' Xmin Xmax (it+1) mh
    else pure (X', gs, it+1, mh)

structure Sol (K : Type) where
  p : P6 K
  X : K
  beta : K
  ri : K
  gs : Cs3 K
  tr : Trace

/-- reb_whfast_kepler_solver lines 160-308 for the particle `p1 = p_j[i]` -/
def solve (M dt : K) (p1 : P6 K) : Except Hang (Sol K) := do
  let r0 := ScalarT.sqrt (p1.x * p1.x + p1.y * p1.y + p1.z * p1.z)
  let r0i := Scalar.one / r0
  let iv := invariants M r0 r0i p1
  let v2 := iv.v2
  let beta := iv.beta
  let eta0 := iv.eta0
  let zeta0 := iv.zeta0
  let c : Ctx K := { r0 := r0, eta0 := eta0, zeta0 := zeta0, beta := beta, dt := dt }
  let twopi : K := n2 * KScalar.pi
  let ell := ScalarO.lt Scalar.zero beta
  -- lines 174-194
  let sqrtBeta := ScalarT.sqrt beta
  let invperiod : K := if ell then sqrtBeta * beta / (twopi * M) else Scalar.zero
  let xPerPeriod : Option K := if ell then some (twopi / sqrtBeta) else none   -- none = nan("")
  let warn := ell && ScalarO.lt Scalar.one (ScalarT.fabs dt * invperiod)
  let dtr0i := dt * r0i
  let X0 : K := if ell then dtr0i * (Scalar.one - dtr0i * eta0 * half * r0i) else Scalar.zero
  let oldX := X0
  -- lines 200-203: one Newton step
  let (gs, nh0) ← stiefelGs3 beta X0
  let e := eta0 * gs.c1 + zeta0 * gs.c2
  let ri := Scalar.one / (r0 + e)
  let X1 := ri * (X0 * e - eta0 * gs.c2 - zeta0 * gs.c3 + dt)
  -- line 207
  let useQuart := match xPerPeriod with
    | none => false
    | some xpp => ScalarO.lt (lit 1 100 * xpp) (fastabs (X1 - oldX))
  let (X, gs, ri, converged, iters, mh) ←
    if useQuart then do
      let Xq := beta * dt / M
      let (X, gs, conv, it, mh) ← quartLoop c (nmaxQuart - 1) Xq [] gs 0 nh0
      let e := eta0 * gs.c1 + zeta0 * gs.c2
      let ri := Scalar.one / (r0 + e)
      pure (X, gs, ri, conv, it, mh)
    else
      newtLoop c (nmaxNewt - 1) X1 oldX gs ri 0 nh0
  -- lines 251-287
  let (X, gs, ri, bis, bit, mh) ←
    if converged then pure (X, gs, ri, false, 0, mh)
    else do
      let (Xmin, Xmax) : K × K :=
        if ell then
          let xpp := match xPerPeriod with | some v => v | none => Scalar.zero  -- `ell` ⇒ some
          ellBracket xpp (ScalarT.floor (dt * invperiod))
        else
          let h2 := r0 * r0 * v2 - eta0 * eta0
          let q := h2 / M / (Scalar.one + ScalarT.sqrt (Scalar.one - h2 * beta / (M * M)))
          let vq := KScalar.copysign (ScalarT.sqrt h2 / q) dt
          hypBracket q (fastabs (vq * dt)) r0 dt
      let Xb := (Xmax + Xmin) / n2
      let (X, gs, it, mh) ← bisectLoop c fuelBisect Xb Xmin Xmax 0 mh
      let e := eta0 * gs.c1 + zeta0 * gs.c2
      let ri := Scalar.one / (r0 + e)
      pure (X, gs, ri, true, it, mh)
  -- lines 288-294
  let nan := ScalarT.isNaN ri
  let ri := if nan then Scalar.zero else ri
  let gs : Cs3 K := if nan then { gs with c1 := Scalar.zero, c2 := Scalar.zero, c3 := Scalar.zero } else gs
  let p' := fgUpdate M r0i ri dt gs.c1 gs.c2 gs.c3 p1
  pure { p := p', X := X, beta := beta, ri := ri, gs := gs,
         tr := { elliptic := ell, warn := warn, quartic := useQuart, converged := converged,
                 iters := iters, bisect := bis, bisectIters := bit, nanGuard := nan,
                 maxHalvings := mh } }

/-- solver with one variational particle attached (lines 311-342): returns the updated
    real and variational particle.  The C code uses `f g fd gd` and `ri` from the real
    particle (after the NaN guard) but recomputes all six G functions from `X`. -/
def solveVar (M dt : K) (p1 dp1 : P6 K) : Except Hang (Sol K × P6 K) := do
  let s ← solve M dt p1
  let r0 := ScalarT.sqrt (p1.x * p1.x + p1.y * p1.y + p1.z * p1.z)
  let r0i := Scalar.one / r0
  let iv := invariants M r0 r0i p1
  let g6 ← stiefelGs6 s.beta s.X
  let c := fgCoeffs M r0i s.ri dt s.gs.c1 s.gs.c2 s.gs.c3
  pure (s, tangentUpdate M r0 r0i s.ri s.X s.beta iv.eta0 iv.zeta0 c g6 p1 dp1)

end solver
end RV.Kepler
