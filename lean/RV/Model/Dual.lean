import RV.Scalar
/-
  Dual numbers  a + ε b  with ε² = 0 over an operation-only scalar type.

  `Dual K` is again a `Scalar`, so every arithmetic model written over `[Scalar K]`
  can be run on duals unchanged: the ε-coefficient of the result is the derivative
  along the direction stored in the ε-coefficients of the inputs (forward-mode
  automatic differentiation).  `Dual (Dual K)` gives second derivatives: with
      x = (x₀ + ε₁ a) + ε₂ (b + ε₁ c)
  the coefficient `.eps.eps` of the result is the mixed second derivative along
  a, b plus the first derivative along c  (exactly what a second-order variational
  particle is).

  No Mathlib.  Instantiated at
    * `Float`          : AD oracle in the driver drv_c16 (shares no algebra with REBOUND)
    * a field `K`      : theorems "hand-derived variational code = ε-part" (RV/Props/C16)

  Functions that are not rational (the square root in the distance) are lifted by
  their derivative rule, parameterised by the base function:
      sqrtLift sq (s + ε δ) = ρ + ε δ/(2ρ),           ρ = sq s
      rinv3Lift ri3 (s + ε δ) = ρ₃ − ε (3/2)(ρ₃/s) δ,   ρ₃ = ri3 s   (s ↦ s^(-3/2))
  RV/Props/C16 proves that these are the *unique* dual numbers with real part ρ (ρ₃)
  that satisfy  y·y = s+εδ  (resp.  y·y·(s+εδ)³ = 1), which is all that is needed
  to call them "the" lift.
-/
namespace RV

structure Dual (K : Type) where
  re  : K
  eps : K
deriving Repr, BEq, Inhabited

namespace Dual
variable {K : Type} [Scalar K]

/-- constant (derivative zero) -/
def const (a : K) : Dual K := ⟨a, Scalar.zero⟩

instance instScalar : Scalar (Dual K) where
  zero := ⟨Scalar.zero, Scalar.zero⟩
  one  := ⟨Scalar.one, Scalar.zero⟩
  add a b := ⟨a.re + b.re, a.eps + b.eps⟩
  sub a b := ⟨a.re - b.re, a.eps - b.eps⟩
  mul a b := ⟨a.re * b.re, a.re * b.eps + a.eps * b.re⟩
  div a b := ⟨a.re / b.re, (a.eps * b.re - a.re * b.eps) / (b.re * b.re)⟩
  neg a := ⟨-a.re, -a.eps⟩
  ofNat n := ⟨Scalar.ofNat n, Scalar.zero⟩

/-- lift of a square-root function `sq` -/
def sqrtLift (sq : K → K) (a : Dual K) : Dual K :=
  let r := sq a.re
  ⟨r, a.eps / (Scalar.ofNat 2 * r)⟩

/-- lift of an inverse-cube-root-of-square function `ri3 : s ↦ s^(-3/2)` -/
def rinv3Lift (ri3 : K → K) (a : Dual K) : Dual K :=
  let r3 := ri3 a.re
  ⟨r3, -(Scalar.ofNat 3 * (r3 / a.re) * a.eps / Scalar.ofNat 2)⟩

/-! unfolding lemmas (all `rfl`) used by the proofs -/
@[simp] theorem zero_re : (Scalar.zero : Dual K).re = Scalar.zero := rfl
@[simp] theorem zero_eps : (Scalar.zero : Dual K).eps = Scalar.zero := rfl
@[simp] theorem one_re : (Scalar.one : Dual K).re = Scalar.one := rfl
@[simp] theorem one_eps : (Scalar.one : Dual K).eps = Scalar.zero := rfl
@[simp] theorem ofNat_re (n : Nat) : (Scalar.ofNat n : Dual K).re = Scalar.ofNat n := rfl
@[simp] theorem ofNat_eps (n : Nat) : (Scalar.ofNat n : Dual K).eps = Scalar.zero := rfl
@[simp] theorem add_re (a b : Dual K) : (a + b).re = a.re + b.re := rfl
@[simp] theorem add_eps (a b : Dual K) : (a + b).eps = a.eps + b.eps := rfl
@[simp] theorem sub_re (a b : Dual K) : (a - b).re = a.re - b.re := rfl
@[simp] theorem sub_eps (a b : Dual K) : (a - b).eps = a.eps - b.eps := rfl
@[simp] theorem mul_re (a b : Dual K) : (a * b).re = a.re * b.re := rfl
@[simp] theorem mul_eps (a b : Dual K) : (a * b).eps = a.re * b.eps + a.eps * b.re := rfl
@[simp] theorem div_re (a b : Dual K) : (a / b).re = a.re / b.re := rfl
@[simp] theorem div_eps (a b : Dual K) :
    (a / b).eps = (a.eps * b.re - a.re * b.eps) / (b.re * b.re) := rfl
@[simp] theorem neg_re (a : Dual K) : (-a).re = -a.re := rfl
@[simp] theorem neg_eps (a : Dual K) : (-a).eps = -a.eps := rfl
@[simp] theorem sqrtLift_re (sq : K → K) (a : Dual K) : (sqrtLift sq a).re = sq a.re := rfl
@[simp] theorem sqrtLift_eps (sq : K → K) (a : Dual K) :
    (sqrtLift sq a).eps = a.eps / (Scalar.ofNat 2 * sq a.re) := rfl
@[simp] theorem const_re (a : K) : (const a).re = a := rfl
@[simp] theorem const_eps (a : K) : (const a).eps = Scalar.zero := rfl

end Dual

/-- second-order duals: `x.re.re` value, `x.re.eps` ∂₁, `x.eps.re` ∂₂, `x.eps.eps` ∂₁∂₂ -/
abbrev Dual2 (K : Type) := Dual (Dual K)

namespace Dual2
variable {K : Type} [Scalar K]
/-- x₀ + ε₁ a + ε₂ b + ε₁ε₂ c -/
def mk4 (x0 a b c : K) : Dual2 K := ⟨⟨x0, a⟩, ⟨b, c⟩⟩
/-- square root lifted twice -/
def sqrtLift2 (sq : K → K) : Dual2 K → Dual2 K := Dual.sqrtLift (Dual.sqrtLift sq)
end Dual2

end RV
