import RV.Model.Kepler
/-
  Model of the Kepler step of WHFast512, src/integrator_whfast512.c:167-336
  (`mm_stiefel_Gs13_avx512`, `mm_stiefel_Gs03_avx512`, `reb_whfast512_kepler_step`), one SIMD lane.

  The C code uses fused multiply-adds; here `fmadd(a,b,c) = a*b + c`, `fnmadd(a,b,c) = c - a*b`,
  `fmsub(a,b,c) = a*b - c` are written with two operations, in the order of the source.  At `Float` the
  model therefore differs from the compiled code by the rounding of the fused operations (the tie in
  rv/c03.py compares within the conditioned rounding unit, inside the convergence domain of the fixed
  iteration count); over a field the two are the same function.

  Differences to the scalar solver (RV/Model/Kepler.lean) that matter for the property: NO argument
  halving in the Stumpff series ("assuming n = 0"), series orders 19 (Newton) and 11 (Halley), a FIXED
  schedule Halley, Halley, Newton, Newton from the second-order guess, no convergence test, no
  bisection fallback, no NaN guard, and no `fabs` under the square root of the Halley step.
-/
namespace RV.Kepler
open RV Scalar
open RV.Gen.C03

section pure
variable {K : Type} [Scalar K]

/-- Horner part shared by both Stiefel routines: np = nmax-2, nmax-4, …, 3 (pairs (odd, even)) -/
def horner512 (z : K) : List (Fin 35 × Fin 35) → K × K → K × K
  | [], acc => acc
  | (o, e) :: r, (g3, g2) => horner512 z r (invfact o - z * g3, invfact e - z * g2)

/-- `mm_stiefel_Gs13_avx512` (nmax = 19): returns (Gs1, Gs2, Gs3) -/
def gs13_512 (beta X : K) : K × K × K :=
  let X2 := X * X
  let z := X2 * beta
  let (g3, g2) := horner512 z [(17, 16), (15, 14), (13, 12), (11, 10), (9, 8), (7, 6), (5, 4), (3, 2)] (invfact 19, invfact 18)
  let g3 := g3 * X
  let g1 := X - z * g3
  let g3 := g3 * X2
  let g2 := g2 * X2
  (g1, g2, g3)

/-- `mm_stiefel_Gs03_avx512` (nmax = 11): returns (Gs0, Gs1, Gs2, Gs3) -/
def gs03_512 (beta X : K) : K × K × K × K :=
  let X2 := X * X
  let z := X2 * beta
  let (g3, g2) := horner512 z [(9, 8), (7, 6), (5, 4), (3, 2)] (invfact 11, invfact 10)
  let g0 := Scalar.one - z * g2
  let g3 := g3 * X
  let g1 := X - z * g3
  let g3 := g3 * X2
  let g2 := g2 * X2
  (g0, g1, g2, g3)

/-- NEWTON_STEP: returns (X', ri) -/
def newton512 (r0 eta0 zeta0 beta dt X : K) : K × K :=
  let (g1, g2, g3) := gs13_512 beta X
  let e := eta0 * g1
  let e := zeta0 * g2 + e
  let ri := Scalar.one / (r0 + e)
  let X' := X * e
  let X' := X' - eta0 * g2
  let X' := X' - zeta0 * g3
  let X' := dt + X'
  (ri * X', ri)

section sq
variable (sqrt : K → K)
/-- HALLEY_STEP (no `fabs` under the root) -/
def halley512 (r0 eta0 zeta0 beta dt X : K) : K :=
  let (g0, g1, g2, g3) := gs03_512 beta X
  let f := r0 * X - dt
  let f := eta0 * g2 + f
  let f := zeta0 * g3 + f
  let fp := eta0 * g1 + r0
  let fp := zeta0 * g2 + fp
  let fpp := eta0 * g0
  let fpp := zeta0 * g1 + fpp
  let denom := fp * fp
  let denom := denom * n16
  let denom := denom - (f * fpp) * n20
  let denom := sqrt denom
  let denom := fp + denom
  let Xn := X * denom - f * n5
  Xn / denom
end sq

/-- the f-g update at the end of `reb_whfast512_kepler_step`, given `Gs1..Gs3` and `ri` -/
def fg512 (M r0i ri dt g1 g2 g3 : K) (p : P6 K) : P6 K :=
  let nf := M * g2
  let nf := nf * r0i
  let g := dt - M * g3
  let nfd := M * g1
  let nfd := nfd * r0i
  let nfd := nfd * ri
  let ngd := M * g2
  let ngd := ngd * ri
  let nx := p.x - nf * p.x
  let nx := g * p.vx + nx
  let ny := p.y - nf * p.y
  let ny := g * p.vy + ny
  let nz := p.z - nf * p.z
  let nz := g * p.vz + nz
  let vx := p.vx - ngd * p.vx
  let vx := vx - nfd * p.x
  let vy := p.vy - ngd * p.vy
  let vy := vy - nfd * p.y
  let vz := p.vz - ngd * p.vz
  let vz := vz - nfd * p.z
  { x := nx, y := ny, z := nz, vx := vx, vy := vy, vz := vz }

end pure

section full
variable {K : Type} [ScalarT K]

/-- `reb_whfast512_kepler_step` for one lane -/
def solve512 (M dt : K) (p : P6 K) : P6 K :=
  let r2 := p.x * p.x
  let r2 := p.y * p.y + r2
  let r2 := p.z * p.z + r2
  let r0 := ScalarT.sqrt r2
  let r0i := Scalar.one / r0
  let v2 := p.vx * p.vx
  let v2 := p.vy * p.vy + v2
  let v2 := p.vz * p.vz + v2
  let beta := n2 * M
  let beta := beta * r0i - v2
  let eta0 := p.x * p.vx
  let eta0 := p.y * p.vy + eta0
  let eta0 := p.z * p.vz + eta0
  let zeta0 := M - beta * r0
  -- initial guess (second order)
  let dtr0i := dt * r0i
  let X := dtr0i * eta0
  let X := X * half
  let X := Scalar.one - X * r0i
  let X := dtr0i * X
  -- fixed schedule
  let X := halley512 ScalarT.sqrt r0 eta0 zeta0 beta dt X
  let X := halley512 ScalarT.sqrt r0 eta0 zeta0 beta dt X
  let X := (newton512 r0 eta0 zeta0 beta dt X).1
  -- final evaluation
  let (g1, g2, g3) := gs13_512 beta X
  let e := eta0 * g1
  let e := zeta0 * g2 + e
  let ri := Scalar.one / (r0 + e)
  fg512 M r0i ri dt g1 g2 g3 p

end full
end RV.Kepler
