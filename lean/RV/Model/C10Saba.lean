import RV.Model.Sched
/-
  Model of the operator sequence of one synchronized SABA step without correctors,
  src/integrator_saba.c: part1 (l.242-251: first half drift `c[0]`), the force evaluation of
  `reb_simulation_step`, part2 (l.301: kick `d[0]`; l.303-322: the loop over the remaining stages with its
  two mirror-index computations; l.333-336: `safe_mode` synchronize = last drift `c[0]`,
  `reb_integrator_saba_synchronize` l.273-276).

  The coefficient tables `reb_saba_c[type]`, `reb_saba_d[type]` store only the first half of the palindrome;
  the loop reads them through
      drift  j:  i = (j > stages/2)     ? stages-j   : j
      kick   j:  i = (j > (stages-1)/2) ? stages-j-1 : j
  (C `int` arithmetic).  Operators are `RV.C01.Op` (builder b-c01's alphabet, read-only): kind 0 Kepler drift
  together with the centre-of-mass step (`b = 1`), kind 2 force evaluation, kind 1 interaction kick.
  Reading outside a table is an error (`none`).
-/
namespace RV.C10Saba
open RV.C01

def driftIdx (stages j : Nat) : Nat := if j > stages / 2 then stages - j else j
def kickIdx (stages j : Nat) : Nat := if j > (stages - 1) / 2 then stages - j - 1 else j

/-- `for(int j=1;j<stages;j++){ kepler(c[i]); com(c[i]); to_inertial_pos; force; interaction(d[i']); }`
    started at `j` with `n` iterations left -/
def loop (stages : Nat) (c d : List Rat) : Nat → Nat → Option (List Op)
  | _, 0 => some []
  | j, n + 1 =>
    match c[driftIdx stages j]?, d[kickIdx stages j]?, loop stages c d (j + 1) n with
    | some ci, some di, some rest => some (⟨0, ci, 1⟩ :: ⟨2, 0, 0⟩ :: ⟨1, di, 0⟩ :: rest)
    | _, _, _ => none

/-- one synchronized step (`safe_mode = 1`, `is_synchronized = 1` on entry) of an uncorrected SABA type -/
def step (stages : Nat) (c d : List Rat) : Option (List Op) :=
  match c[0]?, d[0]?, loop stages c d 1 (stages - 1) with
  | some c0, some d0, some mid =>
    some (⟨0, c0, 1⟩ :: ⟨2, 0, 0⟩ :: ⟨1, d0, 0⟩ :: (mid ++ [⟨0, c0, 1⟩]))
  | _, _, _ => none

end RV.C10Saba
