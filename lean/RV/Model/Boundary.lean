import RV.Scalar
/-
  Model of src/boundary.c `reb_boundary_check` (C15).

  * periodic: per particle, per coordinate, the two `while` loops
        while (x >  L/2.) x -= L;
        while (x < -L/2.) x += L;
    (both comparisons strict: a particle exactly on a face is left alone);
  * shear: the radial loops additionally shift `y` by a time dependent offset and `vy` by
    `3./2.*OMEGA*boxsize.x`; the offsets are computed once per call with `fmod` — the model
    takes `fmod` as a parameter (`Float`: exact emulation `fmodFloat` below; theorems: any
    function with `fmod a b = a - q*b`, `q` an integer);
  * open: the removal loop incl. the `i--` re-check of the element swapped into the hole
    (no tree), and the mark-only variant (tree in use: `y = NaN`, removed by the next
    tree update).

  `while` loops take fuel and return `none` when it runs out (the C loop would still be
  running: e.g. `x = 1e300`, where `x - L == x`).
-/
namespace RV.Boundary
open RV

section generic
variable {K : Type} [ScalarO K]

/-- `L/2.` -/
def half (L : K) : K := L / Scalar.ofNat 2
/-- `-L/2.`  (C parses this as `(-L)/2.`) -/
def nhalf (L : K) : K := (Scalar.neg L) / Scalar.ofNat 2

/-- `while (x > L/2.) x -= L;` -/
def wrapHi (L : K) : Nat → K → Option K
  | 0, x => if ScalarO.lt (half L) x then none else some x
  | f+1, x => if ScalarO.lt (half L) x then wrapHi L f (x - L) else some x

/-- `while (x < -L/2.) x += L;` -/
def wrapLo (L : K) : Nat → K → Option K
  | 0, x => if ScalarO.lt x (nhalf L) then none else some x
  | f+1, x => if ScalarO.lt x (nhalf L) then wrapLo L f (x + L) else some x

/-- both loops of one coordinate, in the order of the source -/
def wrap1 (L : K) (fuel : Nat) (x : K) : Option K :=
  (wrapHi L fuel x).bind (wrapLo L fuel)

/-- `for` over the particles with a body that may not return (fuel) -/
def mapOpt {α β : Type} (f : α → Option β) : List α → Option (List β)
  | [] => some []
  | a :: l => match f a with
    | none => none
    | some b => (mapOpt f l).map (b :: ·)

/-- the coordinates `reb_boundary_check` can touch -/
structure P (K : Type) where
  x : K
  y : K
  z : K
  vy : K
deriving Inhabited

/-- REB_BOUNDARY_PERIODIC, one particle -/
def periodic1 (bx bY bz : K) (fuel : Nat) (p : P K) : Option (P K) :=
  (wrap1 bx fuel p.x).bind fun x =>
  (wrap1 bY fuel p.y).bind fun y =>
  (wrap1 bz fuel p.z).bind fun z => some { p with x := x, y := y, z := z }

/-- REB_BOUNDARY_PERIODIC, all particles (`for (int i=0;i<N;i++)`; N is not touched) -/
def periodic (bx bY bz : K) (fuel : Nat) (ps : List (P K)) : Option (List (P K)) :=
  mapOpt (periodic1 bx bY bz fuel) ps

/-- `while(x>bx/2.){ x -= bx; y += offsetp1; vy += dv; }` -/
def shearHi (bx op1 dv : K) : Nat → P K → Option (P K)
  | 0, p => if ScalarO.lt (half bx) p.x then none else some p
  | f+1, p => if ScalarO.lt (half bx) p.x then
      shearHi bx op1 dv f { p with x := p.x - bx, y := p.y + op1, vy := p.vy + dv } else some p

/-- `while(x<-bx/2.){ x += bx; y += offsetm1; vy -= dv; }` -/
def shearLo (bx om1 dv : K) : Nat → P K → Option (P K)
  | 0, p => if ScalarO.lt p.x (nhalf bx) then none else some p
  | f+1, p => if ScalarO.lt p.x (nhalf bx) then
      shearLo bx om1 dv f { p with x := p.x + bx, y := p.y + om1, vy := p.vy - dv } else some p

/-- the two offsets and the velocity jump, in the operation order of boundary.c:87-88,94 -/
def shearOffsets (fmod : K → K → K) (omega t bx bY : K) : K × K × K :=
  let c15 : K := Scalar.ofNat 3 / Scalar.ofNat 2           -- 1.5 (exact)
  let op1 := Scalar.neg (fmod (Scalar.neg c15 * omega * bx * t + half bY) bY) - half bY
  let om1 := Scalar.neg (fmod (c15 * omega * bx * t - half bY) bY) + half bY
  let dv := c15 * omega * bx
  (op1, om1, dv)

/-- REB_BOUNDARY_SHEAR, one particle, offsets given -/
def shear1 (bx bY bz op1 om1 dv : K) (fuel : Nat) (p : P K) : Option (P K) :=
  (shearHi bx op1 dv fuel p).bind fun p =>
  (shearLo bx om1 dv fuel p).bind fun p =>
  (wrap1 bY fuel p.y).bind fun y =>
  (wrap1 bz fuel p.z).bind fun z => some { p with y := y, z := z }

def shear (fmod : K → K → K) (omega t bx bY bz : K) (fuel : Nat) (ps : List (P K)) : Option (List (P K)) :=
  let (op1, om1, dv) := shearOffsets fmod omega t bx bY
  mapOpt (shear1 bx bY bz op1 om1 dv fuel) ps

/-- the six `if`s of the open branch (identical to `reb_boundary_particle_is_in_box` negated) -/
def outside (bx bY bz : K) (p : P K) : Bool :=
  ScalarO.lt (half bx) p.x || ScalarO.lt p.x (nhalf bx) ||
  ScalarO.lt (half bY) p.y || ScalarO.lt p.y (nhalf bY) ||
  ScalarO.lt (half bz) p.z || ScalarO.lt p.z (nhalf bz)

end generic

/-! ### open boundary: the removal loop (element type abstract) -/
section openLoop
variable {α : Type}

/-- `reb_simulation_remove_particle(r,i,0)` without a tree: `N--; particles[i] = particles[N]`
    (and `N = 0` when `N == 1`, which is the same list). -/
def swapRemove (l : List α) (i : Nat) : List α :=
  match l.getLast? with
  | none => l
  | some last => (l.dropLast).set i last      -- `N--`, then `particles[i] = particles[N]`

theorem swapRemove_length (l : List α) (i : Nat) (h : i < l.length) :
    (swapRemove l i).length = l.length - 1 := by
  unfold swapRemove
  cases hl : l.getLast? with
  | none => simp [List.getLast?_eq_none_iff] at hl; subst hl; simp at h
  | some last => simp

/-- `for (i=0;i<N;i++){ if (outside(p[i])) { remove(i); i--; N--; } }` — no tree.
    The element swapped into the hole is re-examined (`i--`). -/
def openLoop (out : α → Bool) (i : Nat) (l : List α) : List α :=
  if h : i < l.length then
    if out l[i] then openLoop out i (swapRemove l i) else openLoop out (i+1) l
  else l
termination_by (l.length - i) + l.length
decreasing_by
  · have := swapRemove_length l i h; omega
  · omega

/-- the same loop when `track_energy_offset` is set: `reb_simulation_remove_particle(r,i,1)` (keep_sorted)
    shifts the tail down by one instead of moving the last particle into the hole; `i--; N--` as before -/
def openLoopSorted (out : α → Bool) (i : Nat) (l : List α) : List α :=
  if h : i < l.length then
    if out l[i] then openLoopSorted out i (l.eraseIdx i) else openLoopSorted out (i+1) l
  else l
termination_by (l.length - i) + l.length
decreasing_by
  · have := List.length_eraseIdx_of_lt h; omega
  · omega

/-- the same loop when a tree is in use: particles are only marked (`y = NaN`),
    indices and `N` stay (`r->tree_needs_update = 1`), except that
    `reb_simulation_remove_particle` sets `N = 0` outright when `N == 1`. -/
def openMark (out : α → Bool) (mark : α → α) (l : List α) : List α :=
  match l with
  | [a] => if out a then [] else [a]
  | l => l.map fun a => if out a then mark a else a

end openLoop

/-! ### exact `fmod` on IEEE doubles (Lean has none) -/

/-- finite non-zero double = `m * 2^e` with `m : Nat`, sign separately -/
def decodeF (f : Float) : Nat × Int :=
  let b := f.toBits.toNat
  let ex : Nat := (b / 2^52) % 2048
  let fr : Nat := b % 2^52
  if ex == 0 then (fr, -1074) else (fr + 2^52, Int.ofNat ex - 1075)

def natToF (n : Nat) (e : Int) : Float := (Float.ofNat n).scaleB e

/-- C `fmod(a,b)`: exact remainder with the sign of `a`, `|r| < |b|` -/
def fmodFloat (a b : Float) : Float :=
  if a.isNaN || b.isNaN || a.isInf || b == 0.0 then 0.0/0.0
  else if b.isInf then a
  else if a == 0.0 then a
  else
    let (ma, ea) := decodeF a
    let (mb, eb) := decodeF b
    let r : Float :=
      if ea ≥ eb then natToF ((ma * 2^((ea - eb).toNat)) % mb) eb
      else natToF (ma % (mb * 2^((eb - ea).toNat))) ea
    if a < 0.0 || (a == 0.0 && (1.0/a) < 0.0) then -r else r

end RV.Boundary
