/-
  Automatic snapshot cadence (`reb_simulationarchive_heartbeat`, simulationarchive.c:409-441) and the growth of
  the reader's index arrays (simulationarchive.c:221-223, 311-315).  Mathlib-free; the arithmetic is a
  parameter so that the same definitions run on IEEE doubles in the driver and on integers in the theorems.
-/
namespace RV.Cadence

structure Ops (α : Type) where
  le : α → α → Bool
  add : α → α → α
  mul : α → α → α

/-- interval branch (lines 418-425): `sign = dt>0 ? 1 : -1`;
    `if (sign*next <= sign*t){ next += sign*interval; save; }` → (snapshot taken?, new `next`) -/
def hb {α : Type} (o : Ops α) (sign interval next t : α) : Bool × α :=
  if o.le (o.mul sign next) (o.mul sign t) then (true, o.add next (o.mul sign interval)) else (false, next)

/-- the heartbeat is called once per step boundary (before each step and once after the last): run it over the
    boundary times -/
def run {α : Type} (o : Ops α) (sign interval : α) : α → List α → List Bool × α
  | next, [] => ([], next)
  | next, t :: r =>
    let h := hb o sign interval next t
    let rest := run o sign interval h.2 r
    (h.1 :: rest.1, rest.2)

/-- step branch (lines 426-432): `if (next_step <= steps_done){ next_step += auto_step; save; }` -/
def hbStep (step nextStep stepsDone : Nat) : Bool × Nat :=
  if nextStep ≤ stepsDone then (true, nextStep + step) else (false, nextStep)

def runStep (step : Nat) : Nat → List Nat → List Bool × Nat
  | next, [] => ([], next)
  | next, t :: r =>
    let h := hbStep step next t
    let rest := runStep step h.2 r
    (h.1 :: rest.1, rest.2)

/-- wall-time branch (lines 433-439): `if (next <= walltime){ next += auto_walltime; save; }` — no direction
    factor: the wall clock only moves forward.  The clock value is an input of the model (any sequence). -/
def hbWall {α : Type} (o : Ops α) (interval next wall : α) : Bool × α :=
  if o.le next wall then (true, o.add next interval) else (false, next)

def runWall {α : Type} (o : Ops α) (interval : α) : α → List α → List Bool × α
  | next, [] => ([], next)
  | next, w :: r =>
    let h := hbWall o interval next w
    let rest := runWall o interval h.2 r
    (h.1 :: rest.1, rest.2)

/-! ### cadence state across a restart
  `simulationarchive_auto_interval`, `simulationarchive_next`, `simulationarchive_auto_step`, `simulationarchive_next_step`
  are fields of every snapshot (the snapshot is written AFTER the heartbeat advanced `next`, simulationarchive.c:429-431).
  After a restart the user calls `reb_simulation_save_to_file_interval/step/walltime` again (simulationarchive.c:641-668). -/

/-- `reb_simulation_save_to_file_interval`: `if (auto_interval != interval){ auto_interval = interval; next = t; }`
    → (interval, next).  `ne` is C's `!=` on the number type. -/
def arm {α : Type} (ne : α → α → Bool) (cur next interval t : α) : α × α :=
  if ne cur interval then (interval, t) else (cur, next)

/-- `reb_simulation_save_to_file_step`: `if (auto_step != step){ auto_step = step; next_step = steps_done; }` -/
def armStep (cur next step stepsDone : Nat) : Nat × Nat :=
  if cur ≠ step then (step, stepsDone) else (cur, next)

/-- `reb_simulation_save_to_file_walltime`: re-armed unconditionally: `auto_walltime = walltime; next = r->walltime` -/
def armWall {α : Type} (interval wall : α) : α × α := (interval, wall)

/-- restart from the snapshot written at boundary `tk` (persisted cadence state `pInt`, `pNext`), the user re-arms
    with `interval`, `reb_simulation_integrate` runs the heartbeat at `tk` (before the first step) and at every later
    boundary -/
def restart {α : Type} (o : Ops α) (ne : α → α → Bool) (sign pInt pNext interval tk : α) (later : List α) : List Bool × α :=
  let a := arm ne pInt pNext interval tk
  run o sign a.1 a.2 (tk :: later)

def restartStep (pStep pNext step sk : Nat) (later : List Nat) : List Bool × Nat :=
  let a := armStep pStep pNext step sk
  runStep a.1 a.2 (sk :: later)

/-! ### repaired heartbeat (`fixes/C06-cadence-skip-passed-output-times.diff`)
  `next += sign*interval; if (sign*next <= sign*t && interval>0.){ passed = floor(sign*(t-next)/interval)+1.;
   next += sign*passed*interval; if (sign*next <= sign*t) next += sign*interval; }` -/
structure OpsR (α : Type) extends Ops α where
  lt : α → α → Bool
  zero : α
  /-- `floor(sign*(t-next)/interval) + 1` -/
  passed : α → α → α → α → α

def hbR {α : Type} (o : OpsR α) (sign interval next t : α) : Bool × α :=
  if o.le (o.mul sign next) (o.mul sign t) then
    let n1 := o.add next (o.mul sign interval)
    if o.le (o.mul sign n1) (o.mul sign t) && o.lt o.zero interval then
      let n2 := o.add n1 (o.mul (o.mul sign (o.passed sign t n1 interval)) interval)
      (true, if o.le (o.mul sign n2) (o.mul sign t) then o.add n2 (o.mul sign interval) else n2)
    else (true, n1)
  else (false, next)

def runR {α : Type} (o : OpsR α) (sign interval : α) : α → List α → List Bool × α
  | next, [] => ([], next)
  | next, t :: r =>
    let h := hbR o sign interval next t
    let rest := runR o sign interval h.2 r
    (h.1 :: rest.1, rest.2)

def restartR {α : Type} (o : OpsR α) (ne : α → α → Bool) (sign pInt pNext interval tk : α) (later : List α) : List Bool × α :=
  let a := arm ne pInt pNext interval tk
  runR o sign a.1 a.2 (tk :: later)

def intOps : Ops Int := ⟨fun a b => decide (a ≤ b), (· + ·), (· * ·)⟩
def floatOps : Ops Float := ⟨fun a b => a ≤ b, (· + ·), (· * ·)⟩
def intOpsR : OpsR Int := { intOps with lt := fun a b => decide (a < b), zero := 0, passed := fun s t n d => (s * (t - n)) / d + 1 }
def floatOpsR : OpsR Float :=
  { floatOps with lt := fun a b => a < b, zero := 0.0, passed := fun s t n d => Float.floor (s * (t - n) / d) + 1.0 }

/-- capacity of `sa->t` / `sa->offset` at the start of loop iteration `i`: 1024 at first, enlarged by 1024 at
    the end of the iteration in which `i == nblobsmax-1` -/
def growCap (cap i : Nat) : Nat := if i = cap - 1 then cap + 1024 else cap

def capAt : Nat → Nat
  | 0 => 1024
  | i + 1 => growCap (capAt i) i

end RV.Cadence
