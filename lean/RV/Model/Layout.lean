/-
  C18 — model of "the Python classes mirror the C structures and options".

  The data (RV/Gen/C18*.lean) is transcribed on every run from the code under test:
  the C side from the preprocessed header as laid out by the compiler, the Python side from
  the ctypes classes of the scratch package.  This file is the *comparison*: a matcher
  that pairs ctypes fields with C members by position/offset, the kind compatibility
  relation, the name convention, and the option-name rule.  Everything is a `Bool`/`Option`
  function by structural recursion so that the kernel can evaluate it on the whole tables
  (`decide +kernel`) and the native driver `drv_c18` can print the first mismatch.

  Mathlib-free.
-/
namespace RV.Layout

/-- what a member is, as far as a mirror has to agree on it -/
inductive Kind where
  | int (signed : Bool) (bytes : Nat)
  | enm (name : String) (signed : Bool) (bytes : Nat)   -- C enumeration (C side only)
  | f64 | f32 | chr
  | void                                                 -- only as pointee / return type
  | opaque (name : String)                               -- a type neither side mirrors (FILE, pthread_mutex_t …)
  | struct (name : String)                               -- embedded structure (C tag / Python class name)
  | ptr (to : Kind)                                      -- data pointer
  | fptr (ret : Kind) (nargs : Nat)                      -- function pointer
  | arr (elem : Kind) (n : Nat)
  deriving Repr, Inhabited

/-- one line of a generated table: (structure, member, offset, size, kind) -/
abbrev Row := String × String × Nat × Nat × Kind

structure Field where
  name : String
  off : Nat
  size : Nat
  kind : Kind
  deriving Repr, Inhabited

/-- Python class -> (C structure, may mirror only a prefix) -/
abbrev ClassMap := List (String × String × Bool)

structure OptFamily where
  dict : String
  struct : String
  member : String
  cls : String
  prop : String
  pre : String
  deriving Repr, Inhabited

/-! ### table access -/

def fieldsOf (s : String) : List Row → List Field
  | [] => []
  | (s', n, o, z, k) :: r => if s' == s then ⟨n, o, z, k⟩ :: fieldsOf s r else fieldsOf s r

def lookup {α : Type} (k : String) : List (String × α) → Option α
  | [] => none
  | (k', v) :: r => if k' == k then some v else lookup k r

def structOf (cm : ClassMap) (cls : String) : Option String :=
  (lookup cls cm).map (·.1)

def memStr (x : String) : List String → Bool
  | [] => false
  | y :: r => x == y || memStr x r

/-! ### kind compatibility (C kind on the left, ctypes kind on the right) -/

def kindOk (cm : ClassMap) : Kind → Kind → Bool
  | .int s n, p => match p with
      | .int s' n' => s == s' && n == n'
      | _ => false
  | .enm _ _ n, p => match p with
      | .int _ n' => n == n'          -- the signedness of an enum's underlying type is the compiler's choice
      | _ => false
  | .f64, p => match p with | .f64 => true | _ => false
  | .f32, p => match p with | .f32 => true | _ => false
  | .chr, p => match p with | .chr => true | _ => false
  | .void, p => match p with | .void => true | _ => false
  | .opaque _, _ => false
  | .struct s, p => match p with
      | .struct c => structOf cm c == some s
      | _ => false
  | .ptr c, p => match p with
      | .ptr .void => true            -- c_void_p: an untyped data pointer mirrors any data pointer
      | .ptr p' => kindOk cm c p'
      | _ => false
  | .fptr r n, p => match p with
      | .fptr r' n' => kindOk cm r r' && n == n'
      | _ => false
  | .arr c n, p => match p with
      | .arr p' n' => n == n' && kindOk cm c p'
      | _ => false

/-! ### pairing ctypes fields with C members -/

def isArr : Kind → Bool
  | .arr _ _ => true
  | _ => false

/-- how many consecutive C members the ctypes field `p` stands for, given the next C member -/
def span (p : Field) (c : Field) : Nat :=
  match p.kind with
  | .arr _ n => if isArr c.kind then 1 else n
  | _ => 1

/-- pair each ctypes field with the run of C members it stands for (by position; offsets are
    checked afterwards by `pairOk`).  Returns the pairs and the C members left over;
    `none` when the C members run out. -/
def pairUp : List Field → List Field → Option (List (Field × List Field) × List Field)
  | [], cs => some ([], cs)
  | _ :: _, [] => none
  | p :: ps, c :: cs =>
    let n := span p c
    if n == 0 || (c :: cs).length < n then none else
    match pairUp ps ((c :: cs).drop n) with
    | none => none
    | some (prs, rest) => some ((p, (c :: cs).take n) :: prs, rest)

/-- a run of C members of element size `es`, consecutive from `off`, each compatible with `ek` -/
def runOk (cm : ClassMap) (ek : Kind) (es : Nat) : Nat → List Field → Bool
  | _, [] => true
  | off, c :: cs => c.off == off && c.size == es && kindOk cm c.kind ek && runOk cm ek es (off + es) cs

/-- why two kinds are not compatible (only called when `kindOk` is false) -/
def kindWhy : Kind → Kind → String
  | .int _ n, .int _ n' => if n == n' then "sign" else "kind"
  | .ptr _, .ptr _ => "pointee"
  | .fptr _ _, .fptr _ _ => "signature"
  | _, _ => "kind"

/-- same bytes, same size, compatible kind: `none`, otherwise the category of the disagreement
    ("offset", "size", "sign", "pointee", "signature", "kind", "run") -/
def pairWhy (cm : ClassMap) (pr : Field × List Field) : Option String :=
  match pr.2 with
  | [c] =>
    if c.off != pr.1.off then some "offset"
    else if c.size != pr.1.size then some "size"
    else if isArr pr.1.kind && !isArr c.kind then
      match pr.1.kind with
      | .arr ek n => if n == 1 && kindOk cm c.kind ek then none else some "kind"
      | _ => some "kind"
    else if kindOk cm c.kind pr.1.kind then none else some (kindWhy c.kind pr.1.kind)
  | run =>
    match pr.1.kind with
    | .arr ek n => if n != 0 && run.length == n && pr.1.size == n * (pr.1.size / n)
                      && runOk cm ek (pr.1.size / n) pr.1.off run then none else some "run"
    | _ => some "run"

def pairOk (cm : ClassMap) (pr : Field × List Field) : Bool := (pairWhy cm pr).isNone

/-- (structure, ctypes field, C member, category) -/
abbrev Bad := String × String × String × String

def memBad (x : Bad) : List Bad → Bool
  | [] => false
  | y :: r => (x.1 == y.1 && x.2.1 == y.2.1 && x.2.2.1 == y.2.2.1 && x.2.2.2 == y.2.2.2) || memBad x r

def subsetBad (a b : List Bad) : Bool := a.all fun x => memBad x b

/-- every pair that disagrees -/
def badPairs (cm : ClassMap) (struct : String) : List (Field × List Field) → List Bad
  | [] => []
  | pr :: r => match pairWhy cm pr with
    | none => badPairs cm struct r
    | some w => (struct, pr.1.name, (pr.2.head?.map (·.name)).getD "", w) :: badPairs cm struct r

/-- all layout disagreements of one class against one structure; structural failures
    (more ctypes fields than C members, C members left over) are reported with an empty field name -/
def layoutBad (cm : ClassMap) (pfx : Bool) (struct : String) (py c : List Field) : List Bad :=
  match pairUp py c with
  | none => [(struct, "", "", "ctypes class declares more members than the C structure has")]
  | some (prs, rest) =>
    badPairs cm struct prs ++
    match rest with
    | [] => []
    | c :: _ => if pfx then [] else [(struct, "", c.name, "C member not mirrored")]

def layoutOk (cm : ClassMap) (pfx : Bool) (py c : List Field) : Bool :=
  (layoutBad cm pfx "" py c).isEmpty

/-! ### names -/

/-- the leading-underscore convention: a private Python field `_x` mirrors C member `x` -/
def stripUnderscore (s : String) : String :=
  if s.startsWith "_" then (s.drop 1).toString else s

def memTriple (a b c : String) : List (String × String × String) → Bool
  | [] => false
  | (x, y, z) :: r => (x == a && y == b && z == c) || memTriple a b c r

def runNames (base : String) : Nat → List Field → Bool
  | _, [] => true
  | i, c :: cs => c.name == base ++ toString i && runNames base (i + 1) cs

def nameOk (ren : List (String × String × String)) (struct : String) (pr : Field × List Field) : Bool :=
  match pr.2 with
  | [c] => pr.1.name == c.name || stripUnderscore pr.1.name == c.name || memTriple struct pr.1.name c.name ren
  | run => runNames (stripUnderscore pr.1.name) 0 run

/-- the (structure, Python field, C member) pairs whose names do not agree -/
def badNames (ren : List (String × String × String)) (struct : String) :
    List (Field × List Field) → List (String × String × String)
  | [] => []
  | pr :: r => if nameOk ren struct pr then badNames ren struct r
               else (struct, pr.1.name, (pr.2.head?.map (·.name)).getD "") :: badNames ren struct r

/-! ### whole tables -/

structure Tables where
  cRows : List Row
  cSizes : List (String × Nat)
  pyRows : List Row
  pySizes : List (String × Nat)
  cm : ClassMap

def classLayoutBad (t : Tables) (e : String × String × Bool) : List Bad :=
  layoutBad t.cm e.2.2 e.2.1 (fieldsOf e.1 t.pyRows) (fieldsOf e.2.1 t.cRows)

/-- every layout disagreement of every mapped class -/
def allLayoutBad (t : Tables) : List Bad := t.cm.flatMap (classLayoutBad t)

def allLayoutsOk (t : Tables) : Bool := (allLayoutBad t).isEmpty

def sizeOk (t : Tables) (e : String × String × Bool) : Bool :=
  match lookup e.1 t.pySizes, lookup e.2.1 t.cSizes with
  | some ps, some cs => if e.2.2 then ps ≤ cs && ps != 0 else ps == cs
  | _, _ => false

def allSizesOk (t : Tables) : Bool := t.cm.all (sizeOk t)

/-- every ctypes class of the package is mapped, every mapped class / structure was found with at least one member -/
def allMapped (t : Tables) : Bool :=
  t.pySizes.all (fun e => (lookup e.1 t.cm).isSome) &&
  t.cm.all (fun e => (lookup e.1 t.pySizes).isSome && (lookup e.2.1 t.cSizes).isSome
                     && !(fieldsOf e.1 t.pyRows).isEmpty && !(fieldsOf e.2.1 t.cRows).isEmpty)

def classBadNames (t : Tables) (ren : List (String × String × String)) (e : String × String × Bool) :
    List (String × String × String) :=
  match pairUp (fieldsOf e.1 t.pyRows) (fieldsOf e.2.1 t.cRows) with
  | none => [(e.2.1, "", "")]
  | some (prs, _) => badNames ren e.2.1 prs

def allBadNames (t : Tables) (ren : List (String × String × String)) : List (String × String × String) :=
  t.cm.flatMap (classBadNames t ren)

def subsetTriples (a b : List (String × String × String)) : Bool :=
  a.all fun x => memTriple x.1 x.2.1 x.2.2 b

/-- the C member a ctypes field of a class is paired with (by the matcher) -/
def pairedMember (t : Tables) (cls field : String) : Option String :=
  match lookup cls t.cm with
  | none => none
  | some (s, _) =>
    match pairUp (fieldsOf cls t.pyRows) (fieldsOf s t.cRows) with
    | none => none
    | some (prs, _) =>
      match prs.find? (fun pr => pr.1.name == field) with
      | some (_, [c]) => some c.name
      | _ => none

/-! ### options -/

def norm (s : String) : String :=
  String.ofList ((s.toList.filter Char.isAlphanum).map Char.toLower)

def itemsOf (k : String) : List (String × String × Int) → List (String × Int)
  | [] => []
  | (k', n, v) :: r => if k' == k then (n, v) :: itemsOf k r else itemsOf k r

/-- the enumeration type of a C member -/
def enumOfMember (cRows : List Row) (struct member : String) : Option String :=
  match (fieldsOf struct cRows).find? (fun f => f.name == member) with
  | some f => match f.kind with
    | .enm e _ _ => some e
    | _ => none
  | none => none

/-- enumerators of `es` that mean `name`: prefix stripped, compared modulo case and punctuation -/
def meaning (pre name : String) (es : List (String × Int)) : List (String × Int) :=
  es.filter fun e => e.1.startsWith pre && norm (e.1.drop pre.length).toString == norm name

structure OptTables where
  cEnums : List (String × String × Int)
  pyOpts : List (String × String × Int)
  cRows : List Row

/-- every Python name of the family has exactly one C enumerator of the same meaning, with the same value -/
def optForward (o : OptTables) (f : OptFamily) : Bool :=
  match enumOfMember o.cRows f.struct f.member with
  | none => false
  | some en =>
    let es := itemsOf en o.cEnums
    let items := itemsOf f.dict o.pyOpts
    !items.isEmpty && items.all fun it =>
      match meaning f.pre it.1 es with
      | [e] => e.2 == it.2
      | _ => false

def distinctBy {α : Type} (eq : α → α → Bool) : List α → Bool
  | [] => true
  | x :: r => !(r.any (eq x)) && distinctBy eq r

/-- the reverse map is a function: values pairwise distinct, names pairwise distinct (also modulo
    normalisation), and every value is the value of some C enumerator whose meaning is that name -/
def optRoundtrip (o : OptTables) (f : OptFamily) : Bool :=
  let items := itemsOf f.dict o.pyOpts
  distinctBy (fun a b => a.2 == b.2) items && distinctBy (fun a b => norm a.1 == norm b.1) items &&
  match enumOfMember o.cRows f.struct f.member with
  | none => false
  | some en =>
    let es := itemsOf en o.cEnums
    distinctBy (fun a b => a.2 == b.2) es &&
    items.all fun it => (es.filter (fun e => e.2 == it.2)).all
      fun e => e.1.startsWith f.pre && norm (e.1.drop f.pre.length).toString == norm it.1

/-- the property of the family reads and writes a ctypes field that the matcher pairs with the family's C member -/
def optFieldTie (t : Tables) (props : List (String × String × String × String × List String))
    (f : OptFamily) (role : String) : Bool :=
  props.any fun p =>
    p.1 == f.cls && p.2.1 == f.prop && p.2.2.1 == role && p.2.2.2.1 == f.dict &&
    p.2.2.2.2.any fun a => pairedMember t f.cls a == some f.member

def isFptr : Kind → Bool
  | .fptr _ _ => true
  | _ => false

/-- function-pointer option: the stored symbol is `prefix ++ name`, is declared in the header, and the C member is a function pointer -/
def fnOptOk (cRows : List Row) (cFns : List String)
    (fm : List (String × String × String × String × String)) (r : String × String × String × String) : Bool :=
  fm.any fun f =>
    f.1 == r.1 && f.2.1 == r.2.1 && r.2.2.2 == f.2.2.2.2 ++ r.2.2.1 && memStr r.2.2.2 cFns &&
    match (fieldsOf f.2.2.1 cRows).find? (fun x => x.name == f.2.2.2.1) with
    | some x => isFptr x.kind
    | none => false

def memPair (a b : String) : List (String × String) → Bool
  | [] => false
  | (x, y) :: r => (x == a && y == b) || memPair a b r

end RV.Layout
