/-
  C18 — model of "the Python classes mirror the C structures and options".

  The data (RV/Gen/C18*.lean) is transcribed on every run from the code under test:
  the C side from the preprocessed header as laid out by the compiler, the Python side from
  the ctypes classes of the scratch package.  This file is the *comparison*: a matcher
  that pairs ctypes fields with C members by position and checks offsets, the kind
  compatibility relation, the name convention, and the option-name rule.  Everything is a
  `Bool`/`List` function by structural recursion so that the kernel can evaluate it on the
  whole tables (`decide +kernel`) and the native driver `drv_c18` can print every mismatch.

  Mathlib-free.
-/
namespace RV.Layout

/-- Identifiers travel as lists of code points, not `String`s: the kernel evaluates `Nat`
    arithmetic natively, whereas every `String` primitive unfolds to UTF-8 byte-array code
    (measured: 20–30 ms per `startsWith`/`drop` in the kernel, 2.4 GB for the name table).
    Generated tables write `n!"reb_simulation"`, which the macro below expands at elaboration
    time to `[114, 101, 98, …]`. -/
abbrev Name := List Nat

open Lean in
macro:max "n!" s:str : term => do
  let cs ← s.getString.toList.toArray.mapM (fun c => `(nat_lit $(Syntax.mkNumLit (toString c.toNat))))
  `(([$cs,*] : List Nat))

def Name.str (n : Name) : String := String.ofList (n.map Char.ofNat)

def nameEq : Name → Name → Bool
  | [], [] => true
  | a :: r, b :: r' => Nat.beq a b && nameEq r r'
  | _, _ => false

/-- what a member is, as far as a mirror has to agree on it -/
inductive Kind where
  | int (signed : Bool) (bytes : Nat)
  | enm (name : Name) (signed : Bool) (bytes : Nat)     -- C enumeration (C side only)
  | f64 | f32 | chr
  | void                                                 -- only as pointee / return type
  | opaque (name : Name)                                 -- a type neither side mirrors (FILE, pthread_mutex_t …)
  | struct (name : Name)                                 -- embedded structure (C tag / Python class name)
  | ptr (to : Kind)                                      -- data pointer
  | fptr (ret : Kind) (nargs : Nat)                      -- function pointer
  | arr (elem : Kind) (n : Nat)
  deriving Repr, Inhabited

/-- one member: ⟨name, offset, size, kind⟩ -/
structure Field where
  name : Name
  off : Nat
  size : Nat
  kind : Kind
  deriving Repr, Inhabited

/-- a generated layout table: (structure or class, total size, members in declaration order) -/
abbrev StructTab := List (Name × Nat × List Field)

/-- Python class -> (C structure, may mirror only a prefix) -/
abbrev ClassMap := List (Name × Name × Bool)

structure OptFamily where
  dict : Name
  struct : Name
  member : Name
  cls : Name
  prop : Name
  pre : Name
  deriving Repr, Inhabited

/-! ### table access -/

def lookup {α : Type} (k : Name) : List (Name × α) → Option α
  | [] => none
  | (k', v) :: r => if nameEq k' k then some v else lookup k r

/-- members of a structure (empty if the table has no such structure) -/
def fieldsOf (s : Name) (t : StructTab) : List Field :=
  match lookup s t with
  | some (_, fs) => fs
  | none => []

def sizeOf? (s : Name) (t : StructTab) : Option Nat :=
  match lookup s t with
  | some (z, _) => some z
  | none => none

def structOf (cm : ClassMap) (cls : Name) : Option Name :=
  match lookup cls cm with
  | some (s, _) => some s
  | none => none

def memName (x : Name) : List Name → Bool
  | [] => false
  | y :: r => nameEq x y || memName x r

def optNameEq : Option Name → Name → Bool
  | some a, b => nameEq a b
  | none, _ => false

/-! ### kind compatibility (C kind on the left, ctypes kind on the right) -/

def kindOk (cm : ClassMap) : Kind → Kind → Bool
  | .int s n, p => match p with
      | .int s' n' => s == s' && n == n'
      | _ => false
  | .enm _ _ n, p => match p with
      | .int _ n' => n == n'          -- the signedness of an enum's underlying type is the compiler's choice
      | _ => false
  | .f64, p => match p with | .f64 => true | _ => false
  | .f32, p => match p with | .f32 => true | _ => false
  | .chr, p => match p with | .chr => true | _ => false
  | .void, p => match p with | .void => true | _ => false
  | .opaque _, _ => false
  | .struct s, p => match p with
      | .struct c => optNameEq (structOf cm c) s
      | _ => false
  | .ptr c, p => match p with
      | .ptr .void => true            -- c_void_p: an untyped data pointer mirrors any data pointer
      | .ptr p' => kindOk cm c p'
      | _ => false
  | .fptr r n, p => match p with
      | .fptr r' n' => kindOk cm r r' && n == n'
      | _ => false
  | .arr c n, p => match p with
      | .arr p' n' => n == n' && kindOk cm c p'
      | _ => false

/-! ### pairing ctypes fields with C members -/

def isArr : Kind → Bool
  | .arr _ _ => true
  | _ => false

/-- how many consecutive C members the ctypes field `p` stands for, given the next C member -/
def span (p : Field) (c : Field) : Nat :=
  match p.kind with
  | .arr _ n => if isArr c.kind then 1 else n
  | _ => 1

/-- split off the first `n` elements; `none` if the list is shorter -/
def splitN {α : Type} : Nat → List α → Option (List α × List α)
  | 0, l => some ([], l)
  | _ + 1, [] => none
  | n + 1, x :: r => match splitN n r with
    | some (a, b) => some (x :: a, b)
    | none => none

/-- pair each ctypes field with the run of C members it stands for (by position; offsets are
    checked afterwards by `pairWhy`).  Returns the pairs and the C members left over;
    `none` when the C members run out (or a ctypes array has length 0). -/
def pairUp : List Field → List Field → Option (List (Field × List Field) × List Field)
  | [], cs => some ([], cs)
  | _ :: _, [] => none
  | p :: ps, c :: cs =>
    match span p c with
    | 0 => none
    | n + 1 =>
      match splitN n cs with
      | none => none
      | some (run, rest) =>
        match pairUp ps rest with
        | none => none
        | some (prs, left) => some ((p, c :: run) :: prs, left)

/-- a run of C members of element size `es`, consecutive from `off`, each compatible with `ek` -/
def runOk (cm : ClassMap) (ek : Kind) (es : Nat) : Nat → List Field → Bool
  | _, [] => true
  | off, c :: cs => c.off == off && c.size == es && kindOk cm c.kind ek && runOk cm ek es (off + es) cs

/-- category of a disagreement -/
inductive Why where
  | offset | size | sign | pointee | signature | kind | run
  | tooManyFields      -- the ctypes class declares more members than the C structure has
  | notMirrored        -- a C member (not in an allowed tail) has no ctypes field
  deriving Repr, Inhabited, DecidableEq

def Why.str : Why → String
  | .offset => "offset" | .size => "size" | .sign => "sign" | .pointee => "pointee"
  | .signature => "signature" | .kind => "kind" | .run => "run"
  | .tooManyFields => "too-many-fields" | .notMirrored => "not-mirrored"

def Why.beq : Why → Why → Bool
  | .offset, .offset | .size, .size | .sign, .sign | .pointee, .pointee | .signature, .signature
  | .kind, .kind | .run, .run | .tooManyFields, .tooManyFields | .notMirrored, .notMirrored => true
  | _, _ => false

/-- why two kinds are not compatible (only consulted when `kindOk` is false) -/
def kindWhy : Kind → Kind → Why
  | .int _ n, .int _ n' => if n == n' then .sign else .kind
  | .ptr _, .ptr _ => .pointee
  | .fptr _ _, .fptr _ _ => .signature
  | _, _ => .kind

/-- same bytes, same size, compatible kind: `none`; otherwise the category of the disagreement -/
def pairWhy (cm : ClassMap) (pr : Field × List Field) : Option Why :=
  match pr.2 with
  | [c] =>
    if c.off != pr.1.off then some .offset
    else if c.size != pr.1.size then some .size
    else if kindOk cm c.kind pr.1.kind then none
    else match pr.1.kind with
      | .arr ek n => if !isArr c.kind && n == 1 && kindOk cm c.kind ek then none else some .kind
      | k => some (kindWhy c.kind k)
  | run =>
    match pr.1.kind with
    | .arr ek n => if n != 0 && run.length == n && pr.1.size == n * (pr.1.size / n)
                      && runOk cm ek (pr.1.size / n) pr.1.off run then none else some .run
    | _ => some .run

/-- (structure, ctypes field, C member, category) -/
abbrev Bad := Name × Name × Name × Why

def badEq (x y : Bad) : Bool :=
  nameEq x.1 y.1 && nameEq x.2.1 y.2.1 && nameEq x.2.2.1 y.2.2.1 && Why.beq x.2.2.2 y.2.2.2

def memBad (x : Bad) : List Bad → Bool
  | [] => false
  | y :: r => badEq x y || memBad x r

def subsetBad (a b : List Bad) : Bool := a.all fun x => memBad x b

def headName : List Field → Name
  | [] => []
  | c :: _ => c.name

/-- every pair that disagrees -/
def badPairs (cm : ClassMap) (struct : Name) : List (Field × List Field) → List Bad
  | [] => []
  | pr :: r => match pairWhy cm pr with
    | none => badPairs cm struct r
    | some w => (struct, pr.1.name, headName pr.2, w) :: badPairs cm struct r

/-- all layout disagreements of one class against one structure -/
def layoutBad (cm : ClassMap) (pfx : Bool) (struct : Name) (py c : List Field) : List Bad :=
  match pairUp py c with
  | none => [(struct, [], [], .tooManyFields)]
  | some (prs, rest) =>
    badPairs cm struct prs ++
    match rest with
    | [] => []
    | c :: _ => if pfx then [] else [(struct, [], c.name, .notMirrored)]

def layoutOk (cm : ClassMap) (pfx : Bool) (py c : List Field) : Bool :=
  (layoutBad cm pfx [] py c).isEmpty

/-! ### names -/

/-- the leading-underscore convention: a private Python field `_x` mirrors C member `x` -/
def stripUnderscore : Name → Name
  | 95 :: r => r
  | l => l

abbrev Triple := Name × Name × Name

def memTriple (a b c : Name) : List Triple → Bool
  | [] => false
  | (x, y, z) :: r => (nameEq x a && nameEq y b && nameEq z c) || memTriple a b c r

/-- decimal digits of an index below 100 (arrays standing for longer runs are rejected) -/
def idxDigits (i : Nat) : Option Name :=
  if i < 10 then some [48 + i] else if i < 100 then some [48 + i / 10, 48 + i % 10] else none

/-- `max_radius : c_double*2` stands for `max_radius0`, `max_radius1` -/
def runNames (base : Name) : Nat → List Field → Bool
  | _, [] => true
  | i, c :: cs => (match idxDigits i with
                   | some d => nameEq c.name (base ++ d)
                   | none => false) && runNames base (i + 1) cs

def nameOk (ren : List Triple) (struct : Name) (pr : Field × List Field) : Bool :=
  match pr.2 with
  | [c] => nameEq pr.1.name c.name || nameEq (stripUnderscore pr.1.name) c.name
           || memTriple struct pr.1.name c.name ren
  | run => runNames (stripUnderscore pr.1.name) 0 run

/-- the (structure, Python field, C member) pairs whose names do not agree -/
def badNames (ren : List Triple) (struct : Name) : List (Field × List Field) → List Triple
  | [] => []
  | pr :: r => if nameOk ren struct pr then badNames ren struct r
               else (struct, pr.1.name, headName pr.2) :: badNames ren struct r

/-! ### whole tables -/

structure Tables where
  c : StructTab
  py : StructTab
  cm : ClassMap

def classLayoutBad (t : Tables) (e : Name × Name × Bool) : List Bad :=
  layoutBad t.cm e.2.2 e.2.1 (fieldsOf e.1 t.py) (fieldsOf e.2.1 t.c)

/-- every layout disagreement of every mapped class -/
def allLayoutBad (t : Tables) : List Bad := t.cm.flatMap (classLayoutBad t)

def sizeOk (t : Tables) (e : Name × Name × Bool) : Bool :=
  match sizeOf? e.1 t.py, sizeOf? e.2.1 t.c with
  | some ps, some cs => if e.2.2 then ps ≤ cs && ps != 0 else ps == cs
  | _, _ => false

def allSizesOk (t : Tables) : Bool := t.cm.all (sizeOk t)

/-- every ctypes class of the package is mapped; every mapped class / structure was found with at least one member -/
def allMapped (t : Tables) : Bool :=
  t.py.all (fun e => (lookup e.1 t.cm).isSome) &&
  t.cm.all (fun e => !(fieldsOf e.1 t.py).isEmpty && !(fieldsOf e.2.1 t.c).isEmpty)

def classBadNames (t : Tables) (ren : List Triple) (e : Name × Name × Bool) : List Triple :=
  match pairUp (fieldsOf e.1 t.py) (fieldsOf e.2.1 t.c) with
  | none => [(e.2.1, [], [])]
  | some (prs, _) => badNames ren e.2.1 prs

def allBadNames (t : Tables) (ren : List Triple) : List Triple :=
  t.cm.flatMap (classBadNames t ren)

def subsetTriples (a b : List Triple) : Bool :=
  a.all fun x => memTriple x.1 x.2.1 x.2.2 b

def findPair (field : Name) : List (Field × List Field) → Option (List Field)
  | [] => none
  | pr :: r => if nameEq pr.1.name field then some pr.2 else findPair field r

/-- the C member a ctypes field of a class is paired with (by the matcher) -/
def pairedMember (t : Tables) (cls field : Name) : Option Name :=
  match lookup cls t.cm with
  | none => none
  | some (s, _) =>
    match pairUp (fieldsOf cls t.py) (fieldsOf s t.c) with
    | none => none
    | some (prs, _) =>
      match findPair field prs with
      | some [c] => some c.name
      | _ => none

/-! ### options -/

def isAlnum (c : Nat) : Bool := (48 ≤ c && c ≤ 57) || (65 ≤ c && c ≤ 90) || (97 ≤ c && c ≤ 122)
def lower (c : Nat) : Nat := if 65 ≤ c && c ≤ 90 then c + 32 else c

/-- names are compared modulo case and punctuation: "10,6,4" ~ "10_6_4", "whfast" ~ "WHFAST" -/
def norm : Name → Name
  | [] => []
  | c :: r => if isAlnum c then lower c :: norm r else norm r

def stripPrefix : Name → Name → Option Name
  | [], s => some s
  | _ :: _, [] => none
  | a :: p, b :: s => if Nat.beq a b then stripPrefix p s else none

def itemsOf (k : Name) : List (Name × Name × Int) → List (Name × Int)
  | [] => []
  | (k', n, v) :: r => if nameEq k' k then (n, v) :: itemsOf k r else itemsOf k r

def findField (n : Name) : List Field → Option Field
  | [] => none
  | f :: r => if nameEq f.name n then some f else findField n r

/-- the enumeration type of a C member -/
def enumOfMember (cRows : StructTab) (struct member : Name) : Option Name :=
  match findField member (fieldsOf struct cRows) with
  | some f => match f.kind with
    | .enm e _ _ => some e
    | _ => none
  | none => none

/-- does enumerator `e` mean `name`: prefix stripped, compared modulo case and punctuation -/
def means (pre name : Name) (e : Name) : Bool :=
  match stripPrefix pre e with
  | some rest => nameEq (norm rest) (norm name)
  | none => false

def meaning (pre name : Name) (es : List (Name × Int)) : List (Name × Int) :=
  es.filter fun e => means pre name e.1

structure OptTables where
  cEnums : List (Name × Name × Int)
  pyOpts : List (Name × Name × Int)
  cRows : StructTab

/-- every Python name of the family has exactly one C enumerator of the same meaning, with the same value -/
def optForward (o : OptTables) (f : OptFamily) : Bool :=
  match enumOfMember o.cRows f.struct f.member with
  | none => false
  | some en =>
    let es := itemsOf en o.cEnums
    let items := itemsOf f.dict o.pyOpts
    !items.isEmpty && items.all fun it =>
      match meaning f.pre it.1 es with
      | [e] => e.2 == it.2
      | _ => false

def distinctBy {α : Type} (eq : α → α → Bool) : List α → Bool
  | [] => true
  | x :: r => !(r.any (eq x)) && distinctBy eq r

/-- the reverse map is a function and inverts the forward map: values pairwise distinct, names pairwise
    distinct modulo normalisation, C values pairwise distinct, and every C enumerator carrying a value of
    the dictionary means the name stored with that value -/
def optRoundtrip (o : OptTables) (f : OptFamily) : Bool :=
  let items := itemsOf f.dict o.pyOpts
  distinctBy (fun a b => a.2 == b.2) items && distinctBy (fun a b => nameEq (norm a.1) (norm b.1)) items &&
  match enumOfMember o.cRows f.struct f.member with
  | none => false
  | some en =>
    let es := itemsOf en o.cEnums
    distinctBy (fun a b => a.2 == b.2) es &&
    items.all fun it => (es.filter (fun e => e.2 == it.2)).all fun e => means f.pre it.1 e.1

abbrev PropRow := Name × Name × Name × Name × List Name

/-- the property of the family (getter or setter) touches a ctypes field that the matcher pairs with the family's C member -/
def optFieldTie (t : Tables) (props : List PropRow) (f : OptFamily) (role : Name) : Bool :=
  props.any fun p =>
    nameEq p.1 f.cls && nameEq p.2.1 f.prop && nameEq p.2.2.1 role && nameEq p.2.2.2.1 f.dict &&
    p.2.2.2.2.any fun a => optNameEq (pairedMember t f.cls a) f.member

def isFptr : Kind → Bool
  | .fptr _ _ => true
  | _ => false

abbrev FnRow := Name × Name × Name × Name
abbrev FnFamily := Name × Name × Name × Name × Name

/-- function-pointer option: the stored symbol is `prefix ++ name`, is declared in the header, and the C member is a function pointer -/
def fnOptOk (cRows : StructTab) (cFns : List Name) (fm : List FnFamily) (r : FnRow) : Bool :=
  fm.any fun f =>
    nameEq f.1 r.1 && nameEq f.2.1 r.2.1 && nameEq r.2.2.2 (f.2.2.2.2 ++ r.2.2.1) && memName r.2.2.2 cFns &&
    match findField f.2.2.2.1 (fieldsOf f.2.2.1 cRows) with
    | some x => isFptr x.kind
    | none => false

def memPair (a b : Name) : List (Name × Name) → Bool
  | [] => false
  | (x, y) :: r => (nameEq x a && nameEq y b) || memPair a b r

def subsetPairs (a b : List (Name × Name)) : Bool := a.all fun x => memPair x.1 x.2 b

/-! ### full signatures: callbacks, declared restypes, foreign call sites -/

structure Proto where
  name : Name
  ret : Kind
  args : List Kind
  deriving Repr, Inhabited

/-- a callback member: (owner structure / class, member / field, return kind, argument kinds) -/
structure Callback where
  owner : Name
  field : Name
  ret : Kind
  args : List Kind
  deriving Repr, Inhabited

/-- `clibrebound.f.restype = T` somewhere in the package -/
structure RestypeDecl where
  fn : Name
  site : Name
  kind : Kind
  hint : Nat          -- position of the function's prototype in the table (checked, not trusted)
  deriving Repr, Inhabited

/-- a call `clibrebound.f(args)`: `restype` is the declaration in force at the site (made at import time or
    earlier in the same function), `used` whether the returned value is consumed, argument kinds as far as
    the expression shows them (`.opaque` = not statically known) -/
structure CallSite where
  fn : Name
  site : Name
  used : Bool
  restype : Option Kind
  args : List Kind
  star : Bool
  hint : Nat          -- position of the function's prototype in the table (checked, not trusted)
  deriving Repr, Inhabited

def argsOk (cm : ClassMap) : List Kind → List Kind → Bool
  | [], [] => true
  | c :: cs, p :: ps => kindOk cm c p && argsOk cm cs ps
  | _, _ => false

def nth {α : Type} : Nat → List α → Option α
  | _, [] => none
  | 0, x :: _ => some x
  | i + 1, _ :: r => nth i r

/-- the prototype of function `n`: the generator says where it is, the name is compared here
    (a linear search by name over 320 prototypes for each of 200 rows costs the kernel 25 s and 2 GB) -/
def protoAt (i : Nat) (n : Name) (protos : List Proto) : Option Proto :=
  match nth i protos with
  | some p => if nameEq p.name n then some p else none
  | none => none

def findCallback (o f : Name) : List Callback → Option Callback
  | [] => none
  | c :: r => if nameEq c.owner o && nameEq c.field f then some c else findCallback o f r

/-- the CFUNCTYPE of a callback field has the return kind, the number and the kinds of arguments of the C member it lies over -/
def callbackOk (t : Tables) (ccbs : List Callback) (p : Callback) : Bool :=
  match structOf t.cm p.owner, pairedMember t p.owner p.field with
  | some s, some m =>
    match findCallback s m ccbs with
    | some c => kindOk t.cm c.ret p.ret && argsOk t.cm c.args p.args
    | none => false
  | _, _ => false

/-- what ctypes assumes when no restype is declared: a C `int` -/
def retDefaultOk : Kind → Bool
  | .void => true
  | .int s n => s && n == 4
  | .enm _ s n => s && n == 4
  | _ => false

def declOk (cm : ClassMap) (protos : List Proto) (d : RestypeDecl) : Bool :=
  match protoAt d.hint d.fn protos with
  | some p => kindOk cm p.ret d.kind
  | none => false

def isOpaque : Kind → Bool
  | .opaque _ => true
  | _ => false

/-- an argument as written at a call site against the C parameter: statically unknown expressions pass;
    integers must have the parameter's width (ctypes passes the bits, signedness is the callee's reading) -/
def callArgOk (cm : ClassMap) (c p : Kind) : Bool :=
  isOpaque p || kindOk cm c p ||
  match c, p with
  | .int _ n, .int _ n' => n == n'
  | _, _ => false

def isVariadic : List Kind → Bool
  | [] => false
  | [k] => isOpaque k
  | _ :: r => isVariadic r

def callArgsOk (cm : ClassMap) : List Kind → List Kind → Bool
  | [], [] => true
  | [c], ps => if isOpaque c then true else match ps with
      | [p] => callArgOk cm c p
      | _ => false
  | c :: cs, p :: ps => callArgOk cm c p && callArgsOk cm cs ps
  | _, _ => false

/-- category of a call-site disagreement -/
inductive CallWhy where
  | noProto | restype | noRestype | args
  deriving Repr, Inhabited, DecidableEq

def CallWhy.str : CallWhy → String
  | .noProto => "no-prototype" | .restype => "restype" | .noRestype => "no-restype" | .args => "arguments"

def callWhy (cm : ClassMap) (protos : List Proto) (c : CallSite) : Option CallWhy :=
  match protoAt c.hint c.fn protos with
  | none => some .noProto
  | some p =>
    match c.restype with
    | some r => if !kindOk cm p.ret r then some .restype
                else if c.star || callArgsOk cm p.args c.args then none else some .args
    | none => if c.used && !retDefaultOk p.ret then some .noRestype
              else if c.star || callArgsOk cm p.args c.args then none else some .args

/-- (function, site) of every call that is not sound -/
def badCalls (cm : ClassMap) (protos : List Proto) : List CallSite → List (Name × Name)
  | [] => []
  | c :: r => match callWhy cm protos c with
    | none => badCalls cm protos r
    | some _ => (c.fn, c.site) :: badCalls cm protos r

/-! ### binary field descriptors and binary warnings -/

/-- (type id, dtype, name, offset, offset_N, element_size) -/
abbrev DescrRow := Nat × Int × Name × Nat × Nat × Nat

def descrEq (a b : DescrRow) : Bool :=
  a.1 == b.1 && a.2.1 == b.2.1 && nameEq a.2.2.1 b.2.2.1 && a.2.2.2.1 == b.2.2.2.1 &&
  a.2.2.2.2.1 == b.2.2.2.2.1 && a.2.2.2.2.2 == b.2.2.2.2.2

def descrListEq : List DescrRow → List DescrRow → Bool
  | [], [] => true
  | a :: r, b :: r' => descrEq a b && descrListEq r r'
  | _, _ => false

def lastName : List DescrRow → Name
  | [] => []
  | [a] => a.2.2.1
  | _ :: r => lastName r

def isPrefixName : Name → Name → Bool
  | [], _ => true
  | _ :: _, [] => false
  | a :: p, b :: s => Nat.beq a b && isPrefixName p s

def isInfixName (p : Name) : Name → Bool
  | [] => p.isEmpty
  | c :: s => isPrefixName p (c :: s) || isInfixName p s

def lowerName (n : Name) : Name := n.map lower

/-- a row of BINARY_WARNINGS against the C enumeration of binary error codes: exactly one enumerator has that value;
    it is an `…_ERROR_…` enumerator iff Python treats the code as a major error; the message contains the phrase
    committed for that enumerator -/
def warnOk (es : List (Name × Int)) (kw : List (Name × Name)) (w : Bool × Int × Name) : Bool :=
  match es.filter (fun e => e.2 == w.2.1) with
  | [e] => (isInfixName n!"_ERROR_" e.1 == w.1) && (isInfixName n!"_WARNING_" e.1 == !w.1) &&
           (match lookup e.1 kw with
            | some k => isInfixName k (lowerName w.2.2)
            | none => false)
  | _ => false

/-- the field `p` of kind int can hold the value `v` -/
def representable (k : Kind) (v : Int) : Bool :=
  match k with
  | .int true n => -(2 : Int) ^ (8 * n - 1) ≤ v && v < (2 : Int) ^ (8 * n - 1)
  | .int false n => 0 ≤ v && v < (2 : Int) ^ (8 * n)
  | _ => false

/-- every enumerator of the C enumeration a ctypes field lies over is a value of the ctypes integer type -/
def enumFieldOk (enums : List (Name × Name × Int)) (pr : Field × List Field) : Bool :=
  match pr.2 with
  | [c] => match c.kind with
    | .enm e _ _ => (itemsOf e enums).all (fun it => representable pr.1.kind it.2) && !(itemsOf e enums).isEmpty
    | _ => true
  | _ => true

def classEnumFieldsOk (t : Tables) (enums : List (Name × Name × Int)) (e : Name × Name × Bool) : Bool :=
  match pairUp (fieldsOf e.1 t.py) (fieldsOf e.2.1 t.c) with
  | none => false
  | some (prs, _) => prs.all (enumFieldOk enums)

/-! ### composite option names (a name that stands for a tuple of C fields) -/

/-- (class, property, literal name, [(attribute path the branch assigns, assigned literal or "?")]) -/
abbrev CompositeRow := Name × Name × Name × List (Name × Name)

def pathsOf (r : CompositeRow) : List Name := r.2.2.2.map (·.1)

/-- what the branch assigns to the property itself (`self.integrator = "whfast"`) or to its field (`self._integrator`) -/
def primaryOf (r : CompositeRow) : Option Name :=
  match r.2.2.2.filter (fun s => nameEq s.1 r.2.1 || nameEq s.1 (95 :: r.2.1)) with
  | s :: _ => some s.2
  | [] => none

def optEqName : Option Name → Option Name → Bool
  | some a, some b => nameEq a b
  | none, none => true
  | _, _ => false

def subsetNames (a b : List Name) : Bool := a.all fun x => memName x b

/-- two literal names of the same setter that select the same primary value configure the same set of fields: a name
    whose branch forgets a field that its siblings reset keeps that field's previous value (history dependence) -/
def compositeUniform (rows : List CompositeRow) : Bool :=
  rows.all fun a => rows.all fun b =>
    !(nameEq a.1 b.1 && nameEq a.2.1 b.2.1 && optEqName (primaryOf a) (primaryOf b)) || subsetNames (pathsOf a) (pathsOf b)

/-! ### the option property itself: model of the setter / getter pair (simulation.py:560-730, whfast.py, saba.py, eos.py, trace.py)

    Every named-option property of the package has the same shape:
      setter:  int  -> field := value
               str  -> value' := normalise(value); if value' in DICT: field := DICT[value'] else raise ValueError
               else -> nothing
      getter:  for name, v in DICT.items(): if field == v: return name;  return field
    `SetterSpec` is what differs between them (case folding and the characters the setter strips); it is extracted from
    the setter's AST on every run (RV/Gen/C18Options.lean, `pySetterSpecs`). -/

inductive OptArg where
  | str (s : Name)
  | int (v : Int)
  deriving Repr, Inhabited

structure SetterSpec where
  cls : Name
  prop : Name
  dict : Name
  lowerCase : Bool
  strip : List Nat        -- characters removed by `.replace(c, "")`
  deriving Repr, Inhabited

def memNat (x : Nat) : List Nat → Bool
  | [] => false
  | y :: r => Nat.beq x y || memNat x r

/-- the setter's normalisation of a string argument -/
def normIn (lc : Bool) (strip : List Nat) : Name → Name
  | [] => []
  | c :: r => let c' := if lc then lower c else c
              if memNat c' strip then normIn lc strip r else c' :: normIn lc strip r

def lookupVal (k : Name) : List (Name × Int) → Option Int
  | [] => none
  | (k', v) :: r => if nameEq k' k then some v else lookupVal k r

/-- result of an assignment: the new field value, or `none` for ValueError (field unchanged) -/
def setOpt (lc : Bool) (strip : List Nat) (dict : List (Name × Int)) : OptArg → Option Int
  | .int v => some v
  | .str s => lookupVal (normIn lc strip s) dict

/-- the field after an assignment (unchanged on error) -/
def assign (lc : Bool) (strip : List Nat) (dict : List (Name × Int)) (cur : Int) (a : OptArg) : Int :=
  match setOpt lc strip dict a with
  | some v => v
  | none => cur

/-- the getter: the first name whose value is the field, else the number itself -/
def getOpt (dict : List (Name × Int)) (cur : Int) : Option Name :=
  match dict with
  | [] => none
  | (n, v) :: r => if v == cur then some n else getOpt r cur

/-- a whole history of assignments on one field -/
def assignAll (lc : Bool) (strip : List Nat) (dict : List (Name × Int)) (cur : Int) : List OptArg → Int
  | [] => cur
  | a :: r => assignAll lc strip dict (assign lc strip dict cur a) r

/-- every name of the dictionary is accepted as written and reads back as itself -/
def dictRoundtrips (lc : Bool) (strip : List Nat) (dict : List (Name × Int)) : Bool :=
  dict.all fun e => match setOpt lc strip dict (.str e.1) with
    | some v => v == e.2 && optNameEq (getOpt dict v) e.1
    | none => false

/-! ### attribute stores -/

def fieldNameIn (a : Name) : List Field → Bool
  | [] => false
  | f :: r => nameEq f.name a || fieldNameIn a r

/-- an attribute a method of ctypes class `cls` stores on `self` refers to the C structure (it is a ctypes field of the
    class), goes through a property setter, or is one of the committed Python-only attributes; a `?…` (unresolvable
    setattr) never is -/
def storeOk (py : StructTab) (props only : List (Name × Name)) (r : Triple) : Bool :=
  fieldNameIn r.2.2 (fieldsOf r.1 py) || memPair r.1 r.2.2 props || memPair r.1 r.2.2 only

def badStores (py : StructTab) (props only : List (Name × Name)) : List Triple → List (Name × Name)
  | [] => []
  | r :: rest => if storeOk py props only r then badStores py props only rest
                 else (r.1, r.2.2) :: badStores py props only rest

end RV.Layout
