/-
  C19 — the integration loop / web-server protocol of REBOUND as a labelled transition
  system, transcribed from

    src/rebound.c:794-888   `reb_simulation_integrate_raw`   (integrator thread)
    src/rebound.c:653-735   `reb_check_exit`                 (called OUTSIDE the mutex)
    src/server.c:285-330    `reb_server_start`, `/simulation` request (server thread)

  One mutex (`server_data->mutex`) with an owner, the plain `int need_copy`, and the
  simulation state abstracted to

      boundary n  =  ⟨steps := n, phase := atBoundary⟩     between two steps
      mid n       =  ⟨steps := n, phase := inStep⟩         inside `reb_simulation_step`
                     ⟨steps := n, phase := inAdjust⟩       inside one of the *unlocked* writes
                                                            of `r` (see below)

  What is modelled is the code that exists, in the order it executes:

  integrator, per call of `reb_simulation_integrate`:
      prologue (795-818: `r->dt` sign, `r->dt_last_done = 0`, `r->status`, heartbeat)   — no lock
      loop:  `reb_check_exit` (822)                                                     — no lock
                 which, on the last-step paths (rebound.c:690-705), calls
                 `reb_simulation_synchronize(r)` and then writes `r->dt = tmax - r->t`
             `while (need_copy == 1) usleep(10)` (845-847)
             `pthread_mutex_lock` (851)        `mutex_locked_by_integrate = 1` (853)
             `reb_simulation_step` (857)       heartbeat (858)
             `pthread_mutex_unlock` (872)      `mutex_locked_by_integrate = 0` (874)
      epilogue (880-884: `reb_simulation_synchronize(r)`; `r->dt = last_full_dt`)       — no lock

  server, per `/simulation` request (server.c:320-330):
      `need_copy = 1` → `pthread_mutex_lock` → `reb_simulation_save_to_stream(r,…)`
      → `need_copy = 0` → `pthread_mutex_unlock` → `fwrite` of the private buffer.

  The server may be started at any time (`reb_simulation_start_server`, server.c:691-734, event
  `xStart`): `r->server_data` goes from NULL to non-NULL.  The integrator reads `r->server_data`
  TWICE per iteration, at rebound.c:842 (wait + lock) and again at 868 (unlock): `iSeeSrv b` and
  `iUnlock`/`iSkipUnlock`.  An iteration that read NULL at 842 runs its step without the mutex
  (`ilock = false`); if the server comes up inside such an iteration (`racy`, a history flag that
  influences no transition) the 868 read sees it and the integrator unlocks a mutex it does not
  own (`ub`, undefined behaviour of pthread_mutex_unlock, modelled as an explicit flag; glibc
  releases the mutex).

  The server may also be stopped at any time (`reb_simulation_stop_server`, server.c:736-754, event `xStop`): it
  cancels and joins the server thread (which can only die at a cancellation point: in `accept`/`fgets` or while
  writing the response, i.e. outside the mutex), then `free(r->server_data); r->server_data = NULL` — WITHOUT
  taking the mutex.  The integrator dereferences `r->server_data` after its test at 842 (`need_copy` reads, the
  lock, `mutex_locked_by_integrate = 1` at 875: program points `waitNC, wantLock, postLock`) and after its test at
  896 (unlock, `mutex_locked_by_integrate = 0` at 901: `postUnlock`); a dereference after the free is recorded in
  `memerr` (heap use after free).  A stop inside such an iteration also sets the history flag `racy`.

  Two more pieces of the anchored code are in the model.  (i) Static routes (`/`, `/index.html`, `/rebound.html`,
  `/favicon.ico`, server.c:382-395) answer without touching `r` and without the mutex: observed event `sStatic`.
  (ii) `reb_simulation_output_screenshot` (output.c:273-323), called from a heartbeat inside a locked iteration, RELEASES the
  mutex (`iShotUnlock`: `stepped → shotWait`), waits for the browser's POST `/screenshot` (served under the mutex like a key
  press) and takes the mutex again (`iShotLock`) before the loop continues: the server may serialise while the integrator
  waits there, at a step boundary.

  Mathlib-free; `step` is executable and is what `drv_c19` runs on the traces logged by
  the `LD_PRELOAD` shim from the real library.
-/
namespace RV.Conc

/-! ### simulation state -/

inductive Phase where
  | atBoundary   -- between steps, nobody is writing `r`
  | inStep       -- inside `reb_simulation_step`
  | inAdjust     -- inside an unlocked write of `r` (prologue, `reb_check_exit` last-step path, epilogue)
  deriving DecidableEq, Repr, Inhabited

structure Sim where
  steps : Nat      -- completed calls of `reb_simulation_step`
  adj   : Nat      -- completed unlocked adjustments
  phase : Phase
  deriving DecidableEq, Repr, Inhabited

def boundary (n a : Nat) : Sim := ⟨n, a, .atBoundary⟩
def mid (n a : Nat) : Sim := ⟨n, a, .inStep⟩

/-! ### threads -/

inductive Tid where
  | I   -- the thread inside `reb_simulation_integrate`
  | S   -- the server thread (`reb_server_start`)
  deriving DecidableEq, Repr, Inhabited

/-- program counter of the integrator thread -/
inductive IPc where
  | idle       -- not inside `reb_simulation_integrate`
  | pro        -- prologue rebound.c:795-818 (unlocked writes of dt, dt_last_done, status)
  | chk        -- inside `reb_check_exit` (822), nothing written yet
  | chkAdj     -- inside `reb_check_exit` after it called `reb_simulation_synchronize` (690-705); `r->dt` write pending
  | preLock    -- 842: about to read `r->server_data`
  | waitNC     -- 845: `while (need_copy==1) usleep(10)`
  | wantLock   -- 851: about to call / blocked in `pthread_mutex_lock`
  | postLock   -- 853: lock returned, `r->server_data->mutex_locked_by_integrate = 1` pending
  | locked     -- 853-856: holds the mutex, step not yet started
  | stepping   -- 857: inside `reb_simulation_step`
  | stepped    -- 858-861: around the heartbeat (before / after `reb_run_heartbeat`), still holds the mutex
  | inHb       -- 858: inside `reb_run_heartbeat`: the user callback may modify `r` (masses, add/remove, synchronize)
  | shotWait   -- output.c:281-297: inside the heartbeat, mutex released, waiting for the screenshot to arrive
  | postUnlock -- 872: `pthread_mutex_unlock` returned, `r->server_data->mutex_locked_by_integrate = 0` (874) pending
  | unlocked   -- 874-877: iteration finished
  | epi        -- 880: loop left, epilogue not yet writing
  | epiAdj     -- 880-884: epilogue `reb_simulation_synchronize`, `r->dt = last_full_dt`
  deriving DecidableEq, Repr, Inhabited

/-- program counter of the server thread (one `/simulation` request at a time) -/
inductive SPc where
  | accepting    -- blocked in `accept` / parsing the request: does not touch `r`
  | gotReq       -- server.c:320 uri == "/simulation"
  | ncSet        -- after `data->need_copy = 1` (323)
  | holding      -- after `pthread_mutex_lock` (324)
  | serialising  -- inside `reb_simulation_save_to_stream` (325)
  | serialised   -- returned from it
  | ncClr        -- after `data->need_copy = 0` (326)
  | sending      -- after `pthread_mutex_unlock` (327): `fwrite`, `free` of the private buffer
  deriving DecidableEq, Repr, Inhabited

structure State where
  ipc      : IPc
  spc      : SPc
  owner    : Option Tid     -- owner of `server_data->mutex`
  needCopy : Bool           -- `server_data->need_copy`
  sim      : Sim
  snap     : Option Sim     -- the simulation state read when the current/last serialisation began
  served   : Nat            -- completed serialisations
  srvUp    : Bool           -- `r->server_data != NULL`
  ilock    : Bool           -- the current iteration of the integrator took the mutex (read non-NULL at 842)
  racy     : Bool           -- history: the server was started inside an iteration that had not taken the mutex
  ub       : Bool           -- the integrator has called pthread_mutex_unlock on a mutex it did not own
  memerr   : Bool           -- the integrator has dereferenced `r->server_data` after `reb_simulation_stop_server` freed it
  deriving DecidableEq, Repr, Inhabited

def init : State := ⟨.idle, .accepting, none, false, boundary 0 0, none, 0, false, false, false, false, false⟩

/-! ### events -/

inductive Ev where
  -- integrator
  | iEnter                 -- `reb_simulation_integrate` called: prologue starts
  | iChkBegin              -- `reb_check_exit` entered
  | iChkSync               -- `reb_check_exit` calls `reb_simulation_synchronize` (last-step path)
  | iChkEnd (cont : Bool)  -- `reb_check_exit` returns; `cont` = (return value < 0) = loop body runs
  | iSeeSrv (up : Bool)    -- 842: read `r->server_data` (non-NULL = `up`)                (silent)
  | iSpin                  -- read `need_copy == 1`, `usleep(10)`
  | iSeeNC0                -- read `need_copy == 0`, leave the wait loop           (silent)
  | iLock                  -- `pthread_mutex_lock` returns
  | iSetFlag               -- `r->server_data->mutex_locked_by_integrate = 1`              (silent)
  | iStepBegin             -- `reb_simulation_step` entered
  | iStepEnd               -- `reb_simulation_step` returns
  | iHbBegin               -- `reb_run_heartbeat` entered (the per-step one, rebound.c:888; the prologue's is part of `pro`)
  | iHbEnd                 -- `reb_run_heartbeat` returns
  | iShotUnlock            -- output.c:287 `pthread_mutex_unlock` inside `reb_simulation_output_screenshot` (heartbeat)
  | iShotLock              -- output.c:304 `pthread_mutex_lock` again
  | iUnlock                -- 868: read `r->server_data` non-NULL, `pthread_mutex_unlock`
  | iSkipUnlock            -- 868: read `r->server_data` NULL, no unlock                   (silent)
  | iClrFlag               -- `r->server_data->mutex_locked_by_integrate = 0`              (silent)
  | iEpiSync               -- epilogue calls `reb_simulation_synchronize`
  | iLeave                 -- `reb_simulation_integrate` returns
  -- another thread
  | xStart                 -- `reb_simulation_start_server`: `r->server_data` becomes non-NULL
  | xStop                  -- `reb_simulation_stop_server`: server thread cancelled+joined, `server_data` freed, pointer NULL
  -- server
  | sReq                   -- a `/simulation` request has been parsed                (silent)
  | sSetNC                 -- `need_copy = 1`                                       (silent)
  | sLock                  -- `pthread_mutex_lock` returns
  | sSerBegin              -- `reb_simulation_save_to_stream` entered
  | sSerEnd                -- `reb_simulation_save_to_stream` returns
  | sClrNC                 -- `need_copy = 0`                                       (silent)
  | sUnlock                -- `pthread_mutex_unlock`
  | sStatic                -- a static route (`/`, `/favicon.ico` …) is answered: no access to `r`, no mutex
  | sDrop                  -- the request gets no response at all (`/keyboard/<unknown key>`: `default: break`, server.c:376)  (silent)
  | sSent                  -- the response is written to the socket (`fwrite(reb_server_header…)`, server.c:328)
  deriving DecidableEq, Repr, Inhabited

def Ev.isI : Ev → Bool
  | .iEnter | .iChkBegin | .iChkSync | .iChkEnd _ | .iSeeSrv _ | .iSpin | .iSeeNC0 | .iLock | .iSetFlag
  | .iStepBegin | .iStepEnd | .iHbBegin | .iHbEnd | .iShotUnlock | .iShotLock | .iUnlock | .iSkipUnlock | .iClrFlag | .iEpiSync | .iLeave => true
  | _ => false

/-- events the shim cannot see (plain loads/stores of `need_copy`, socket I/O) -/
def Ev.silent : Ev → Bool
  | .iSeeNC0 | .iSeeSrv _ | .iSkipUnlock | .iSetFlag | .iClrFlag | .sReq | .sSetNC | .sClrNC | .sDrop => true
  | _ => false

/-- an unlocked write of `r` begins (the three places of the code that do it) -/
def Ev.isAdjust : Ev → Bool
  | .iEnter | .iChkSync | .iEpiSync => true
  | _ => false

/-! ### the transition function (`none` = the event is not enabled) -/

def setPhase (m : Sim) (p : Phase) : Sim := { m with phase := p }

def step (s : State) : Ev → Option State
  -- ------------------------------------------------------------------ integrator
  | .iEnter =>
    if s.ipc = .idle then some { s with ipc := .pro, sim := setPhase s.sim .inAdjust } else none
  | .iChkBegin =>
    if s.ipc = .pro then
      some { s with ipc := .chk, sim := { s.sim with phase := .atBoundary, adj := s.sim.adj + 1 } }
    else if s.ipc = .unlocked then some { s with ipc := .chk }
    else none
  | .iChkSync =>
    if s.ipc = .chk then some { s with ipc := .chkAdj, sim := setPhase s.sim .inAdjust } else none
  | .iChkEnd cont =>
    if s.ipc = .chk then some { s with ipc := if cont then .preLock else .epi }
    else if s.ipc = .chkAdj then
      some { s with ipc := if cont then .preLock else .epi,
                    sim := { s.sim with phase := .atBoundary, adj := s.sim.adj + 1 } }
    else none
  | .iSeeSrv up =>
    -- rebound.c:842 `if (r->server_data)`: NULL → straight to the step, without the mutex
    if s.ipc = .preLock ∧ s.srvUp = up then
      some (if up then { s with ipc := .waitNC } else { s with ipc := .locked, ilock := false })
    else none
  | .iSpin =>
    if s.ipc = .waitNC ∧ s.needCopy = true then some s else none
  | .iSeeNC0 =>
    -- reads r->server_data->need_copy: after a stop this is a read of freed memory (calloc'ed: whatever it holds now)
    if s.ipc = .waitNC ∧ s.needCopy = false then some { s with ipc := .wantLock, memerr := s.memerr || !s.srvUp } else none
  | .iLock =>
    if s.ipc = .wantLock ∧ s.owner = none then
      some { s with ipc := .postLock, owner := some .I, ilock := true, memerr := s.memerr || !s.srvUp }
    else none
  | .iSetFlag =>
    if s.ipc = .postLock then some { s with ipc := .locked, memerr := s.memerr || !s.srvUp } else none
  | .iStepBegin =>
    if s.ipc = .locked then some { s with ipc := .stepping, sim := setPhase s.sim .inStep } else none
  | .iStepEnd =>
    if s.ipc = .stepping then
      some { s with ipc := .stepped, sim := { s.sim with phase := .atBoundary, steps := s.sim.steps + 1 } }
    else none
  | .iHbBegin =>
    -- the heartbeat belongs to the critical section of the step: the callback may leave `r` half modified at any moment
    if s.ipc = .stepped then some { s with ipc := .inHb, sim := setPhase s.sim .inStep } else none
  | .iHbEnd =>
    if s.ipc = .inHb then some { s with ipc := .stepped, sim := setPhase s.sim .atBoundary } else none
  | .iShotUnlock =>
    -- only if this iteration holds the mutex (output.c:283 tests mutex_locked_by_integrate); by contract the callback calls
    -- reb_simulation_output_screenshot at a point where the simulation is consistent
    if s.ipc = .inHb ∧ s.ilock = true ∧ s.owner = some .I then
      some { s with ipc := .shotWait, owner := none, sim := setPhase s.sim .atBoundary }
    else none
  | .iShotLock =>
    if s.ipc = .shotWait ∧ s.owner = none then some { s with ipc := .inHb, owner := some .I, sim := setPhase s.sim .inStep } else none
  | .iUnlock =>
    -- rebound.c:868 `if (r->server_data)` read again: non-NULL → pthread_mutex_unlock.  If this iteration never
    -- locked, that is an unlock of a mutex the thread does not own: undefined behaviour, recorded in `ub`
    -- (glibc's default mutex is simply released, whoever held it)
    if s.ipc = .stepped ∧ s.srvUp = true then
      if s.ilock = true ∧ s.owner = some .I then some { s with ipc := .postUnlock, owner := none, ilock := false }
      else if s.ilock = false then some { s with ipc := .postUnlock, owner := none, ub := true }
      else if s.ub = true then some { s with ipc := .postUnlock, owner := none, ilock := false }   -- after UB: no guarantee left
      else none
    else none
  | .iSkipUnlock =>
    if s.ipc = .stepped ∧ s.srvUp = false then some { s with ipc := .unlocked, ilock := false } else none
  | .iClrFlag =>
    if s.ipc = .postUnlock then some { s with ipc := .unlocked, memerr := s.memerr || !s.srvUp } else none
  | .iEpiSync =>
    if s.ipc = .epi then some { s with ipc := .epiAdj, sim := setPhase s.sim .inAdjust } else none
  | .iLeave =>
    if s.ipc = .epiAdj then
      some { s with ipc := .idle, sim := { s.sim with phase := .atBoundary, adj := s.sim.adj + 1 } }
    else none
  -- ------------------------------------------------------------------ server start (any thread, any time, once)
  | .xStart =>
    if s.srvUp = false then
      some { s with srvUp := true,
                    racy := s.racy || (decide (s.ipc = .locked ∨ s.ipc = .stepping ∨ s.ipc = .stepped ∨ s.ipc = .inHb) && !s.ilock) }
    else none
  | .xStop =>
    -- pthread_cancel + pthread_join: the server thread only dies at a cancellation point (accept / socket I/O), never while it
    -- holds the mutex; then free(server_data) and the pointer is cleared — no lock is taken.  The integrator may be anywhere.
    -- (`holding`: the `/screenshot` handler calls printf — a cancellation point — while it holds the mutex, server.c:401-410)
    if s.srvUp = true ∧ (s.spc = .accepting ∨ s.spc = .sending ∨ s.spc = .holding) then
      some { s with srvUp := false, spc := .accepting, owner := none, needCopy := false,
                    racy := s.racy || decide (s.ipc = .waitNC ∨ s.ipc = .wantLock ∨ s.ipc = .postLock ∨ s.ipc = .postUnlock ∨ s.ipc = .shotWait) ||
                            (decide (s.ipc = .locked ∨ s.ipc = .stepping ∨ s.ipc = .stepped ∨ s.ipc = .inHb) && s.ilock) }
    else none
  -- ------------------------------------------------------------------ server
  | .sReq =>
    if s.spc = .accepting ∧ s.srvUp = true then some { s with spc := .gotReq } else none
  | .sSetNC =>
    if s.spc = .gotReq then some { s with spc := .ncSet, needCopy := true } else none
  | .sLock =>
    if s.spc = .ncSet ∧ s.owner = none then some { s with spc := .holding, owner := some .S } else none
  | .sSerBegin =>
    if s.spc = .holding then some { s with spc := .serialising, snap := some s.sim } else none
  | .sSerEnd =>
    if s.spc = .serialising then some { s with spc := .serialised, served := s.served + 1 } else none
  | .sClrNC =>
    -- from `serialised`: the /simulation request.  From `holding`: a /keyboard/<key> request (server.c:331-341: need_copy=1,
    -- lock, key_callback (none), need_copy=0, unlock) — same protocol, nothing serialised; it then writes r->status
    -- outside the mutex (353-357, e.g. the space key resuming a paused simulation), which is not simulation state here
    if s.spc = .serialised then some { s with spc := .ncClr, needCopy := false }
    else if s.spc = .holding then some { s with spc := .ncClr, needCopy := false }
    else none
  | .sUnlock =>
    if s.spc = .ncClr ∧ s.owner = some .S then some { s with spc := .sending, owner := none }
    else if s.spc = .ncClr ∧ s.ub = true then some { s with spc := .sending, owner := none }     -- after UB: no guarantee left
    else none
  | .sStatic =>
    if s.spc = .accepting ∧ s.srvUp = true then some s else none
  | .sDrop =>
    if s.spc = .sending then some { s with spc := .accepting } else none
  | .sSent =>
    if s.spc = .sending then some { s with spc := .accepting } else none

/-- run a list of events; `none` as soon as one is not enabled -/
def run (s : State) : List Ev → Option State
  | [] => some s
  | e :: es => match step s e with
    | none => none
    | some s' => run s' es

/-- `tr` is an execution from the initial state ending in `s` -/
def Exec (tr : List Ev) (s : State) : Prop := run init tr = some s

/-! ### the same integrator without any server (`r->server_data == NULL`) -/

structure Solo where
  ipc : IPc
  sim : Sim
  deriving DecidableEq, Repr, Inhabited

def soloInit : Solo := ⟨.idle, boundary 0 0⟩

/-- the integrator's control flow and its effect on the simulation with every reference to the
server (flag, mutex, need_copy) erased: `iSeeSrv`/`iSeeNC0`/`iLock`/`iUnlock`/`iSkipUnlock` are kept
as pure control-flow steps so that traces compare; a run with `r->server_data == NULL` throughout
is the one that only uses `iSeeSrv false` and `iSkipUnlock` -/
def soloStep (s : Solo) : Ev → Option Solo
  | .iEnter => if s.ipc = .idle then some ⟨.pro, setPhase s.sim .inAdjust⟩ else none
  | .iChkBegin =>
    if s.ipc = .pro then some ⟨.chk, { s.sim with phase := .atBoundary, adj := s.sim.adj + 1 }⟩
    else if s.ipc = .unlocked then some ⟨.chk, s.sim⟩ else none
  | .iChkSync => if s.ipc = .chk then some ⟨.chkAdj, setPhase s.sim .inAdjust⟩ else none
  | .iChkEnd cont =>
    if s.ipc = .chk then some ⟨if cont then .preLock else .epi, s.sim⟩
    else if s.ipc = .chkAdj then
      some ⟨if cont then .preLock else .epi, { s.sim with phase := .atBoundary, adj := s.sim.adj + 1 }⟩
    else none
  | .iSeeSrv up => if s.ipc = .preLock then some ⟨if up then .waitNC else .locked, s.sim⟩ else none
  | .iSeeNC0 => if s.ipc = .waitNC then some ⟨.wantLock, s.sim⟩ else none
  | .iLock => if s.ipc = .wantLock then some ⟨.postLock, s.sim⟩ else none
  | .iSetFlag => if s.ipc = .postLock then some ⟨.locked, s.sim⟩ else none
  | .iStepBegin => if s.ipc = .locked then some ⟨.stepping, setPhase s.sim .inStep⟩ else none
  | .iStepEnd =>
    if s.ipc = .stepping then
      some ⟨.stepped, { s.sim with phase := .atBoundary, steps := s.sim.steps + 1 }⟩ else none
  | .iHbBegin => if s.ipc = .stepped then some ⟨.inHb, setPhase s.sim .inStep⟩ else none
  | .iHbEnd => if s.ipc = .inHb then some ⟨.stepped, setPhase s.sim .atBoundary⟩ else none
  | .iShotUnlock => if s.ipc = .inHb then some ⟨.shotWait, setPhase s.sim .atBoundary⟩ else none
  | .iShotLock => if s.ipc = .shotWait then some ⟨.inHb, setPhase s.sim .inStep⟩ else none
  | .iUnlock => if s.ipc = .stepped then some ⟨.postUnlock, s.sim⟩ else none
  | .iClrFlag => if s.ipc = .postUnlock then some ⟨.unlocked, s.sim⟩ else none
  | .iSkipUnlock => if s.ipc = .stepped then some ⟨.unlocked, s.sim⟩ else none
  | .iEpiSync => if s.ipc = .epi then some ⟨.epiAdj, setPhase s.sim .inAdjust⟩ else none
  | .iLeave =>
    if s.ipc = .epiAdj then some ⟨.idle, { s.sim with phase := .atBoundary, adj := s.sim.adj + 1 }⟩ else none
  | _ => none

def soloRun (s : Solo) : List Ev → Option Solo
  | [] => some s
  | e :: es => match soloStep s e with
    | none => none
    | some s' => soloRun s' es

/-- projection of a trace of the full system onto what the integrator does:
its own events without the `usleep(10)` stutter -/
def projI (tr : List Ev) : List Ev := tr.filter (fun e => e.isI && e != .iSpin)

/-! ### acceptor for observed traces (silent events are guessed: subset construction) -/

/-- an observed event; `nc` is the value of `need_copy` sampled by the shim at the event
(only meaningful for the server's own lock/unlock, where no other thread writes it) -/
structure Obs where
  ev : Ev
  nc : Option Bool
  deriving Repr, Inhabited

def silentEvs : List Ev := [.iSeeNC0, .iSeeSrv true, .iSeeSrv false, .iSkipUnlock, .iSetFlag, .iClrFlag, .sReq, .sSetNC, .sClrNC, .sDrop]

def dedup (l : List State) : List State :=
  l.foldl (fun acc s => if acc.contains s then acc else acc ++ [s]) []

/-- states reachable by at most `fuel` silent events -/
def closure : Nat → List State → List State
  | 0, l => l
  | fuel + 1, l =>
    let nxt := l.flatMap (fun s => silentEvs.filterMap (step s))
    let l' := dedup (l ++ nxt)
    if l'.length = l.length then l else closure fuel l'

def ncOk (s : State) (o : Obs) : Bool :=
  match o.nc with
  | none => true
  | some b => s.needCopy == b

/-- one observed event from a set of candidate states -/
def obsStep (cands : List State) (o : Obs) : List State :=
  dedup ((closure 8 cands).filterMap (fun s => if ncOk s o then step s o.ev else none))

/-- `.ok finals` or `.error index` of the first observed event no candidate state allows -/
def acceptFrom (cands : List State) (i : Nat) : List Obs → Except Nat (List State)
  | [] => .ok cands
  | o :: os =>
    if o.ev.silent then .error i else
    match obsStep cands o with
    | [] => .error i
    | c' => acceptFrom c' (i + 1) os

def accept (tr : List Obs) : Except Nat (List State) := acceptFrom [init] 0 tr

/-! ### product of independent machines over disjoint state -/

/-- a deterministic machine -/
structure Machine where
  σ : Type
  ε : Type
  step : σ → ε → Option σ

def Machine.run (M : Machine) (s : M.σ) : List M.ε → Option M.σ
  | [] => some s
  | e :: es => match M.step s e with
    | none => none
    | some s' => M.run s' es

/-- the protocol machine above as a `Machine` -/
def concMachine : Machine := ⟨State, Ev, step⟩

/-- pointwise update of a state vector -/
def upd {α : Type} (v : Nat → α) (i : Nat) (x : α) : Nat → α := fun j => if j = i then x else v j

/-- product of copies of `M` indexed by `Nat`: component `i` owns its state, an event
`(i, e)` touches component `i` only (this *is* the "no shared mutable state" hypothesis;
`RV.Gen.C19Globals` is the evidence for it) -/
def pstep (M : Machine) (v : Nat → M.σ) (ie : Nat × M.ε) : Option (Nat → M.σ) :=
  match M.step (v ie.1) ie.2 with
  | none => none
  | some x => some (upd v ie.1 x)

def prun (M : Machine) (v : Nat → M.σ) : List (Nat × M.ε) → Option (Nat → M.σ)
  | [] => some v
  | e :: es => match pstep M v e with
    | none => none
    | some v' => prun M v' es

/-- events of machine `i` in an interleaving -/
def proj {ε : Type} (i : Nat) (tr : List (Nat × ε)) : List ε :=
  (tr.filter (fun ie => ie.1 == i)).map Prod.snd

/-- tag a list of events with the machine index -/
def tag {ε : Type} (i : Nat) (es : List ε) : List (Nat × ε) := es.map (fun e => (i, e))

/-- the sequential schedule: all of machine 0, then all of machine 1, … machine `k-1` -/
def seqSched {ε : Type} (tr : List (Nat × ε)) : Nat → List (Nat × ε)
  | 0 => []
  | k + 1 => seqSched tr k ++ tag k (proj k tr)

end RV.Conc
