import RV.Model.Sched
/-
  C01 — one predictor-corrector sweep of `reb_integrator_ias15_step` as exact-rational linear algebra (Mathlib-free).
  Within a step the acceleration is represented as a(s) = a0 + b₀s + b₁s² + … + b₆s⁷ (s = fraction of the step); the sweep
  visits the Gauss–Radau nodes h₁…h₇, forms the divided differences g₀…g₆ of a(hₙ) − a0 with the table `rr`, and updates the
  b's through the table `c` (index arithmetic of the `switch (n)` cases); the old g's come from the old b's through `d`.
-/
namespace RV.C01.Ias

/-- `c[m(m-1)/2 + j]` for `j < m`, 1 for `j = m` (also the layout of `d`) -/
def tri (tab : List Rat) (m j : Nat) : Rat := if j = m then 1 else if j < m then tab.getD (m * (m - 1) / 2 + j) 0 else 0

/-- g from b as at the top of the step: `g_j = Σ_{i ≥ j} b_i · d(i, j)` -/
def gOfB (d : List Rat) (b : List Rat) : List Rat :=
  (List.range 7).map (fun j => sumQ ((List.range 7).map (fun i => b.getD i 0 * tri d i j)))

/-- case n = m+1 of the switch: `g_m = ((…((gk/rr[l] − g₀)/rr[l+1] − g₁)/…) − g_{m-1})/rr[l+m]`, `l = m(m+1)/2` -/
def gNewAux (rr : List Rat) (l : Nat) : List Rat → Nat → Rat → Rat
  | [], _, v => v
  | gi :: gs, i, v => gNewAux rr l gs (i + 1) ((v - gi) / rr.getD (l + 1 + i) 1)

def gNewOne (rr : List Rat) (gsofar : List Rat) (m : Nat) (gk : Rat) : Rat :=
  let l := m * (m + 1) / 2
  gNewAux rr l gsofar 0 (gk / rr.getD l 1)

/-- g₀…g₆ from the seven values `gk_n = a(h_n) − a0` -/
def gNew (rr : List Rat) : List Rat → List Rat → Nat → List Rat
  | [], acc, _ => acc
  | gk :: rest, acc, m => gNew rr rest (acc ++ [gNewOne rr acc m gk]) (m + 1)

/-- one sweep for a force that depends on time only: new b from old b -/
def sweep (rr c d : List Rat) (gks : List Rat) (bOld : List Rat) : List Rat :=
  let gOld := gOfB d bOld
  let gN := gNew rr gks [] 0
  (List.range 7).map (fun j => bOld.getD j 0 +
    sumQ ((List.range 7).map (fun m => (gN.getD m 0 - gOld.getD m 0) * tri c m j)))

/-- `gk_n` for the force `a(s) = F s` -/
def samples (h : List Rat) (F : Rat → Rat) : List Rat := (List.range 7).map (fun n => F (h.getD (n + 1) 0) - F 0)

/-- end-of-step increment in units of dt (velocity) or dt² (position, without the v0·dt term): `w₀·a0 + Σ w_{j+1} b_j` -/
def increment (w : List Rat) (a0 : Rat) (b : List Rat) : Rat :=
  w.getD 0 0 * a0 + sumQ ((List.range 7).map (fun j => w.getD (j + 1) 0 * b.getD j 0))

/-- matrix product of the two triangular tables: `(C·D)(i, j) = Σ_m c(m, j)·d(i, m)` -/
def triProd (c d : List Rat) (i j : Nat) : Rat := sumQ ((List.range 7).map (fun m => tri c m j * tri d i m))
end RV.C01.Ias
