/-
  Field-level model of REBOUND's persistence layer (C05, C17).

  Mirrors, at the level of the *descriptor table* and of *field lists* (id, payload):
    output.c:475-619   reb_simulation_save_to_stream   → `encode`
    input.c:62-230     reb_input_fields                → `decodeFields`, `finish`
    rebound.c:423-437  reb_simulation_copy_with_messages → `copy`
    binarydiff.c:35-51,216-239  equality decision of reb_binary_diff → `compare`
  The byte framing (64-byte header, 16-byte field headers, blob trailer, position walk of
  reb_binary_diff) is the business of the byte-level model (C06/C07); here a stream is the
  list of its fields.

  A simulation is a record of its *members* (raw bytes of every member of struct
  reb_simulation, addressed by the member index of the generated layout
  RV/Gen/C05Descriptors.lean) plus a heap (what each pointer member points to).
  Nothing here is specific to the current table: `encode`/`decodeFields` take the table as
  an argument exactly as the C code is driven by `reb_binary_field_descriptor_list`.
-/
namespace RV.Persist

abbrev Bytes := List UInt8

/-- `enum dtype` of struct reb_binary_field_descriptor (rebound.h) -/
inductive DType where
  | double | int | uint | uint32 | int64 | uint64 | vec3d | particle | pointer | pointerAligned
  | dp7 | other | fieldEnd | notFound | particle4 | pointerFixed
  deriving DecidableEq, Repr, Inhabited

/-- kind of a struct member as the compiler sees it -/
inductive MKind where
  | f64 | i32 | u32 | i64 | u64 | enum32 | vec3d | ptr | fptr | parr | other
  deriving DecidableEq, Repr, Inhabited

structure Member where
  idx : Nat
  kind : MKind
  off : Nat
  size : Nat
  deriving DecidableEq, Repr, Inhabited

/-- one row of reb_binary_field_descriptor_list -/
structure Desc where
  id : Nat
  dtype : DType
  mem : Nat        -- member index of `offset`
  nMem : Nat       -- member index of `offset_N` (pointer / dp7 rows)
  elemSize : Nat
  wall : Bool      -- name starts with "walltime" (binarydiff.c:236)
  cmp : Nat        -- 0: payload compared with memcmp; k+1: member-wise with compare spec k (binarydiff.c:219)
  deriving DecidableEq, Repr, Inhabited

structure EMember where
  kind : MKind
  off : Nat
  size : Nat
  deriving DecidableEq, Repr, Inhabited

structure ElemLayout where
  size : Nat
  members : List EMember
  deriving DecidableEq, Repr, Inhabited

/-- member-wise comparison (reb_particle_diff): the listed members are compared with `!=` -/
structure CmpSpec where
  size : Nat
  members : List EMember
  deriving DecidableEq, Repr, Inhabited

/-- ids found by name / hard coded in the reader and writer, members touched by the post-load fix-ups -/
structure Special where
  endId : Nat
  fpId : Nat          -- id of the descriptor named "functionpointers" (reader)
  fpIdWritten : Nat   -- 87, hard coded in the writer (output.c:608)
  headerId : Nat
  legacyId : Nat      -- 35 (input.c:164)
  legacyMem0 : Nat
  legacyMem1 : Nat
  nMem : Nat
  nAllocMem : Nat
  particlesMem : Nat
  varCfgMem : Nat
  nVarCfgMem : Nat
  recalcMem : Nat
  deriving Repr, Inhabited

/-- size written for a simple dtype (the `switch` of output.c:507-535); `psz` = sizeof(struct reb_particle) -/
def simpleSize (psz : Nat) : DType → Option Nat
  | .double => some 8 | .int => some 4 | .uint => some 4 | .uint32 => some 4
  | .int64 => some 8 | .uint64 => some 8 | .vec3d => some 24
  | .particle => some psz | .particle4 => some (4 * psz)
  | _ => none

/-- little endian -/
def leNat : Bytes → Nat
  | [] => 0
  | b :: r => b.toNat + 256 * leNat r

def encLE : Nat → Nat → Bytes
  | 0, _ => []
  | k + 1, n => UInt8.ofNat (n % 256) :: encLE k (n / 256)

/-- a simulation: raw bytes of each member, and the allocation each pointer member points to (`none` = NULL) -/
structure Sim where
  mem : Nat → Bytes
  heap : Nat → Option Bytes

def Sim.setMem (s : Sim) (m : Nat) (b : Bytes) : Sim :=
  { s with mem := fun i => if i = m then b else s.mem i }
def Sim.setHeap (s : Sim) (m : Nat) (b : Option Bytes) : Sim :=
  { s with heap := fun i => if i = m then b else s.heap i }

abbrev Field := Nat × Bytes

/-- the rows the reader and the writer loop over: up to the first REB_FIELD_END row -/
def live : List Desc → List Desc
  | [] => []
  | d :: r => if d.dtype = .fieldEnd then [] else d :: live r

/-- `*(unsigned int*)((char*)r + offset_N)` -/
def counter (s : Sim) (d : Desc) : Nat := leNat ((s.mem d.nMem).take 4)

def heapBytes (s : Sim) (m : Nat) : Bytes :=
  match s.heap m with
  | some b => b
  | none => []

/-- the seven chunks of a REB_DP7 payload (output.c:581-587) -/
def dp7Payload (s : Sim) (m : Nat) (chunk : Nat) : Bytes :=
  (heapBytes s m).take chunk ++ (heapBytes s (m+1)).take chunk ++ (heapBytes s (m+2)).take chunk ++
  (heapBytes s (m+3)).take chunk ++ (heapBytes s (m+4)).take chunk ++ (heapBytes s (m+5)).take chunk ++
  (heapBytes s (m+6)).take chunk

/-- what the writer emits for one row (output.c:498-590) -/
def encodeField (psz : Nat) (s : Sim) (d : Desc) : List Field :=
  match simpleSize psz d.dtype with
  | some sz => [(d.id, (s.mem d.mem).take sz)]
  | none =>
    match d.dtype with
    | .pointer | .pointerAligned =>
      let size := counter s d * d.elemSize
      if size = 0 then [] else [(d.id, (heapBytes s d.mem).take size)]
    | .pointerFixed =>
      match s.heap d.mem with
      | some b => [(d.id, b.take d.elemSize)]
      | none => []
    | .dp7 =>
      let size := counter s d * d.elemSize
      if size = 0 then [] else [(d.id, dp7Payload s d.mem (size / 7))]
    | _ => []

/-- reb_simulation_save_to_stream at field level: all rows, the function-pointer flag, END.
    `fp` = some callback is set (output.c:594-604). -/
def encode (psz : Nat) (sp : Special) (tbl : List Desc) (s : Sim) (fp : Bool) : List Field :=
  (live tbl).flatMap (encodeField psz s) ++ [(sp.fpIdWritten, encLE 4 (if fp then 1 else 0)), (sp.endId, [])]

inductive Warning where
  | unknownField (id : Nat)          -- REB_SIMULATION_BINARY_WARNING_FIELD_UNKOWN
  | pointers                          -- REB_SIMULATION_BINARY_WARNING_POINTERS
  | inconsistentSize (id : Nat)       -- reb_simulation_warning "Inconsistent size encountered"
  deriving DecidableEq, Repr

def lookup (tbl : List Desc) (id : Nat) : Option Desc := (live tbl).find? (fun d => d.id = id)

/-- `(unsigned int)field.size / element_size` (input.c:118,154): the cast binds tighter than the division -/
def countOf (size elem : Nat) : Nat := (size % 4294967296) / elem

/-- one iteration of the reader loop for a field that is not END (input.c:70-196) -/
def applyField (psz : Nat) (sp : Special) (tbl : List Desc) (st : Sim × List Warning) (f : Field) :
    Sim × List Warning :=
  let s := st.1
  let w := st.2
  let special : Sim × List Warning :=
    if f.1 = sp.legacyId then
      ((s.setMem sp.legacyMem0 (f.2.take 8)).setMem sp.legacyMem1 ((f.2.drop 8).take 8), w)
    else if f.1 = sp.fpId then
      (s, if leNat (f.2.take 4) ≠ 0 then w ++ [.pointers] else w)
    else if f.1 = sp.headerId then (s, w)
    else (s, w ++ [.unknownField f.1])
  match lookup tbl f.1 with
  | none => special
  | some d =>
    match simpleSize psz d.dtype with
    | some _ => (s.setMem d.mem f.2, w)          -- fread(pointer, field.size, 1, inf)
    | none =>
      match d.dtype with
      | .pointer | .pointerAligned =>
        ((s.setHeap d.mem (some f.2)).setMem d.nMem (encLE 4 (countOf f.2.length d.elemSize)),
         if f.2.length % d.elemSize ≠ 0 then w ++ [.inconsistentSize f.1] else w)
      | .pointerFixed =>
        (s.setHeap d.mem (some f.2), if f.2.length ≠ d.elemSize then w ++ [.inconsistentSize f.1] else w)
      | .dp7 =>
        let c := f.2.length / 7
        (((((((((s.setHeap d.mem (some (f.2.take c))).setHeap (d.mem+1) (some ((f.2.drop c).take c))).setHeap
          (d.mem+2) (some ((f.2.drop (2*c)).take c))).setHeap (d.mem+3) (some ((f.2.drop (3*c)).take c))).setHeap
          (d.mem+4) (some ((f.2.drop (4*c)).take c))).setHeap (d.mem+5) (some ((f.2.drop (5*c)).take c))).setHeap
          (d.mem+6) (some ((f.2.drop (6*c)).take c))).setMem d.nMem (encLE 4 (countOf f.2.length d.elemSize))),
         if f.2.length % d.elemSize ≠ 0 then w ++ [.inconsistentSize f.1] else w)
      | _ => special

/-- the reader loop: stops at END (or at the end of the input) -/
def decodeFields (psz : Nat) (sp : Special) (tbl : List Desc) (st : Sim × List Warning) :
    List Field → Sim × List Warning
  | [] => st
  | f :: r => if f.1 = sp.endId then st else decodeFields psz sp tbl (applyField psz sp tbl st f) r

/-! ### pointer-valued slots inside payloads -/

/-- byte offset `o` (within one element) lies in one of the slots -/
def slotHit (slots : List (Nat × Nat)) (o : Nat) : Bool :=
  slots.any (fun p => p.1 ≤ o && o < p.1 + p.2)

/-- overwrite every byte that lies in a slot of its element with `fill byteIndex` -/
def fillSlots (esz : Nat) (slots : List (Nat × Nat)) (fill : Nat → UInt8) (b : Bytes) : Bytes :=
  b.mapIdx (fun i x => if slotHit slots (i % esz) then fill i else x)

def ptrSlots (l : ElemLayout) : List (Nat × Nat) :=
  (l.members.filter (fun m => m.kind = .ptr || m.kind = .fptr)).map (fun m => (m.off, m.size))

/-- bytes of an element not covered by any member (compiler padding) -/
def coveredSlots (l : ElemLayout) : List (Nat × Nat) := l.members.map (fun m => (m.off, m.size))

/-- `k`-th byte of the address `a` stored little endian in an 8 byte slot starting at `o` -/
def addrByte (a : Nat) (slotOff : Nat) (esz : Nat) (i : Nat) : UInt8 :=
  UInt8.ofNat ((a / 256 ^ ((i % esz) - slotOff)) % 256)

/-- post-load fix-ups (input.c:205-229) on the modelled members: `var_config[l].sim = r`,
    `N_allocated = N`, `particles[l].c = ap = NULL`, `particles[l].sim = r`,
    `ri_whfast512.recalculate_constants = 1`.  `self` = address of the loaded simulation,
    `pl`/`vl` = layouts of reb_particle / reb_variational_configuration,
    `pSim`/`vSim` = offset of their `sim` member. -/
def finish (sp : Special) (pl vl : ElemLayout) (pSim vSim : Nat) (self : Nat) (s : Sim) : Sim :=
  let s1 := match s.heap sp.varCfgMem with
    | some b => s.setHeap sp.varCfgMem (some (fillSlots vl.size [(vSim, 8)] (addrByte self vSim vl.size) b))
    | none => s
  let s2 := s1.setMem sp.nAllocMem (s1.mem sp.nMem)
  let s3 := match s2.heap sp.particlesMem with
    | some b => s2.setHeap sp.particlesMem
        (some (fillSlots pl.size [(pSim, 8)] (addrByte self pSim pl.size) (fillSlots pl.size (ptrSlots pl) (fun _ => 0) b)))
    | none => s2
  s3.setMem sp.recalcMem (encLE 4 1)

/-- reb_simulation_copy_with_messages / loading a snapshot: read the saved fields into a fresh simulation -/
def load (psz : Nat) (sp : Special) (tbl : List Desc) (pl vl : ElemLayout) (pSim vSim self : Nat)
    (init : Sim) (fs : List Field) : Sim × List Warning :=
  let r := decodeFields psz sp tbl (init, []) fs
  (finish sp pl vl pSim vSim self r.1, r.2)

def copy (psz : Nat) (sp : Special) (tbl : List Desc) (pl vl : ElemLayout) (pSim vSim self : Nat)
    (init : Sim) (s : Sim) (fp : Bool) : Sim × List Warning :=
  load psz sp tbl pl vl pSim vSim self init (encode psz sp tbl s fp)

/-! ### compare (equality decision of reb_binary_diff) -/

/-- C `a != b` on two IEEE-754 doubles given by their 8 little-endian bytes:
    true if either is a NaN, false if both are zeros (of any sign), else bit inequality -/
def isNaN64 (n : Nat) : Bool := (n / 4503599627370496) % 2048 = 2047 && n % 4503599627370496 ≠ 0
def isZero64 (n : Nat) : Bool := n % 9223372036854775808 = 0
def f64Ne (a b : Bytes) : Bool :=
  let x := leNat a
  let y := leNat b
  if isNaN64 x || isNaN64 y then true
  else if isZero64 x && isZero64 y then false
  else x ≠ y

def slice (b : Bytes) (off size : Nat) : Bytes := (b.drop off).take size

/-- `p1.member != p2.member` for one member of one element -/
def memberNe (m : EMember) (a b : Bytes) : Bool :=
  match m.kind with
  | .f64 => f64Ne (slice a m.off m.size) (slice b m.off m.size)
  | _ => slice a m.off m.size != slice b m.off m.size

/-- reb_particle_diff on the `i`-th element -/
def elemDiffer (c : CmpSpec) (a b : Bytes) (i : Nat) : Bool :=
  c.members.any (fun m => memberNe m (slice a (i * c.size) c.size) (slice b (i * c.size) c.size))

/-- `fields_differ` for two payloads of the same field (binarydiff.c:217-235) -/
def payloadDiffer (specs : List CmpSpec) (d : Option Desc) (a b : Bytes) : Bool :=
  if a.length ≠ b.length then true
  else
    match d with
    | some d =>
      match d.cmp with
      | 0 => a != b
      | k + 1 =>
        match specs[k]? with
        | some c => (List.range (a.length / c.size)).any (elemDiffer c a b)
        | none => a != b
    | none => a != b

def findField (fs : List Field) (id : Nat) : Option Bytes :=
  match fs.find? (fun f => f.1 = id) with
  | some f => some f.2
  | none => none

/-- descriptor used by reb_binary_diff for names: reb_binary_field_descriptor_for_type scans the whole
    table *including* the END row -/
def descForType (tbl : List Desc) (id : Nat) : Option Desc := tbl.find? (fun d => d.id = id)

/-- fields before END -/
def body (sp : Special) : List Field → List Field
  | [] => []
  | f :: r => if f.1 = sp.endId then [] else f :: body sp r

/-- does field `f` of stream 1 make the streams different?  (first loop of reb_binary_diff) -/
def fieldDiffers (specs : List CmpSpec) (tbl : List Desc) (fs2 : List Field) (f : Field) : Bool :=
  match findField fs2 f.1 with
  | none => true                                          -- not in stream 2
  | some p2 =>
    let d := descForType tbl f.1
    payloadDiffer specs d f.2 p2 && !(match d with | some d => d.wall | none => false)

/-- return value of reb_binary_diff on two field lists: 1 = different -/
def compare (sp : Special) (specs : List CmpSpec) (tbl : List Desc) (fs1 fs2 : List Field) : Bool :=
  let b1 := body sp fs1
  let b2 := body sp fs2
  b1.any (fieldDiffers specs tbl b2) || b2.any (fun f => (findField b1 f.1).isNone)

/-! ### the report of reb_binary_diff (output_option 0: the difference stream written into archives) -/

/-- what the first loop of reb_binary_diff (binarydiff.c:154-306) writes for field `f` of stream 1: the header with
    size 0 if stream 2 has no such field (:187-198), header and payload OF STREAM 2 if the payloads differ
    (:262-264; walltime fields included — they are exempt from the return value only), nothing otherwise -/
def reportFirst (specs : List CmpSpec) (tbl : List Desc) (fs2 : List Field) (f : Field) : List Field :=
  match findField fs2 f.1 with
  | none => [(f.1, [])]
  | some p2 => if payloadDiffer specs (descForType tbl f.1) f.2 p2 then [(f.1, p2)] else []

/-- second loop (binarydiff.c:308-394): the fields of stream 2 that stream 1 does not have, in the order of stream 2 -/
def reportSecond (fs1 fs2 : List Field) : List Field :=
  fs2.filter (fun f => (findField fs1 f.1).isNone)

/-- the field list reb_binary_diff writes with output_option 0, in the order of the source -/
def diffReport (sp : Special) (specs : List CmpSpec) (tbl : List Desc) (fs1 fs2 : List Field) : List Field :=
  let b1 := body sp fs1
  let b2 := body sp fs2
  b1.flatMap (reportFirst specs tbl b2) ++ reportSecond b1 b2

/-- the payload for `id` that is in force after reading `fs1` and then `rep` (fields are applied in order, a later
    field of the same id replaces the earlier one: input.c reads an archive snapshot as snapshot 0 + difference) -/
def inForce (fs1 rep : List Field) (id : Nat) : Option Bytes :=
  match findField rep id with
  | some p => some p
  | none => findField fs1 id

/-- reb_simulation_diff -/
def simDiff (psz : Nat) (sp : Special) (specs : List CmpSpec) (tbl : List Desc) (a b : Sim) (fpa fpb : Bool) : Bool :=
  compare sp specs tbl (encode psz sp tbl a fpa) (encode psz sp tbl b fpb)

end RV.Persist
