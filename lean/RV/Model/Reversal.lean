import RV.Scalar
/-
  Models of the time-symmetric fixed-step schemes whose reversal C10 states "to rounding
  error", written over `[Scalar K]` in the operation order of the C source:

  * LEAPFROG  src/integrator_leapfrog.c:36-64  (drift–kick–drift, arbitrary force of the
    positions);
  * SEI       src/integrator_sei.c:46-160      (H012 – phi1 – H012; `sin`/`tan` enter only
    through the four precomputed numbers of `reb_integrator_sei_init`, here produced by two
    abstract functions `sn tn`);
  * abstract palindromic compositions of two exactly invertible flows (WHFast-like
    `kepler` / `interaction` splittings): `RV/Proofs/Reversal.lean`.
-/
namespace RV.Reversal
open RV Scalar
variable {K : Type} [Scalar K]

/-! ## LEAPFROG -/

structure LfP (K : Type) where
  x : V3 K
  v : V3 K
deriving Repr, Inhabited

/-- the literal `0.5` -/
def half : K := Scalar.one / Scalar.ofNat 2

/-- part1: `x += 0.5*dt*vx` -/
def lfDriftP (dt : K) (p : LfP K) : LfP K :=
  { p with x := ⟨p.x.x + half * dt * p.v.x, p.x.y + half * dt * p.v.y, p.x.z + half * dt * p.v.z⟩ }

def lfDrift (dt : K) (s : List (LfP K)) : List (LfP K) := s.map (lfDriftP dt)

/-- `vx += dt*ax` -/
def lfKickP (dt : K) (p : LfP K) (a : V3 K) : LfP K :=
  { p with v := ⟨p.v.x + dt * a.x, p.v.y + dt * a.y, p.v.z + dt * a.z⟩ }

/-- part2, per particle: kick then drift; one acceleration per particle or error -/
def lfPart2 (dt : K) : List (LfP K) → List (V3 K) → Option (List (LfP K))
  | [], [] => some []
  | p :: r, a :: ar =>
    match lfPart2 dt r ar with
    | some r' => some (lfDriftP dt (lfKickP dt p a) :: r')
    | none => none
  | _, _ => none

/-- one LEAPFROG step: part1, force at the drifted positions, part2 -/
def lfStep (acc : List (V3 K) → List (V3 K)) (dt : K) (s : List (LfP K)) : Option (List (LfP K)) :=
  let s1 := lfDrift dt s
  lfPart2 dt s1 (acc (s1.map (·.x)))

def lfSteps (acc : List (V3 K) → List (V3 K)) (dt : K) : Nat → List (LfP K) → Option (List (LfP K))
  | 0, s => some s
  | n + 1, s =>
    match lfStep acc dt s with
    | some s' => lfSteps acc dt n s'
    | none => none

/-! ## SEI -/

/-- `struct reb_integrator_sei` after `reb_integrator_sei_init` -/
structure SeiC (K : Type) where
  omega : K
  omegaZ : K
  sindt : K
  tandt : K
  sindtz : K
  tandtz : K

/-- `reb_integrator_sei_init` with `sin`, `tan` abstract -/
def seiInit (sn tn : K → K) (omega omegaZ dt : K) : SeiC K :=
  { omega := omega, omegaZ := omegaZ,
    sindt := sn (omega * (-dt / Scalar.ofNat 2)),
    tandt := tn (omega * (-dt / Scalar.ofNat 4)),
    sindtz := sn (omegaZ * (-dt / Scalar.ofNat 2)),
    tandtz := tn (omegaZ * (-dt / Scalar.ofNat 4)) }

/-- `operator_H012` -/
def seiH012 (dt : K) (c : SeiC K) (p : LfP K) : LfP K :=
  let two : K := Scalar.ofNat 2
  let four : K := Scalar.ofNat 4
  let zx := p.x.z * c.omegaZ
  let zy := p.v.z
  let zt1 := zx - c.tandtz * zy
  let zyt := c.sindtz * zt1 + zy
  let zxt := zt1 - c.tandtz * zyt
  let aO := two * p.v.y + four * p.x.x * c.omega
  let bO := p.x.y * c.omega - two * p.v.x
  let ys := (p.x.y * c.omega - bO) / two
  let xs := p.x.x * c.omega - aO
  let xst1 := xs - c.tandt * ys
  let yst := c.sindt * xst1 + ys
  let xst := xst1 - c.tandt * yst
  { x := ⟨(xst + aO) / c.omega,
          (yst * two + bO) / c.omega - (Scalar.ofNat 3 / four) * aO * dt,
          zxt / c.omegaZ⟩,
    v := ⟨yst, -xst * two - (Scalar.ofNat 3 / two) * aO, zyt⟩ }

/-- part2 per particle: `operator_phi1` (= leapfrog kick) then `operator_H012` -/
def seiPart2 (dt : K) (c : SeiC K) : List (LfP K) → List (V3 K) → Option (List (LfP K))
  | [], [] => some []
  | p :: r, a :: ar =>
    match seiPart2 dt c r ar with
    | some r' => some (seiH012 dt c (lfKickP dt p a) :: r')
    | none => none
  | _, _ => none

def seiStep (acc : List (V3 K) → List (V3 K)) (dt : K) (c : SeiC K) (s : List (LfP K)) :
    Option (List (LfP K)) :=
  let s1 := s.map (seiH012 dt c)
  seiPart2 dt c s1 (acc (s1.map (·.x)))

/-! ## abstract splittings -/

/-- run a list of (which flow, coefficient) through two flows `A B : C → S → S`
    (`false` = A, `true` = B); WHFast/SABA/EOS steps are such lists with `A` the Kepler (or
    drift) flow and `B` the interaction (kick) flow -/
def splitRun {S C : Type} (A B : C → S → S) : List (Bool × C) → S → S
  | [], s => s
  | (false, c) :: r, s => splitRun A B r (A c s)
  | (true, c) :: r, s => splitRun A B r (B c s)

/-- run a list of primitive operators (any alphabet `O`: Kepler drift, interaction kick, jump step,
    inner drift / inner kick of EOS …) through their maps, in application order -/
def opRun {O S : Type} (φ : O → S → S) : List O → S → S
  | [], s => s
  | o :: r, s => opRun φ r (φ o s)

/-- the WHFast-shaped step (safe mode): half Kepler drift, interaction kick, half Kepler drift -/
def whStep {S C : Type} (kepler inter : C → S → S) (half : C → C) (τ : C) (s : S) : S :=
  kepler (half τ) (inter τ (kepler (half τ) s))

/-! ### unsynchronised stepping (`safe_mode = 0`): integrator_whfast.c part1 ("Combined DRIFT step" when a half step is
    pending, first half drift otherwise), part2 (kick, `is_synchronized = 0`), `reb_integrator_whfast_synchronize` (the
    pending half drift with the current `r->dt`, whichever public call asks for it: `reb_simulation_synchronize` or
    `reb_simulation_integrate` with nothing left to integrate) -/

structure Pend (S : Type) where
  x : S
  /-- `!is_synchronized`: the closing half drift of the last step has not been done yet -/
  pending : Bool

def uStep {S C : Type} (kepler inter : C → S → S) (half : C → C) (τ : C) (u : Pend S) : Pend S :=
  ⟨inter τ (if u.pending then kepler τ u.x else kepler (half τ) u.x), true⟩

def uSync {S C : Type} (kepler : C → S → S) (half : C → C) (τ : C) (u : Pend S) : Pend S :=
  if u.pending then ⟨kepler (half τ) u.x, false⟩ else u

/-- n applications -/
def iter {S : Type} (f : S → S) : Nat → S → S
  | 0, s => s
  | n + 1, s => iter f n (f s)

end RV.Reversal
