import RV.Scalar
/-
  Model of the oct-tree of src/tree.c (C15): `reb_tree_add_particle_to_cell`,
  `reb_reb_tree_get_octant_for_particle_in_cell`, `reb_tree_particle_is_inside_cell`,
  `reb_simulation_update_tree_gravity_data_in_cell`, the walk of
  `reb_calculate_acceleration_for_particle_from_cell` (gravity.c), and a functional
  version of `reb_simulation_update_tree_cell` (sweep + derefinement + re-insertion).

  A cell is `nil` (NULL pointer), a leaf (`pt >= 0`: particle index) or an inner node
  (`pt < 0`: minus the number of particles below; eight children `oct[o]`).
  The particle array is a function `ps : Nat → Pt K` (index ↦ position and mass).
-/
namespace RV.Tree
open RV

/-- the particle fields the tree code reads -/
structure Pt (K : Type) where
  x : K
  y : K
  z : K
  m : K
deriving Inhabited

/-- geometry of a cell: centre and width (`x,y,z,w` of `struct reb_treecell`) -/
structure Cell (K : Type) where
  x : K
  y : K
  z : K
  w : K
deriving Inhabited

/-- `m,mx,my,mz` of `struct reb_treecell` -/
structure Grav (K : Type) where
  m : K
  mx : K
  my : K
  mz : K
deriving Inhabited

inductive T (K : Type) where
  | nil : T K
  | leaf (c : Cell K) (g : Grav K) (pt : Nat) : T K
  | node (c : Cell K) (g : Grav K) (pt : Int) (ch : Fin 8 → T K) : T K

instance {K : Type} : Inhabited (T K) := ⟨T.nil⟩

/-- evaluate the eight children once (closures would re-evaluate on every access) -/
@[macro_inline] def memo {α : Type} (f : Fin 8 → α) : Fin 8 → α :=
  let v := Vector.ofFn f
  fun o => v[o]

@[simp] theorem memo_eq {α : Type} (f : Fin 8 → α) : memo f = f := by
  funext o; simp [memo]

/-- `node->oct[o] = t` -/
@[macro_inline] def setCh {α : Type} (ch : Fin 8 → α) (o : Fin 8) (t : α) : Fin 8 → α :=
  memo fun i => if i = o then t else ch i

/-- octant index from the three comparison bits -/
def octOf (bx bY bz : Bool) : Fin 8 :=
  match bx, bY, bz with
  | false, false, false => 0
  | true,  false, false => 1
  | false, true,  false => 2
  | true,  true,  false => 3
  | false, false, true  => 4
  | true,  false, true  => 5
  | false, true,  true  => 6
  | true,  true,  true  => 7

/-- `(o>>k)%2==0` -/
def bitClear (o : Fin 8) (k : Nat) : Bool := (o.val >>> k) % 2 == 0

inductive Err where
  | coincident   -- "Cannot add two particles with the same coordinates to the tree."
  | fuel         -- refinement did not stop within the given depth
deriving Repr, DecidableEq

section generic
variable {K : Type} [ScalarO K]

def zeroGrav : Grav K := ⟨Scalar.zero, Scalar.zero, Scalar.zero, Scalar.zero⟩

/-- `if (p.x < node->x) octant+=1; if (p.y < node->y) octant+=2; if (p.z < node->z) octant+=4;` -/
def octant (p : Pt K) (c : Cell K) : Fin 8 :=
  octOf (ScalarO.lt p.x c.x) (ScalarO.lt p.y c.y) (ScalarO.lt p.z c.z)

/-- geometry of a new non-root node (tree.c:94-97) -/
def childCell (c : Cell K) (o : Fin 8) : Cell K :=
  let w : K := c.w / Scalar.ofNat 2
  let s (k : Nat) : K := if bitClear o k then Scalar.one else Scalar.neg Scalar.one
  { w := w
    x := c.x + w / Scalar.ofNat 2 * s 0
    y := c.y + w / Scalar.ofNat 2 * s 1
    z := c.z + w / Scalar.ofNat 2 * s 2 }

/-- `fabs` as far as the comparisons below can see it -/
def absO (a : K) : K := if ScalarO.lt a Scalar.zero then Scalar.neg a else a

/-- `reb_tree_particle_is_inside_cell` (closed cell; a NaN-flagged `y` is never inside) -/
def inside (p : Pt K) (c : Cell K) : Bool :=
  !(ScalarO.lt (c.w / Scalar.ofNat 2) (absO (p.x - c.x)) ||
    ScalarO.lt (c.w / Scalar.ofNat 2) (absO (p.y - c.y)) ||
    ScalarO.lt (c.w / Scalar.ofNat 2) (absO (p.z - c.z)) ||
    !(ScalarO.le p.y p.y))

/-- `particles[pt].x == particles[node->pt].x && ...` -/
def samePos (p q : Pt K) : Bool :=
  (ScalarO.le p.x q.x && ScalarO.le q.x p.x) && (ScalarO.le p.y q.y && ScalarO.le q.y p.y) &&
  (ScalarO.le p.z q.z && ScalarO.le q.z p.z)

/-- `reb_tree_add_particle_to_cell(r, node, pt, parent, o)`; `c` is the geometry a new node
    gets when `node == NULL` (root: from the root box; else `childCell parent o`).
    Fuel bounds the refinement depth. -/
def add (ps : Nat → Pt K) : Nat → T K → Cell K → Nat → Except Err (T K)
  | _, .nil, c, pt => .ok (.leaf c zeroGrav pt)
  | 0, _, _, _ => .error .fuel
  | f+1, .leaf c g q, _, pt =>
      let o1 := octant (ps q) c
      let o2 := octant (ps pt) c
      if o1 = o2 ∧ samePos (ps pt) (ps q) = true then .error .coincident
      else do
        let t1 ← add ps f .nil (childCell c o1) q
        let ch1 := setCh (fun _ => T.nil) o1 t1
        let t2 ← add ps f (ch1 o2) (childCell c o2) pt
        .ok (.node c g (-2) (setCh ch1 o2 t2))
  | f+1, .node c g n ch, _, pt =>
      let o := octant (ps pt) c
      do
        let t ← add ps f (ch o) (childCell c o) pt
        .ok (.node c g (n - 1) (setCh ch o t))

/-- fresh construction of the tree of one root cell `c`: particles `0..n-1` in index order
    (`reb_tree_add_particle_to_tree` called by `reb_simulation_add` for each new particle) -/
def build (ps : Nat → Pt K) (fuel : Nat) (c : Cell K) (n : Nat) : Except Err (T K) :=
  (List.range n).foldlM (fun t pt => add ps fuel t c pt) T.nil

/-- particle indices stored in the leaves, in pre-order (octants 0..7) -/
def leaves : T K → List Nat
  | .nil => []
  | .leaf _ _ q => [q]
  | .node _ _ _ ch => (List.finRange 8).flatMap fun o => leaves (ch o)

def grav : T K → Grav K
  | .nil => zeroGrav
  | .leaf _ g _ => g
  | .node _ g _ _ => g

def isNil : T K → Bool
  | .nil => true
  | _ => false

/-- `reb_simulation_update_tree_gravity_data_in_cell` (no QUADRUPOLE) -/
def updGrav (ps : Nat → Pt K) : T K → T K
  | .nil => .nil
  | .leaf c _ q => .leaf c ⟨(ps q).m, (ps q).x, (ps q).y, (ps q).z⟩ q
  | .node c _ n ch =>
      let ch' := memo fun o => updGrav ps (ch o)
      let acc : Grav K := Fin.foldl 8 (fun (a : Grav K) o =>
        if isNil (ch' o) then a else
          let d := grav (ch' o)
          { mx := a.mx + d.mx * d.m, my := a.my + d.my * d.m, mz := a.mz + d.mz * d.m,
            m := a.m + d.m }) zeroGrav
      let g : Grav K := if ScalarO.lt Scalar.zero acc.m then
          { m := acc.m, mx := acc.mx / acc.m, my := acc.my / acc.m, mz := acc.mz / acc.m }
        else acc
      .node c g n ch'

/-- what the gravity walk does at a cell -/
inductive Visit (K : Type) where
  | leaf (pt : Nat) (g : Grav K)   -- direct interaction with the particle of a leaf
  | cell (g : Grav K)              -- monopole of an unopened cell

/-- the tree walk of `reb_calculate_acceleration_for_particle_from_cell` for particle `pt`
    at (ghost-shifted) position `gx gy gz`, opening criterion `w*w > opening_angle2*r2`;
    returns the sequence of interactions instead of summing forces. -/
def walk (theta2 gx gy gz : K) (pt : Nat) : T K → List (Visit K)
  | .nil => []
  | .leaf _ g q => if q = pt then [] else [.leaf q g]
  | .node c g _ ch =>
      let dx := gx - g.mx
      let dy := gy - g.my
      let dz := gz - g.mz
      let r2 := dx*dx + dy*dy + dz*dz
      if ScalarO.lt (theta2 * r2) (c.w * c.w) then
        (List.finRange 8).flatMap fun o => walk theta2 gx gy gz pt (ch o)
      else [.cell g]

/-! ### tree gravity: the force sum of `reb_calculate_acceleration_for_particle_from_cell` (gravity.c, no QUADRUPOLE) -/

/-- `particles[pt].ax, ay, az` -/
structure Acc (K : Type) where
  ax : K
  ay : K
  az : K

/-- `_r = sqrt(r2 + softening2); prefact = -G/(_r*_r*_r)*node->m; a += prefact*d` — the same three lines serve a leaf and an
    unopened cell; `sqrt` is a parameter (libm on doubles, any function in the theorems) -/
def addForce (sqrt : K → K) (G soft2 : K) (a : Acc K) (dx dy dz r2 m : K) : Acc K :=
  let r := sqrt (r2 + soft2)
  let prefact := Scalar.neg G / (r * r * r) * m
  { ax := a.ax + prefact * dx, ay := a.ay + prefact * dy, az := a.az + prefact * dz }

/-- the walk for particle `pt` at (ghost-shifted) position `gx gy gz`, accumulating into `a`:
    `dx = gb.x - node->mx; ...; r2 = dx*dx + dy*dy + dz*dz;` inner node: open when `w*w > opening_angle2*r2`
    (children 0..7), else monopole; leaf: skipped when it is the particle's own, else direct term -/
def accCell (sqrt : K → K) (G soft2 theta2 gx gy gz : K) (pt : Nat) : T K → Acc K → Acc K
  | .nil, a => a
  | .leaf _ g q, a =>
      let dx := gx - g.mx
      let dy := gy - g.my
      let dz := gz - g.mz
      let r2 := dx*dx + dy*dy + dz*dz
      if q = pt then a else addForce sqrt G soft2 a dx dy dz r2 g.m
  | .node c g _ ch, a =>
      let dx := gx - g.mx
      let dy := gy - g.my
      let dz := gz - g.mz
      let r2 := dx*dx + dy*dy + dz*dz
      if ScalarO.lt (theta2 * r2) (c.w * c.w) then
        (List.finRange 8).foldl (fun a o => accCell sqrt G soft2 theta2 gx gy gz pt (ch o) a) a
      else addForce sqrt G soft2 a dx dy dz r2 g.m

/-- `reb_calculate_acceleration_for_particle`: all root boxes in index order, starting from zero -/
def accForest (sqrt : K → K) (G soft2 theta2 : K) (p : Pt K) (pt : Nat) (forest : List (T K)) : Acc K :=
  forest.foldl (fun a t => accCell sqrt G soft2 theta2 p.x p.y p.z pt t a) ⟨Scalar.zero, Scalar.zero, Scalar.zero⟩

/-- the direct pair term the walk must reproduce for particle `q` (position and mass from the particle array) -/
def pairForce (sqrt : K → K) (G soft2 gx gy gz : K) (ps : Nat → Pt K) (a : Acc K) (q : Nat) : Acc K :=
  let dx := gx - (ps q).x
  let dy := gy - (ps q).y
  let dz := gz - (ps q).z
  addForce sqrt G soft2 a dx dy dz (dx*dx + dy*dy + dz*dz) (ps q).m

/-! ### functional tree update: sweep (evict + derefine + recount), then re-insert -/

/-- number of particles a child contributes to `node->pt` in the recount loop -/
def cnt : T K → Int
  | .nil => 0
  | .leaf _ _ _ => 1
  | .node _ _ n _ => -n

/-- the first leaf child (C: the last one seen, `test = o`; with count 1 there is only one) -/
def onlyLeaf (ch : Fin 8 → T K) : Option Nat :=
  (List.finRange 8).foldl (fun acc o => match ch o with
    | .leaf _ _ q => some q
    | _ => acc) none

/-- the second half of `reb_simulation_update_tree_cell` for an inner node, after its children were updated:
    recount `node->pt`, free the node when empty, turn it into a leaf when one particle is left -/
def rebuild (c : Cell K) (g : Grav K) (ch' : Fin 8 → T K) : T K :=
  let n : Int := Fin.foldl 8 (fun (a : Int) o => a - cnt (ch' o)) 0
  if n = 0 then .nil
  else if n = -1 then
    match onlyLeaf ch' with
    | some q => .leaf c g q
    | none => .node c g n ch'   -- unreachable when children are well formed
  else .node c g n ch'

/-- `reb_simulation_update_tree_cell` without the particle-array side effects: leaves whose
    particle is not inside are dropped and reported; inner nodes recount and derefine. -/
def sweep (ps : Nat → Pt K) : T K → T K × List Nat
  | .nil => (.nil, [])
  | .leaf c g q => if inside (ps q) c then (.leaf c g q, []) else (.nil, [q])
  | .node c g _ ch =>
      let r := memo fun o => sweep ps (ch o)
      (rebuild c g (fun o => (r o).1), (List.finRange 8).flatMap fun o => (r o).2)

/-- renumber the particle indices stored in the leaves -/
def relabel (f : Nat → Nat) : T K → T K
  | .nil => .nil
  | .leaf c g q => .leaf c g (f q)
  | .node c g n ch => .node c g n (memo fun o => relabel f (ch o))

/-- re-insertion of the evicted particles (`reb_simulation_add(r, reinsertme)`), except those flagged
    for removal (`isnan(reinsertme.y)`) -/
def reinsert (ps : Nat → Pt K) (fuel : Nat) (c : Cell K) (t : T K) (ev : List Nat) : Except Err (T K) :=
  ev.foldlM (fun t q => if ScalarO.le (ps q).y (ps q).y then add ps fuel t c q else .ok t) t

/-- `reb_simulation_update_tree` for one root cell whose particles stay inside it, without the particle array:
    sweep, then re-insert — the order of operations of the repaired code (fixes/C15-N1: evicted particles are
    buffered and re-added after the walk).  The version with the particle array, swap-with-last renumbering and
    several root boxes is `RV.TreeArr.updateA`. -/
def update (ps : Nat → Pt K) (fuel : Nat) (c : Cell K) (t : T K) : Except Err (T K) :=
  let r := sweep ps t
  reinsert ps fuel c r.1 r.2

end generic
end RV.Tree
