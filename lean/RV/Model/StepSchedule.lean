/-
  Where the boundary check and the tree update are scheduled inside one `reb_simulation_step` (rebound.c:98-129,156-164)
  and at the end of `reb_collision_search` (collision.c), abstracted to what matters for "no particle flagged for
  removal and no particle outside the box is left in the particle array at the end of a step".

  The list of calls with their guards is NOT written here: it is extracted from the C source by rv/extract_c15.py
  into RV/Gen/C15Schedule.lean on every run; this file gives the calls their meaning on an abstract state.
-/
namespace RV.StepSchedule

inductive Atom where
  | needsUpdate    -- r->tree_needs_update
  | gravTree       -- r->gravity == REB_GRAVITY_TREE
  | collTree       -- r->collision == REB_COLLISION_TREE
  | collLineTree   -- r->collision == REB_COLLISION_LINETREE
  | hasTree        -- r->tree_root != NULL
  | collFlagged    -- tree_particles_flagged (local of reb_collision_search)
deriving DecidableEq, Repr

inductive Guard where
  | tt
  | atom (a : Atom)
  | and (a b : Guard)
  | or (a b : Guard)
deriving Repr

inductive Call where
  | part1 | boundaryCheck | updateTree | gravityData | acceleration | part2 | collisionSearch
deriving DecidableEq, Repr

inductive Boundary where
  | none | open_ | periodic | shear
deriving DecidableEq, Repr

inductive Coll where
  | none | direct | line | tree | linetree
deriving DecidableEq, Repr

structure Cfg where
  gravTree : Bool
  coll : Coll
  boundary : Boundary
deriving Repr

/-- a tree exists as soon as particles were added under a tree-based gravity or collision module -/
def Cfg.hasTree (c : Cfg) : Bool := c.gravTree || c.coll == .tree || c.coll == .linetree

/-- what may happen during the step: particles leave the box in either drift, the resolver removes a particle -/
structure Ev where
  out1 : Bool
  out2 : Bool
  collRemoves : Bool

structure St where
  flagged : Bool       -- a particle flagged for removal (y = NaN) is in the particle array
  outside : Bool       -- a (non-flagged) particle is outside the box
  needsUpdate : Bool   -- r->tree_needs_update
  collFlagged : Bool
deriving Repr, DecidableEq

def evalAtom (c : Cfg) (s : St) : Atom → Bool
  | .needsUpdate => s.needsUpdate
  | .gravTree => c.gravTree
  | .collTree => c.coll == .tree
  | .collLineTree => c.coll == .linetree
  | .hasTree => c.hasTree
  | .collFlagged => s.collFlagged

def evalGuard (c : Cfg) (s : St) : Guard → Bool
  | .tt => true
  | .atom a => evalAtom c s a
  | .and a b => evalGuard c s a && evalGuard c s b
  | .or a b => evalGuard c s a || evalGuard c s b

/-- `reb_boundary_check`: periodic/shear wrap; open removes — or, when a tree exists, only flags and asks for an update -/
def boundaryCheck (c : Cfg) (s : St) : St :=
  match c.boundary with
  | .none => s
  | .periodic | .shear => { s with outside := false }
  | .open_ =>
    if s.outside then
      if c.hasTree then { s with outside := false, flagged := true, needsUpdate := true }
      else { s with outside := false }
    else s

/-- `reb_simulation_update_tree`: flagged particles leave the array -/
def updateTree (s : St) : St := { s with flagged := false, needsUpdate := false }

def runCalls (c : Cfg) (e : Ev) (treeFirst lineFirst : Bool) (searchEnd : List (Call × Guard)) :
    List (Call × Guard) → St → St
  | [], s => s
  | (call, g) :: rest, s =>
    let s' :=
      if evalGuard c s g then
        match call with
        | .part1 => { s with outside := s.outside || e.out1 }
        | .part2 => { s with outside := s.outside || e.out2 }
        | .boundaryCheck => boundaryCheck c s
        | .updateTree => updateTree s
        | .gravityData => s
        | .acceleration => s
        | .collisionSearch =>
          let s1 := if (c.coll == .tree && treeFirst) || (c.coll == .linetree && lineFirst) then updateTree s else s
          -- `reb_simulation_remove_particle` only flags when a tree exists, whatever the collision search is
          let s2 := if c.coll != .none && e.collRemoves then
              (if c.hasTree then { s1 with flagged := true, collFlagged := true } else s1) else s1
          -- the clean-up calls at the end of the search (no nested search there)
          searchEnd.foldl (fun st cg =>
            if evalGuard c st cg.2 then
              match cg.1 with
              | .boundaryCheck => boundaryCheck c st
              | .updateTree => updateTree st
              | _ => st
            else st) s2
      else s
    runCalls c e treeFirst lineFirst searchEnd rest s'

end RV.StepSchedule
