import RV.Model.Diag
/-
  `reb_whfast_jump_step` (integrator_whfast.c:441-498, democratic heliocentric and WHDS cases; Jacobi and
  barycentric: nothing to do) and `reb_whfast_com_step` (:547-552) on the array `ri_whfast.p_jh`.

  An entry of the array is a `Part`: `m` = `r->particles[i].m` (the C code reads the masses from the
  particle array), `x`, `v` = `p_jh[i].x…`, `p_jh[i].vx…`.  Slot 0 holds the centre of mass.
  `nAct` = `N_active` as the routine computes it (`N_real` when `N_active == -1` or `testparticle_type == 1`),
  `nReal` = `N - N_var`.  The second loops are `omp parallel for` over independent slots: modelled per slot.
-/
namespace RV.WHJump
open RV Scalar RV.Gravity RV.Diag
variable {K : Type} [Scalar K]

/-- DH: `for(i=1;i<N_active;i++){ px += m * p_h[i].vx; … }` -/
def dhMom (nAct : Nat) (ph : Array (Part K)) : V3 K :=
  forRange 1 nAct (V3.zero : V3 K) fun p i =>
    match ph[i]? with
    | some q => ⟨p.x + q.m * q.v.x, p.y + q.m * q.v.y, p.z + q.m * q.v.z⟩
    | none => p

/-- DH: `for(i=1;i<N_real;i++){ p_h[i].x += _dt * (px/m0); … }` -/
def jumpDH (dt : K) (nAct nReal : Nat) (ph : Array (Part K)) : Array (Part K) :=
  let p := dhMom nAct ph
  let m0 := match ph[0]? with
    | some q => q.m
    | none => Scalar.zero
  ph.mapIdx fun i q =>
    if 1 ≤ i ∧ i < nReal then
      { q with x := ⟨q.x.x + dt * (p.x / m0), q.x.y + dt * (p.y / m0), q.x.z + dt * (p.z / m0)⟩ }
    else q

/-- WHDS: `px += m * p_h[i].vx / (m0+m)` -/
def whdsMom (nAct : Nat) (ph : Array (Part K)) (m0 : K) : V3 K :=
  forRange 1 nAct (V3.zero : V3 K) fun p i =>
    match ph[i]? with
    | some q => ⟨p.x + q.m * q.v.x / (m0 + q.m), p.y + q.m * q.v.y / (m0 + q.m), p.z + q.m * q.v.z / (m0 + q.m)⟩
    | none => p

/-- WHDS: massive bodies `x += _dt * (px - (m * vx / (m0+m)))`, test particles `x += _dt * px` -/
def jumpWHDS (dt : K) (nAct nReal : Nat) (ph : Array (Part K)) : Array (Part K) :=
  let m0 := match ph[0]? with
    | some q => q.m
    | none => Scalar.zero
  let p := whdsMom nAct ph m0
  ph.mapIdx fun i q =>
    if 1 ≤ i ∧ i < nAct then
      { q with x := ⟨q.x.x + dt * (p.x - (q.m * q.v.x / (m0 + q.m))), q.x.y + dt * (p.y - (q.m * q.v.y / (m0 + q.m))),
                     q.x.z + dt * (p.z - (q.m * q.v.z / (m0 + q.m)))⟩ }
    else if nAct ≤ i ∧ i < nReal then
      { q with x := ⟨q.x.x + dt * p.x, q.x.y + dt * p.y, q.x.z + dt * p.z⟩ }
    else q

/-- `reb_whfast_com_step`: `p_j[0].x += _dt*p_j[0].vx; …` -/
def comStep (dt : K) (ph : Array (Part K)) : Array (Part K) :=
  ph.modify 0 fun q => { q with x := ⟨q.x.x + dt * q.v.x, q.x.y + dt * q.v.y, q.x.z + dt * q.v.z⟩ }

end RV.WHJump
