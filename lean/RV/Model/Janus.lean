import RV.Scalar
/-
  Model of src/integrator_janus.c:115-258 (JANUS, Rein & Tamayo 2018).

  * the integer grid coordinates `struct reb_particle_int` are `BitVec 64`: the compiled
    `+=` on `int64_t` is two's-complement addition (signed overflow is undefined in C;
    gcc emits a plain `add`), a group, so wrap-around keeps every map invertible;
  * `double` is an abstract type `F` with exactly the operations the C code uses
    (`JFloat`): no laws here.  The `Float` instance (RV/Driver/C10.lean) is bit-identical
    to the compiled code; the sign-symmetry laws of IEEE-754 are hypotheses of the
    theorems (`JLaws`, RV/Proofs/Janus.lean);
  * the C cast `(int64_t)double` is `truncToInt : F → Option (BitVec 64)`; `none` stands
    for a value outside the range of `int64_t` (undefined behaviour in C).  Every map
    that meets `none` is an error (`none`), nothing is totalised away;
  * the force is an arbitrary function `acc` of the positions *as doubles derived from
    the grid* (`to_double` is always called before `reb_simulation_update_acceleration`).

  Operation order follows the C source.
-/
namespace RV.Janus
open RV

abbrev I64 := BitVec 64

/-- the operations on `double` used by integrator_janus.c -/
class JFloat (F : Type) where
  add : F → F → F
  mul : F → F → F
  div : F → F → F
  neg : F → F
  /-- the literal `2.` -/
  two : F
  /-- `(double)i` for `int64_t i` -/
  ofInt : I64 → F
  /-- `(int64_t)a`; `none` = out of range (UB in C) -/
  truncToInt : F → Option I64

open JFloat

/-- `struct reb_particle_int` -/
structure PInt where
  x : I64
  y : I64
  z : I64
  vx : I64
  vy : I64
  vz : I64
deriving Repr, BEq, DecidableEq, Inhabited

/-- the six phase-space doubles of a `struct reb_particle` -/
structure PDbl (F : Type) where
  x : F
  y : F
  z : F
  vx : F
  vy : F
  vz : F
deriving Repr, Inhabited

/-- what is constant during an integration: the two grid scales and the force law -/
structure Cfg (F : Type) where
  scalePos : F
  scaleVel : F
  /-- `reb_simulation_update_acceleration`: positions ↦ accelerations (masses, G, … inside) -/
  acc : List (V3 F) → List (V3 F)

variable {F : Type} [JFloat F]

/-! ### to_int / to_double  (integrator_janus.c:124-143) -/

def toIntP (sp sv : F) (p : PDbl F) : Option PInt :=
  match truncToInt (div p.x sp), truncToInt (div p.y sp), truncToInt (div p.z sp),
        truncToInt (div p.vx sv), truncToInt (div p.vy sv), truncToInt (div p.vz sv) with
  | some x, some y, some z, some vx, some vy, some vz => some ⟨x, y, z, vx, vy, vz⟩
  | _, _, _, _, _, _ => none

def toInt (sp sv : F) : List (PDbl F) → Option (List PInt)
  | [] => some []
  | p :: r =>
    match toIntP sp sv p, toInt sp sv r with
    | some p', some r' => some (p' :: r')
    | _, _ => none

def toDoubleP (sp sv : F) (p : PInt) : PDbl F :=
  ⟨mul (ofInt p.x) sp, mul (ofInt p.y) sp, mul (ofInt p.z) sp,
   mul (ofInt p.vx) sv, mul (ofInt p.vy) sv, mul (ofInt p.vz) sv⟩

def toDouble (sp sv : F) (s : List PInt) : List (PDbl F) := s.map (toDoubleP sp sv)

/-- the positions the force routine sees after `to_double` -/
def positions (sp : F) (s : List PInt) : List (V3 F) :=
  s.map (fun p => ⟨mul (ofInt p.x) sp, mul (ofInt p.y) sp, mul (ofInt p.z) sp⟩)

/-! ### drift  (integrator_janus.c:145-153)
    `p_int.x += (int64_t)(dt*(double)p_int.vx*scale_vel/scale_pos)` -/

def driftP (c sp sv : F) (p : PInt) : Option PInt :=
  match truncToInt (div (mul (mul c (ofInt p.vx)) sv) sp),
        truncToInt (div (mul (mul c (ofInt p.vy)) sv) sp),
        truncToInt (div (mul (mul c (ofInt p.vz)) sv) sp) with
  | some dx, some dy, some dz => some { p with x := p.x + dx, y := p.y + dy, z := p.z + dz }
  | _, _, _ => none

def drift (c sp sv : F) : List PInt → Option (List PInt)
  | [] => some []
  | p :: r =>
    match driftP c sp sv p, drift c sp sv r with
    | some p', some r' => some (p' :: r')
    | _, _ => none

/-! ### kick  (integrator_janus.c:155-163)
    `p_int.vx += (int64_t)(dt*particles.ax/scale_vel)` -/

def kickP (b sv : F) (p : PInt) (a : V3 F) : Option PInt :=
  match truncToInt (div (mul b a.x) sv),
        truncToInt (div (mul b a.y) sv),
        truncToInt (div (mul b a.z) sv) with
  | some dx, some dy, some dz => some { p with vx := p.vx + dx, vy := p.vy + dy, vz := p.vz + dz }
  | _, _, _ => none

/-- one acceleration per particle; a force routine returning another count is an error -/
def kickL (b sv : F) : List PInt → List (V3 F) → Option (List PInt)
  | [], [] => some []
  | p :: r, a :: ar =>
    match kickP b sv p a, kickL b sv r ar with
    | some p', some r' => some (p' :: r')
    | _, _ => none
  | _, _ => none

def kick (cfg : Cfg F) (b : F) (s : List PInt) : Option (List PInt) :=
  kickL b cfg.scaleVel s (cfg.acc (positions cfg.scalePos s))

/-! ### schemes and the index function `gg`  (integrator_janus.c:42-121) -/

structure Scheme (F : Type) where
  order : Nat
  stages : Nat
  /-- `double gamma[17]` -/
  gamma : List F

/-- index into `s.gamma` used by `gg(s,stage)` -/
def ggIndex (stages stage : Nat) : Nat :=
  if stage < (stages + 1) / 2 then stage else (stages - 1 - stage) % 17

/-- `gg(s,stage)`; reading outside `gamma[]` is an error -/
def gg (s : Scheme F) (stage : Nat) : Option F := s.gamma[ggIndex s.stages stage]?

/-! ### one time step as a list of elementary maps
    part1 (l.205), force, part2 (l.238-245) -/

inductive Op (F : Type) where
  | drift (c : F)
  | kick (b : F)
deriving Repr

def Op.apply (cfg : Cfg F) : Op F → List PInt → Option (List PInt)
  | .drift c, s => RV.Janus.drift c cfg.scalePos cfg.scaleVel s
  | .kick b, s => RV.Janus.kick cfg b s

def run (cfg : Cfg F) : List (Op F) → List PInt → Option (List PInt)
  | [], s => some s
  | op :: r, s =>
    match op.apply cfg s with
    | some s' => run cfg r s'
    | none => none

/-- `for (i=1; i<s.stages; i++){ drift((gg(i-1)+gg(i))*dt/2.); to_double; force; kick(gg(i)*dt); }`
    started at `i` with `n` iterations left -/
def stageLoop (s : Scheme F) (dt : F) : Nat → Nat → Option (List (Op F))
  | _, 0 => some []
  | i, n + 1 =>
    match gg s (i - 1), gg s i, stageLoop s dt (i + 1) n with
    | some a, some b, some rest =>
      some (.drift (div (mul (add a b) dt) two) :: .kick (mul b dt) :: rest)
    | _, _, _ => none

/-- the elementary maps of `reb_integrator_janus_part1`, the force evaluation and
    `reb_integrator_janus_part2`, in execution order -/
def stepOps (s : Scheme F) (dt : F) : Option (List (Op F)) :=
  match gg s 0, stageLoop s dt 1 (s.stages - 1), gg s (s.stages - 1) with
  | some g0, some mid, some gl =>
    some (.drift (div (mul g0 dt) two) :: .kick (mul g0 dt) :: (mid ++ [.drift (div (mul gl dt) two)]))
  | _, _, _ => none

def step (cfg : Cfg F) (s : Scheme F) (dt : F) (st : List PInt) : Option (List PInt) :=
  match stepOps s dt with
  | some ops => run cfg ops st
  | none => none

def steps (cfg : Cfg F) (s : Scheme F) (dt : F) : Nat → List PInt → Option (List PInt)
  | 0, st => some st
  | n + 1, st =>
    match step cfg s dt st with
    | some st' => steps cfg s dt n st'
    | none => none

/-! ### the recalculation flag  (integrator_janus.c:172-181, 254-258)

    `reb_integrator_janus_part1` re-derives the grid state from the particle doubles exactly
    when the particle count changed (`N_allocated != N`, in particular on the first step) or when
    the user set `recalculate_integer_coordinates_this_timestep` after modifying particles, and
    clears the flag.  Nothing else in the library sets it: in particular a step never does, and
    callbacks being installed must not (the check traces the flag on the real code and the
    translator lists every assignment to it in src/). -/

structure JState where
  pInt : List PInt
  /-- `ri_janus.N_allocated` -/
  nAllocated : Nat
  /-- `ri_janus.recalculate_integer_coordinates_this_timestep` -/
  recalc : Bool
deriving Repr, DecidableEq

/-- the head of part1: `particles` are the doubles in `r->particles` at the start of the step -/
def part1Sync (sp sv : F) (particles : List (PDbl F)) (js : JState) : Option JState :=
  if js.recalc || js.nAllocated != particles.length then
    match toInt sp sv particles with
    | some p => some ⟨p, particles.length, false⟩
    | none => none
  else some js

/-- one `reb_simulation_step` with JANUS as seen from outside: grid state, flag, and the particle
    doubles left by `reb_integrator_janus_synchronize` (ALL N particles are converted) -/
def stepFull (cfg : Cfg F) (s : Scheme F) (dt : F) (particles : List (PDbl F)) (js : JState) :
    Option (JState × List (PDbl F)) :=
  match part1Sync cfg.scalePos cfg.scaleVel particles js with
  | none => none
  | some js1 =>
    match step cfg s dt js1.pInt with
    | none => none
    | some st' => some ({ js1 with pInt := st' }, toDouble cfg.scalePos cfg.scaleVel st')

/-- `n` steps without user interference: the particles of each step are the doubles the previous
    step left -/
def stepsFull (cfg : Cfg F) (s : Scheme F) (dt : F) : Nat → JState → Option JState
  | 0, js => some js
  | n + 1, js =>
    match stepFull cfg s dt (toDouble cfg.scalePos cfg.scaleVel js.pInt) js with
    | some (js', _) => stepsFull cfg s dt n js'
    | none => none

/-! ### velocity-dependent additional forces

    `reb_simulation_update_acceleration` calls the user's `additional_forces` after gravity; the callback
    sees the particle doubles `to_double` wrote, velocities included.  A force that reads the velocities
    is outside the reversal theorem — and really breaks reversibility (RV/Props/C10.lean has the
    1-particle witness).  `accV` gets positions *and* velocities. -/

def kickV (cfg : Cfg F) (accV : List (PDbl F) → List (V3 F)) (b : F) (s : List PInt) : Option (List PInt) :=
  kickL b cfg.scaleVel s (accV (toDouble cfg.scalePos cfg.scaleVel s))

def Op.applyV (cfg : Cfg F) (accV : List (PDbl F) → List (V3 F)) : Op F → List PInt → Option (List PInt)
  | .drift c, s => RV.Janus.drift c cfg.scalePos cfg.scaleVel s
  | .kick b, s => kickV cfg accV b s

def runV (cfg : Cfg F) (accV : List (PDbl F) → List (V3 F)) : List (Op F) → List PInt → Option (List PInt)
  | [], s => some s
  | op :: r, s =>
    match op.applyV cfg accV s with
    | some s' => runV cfg accV r s'
    | none => none

def stepV (cfg : Cfg F) (accV : List (PDbl F) → List (V3 F)) (s : Scheme F) (dt : F) (st : List PInt) :
    Option (List PInt) :=
  match stepOps s dt with
  | some ops => runV cfg accV ops st
  | none => none

def stepsV (cfg : Cfg F) (accV : List (PDbl F) → List (V3 F)) (s : Scheme F) (dt : F) :
    Nat → List PInt → Option (List PInt)
  | 0, st => some st
  | n + 1, st =>
    match stepV cfg accV s dt st with
    | some st' => stepsV cfg accV s dt n st'
    | none => none

end RV.Janus
