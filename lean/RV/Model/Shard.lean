import RV.Model.Sched
/- C01 — sharding the word check: the coefficient of a word depends only on its prefixes, so the trie may be restricted to the
   words below one prefix `u` together with the prefixes of `u`; the shards over all `u` of a fixed length cover every word. -/
namespace RV.C01

/-- the trie of `mkT` restricted to the branch `path` down to depth `|path|`, complete below -/
def mkTPath (lim : List Nat) : List Bool → Nat → Nat → Nat → Rat → WT
  | [], f, nb, len, c => mkT lim f nb len c
  | _ :: _, 0, _, _, _ => .nil
  | b :: rest, f+1, nb, len, c =>
    if nb < lim.length ∧ len ≤ lim.getD nb 0 then
      .node c (if b then .nil else mkTPath lim rest f nb (len+1) 0) (if b then mkTPath lim rest f (nb+1) (len+1) 0 else .nil)
    else .nil

/-- `WordOrder` on the shard of the words that start with `path` (and the prefixes of `path`) -/
@[reducible] def WordOrderOn (s : List Op) (lim : List Nat) (path : List Bool) (κ tol : Rat) : Prop :=
  okT tol (runW (lim.length - 1) (maxOf lim) κ s (mkTPath lim path (maxOf lim + 1) 0 0 1)) 0 = true

/-- number of words stored in a trie -/
def sizeT : WT → Nat
  | .nil => 0
  | .node _ a b => 1 + sizeT a + sizeT b
end RV.C01
