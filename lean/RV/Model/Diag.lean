import RV.Model.Gravity
/-
  Model of the conservation diagnostics and of the primitives whose conservation
  properties C04 states:

    reb_simulation_energy, reb_simulation_angular_momentum        tools.c:98-136
    reb_particle_com_of_pair, reb_simulation_com_range/_com       tools.c:406-438, 480-483
    LEAPFROG part1 / part2 (drift, kick+drift)                    integrator_leapfrog.c:36-63
    reb_collision_resolve_merge (m, x, v and energy_offset)       collision.c:767-875

  Operation order follows the C source; `sqrt`, `gt0` (`m > 0.`) are parameters.
-/
namespace RV.Diag
open RV Scalar RV.Gravity
variable {K : Type} [Scalar K]

structure Part (K : Type) where
  m : K
  x : V3 K
  v : V3 K
deriving Inhabited

/-- the (mass, position) view the gravity routines read -/
def bodies (ps : Array (Part K)) : Array (Body K) := ps.map fun p => ⟨p.m, p.x⟩

@[inline] def half : K := Scalar.one / Scalar.ofNat 2

/-! ## reb_simulation_energy -/

/-- `e_kin`, `e_pot` loops and `return e_kin + e_pot + r->energy_offset` -/
def energy (sqrt : K → K) (G offset : K) (nActive : Nat) (tpType : Bool) (ps : Array (Part K)) : K :=
  -- `N_interact = (testparticle_type==0) ? _N_active : (N-N_var)`
  let nInteract := if tpType then ps.size else nActive
  let ekin := forRange 0 nInteract (Scalar.zero : K) fun e i =>
    match ps[i]? with
    | some p => e + half * p.m * (p.v.x * p.v.x + p.v.y * p.v.y + p.v.z * p.v.z)
    | none => e
  let epot := forRange 0 nActive (Scalar.zero : K) fun e i =>
    match ps[i]? with
    | some pi =>
      forRange (i + 1) nInteract e fun e j =>
        match ps[j]? with
        | some pj =>
          let dx := pi.x.x - pj.x.x
          let dy := pi.x.y - pj.x.y
          let dz := pi.x.z - pj.x.z
          e - G * pj.m * pi.m / sqrt (dx * dx + dy * dy + dz * dz)
        | none => e
    | none => e
  ekin + epot + offset

/-! ## reb_simulation_angular_momentum -/

def angularMomentum (ps : Array (Part K)) : V3 K :=
  forRange 0 ps.size (V3.zero : V3 K) fun L i =>
    match ps[i]? with
    | some p =>
      ⟨L.x + p.m * (p.x.y * p.v.z - p.x.z * p.v.y),
       L.y + p.m * (p.x.z * p.v.x - p.x.x * p.v.z),
       L.z + p.m * (p.x.x * p.v.y - p.x.y * p.v.x)⟩
    | none => L

/-! ## reb_simulation_com -/

/-- `reb_particle_com_of_pair` on (m, x, v) (the acceleration triple is treated identically
    by the C code and is not modelled) -/
def comOfPair (gt0 : K → Bool) (p1 p2 : Part K) : Part K :=
  let x : V3 K := ⟨p1.x.x * p1.m + p2.x.x * p2.m, p1.x.y * p1.m + p2.x.y * p2.m, p1.x.z * p1.m + p2.x.z * p2.m⟩
  let v : V3 K := ⟨p1.v.x * p1.m + p2.v.x * p2.m, p1.v.y * p1.m + p2.v.y * p2.m, p1.v.z * p1.m + p2.v.z * p2.m⟩
  let m := p1.m + p2.m
  if gt0 m then
    ⟨m, ⟨x.x / m, x.y / m, x.z / m⟩, ⟨v.x / m, v.y / m, v.z / m⟩⟩
  else ⟨m, x, v⟩

/-- `reb_simulation_com_range(r, first, last)` -/
def comRange (gt0 : K → Bool) (first last : Nat) (ps : Array (Part K)) : Part K :=
  forRange first last (⟨Scalar.zero, V3.zero, V3.zero⟩ : Part K) fun com i =>
    match ps[i]? with
    | some p => comOfPair gt0 com p
    | none => com

def com (gt0 : K → Bool) (ps : Array (Part K)) : Part K := comRange gt0 0 ps.size ps

/-! ## LEAPFROG -/

/-- part1: `x += 0.5*dt*vx` for every particle -/
def lfDrift (dt : K) (ps : Array (Part K)) : Array (Part K) :=
  ps.map fun p => { p with x := ⟨p.x.x + half * dt * p.v.x, p.x.y + half * dt * p.v.y, p.x.z + half * dt * p.v.z⟩ }

/-- part2: `vx += dt*ax; x += 0.5*dt*vx` for every particle -/
def lfKickDrift (dt : K) (ps : Array (Part K)) (acc : Acc K) : Array (Part K) :=
  Array.zipWith (fun p a =>
    let v : V3 K := ⟨p.v.x + dt * a.x, p.v.y + dt * a.y, p.v.z + dt * a.z⟩
    { p with v := v, x := ⟨p.x.x + half * dt * v.x, p.x.y + half * dt * v.y, p.x.z + half * dt * v.z⟩ }) ps acc

/-- one `reb_simulation_step` with LEAPFROG and BASIC gravity -/
def lfStep (pref : K → Nat → Nat → K) (cfg : Cfg K) (ghosts : List (V3 K)) (dt : K)
    (ps : Array (Part K)) : Array (Part K) :=
  let ps1 := lfDrift dt ps
  let acc := accBasic pref cfg ghosts (bodies ps1)
  lfKickDrift dt ps1 acc

def lfSteps (pref : K → Nat → Nat → K) (cfg : Cfg K) (ghosts : List (V3 K)) (dt : K) :
    Nat → Array (Part K) → Array (Part K)
  | 0, ps => ps
  | n + 1, ps => lfSteps pref cfg ghosts dt n (lfStep pref cfg ghosts dt ps)

/-! ## reb_collision_resolve_merge -/

structure MergeOut (K : Type) where
  p : Part K        -- the surviving particle
  dE : K            -- `Ei - Ef`, added to `energy_offset` when `track_energy_offset`

/-- merge of `pi` (lower index, survives) and `pj`; `potential` = `i<N_active || j<N_active`;
    `vcom` = the MERCURIUS/TRACE frame velocity added for the energy bookkeeping (zero otherwise) -/
def merge (sqrt : K → K) (G : K) (potential : Bool) (vcom : V3 K) (pi pj : Part K) : MergeOut K :=
  let invmass := Scalar.one / (pi.m + pj.m)
  let ke (p : Part K) : K :=
    let vx := p.v.x + vcom.x
    let vy := p.v.y + vcom.y
    let vz := p.v.z + vcom.z
    half * p.m * (vx * vx + vy * vy + vz * vz)
  let ei := (Scalar.zero : K) + ke pi
  let ei := ei + ke pj
  let ei :=
    if potential then
      let x := pi.x.x - pj.x.x
      let y := pi.x.y - pj.x.y
      let z := pi.x.z - pj.x.z
      let r := sqrt (x * x + y * y + z * z)
      ei + (-G) * pi.m * pj.m / r
    else ei
  let v : V3 K := ⟨(pi.v.x * pi.m + pj.v.x * pj.m) * invmass, (pi.v.y * pi.m + pj.v.y * pj.m) * invmass,
    (pi.v.z * pi.m + pj.v.z * pj.m) * invmass⟩
  let x : V3 K := ⟨(pi.x.x * pi.m + pj.x.x * pj.m) * invmass, (pi.x.y * pi.m + pj.x.y * pj.m) * invmass,
    (pi.x.z * pi.m + pj.x.z * pj.m) * invmass⟩
  let p : Part K := ⟨pi.m + pj.m, x, v⟩
  let ef := (Scalar.zero : K) + ke p
  ⟨p, ei - ef⟩

end RV.Diag
