/-
  C01 — the polynomial changeover functions of MERCURIUS (src/integrator_mercurius.c:42-79) over exact rationals, in the operation
  order of the source: `y = (d − 0.1·dcrit)/(0.9·dcrit)`, 0 below, 1 above, a polynomial smooth-step in between.
  (`reb_integrator_mercurius_L_infinity` uses `exp` and is not modelled here.)  Mathlib-free.
-/
namespace RV.C01.Changeover

def yOf (d dcrit : Rat) : Rat := (d - (1/10) * dcrit) / ((9/10) * dcrit)

/-- `10·(y·y·y) − 15·(y·y·y·y) + 6·(y·y·y·y·y)` -/
def pMercury (y : Rat) : Rat := 10 * (y*y*y) - 15 * (y*y*y*y) + 6 * (y*y*y*y*y)
/-- `(70·y·y·y·y − 315·y·y·y + 540·y·y − 420·y + 126)·y·y·y·y·y` -/
def pC4 (y : Rat) : Rat := (70*y*y*y*y - 315*y*y*y + 540*y*y - 420*y + 126) * y*y*y*y*y
/-- `(−252·y⁵ + 1386·y⁴ − 3080·y³ + 3465·y² − 1980·y + 462)·y⁶` with the products written out as in the source -/
def pC5 (y : Rat) : Rat := (-252*y*y*y*y*y + 1386*y*y*y*y - 3080*y*y*y + 3465*y*y - 1980*y + 462) * y*y*y*y*y*y

def changeover (p : Rat → Rat) (d dcrit : Rat) : Rat :=
  let y := yOf d dcrit
  if y < 0 then 0 else if y > 1 then 1 else p y

def Lmercury := changeover pMercury
def LC4 := changeover pC4
def LC5 := changeover pC5
end RV.C01.Changeover
