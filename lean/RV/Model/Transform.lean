import RV.Scalar
/-
  Model of src/transformations.c, one Cartesian component at a time.

  Every routine of transformations.c applies the *same* scalar map to each of the
  components it touches (x,y,z / vx,vy,vz / ax,ay,az), so the model is written for one
  component and the correspondence driver applies it to each component of each C
  variant (`_pos`, `_posvel`, `_posvelacc`, `_acc`).  That the variants agree with one
  another is therefore a property of the code established by the correspondence: all
  of them must reproduce this one function bit for bit.

  Particle sets are presented as
     particle 0 : (m0, x0)
     act        : the other active particles, as (m, x) pairs      (1 ≤ i < N_active)
     tst        : the test particles, coordinates only             (N_active ≤ i < N)
  which removes all index arithmetic.  Operation order follows the C source so that the
  `Float` instance is bit-identical to the compiled code.
-/
namespace RV.Transform
open RV Scalar
variable {K : Type} [Scalar K]

/-! ## Jacobi  (transformations.c:34-293) -/

/-- the `for (i=1;i<N_active;i++)` loop of `inertial_to_jacobi_*`:
    state `(eta, s)`, output the Jacobi coordinate of each active particle -/
def jacFwdAct : K → K → List (K × K) → List K × K × K
  | eta, s, [] => ([], eta, s)
  | eta, s, (m, x) :: r =>
    let ei := Scalar.one / eta
    let eta' := eta + m
    let pme := eta' * ei
    let xj := x - s * ei
    let s' := s * pme + m * xj
    let (o, ef, sf) := jacFwdAct eta' s' r
    (xj :: o, ef, sf)

structure Out (K : Type) where
  m0  : K           -- mass stored in slot 0
  x0  : K           -- coordinate stored in slot 0
  act : List K
  tst : List K
deriving Repr

def jacFwd (m0 x0 : K) (act : List (K × K)) (tst : List K) : Out K :=
  let (o, eta, s) := jacFwdAct m0 (m0 * x0) act
  let ei := Scalar.one / eta
  { m0 := eta, x0 := s * (Scalar.one / eta), act := o, tst := tst.map (fun x => x - s * ei) }

/-- the `for (i=N_active-1;i>0;i--)` loop of `jacobi_to_inertial_*`, fed with the
    active particles in *reverse* order; returns the inertial coordinates (reverse order) -/
def jacInvAct : K → K → List (K × K) → List K × K × K
  | eta, s, [] => ([], eta, s)
  | eta, s, (m, xj) :: r =>
    let ei := Scalar.one / eta
    let s1 := (s - m * xj) * ei
    let x := xj + s1
    let eta' := eta - m
    let s2 := s1 * eta'
    let (o, ef, sf) := jacInvAct eta' s2 r
    (x :: o, ef, sf)

/-- `M`, `X0`: slot 0 of the Jacobi set; `act`: (mass, jacobi coordinate) in index order -/
def jacInv (M X0 : K) (act : List (K × K)) (tst : List K) : Out K :=
  let s := X0 * M
  let ei := Scalar.one / M
  let t := tst.map (fun xj => xj + s * ei)
  let (o, eta, sf) := jacInvAct M s act.reverse
  { m0 := eta, x0 := sf * (Scalar.one / eta), act := o.reverse, tst := t }

/-! ## centre of mass accumulation used by DH and WHDS  (transformations.c:295-318, 388-411) -/

/-- `x0 += x*m; m0 += m` over all active particles starting from 0. -/
def comAcc : K → K → List (K × K) → K × K
  | xs, ms, [] => (xs, ms)
  | xs, ms, (m, x) :: r => comAcc (xs + x * m) (ms + m) r

/-! ## democratic heliocentric -/

/-- positions: slot 0 = COM, others relative to particle 0 -/
def dhFwdPos (m0 x0 : K) (act : List (K × K)) (tst : List K) : Out K :=
  let (sx, sm) := comAcc Scalar.zero Scalar.zero ((m0, x0) :: act)
  { m0 := sm, x0 := sx / sm, act := act.map (fun p => p.2 - x0), tst := tst.map (fun x => x - x0) }

/-- velocities: slot 0 = COM velocity, others relative to the COM velocity -/
def dhFwdVel (m0 v0 : K) (act : List (K × K)) (tst : List K) : Out K :=
  let (sv, sm) := comAcc Scalar.zero Scalar.zero ((m0, v0) :: act)
  let V := sv / sm
  { m0 := sm, x0 := V, act := act.map (fun p => p.2 - V), tst := tst.map (fun v => v - V) }

/-- `x0 += q*m/mtot` -/
def dhSum (mtot : K) : K → List (K × K) → K
  | a, [] => a
  | a, (m, q) :: r => dhSum mtot (a + q * m / mtot) r

/-- `democraticheliocentric_to_inertial_pos`; `act` = (mass, heliocentric coordinate) -/
def dhInvPos (mtot Q0 : K) (act : List (K × K)) (tst : List K) : Out K :=
  let x0 := Q0 - dhSum mtot Scalar.zero act
  { m0 := mtot, x0 := x0, act := act.map (fun p => p.2 + x0), tst := tst.map (fun q => q + x0) }

/-- velocity part of `democraticheliocentric_to_inertial_posvel`; `m0` is the inertial
    mass of particle 0 (read from `particles[0].m`) -/
def dhInvVel (m0 P0 : K) (act : List (K × K)) (tst : List K) : Out K :=
  let v0 := P0 - dhSum m0 Scalar.zero act
  { m0 := m0, x0 := v0, act := act.map (fun p => p.2 + P0), tst := tst.map (fun p => p + P0) }

/-! ## WHDS -/

def whdsFwdVel (m0 v0 : K) (act : List (K × K)) (tst : List K) : Out K :=
  let (sv, sm) := comAcc Scalar.zero Scalar.zero ((m0, v0) :: act)
  let V := sv / sm
  { m0 := sm, x0 := V,
    act := act.map (fun p => ((m0 + p.1) / m0) * (p.2 - V)),
    tst := tst.map (fun v => v - V) }

/-- `vx0 += p*m/(m0+m)` -/
def whdsSum (m0 : K) : K → List (K × K) → K
  | a, [] => a
  | a, (m, p) :: r => whdsSum m0 (a + p * m / (m0 + m)) r

def whdsInvVel (m0 P0 : K) (act : List (K × K)) (tst : List K) : Out K :=
  let v0 := P0 - whdsSum m0 Scalar.zero act
  { m0 := m0, x0 := v0,
    act := act.map (fun p => p.2 / ((m0 + p.1) / m0) + P0),
    tst := tst.map (fun p => p + P0) }

/-! ## barycentric -/

/-- `s_x += x*m; s_m += m` over the active particles i ≥ 1 -/
def baryAcc : K → K → List (K × K) → K × K
  | sx, sm, [] => (sx, sm)
  | sx, sm, (m, x) :: r => baryAcc (sx + x * m) (sm + m) r

def baryFwd (m0 x0 : K) (act : List (K × K)) (tst : List K) : Out K :=
  let (sx, sm) := baryAcc Scalar.zero Scalar.zero act
  let M := m0 + sm
  let b0 := (m0 * x0 + sx) * (Scalar.one / M)
  { m0 := M, x0 := b0, act := act.map (fun p => p.2 - b0), tst := tst.map (fun x => x - b0) }

/-- `act` = (mass, barycentric coordinate) -/
def baryInv (M B0 : K) (act : List (K × K)) (tst : List K) : Out K :=
  let xs := act.map (fun p => (p.1, p.2 + B0))
  let (sx, sm) := baryAcc Scalar.zero Scalar.zero xs
  let m0 := M - sm
  let x0 := (M * B0 - sx) * (Scalar.one / m0)
  { m0 := m0, x0 := x0, act := xs.map (fun p => p.2), tst := tst.map (fun b => b + B0) }

/-! ## in-place democratic-heliocentric maps of the hybrid integrators
     (integrator_mercurius.c:97-167, integrator_trace.c:174-246 — identical code) -/

/-- `com += m*x; mtot += m` over all active particles starting from 0 -/
def hybAcc : K → K → List (K × K) → K × K
  | c, mt, [] => (c, mt)
  | c, mt, (m, x) :: r => hybAcc (c + m * x) (mt + m) r

structure HOut (K : Type) where
  com : K          -- value stored in ri_*.com_pos / com_vel (forward) or unused (inverse)
  x0  : K
  act : List K
  tst : List K
deriving Repr

/-- positions: everything (including particle 0 itself) relative to particle 0 -/
def hybFwdPos (m0 x0 : K) (act : List (K × K)) (tst : List K) : HOut K :=
  let (c, mt) := hybAcc Scalar.zero Scalar.zero ((m0, x0) :: act)
  { com := c / mt, x0 := x0 - x0, act := act.map (fun p => p.2 - x0), tst := tst.map (fun x => x - x0) }

/-- velocities: everything relative to the centre-of-mass velocity -/
def hybFwdVel (m0 v0 : K) (act : List (K × K)) (tst : List K) : HOut K :=
  let (c, mt) := hybAcc Scalar.zero Scalar.zero ((m0, v0) :: act)
  let V := c / mt
  { com := V, x0 := v0 - V, act := act.map (fun p => p.2 - V), tst := tst.map (fun v => v - V) }

/-- `dh_to_inertial`, positions; `act` = (mass, heliocentric coordinate), `cp` = stored com_pos -/
def hybInvPos (m0 cp : K) (act : List (K × K)) (tst : List K) : HOut K :=
  let (t, tm) := hybAcc Scalar.zero Scalar.zero act
  let x0 := cp - t / (tm + m0)
  { com := cp, x0 := x0, act := act.map (fun p => p.2 + x0), tst := tst.map (fun q => q + x0) }

/-- `dh_to_inertial`, velocities; `cv` = stored com_vel -/
def hybInvVel (m0 cv : K) (act : List (K × K)) (tst : List K) : HOut K :=
  let (t, _) := hybAcc Scalar.zero Scalar.zero act
  { com := cv, x0 := cv - t / m0, act := act.map (fun p => p.2 + cv), tst := tst.map (fun p => p + cv) }

end RV.Transform
