import RV.Model.Units
/-
  Model of the unit logic of rebound/simulation.py:729-815 as a small state machine:
    Simulation.units (setter / getter), update_units, convert_particle_units, and the interplay with
    a manually assigned `sim.G` and with `sim.add`.

  Python keeps the three unit *names* as 32-bit hashes (`python_unit_l/t/m`, 0 = not set) and looks the
  SI values up in the tables of units.py whenever it converts; the model keeps, per unit, an identifier
  (standing for the name) together with its SI value.  `check_units` (any order, any case, unknown or
  missing units rejected) is outside the model: an operation carries `none` when check_units raises.
-/
namespace RV.UnitsState
open RV RV.Units
variable {K : Type} [ScalarP K]

/-- a unit triple: identifiers of the three names and their SI values -/
structure UnitSys (K : Type) where
  idL : Nat
  idT : Nat
  idM : Nat
  L : K
  T : K
  M : K

structure USim (K : Type) where
  units : Option (UnitSys K)
  G : K
  parts : List (PData K)

inductive UErr where
  | badUnits      -- check_units raised
  | populated     -- setter: "You cannot set the units after populating the particles array"
  | unitsNotSet   -- convert_particle_units: "Must set sim.units before calling convert_particle_units"
deriving Repr, DecidableEq

inductive UOp (K : Type) where
  | setUnits (u : Option (UnitSys K))
  | convert (u : Option (UnitSys K))
  | setG (g : K)
  | add (p : PData K)

/-- `update_units`: store the names, `self.G = convert_G(newunits)` -/
def updateUnits (gSI : K) (s : USim K) (u : UnitSys K) : USim K :=
  { s with units := some u, G := convertG gSI u.L u.T u.M }

def step (gSI : K) (s : USim K) : UOp K → Except UErr (USim K)
  | .setUnits none => .error .badUnits
  | .setUnits (some u) =>
    if s.parts.length > 0 then .error .populated else .ok (updateUnits gSI s u)
  | .convert u? =>
    match s.units with
    | none => .error .unitsNotSet
    | some cur =>
      match u? with
      | none => .error .badUnits
      | some u =>
        let ps := s.parts.map (fun p => convertParticle p cur.L cur.T cur.M u.L u.T u.M)
        .ok (updateUnits gSI { s with parts := ps } u)
  | .setG g => .ok { s with G := g }
  | .add p => .ok { s with parts := s.parts ++ [p] }

/-- a sequence of operations; a failing operation raises in Python and leaves the simulation as it was -/
def run (gSI : K) : USim K → List (UOp K) → USim K × List (Option UErr)
  | s, [] => (s, [])
  | s, op :: r =>
    match step gSI s op with
    | .ok s' => let (sf, st) := run gSI s' r; (sf, none :: st)
    | .error e => let (sf, st) := run gSI s r; (sf, some e :: st)

end RV.UnitsState
