/-
  C09 — flag machines of the integrators that can postpone their last half step.

  Mirrors (control flow only, the floating-point kernels stay *uninterpreted*):
    integrator_whfast.c  554-684 (correctors), 777-842 (init), 935-1004 (part1),
                         1006-1066 (synchronize), 1068-1177 (part2, non-variational)
    integrator_saba.c    127-203 (corrector step), 205-268 (part1), 270-296 (synchronize),
                         298-336 (part2)
    integrator_mercurius.c 428-546 (part1 / part2 / synchronize)
    integrator_eos.c     538-721 (part1 / part2 / synchronize; drift/kick are static there)
    rebound.c 82-150 (reb_simulation_step: part1, update_acceleration, part2)

  A configuration + flag state + API operation is mapped to the *list of primitive calls*
  the C code makes and the new flag state.  The same function
    * is run natively by `drv_c09`; Python executes the emitted list through the real
      exported C primitives and compares bit for bit with `reb_simulation_step` /
      `reb_simulation_synchronize` (schedule replay), and
    * is given a denotation over uninterpreted primitives (`Sem`) for the theorems in
      RV/Props/C09.lean.
  No Mathlib here.
-/
namespace RV.Sync

/-! ## coefficients (syntactic: the driver prints them, Python evaluates them in the
    operation order of the C expression; theorems interpret them with `Sem.ev`) -/

inductive Coef where
  /-- `(num * dt) / den`  (C: `r->dt/2.`, `5.*r->dt/8.`, `-dt/6.` …) -/
  | frac (num : Int) (den : Nat)
  /-- `mult * (reb_whfast_corrector_a_<i> * dt)`, `mult ∈ {±1, ±2}` -/
  | corrA (i : Nat) (mult : Int)
  /-- `sign * (reb_whfast_corrector_b_<name> * dt)` -/
  | corrB (name : Nat) (sign : Int)
  /-- `sign * (reb_whfast_corrector2_b * dt)` -/
  | c2b (sign : Int)
  /-- `mult * (reb_saba_c[row][i] * dt)`, `mult ∈ {1,2}` -/
  | sabaC (row i : Nat) (mult : Int)
  /-- `reb_saba_d[row][i] * dt` -/
  | sabaD (row i : Nat)
  /-- `mult * (reb_saba_cc[row] * dt)` -/
  | sabaCC (row : Nat) (mult : Int)
  deriving DecidableEq, Repr, Inhabited

def Coef.neg : Coef → Coef
  | .frac n d => .frac (-n) d
  | .corrA i m => .corrA i (-m)
  | .corrB n s => .corrB n (-s)
  | .c2b s => .c2b (-s)
  | .sabaC r i m => .sabaC r i (-m)
  | .sabaD r i => .sabaD r i      -- never negated by the code
  | .sabaCC r m => .sabaCC r (-m)

def Coef.toString : Coef → String
  | .frac n d => s!"F:{n}:{d}"
  | .corrA i m => s!"CA:{i}:{m}"
  | .corrB n s => s!"CB:{n}:{s}"
  | .c2b s => s!"C2B:{s}"
  | .sabaC r i m => s!"SC:{r}:{i}:{m}"
  | .sabaD r i => s!"SD:{r}:{i}"
  | .sabaCC r m => s!"SCC:{r}:{m}"

/-! ## primitive calls -/

inductive Prim where
  /-- `reb_integrator_whfast_init` (allocation + gravity_ignore_terms; flag effect is in `initF`) -/
  | init
  /-- `reb_simulation_warning` "recalculating coordinates but not synchronized" -/
  | warn
  | fromInertial                 -- reb_integrator_whfast_from_inertial
  | toInertial                   -- reb_integrator_whfast_to_inertial / *_to_inertial_posvel
  | posJacobi                    -- reb_particles_transform_jacobi_to_inertial_pos
  | posBary                      -- reb_particles_transform_barycentric_to_inertial_pos
  | kepler (τ : Coef)            -- reb_whfast_kepler_step
  | com (τ : Coef)               -- reb_whfast_com_step
  | jump (τ : Coef)              -- reb_whfast_jump_step
  | interaction (τ : Coef)       -- reb_whfast_interaction_step
  | updateAcc                    -- reb_simulation_update_acceleration
  | jerk                         -- reb_whfast_calculate_jerk (writes p_jh[].a)
  | mkFold                       -- particles[i].a += dt*dt/12 * p_jh[i].a        (whfast.c:1091-1096)
  | jacAcc                       -- reb_particles_transform_inertial_to_jacobi_acc
  | lazyShift                    -- p_temp := p_jh ; p_jh[i].pos += dt*dt/12 * p_temp[i].a   (1144-1152)
  | lazyReset                    -- p_jh[i].pos := p_temp[i].pos                            (1159-1164)
  | savePJ                       -- sync_pj := copy of p_jh
  | restorePJ                    -- p_jh := sync_pj
  | advT (τ : Coef)              -- r->t += τ
  | sabaInit (corr : Bool)       -- gravity := JACOBI (correctors) | gravity_ignore_terms := 1  (saba.c:226-232)
  -- the transformation calls of integrator_saba.c: as found they pass `N_active := N`, after
  -- fix 6fff6ab the same split as the forward transformation; rv/c09.py reads which from the source
  | posJacobiAll                 -- jacobi_to_inertial_pos   (saba.c)
  | jacAccAll                    -- inertial_to_jacobi_acc   (saba.c)
  | toInertialAll                -- jacobi_to_inertial_posvel (saba.c synchronize)
  -- first-order variational particles (whfast.c:1003-1016, 1072-1075, 1197-1268); they are part of
  -- the replay (`vStepOps`), not of the denotation used by the theorems
  | varComDrift (τ : Coef)       -- p_jh[vc.index].pos += τ * p_jh[vc.index].vel, every variational config
  | varToInertialPos             -- jacobi_to_inertial_pos of every variational config
  | varToInertialPosvel          -- jacobi_to_inertial_posvel of every variational config
  | rescaleVar                   -- reb_simulation_rescale_var (rebound.c:152-154)
  | sabaFold                     -- particles[i].a := dt*dt * p_jh[i].a          (saba.c:140-145)
  | sabaLazyKick (τ : Coef)      -- p_jh[i].v += τ*12*(p_jh[i].a - p_temp[i].a); pos reset (saba.c:180-190)
  deriving DecidableEq, Repr, Inhabited

def Prim.toString : Prim → String
  | .init => "init" | .warn => "warn"
  | .fromInertial => "fromI" | .toInertial => "toI"
  | .posJacobi => "posJ" | .posBary => "posB"
  | .kepler τ => "K=" ++ τ.toString | .com τ => "C=" ++ τ.toString
  | .jump τ => "J=" ++ τ.toString | .interaction τ => "I=" ++ τ.toString
  | .updateAcc => "upd" | .jerk => "jerk" | .mkFold => "mkFold" | .jacAcc => "jacAcc"
  | .lazyShift => "lazyShift" | .lazyReset => "lazyReset"
  | .savePJ => "save" | .restorePJ => "restore"
  | .advT τ => "T=" ++ τ.toString
  | .sabaFold => "sabaFold" | .sabaLazyKick τ => "sabaLazyKick=" ++ τ.toString
  | .varComDrift τ => "vC=" ++ τ.toString | .varToInertialPos => "vPos" | .varToInertialPosvel => "vPosvel"
  | .rescaleVar => "vRescale"
  | .sabaInit b => if b then "sabaInit=1" else "sabaInit=0"
  | .posJacobiAll => "posJA" | .jacAccAll => "jacAccA" | .toInertialAll => "toIA"

/-! ## WHFast -/

inductive Coord where | jacobi | dh | whds | bary
  deriving DecidableEq, Repr, Inhabited

/-- user-visible configuration of `ri_whfast` (plain integers as in the C struct) -/
structure Config where
  coord : Coord
  kernel : Nat          -- 0 default, 1 modified kick, 2 composition, 3 lazy
  corrector : Nat       -- 0,3,5,7,11,17
  corrector2 : Bool
  safe : Bool           -- safe_mode
  keep : Bool           -- keep_unsynchronized
  c2fixed : Bool := false  -- source variant of apply_corrector2 (see `corrector2Ops`)
  /-- source variant of the `N_var_config` block of `reb_integrator_whfast_part2`: with
      keep_unsynchronized the block restores the cached `p_jh`, which as found throws away the
      second half of the variational centre-of-mass drift (finding
      C09:whfast-var-keep-com-drift-lost); the repaired source redoes it on the restored
      coordinates.  Detected by rv/c09.py. -/
  vfix : Bool := false
  /-- source variant of part1: after `from_inertial; recalculate_coordinates_this_timestep = 0` the
      repaired source (35adc5c) also sets `is_synchronized = 1` — as found, with keep_unsynchronized
      the flag stayed 0 and a full merged drift was applied to freshly recalculated (synchronised)
      coordinates.  Detected by rv/c09.py. -/
  p1fix : Bool := false
  deriving DecidableEq, Repr, Inhabited

/-- internal flags -/
structure Flags where
  isSync : Bool         -- is_synchronized
  recalc : Bool         -- recalculate_coordinates_this_timestep
  allocated : Bool      -- N_allocated == N  (p_jh exists)
  deriving DecidableEq, Repr, Inhabited

/-- the configuration checks of `reb_integrator_whfast_init` that end in `return 1`
    (whfast.c:801-820; the variational ones are outside the model). -/
def initOk (c : Config) : Bool :=
  !(c.kernel != 0 && c.coord != .jacobi) &&
  !(c.kernel > 3) &&
  !(c.corrector != 0 && (c.coord != .jacobi && c.coord != .bary)) &&
  (c.corrector == 0 || c.corrector == 3 || c.corrector == 5 || c.corrector == 7 ||
   c.corrector == 11 || c.corrector == 17)

/-- flag effect of `reb_integrator_whfast_init` (whfast.c:836-840) -/
def initF (f : Flags) : Flags :=
  if f.allocated then f else { f with allocated := true, recalc := true }

/-- `reb_whfast_corrector_Z(a,b)` (whfast.c:554-595); `a = mult·a_i·dt`, `b = sign·b_name·dt` -/
def zOps (coord : Coord) (ai : Nat) (am : Int) (bn : Nat) (bs : Int) : List Prim :=
  let pos := match coord with
    | .jacobi => [Prim.posJacobi]
    | .bary => [Prim.posBary]
    | _ => []        -- rejected by init ("Coordinate system not supported")
  match coord with
  | .dh | .whds => []
  | _ =>
    [.kepler (.corrA ai am)] ++ pos ++ [.updateAcc, .interaction (.corrB bn (-bs)),
     .kepler (.corrA ai (-2*am))] ++ pos ++ [.updateAcc, .interaction (.corrB bn bs),
     .kepler (.corrA ai am)]

/-- the table of `reb_whfast_apply_corrector` (whfast.c:597-652):
    (a index, a sign, b name, b sign relative to `inv`) in call order -/
def corrTable : Nat → List (Nat × Int × Nat × Int)
  | 3 => [(1, 1, 31, -1), (1, -1, 31, 1)]
  | 5 => [(2, -1, 51, -1), (1, -1, 52, -1), (1, 1, 52, 1), (2, 1, 51, 1)]
  | 7 => [(3, -1, 71, -1), (2, -1, 72, -1), (1, -1, 73, -1),
          (1, 1, 73, 1), (2, 1, 72, 1), (3, 1, 71, 1)]
  | 11 => [(5, -1, 111, -1), (4, -1, 112, -1), (3, -1, 113, -1), (2, -1, 114, -1), (1, -1, 115, -1),
           (1, 1, 115, 1), (2, 1, 114, 1), (3, 1, 113, 1), (4, 1, 112, 1), (5, 1, 111, 1)]
  | 17 => [(8, -1, 171, -1), (7, -1, 172, -1), (6, -1, 173, -1), (5, -1, 174, -1),
           (4, -1, 175, -1), (3, -1, 176, -1), (2, -1, 177, -1), (1, -1, 178, -1),
           (1, 1, 178, 1), (2, 1, 177, 1), (3, 1, 176, 1), (4, 1, 175, 1),
           (5, 1, 174, 1), (6, 1, 173, 1), (7, 1, 172, 1), (8, 1, 171, 1)]
  | _ => []

def zList (coord : Coord) (inv : Int) : List (Nat × Int × Nat × Int) → List Prim
  | [] => []
  | (ai, as, bn, bs) :: r => zOps coord ai as bn (bs * inv) ++ zList coord inv r

/-- `reb_whfast_apply_corrector(r, inv, order)` -/
def correctorOps (coord : Coord) (order : Nat) (inv : Int) : List Prim :=
  zList coord inv (corrTable order)

/-- `reb_whfast_operator_C(a,b)` (whfast.c:654-667) -/
def opC (a b : Coef) : List Prim :=
  [.kepler a, .posJacobi, .updateAcc, .interaction b, .kepler a.neg]
/-- `reb_whfast_operator_Y` -/
def opY (a b : Coef) : List Prim := opC a b ++ opC a.neg b.neg
/-- `reb_whfast_operator_U` -/
def opU (a b : Coef) : List Prim := [.kepler a] ++ opY a b ++ opY a b.neg ++ [.kepler a.neg]
/-- `reb_whfast_operator_Uinv` (exists only in the repaired source, fixes/F18.diff):
    the inverse of `U(a,b)` -/
def opUinv (a b : Coef) : List Prim := [.kepler a] ++ opY a.neg b.neg ++ opY a.neg b ++ [.kepler a.neg]
/-- `reb_whfast_apply_corrector2(r, inv)`.  Two source variants (rv/c09.py detects which one
    the tree under test has, the replay confirms it):
    * `fixed = false` (whfast.c:679-684 as found): `a = 0.5·inv·dt`, `b = corrector2_b·inv·dt`,
      `U(a,b); U(-a,b)` — NOT an inverse for `inv = -1` (finding F18);
    * `fixed = true` (fixes/F18.diff): `a = 0.5·dt`, `b = corrector2_b·dt`; `inv > 0`:
      `U(a,b); U(-a,b)`, else `Uinv(-a,b); Uinv(a,b)`. -/
def corrector2Ops (fixed : Bool) (inv : Int) : List Prim :=
  if fixed then
    (if inv > 0 then opU (.frac 1 2) (.c2b 1) ++ opU (.frac (-1) 2) (.c2b 1)
     else opUinv (.frac (-1) 2) (.c2b 1) ++ opUinv (.frac 1 2) (.c2b 1))
  else opU (.frac inv 2) (.c2b inv) ++ opU (.frac (-inv) 2) (.c2b inv)

/-- length of the first half drift (part1, synchronised) -/
def firstCoef (kernel : Nat) : Coef := if kernel == 2 then .frac 5 8 else .frac 1 2
/-- length of the last half drift (synchronize) -/
def lastCoef (kernel : Nat) : Coef := if kernel == 2 then .frac 3 8 else .frac 1 2

/-- `reb_integrator_whfast_synchronize` (whfast.c:1006-1066) -/
def syncOps (c : Config) (f : Flags) : List Prim × Flags :=
  let f1 := initF f
  if f1.isSync then ([.init], f1) else
  let body :=
    (if c.keep then [Prim.savePJ] else []) ++
    [.kepler (lastCoef c.kernel), .com (lastCoef c.kernel)] ++
    (if c.corrector2 then corrector2Ops c.c2fixed (-1) else []) ++
    (if c.corrector != 0 then correctorOps c.coord c.corrector (-1) else []) ++
    [.toInertial] ++
    (if c.keep then [Prim.restorePJ] else [])
  (.init :: body, if c.keep then f1 else { f1 with isSync := true })

/-- the kick of `reb_integrator_whfast_part2` (whfast.c:1082-1169) -/
def kickOps (kernel : Nat) : List Prim :=
  match kernel with
  | 0 => [.interaction (.frac 1 1), .jump (.frac 1 2)]
  | 1 => [.jerk, .mkFold, .interaction (.frac 1 1)]
  | 2 => [.interaction (.frac (-1) 6),
          .kepler (.frac (-1) 4), .com (.frac (-1) 4), .posJacobi, .updateAcc, .interaction (.frac 1 6),
          .kepler (.frac 1 8), .com (.frac 1 8), .posJacobi, .updateAcc, .interaction (.frac 1 1),
          .kepler (.frac (-1) 8), .com (.frac (-1) 8), .posJacobi, .updateAcc, .interaction (.frac (-1) 6),
          .kepler (.frac 1 4), .com (.frac 1 4), .posJacobi, .updateAcc, .interaction (.frac 1 6)]
  | 3 => [.jacAcc, .lazyShift, .posJacobi, .updateAcc, .interaction (.frac 1 1), .lazyReset]
  | _ => []

/-- `reb_integrator_whfast_part1` (whfast.c:935-1004), after a successful init -/
def part1Ops (c : Config) (f : Flags) : List Prim × Flags :=
  let f1 := initF f
  -- "Only recalculate Jacobi coordinates if needed"
  let (p2, f2) :=
    if c.safe || f1.recalc then
      let (ps, fs) := if !f1.isSync then
          let (ps, fs) := syncOps c f1
          (ps ++ [Prim.warn], fs)
        else ([], f1)
      (ps ++ [Prim.fromInertial], { fs with recalc := false, isSync := c.p1fix || fs.isSync })
    else ([], f1)
  let drift :=
    if f2.isSync then
      (if c.corrector != 0 then correctorOps c.coord c.corrector 1 else []) ++
      (if c.corrector2 then corrector2Ops c.c2fixed 1 else []) ++
      [.kepler (firstCoef c.kernel), .com (firstCoef c.kernel)]
    else [.kepler (.frac 1 1), .com (.frac 1 1)]
  (.init :: p2 ++ drift ++ [.jump (.frac 1 2), .toInertial, .advT (.frac 1 2)], f2)

/-- `reb_integrator_whfast_part2` (whfast.c:1068-1177) -/
def part2Ops (c : Config) (f : Flags) : List Prim × Flags :=
  let f1 := { f with isSync := false }
  let (ps, f2) := if c.safe then syncOps c f1 else ([], f1)
  (kickOps c.kernel ++ ps ++ [.advT (.frac 1 2)], f2)

/-- `reb_simulation_step` for WHFast (rebound.c:82-150; no callbacks, tree, collisions) -/
def stepOps (c : Config) (f : Flags) : List Prim × Flags :=
  let (p1, f1) := part1Ops c f
  let (p2, f2) := part2Ops c f1
  (p1 ++ [.updateAcc] ++ p2, f2)

/-! ## WHFast with first-order variational particles (Jacobi coordinates, default kernel, no
    correctors; `calculate_megno = 0`).  Mirrors the `N_var_config` blocks of part1, synchronize
    and part2.  Replay only — note that part2 synchronises (for real) at the end of *every* step
    when there are variational particles and keep_unsynchronized = 0, whatever safe_mode says. -/

def vSyncOps (c : Config) (f : Flags) : List Prim × Flags :=
  let f1 := initF f
  if f1.isSync then ([.init], f1) else
  (.init :: ((if c.keep then [Prim.savePJ] else []) ++
    [.kepler (.frac 1 2), .com (.frac 1 2), .toInertial, .varToInertialPosvel] ++
    (if c.keep then [Prim.restorePJ] else [])),
   if c.keep then f1 else { f1 with isSync := true })

def vPart1Ops (c : Config) (f : Flags) : List Prim × Flags :=
  let f1 := initF f
  let (p2, f2) :=
    if c.safe || f1.recalc then
      let (ps, fs) := if !f1.isSync then ((vSyncOps c f1).1 ++ [Prim.warn], (vSyncOps c f1).2) else ([], f1)
      (ps ++ [Prim.fromInertial], { fs with recalc := false, isSync := c.p1fix || fs.isSync })
    else ([], f1)
  let drift := if f2.isSync then [Prim.kepler (.frac 1 2), .com (.frac 1 2)]
               else [.kepler (.frac 1 1), .com (.frac 1 1)]
  (.init :: p2 ++ drift ++ [.jump (.frac 1 2), .toInertial, .varComDrift (.frac 1 2), .varToInertialPos,
    .advT (.frac 1 2)], f2)

def vPart2Ops (c : Config) (f : Flags) : List Prim × Flags :=
  let f1 := { f with isSync := false }
  let (ps, f2) := if c.safe then vSyncOps c f1 else ([], f1)
  -- the N_var_config block (whfast.c:1197-1268): synchronize with keep_unsynchronized switched off
  let (pv, f3) := vSyncOps { c with keep := false } f2
  let blk := (if c.keep then [Prim.savePJ] else []) ++ pv ++
    [.varComDrift (.frac 1 2), .varToInertialPosvel] ++
    (if c.keep then Prim.restorePJ :: (if c.vfix then [.varComDrift (.frac 1 2)] else []) else [])
  ([.interaction (.frac 1 1), .jump (.frac 1 2)] ++ ps ++ [.advT (.frac 1 2)] ++ blk,
   if c.keep then { f3 with isSync := false } else f3)

/-- part1, acceleration update, part2 — `reb_simulation_step` up to (not including) the post-timestep
    callback and `reb_simulation_rescale_var` (rebound.c:140-149: the callback comes first) -/
def vStepCore (c : Config) (f : Flags) : List Prim × Flags :=
  let (p1, f1) := vPart1Ops c f
  let (p2, f2) := vPart2Ops c f1
  (p1 ++ [.updateAcc] ++ p2, f2)

/-- a step without post-timestep callback -/
def vStepOps (c : Config) (f : Flags) : List Prim × Flags :=
  ((vStepCore c f).1 ++ [.rescaleVar], (vStepCore c f).2)

/-! ## SABA (integrator_saba.c) -/

/-- `ri_saba`: `type` as in the C enum (`0x0..0x9`, `0x100+k` modified-kick corrector,
    `0x200+k` lazy corrector) -/
structure SabaConfig where
  type : Nat
  safe : Bool
  keep : Bool
  /-- source variant of `reb_integrator_saba_synchronize`: is the keep_unsynchronized copy of
      `p_jh` taken inside the `is_synchronized == 0` test (repaired, fix 588d1fa) or before it
      (as found: NULL dereference before the first step, finding F19)?  Detected by rv/c09.py. -/
  copyInside : Bool := false
  /-- source variant of part1 (35adc5c): `is_synchronized = 1` after `from_inertial` (see `Config.p1fix`) -/
  p1fix : Bool := false
  /-- source variant of part1: as found, `safe_mode || recalculate…` runs `from_inertial` on the
      particles as they are — stale if the integrator is unsynchronised (finding
      C09:saba-part1-recalculates-unsynchronised); repaired: synchronize (and warn) first. -/
  p1sync : Bool := false
  deriving DecidableEq, Repr, Inhabited

def sabaTypeOk (t : Nat) : Bool :=
  t ≤ 9 || (0x100 ≤ t && t ≤ 0x103) || (0x200 ≤ t && t ≤ 0x203)

/-- `reb_saba_stages` -/
def sabaStages (t : Nat) : Nat :=
  match t % 0x100, t / 0x100 with
  | 0, _ => 1 | 1, _ => 2 | 2, _ => 3 | 3, _ => 4
  | 7, 0 => 6 | 4, 0 => 7 | 5, 0 => 7 | 6, 0 => 8 | 8, 0 => 8 | 9, 0 => 9
  | _, _ => 0

/-- `reb_saba_corrector_step(r, cc)` with `cc = mult · reb_saba_cc[row]` -/
def sabaCorrOps (t : Nat) (mult : Int) : List Prim :=
  let row := t % 0x100
  match t / 0x100 with
  | 1 => [.posJacobiAll, .updateAcc, .jerk, .sabaFold, .interaction (.sabaCC row mult)]
  | 2 => [.posJacobiAll, .updateAcc, .jacAccAll, .lazyShift, .posJacobiAll, .updateAcc, .jacAccAll,
          .sabaLazyKick (.sabaCC row mult)]
  | _ => []

/-- `reb_integrator_saba_synchronize` (no init call; in the source as found the copy of `p_jh`
    is taken even when already synchronised) -/
def sabaSyncOps (c : SabaConfig) (f : Flags) : List Prim × Flags :=
  let row := c.type % 0x100
  let pre := if c.keep then [Prim.savePJ] else []
  if f.isSync then (if c.copyInside then [] else pre, f) else
  let body := (if c.type ≥ 0x100 then sabaCorrOps c.type 1
               else [.kepler (.sabaC row 0 1), .com (.sabaC row 0 1)]) ++ [.toInertialAll]
  (pre ++ body ++ (if c.keep then [Prim.restorePJ] else []),
   if c.keep then f else { f with isSync := true })

/-- `reb_integrator_saba_part1` -/
def sabaPart1Ops (c : SabaConfig) (f : Flags) : List Prim × Flags :=
  let row := c.type % 0x100
  let f1 := initF f
  let (p2, f2) :=
    if c.safe || f1.recalc then
      -- repaired source (`p1sync`): synchronize first when unsynchronised, as WHFast's part1 does
      let (ps, fs) := if c.p1sync && !f1.isSync then ((sabaSyncOps c f1).1 ++ [Prim.warn], (sabaSyncOps c f1).2)
                      else ([], f1)
      (ps ++ [Prim.fromInertial], { fs with recalc := false, isSync := c.p1fix || fs.isSync })
    else ([], f1)
  let drift :=
    if c.type ≥ 0x100 then
      sabaCorrOps c.type (if f2.isSync then 1 else 2) ++ [.kepler (.sabaC row 0 1), .com (.sabaC row 0 1)]
    else if f2.isSync then [.kepler (.sabaC row 0 1), .com (.sabaC row 0 1)]
    else [.kepler (.sabaC row 0 2), .com (.sabaC row 0 2)]
  ([.sabaInit (c.type ≥ 0x100), .init] ++ p2 ++ drift ++ [.toInertial], f2)

/-- the stage loop of `reb_integrator_saba_part2` (j = 1 … stages-1) -/
def sabaStageOps (row stages : Nat) : Nat → Nat → List Prim
  | 0, _ => []
  | fuel + 1, j =>
    if j < stages then
      let i1 := if j > stages / 2 then stages - j else j
      let i2 := if j > (stages - 1) / 2 then stages - j - 1 else j
      [.kepler (.sabaC row i1 1), .com (.sabaC row i1 1), .posJacobiAll, .updateAcc,
       .interaction (.sabaD row i2)] ++ sabaStageOps row stages fuel (j + 1)
    else []

/-- `reb_integrator_saba_part2` -/
def sabaPart2Ops (c : SabaConfig) (f : Flags) : List Prim × Flags :=
  let row := c.type % 0x100
  let stages := sabaStages c.type
  let f1 := { f with isSync := false }
  let (ps, f2) := if c.safe then sabaSyncOps c f1 else ([], f1)
  ([.interaction (.sabaD row 0)] ++ sabaStageOps row stages stages 1 ++
   (if c.type ≥ 0x100 then [.kepler (.sabaC row 0 1), .com (.sabaC row 0 1)] else []) ++
   ps ++ [.advT (.frac 1 1)], f2)

def sabaStepOps (c : SabaConfig) (f : Flags) : List Prim × Flags :=
  let (p1, f1) := sabaPart1Ops c f
  let (p2, f2) := sabaPart2Ops c f1
  (p1 ++ [.updateAcc] ++ p2, f2)

/-! ## API operations -/

/-- `read` = energy / angular momentum / orbits / copy / save: in this version of the code
    none of them synchronises, they only read.  `setRecalc` = the user sets
    `recalculate_coordinates_this_timestep`; `poke x` = the user overwrites particle
    positions/velocities (and may or may not also `setRecalc`). -/
inductive Op (X : Type) where
  | step | synchronize | read | setRecalc | poke (x : X)
  deriving Repr

def Op.isStep {X} : Op X → Bool | .step => true | _ => false
/-- operations the property quantifies over: no user modification of particles -/
def Op.benign {X} : Op X → Bool | .step | .synchronize | .read => true | _ => false

/-- operations that are *kept* when the read-only / synchronize calls are filtered out of a
    sequence: steps and everything the user does to flags or particles -/
def Op.isKept {X} : Op X → Bool | .step | .setRecalc | .poke _ => true | _ => false

def opOps {X} (c : Config) (f : Flags) : Op X → List Prim × Flags
  | .step => stepOps c f
  | .synchronize => syncOps c f
  | .read => ([], f)
  | .setRecalc => ([], { f with recalc := true })
  | .poke _ => ([], f)

/-! ## MERCURIUS (integrator_mercurius.c:428-546) — kick first; `r->particles` itself holds
    democratic heliocentric coordinates while unsynchronised -/

inductive MPrim where
  | allocDcrit                   -- dcrit := realloc(N)                       (436-444)
  | allocTmp                     -- particles_backup, encounter_map := realloc (445-451)
  | warn
  | toDh                         -- reb_integrator_mercurius_inertial_to_dh
  | toInertial                   -- reb_integrator_mercurius_dh_to_inertial
  | dcrit                        -- dcrit[i] := calculate_dcrit_for_particle   (470-473)
  | setup                        -- gravity := MERCURIUS; mode := 0; L := default if NULL
  | updateAcc                    -- reb_calculate_acceleration / reb_simulation_update_acceleration
  | interaction (τ : Coef)       -- reb_integrator_mercurius_interaction_step
  | jump (τ : Coef)              -- reb_integrator_mercurius_jump_step
  | com (τ : Coef)               -- reb_integrator_mercurius_com_step
  | keplerEncounter (τ : Coef)   -- backup; kepler_step; encounter_predict; encounter_step (506-516)
  | advT (τ : Coef)
  /-- coarse replay (steps with close encounters, whose prediction / IAS15 sub-integration are
      `static`): call the exported `reb_integrator_mercurius_part2` as a whole, with
      `is_synchronized` set to what the flag machine says at this point -/
  | part2 (isSync : Bool)
  deriving DecidableEq, Repr, Inhabited

def MPrim.toString : MPrim → String
  | .allocDcrit => "mAllocD" | .allocTmp => "mAllocT" | .warn => "warn"
  | .toDh => "mToDh" | .toInertial => "mToI" | .dcrit => "mDcrit" | .setup => "mSetup"
  | .updateAcc => "upd" | .interaction τ => "mI=" ++ τ.toString | .jump τ => "mJ=" ++ τ.toString
  | .com τ => "mC=" ++ τ.toString | .keplerEncounter τ => "mKE=" ++ τ.toString
  | .advT τ => "T=" ++ τ.toString
  | .part2 b => if b then "mPart2=1" else "mPart2=0"

structure MFlags where
  isSync : Bool        -- is_synchronized
  recalc : Bool        -- recalculate_coordinates_this_timestep
  recalcR : Bool       -- recalculate_r_crit_this_timestep
  allocD : Bool        -- N_allocated_dcrit >= N
  allocT : Bool        -- N_allocated >= N
  deriving DecidableEq, Repr, Inhabited

/-- `reb_integrator_mercurius_synchronize` -/
def mSyncOps (f : MFlags) : List MPrim × MFlags :=
  if f.isSync then ([], f) else
  ([.setup, .updateAcc, .interaction (.frac 1 2), .toInertial], { f with recalc := true, isSync := true })

/-- `reb_integrator_mercurius_part1` -/
def mPart1Ops (safe : Bool) (f : MFlags) : List MPrim × MFlags :=
  let (p0, f0) := if !f.allocD then ([MPrim.allocDcrit], { f with allocD := true, recalcR := true, recalc := true })
                  else ([], f)
  let (p1, f1) := if !f0.allocT then ([MPrim.allocTmp], { f0 with allocT := true }) else ([], f0)
  let (p2, f2) :=
    if safe || f1.recalc then
      let (ps, fs) := if !f1.isSync then ((mSyncOps f1).1 ++ [MPrim.warn], (mSyncOps f1).2) else ([], f1)
      (ps ++ [MPrim.toDh], { fs with recalc := false })
    else ([], f1)
  let (p3, f3) :=
    if f2.recalcR then
      let g := { f2 with recalcR := false }
      let (ps, fs) := if !g.isSync then ((mSyncOps g).1 ++ [MPrim.toDh, MPrim.warn], { (mSyncOps g).2 with recalc := false })
                      else ([], g)
      (ps ++ [MPrim.dcrit], fs)
    else ([], f2)
  (p0 ++ p1 ++ p2 ++ p3 ++ [.setup], f3)

/-- `reb_integrator_mercurius_part2` -/
def mPart2Ops (safe : Bool) (f : MFlags) : List MPrim × MFlags :=
  let f1 := { f with isSync := false }
  let (ps, f2) := if safe then mSyncOps f1 else ([], f1)
  ([.interaction (if f.isSync then .frac 1 2 else .frac 1 1), .jump (.frac 1 2), .com (.frac 1 1),
    .keplerEncounter (.frac 1 1), .jump (.frac 1 2)] ++ ps ++ [.advT (.frac 1 1)], f2)

def mStepOps (safe : Bool) (f : MFlags) : List MPrim × MFlags :=
  let (p1, f1) := mPart1Ops safe f
  let (p2, f2) := mPart2Ops safe f1
  (p1 ++ [.updateAcc] ++ p2, f2)

/-- the same step at the granularity that is exported when a close encounter happens: part1 through
    its primitives (allocation of `dcrit` / `encounter_map`, recalculation of coordinates and critical
    radii, the synchronize it may need first), the acceleration update, then part2 as one call; the
    flags after the step are those of the fine-grained machine -/
def mStepOpsCoarse (safe : Bool) (f : MFlags) : List MPrim × MFlags :=
  let (p1, f1) := mPart1Ops safe f
  (p1 ++ [.updateAcc, .part2 f1.isSync], (mPart2Ops safe f1).2)

def mOpOpsCoarse {X} (safe : Bool) (f : MFlags) : Op X → List MPrim × MFlags
  | .step => mStepOpsCoarse safe f
  | .synchronize => mSyncOps f
  | .read => ([], f)
  | .setRecalc => ([], { f with recalc := true })
  | .poke _ => ([], f)

/-- the user sets `recalculate_r_crit_this_timestep` -/
def mSetRcrit (f : MFlags) : MFlags := { f with recalcR := true }

/-- API ops for MERCURIUS: `setRecalc` sets `recalculate_coordinates_this_timestep` -/
def mOpOps {X} (safe : Bool) (f : MFlags) : Op X → List MPrim × MFlags
  | .step => mStepOps safe f
  | .synchronize => mSyncOps f
  | .read => ([], f)
  | .setRecalc => ([], { f with recalc := true })
  | .poke _ => ([], f)

/-! ## EOS (integrator_eos.c:538-721): the outer scheme `phi0`.  Its operators are `static` in
    the C file, so there is no replay; the model keeps the schedule abstract: `drift k` is the
    k-fold of the scheme's first outer drift `a₀·dt` (k = 1 in a fresh step and in synchronize,
    k = 2 when two half drifts are merged, `dtfac = 2.`), `body` everything of the kernel after
    that first drift (identical in both branches of `reb_integrator_eos_part2`). -/

inductive EPrim where
  | pre | post                   -- reb_integrator_eos_preprocessor / postprocessor (phi0)
  | drift (k : Nat)              -- reb_integrator_eos_drift_shell0(r, k * a0 * dt)
  | body                         -- the rest of the phi0 kernel
  deriving DecidableEq, Repr, Inhabited

/-- `reb_integrator_eos_synchronize` -/
def eSyncOps (isSync : Bool) : List EPrim × Bool :=
  if isSync then ([], true) else ([.drift 1, .post], true)

/-- `reb_integrator_eos_part2` (part1 only switches gravity off) -/
def eStepOps (safe isSync : Bool) : List EPrim × Bool :=
  let head := if isSync then [EPrim.pre, .drift 1] else [.drift 2]
  let (ps, f) := if safe then eSyncOps false else ([], false)
  (head ++ [.body] ++ ps, f)

def vOpOps {X} (c : Config) (f : Flags) : Op X → List Prim × Flags
  | .step => vStepOps c f
  | .synchronize => vSyncOps c f
  | .read => ([], f)
  | .setRecalc => ([], { f with recalc := true })
  | .poke _ => ([], f)

/-- magnitude abstraction for `reb_simulation_rescale_var`: does some coordinate of a set of
    variational particles exceed 1e100 — in `r->particles` (`bigP`) and in the copy `p_jh` keeps
    (`bigJ`)?  `from_inertial` copies P to J, every regeneration of the particles from `p_jh`
    (end of part1, synchronize) copies J to P, a successful rescaling clears P *only*. -/
structure VMag where
  bigP : Bool
  bigJ : Bool
  deriving DecidableEq, Repr, Inhabited

/-- magnitude effect of part1 + part2: `from_inertial` runs iff safe_mode or the recalculate flag -/
def vMagStep (c : Config) (f : Flags) (m : VMag) : VMag :=
  let j := if c.safe || (initF f).recalc then m.bigP else m.bigJ
  ⟨j, j⟩

def vMagSync (f : Flags) (m : VMag) : VMag :=
  if (initF f).isSync then m else ⟨m.bigJ, m.bigJ⟩

/-- `reb_simulation_rescale_var` at the end of a step (tools.c; the particle part is the primitive
    `rescaleVar`).  It rescales only if the integrator is synchronised ("Rescaling failed because
    integrator was not synchronized" otherwise — always the case with keep_unsynchronized); after a
    successful rescaling it sets `recalculate_coordinates_this_timestep` so that the next step
    rebuilds `p_jh` from the rescaled particles — as found only `if safe_mode == 0` (`rfix = false`),
    which leaves a stale, un-rescaled `p_jh` behind when safe_mode is switched off before the next
    step (finding C09:rescale-var-stale-pjh-after-safe-mode-off); repaired (`rfix`) always.
    Returns the new flags, the new magnitudes and whether a rescaling was performed. -/
def vRescaleF (rfix : Bool) (c : Config) (f : Flags) (m : VMag) : Flags × VMag × Bool :=
  if m.bigP && f.isSync then ({ f with recalc := f.recalc || !c.safe || rfix }, { m with bigP := false }, true)
  else (f, m, false)

/-- `vOpOps` with the magnitudes threaded through; last component: a rescaling was performed -/
def vOpOpsR {X} (rfix : Bool) (c : Config) (f : Flags) (m : VMag) : Op X → List Prim × (Flags × VMag × Bool)
  | .step => ((vStepOps c f).1, vRescaleF rfix c (vStepOps c f).2 (vMagStep c f m))
  | .synchronize => ((vSyncOps c f).1, ((vSyncOps c f).2, vMagSync f m, false))
  | o => ((vOpOps c f o).1, ((vOpOps c f o).2, m, false))

/-- the same split as the source does it: the step without its rescaling … -/
def vCoreOpsR {X} (c : Config) (f : Flags) (m : VMag) : Op X → List Prim × (Flags × VMag)
  | .step => ((vStepCore c f).1, ((vStepCore c f).2, vMagStep c f m))
  | .synchronize => ((vSyncOps c f).1, ((vSyncOps c f).2, vMagSync f m))
  | o => ((vOpOps c f o).1, ((vOpOps c f o).2, m))

/-- … and `reb_simulation_rescale_var`, which `reb_simulation_step` calls *after* the post-timestep
    callback (so with the flags that callback's synchronize / recalculate settings left) -/
def vStepTailR (rfix : Bool) (c : Config) (f : Flags) (m : VMag) : List Prim × (Flags × VMag × Bool) :=
  ([.rescaleVar], vRescaleF rfix c f m)

theorem vOpOpsR_step_eq (rfix : Bool) (c : Config) (f : Flags) (m : VMag) :
    vOpOpsR rfix c f m (.step : Op Unit) =
      ((vCoreOpsR c f m (.step : Op Unit)).1 ++
        (vStepTailR rfix c (vCoreOpsR c f m (.step : Op Unit)).2.1 (vCoreOpsR c f m (.step : Op Unit)).2.2).1,
       (vStepTailR rfix c (vCoreOpsR c f m (.step : Op Unit)).2.1 (vCoreOpsR c f m (.step : Op Unit)).2.2).2) := rfl

def sabaOpOps {X} (c : SabaConfig) (f : Flags) : Op X → List Prim × Flags
  | .step => sabaStepOps c f
  | .synchronize => sabaSyncOps c f
  | .read => ([], f)
  | .setRecalc => ([], { f with recalc := true })
  | .poke _ => ([], f)

/-- explicit error value: "Invalid SABA integrator type used." -/
def sabaApiOps {X} (c : SabaConfig) (f : Flags) (o : Op X) : Except String (List Prim × Flags) :=
  if !sabaTypeOk c.type then .error "saba: invalid type" else
  match o with
  | .synchronize =>
    -- saba.c:276-279 copies `p_jh` before looking at `is_synchronized`: NULL before the first step
    if c.keep && !c.copyInside && !f.allocated then .error "crash: saba synchronize copies p_jh == NULL (F19)"
    else .ok (sabaOpOps c f o)
  | _ => .ok (sabaOpOps c f o)

/-- explicit error value: the configurations `reb_integrator_whfast_init` rejects -/
def apiOps {X} (c : Config) (f : Flags) (o : Op X) : Except String (List Prim × Flags) :=
  if initOk c then .ok (opOps c f o) else .error "whfast_init: configuration rejected"

/-! ## `reb_simulation_integrate` around the steps (rebound.c:653-712 `reb_check_exit`,
    795-886 `reb_simulation_integrate_raw`)

    `integrate(tmax)` is, in terms of the flag machine, a *plan* of API operations interleaved
    with the three places where the code assigns `r->dt`:
    * `flipDt`    — `r->dt = copysign(r->dt, dt_sign)` at entry (only an event when the sign changes),
    * `setDtLast` — `r->dt = tmax - r->t` in the "next step would overshoot" branches of
                    `reb_check_exit` (both are preceded by `reb_simulation_synchronize`),
    * `restoreDt` — `r->dt = last_full_dt` after the final synchronize (`exact_finish_time == 1`).
    `n` = number of full steps, `k` = number of shortened last steps (0, 1, rarely 2): they are
    decided by the floating-point time arithmetic, which rv/c09.py emulates (and C08 verifies).
    `syncFirst`: source variant — the repaired entry (fixes/C09-integrate-reverse-sync.diff)
    synchronises before the sign of `dt` is changed. -/

/-- `reb_simulation_step` with the user callbacks `pre_timestep_modifications` /
    `post_timestep_modifications` (rebound.c:89-94, 144-149), in terms of the op alphabet: the
    callback (a particle edit, `poke`) is preceded by a synchronize and followed by setting the
    recalculate flags — in that order -/
def cbStepPlan {X} (pre post : Option X) : List (Op X) :=
  (match pre with | some v => [Op.synchronize, .poke v, .setRecalc] | none => []) ++ [.step] ++
  (match post with | some w => [Op.synchronize, .poke w, .setRecalc] | none => [])

/-- sequences of public calls in which particles are edited only through the step callbacks -/
inductive MOp (X : Type) where
  | cbStep (pre post : Option X)     -- reb_simulation_step with / without callbacks that edit particles
  | synchronize
  | read
  deriving Repr

def MOp.expand {X} : MOp X → List (Op X)
  | .cbStep pre post => cbStepPlan pre post
  | .synchronize => [.synchronize]
  | .read => [.read]

def expandAll {X} (l : List (MOp X)) : List (Op X) := l.flatMap MOp.expand

/-- are all particle edits of an op sequence seen and picked up?  every `poke` is executed in a
    synchronised state (`isS`), and the step that follows an edit is entered synchronised with the
    recalculate flag set (`isR`), so that part1 transforms the edited particles and no synchronize
    overwrites them first.  Generic in the integrator's flag transitions. -/
def editOk {F X : Type} (stepF syncF setF : F → F) (isS isR : F → Bool) : List (Op X) → Bool → F → Bool
  | [], _, _ => true
  | .step :: r, pending, f => (!pending || (isS f && isR f)) && editOk stepF syncF setF isS isR r false (stepF f)
  | .synchronize :: r, p, f => editOk stepF syncF setF isS isR r p (syncF f)
  | .read :: r, p, f => editOk stepF syncF setF isS isR r p f
  | .setRecalc :: r, p, f => editOk stepF syncF setF isS isR r p (setF f)
  | .poke _ :: r, _, f => isS f && editOk stepF syncF setF isS isR r true f

inductive DtOp where
  | api (o : Op Unit)
  /-- synchronize that ignores `keep_unsynchronized` (repaired source only:
      `reb_simulation_synchronize_before_dt_change`, fixes/C09-exact-finish-keep-unsynchronized.diff) -/
  | forceSync
  | begin          -- last_full_dt := dt ; dt_last_done := 0
  | flipDt | setDtLast | restoreDt
  /-- the user sets `ri_mercurius.recalculate_r_crit_this_timestep = 1` (after changing a mass or a
      radius); only MERCURIUS has this flag (`mSetRcrit`) -/
  | setRcrit
  /-- the user changes `safe_mode` / `keep_unsynchronized` of the integrator in use between two calls
      (e.g. `Simulationarchive.getSimulation` sets keep_unsynchronized on a loaded simulation) -/
  | setSafe (b : Bool)
  | setKeep (b : Bool)
  deriving Repr

/-- the synchronize that precedes an assignment to `dt` -/
def syncBeforeDt (force : Bool) : DtOp := if force then .forceSync else .api .synchronize

def lastStepBlock (force : Bool) : Nat → List DtOp
  | 0 => []
  | k + 1 => [syncBeforeDt force, .setDtLast, .api .step] ++ lastStepBlock force k

/-- the end of `reb_simulation_integrate_raw`: synchronize, then (exact_finish_time) `dt :=
    last_full_dt`; `restoreChanges` = that assignment changes `dt` (a shortened step was taken).
    In the repaired source the assignment is preceded by a forced synchronize when it changes `dt`. -/
def finalBlock (force exact restoreChanges : Bool) : List DtOp :=
  [.api .synchronize] ++
  (if exact && restoreChanges then (if force then [DtOp.forceSync, .restoreDt] else [.restoreDt]) else [])

/-- `syncFirst`: the entry synchronises before the sign of `dt` changes (fix 8b9ebd4);
    `force`: the synchronisations that precede an assignment to `dt` ignore keep_unsynchronized -/
def integratePlan (n k : Nat) (exact reverse syncFirst force restoreChanges : Bool) : List DtOp :=
  (if reverse then (if syncFirst then [syncBeforeDt force, .flipDt] else [.flipDt]) else []) ++
  [.begin] ++ (List.replicate n (DtOp.api .step)) ++ lastStepBlock force k ++
  finalBlock force exact restoreChanges

/-- does every assignment to `dt` in the plan happen in a synchronised state?
    (generic in the integrator: `stepF` / `syncF` / `forceF` are its flag transitions) -/
def dtOk {F : Type} (stepF syncF forceF : F → F) (isS : F → Bool) : List DtOp → F → Bool
  | [], _ => true
  | .api .step :: r, f => dtOk stepF syncF forceF isS r (stepF f)
  | .api .synchronize :: r, f => dtOk stepF syncF forceF isS r (syncF f)
  | .api _ :: r, f => dtOk stepF syncF forceF isS r f
  | .forceSync :: r, f => dtOk stepF syncF forceF isS r (forceF f)
  | .begin :: r, f => dtOk stepF syncF forceF isS r f
  | .setRcrit :: r, f | .setSafe _ :: r, f | .setKeep _ :: r, f => dtOk stepF syncF forceF isS r f
  | .flipDt :: r, f | .setDtLast :: r, f | .restoreDt :: r, f =>
    isS f && dtOk stepF syncF forceF isS r f

/-! ## denotation over uninterpreted primitives

    The components of the state are the *footprints*: `pj` = `ri_whfast.p_jh` (internal
    coordinates, incl. its own mass/acceleration members), `pos` / `vel` / `acc` = positions,
    velocities, accelerations of `r->particles`, `saved` = `sync_pj`, `tmp` =
    `ri_whfast.p_temp`.  Masses, radii, G, dt, N_active are constants of the run (no
    primitive writes them) and are closed over by the functions of `Sem`.  The *types* of
    the fields of `Sem` state which components a primitive reads and which it overwrites
    completely; this footprint table is tested against the real primitives by rv/c09.py
    (perturb what is claimed unread, compare what is claimed written).  -/

structure St (PJ X V A : Type) where
  pj : PJ
  pos : X
  vel : V
  acc : A
  saved : PJ
  tmp : PJ

structure Sem (T PJ X V A : Type) where
  ev : Coef → T
  fromI : X → V → PJ → PJ       -- overwrites pos/vel/mass of p_jh, keeps its acc members
  toIpos : PJ → X               -- *_to_inertial_posvel overwrites all positions …
  toIvel : PJ → V               -- … and all velocities
  posJ : PJ → X                 -- jacobi_to_inertial_pos overwrites all positions
  posB : PJ → X
  kepler : T → PJ → PJ
  com : T → PJ → PJ
  jump : T → PJ → PJ
  inter : T → A → PJ → PJ
  upd : X → A                   -- gravity: reads positions, overwrites all accelerations
  jerk : X → A → PJ → PJ
  mkFold : PJ → A → A
  jacAcc : A → PJ → PJ
  lazyShift : PJ → PJ
  lazyReset : PJ → PJ → PJ      -- tmp, pj
  sabaFold : PJ → A
  sabaLazyKick : T → PJ → PJ → PJ

variable {T PJ X V A : Type}

def denote (S : Sem T PJ X V A) : Prim → St PJ X V A → St PJ X V A
  | .init, s | .warn, s | .advT _, s | .sabaInit _, s => s
  | .varComDrift _, s | .varToInertialPos, s | .varToInertialPosvel, s | .rescaleVar, s => s
  | .posJacobiAll, s => { s with pos := S.posJ s.pj }
  | .jacAccAll, s => { s with pj := S.jacAcc s.acc s.pj }
  | .toInertialAll, s => { s with pos := S.toIpos s.pj, vel := S.toIvel s.pj }
  | .fromInertial, s => { s with pj := S.fromI s.pos s.vel s.pj }
  | .toInertial, s => { s with pos := S.toIpos s.pj, vel := S.toIvel s.pj }
  | .posJacobi, s => { s with pos := S.posJ s.pj }
  | .posBary, s => { s with pos := S.posB s.pj }
  | .kepler τ, s => { s with pj := S.kepler (S.ev τ) s.pj }
  | .com τ, s => { s with pj := S.com (S.ev τ) s.pj }
  | .jump τ, s => { s with pj := S.jump (S.ev τ) s.pj }
  | .interaction τ, s => { s with pj := S.inter (S.ev τ) s.acc s.pj }
  | .updateAcc, s => { s with acc := S.upd s.pos }
  | .jerk, s => { s with pj := S.jerk s.pos s.acc s.pj }
  | .mkFold, s => { s with acc := S.mkFold s.pj s.acc }
  | .jacAcc, s => { s with pj := S.jacAcc s.acc s.pj }
  | .lazyShift, s => { s with tmp := s.pj, pj := S.lazyShift s.pj }
  | .lazyReset, s => { s with pj := S.lazyReset s.tmp s.pj }
  | .savePJ, s => { s with saved := s.pj }
  | .restorePJ, s => { s with pj := s.saved }
  | .sabaFold, s => { s with acc := S.sabaFold s.pj }
  | .sabaLazyKick τ, s => { s with pj := S.sabaLazyKick (S.ev τ) s.tmp s.pj }

def exec (S : Sem T PJ X V A) : List Prim → St PJ X V A → St PJ X V A
  | [], s => s
  | p :: ps, s => exec S ps (denote S p s)

/-- one API operation on (flags, state) -/
def apply (S : Sem T PJ X V A) (c : Config) (o : Op (X × V)) (x : Flags × St PJ X V A) :
    Flags × St PJ X V A :=
  let r := opOps c x.1 o
  let s := exec S r.1 x.2
  (r.2, match o with | .poke v => { s with pos := v.1, vel := v.2 } | _ => s)

def run (S : Sem T PJ X V A) (c : Config) :
    List (Op (X × V)) → Flags × St PJ X V A → Flags × St PJ X V A
  | [], x => x
  | o :: os, x => run S c os (apply S c o x)

/-! ## dataflow analysis: which components two runs agree on -/

/-- a set of state components -/
structure Comps where
  pj : Bool
  pos : Bool
  vel : Bool
  acc : Bool
  saved : Bool
  tmp : Bool
  deriving DecidableEq, Repr

def agree (L : Comps) (s s' : St PJ X V A) : Prop :=
  (L.pj = true → s.pj = s'.pj) ∧ (L.pos = true → s.pos = s'.pos) ∧ (L.vel = true → s.vel = s'.vel) ∧
  (L.acc = true → s.acc = s'.acc) ∧ (L.saved = true → s.saved = s'.saved) ∧ (L.tmp = true → s.tmp = s'.tmp)

/-- if two states agree on `L` before primitive `p`, they agree on `transfer p L` after -/
def transfer : Prim → Comps → Comps
  | .init, L | .warn, L | .advT _, L | .sabaInit _, L => L
  | .varComDrift _, L | .varToInertialPos, L | .varToInertialPosvel, L | .rescaleVar, L => L
  | .fromInertial, L => { L with pj := L.pos && L.vel && L.pj }
  | .toInertial, L | .toInertialAll, L => { L with pos := L.pj, vel := L.pj }
  | .posJacobi, L | .posBary, L | .posJacobiAll, L => { L with pos := L.pj }
  | .kepler _, L | .com _, L | .jump _, L => L
  | .lazyShift, L => { L with tmp := L.pj }
  | .interaction _, L | .jacAcc, L | .jacAccAll, L => { L with pj := L.acc && L.pj }
  | .updateAcc, L => { L with acc := L.pos }
  | .jerk, L => { L with pj := L.pos && L.acc && L.pj }
  | .mkFold, L => { L with acc := L.pj && L.acc }
  | .lazyReset, L => { L with pj := L.tmp && L.pj }
  | .savePJ, L => { L with saved := L.pj }
  | .restorePJ, L => { L with pj := L.saved }
  | .sabaFold, L => { L with acc := L.pj }
  | .sabaLazyKick _, L => { L with pj := L.tmp && L.pj }

def transferList : List Prim → Comps → Comps
  | [], L => L
  | p :: ps, L => transferList ps (transfer p L)

end RV.Sync
