import RV.Model.Transform
/-
  Model of `reb_whfast_interaction_step` for REB_WHFAST_COORDINATES_JACOBI
  (src/integrator_whfast.c:357-405), every particle active, no variational particles,
  `gravity != REB_GRAVITY_JACOBI` (so the step adds the Jacobi term itself):

      reb_particles_transform_inertial_to_jacobi_acc(particles, p_j, particles, N, N);
      eta = m0;
      for i = 1 .. N-1:   eta += m_i;  p_j[i].v += dt * p_j[i].a;
                          if (i>1){ rj2i = 1/(|x'_i|² + softening²); rji = sqrt(rj2i);
                                    rj3iM = rji*rj2i*G*eta; p_j[i].v += (dt*rj3iM) * x'_i; }

  The acceleration transform is the component map `jacFwd` of RV/Model/Transform.lean (C12).
-/
namespace RV.WHInt
open RV Scalar RV.Transform
variable {K : Type} [Scalar K]

/-- one Jacobi body `i ≥ 1`: particle mass, Jacobi position and velocity held in `p_jh` -/
structure JB (K : Type) where
  m : K
  x : V3 K
  v : V3 K

/-- the `for (int i=1;i<N_real;i++)` loop; `i` = index of the head of `bodies`, `eta` = running mass
    before it, `accs` = Jacobi accelerations of the same bodies -/
def kickLoop (sqrt : K → K) (G soft dt : K) : Nat → K → List (JB K) → List (V3 K) → List (V3 K)
  | _, _, [], _ => []
  | _, _, _ :: _, [] => []
  | i, eta, b :: r, a :: ra =>
    let eta' := eta + b.m
    let v1 : V3 K := ⟨b.v.x + dt * a.x, b.v.y + dt * a.y, b.v.z + dt * a.z⟩
    let v2 : V3 K :=
      if 1 < i then
        let rj2i := Scalar.one / (b.x.x * b.x.x + b.x.y * b.x.y + b.x.z * b.x.z + soft * soft)
        let rji := sqrt rj2i
        let rj3iM := rji * rj2i * G * eta'
        let prefac1 := dt * rj3iM
        ⟨v1.x + prefac1 * b.x.x, v1.y + prefac1 * b.x.y, v1.z + prefac1 * b.x.z⟩
      else v1
    v2 :: kickLoop sqrt G soft dt (i + 1) eta' r ra

/-- Jacobi accelerations of the bodies `i ≥ 1` from the inertial ones (`a0` = particle 0, `as` = the others) -/
def jacAcc (m0 : K) (a0 : V3 K) (ms : List K) (as : List (V3 K)) : List (V3 K) :=
  let ox := (jacFwd m0 a0.x (ms.zip (as.map (·.x))) []).act
  let oy := (jacFwd m0 a0.y (ms.zip (as.map (·.y))) []).act
  let oz := (jacFwd m0 a0.z (ms.zip (as.map (·.z))) []).act
  (ox.zip (oy.zip oz)).map fun t => ⟨t.1, t.2.1, t.2.2⟩

/-- new `p_j[i].v`, `i = 1 .. N-1` -/
def interactionJacobi (sqrt : K → K) (G soft dt m0 : K) (a0 : V3 K) (bodies : List (JB K)) (as : List (V3 K)) :
    List (V3 K) :=
  kickLoop sqrt G soft dt 1 m0 bodies (jacAcc m0 a0 (bodies.map (·.m)) as)

end RV.WHInt
