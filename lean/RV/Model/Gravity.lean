import RV.Scalar
/-
  Model of `reb_calculate_acceleration` (src/gravity.c:58-996), the ghost-box shifts of
  `reb_boundary_get_ghostbox` (src/boundary.c:148-199, OPEN/PERIODIC/NONE) and the
  Barnes-Hut walk (src/gravity.c:1435-1487), written over an operation-only scalar type
  in the operation order of the C source (non-OPENMP, non-MPI, non-QUADRUPOLE build).

  * accelerations live in an `Array (V3 K)` that is updated in place by the loop nests,
    exactly as `particles[i].ax += …; particles[j].ax += …` in C;
  * every `for (int i=a; i<b; i++)` is `forRange a b` (empty when `b ≤ a`, like C);
  * the scalar pair kernel (`G/(_r*_r*_r)` with `_r = sqrt(…)`, times the routine's
    weight) is a *parameter* `pref s i j` of the loop nests: the drivers instantiate it
    with the C expression on `Float`, the theorems hold for every `pref`.
-/
namespace RV.Gravity
open RV Scalar
variable {K : Type} [Scalar K]

structure Body (K : Type) where
  m : K
  p : V3 K
deriving Inhabited

abbrev Acc (K : Type) := Array (V3 K)

/-- `for (int i=a; i<b; i++)` -/
@[inline] def forRange {σ : Type} (a b : Nat) (s : σ) (f : σ → Nat → σ) : σ :=
  (List.range' a (b - a)).foldl f s

/-- `particles[i].ax += f*dx; …ay += f*dy; …az += f*dz;` -/
@[inline] def addTo (acc : Acc K) (i : Nat) (f : K) (d : V3 K) : Acc K :=
  acc.modify i (fun a => ⟨a.x + f * d.x, a.y + f * d.y, a.z + f * d.z⟩)

/-- `(double)i` for a (possibly negative) int -/
def ofInt (i : Int) : K :=
  if i < 0 then Scalar.neg (Scalar.ofNat (-i).toNat) else Scalar.ofNat i.toNat

/-! ## ghost boxes (boundary.c:148-199) -/

/-- `for (int gbx=-n; gbx<=n; gbx++)` -/
def ghostIdx (n : Nat) : List Int := (List.range (2 * n + 1)).map (fun (t : Nat) => Int.ofNat t - Int.ofNat n)

/-- position part of `reb_boundary_get_ghostbox` for OPEN and PERIODIC boundaries
    (`shifted = true`) and for NONE (`default:` branch, the zero box). -/
def ghostbox (shifted : Bool) (bs : V3 K) (i j k : Int) : V3 K :=
  if shifted then ⟨bs.x * ofInt i, bs.y * ofInt j, bs.z * ofInt k⟩ else V3.zero

/-- the triple ghost-box loop of BASIC / TREE in iteration order -/
def ghostList (shifted : Bool) (bs : V3 K) (nx ny nz : Nat) : List (V3 K) :=
  (ghostIdx nx).flatMap fun i => (ghostIdx ny).flatMap fun j => (ghostIdx nz).map fun k =>
    ghostbox shifted bs i j k

/-- position part of `reb_boundary_get_ghostbox` for REB_BOUNDARY_SHEAR (boundary.c:161-184):
    ghost column `i` moves with `vy = -1.5*i*OMEGA*boxsize.x`; its y-shift `vy*t` is wrapped with
    C `fmod` by three different formulas for `i==0`, `i>0`, `i<0`. -/
def ghostboxShear (fmod : K → K → K) (bs : V3 K) (omega t : K) (i j k : Int) : V3 K :=
  let c15 : K := Scalar.ofNat 3 / Scalar.ofNat 2
  let vy := (-c15) * ofInt i * omega * bs.x
  let two : K := Scalar.ofNat 2
  let shift :=
    if i == 0 then -(fmod (vy * t) bs.y)
    else if i > 0 then -(fmod (vy * t - bs.y / two) bs.y) - bs.y / two
    else -(fmod (vy * t + bs.y / two) bs.y) + bs.y / two
  ⟨bs.x * ofInt i, bs.y * ofInt j - shift, bs.z * ofInt k⟩

def ghostListShear (fmod : K → K → K) (bs : V3 K) (omega t : K) (nx ny nz : Nat) : List (V3 K) :=
  (ghostIdx nx).flatMap fun i => (ghostIdx ny).flatMap fun j => (ghostIdx nz).map fun k =>
    ghostboxShear fmod bs omega t i j k

/-! ## scalar kernels -/

/-- BASIC/JACOBI/MERCURIUS/TRACE/TREE: `_r = sqrt(s); G/(_r*_r*_r)` -/
@[inline] def kernCube (sqrt : K → K) (G s : K) : K :=
  let r := sqrt s
  G / (r * r * r)

/-- COMPENSATED: `r = sqrt(r2); G/(r2*r)` -/
@[inline] def kernComp (sqrt : K → K) (G s : K) : K :=
  let r := sqrt s
  G / (s * r)

/-! ## the pair update shared by BASIC, MERCURIUS, TRACE (gravity.c:164-177 etc.) -/

/-- one execution of the inner loop body for the ordered pair `(i,j)` with ghost shift `gb`:
    `a_i += prefactj*d`, and, if `both`, `a_j += prefacti*d`, `d = (gb + x_i) - x_j`. -/
@[inline] def pairStep (pref : K → Nat → Nat → K) (soft2 : K) (ps : Array (Body K)) (gb : V3 K)
    (both : Bool) (acc : Acc K) (i j : Nat) : Acc K :=
  match ps[i]?, ps[j]? with
  | some pi, some pj =>
    let dx := (gb.x + pi.p.x) - pj.p.x
    let dy := (gb.y + pi.p.y) - pj.p.y
    let dz := (gb.z + pi.p.z) - pj.p.z
    let s := dx * dx + dy * dy + dz * dz + soft2
    let prefact := pref s i j
    let prefactj := (-prefact) * pj.m
    let acc := addTo acc i prefactj ⟨dx, dy, dz⟩
    if both then
      let prefacti := prefact * pi.m
      addTo acc j prefacti ⟨dx, dy, dz⟩
    else acc
  | _, _ => acc   -- unreachable: every loop below is bounded by ps.size

structure Cfg (K : Type) where
  nActive : Nat          -- `_N_active` (already resolved: N_active==-1 ↦ N)
  tpType  : Bool         -- `_testparticle_type`
  ignore  : Nat          -- `_gravity_ignore_terms`
  soft    : K            -- `r->softening`

/-! ## REB_GRAVITY_BASIC (gravity.c:139-247) -/

/-- one ghost box: the active-active loop nest followed by the test-particle loop nest -/
def basicBox (pref : K → Nat → Nat → K) (cfg : Cfg K) (ps : Array (Body K)) (acc : Acc K)
    (gb : V3 K) : Acc K :=
  let soft2 := cfg.soft * cfg.soft
  let starti := if cfg.ignore == 0 then 1 else 2
  let startj := if cfg.ignore == 2 then 1 else 0
  let acc := forRange starti cfg.nActive acc fun acc i =>
    forRange startj i acc fun acc j => pairStep pref soft2 ps gb true acc i j
  let startitestp := max cfg.nActive starti
  forRange startitestp ps.size acc fun acc i =>
    forRange startj cfg.nActive acc fun acc j => pairStep pref soft2 ps gb cfg.tpType acc i j

def accBasic (pref : K → Nat → Nat → K) (cfg : Cfg K) (ghosts : List (V3 K))
    (ps : Array (Body K)) : Acc K :=
  ghosts.foldl (basicBox pref cfg ps) (Array.replicate ps.size V3.zero)

/-! ## REB_GRAVITY_COMPENSATED (gravity.c:248-488): Kahan-compensated accumulation -/

/-- the 5-line compensated update block for one component triple:
    `ix = f*dx; yx = ix - cs; tx = a + yx; cs = (tx - a) - yx; a = tx`. -/
@[inline] def kahanTo (st : Array (V3 K × V3 K)) (i : Nat) (f : K) (d : V3 K) : Array (V3 K × V3 K) :=
  st.modify i fun (a, c) =>
    let ix := f * d.x
    let yx := ix - c.x
    let tx := a.x + yx
    let cx := (tx - a.x) - yx
    let iy := f * d.y
    let yy := iy - c.y
    let ty := a.y + yy
    let cy := (ty - a.y) - yy
    let iz := f * d.z
    let yz := iz - c.z
    let tz := a.z + yz
    let cz := (tz - a.z) - yz
    (⟨tx, ty, tz⟩, ⟨cx, cy, cz⟩)

/-- the two `continue` tests shared by all COMPENSATED loops -/
@[inline] def compSkip (ignore i j : Nat) : Bool :=
  (ignore == 1 && ((j == 1 && i == 0) || (i == 1 && j == 0))) ||
  (ignore == 2 && (j == 0 || i == 0))

@[inline] def pairComp (kern : K → K) (soft2 : K) (ps : Array (Body K)) (doI doJ : Bool)
    (st : Array (V3 K × V3 K)) (i j : Nat) : Array (V3 K × V3 K) :=
  match ps[i]?, ps[j]? with
  | some pi, some pj =>
    let dx := pi.p.x - pj.p.x
    let dy := pi.p.y - pj.p.y
    let dz := pi.p.z - pj.p.z
    let r2 := dx * dx + dy * dy + dz * dz + soft2
    let prefact := kern r2
    let st := if doI then kahanTo st i ((-prefact) * pj.m) ⟨dx, dy, dz⟩ else st
    if doJ then kahanTo st j (prefact * pi.m) ⟨dx, dy, dz⟩ else st
  | _, _ => st

def accCompSt (kern : K → K) (cfg : Cfg K) (ps : Array (Body K)) : Array (V3 K × V3 K) :=
  let soft2 := cfg.soft * cfg.soft
  let st : Array (V3 K × V3 K) := Array.replicate ps.size (V3.zero, V3.zero)
  let st := forRange 0 cfg.nActive st fun st i =>
    forRange (i + 1) cfg.nActive st fun st j =>
      if compSkip cfg.ignore i j then st else pairComp kern soft2 ps true true st i j
  forRange cfg.nActive ps.size st fun st i =>
    forRange 0 cfg.nActive st fun st j =>
      if compSkip cfg.ignore i j then st else pairComp kern soft2 ps true cfg.tpType st i j

def accComp (kern : K → K) (cfg : Cfg K) (ps : Array (Body K)) : Acc K :=
  (accCompSt kern cfg ps).map Prod.fst

/-! ## REB_GRAVITY_JACOBI (gravity.c:81-138) -/

structure JacSt (K : Type) where
  acc : Acc K
  R   : V3 K
  M   : K

/-- body of the `for (int i=0; i<j+1; i++)` loop -/
@[inline] def jacInner (kern : K → K) (G : K) (sqrt : K → K) (nActive : Nat) (ps : Array (Body K))
    (R : V3 K) (M : K) (j : Nat) (acc : Acc K) (i : Nat) : Acc K :=
  match ps[i]?, ps[j]? with
  | some pi, some pj =>
    let acc :=
      if 1 < j then
        let qx := pj.p.x - R.x / M
        let qy := pj.p.y - R.y / M
        let qz := pj.p.z - R.z / M
        let dr := sqrt (qx * qx + qy * qy + qz * qz)
        let dQ := if i < j then -pj.m else M
        let prefact := G * dQ / (dr * dr * dr)
        addTo acc i prefact ⟨qx, qy, qz⟩
      else acc
    -- `if (i!=j && (i!=0 || j!=1) && (i<_N_active || j<_N_active))`
    if i != j && (i != 0 || j != 1) && (decide (i < nActive) || decide (j < nActive)) then
      let dx := pi.p.x - pj.p.x
      let dy := pi.p.y - pj.p.y
      let dz := pi.p.z - pj.p.z
      let prefact := kern (dx * dx + dy * dy + dz * dz)
      let prefacti := prefact * pi.m
      let prefactj := prefact * pj.m
      -- `particles[i].ax -= prefactj*dx`
      let acc := acc.modify i fun a => ⟨a.x - prefactj * dx, a.y - prefactj * dy, a.z - prefactj * dz⟩
      addTo acc j prefacti ⟨dx, dy, dz⟩
    else acc
  | _, _ => acc

def accJacobi (kern : K → K) (G : K) (sqrt : K → K) (nActive : Nat) (ps : Array (Body K))
    (init : Acc K) : Acc K :=
  let st : JacSt K := ⟨init, V3.zero, Scalar.zero⟩
  let st := forRange 0 ps.size st fun st j =>
    let acc := st.acc.setIfInBounds j V3.zero
    let acc := forRange 0 (j + 1) acc (jacInner kern G sqrt nActive ps st.R st.M j)
    match ps[j]? with
    | some pj =>
      ⟨acc, ⟨st.R.x + pj.m * pj.p.x, st.R.y + pj.m * pj.p.y, st.R.z + pj.m * pj.p.z⟩, st.M + pj.m⟩
    | none => ⟨acc, st.R, st.M⟩
  st.acc

/-! ## REB_GRAVITY_MERCURIUS (gravity.c:519-753) -/

/-- `MAX(a,b) = ((a) > (b) ? (a) : (b))` -/
@[inline] def cmax (gt : K → K → Bool) (a b : K) : K := if gt a b then a else b

/-- `y = (d-0.1*dcrit)/(0.9*dcrit)` and the two clamps shared by all changeover functions;
    `poly` is the expression of the `else` branch -/
@[inline] def changeover (lt : K → K → Bool) (poly : K → K) (d dcrit : K) : K :=
  let c01 : K := Scalar.one / Scalar.ofNat 10
  let c09 : K := Scalar.ofNat 9 / Scalar.ofNat 10
  let y := (d - c01 * dcrit) / (c09 * dcrit)
  if lt y Scalar.zero then Scalar.zero
  else if lt Scalar.one y then Scalar.one
  else poly y

/-- `10.*(y*y*y) - 15.*(y*y*y*y) + 6.*(y*y*y*y*y)` (integrator_mercurius.c:49) -/
def polyMercury (y : K) : K :=
  Scalar.ofNat 10 * (y * y * y) - Scalar.ofNat 15 * (y * y * y * y) + Scalar.ofNat 6 * (y * y * y * y * y)

/-- `(70.*y*y*y*y -315.*y*y*y +540.*y*y -420.*y +126.)*y*y*y*y*y` (integrator_mercurius.c:61) -/
def polyC4 (y : K) : K :=
  (Scalar.ofNat 70 * y * y * y * y - Scalar.ofNat 315 * y * y * y + Scalar.ofNat 540 * y * y
    - Scalar.ofNat 420 * y + Scalar.ofNat 126) * y * y * y * y * y

/-- `(-252.*y*y*y*y*y +1386.*y*y*y*y -3080.*y*y*y +3465.*y*y -1980.*y +462.)*y*y*y*y*y*y` -/
def polyC5 (y : K) : K :=
  ((-(Scalar.ofNat 252 : K)) * y * y * y * y * y + Scalar.ofNat 1386 * y * y * y * y
    - Scalar.ofNat 3080 * y * y * y + Scalar.ofNat 3465 * y * y - Scalar.ofNat 1980 * y
    + Scalar.ofNat 462) * y * y * y * y * y * y

/-- mode 0 pair prefactor: `G*L/(_r*_r*_r)` with `L = _L(r,_r,MAX(dcrit[i],dcrit[j]))` -/
@[inline] def prefMerc0 (sqrt : K → K) (gt : K → K → Bool) (L : K → K → K) (G : K) (dcrit : Array K)
    (s : K) (i j : Nat) : K :=
  match dcrit[i]?, dcrit[j]? with
  | some di, some dj =>
    let r := sqrt s
    let l := L r (cmax gt di dj)
    G * l / (r * r * r)
  | _, _ => Scalar.zero

/-- mode 1 pair prefactor: `G*(1.-L)/(_r*_r*_r)` -/
@[inline] def prefMerc1 (sqrt : K → K) (gt : K → K → Bool) (L : K → K → K) (G : K) (dcrit : Array K)
    (s : K) (i j : Nat) : K :=
  match dcrit[i]?, dcrit[j]? with
  | some di, some dj =>
    let r := sqrt s
    let l := L r (cmax gt di dj)
    G * (Scalar.one - l) / (r * r * r)
  | _, _ => Scalar.zero

/-- mode 0 (the "WHFast part"): BASIC loop nest with `starti=2, startj=1`, no ghost boxes -/
def accMerc0 (pref : K → Nat → Nat → K) (cfg : Cfg K) (ps : Array (Body K)) : Acc K :=
  let soft2 := cfg.soft * cfg.soft
  let acc : Acc K := Array.replicate ps.size V3.zero
  let acc := forRange 2 cfg.nActive acc fun acc i =>
    forRange 1 i acc fun acc j => pairStep pref soft2 ps V3.zero true acc i j
  let startitestp := max cfg.nActive 2
  forRange startitestp ps.size acc fun acc i =>
    forRange 1 cfg.nActive acc fun acc j => pairStep pref soft2 ps V3.zero cfg.tpType acc i j

/-- the pair update of the encounter loops: like `pairStep` without ghost shift
    (`dx = particles[mi].x - particles[mj].x`) on mapped indices; the prefactor function is
    evaluated on the *mapped* indices (it reads `dcrit[mi]` / `current_Ks[mj*N+mi]`). -/
@[inline] def pairMap (pref : K → Nat → Nat → K) (soft2 : K) (ps : Array (Body K)) (map : Array Nat)
    (both : Bool) (acc : Acc K) (i j : Nat) : Acc K :=
  match map[i]?, map[j]? with
  | some mi, some mj =>
    match ps[mi]?, ps[mj]? with
    | some pi, some pj =>
      let dx := pi.p.x - pj.p.x
      let dy := pi.p.y - pj.p.y
      let dz := pi.p.z - pj.p.z
      let s := dx * dx + dy * dy + dz * dz + soft2
      let prefact := pref s mi mj
      let prefactj := (-prefact) * pj.m
      let acc := addTo acc mi prefactj ⟨dx, dy, dz⟩
      if both then addTo acc mj (prefact * pi.m) ⟨dx, dy, dz⟩ else acc
    | _, _ => acc
  | _, _ => acc

/-- "Acceleration due to star" loop: `particles[mi].a = (-G/(_r*_r*_r)*m0) * x` (assignment) -/
def starLoop (starPref : K → K) (soft2 : K) (ps : Array (Body K)) (map : Array Nat) (encN : Nat)
    (acc : Acc K) : Acc K :=
  forRange 1 encN acc fun acc i =>
    match map[i]? with
    | some mi =>
      match ps[mi]? with
      | some p =>
        let x := p.p.x
        let y := p.p.y
        let z := p.p.z
        let prefact := starPref (x * x + y * y + z * z + soft2)
        acc.setIfInBounds mi ⟨prefact * x, prefact * y, prefact * z⟩
      | none => acc
    | none => acc

/-- mode 1 (the "IAS15 part") and the TRACE Kepler mode share this shape: star term by
    assignment for the encounter particles, then the two pair loop nests over
    `encounter_map`; `skip mi mj` is TRACE's `!current_Ks[mj*N+mi]` test (always false for
    MERCURIUS).  TRACE's extra `if (encounter_N_active > 2)` around the first nest is implied
    by the loop bound `i=2; i<encounter_N_active`. -/
def accEnc (pref : K → Nat → Nat → K) (starPref : K → K) (skip : Nat → Nat → Bool)
    (soft : K) (tpType : Bool) (ps : Array (Body K)) (map : Array Nat) (encN encNa : Nat)
    (init : Acc K) : Acc K :=
  let soft2 := soft * soft
  let acc := init.setIfInBounds 0 V3.zero
  let acc := starLoop starPref soft2 ps map encN acc
  let acc := forRange 2 encNa acc fun acc i =>
    forRange 1 i acc fun acc j =>
      match map[i]?, map[j]? with
      | some mi, some mj => if skip mi mj then acc else pairMap pref soft2 ps map true acc i j
      | _, _ => acc
  let startitestp := max encNa 2
  forRange startitestp encN acc fun acc i =>
    forRange 1 encNa acc fun acc j =>
      match map[i]?, map[j]? with
      | some mi, some mj => if skip mi mj then acc else pairMap pref soft2 ps map tpType acc i j
      | _, _ => acc

/-! ## REB_GRAVITY_TRACE (gravity.c:755-990) -/

/-- interaction mode: MERCURIUS mode 0 nest with `if (current_Ks[j*N+i]) continue;` and
    the plain prefactor `G/(_r*_r*_r)` -/
def accTrace0 (pref : K → Nat → Nat → K) (ks : Nat → Nat → Bool) (cfg : Cfg K)
    (ps : Array (Body K)) : Acc K :=
  let soft2 := cfg.soft * cfg.soft
  let acc : Acc K := Array.replicate ps.size V3.zero
  let acc := forRange 2 cfg.nActive acc fun acc i =>
    forRange 1 i acc fun acc j =>
      if ks j i then acc else pairStep pref soft2 ps V3.zero true acc i j
  let startitestp := max cfg.nActive 2
  forRange startitestp ps.size acc fun acc i =>
    forRange 1 cfg.nActive acc fun acc j =>
      if ks j i then acc else pairStep pref soft2 ps V3.zero cfg.tpType acc i j

/-! ## REB_GRAVITY_TREE: the walk (gravity.c:1435-1487), monopole only -/

inductive Cell (K : Type) where
  | leaf (pt : Nat) (remote : Bool) (m : K) (com : V3 K)
  | node (w : K) (m : K) (com : V3 K) (kids : List (Cell K))

mutual
/-- `reb_calculate_acceleration_for_particle_from_cell`; `gb` = ghost shift + particle
    position (precomputed by the caller), `a` = the particle's acceleration so far. -/
def walk (starPref : K → K) (gt : K → K → Bool) (soft2 theta2 : K) (pt : Nat) (gb : V3 K) :
    Cell K → V3 K → V3 K
  | .leaf p remote m com, a =>
    if !remote && p == pt then a
    else
      let dx := gb.x - com.x
      let dy := gb.y - com.y
      let dz := gb.z - com.z
      let r2 := dx * dx + dy * dy + dz * dz
      let prefact := starPref (r2 + soft2) * m
      ⟨a.x + prefact * dx, a.y + prefact * dy, a.z + prefact * dz⟩
  | .node w m com kids, a =>
    let dx := gb.x - com.x
    let dy := gb.y - com.y
    let dz := gb.z - com.z
    let r2 := dx * dx + dy * dy + dz * dz
    if gt (w * w) (theta2 * r2) then walkList starPref gt soft2 theta2 pt gb kids a
    else
      let prefact := starPref (r2 + soft2) * m
      ⟨a.x + prefact * dx, a.y + prefact * dy, a.z + prefact * dz⟩
def walkList (starPref : K → K) (gt : K → K → Bool) (soft2 theta2 : K) (pt : Nat) (gb : V3 K) :
    List (Cell K) → V3 K → V3 K
  | [], a => a
  | c :: cs, a => walkList starPref gt soft2 theta2 pt gb cs (walk starPref gt soft2 theta2 pt gb c a)
end

/-! ### monopole data of the cells (tree.c:217-283, `reb_simulation_update_tree_gravity_data_in_cell`, non-QUADRUPOLE) -/

def cellM : Cell K → K
  | .leaf _ _ m _ => m
  | .node _ m _ _ => m
def cellCom : Cell K → V3 K
  | .leaf _ _ _ c => c
  | .node _ _ c _ => c

/-- `node->mx += d->mx*d_m; …; node->m += d_m` over the non-NULL daughters, in octant order -/
def accumKids : K → V3 K → List (Cell K) → K × V3 K
  | m, s, [] => (m, s)
  | m, s, d :: r =>
    let dm := cellM d
    let dc := cellCom d
    accumKids (m + dm) ⟨s.x + dc.x * dm, s.y + dc.y * dm, s.z + dc.z * dm⟩ r

mutual
/-- one pass of `reb_simulation_update_tree_gravity_data_in_cell`: every leaf re-reads mass and position of
    its particle from the particle array, every non-leaf cell gets the total mass and (if `m_tot > 0`)
    the centre of mass of its daughters -/
def refreshCell (gt0 : K → Bool) (ps : Array (Body K)) : Cell K → Cell K
  | .leaf pt r m c =>
    match ps[pt]? with
    | some p => .leaf pt r p.m p.p
    | none => .leaf pt r m c
  | .node w _ _ kids =>
    let ks := refreshCells gt0 ps kids
    let (mt, s) := accumKids Scalar.zero V3.zero ks
    if gt0 mt then .node w mt ⟨s.x / mt, s.y / mt, s.z / mt⟩ ks else .node w mt s ks
def refreshCells (gt0 : K → Bool) (ps : Array (Body K)) : List (Cell K) → List (Cell K)
  | [] => []
  | c :: cs => refreshCell gt0 ps c :: refreshCells gt0 ps cs
end

mutual
/-- preorder list of the monopole data (m, mx, my, mz) of all cells -/
def cellDataList : Cell K → List (K × V3 K)
  | .leaf _ _ m c => [(m, c)]
  | .node _ m c kids => (m, c) :: cellDataLists kids
def cellDataLists : List (Cell K) → List (K × V3 K)
  | [] => []
  | c :: cs => cellDataList c ++ cellDataLists cs
end

/-- TREE case of `reb_calculate_acceleration`: ghost boxes outermost, then particles, then roots -/
def accTree (starPref : K → K) (gt : K → K → Bool) (soft theta2 : K) (ghosts : List (V3 K))
    (roots : List (Cell K)) (ps : Array (Body K)) : Acc K :=
  let soft2 := soft * soft
  ghosts.foldl (fun acc gb =>
    forRange 0 ps.size acc fun acc i =>
      match ps[i]? with
      | some p =>
        let g : V3 K := ⟨gb.x + p.p.x, gb.y + p.p.y, gb.z + p.p.z⟩
        acc.modify i fun a => walkList starPref gt soft2 theta2 i g roots a
      | none => acc) (Array.replicate ps.size V3.zero)

end RV.Gravity
