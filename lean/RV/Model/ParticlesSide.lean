/-
  Per-particle side arrays of the integrators (property C14, model part 2): what
  reb_simulation_remove_particle / reb_simulation_add and the first lines of the integrators' steps do to
  arrays that are indexed by particle.

  mirrors  src/particle.c:401-412            TRACE: re-indexing of the close-encounter matrix `current_Ks`
                                             when a particle is removed during a step (both the loop as it
                                             was before 844bb77 and the repaired one)
           src/integrator_mercurius.c:436-476 MERCURIUS part1: realloc of `dcrit`, (zero fill, 4316980),
                                             synchronisation, recalculation — the order of reads and writes
           src/integrator_whfast.c:856-862, integrator_janus.c:172-176, integrator_bs.c:761-775,
           integrator_trace.c:526-534, integrator_mercurius.c:451-457, integrator_ias15.c:175-197
                                             the "regrow at the start of the step" policies, and the empty
                                             simulation (f0ce3d6)
  Memory is explicit: reads and writes are bounds-checked (`none` = outside the allocation), cells of a
  freshly `realloc`ed region are `none` (= uninitialised) until written.  Mathlib-free (drv_c14 links it).
-/
namespace RV.Particles.Side

/-! ## TRACE: `current_Ks`, an N×N matrix stored row by row -/

/-- `ks[dst] = ks[src]` on the flat array, both accesses inside the allocation -/
def copyCell {α : Type} (ks : List α) (dst src : Nat) : Option (List α) :=
  match ks[src]? with
  | none => none
  | some x => if dst < ks.length then some (ks.set dst x) else none

/-- index of row/column `i` of the new matrix in the old one -/
def skip (index i : Nat) : Nat := if i < index then i else i + 1

/-- the repaired inner loop (844bb77): `for (j…) Ks[i*new_N+j] = Ks[i_old*old_N+j_old];`, `cnt` columns left -/
def newRow {α : Type} (n newN index i : Nat) : Nat → Nat → List α → Option (List α)
  | 0, _, ks => some ks
  | cnt + 1, j, ks =>
    match copyCell ks (i * newN + j) (skip index i * n + skip index j) with
    | none => none
    | some ks' => newRow n newN index i cnt (j + 1) ks'

def newRows {α : Type} (n newN index : Nat) : Nat → Nat → List α → Option (List α)
  | 0, _, ks => some ks
  | cnt + 1, i, ks =>
    match newRow n newN index i newN 0 ks with
    | none => none
    | some ks' => newRows n newN index cnt (i + 1) ks'

/-- the repaired reshuffle, in place, for the removal of particle `index` out of `n` -/
def reshuffleNew {α : Type} (n index : Nat) (ks : List α) : Option (List α) :=
  newRows n (n - 1) index (n - 1) 0 ks

/-- the loop as found (before 844bb77):
    `counter = 0; for (i<new_N){ if (i==index) counter += N; for (j<new_N){ if (j==index) counter++;
       Ks[i*new_N+j] = Ks[i*new_N+j+counter]; } }` -/
def oldRow {α : Type} (newN index i : Nat) : Nat → Nat → Nat → List α → Option (List α × Nat)
  | 0, _, c, ks => some (ks, c)
  | cnt + 1, j, c, ks =>
    let c := if j = index then c + 1 else c
    match copyCell ks (i * newN + j) (i * newN + j + c) with
    | none => none
    | some ks' => oldRow newN index i cnt (j + 1) c ks'

def oldRows {α : Type} (n newN index : Nat) : Nat → Nat → Nat → List α → Option (List α)
  | 0, _, _, ks => some ks
  | cnt + 1, i, c, ks =>
    let c := if i = index then c + n else c
    match oldRow newN index i newN 0 c ks with
    | none => none
    | some (ks', c') => oldRows n newN index cnt (i + 1) c' ks'

def reshuffleOld {α : Type} (n index : Nat) (ks : List α) : Option (List α) :=
  oldRows n (n - 1) index (n - 1) 0 0 ks

/-- which loop the source under test contains -/
def reshuffle {α : Type} (reindexed : Bool) (n index : Nat) (ks : List α) : Option (List α) :=
  if reindexed then reshuffleNew n index ks else reshuffleOld n index ks

/-- the specification: entry (i, j) of the matrix with row and column `index` deleted -/
def deleteRowCol {α : Type} (n index : Nat) (ks : List α) (i j : Nat) : Option α :=
  ks[skip index i * n + skip index j]?

/-- the (n-1)×(n-1) leading block of a result, entry by entry, against the specification -/
def agreesWithSpec {α : Type} [DecidableEq α] (n index : Nat) (ks out : List α) : Bool :=
  (List.range (n - 1)).all fun i => (List.range (n - 1)).all fun j =>
    decide (out[i * (n - 1) + j]? = deleteRowCol n index ks i j)

/-- a matrix whose entries are all different: entry = flat position -/
def idMatrix (n : Nat) : List Nat := List.range (n * n)

/-! ## TRACE: enlarging `current_Ks` when a particle is added during a step (particle.c:121-138) -/

/-- `for (j = old_N-1; j >= 0; j--) Ks[i*old_N+j+i] = Ks[i*old_N+j];` — `cnt` = columns still to do (j = cnt-1 … 0) -/
def growRow {α : Type} (oldN i : Nat) : Nat → List α → Option (List α)
  | 0, ks => some ks
  | cnt + 1, ks =>
    match copyCell ks (i * oldN + cnt + i) (i * oldN + cnt) with
    | none => none
    | some ks' => growRow oldN i cnt ks'

/-- `for (i = old_N-1; i >= 0; i--) …` — `cnt` = rows still to do -/
def growRows {α : Type} (oldN : Nat) : Nat → List α → Option (List α)
  | 0, ks => some ks
  | cnt + 1, ks =>
    match growRow oldN cnt oldN ks with
    | none => none
    | some ks' => growRows oldN cnt ks'

def setCell {α : Type} (ks : List α) (k : Nat) (v : α) : Option (List α) :=
  if k < ks.length then some (ks.set k v) else none

def setCells {α : Type} (v : α) : List Nat → List α → Option (List α)
  | [], ks => some ks
  | k :: rest, ks => match setCell ks k v with | none => none | some ks' => setCells v rest ks'

/-- the TRACE part of `reb_simulation_add` during a step, on an array already allocated for the new N = oldN+1:
    re-index the old block backwards in place, [repaired: clear the new row and column,] then flag the new particle's pair with
    every member `enc` of the current encounter (`encounter_map[1 .. encounter_N)`, the star excluded) -/
def ksAdd {α : Type} (clear : Bool) (oldN : Nat) (enc : List Nat) (zero one : α) (ks : List α) : Option (List α) :=
  match growRows oldN oldN ks with
  | none => none
  | some k1 =>
    let cleared :=
      if clear then
        setCells zero ((List.range (oldN + 1)).map (fun i => i * (oldN + 1) + oldN) ++
                       (List.range (oldN + 1)).map (fun i => oldN * (oldN + 1) + i)) k1
      else some k1
    match cleared with
    | none => none
    | some k2 => setCells one (enc.map fun i => i * (oldN + 1) + oldN) k2


/-! ## MERCURIUS: `dcrit` in part1 — which cells are read before they are written -/

structure Merc where
  dcrit : List (Option Nat)     -- `none` = allocated but never written
  recalcR : Bool
  recalcC : Bool
  safeMode : Bool
  synced : Bool
deriving DecidableEq, Repr

/-- `reb_integrator_mercurius_synchronize` → gravity (mode 0) evaluates the switching function with
    `dcrit[i]` of every particle: `true` = some cell it reads was never written (or lies outside) -/
def readsUninit (d : List (Option Nat)) (n : Nat) : Bool :=
  (List.range n).any fun i => match d[i]? with | some (some _) => false | _ => true

/-- the first lines of `reb_integrator_mercurius_part1` as far as `dcrit` is concerned.  `vals i` = the critical
    radius the recalculation computes for particle `i`.  Second component: an uninitialised cell was read. -/
def part1 (zeroFill : Bool) (m : Merc) (n : Nat) (vals : Nat → Nat) : Merc × Bool :=
  -- if (N_allocated_dcrit < N){ realloc; [zero fill]; recalculate_r_crit = recalculate_coordinates = 1; }
  let m1 : Merc :=
    if m.dcrit.length < n then
      { m with dcrit := m.dcrit ++ List.replicate (n - m.dcrit.length) (if zeroFill then some 0 else none),
               recalcR := true, recalcC := true }
    else m
  -- if (safe_mode || recalculate_coordinates){ if (!is_synchronized) synchronize(); …; recalculate_coordinates = 0; }
  let (m2, bad2) : Merc × Bool :=
    if m1.safeMode || m1.recalcC then
      (if !m1.synced then ({ m1 with synced := true, recalcC := false }, readsUninit m1.dcrit n)
       else ({ m1 with recalcC := false }, false))
    else (m1, false)
  -- if (recalculate_r_crit){ …; if (!is_synchronized) synchronize(); …; for (i<N) dcrit[i] = …; }
  if m2.recalcR then
    let bad3 := if !m2.synced then readsUninit m2.dcrit n else false
    ({ m2 with recalcR := false, synced := true, recalcC := if !m2.synced then false else m2.recalcC,
               dcrit := (List.range m2.dcrit.length).map fun i =>
                 if i < n then some (vals i) else m2.dcrit[i]?.join }, bad2 || bad3)
  else (m2, bad2)

def allInit (d : List (Option Nat)) : Bool := d.all Option.isSome

/-! ## "regrow at the start of the step" -/

/-- `if (N_allocated != N)` (WHFast/SABA `p_jh`, JANUS `p_int`, BS `nbody_ode`) or
    `if (N_allocated < N)` (MERCURIUS, TRACE, IAS15) -/
inductive Policy
  | exact
  | growOnly
deriving DecidableEq, Repr

/-- what kind of side array an integrator keeps -/
structure Kind where
  policy : Policy
  /-- the coordinate transformations write the centre-of-mass slot 0 whatever `N` is (WHFast, SABA) -/
  slot0 : Bool
  /-- the step returns before touching the array when the simulation is empty (f0ce3d6) -/
  skipEmpty : Bool
deriving DecidableEq, Repr

def regrow : Policy → Nat → Nat → Nat
  | .exact, alloc, n => if alloc ≠ n then n else alloc
  | .growOnly, alloc, n => if alloc < n then n else alloc

/-- the slots a step touches -/
def touched (k : Kind) (n : Nat) : List Nat :=
  if k.skipEmpty && n == 0 then [] else List.range n ++ (if k.slot0 then [0] else [])

structure SideState where
  alloc : Nat
  n : Nat
deriving DecidableEq, Repr

inductive SideOp
  | setN (n : Nat)       -- the net effect of the adds / removes / remove_all between two steps
  | step
deriving DecidableEq, Repr

/-- second component: every slot the operation touched lies inside the allocation -/
def sideStep (k : Kind) (s : SideState) : SideOp → SideState × Bool
  | .setN n => ({ s with n := n }, true)
  | .step =>
    if k.skipEmpty && s.n == 0 then (s, true) else
    let a := regrow k.policy s.alloc s.n
    ({ s with alloc := a }, (touched k s.n).all fun i => decide (i < a))

def sideRun (k : Kind) : SideState → List SideOp → SideState × Bool
  | s, [] => (s, true)
  | s, op :: rest =>
    let r := sideStep k s op
    let r' := sideRun k r.1 rest
    (r'.1, r.2 && r'.2)

end RV.Particles.Side
