import RV.Scalar
/-
  The operations (beyond + − × ÷) that the C20 models need: comparisons, `sqrt`, `sin`,
  `cos`, `fabs`, `acos`, C99 `isnormal`, and the integer power of CPython floats.  Kept as a private extension of the fixed core
  class `Scalar` (rather than of the shared, still growing `ScalarT`) so that the exact
  instances in RV/Proofs/C20*.lean do not have to be touched when other models add libm
  functions to `ScalarT`.
-/
namespace RV

class ScalarR (K : Type) extends Scalar K where
  lt : K → K → Bool
  le : K → K → Bool
  sqrt : K → K
  sin  : K → K
  cos  : K → K
  fabs : K → K
  acos : K → K
  /-- C99 `isnormal`: finite, non-zero, not subnormal -/
  isnormal : K → Bool

def floatIsNormal (x : Float) : Bool :=
  x.isFinite && (Float.ofBits 0x0010000000000000 ≤ x.abs)

instance : ScalarR Float where
  lt a b := a < b
  le a b := a ≤ b
  sqrt := Float.sqrt
  sin := Float.sin
  cos := Float.cos
  fabs := Float.abs
  acos := Float.acos
  isnormal := floatIsNormal

/-- what the unit conversions of rebound/units.py need beyond + − × ÷: `x**n` of CPython for a
    float `x` and a small integer literal `n`, i.e. libm `pow(x, (double)n)` -/
class ScalarP (K : Type) extends Scalar K where
  powi : K → Nat → K

instance : ScalarP Float where
  powi x n := Float.pow x (Float.ofNat n)

end RV
